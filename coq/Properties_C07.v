(* Properties_C07.v -- C07: backend vector and matrix-vector primitives equal their
   algebraic definitions.  Statements only; proofs live in KernelsProofs.v.
   "any S": holds for every Scalar record (so also for floats with NaN/Inf);
   "ring": for every commutative ring with decidable equality, closed at Qc;
   "nc ring": for every NON-commutative ring (block values static_matrix<T,b,b>), closed at BlockS QcS b;
   complex values: ComplexS T (std::complex<T>), a commutative ring with conjugation, closed at ComplexS QcS. *)
From Amgcl Require Import Scalar QcInst Vec Crs Kernels KernelsProofs.
From Amgcl Require Import NcRing NcKernels NcKernelsProofs BlockInst NcRingBlock BlockKernels ComplexInst ComplexKernels.
Local Open Scope S_scope.

(* --- zero output coefficient: the old output content is irrelevant (any S) --- *)
Theorem C07_spmv_beta0_ignores_output (S : Scalar) alpha (A : crs S) x beta (y y' : vec S) :
  is_zero beta = true -> length y = nrows A -> length y' = nrows A ->
  spmv alpha A x beta y = spmv alpha A x beta y'.
Proof. exact (spmv_beta0_ignores_y alpha A x beta y y'). Qed.
Print Assumptions C07_spmv_beta0_ignores_output.

Theorem C07_residual_ignores_output (S : Scalar) f (A : crs S) x (r r' : vec S) :
  length f = nrows A -> length r = nrows A -> length r' = nrows A ->
  residual f A x r = residual f A x r'.
Proof. exact (residual_ignores_res f A x r r'). Qed.
Print Assumptions C07_residual_ignores_output.

Theorem C07_axpby_b0_ignores_output (S : Scalar) a (x : vec S) b (y y' : vec S) :
  is_zero b = true -> length y = length x -> length y' = length x ->
  axpby a x b y = axpby a x b y'.
Proof. exact (axpby_b0_ignores_y a x b y y'). Qed.
Print Assumptions C07_axpby_b0_ignores_output.

Theorem C07_axpbypcz_c0_ignores_output (S : Scalar) a (x : vec S) b (y : vec S) c (z z' : vec S) :
  is_zero c = true -> length y = length x -> length z = length x -> length z' = length x ->
  axpbypcz a x b y c z = axpbypcz a x b y c z'.
Proof. exact (axpbypcz_c0_ignores_z a x b y c z z'). Qed.
Print Assumptions C07_axpbypcz_c0_ignores_output.

Theorem C07_vmul_b0_ignores_output (S : Scalar) a (x y : vec S) b (z z' : vec S) :
  is_zero b = true -> length y = length x -> length z = length x -> length z' = length x ->
  vmul a x y b z = vmul a x y b z'.
Proof. exact (vmul_b0_ignores_z a x y b z z'). Qed.
Print Assumptions C07_vmul_b0_ignores_output.

Theorem C07_lin_comb_alpha0_ignores_output (S : Scalar) c0 (v0 : vec S) cv alpha (y y' : vec S) :
  is_zero alpha = true -> length y = length v0 -> length y' = length v0 ->
  lin_comb ((c0, v0) :: cv) alpha y = lin_comb ((c0, v0) :: cv) alpha y'.
Proof. exact (lin_comb_alpha0_ignores_y c0 v0 cv alpha y y'). Qed.
Print Assumptions C07_lin_comb_alpha0_ignores_output.

Theorem C07_copy (S : Scalar) (x y : vec S) : length y = length x -> vcopy x y = x.
Proof. exact (vcopy_spec x y). Qed.
Print Assumptions C07_copy.

Theorem C07_clear (S : Scalar) (x : vec S) i :
  vget (vclear x) i = s0 /\ length (vclear x) = length x.
Proof. split; [exact (vclear_spec x i) | exact (vclear_length x)]. Qed.
Print Assumptions C07_clear.

(* --- defining formulas (ring), element-wise; Ax A x i = sum_j A_ij x_j (dense semantics,
       duplicate entries add up) --- *)
Section Ring.
Variable S : Scalar.
Hypothesis Srt : Sring S.
Hypothesis Seqb : seqb_spec S.

Theorem C07_spmv_formula alpha (A : crs S) (x : vec S) beta (y : vec S) i :
  wf A = true -> length y = nrows A -> i < nrows A ->
  vget (spmv alpha A x beta y) i = alpha * Ax A x i + beta * vget y i.
Proof. exact (spmv_spec Srt Seqb alpha A x beta y i). Qed.

Theorem C07_residual_formula (f : vec S) (A : crs S) (x r : vec S) i :
  wf A = true -> length f = nrows A -> length r = nrows A -> i < nrows A ->
  vget (residual f A x r) i = vget f i - Ax A x i.
Proof. exact (residual_spec Srt f A x r i). Qed.

Theorem C07_axpby_formula a (x : vec S) b (y : vec S) i : length y = length x -> i < length x ->
  vget (axpby a x b y) i = a * vget x i + b * vget y i.
Proof. exact (axpby_spec Srt Seqb a x b y i). Qed.

Theorem C07_axpbypcz_formula a (x : vec S) b (y : vec S) c (z : vec S) i :
  length y = length x -> length z = length x -> i < length x ->
  vget (axpbypcz a x b y c z) i = a * vget x i + b * vget y i + c * vget z i.
Proof. exact (axpbypcz_spec Srt Seqb a x b y c z i). Qed.

Theorem C07_vmul_formula a (x y : vec S) b (z : vec S) i :
  length y = length x -> length z = length x -> i < length x ->
  vget (vmul a x y b z) i = a * vget x i * vget y i + b * vget z i.
Proof. exact (vmul_spec Srt Seqb a x y b z i). Qed.

(* for every number n >= 1 of terms (odd/even pairing loop) *)
Theorem C07_lin_comb_formula c0 (v0 : vec S) cv alpha (y : vec S) i :
  length v0 = length y -> all_len (length y) cv -> i < length y ->
  vget (lin_comb ((c0, v0) :: cv) alpha y) i = lc_sum ((c0, v0) :: cv) i + alpha * vget y i.
Proof. exact (lin_comb_spec Srt Seqb c0 v0 cv alpha y i). Qed.

(* Kahan-compensated serial inner product = sum_i x_i * adj(y_i) *)
Theorem C07_inner_product_serial (x y : vec S) : inner_product_serial x y = dot x y.
Proof. exact (inner_product_serial_spec Srt x y). Qed.

(* per-thread Kahan sums over ANY contiguous chunking that covers the range = serial value *)
Theorem C07_inner_product_parallel lens (x y : vec S) :
  length (combine x y) <= fold_right Nat.add 0 lens ->
  inner_product_parallel lens x y = inner_product_serial x y.
Proof. exact (inner_product_parallel_spec Srt lens x y). Qed.
End Ring.

(* closed instances at the exact rationals: no hypotheses left *)
Theorem C07_spmv_formula_Qc alpha (A : crs QcS) (x : vec QcS) beta (y : vec QcS) i :
  wf A = true -> length y = nrows A -> i < nrows A ->
  vget (spmv alpha A x beta y) i = alpha * Ax A x i + beta * vget y i.
Proof. exact (C07_spmv_formula QcS QcS_ring QcS_eqb alpha A x beta y i). Qed.
Print Assumptions C07_spmv_formula_Qc.

Theorem C07_lin_comb_formula_Qc c0 (v0 : vec QcS) cv alpha (y : vec QcS) i :
  length v0 = length y -> all_len (length y) cv -> i < length y ->
  vget (lin_comb ((c0, v0) :: cv) alpha y) i = lc_sum ((c0, v0) :: cv) i + alpha * vget y i.
Proof. exact (C07_lin_comb_formula QcS QcS_ring QcS_eqb c0 v0 cv alpha y i). Qed.
Print Assumptions C07_lin_comb_formula_Qc.

Theorem C07_inner_product_parallel_Qc lens (x y : vec QcS) :
  length (combine x y) <= fold_right Nat.add 0 lens ->
  inner_product_parallel lens x y = dot x y.
Proof.
  intro H. rewrite (C07_inner_product_parallel QcS QcS_ring lens x y H).
  exact (C07_inner_product_serial QcS QcS_ring x y).
Qed.
Print Assumptions C07_inner_product_parallel_Qc.

(* non-vacuity: a concrete non-trivial instance meets the hypotheses *)
Example C07_nonvacuous :
  let A : crs QcS := mkCrs 3 [[(0, qc 1 1); (1, qc 1 2)]; [(2, qc 3 1)]]%nat in
  wf A = true /\ length [qc 7 1; qc 8 1] = nrows A /\
  spmv (qc 2 1) A [qc 1 1; qc 2 1; qc 3 1] (qc 0 1) [qc 7 1; qc 8 1] = [qc 4 1; qc 18 1].
Proof. vm_compute. repeat split; reflexivity. Qed.

(* ================================================================== *)
(* Block and complex value types.
   "nc ring": every NON-commutative ring with decidable equality (ncring_theory, NcRing.v) -- the statements are
   literally the formulas above, which keep the operand order of the C++ (matrix entry LEFT of the vector entry,
   coefficient LEFT of everything, x_i * adj(y_i)); closed at BlockS QcS b = static_matrix<Q,b,b> for EVERY b. *)
Section NcRing.
Variable S : Scalar.
Hypothesis Hnc : ncring_theory S.
Hypothesis Seqb : seqb_spec S.

Theorem C07_nc_spmv_formula alpha (A : crs S) (x : vec S) beta (y : vec S) i :
  wf A = true -> length y = nrows A -> i < nrows A ->
  vget (spmv alpha A x beta y) i = alpha * Ax A x i + beta * vget y i.
Proof. exact (nc_spmv_spec Hnc Seqb alpha A x beta y i). Qed.

Theorem C07_nc_residual_formula (f : vec S) (A : crs S) (x r : vec S) i :
  wf A = true -> length f = nrows A -> length r = nrows A -> i < nrows A ->
  vget (residual f A x r) i = vget f i - Ax A x i.
Proof. exact (nc_residual_spec Hnc f A x r i). Qed.

Theorem C07_nc_axpby_formula a (x : vec S) b (y : vec S) i : length y = length x -> i < length x ->
  vget (axpby a x b y) i = a * vget x i + b * vget y i.
Proof. exact (nc_axpby_spec Hnc Seqb a x b y i). Qed.

Theorem C07_nc_axpbypcz_formula a (x : vec S) b (y : vec S) c (z : vec S) i :
  length y = length x -> length z = length x -> i < length x ->
  vget (axpbypcz a x b y c z) i = a * vget x i + b * vget y i + c * vget z i.
Proof. exact (nc_axpbypcz_spec Hnc Seqb a x b y c z i). Qed.

(* z_i' = (a * M_i) * y_i + b * z_i *)
Theorem C07_nc_vmul_formula a (x y : vec S) b (z : vec S) i :
  length y = length x -> length z = length x -> i < length x ->
  vget (vmul a x y b z) i = a * vget x i * vget y i + b * vget z i.
Proof. exact (nc_vmul_spec Hnc Seqb a x y b z i). Qed.

Theorem C07_nc_lin_comb_formula c0 (v0 : vec S) cv alpha (y : vec S) i :
  length v0 = length y -> all_len (length y) cv -> i < length y ->
  vget (lin_comb ((c0, v0) :: cv) alpha y) i = lc_sum ((c0, v0) :: cv) i + alpha * vget y i.
Proof. exact (nc_lin_comb_spec Hnc Seqb c0 v0 cv alpha y i). Qed.

(* sum_i x_i * adj(y_i), in that order; per-thread Kahan sums over any chunking give the same value *)
Theorem C07_nc_inner_product_serial (x y : vec S) : inner_product_serial x y = dot x y.
Proof. exact (nc_inner_product_serial_spec Hnc x y). Qed.

Theorem C07_nc_inner_product_parallel lens (x y : vec S) :
  length (combine x y) <= fold_right Nat.add 0 lens ->
  inner_product_parallel lens x y = inner_product_serial x y.
Proof. exact (nc_inner_product_parallel_spec Hnc lens x y). Qed.
End NcRing.
Print Assumptions C07_nc_spmv_formula.
Print Assumptions C07_nc_residual_formula.
Print Assumptions C07_nc_axpby_formula.
Print Assumptions C07_nc_axpbypcz_formula.
Print Assumptions C07_nc_vmul_formula.
Print Assumptions C07_nc_lin_comb_formula.
Print Assumptions C07_nc_inner_product_serial.
Print Assumptions C07_nc_inner_product_parallel.

(* static_matrix<T,b,b> over a commutative ring T: the hypotheses above hold (NcRingBlock.v) *)
Section Blocks.
Variable S0 : Scalar.
Variable b : nat.
Hypothesis Srt : Sring S0.
Hypothesis Seqb0 : seqb_spec S0.
Local Notation B := (BlockS S0 b).

Theorem C07_block_values_nc_ring : ncring_theory B /\ seqb_spec B.
Proof. exact (conj (BlockS_ncring S0 b Srt) (BlockS_eqb S0 b Seqb0)). Qed.

(* "block values": the block SpMV with base-scalar coefficients IS the scalar SpMV formula of the expanded
   (unblocked) matrix on the flattened vectors: component k of entry I is row I*b+k *)
Theorem C07_block_spmv_expanded (alpha beta : S0) (A : crs B) (X Y : list (blk S0 b)) I k :
  wf A = true -> length Y = nrows A -> I < nrows A -> k < b ->
  blk_get (vget (S := B) (spmv (S := B) (blk_embed S0 b alpha) A X (blk_embed S0 b beta) Y) I) k 0 =
  alpha * sumn (fun j => expand_get S0 b A (I * b + k) j * flat_get S0 b X j) (ncols A * b)
  + beta * flat_get S0 b Y (I * b + k).
Proof. exact (block_spmv_expanded S0 b Srt Seqb0 alpha beta A X Y I k). Qed.

Theorem C07_block_residual_expanded (F : list (blk S0 b)) (A : crs B) (X Rr : list (blk S0 b)) I k :
  wf A = true -> length F = nrows A -> length Rr = nrows A -> I < nrows A -> k < b ->
  blk_get (vget (S := B) (residual (S := B) F A X Rr) I) k 0 =
  flat_get S0 b F (I * b + k) - sumn (fun j => expand_get S0 b A (I * b + k) j * flat_get S0 b X j) (ncols A * b).
Proof. exact (block_residual_expanded S0 b Srt F A X Rr I k). Qed.

(* vector entries (static_matrix<T,b,1>, carried as column-0 blocks) stay vector entries, for ANY coefficients *)
Theorem C07_block_spmv_keeps_vector_entries (alpha beta : B) (A : crs B) (X Y : list (blk S0 b)) I :
  wf A = true -> length Y = nrows A -> I < nrows A ->
  (forall J, is_col S0 b (vget (S := B) X J)) -> is_col S0 b (vget (S := B) Y I) ->
  is_col S0 b (vget (S := B) (spmv (S := B) alpha A X beta Y) I).
Proof. exact (block_spmv_is_col S0 b Srt Seqb0 alpha beta A X Y I). Qed.

(* "scalar vectors may be passed where block vectors are expected with identical results"
   (backend::reinterpret_as_rhs): the block view of a scalar vector x has x[I*b+k] as component k of entry I,
   every entry is a vector entry, and the flattened block view is x *)
Theorem C07_scalar_vectors_as_block_vectors (x : vec S0) :
  length (bvec_of_flat S0 b x) = (length x / b)%nat /\
  (forall I k, I < length x / b -> k < b -> blk_get (vget (S := B) (bvec_of_flat S0 b x) I) k 0 = vget x (I * b + k)) /\
  (forall I, is_col S0 b (vget (S := B) (bvec_of_flat S0 b x) I)) /\
  (forall j, 0 < b -> j < length x / b * b -> flat_get S0 b (bvec_of_flat S0 b x) j = vget x j).
Proof.
  exact (conj (bvec_of_flat_length S0 b x) (conj (bvec_of_flat_get S0 b x)
        (conj (bvec_of_flat_is_col S0 b x) (flat_get_bvec_of_flat S0 b x)))).
Qed.

(* backend::inner_product on vectors with static_matrix<T,b,1> / static_matrix<T,b,b> entries:
   Kahan serial = per-thread Kahan for any chunking = sum over the entries of math::inner_product(x_i, y_i),
   where for vector entries math::inner_product(x_i, y_i) = sum_k x_i[k] * adj(y_i[k]) *)
Theorem C07_block_inner_product (x y : list (blk S0 b)) lens :
  length (combine x y) <= fold_right Nat.add 0 lens ->
  bvec_inner_serial S0 b x y = dot_g (R := S0) bvec_ip x y /\
  bvec_inner_parallel S0 b lens x y = bvec_inner_serial S0 b x y /\
  bmat_inner_serial S0 b x y = dot_g (R := B) bmat_ip x y /\
  bmat_inner_parallel S0 b lens x y = bmat_inner_serial S0 b x y.
Proof.
  intro H.
  exact (conj (bvec_inner_serial_spec S0 b Srt x y) (conj (bvec_inner_parallel_spec S0 b Srt lens x y H)
        (conj (bmat_inner_serial_spec S0 b Srt x y) (bmat_inner_parallel_spec S0 b Srt lens x y H)))).
Qed.

Theorem C07_block_entry_inner_product (x y : blk S0 b) :
  bvec_ip x y = dot (blk_col0 x) (blk_col0 y) /\
  (forall i j, i < b -> j < b ->
     blk_get (bmat_ip x y) i j = sumn (fun k => blk_get x k i * sadj (blk_get y k j)) b).
Proof. exact (conj (bvec_ip_spec S0 b Srt x y) (bmat_ip_get S0 b x y)). Qed.
End Blocks.
Print Assumptions C07_block_values_nc_ring.
Print Assumptions C07_block_spmv_expanded.
Print Assumptions C07_block_residual_expanded.
Print Assumptions C07_block_spmv_keeps_vector_entries.
Print Assumptions C07_scalar_vectors_as_block_vectors.
Print Assumptions C07_block_inner_product.
Print Assumptions C07_block_entry_inner_product.

(* ... and flattening the block view of a scalar vector whose length is a multiple of b gives the vector back *)
Theorem C07_scalar_vector_block_view_roundtrip (S0 : Scalar) (b : nat) (x : vec S0) :
  (length x / b * b)%nat = length x -> flat_of_bvec S0 b (bvec_of_flat S0 b x) = x.
Proof. exact (flat_of_bvec_of_flat S0 b x). Qed.
Print Assumptions C07_scalar_vector_block_view_roundtrip.

(* std::complex<T> over a commutative ring T *)
Section Complex.
Variable S0 : Scalar.
Hypothesis Srt : Sring S0.
Local Notation C := (ComplexS S0).

(* a commutative ring with an involutive automorphism: ALL the ring theorems above (the C07 formula and
   inner product theorems) apply to it *)
Theorem C07_complex_values_ring :
  Sring C /\ (seqb_spec S0 -> seqb_spec C) /\
  (forall a b : C, sadj (a + b) = sadj a + sadj b) /\ (forall a b : C, sadj (a * b) = sadj a * sadj b) /\
  (forall a : C, sadj (sadj a) = a).
Proof.
  exact (conj (ComplexS_ring S0 Srt) (conj (ComplexS_eqb S0)
        (conj (conj_add S0 Srt) (conj (conj_mul S0 Srt) (conj_invol S0 Srt))))).
Qed.

(* inner_product is linear in the first and CONJUGATE-linear in the second argument, Hermitian *)
Theorem C07_complex_inner_product_sesquilinear (a : C) (x y : vec C) :
  inner_product_serial (vscale a x) y = a * inner_product_serial x y /\
  inner_product_serial x (vscale a y) = sadj a * inner_product_serial x y /\
  sadj (inner_product_serial x y) = inner_product_serial y x.
Proof. exact (complex_inner_product_sesquilinear S0 Srt a x y). Qed.

Theorem C07_complex_inner_product_additive (x x' y y' : vec C) :
  length x = length x' -> length y = length y' ->
  inner_product_serial (vadd x x') y = inner_product_serial x y + inner_product_serial x' y /\
  inner_product_serial x (vadd y y') = inner_product_serial x y + inner_product_serial x y'.
Proof. exact (complex_inner_product_additive S0 Srt x x' y y'). Qed.

Theorem C07_complex_inner_product_parallel lens (a : C) (x y : vec C) :
  length (combine x y) <= fold_right Nat.add 0 lens ->
  inner_product_parallel lens x y = dot x y /\
  inner_product_parallel lens (vscale a x) y = a * inner_product_parallel lens x y /\
  inner_product_parallel lens x (vscale a y) = sadj a * inner_product_parallel lens x y.
Proof. exact (complex_inner_product_parallel S0 Srt lens a x y). Qed.

Theorem C07_complex_inner_product_self_real (x : vec C) : c_im (inner_product_serial x x) = s0.
Proof. exact (complex_inner_self_real S0 Srt x). Qed.
End Complex.
Print Assumptions C07_complex_values_ring.
Print Assumptions C07_complex_inner_product_sesquilinear.
Print Assumptions C07_complex_inner_product_additive.
Print Assumptions C07_complex_inner_product_parallel.
Print Assumptions C07_complex_inner_product_self_real.

(* closed instances: no hypotheses left *)
Theorem C07_block_spmv_formula_Qc (b : nat) alpha (A : crs (BlockS QcS b)) (x : vec (BlockS QcS b)) beta (y : vec (BlockS QcS b)) i :
  wf A = true -> length y = nrows A -> i < nrows A ->
  vget (spmv alpha A x beta y) i = alpha * Ax A x i + beta * vget y i.
Proof.
  exact (C07_nc_spmv_formula (BlockS QcS b) (BlockS_ncring QcS b QcS_ring) (BlockS_eqb QcS b QcS_eqb) alpha A x beta y i).
Qed.
Print Assumptions C07_block_spmv_formula_Qc.

Theorem C07_block_lin_comb_formula_Qc (b : nat) c0 (v0 : vec (BlockS QcS b)) cv alpha (y : vec (BlockS QcS b)) i :
  length v0 = length y -> all_len (length y) cv -> i < length y ->
  vget (lin_comb ((c0, v0) :: cv) alpha y) i = lc_sum ((c0, v0) :: cv) i + alpha * vget y i.
Proof.
  exact (C07_nc_lin_comb_formula (BlockS QcS b) (BlockS_ncring QcS b QcS_ring) (BlockS_eqb QcS b QcS_eqb) c0 v0 cv alpha y i).
Qed.
Print Assumptions C07_block_lin_comb_formula_Qc.

Theorem C07_block_spmv_expanded_Qc (b : nat) (alpha beta : QcS) (A : crs (BlockS QcS b)) (X Y : list (blk QcS b)) I k :
  wf A = true -> length Y = nrows A -> I < nrows A -> k < b ->
  blk_get (vget (S := BlockS QcS b) (spmv (S := BlockS QcS b) (blk_embed QcS b alpha) A X (blk_embed QcS b beta) Y) I) k 0 =
  alpha * sumn (fun j => expand_get QcS b A (I * b + k) j * flat_get QcS b X j) (ncols A * b)
  + beta * flat_get QcS b Y (I * b + k).
Proof. exact (C07_block_spmv_expanded QcS b QcS_ring QcS_eqb alpha beta A X Y I k). Qed.
Print Assumptions C07_block_spmv_expanded_Qc.

Theorem C07_complex_inner_product_sesquilinear_Qc (a : CQcS) (x y : vec CQcS) :
  inner_product_serial (vscale a x) y = a * inner_product_serial x y /\
  inner_product_serial x (vscale a y) = sadj a * inner_product_serial x y /\
  sadj (inner_product_serial x y) = inner_product_serial y x.
Proof. exact (C07_complex_inner_product_sesquilinear QcS QcS_ring a x y). Qed.
Print Assumptions C07_complex_inner_product_sesquilinear_Qc.

Theorem C07_complex_spmv_formula_Qc alpha (A : crs CQcS) (x : vec CQcS) beta (y : vec CQcS) i :
  wf A = true -> length y = nrows A -> i < nrows A ->
  vget (spmv alpha A x beta y) i = alpha * Ax A x i + beta * vget y i.
Proof. exact (C07_spmv_formula CQcS CQcS_ring CQcS_eqb alpha A x beta y i). Qed.
Print Assumptions C07_complex_spmv_formula_Qc.

(* non-vacuity: 2 x 2 blocks over Qc do NOT commute (so the operand order in the nc theorems is real information),
   and conjugation is not the identity *)
Example C07_blocks_do_not_commute :
  let a : BlockS QcS 2 := blk_of_list QcS 2 [qc 0 1; qc 1 1; qc 0 1; qc 0 1] in
  let c : BlockS QcS 2 := blk_of_list QcS 2 [qc 0 1; qc 0 1; qc 1 1; qc 0 1] in
  seqb (a * c) (c * a) = false.
Proof. vm_compute. reflexivity. Qed.

Example C07_conjugate_linear_in_second_argument :
  let i_ : CQcS := (qc 0 1, qc 1 1) in
  let x : vec CQcS := [(qc 1 1, qc 2 1); (qc 3 1, qc 4 1)] in
  let y : vec CQcS := [(qc 0 1, qc 1 1); (qc 1 1, qc 0 1)] in
  seqb (inner_product_serial x y) ((qc 5 1, qc 3 1) : T CQcS) = true /\
  seqb (inner_product_serial x (vscale i_ y)) ((qc 3 1, qc (-5) 1) : T CQcS) = true /\
  seqb (inner_product_serial (vscale i_ x) y) ((qc (-3) 1, qc 5 1) : T CQcS) = true.
Proof. vm_compute. repeat split; reflexivity. Qed.
