(* IlukExact.v -- "ILU(k) reproduces A on every admitted position for which no fill
   candidate was ever dropped", for the executable model [iluk] of Ilu.v
   (amgcl/relaxation/iluk.hpp:97-160 + sparse_vector 209-276).

   Background.  [kadd lfil w c v lev] DROPS a fill candidate when column c is absent from
   the work row and lev > lfil.  When a later update with a smaller level creates column c
   the dropped contribution is missing and (LU)_ij <> a_ij on that admitted position
   (IluRefute.v, 5x5 witness, k = 1).  This file proves the positive statement: exactness
   holds at (i,j) whenever no candidate for column j was dropped while row i was eliminated.

   Architecture.
   1. dense view of a work row ([xk_get]/[xk_has] through [kfind]); [kadd]/[kset]/[ksort]/filter
      lemmas ([kfind], [kadd], [kset] are all "first match", [ksort] is a permutation);
   2. instrumented replay ([kadd_drops], [xk_fill], [xk_step_replay], [xk_elim_replay],
      [iluk_step_dropped], [iluk_row_dropped]) + projection lemmas (the replay computes the
      work rows of the real functions);
   3. dense effect of the inner loop / of one [iluk_step] ([xk_fill_spec], [xk_step_spec]);
   4. row invariant [xk_Inv m w P] ("pivot columns < m eliminated; P = columns hit by a drop");
   5. row result [xk_row_spec] for given finished rows (Us, D);
   6. states [iluk_state], [iluk_dropped], [iluk_pivot]; induction over the rows;
   7. main theorems.

   Remark on the "no zero pivot" hypothesis.  D_k stores sinv (pivot_k).  A [field_theory]
   says nothing about sinv 0, so "D_k <> 0" implies "pivot_k <> 0" only if sinv 0 = 0 (true
   at QcS, where x/0 = 0).  Hence
     - [iluk_exact_where_never_dropped_pivot] : for every field, hypothesis on the pivots;
     - [iluk_exact_where_never_dropped]       : the requested statement (hypothesis D_k <> 0),
                                                with the extra hypothesis sinv s0 = s0;
     - [iluk_exact_where_never_dropped_Qc]    : the requested statement verbatim at QcS;
     - [iluk_exact_needs_inv0]                : without sinv 0 = 0 the requested statement is
                                                FALSE (field structure on Qc with 1/0 := 5). *)
From Coq Require Import ZifyBool Permutation.
From Amgcl Require Import Scalar Vec Crs Kernels KernelsProofs MatOps Relax Ilu.
Local Open Scope S_scope.

Section Exact.
Context {S : Scalar}.
Hypothesis Sft : Sfield S.
Hypothesis Seqb : seqb_spec S.
Add Field SField : Sft.
Local Notation Srt := (F_R Sft).
Local Notation row := (row S).
Local Notation vec := (vec S).
Local Notation crs := (crs S).
Local Notation knz := (@knz S).

(* ------------------------------------------------------------------ *)
(* field facts                                                         *)
Lemma xk_inv_neq0 (x : S) : x <> s0 -> sinv x <> s0.
Proof.
  intros Hx E. pose proof (Finv_l Sft x Hx) as H1. rewrite E in H1.
  apply (F_1_neq_0 Sft). rewrite <- H1. ring.
Qed.

Lemma xk_inv_inv (x : S) : x <> s0 -> sinv (sinv x) = x.
Proof.
  intros Hx. pose proof (Finv_l Sft x Hx) as H1.
  pose proof (Finv_l Sft _ (xk_inv_neq0 x Hx)) as H3.
  transitivity (sinv (sinv x) * (sinv x * x)); [rewrite H1; ring|].
  replace (sinv (sinv x) * (sinv x * x)) with ((sinv (sinv x) * sinv x) * x) by ring.
  rewrite H3. ring.
Qed.

(* ------------------------------------------------------------------ *)
(* 1. dense view of a work row                                         *)
Definition xk_get (w : list knz) (j : nat) : S :=
  match kfind w j with Some x => fst x | None => s0 end.
Definition xk_has (w : list knz) (j : nat) : bool :=
  match kfind w j with Some _ => true | None => false end.

(* exactly the case in which [kadd] returns the row unchanged because of the level *)
Definition kadd_drops (lfil : nat) (w : list knz) (c lev : nat) : bool :=
  negb (xk_has w c) && Nat.ltb lfil lev.

Lemma xk_kfind_kadd lfil (w : list knz) c v lev j :
  kfind (kadd lfil w c v lev) j =
  if c =? j then
    match kfind w c with
    | Some x => Some (fst x + v, Nat.min (snd x) lev)
    | None => if lev <=? lfil then Some (v, lev) else None
    end
  else kfind w j.
Proof.
  induction w as [|e w IH]; cbn [kadd kfind].
  - destruct (lev <=? lfil); cbn [kfind kcol fst snd]; destruct (c =? j); reflexivity.
  - destruct (Nat.eqb_spec (kcol e) c) as [E|E].
    + cbn [kfind kcol fst snd]. destruct (Nat.eqb_spec c j) as [E2|E2]; [reflexivity|].
      rewrite E. destruct (Nat.eqb_spec c j); [contradiction|reflexivity].
    + cbn [kfind]. rewrite IH. destruct (Nat.eqb_spec c j) as [E2|E2].
      * subst j. destruct (Nat.eqb_spec (kcol e) c); [contradiction|reflexivity].
      * reflexivity.
Qed.

Lemma xk_kadd_drops_same lfil (w : list knz) c v lev :
  kadd_drops lfil w c lev = true -> kadd lfil w c v lev = w.
Proof.
  unfold kadd_drops, xk_has. intro H. apply andb_prop in H as [H1 H2].
  induction w as [|e w IH]; cbn [kadd].
  - replace (lev <=? lfil) with false by lia. reflexivity.
  - cbn [kfind] in H1. destruct (kcol e =? c); [discriminate|]. rewrite IH by exact H1. reflexivity.
Qed.

Lemma xk_get_kadd lfil (w : list knz) c v lev j :
  xk_get (kadd lfil w c v lev) j =
  if (c =? j) && negb (kadd_drops lfil w c lev) then xk_get w j + v else xk_get w j.
Proof.
  unfold xk_get, kadd_drops, xk_has. rewrite xk_kfind_kadd.
  destruct (Nat.eqb_spec c j) as [E|E]; [subst j|reflexivity]. cbn [andb].
  destruct (kfind w c) as [x|]; cbn [negb andb fst]; [reflexivity|].
  destruct (Nat.leb_spec lev lfil).
  - replace (lfil <? lev) with false by lia. cbn [negb fst]. ring.
  - replace (lfil <? lev) with true by lia. reflexivity.
Qed.

Lemma xk_has_kadd lfil (w : list knz) c v lev j :
  xk_has (kadd lfil w c v lev) j =
  if c =? j then negb (kadd_drops lfil w c lev) else xk_has w j.
Proof.
  unfold kadd_drops, xk_has. rewrite xk_kfind_kadd.
  destruct (Nat.eqb_spec c j) as [E|E]; [subst j|reflexivity].
  destruct (kfind w c) as [x|]; cbn [negb andb]; [reflexivity|].
  destruct (Nat.leb_spec lev lfil).
  - replace (lfil <? lev) with false by lia. reflexivity.
  - replace (lfil <? lev) with true by lia. reflexivity.
Qed.

Lemma xk_has_kadd_mono lfil (w : list knz) c v lev j :
  xk_has w j = true -> xk_has (kadd lfil w c v lev) j = true.
Proof.
  intro H. rewrite xk_has_kadd. destruct (Nat.eqb_spec c j) as [E|E]; [subst j|exact H].
  unfold kadd_drops. rewrite H. reflexivity.
Qed.

Lemma xk_kfind_kset (w : list knz) c v j :
  kfind (kset w c v) j =
  if c =? j then match kfind w c with Some x => Some (v, snd x) | None => None end
  else kfind w j.
Proof.
  induction w as [|e w IH]; cbn [kset kfind].
  - destruct (c =? j); reflexivity.
  - destruct (Nat.eqb_spec (kcol e) c) as [E|E].
    + cbn [kfind kcol fst snd]. destruct (Nat.eqb_spec c j) as [E2|E2]; [reflexivity|].
      rewrite E. destruct (Nat.eqb_spec c j); [contradiction|reflexivity].
    + cbn [kfind]. rewrite IH. destruct (Nat.eqb_spec c j) as [E2|E2].
      * subst j. destruct (Nat.eqb_spec (kcol e) c); [contradiction|reflexivity].
      * reflexivity.
Qed.

Lemma xk_get_kset (w : list knz) c v j : xk_has w c = true ->
  xk_get (kset w c v) j = if c =? j then v else xk_get w j.
Proof.
  unfold xk_get, xk_has. intro H. rewrite xk_kfind_kset.
  destruct (c =? j); [|reflexivity]. destruct (kfind w c); [reflexivity|discriminate].
Qed.

Lemma xk_has_kset (w : list knz) c v j : xk_has (kset w c v) j = xk_has w j.
Proof.
  unfold xk_has. rewrite xk_kfind_kset.
  destruct (Nat.eqb_spec c j) as [E|E]; [subst j|reflexivity]. destruct (kfind w c); reflexivity.
Qed.

(* membership / distinctness of columns *)
Lemma xk_has_In (w : list knz) c : xk_has w c = true <-> In c (map kcol w).
Proof.
  unfold xk_has. induction w as [|e w IH]; cbn [kfind map In]; [split; [discriminate|tauto]|].
  destruct (Nat.eqb_spec (kcol e) c) as [E|E].
  - split; auto.
  - rewrite IH. split; [auto|]. intros [H|H]; [contradiction|exact H].
Qed.

Lemma xk_has_false_get (w : list knz) c : xk_has w c = false -> xk_get w c = s0.
Proof. unfold xk_has, xk_get. destruct (kfind w c); [discriminate|reflexivity]. Qed.

Lemma xk_kfind_In (w : list knz) c x : NoDup (map kcol w) ->
  (kfind w c = Some x <-> In (c, x) w).
Proof.
  induction w as [|e w IH]; intro Hnd; cbn [kfind In]; [split; [discriminate|tauto]|].
  cbn [map] in Hnd. inversion Hnd as [|? ? Hnin Hnd']; subst.
  destruct (Nat.eqb_spec (kcol e) c) as [E|E].
  - split.
    + intro H. inversion H; subst. left. destruct e; reflexivity.
    + intros [H|H]; [subst e; reflexivity|].
      exfalso. apply Hnin. rewrite E. apply in_map_iff. exists (c, x). split; [reflexivity|exact H].
  - rewrite (IH Hnd'). split; [auto|]. intros [H|H]; [subst e; cbn in E; congruence|exact H].
Qed.

Lemma xk_map_kcol_kadd lfil (w : list knz) c v lev x :
  In x (map kcol (kadd lfil w c v lev)) -> x = c \/ In x (map kcol w).
Proof.
  induction w as [|e w IH]; cbn [kadd].
  - destruct (lev <=? lfil); cbn; [intros [H|[]]; auto|intros []].
  - destruct (Nat.eqb_spec (kcol e) c) as [E|E]; cbn [map In kcol fst].
    + intros [H|H]; auto.
    + intros [H|H]; auto. destruct (IH H); auto.
Qed.

Lemma xk_NoDup_kadd lfil (w : list knz) c v lev :
  NoDup (map kcol w) -> NoDup (map kcol (kadd lfil w c v lev)).
Proof.
  induction w as [|e w IH]; intro Hnd; cbn [kadd].
  - destruct (lev <=? lfil); cbn; repeat constructor. intros [].
  - cbn [map] in Hnd. inversion Hnd as [|? ? Hnin Hnd']; subst.
    destruct (Nat.eqb_spec (kcol e) c) as [E|E]; cbn [map kcol fst].
    + rewrite <- E. constructor; assumption.
    + constructor; [|apply IH; exact Hnd'].
      intro H. apply xk_map_kcol_kadd in H as [H|H]; [congruence|contradiction].
Qed.

Lemma xk_map_kcol_kset (w : list knz) c v : map kcol (kset w c v) = map kcol w.
Proof.
  induction w as [|e w IH]; cbn [kset map]; [reflexivity|].
  destruct (Nat.eqb_spec (kcol e) c) as [E|E]; cbn [map kcol fst]; [rewrite E; reflexivity|].
  rewrite IH. reflexivity.
Qed.

(* sorting *)
Lemma xk_kins_perm (e : knz) l : Permutation (kins e l) (e :: l).
Proof.
  induction l as [|e' l IH]; cbn [kins]; [reflexivity|].
  destruct (kcol e <? kcol e'); [reflexivity|].
  rewrite IH. apply perm_swap.
Qed.

Lemma xk_ksort_fold_perm (l : list knz) : forall acc,
  Permutation (fold_left (fun acc e => kins e acc) l acc) (l ++ acc).
Proof.
  induction l as [|e l IH]; intro acc; cbn [fold_left app]; [reflexivity|].
  rewrite IH. rewrite xk_kins_perm. symmetry. apply Permutation_middle.
Qed.

Lemma xk_ksort_perm (l : list knz) : Permutation (ksort l) l.
Proof. unfold ksort. rewrite xk_ksort_fold_perm, app_nil_r. reflexivity. Qed.

Lemma xk_NoDup_ksort (l : list knz) : NoDup (map kcol l) -> NoDup (map kcol (ksort l)).
Proof.
  intro H. eapply Permutation_NoDup; [|exact H].
  apply Permutation_map. symmetry. apply xk_ksort_perm.
Qed.

Lemma xk_kfind_perm (l1 l2 : list knz) c : NoDup (map kcol l1) -> Permutation l1 l2 ->
  kfind l1 c = kfind l2 c.
Proof.
  intros Hnd Hp.
  assert (Hnd2 : NoDup (map kcol l2)).
  { eapply Permutation_NoDup; [|exact Hnd]. apply Permutation_map. exact Hp. }
  destruct (kfind l1 c) as [x|] eqn:E1.
  - apply (xk_kfind_In l1 c x Hnd) in E1. symmetry. apply (xk_kfind_In l2 c x Hnd2).
    eapply Permutation_in; eassumption.
  - destruct (kfind l2 c) as [y|] eqn:E2; [|reflexivity].
    apply (xk_kfind_In l2 c y Hnd2) in E2.
    apply (Permutation_in _ (Permutation_sym Hp)) in E2.
    apply (xk_kfind_In l1 c y Hnd) in E2. congruence.
Qed.

Lemma xk_kfind_ksort (w : list knz) c : NoDup (map kcol w) -> kfind (ksort w) c = kfind w c.
Proof.
  intro H. symmetry. apply xk_kfind_perm; [exact H|]. symmetry. apply xk_ksort_perm.
Qed.

(* filters on the column *)
Lemma xk_kfind_filter (q : nat -> bool) (l : list knz) c :
  kfind (filter (fun e => q (kcol e)) l) c = if q c then kfind l c else None.
Proof.
  induction l as [|e l IH]; cbn [filter kfind]; [destruct (q c); reflexivity|].
  destruct (q (kcol e)) eqn:Q; cbn [kfind].
  - destruct (Nat.eqb_spec (kcol e) c) as [E|E]; [rewrite <- E, Q; reflexivity|exact IH].
  - destruct (Nat.eqb_spec (kcol e) c) as [E|E]; [rewrite <- E, Q in IH |- *; exact IH|exact IH].
Qed.

Lemma xk_NoDup_filter (p : knz -> bool) (l : list knz) :
  NoDup (map kcol l) -> NoDup (map kcol (filter p l)).
Proof.
  induction l as [|e l IH]; intro Hnd; cbn [filter map]; [constructor|].
  cbn [map] in Hnd. inversion Hnd as [|? ? Hnin Hnd']; subst.
  destruct (p e); cbn [map]; [|auto]. constructor; [|auto].
  intro H. apply Hnin. apply in_map_iff in H as (x & E1 & E2). apply filter_In in E2 as [E2 _].
  apply in_map_iff. exists x. auto.
Qed.

(* emitted (col, val) rows *)
Definition xk_cv (e : knz) : nat * S := (kcol e, kval e).

Lemma xk_rget_cv (l : list knz) j : NoDup (map kcol l) -> rget (map xk_cv l) j = xk_get l j.
Proof.
  induction l as [|e l IH]; intro Hnd; [reflexivity|].
  cbn [map] in Hnd. inversion Hnd as [|? ? Hnin Hnd']; subst.
  cbn [map]. rewrite (rget_cons Srt), IH by exact Hnd'. unfold xk_get. cbn [kfind xk_cv fst snd].
  destruct (Nat.eqb_spec (kcol e) j) as [E|E].
  - subst j. assert (H : xk_has l (kcol e) = false).
    { destruct (xk_has l (kcol e)) eqn:H; [|reflexivity]. apply xk_has_In in H. contradiction. }
    unfold xk_has in H. destruct (kfind l (kcol e)); [discriminate|]. unfold kval. ring.
  - ring.
Qed.

Lemma xk_has_col_cv (l : list knz) j : has_col j (map xk_cv l) = xk_has l j.
Proof.
  unfold xk_has. induction l as [|e l IH]; [reflexivity|].
  cbn [map has_col existsb kfind xk_cv fst]. fold (has_col j (map xk_cv l)). rewrite IH.
  destruct (kcol e =? j); reflexivity.
Qed.


(* ------------------------------------------------------------------ *)
(* 2. instrumented replay of the elimination of one row                *)
Fixpoint xk_fill (lfil : nat) (t : S) (lev : nat) (us w : list knz) : list knz * list nat :=
  match us with
  | [] => (w, [])
  | u :: tl =>
    let lv := Datatypes.S (Nat.max lev (klev u)) in
    let r := xk_fill lfil t lev tl (kadd lfil w (kcol u) (sopp t * kval u) lv) in
    (fst r, if kadd_drops lfil w (kcol u) lv then kcol u :: snd r else snd r)
  end.

Definition xk_step_replay (lfil : nat) (Us : list (list knz)) (D : vec) (w : list knz) (c : nat)
  : list knz * list nat :=
  match kfind w c with
  | None => (w, [])
  | Some (v, lev) => xk_fill lfil (v * vget D c) lev (nth c Us []) (kset w c (v * vget D c))
  end.
Definition iluk_step_dropped (lfil : nat) (Us : list (list knz)) (D : vec) (w : list knz) (c : nat)
  : list nat := snd (xk_step_replay lfil Us D w c).

Fixpoint xk_elim_replay (lfil : nat) (Us : list (list knz)) (D : vec) (cs : list nat) (w : list knz)
  : list knz * list nat :=
  match cs with
  | [] => (w, [])
  | c :: tl =>
    let r1 := xk_step_replay lfil Us D w c in
    let r2 := xk_elim_replay lfil Us D tl (fst r1) in
    (fst r2, snd r1 ++ snd r2)
  end.
Definition xk_w0 (lfil : nat) (r : row) : list knz :=
  fold_left (fun w e => kadd lfil w (fst e) (snd e) 0) r [].
Definition iluk_row_dropped (lfil : nat) (Us : list (list knz)) (D : vec) (i : nat) (r : row)
  : list nat := snd (xk_elim_replay lfil Us D (seq 0 i) (xk_w0 lfil r)).

(* projection: the replay computes the work rows of the real functions *)
Lemma xk_fill_fst lfil t lev (us : list knz) : forall w,
  fst (xk_fill lfil t lev us w) =
  fold_left (fun w u => kadd lfil w (kcol u) (sopp t * kval u) (Datatypes.S (Nat.max lev (klev u)))) us w.
Proof.
  induction us as [|u us IH]; intro w; cbn [xk_fill fold_left fst]; [reflexivity|]. apply IH.
Qed.

Lemma xk_step_replay_fst lfil Us D (w : list knz) c :
  fst (xk_step_replay lfil Us D w c) = iluk_step lfil Us D w c.
Proof.
  unfold xk_step_replay, iluk_step. destruct (kfind w c) as [[v lev]|]; [|reflexivity].
  apply xk_fill_fst.
Qed.

Lemma xk_elim_replay_fst lfil Us D (cs : list nat) : forall w,
  fst (xk_elim_replay lfil Us D cs w) = fold_left (iluk_step lfil Us D) cs w.
Proof.
  induction cs as [|c cs IH]; intro w; cbn [xk_elim_replay fold_left fst]; [reflexivity|].
  rewrite IH, xk_step_replay_fst. reflexivity.
Qed.

(* the columns dropped during a row = concatenation of the per-step drops *)
Lemma xk_elim_replay_snd_cons lfil Us D c (cs : list nat) (w : list knz) :
  snd (xk_elim_replay lfil Us D (c :: cs) w) =
  iluk_step_dropped lfil Us D w c ++ snd (xk_elim_replay lfil Us D cs (iluk_step lfil Us D w c)).
Proof. cbn [xk_elim_replay snd]. rewrite xk_step_replay_fst. reflexivity. Qed.

(* every recorded column was really dropped by [kadd] (row unchanged) at that moment *)
Lemma xk_fill_drop_sound lfil t lev (u : knz) (w : list knz) :
  kadd_drops lfil w (kcol u) (Datatypes.S (Nat.max lev (klev u))) = true ->
  kadd lfil w (kcol u) (sopp t * kval u) (Datatypes.S (Nat.max lev (klev u))) = w.
Proof. apply xk_kadd_drops_same. Qed.

(* ------------------------------------------------------------------ *)
(* 3. dense effect of the inner loop and of one elimination step       *)
Lemma xk_get_cons (u : knz) (us : list knz) j :
  xk_get (u :: us) j = if kcol u =? j then kval u else xk_get us j.
Proof. unfold xk_get. cbn [kfind]. destruct (kcol u =? j); reflexivity. Qed.

Lemma xk_fill_spec lfil t lev (us : list knz) : NoDup (map kcol us) -> forall w,
  (forall j, ~ In j (snd (xk_fill lfil t lev us w)) ->
     xk_get (fst (xk_fill lfil t lev us w)) j = xk_get w j - t * xk_get us j) /\
  (forall j, In j (snd (xk_fill lfil t lev us w)) -> In j (map kcol us)) /\
  (forall j, xk_has w j = true -> xk_has (fst (xk_fill lfil t lev us w)) j = true) /\
  (NoDup (map kcol w) -> NoDup (map kcol (fst (xk_fill lfil t lev us w)))).
Proof.
  induction us as [|u us IH]; intros Hnd w.
  - cbn [xk_fill fst snd]. split; [|split; [|split]].
    + intros j _. unfold xk_get at 3. cbn [kfind]. ring.
    + intros j [].
    + auto.
    + auto.
  - cbn [map] in Hnd. inversion Hnd as [|? ? Hnin Hnd']; subst.
    cbn [xk_fill fst snd].
    set (lv := Datatypes.S (Nat.max lev (klev u))).
    set (w1 := kadd lfil w (kcol u) (sopp t * kval u) lv).
    destruct (IH Hnd' w1) as (A1 & A2 & A3 & A4).
    split; [|split; [|split]].
    + intros j Hj. rewrite xk_get_cons.
      assert (Hj' : ~ In j (snd (xk_fill lfil t lev us w1))).
      { intro H. apply Hj. destruct (kadd_drops lfil w (kcol u) lv); [right|]; exact H. }
      rewrite (A1 j Hj'). unfold w1. rewrite xk_get_kadd.
      destruct (Nat.eqb_spec (kcol u) j) as [E|E]; cbn [andb].
      * subst j. assert (Z : xk_get us (kcol u) = s0).
        { apply xk_has_false_get. destruct (xk_has us (kcol u)) eqn:H; [|reflexivity].
          apply xk_has_In in H. contradiction. }
        rewrite Z. destruct (kadd_drops lfil w (kcol u) lv) eqn:Dr; cbn [negb].
        -- exfalso. apply Hj. left. reflexivity.
        -- ring.
      * reflexivity.
    + intros j Hj. cbn [map]. destruct (kadd_drops lfil w (kcol u) lv).
      * destruct Hj as [Hj|Hj]; [left; exact Hj|right; apply A2; exact Hj].
      * right. apply A2. exact Hj.
    + intros j Hj. apply A3. unfold w1. apply xk_has_kadd_mono. exact Hj.
    + intros Hw. apply A4. unfold w1. apply xk_NoDup_kadd. exact Hw.
Qed.

Lemma xk_step_spec lfil Us D (w : list knz) c :
  NoDup (map kcol (nth c Us [])) -> (forall e, In e (nth c Us []) -> c < kcol e) ->
  (forall j, ~ In j (iluk_step_dropped lfil Us D w c) -> j <> c ->
     xk_get (iluk_step lfil Us D w c) j =
     xk_get w j - xk_get w c * vget D c * xk_get (nth c Us []) j) /\
  xk_get (iluk_step lfil Us D w c) c = xk_get w c * vget D c /\
  (forall j, In j (iluk_step_dropped lfil Us D w c) -> c < j) /\
  (forall j, xk_has w j = true -> xk_has (iluk_step lfil Us D w c) j = true) /\
  (NoDup (map kcol w) -> NoDup (map kcol (iluk_step lfil Us D w c))).
Proof.
  intros Hnd Hup. rewrite <- xk_step_replay_fst. unfold iluk_step_dropped, xk_step_replay.
  assert (Hc0 : xk_get (nth c Us []) c = s0).
  { apply xk_has_false_get. destruct (xk_has (nth c Us []) c) eqn:H; [|reflexivity].
    apply xk_has_In, in_map_iff in H as (e & E1 & E2). specialize (Hup e E2). lia. }
  destruct (kfind w c) as [[v lev]|] eqn:Ef; cbn [fst snd].
  - assert (Eg : xk_get w c = v) by (unfold xk_get; rewrite Ef; reflexivity). rewrite Eg.
    set (t := v * vget D c).
    assert (Hhas : xk_has w c = true) by (unfold xk_has; rewrite Ef; reflexivity).
    destruct (xk_fill_spec lfil t lev (nth c Us []) Hnd (kset w c t)) as (A1 & A2 & A3 & A4).
    assert (Hgt : forall j, In j (snd (xk_fill lfil t lev (nth c Us []) (kset w c t))) -> c < j).
    { intros j Hj. apply A2, in_map_iff in Hj as (e & E1 & E2). specialize (Hup e E2). lia. }
    split; [|split; [|split; [|split]]].
    + intros j Hj Hne. rewrite (A1 j Hj), xk_get_kset by exact Hhas.
      destruct (Nat.eqb_spec c j); [congruence|]. reflexivity.
    + assert (Hn : ~ In c (snd (xk_fill lfil t lev (nth c Us []) (kset w c t)))).
      { intro H. apply Hgt in H. lia. }
      rewrite (A1 c Hn), xk_get_kset by exact Hhas. rewrite Nat.eqb_refl, Hc0. ring.
    + exact Hgt.
    + intros j Hj. apply A3. rewrite xk_has_kset. exact Hj.
    + intros Hw. apply A4. rewrite xk_map_kcol_kset. exact Hw.
  - assert (Eg : xk_get w c = s0) by (unfold xk_get; rewrite Ef; reflexivity). rewrite Eg.
    split; [|split; [|split; [|split]]].
    + intros j _ _. ring.
    + ring.
    + intros j [].
    + auto.
    + auto.
Qed.

(* ------------------------------------------------------------------ *)
(* 4. the row invariant                                                *)
(* initial work row: scatter of row i of A (level 0 is never dropped)  *)
Lemma xk_drops_lev0 lfil (w : list knz) c : kadd_drops lfil w c 0 = false.
Proof. unfold kadd_drops. destruct (negb (xk_has w c)); reflexivity. Qed.

Lemma xk_w0_fold lfil (r : row) : forall (acc : list knz),
  (forall j, xk_get (fold_left (fun w e => kadd lfil w (fst e) (snd e) 0) r acc) j
             = xk_get acc j + rget r j) /\
  (forall j, xk_has (fold_left (fun w e => kadd lfil w (fst e) (snd e) 0) r acc) j
             = xk_has acc j || has_col j r) /\
  (NoDup (map kcol acc) ->
   NoDup (map kcol (fold_left (fun w e => kadd lfil w (fst e) (snd e) 0) r acc))).
Proof.
  induction r as [|e r IH]; intro acc; cbn [fold_left].
  - split; [|split]; auto.
    + intro j. rewrite rget_nil. ring.
    + intro j. cbn. rewrite orb_false_r. reflexivity.
  - destruct (IH (kadd lfil acc (fst e) (snd e) 0)) as (A1 & A2 & A3).
    split; [|split].
    + intro j. rewrite A1, xk_get_kadd, xk_drops_lev0, (rget_cons Srt). cbn [negb].
      rewrite andb_true_r. destruct (fst e =? j); ring.
    + intro j. rewrite A2, xk_has_kadd, xk_drops_lev0. cbn [negb has_col existsb].
      fold (has_col j r). destruct (fst e =? j); cbn [orb]; [rewrite orb_true_r|]; reflexivity.
    + intro H. apply A3. apply xk_NoDup_kadd. exact H.
Qed.

Lemma xk_w0_spec lfil (r : row) :
  (forall j, xk_get (xk_w0 lfil r) j = rget r j) /\
  (forall j, xk_has (xk_w0 lfil r) j = has_col j r) /\
  NoDup (map kcol (xk_w0 lfil r)).
Proof.
  unfold xk_w0. destruct (xk_w0_fold lfil r []) as (A1 & A2 & A3). split; [|split].
  - intro j. rewrite A1. unfold xk_get at 1. cbn [kfind]. ring.
  - intro j. rewrite A2. reflexivity.
  - apply A3. constructor.
Qed.

Section RowInv.
Variables (lfil : nat) (Us : list (list knz)) (D : vec) (r : row) (i : nat).
Hypothesis HndU : forall k, k < i -> NoDup (map kcol (nth k Us [])).
Hypothesis HupU : forall k e, k < i -> In e (nth k Us []) -> k < kcol e.

Lemma xk_uget_low k j : k < i -> j <= k -> xk_get (nth k Us []) j = s0.
Proof.
  intros Hk Hj. apply xk_has_false_get. destruct (xk_has (nth k Us []) j) eqn:H; [|reflexivity].
  apply xk_has_In, in_map_iff in H as (e & E1 & E2). specialize (HupU k e Hk E2). lia.
Qed.

(* all pivot columns < m are eliminated; P = columns for which a candidate was dropped *)
Definition xk_Inv (m : nat) (w : list knz) (P : nat -> Prop) : Prop :=
  forall j, ~ P j ->
    xk_get w j = (rget r j - sumn (fun k => xk_get w k * xk_get (nth k Us []) j) m)
                 * (if j <? m then vget D j else s1).

Lemma xk_Inv_step m (w : list knz) P : m < i -> xk_Inv m w P ->
  xk_Inv (Datatypes.S m) (iluk_step lfil Us D w m)
         (fun j => P j \/ In j (iluk_step_dropped lfil Us D w m)).
Proof.
  intros Hm HI j Hj.
  destruct (xk_step_spec lfil Us D w m (HndU m Hm) (fun e => HupU m e Hm)) as (A & B & C & _ & _).
  assert (HjP : ~ P j) by tauto.
  assert (Hjd : ~ In j (iluk_step_dropped lfil Us D w m)) by tauto.
  assert (Hk : forall k, k < m -> xk_get (iluk_step lfil Us D w m) k = xk_get w k).
  { intros k Hk. rewrite A.
    - rewrite (xk_uget_low m k) by lia. ring.
    - intro H. apply C in H. lia.
    - lia. }
  cbn [sumn].
  rewrite (sumn_ext _ (fun k => xk_get w k * xk_get (nth k Us []) j))
    by (intros k Hk'; rewrite Hk by exact Hk'; reflexivity).
  set (Sg := sumn (fun k => xk_get w k * xk_get (nth k Us []) j) m).
  rewrite B. pose proof (HI j HjP) as Rj. fold Sg in Rj.
  destruct (Nat.eq_dec j m) as [->|Hne].
  - replace (m <? Datatypes.S m) with true by lia. rewrite Nat.ltb_irrefl in Rj.
    rewrite (xk_uget_low m m) by lia. rewrite B, Rj. ring.
  - rewrite A by auto. destruct (Nat.ltb_spec j m) as [Hlt|Hge].
    + replace (j <? Datatypes.S m) with true by lia.
      rewrite (xk_uget_low m j) by lia. rewrite Rj. ring.
    + replace (j <? Datatypes.S m) with false by lia. rewrite Rj. ring.
Qed.

Lemma xk_Inv_elim n : forall m (w : list knz) (P : nat -> Prop), m + n <= i -> xk_Inv m w P ->
  xk_Inv (m + n) (fold_left (iluk_step lfil Us D) (seq m n) w)
         (fun j => P j \/ In j (snd (xk_elim_replay lfil Us D (seq m n) w))).
Proof.
  induction n as [|n IH]; intros m w P Hmn HI.
  - cbn [seq fold_left xk_elim_replay snd]. rewrite Nat.add_0_r. intros j Hj. apply HI. tauto.
  - cbn [seq fold_left xk_elim_replay snd]. rewrite xk_step_replay_fst.
    replace (m + Datatypes.S n)%nat with (Datatypes.S m + n)%nat by lia.
    intros j Hj.
    apply (IH (Datatypes.S m) (iluk_step lfil Us D w m)
              (fun j => P j \/ In j (iluk_step_dropped lfil Us D w m))); [lia| |].
    + apply xk_Inv_step; [lia|exact HI].
    + intro H. apply Hj. destruct H as [[H|H]|H].
      * left. exact H.
      * right. apply in_or_app. left. exact H.
      * right. apply in_or_app. right. exact H.
Qed.

(* presence is monotone and distinctness is preserved along the elimination *)
Lemma xk_elim_keep n : forall m (w : list knz), m + n <= i ->
  (forall j, xk_has w j = true -> xk_has (fold_left (iluk_step lfil Us D) (seq m n) w) j = true) /\
  (NoDup (map kcol w) -> NoDup (map kcol (fold_left (iluk_step lfil Us D) (seq m n) w))).
Proof.
  induction n as [|n IH]; intros m w Hmn; cbn [seq fold_left]; [split; auto|].
  assert (Hm : m < i) by lia.
  destruct (xk_step_spec lfil Us D w m (HndU m Hm) (fun e => HupU m e Hm)) as (_ & _ & _ & A & B).
  destruct (IH (Datatypes.S m) (iluk_step lfil Us D w m)) as [A' B']; [lia|]. split; auto.
Qed.

End RowInv.
(* ------------------------------------------------------------------ *)
(* 5. result of one row, for given finished rows (Us, D)               *)
Definition xk_wfin (lfil : nat) (Us : list (list knz)) (D : vec) (i : nat) (r : row) : list knz :=
  fold_left (iluk_step lfil Us D) (seq 0 i) (xk_w0 lfil r).

(* projection lemma at row level: the replay ends in the real final work row *)
Lemma xk_row_dropped_fst lfil Us D i (r : row) :
  fst (xk_elim_replay lfil Us D (seq 0 i) (xk_w0 lfil r)) = xk_wfin lfil Us D i r.
Proof. apply xk_elim_replay_fst. Qed.

Lemma xk_iluk_row_eq lfil (Ls : list row) (Us : list (list knz)) (D : vec) i (r : row) jd :
  iluk_row lfil (Ls, Us, D) i r jd =
  (Ls ++ [map xk_cv (filter (fun e => kcol e <? i) (ksort (xk_wfin lfil Us D i r)))],
   Us ++ [filter (fun e => i <? kcol e) (ksort (xk_wfin lfil Us D i r))],
   D ++ [match kfind (ksort (xk_wfin lfil Us D i r)) i with
         | Some (v, _) => sinv v | None => jd end]).
Proof. reflexivity. Qed.

Lemma xk_row_struct lfil (Us : list (list knz)) (D : vec) i (r : row) :
  (forall k, k < i -> NoDup (map kcol (nth k Us []))) ->
  (forall k e, k < i -> In e (nth k Us []) -> k < kcol e) ->
  let Ur := filter (fun e => i <? kcol e) (ksort (xk_wfin lfil Us D i r)) in
  NoDup (map kcol Ur) /\ (forall e, In e Ur -> i < kcol e).
Proof.
  intros HndU HupU Ur.
  destruct (xk_w0_spec lfil r) as (_ & _ & W3).
  destruct (xk_elim_keep lfil Us D i HndU HupU i 0 (xk_w0 lfil r)) as [_ K2]; [lia|].
  split.
  - apply xk_NoDup_filter, xk_NoDup_ksort, K2, W3.
  - intros e He. apply filter_In in He as [_ He]. lia.
Qed.

(* the emitted D_i is the inverse of the final work value at column i *)
Lemma xk_row_diag lfil (Us : list (list knz)) (D : vec) i (r : row) jd :
  (forall k, k < i -> NoDup (map kcol (nth k Us []))) ->
  (forall k e, k < i -> In e (nth k Us []) -> k < kcol e) ->
  has_col i r = true ->
  match kfind (ksort (xk_wfin lfil Us D i r)) i with Some (v, _) => sinv v | None => jd end
  = sinv (xk_get (xk_wfin lfil Us D i r) i).
Proof.
  intros HndU HupU Hci.
  destruct (xk_w0_spec lfil r) as (_ & W2 & W3).
  destruct (xk_elim_keep lfil Us D i HndU HupU i 0 (xk_w0 lfil r)) as [K1 K2]; [lia|].
  fold (xk_wfin lfil Us D i r) in K1, K2.
  rewrite xk_kfind_ksort by (apply K2, W3).
  assert (H : xk_has (xk_wfin lfil Us D i r) i = true) by (apply K1; rewrite W2; exact Hci).
  unfold xk_has in H. unfold xk_get.
  destruct (kfind (xk_wfin lfil Us D i r) i) as [[v l]|]; [reflexivity|discriminate].
Qed.

(* row-level theorem (analogue of x0_row_spec): with pivot = final work value at column i,
   (L-row) * (U + D^-1) + (pivot | U-row) reproduces row r at every never-dropped column *)
Lemma xk_row_spec lfil (Us : list (list knz)) (D : vec) i (r : row) :
  (forall k, k < i -> NoDup (map kcol (nth k Us []))) ->
  (forall k e, k < i -> In e (nth k Us []) -> k < kcol e) ->
  (forall k, k < i -> vget D k <> s0) ->
  let wf := xk_wfin lfil Us D i r in
  let Lr := map xk_cv (filter (fun e => kcol e <? i) (ksort wf)) in
  let Ur := filter (fun e => i <? kcol e) (ksort wf) in
  forall j, ~ In j (iluk_row_dropped lfil Us D i r) ->
    sumn (fun k => rget Lr k * (if k =? j then sinv (vget D k) else xk_get (nth k Us []) j)) i
    + (if i =? j then xk_get wf i else xk_get Ur j) = rget r j.
Proof.
  intros HndU HupU HD wf Lr Ur j Hj.
  destruct (xk_w0_spec lfil r) as (W1 & W2 & W3).
  destruct (xk_elim_keep lfil Us D i HndU HupU i 0 (xk_w0 lfil r)) as [K1 K2]; [lia|].
  fold (xk_wfin lfil Us D i r) in K1, K2. fold wf in K1, K2. specialize (K2 W3).
  set (ws := ksort wf) in *.
  assert (Hws : forall c, kfind ws c = kfind wf c) by (intro c; apply xk_kfind_ksort; exact K2).
  assert (Hndws : NoDup (map kcol ws)) by (apply xk_NoDup_ksort; exact K2).
  (* the invariant at the end of the elimination *)
  assert (HI : xk_Inv Us D r i wf (fun j => False \/ In j (iluk_row_dropped lfil Us D i r))).
  { apply (xk_Inv_elim lfil Us D r i HndU HupU i 0 (xk_w0 lfil r) (fun _ => False)); [lia|].
    intros j' _. cbn [sumn]. rewrite W1. replace (j' <? 0) with false by lia. ring. }
  assert (Rj := HI j). cbv beta in Rj. specialize (Rj ltac:(tauto)).
  set (Sg := sumn (fun k => xk_get wf k * xk_get (nth k Us []) j) i) in Rj.
  (* components of the emitted row *)
  assert (FL : forall k, k < i -> rget Lr k = xk_get wf k).
  { intros k Hk. unfold Lr. rewrite xk_rget_cv by (apply xk_NoDup_filter; exact Hndws).
    unfold xk_get. rewrite (xk_kfind_filter (fun c => c <? i)), Hws.
    replace (k <? i) with true by lia. reflexivity. }
  assert (FU : forall c, xk_get Ur c = if i <? c then xk_get wf c else s0).
  { intro c. unfold Ur, xk_get. rewrite (xk_kfind_filter (fun c => i <? c)), Hws.
    destruct (i <? c); reflexivity. }
  rewrite (sumn_ext _ (fun k => xk_get wf k * xk_get (nth k Us []) j
                               + (if j =? k then xk_get wf j * sinv (vget D j) else s0))).
  2:{ intros k Hk. rewrite (FL k Hk).
      destruct (Nat.eqb_spec k j) as [->|Hne].
      - rewrite Nat.eqb_refl. rewrite (xk_uget_low Us i HupU j j) by lia. ring.
      - replace (j =? k) with false by lia. ring. }
  rewrite (sumn_add Srt), (sumn_delta Srt). fold Sg. rewrite FU.
  destruct (Nat.ltb_spec j i) as [Hlt|Hge].
  - replace (i =? j) with false by lia. replace (i <? j) with false by lia.
    rewrite Rj. replace (j <? i) with true by lia.
    replace (Sg + (rget r j - Sg) * vget D j * sinv (vget D j) + s0)
      with (Sg + (rget r j - Sg) * (sinv (vget D j) * vget D j)) by ring.
    rewrite (Finv_l Sft _ (HD j Hlt)). ring.
  - destruct (Nat.eqb_spec i j) as [<-|Hne].
    + rewrite Rj. rewrite ?Nat.ltb_irrefl. ring.
    + replace (i <? j) with true by lia. rewrite Rj. replace (j <? i) with false by lia. ring.
Qed.

(* ------------------------------------------------------------------ *)
(* 6. the state before row i and the induction over the rows           *)
Definition iluk_state (lfil : nat) (A : crs) (junk : vec) (i : nat)
  : list row * list (list knz) * vec :=
  fold_left (fun st ir => iluk_row lfil st (fst ir) (snd ir) (vget junk (fst ir)))
            (firstn i (indexed (rows A))) ([], [], []).
Definition xk_stL (st : list row * list (list knz) * vec) : list row := fst (fst st).
Definition xk_stU (st : list row * list (list knz) * vec) : list (list knz) := snd (fst st).
Definition xk_stD (st : list row * list (list knz) * vec) : vec := snd st.
(* the columns for which a fill candidate was dropped while row i was eliminated *)
Definition iluk_dropped (lfil : nat) (A : crs) (junk : vec) (i : nat) : list nat :=
  let '(_, Us, D) := iluk_state lfil A junk i in
  iluk_row_dropped lfil Us D i (nth i (rows A) []).
(* the pivot of row i: final work value at column i (D_i = sinv pivot_i) *)
Definition iluk_pivot (lfil : nat) (A : crs) (junk : vec) (i : nat) : S :=
  let '(_, Us, D) := iluk_state lfil A junk i in
  xk_get (xk_wfin lfil Us D i (nth i (rows A) [])) i.

Lemma xk_indexed_length {X} (l : list X) : length (indexed l) = length l.
Proof. unfold indexed. rewrite combine_length, seq_length. lia. Qed.

Lemma xk_indexed_nth {X} (l : list X) i (d : X) : i < length l ->
  nth i (indexed l) (0%nat, d) = (i, nth i l d).
Proof.
  intro Hi. unfold indexed.
  rewrite combine_nth by (rewrite seq_length; reflexivity). rewrite seq_nth by exact Hi. reflexivity.
Qed.

Lemma xk_firstn_S {X} (d : X) (l : list X) : forall i, i < length l ->
  firstn (Datatypes.S i) l = firstn i l ++ [nth i l d].
Proof.
  induction l as [|a l IH]; intros i Hi; [cbn in Hi; lia|].
  destruct i as [|i]; [reflexivity|]. cbn [length] in Hi.
  change (firstn (Datatypes.S (Datatypes.S i)) (a :: l)) with (a :: firstn (Datatypes.S i) l).
  rewrite IH by lia. reflexivity.
Qed.

Lemma xk_nth_mid {X} (l : list X) a l' d i : length l = i -> nth i ((l ++ [a]) ++ l') d = a.
Proof. intros <-. rewrite <- app_assoc. apply nth_middle. Qed.

Lemma xk_nth_pre {X} (l : list X) a l' d k i : length l = i -> k < i ->
  nth k ((l ++ [a]) ++ l') d = nth k l d.
Proof. intros <- Hk. rewrite <- app_assoc. apply app_nth1. exact Hk. Qed.

Lemma xk_state_S lfil (A : crs) (junk : vec) i : i < nrows A ->
  iluk_state lfil A junk (Datatypes.S i) =
  iluk_row lfil (iluk_state lfil A junk i) i (nth i (rows A) []) (vget junk i).
Proof.
  intro Hi. unfold iluk_state.
  rewrite (xk_firstn_S (0%nat, @nil (nat * S))) by (rewrite xk_indexed_length; exact Hi).
  rewrite fold_left_app. cbn [fold_left]. rewrite xk_indexed_nth by exact Hi. reflexivity.
Qed.

Lemma xk_iluk_eq lfil (A : crs) (junk : vec) :
  iluk lfil A junk =
  (mkCrs (nrows A) (xk_stL (iluk_state lfil A junk (nrows A))),
   mkCrs (nrows A) (map (map xk_cv) (xk_stU (iluk_state lfil A junk (nrows A)))),
   xk_stD (iluk_state lfil A junk (nrows A))).
Proof.
  unfold iluk, iluk_state.
  rewrite firstn_all2 by (rewrite xk_indexed_length; unfold nrows; lia).
  destruct (fold_left _ (indexed (rows A)) _) as [[a b] c]. reflexivity.
Qed.

Definition xk_ginv (i : nat) (st : list row * list (list knz) * vec) : Prop :=
  length (xk_stL st) = i /\ length (xk_stU st) = i /\ length (xk_stD st) = i /\
  (forall k, k < i -> NoDup (map kcol (nth k (xk_stU st) []))) /\
  (forall k e, k < i -> In e (nth k (xk_stU st) []) -> k < kcol e).

Lemma xk_state_ginv lfil (A : crs) (junk : vec) i : i <= nrows A ->
  xk_ginv i (iluk_state lfil A junk i).
Proof.
  induction i as [|i IH]; intro Hi.
  - unfold iluk_state. cbn. repeat split; intros; lia.
  - rewrite xk_state_S by lia. specialize (IH ltac:(lia)).
    destruct (iluk_state lfil A junk i) as [[Ls Us] D]. rewrite xk_iluk_row_eq.
    destruct IH as (G1 & G2 & G3 & G4 & G5). unfold xk_stL, xk_stU, xk_stD in *. cbn [fst snd] in *.
    destruct (xk_row_struct lfil Us D i (nth i (rows A) []) G4 G5) as [R1 R2].
    unfold xk_ginv, xk_stL, xk_stU, xk_stD. cbn [fst snd]. rewrite !app_length. cbn [length].
    split; [lia|]. split; [lia|]. split; [lia|]. split.
    + intros k Hk. destruct (Nat.eq_dec k i) as [->|Hne].
      * rewrite <- G2 at 1. rewrite nth_middle. exact R1.
      * rewrite app_nth1 by lia. apply G4. lia.
    + intros k e Hk. destruct (Nat.eq_dec k i) as [->|Hne].
      * rewrite <- G2 at 1. rewrite nth_middle. apply R2.
      * rewrite app_nth1 by lia. apply G5. lia.
Qed.

(* the states are built by appending *)
Lemma xk_state_prefix lfil (A : crs) (junk : vec) i n : i <= n -> n <= nrows A ->
  exists Lx Ux Dx,
    iluk_state lfil A junk n =
    (xk_stL (iluk_state lfil A junk i) ++ Lx,
     xk_stU (iluk_state lfil A junk i) ++ Ux,
     xk_stD (iluk_state lfil A junk i) ++ Dx).
Proof.
  induction 1 as [|n Hle IH]; intro Hn.
  - exists [], [], []. rewrite !app_nil_r. destruct (iluk_state lfil A junk i) as [[a b] c]. reflexivity.
  - destruct (IH ltac:(lia)) as (Lx & Ux & Dx & E).
    rewrite xk_state_S by lia. rewrite E, xk_iluk_row_eq.
    eexists _, _, _. rewrite <- !app_assoc. reflexivity.
Qed.

(* shape of the final factors around row i *)
Lemma xk_final_row lfil (A : crs) (junk : vec) L U D i :
  iluk lfil A junk = (L, U, D) -> i < nrows A ->
  exists Ls Us D0 Lx Ux Dx,
    iluk_state lfil A junk i = (Ls, Us, D0) /\
    length Ls = i /\ length Us = i /\ length D0 = i /\
    (forall k, k < i -> NoDup (map kcol (nth k Us []))) /\
    (forall k e, k < i -> In e (nth k Us []) -> k < kcol e) /\
    L = mkCrs (nrows A)
          ((Ls ++ [map xk_cv (filter (fun e => kcol e <? i)
                                     (ksort (xk_wfin lfil Us D0 i (nth i (rows A) []))))]) ++ Lx) /\
    U = mkCrs (nrows A)
          (map (map xk_cv)
             ((Us ++ [filter (fun e => i <? kcol e)
                             (ksort (xk_wfin lfil Us D0 i (nth i (rows A) [])))]) ++ Ux)) /\
    D = (D0 ++ [match kfind (ksort (xk_wfin lfil Us D0 i (nth i (rows A) []))) i with
                | Some (v, _) => sinv v | None => vget junk i end]) ++ Dx.
Proof.
  intros H Hi. rewrite xk_iluk_eq in H.
  destruct (xk_state_prefix lfil A junk (Datatypes.S i) (nrows A)) as (Lx & Ux & Dx & E); [lia|lia|].
  rewrite E in H. clear E. rewrite xk_state_S in H by exact Hi.
  pose proof (xk_state_ginv lfil A junk i ltac:(lia)) as G.
  destruct (iluk_state lfil A junk i) as [[Ls Us] D0].
  rewrite xk_iluk_row_eq in H. unfold xk_ginv, xk_stL, xk_stU, xk_stD in H, G. cbn [fst snd] in H, G.
  destruct G as (G1 & G2 & G3 & G4 & G5).
  exists Ls, Us, D0, Lx, Ux, Dx. inversion H; subst L U D.
  repeat (split; [assumption || reflexivity|]). reflexivity.
Qed.

(* lu_entry on row i only depends on the state after row i *)
Lemma xk_lu_entry_at (n : nat) (Ls : list row) (Us : list (list knz)) (D0 : vec)
      (Lr : row) (Ur : list knz) (d : S) Lx Ux Dx i j :
  length Ls = i -> length Us = i -> length D0 = i ->
  (forall k, k < i -> NoDup (map kcol (nth k Us []))) -> NoDup (map kcol Ur) ->
  lu_entry (mkCrs n ((Ls ++ [Lr]) ++ Lx)) (mkCrs n (map (map xk_cv) ((Us ++ [Ur]) ++ Ux)))
           ((D0 ++ [d]) ++ Dx) i j
  = sumn (fun k => rget Lr k * (if k =? j then sinv (vget D0 k) else xk_get (nth k Us []) j)) i
    + (if i =? j then sinv d else xk_get Ur j).
Proof.
  intros G1 G2 G3 HndU HndUr. unfold lu_entry, mget, vget. cbn [rows].
  assert (NU : forall k, @nth row k (map (map xk_cv) ((Us ++ [Ur]) ++ Ux)) [] =
                         map xk_cv (nth k ((Us ++ [Ur]) ++ Ux) [])).
  { intro k. change (@nil (nat * S)) with (map xk_cv []). apply map_nth. }
  rewrite (xk_nth_mid Ls Lr Lx [] i G1), (xk_nth_mid D0 d Dx s0 i G3), (NU i),
          (xk_nth_mid Us Ur Ux [] i G2), (xk_rget_cv Ur j HndUr). f_equal.
  apply sumn_ext. intros k Hk.
  rewrite (xk_nth_pre D0 d Dx s0 k i G3 Hk), (NU k), (xk_nth_pre Us Ur Ux [] k i G2 Hk),
          (xk_rget_cv _ j (HndU k Hk)). reflexivity.
Qed.

Lemma xk_In_indexed {X} (l : list X) i d : i < length l -> In (i, nth i l d) (indexed l).
Proof.
  intro Hi. rewrite <- (xk_indexed_nth l i d Hi). apply nth_In. rewrite xk_indexed_length. exact Hi.
Qed.

Lemma xk_first_col_has_col (r : row) i : first_col r i <> None -> has_col i r = true.
Proof.
  induction r as [|[c v] r IH]; simpl; [congruence|]. intro H.
  destruct (c =? i); [reflexivity|]. apply IH. exact H.
Qed.

Lemma xk_has_diag_has_col (A : crs) i : has_diag A = true -> i < nrows A ->
  has_col i (nth i (rows A) []) = true.
Proof.
  intros H Hi. unfold has_diag in H. rewrite forallb_forall in H.
  specialize (H _ (xk_In_indexed (rows A) i [] Hi)). cbn [fst snd] in H.
  apply xk_first_col_has_col. destruct (first_col (nth i (rows A) []) i); congruence.
Qed.

(* D stores the inverted pivots *)
Lemma xk_D_pivot lfil (A : crs) (junk : vec) L U D :
  has_diag A = true -> iluk lfil A junk = (L, U, D) ->
  forall i, i < nrows A -> vget D i = sinv (iluk_pivot lfil A junk i).
Proof.
  intros Hdiag H i Hi.
  destruct (xk_final_row lfil A junk L U D i H Hi)
    as (Ls & Us & D0 & Lx & Ux & Dx & E & G1 & G2 & G3 & G4 & G5 & _ & _ & ED).
  unfold iluk_pivot. rewrite E, ED. unfold vget. rewrite (xk_nth_mid D0 _ Dx s0 i G3).
  apply xk_row_diag; [exact G4|exact G5|]. apply xk_has_diag_has_col; assumption.
Qed.

(* ------------------------------------------------------------------ *)
(* 7. MAIN THEOREMS                                                    *)
(* general form (any field): no zero pivot *)
Theorem iluk_exact_where_never_dropped_pivot lfil (A : crs) (junk : vec) L U D :
  has_diag A = true ->
  iluk lfil A junk = (L, U, D) ->
  (forall k, k < nrows A -> iluk_pivot lfil A junk k <> s0) ->
  forall i j, i < nrows A ->
    ~ In j (iluk_dropped lfil A junk i) ->
    lu_entry L U D i j = mget A i j.
Proof.
  intros Hdiag H HP i j Hi Hj.
  pose proof (xk_D_pivot lfil A junk L U D Hdiag H) as HDp.
  destruct (xk_final_row lfil A junk L U D i H Hi)
    as (Ls & Us & D0 & Lx & Ux & Dx & E & G1 & G2 & G3 & G4 & G5 & EL & EU & ED).
  unfold iluk_dropped in Hj. rewrite E in Hj.
  pose proof (HDp i Hi) as HDi. pose proof (HP i Hi) as HPi.
  unfold iluk_pivot in HDi, HPi. rewrite E in HDi, HPi.
  set (r := nth i (rows A) []) in *.
  set (wf := xk_wfin lfil Us D0 i r) in *.
  set (d := match kfind (ksort wf) i with Some (v, _) => sinv v | None => vget junk i end) in *.
  assert (HD0 : forall k, k < i -> vget D0 k <> s0).
  { intros k Hk.
    assert (Ek : vget D0 k = vget D k).
    { rewrite ED. unfold vget. symmetry. exact (xk_nth_pre D0 d Dx s0 k i G3 Hk). }
    rewrite Ek, (HDp k) by lia. apply xk_inv_neq0. apply HP. lia. }
  assert (Hd : sinv d = xk_get wf i).
  { assert (Ed : vget D i = d) by (rewrite ED; unfold vget; apply xk_nth_mid; exact G3).
    rewrite <- Ed, HDi. apply xk_inv_inv. exact HPi. }
  destruct (xk_row_struct lfil Us D0 i r G4 G5) as [R1 _]. fold wf in R1.
  rewrite EL, EU, ED.
  rewrite (xk_lu_entry_at (nrows A) Ls Us D0 _ _ d Lx Ux Dx i j G1 G2 G3 G4 R1).
  rewrite Hd. exact (xk_row_spec lfil Us D0 i r G4 G5 HD0 j Hj).
Qed.

(* special case: nothing is ever dropped => LU = A on the whole admitted pattern
   (in fact on every position of the rows) *)
Corollary iluk_exact_if_nothing_dropped_pivot lfil (A : crs) (junk : vec) L U D :
  has_diag A = true ->
  iluk lfil A junk = (L, U, D) ->
  (forall k, k < nrows A -> iluk_pivot lfil A junk k <> s0) ->
  (forall i, i < nrows A -> iluk_dropped lfil A junk i = []) ->
  forall i j, i < nrows A -> lu_entry L U D i j = mget A i j.
Proof.
  intros Hdiag H HP Hnone i j Hi.
  apply (iluk_exact_where_never_dropped_pivot lfil A junk L U D Hdiag H HP i j Hi).
  rewrite (Hnone i Hi). intros [].
Qed.

Section Inv0.
(* x/0 = 0, as at QcS: then "D_k <> 0" means "pivot_k <> 0" *)
Hypothesis Sinv0 : sinv (@s0 S) = s0.

Lemma xk_pivot_neq0 lfil (A : crs) (junk : vec) L U D :
  has_diag A = true -> iluk lfil A junk = (L, U, D) ->
  (forall k, k < nrows A -> vget D k <> s0) ->
  forall k, k < nrows A -> iluk_pivot lfil A junk k <> s0.
Proof.
  intros Hdiag H HD k Hk E. apply (HD k Hk).
  rewrite (xk_D_pivot lfil A junk L U D Hdiag H k Hk), E. exact Sinv0.
Qed.

(* MAIN TARGET *)
Theorem iluk_exact_where_never_dropped lfil (A : crs) (junk : vec) L U D :
  wf A = true -> ncols A = nrows A ->
  (forall i, i < nrows A -> sorted_strict (nth i (rows A) []) = true) ->
  has_diag A = true ->
  iluk lfil A junk = (L, U, D) ->
  (forall k, k < nrows A -> vget D k <> s0) ->
  forall i j, i < nrows A ->
    (has_col j (nth i (rows L) []) || Nat.eqb i j || has_col j (nth i (rows U) [])) = true ->
    ~ In j (iluk_dropped lfil A junk i) ->
    lu_entry L U D i j = mget A i j.
Proof.
  intros _ _ _ Hdiag H HD i j Hi _ Hj.
  apply (iluk_exact_where_never_dropped_pivot lfil A junk L U D Hdiag H); [|exact Hi|exact Hj].
  exact (xk_pivot_neq0 lfil A junk L U D Hdiag H HD).
Qed.

Corollary iluk_exact_if_nothing_dropped lfil (A : crs) (junk : vec) L U D :
  has_diag A = true ->
  iluk lfil A junk = (L, U, D) ->
  (forall k, k < nrows A -> vget D k <> s0) ->
  (forall i, i < nrows A -> iluk_dropped lfil A junk i = []) ->
  forall i j, i < nrows A -> lu_entry L U D i j = mget A i j.
Proof.
  intros Hdiag H HD Hnone.
  apply (iluk_exact_if_nothing_dropped_pivot lfil A junk L U D Hdiag H); [|exact Hnone].
  exact (xk_pivot_neq0 lfil A junk L U D Hdiag H HD).
Qed.

End Inv0.

End Exact.

(* ------------------------------------------------------------------ *)
(* closed instance at the exact rationals (Qcinv 0 = 0): the requested statement verbatim *)
From Coq Require Import QArith Qcanon.
From Amgcl Require Import QcInst.
Local Close Scope Q_scope.
Local Close Scope Qc_scope.
Local Open Scope nat_scope.

Lemma QcS_inv0 : sinv (@s0 QcS) = s0.
Proof. apply Qc_is_canon. reflexivity. Qed.

Theorem iluk_exact_where_never_dropped_Qc lfil (A : crs QcS) (junk : vec QcS) L U D :
  wf A = true -> ncols A = nrows A ->
  (forall i, i < nrows A -> sorted_strict (nth i (rows A) []) = true) ->
  has_diag A = true ->
  iluk lfil A junk = (L, U, D) ->
  (forall k, k < nrows A -> vget D k <> s0) ->
  forall i j, i < nrows A ->
    (has_col j (nth i (rows L) []) || Nat.eqb i j || has_col j (nth i (rows U) [])) = true ->
    ~ In j (iluk_dropped lfil A junk i) ->
    lu_entry L U D i j = mget A i j.
Proof. exact (iluk_exact_where_never_dropped QcS_field QcS_inv0 lfil A junk L U D). Qed.

(* ------------------------------------------------------------------ *)
(* sanity example: the 5x5 witness of IluRefute.v, ILU(1).  While row 3 is eliminated the
   candidate for column 4 is dropped once (pivot column 1, level 2) and column 4 is created
   later (pivot column 2, level 1): (3,4) is admitted but was dropped.                     *)
Definition xk_qz (n : Z) : T QcS := qc n 1.
Definition xk_W : crs QcS :=
  mkCrs 5 [[(0, xk_qz 4); (4, xk_qz 1)]; [(0, xk_qz 1); (1, xk_qz 4)]; [(2, xk_qz 4); (4, xk_qz 1)];
           [(1, xk_qz 1); (2, xk_qz 1); (3, xk_qz 4)]; [(4, xk_qz 4)]].

Example xk_W_dropped_3 : iluk_dropped 1 xk_W [] 3 = [4].
Proof. vm_compute. reflexivity. Qed.

Example xk_W_dropped_all : map (iluk_dropped 1 xk_W []) (seq 0 5) = [[]; []; []; [4]; []].
Proof. vm_compute. reflexivity. Qed.

Definition xk_admitted {S : Scalar} (L U : crs S) (i j : nat) : bool :=
  has_col j (nth i (rows L) []) || Nat.eqb i j || has_col j (nth i (rows U) []).

(* hypotheses of the theorem hold; (3,4) is admitted and LU <> A there; on every other admitted
   position -- and on every never-dropped position at all -- LU = A *)
Definition xk_W_check : bool :=
  wf xk_W && Nat.eqb (ncols xk_W) (nrows xk_W) && forallb sorted_strict (rows xk_W) && has_diag xk_W &&
  let '(L, U, D) := iluk 1 xk_W [] in
  forallb (fun d => negb (is_zero d)) D &&
  xk_admitted L U 3 4 && negb (seqb (lu_entry L U D 3 4) (mget xk_W 3 4)) &&
  forallb (fun i => forallb (fun j =>
     implb (xk_admitted L U i j && negb (Nat.eqb i 3 && Nat.eqb j 4)
            || negb (existsb (Nat.eqb j) (iluk_dropped 1 xk_W [] i)))
           (seqb (lu_entry L U D i j) (mget xk_W i j))) (seq 0 5)) (seq 0 5).

Example xk_W_check_ok : xk_W_check = true.
Proof. vm_compute. reflexivity. Qed.

(* ILU(2) on the same matrix drops nothing and is exact everywhere *)
Example xk_W_lfil2 :
  map (iluk_dropped 2 xk_W []) (seq 0 5) = [[]; []; []; []; []] /\
  (let '(L, U, D) := iluk 2 xk_W [] in
   forallb (fun i => forallb (fun j => seqb (lu_entry L U D i j) (mget xk_W i j)) (seq 0 5)) (seq 0 5))
  = true.
Proof. split; vm_compute; reflexivity. Qed.

(* ------------------------------------------------------------------ *)
(* the hypothesis sinv 0 = 0 cannot be removed from [iluk_exact_where_never_dropped]:
   Qc with 1/0 := 5 is a [field_theory]; on the 1x1 matrix (0) the pivot is 0, D_0 = 5 <> 0,
   nothing is dropped, and (LU)_00 = 1/5 <> 0 = a_00 *)
Definition xk_inv5 (x : Qc) : Qc := if qc_eqb x (Q2Qc 0) then Q2Qc (Qmake 5 1) else Qcinv x.
Definition QcS5 : Scalar :=
  mkScalar Qc (Q2Qc 0) (Q2Qc 1) Qcplus Qcmult Qcminus Qcopp (fun a b => Qcmult a (xk_inv5 b)) xk_inv5
           (fun x => x) qc_abs qc_sqrt qc_eqb qc_ltb qc_eps Q2Qc.

Lemma QcS5_field : Sfield QcS5.
Proof.
  constructor.
  - exact Qcrt.
  - exact (F_1_neq_0 Qcft).
  - intros p q. reflexivity.
  - intros p Hp. cbn. unfold xk_inv5. destruct (qc_eqb p (Q2Qc 0)) eqn:E.
    + apply (proj1 (QcS_eqb p (Q2Qc 0))) in E. contradiction.
    + exact (Finv_l Qcft p Hp).
Qed.
Lemma QcS5_eqb : seqb_spec QcS5.
Proof. exact QcS_eqb. Qed.

Lemma iluk_exact_needs_inv0 :
  exists (S : Scalar) (lfil : nat) (A : crs S) (junk : vec S) (L U : crs S) (D : vec S) (i j : nat),
    Sfield S /\ seqb_spec S /\
    wf A = true /\ ncols A = nrows A /\
    (forall i, i < nrows A -> sorted_strict (nth i (rows A) []) = true) /\
    has_diag A = true /\
    iluk lfil A junk = (L, U, D) /\
    (forall k, k < nrows A -> vget D k <> s0) /\
    i < nrows A /\
    (has_col j (nth i (rows L) []) || Nat.eqb i j || has_col j (nth i (rows U) [])) = true /\
    ~ In j (iluk_dropped lfil A junk i) /\
    lu_entry L U D i j <> mget A i j.
Proof.
  pose (A := @mkCrs QcS5 1 [[(0, Q2Qc 0)]]).
  exists QcS5, 0, A, [].
  set (r := iluk 0 A []).
  exists (fst (fst r)), (snd (fst r)), (snd r), 0, 0.
  split; [exact QcS5_field|]. split; [exact QcS5_eqb|].
  split; [reflexivity|]. split; [reflexivity|].
  split; [intros i Hi; destruct i; [reflexivity|cbn in Hi; lia]|].
  split; [reflexivity|].
  split; [destruct r as [[a b] c]; reflexivity|].
  split.
  { intros k Hk H. assert (k = 0) by (cbn in Hk; lia). subst k.
    apply (proj2 (QcS5_eqb _ _)) in H. vm_compute in H. discriminate H. }
  split; [cbn; lia|]. split; [reflexivity|].
  split; [vm_compute; intros []|].
  intro H. apply (proj2 (QcS5_eqb _ _)) in H. vm_compute in H. discriminate H.
Qed.

(* ------------------------------------------------------------------ *)
(* statements                                                          *)
Check @kadd_drops.
Check @iluk_step_dropped.
Check @iluk_row_dropped.
Check @iluk_state.
Check @iluk_dropped.
Check @iluk_pivot.
Check @xk_step_replay_fst.
Check @xk_elim_replay_fst.
Check @xk_row_dropped_fst.
Check @xk_elim_replay_snd_cons.
Check @xk_kadd_drops_same.
Check @xk_step_spec.
Check @xk_row_spec.
Check @xk_D_pivot.
Check @iluk_exact_where_never_dropped_pivot.
Check @iluk_exact_if_nothing_dropped_pivot.
Check @iluk_exact_where_never_dropped.
Check @iluk_exact_if_nothing_dropped.
Check @iluk_exact_where_never_dropped_Qc.
Check iluk_exact_needs_inv0.
Print Assumptions iluk_exact_where_never_dropped.
Print Assumptions iluk_exact_where_never_dropped_Qc.
Print Assumptions iluk_exact_needs_inv0.
Print Assumptions xk_W_check_ok.
