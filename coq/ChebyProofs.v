(* ChebyProofs.v -- proofs about the Chebyshev polynomial smoother (model: Cheby.v,
   amgcl/relaxation/chebyshev.hpp:113-206).

   T7a  cheby_solve_fixed_point / cheby_sweep_fixed_point :
        an exact solution x of A x = b is (pointwise) a fixed point of the sweep, for
        every degree, every (c, d), with or without diagonal scaling, and for every
        content of the uninitialised workspaces p, r.
   T7b  cheby_solve_linear / cheby_sweep_linear :
        the sweep is a linear map of the pair (b, x) (hence affine in x for fixed b), and
        cheby_solve_junk_independent / cheby_sweep_junk_independent :
        its result does not depend on the content of the workspaces p, r.

   Only commutative-ring laws are used: the coefficients alpha_k, beta_k computed by
   [cheby_coef] are opaque scalars that do not depend on the vectors (no law about
   [sinv] is needed).  All vector statements are pointwise ([vget _ i], i < nrows A).
   No hypothesis on [ncols A] is needed: vectors of length nrows A read as s0 beyond
   their end, on all sides of every equation. *)
From Amgcl Require Import Scalar Vec Crs Kernels KernelsProofs MatOps Cheby.
Local Open Scope S_scope.

Section ChebyProofs.
Context {S : Scalar}.
Local Notation vec := (vec S).
Local Notation crs := (crs S).
Hypothesis Srt : Sring S.
Hypothesis Seqb : seqb_spec S.
Add Ring SRing : Srt.

(* ------------------------------------------------------------------ *)
(* small helpers *)

Lemma ch_vget_over (v : vec) i : length v <= i -> vget v i = s0.
Proof. intro H. unfold vget. apply nth_overflow. exact H. Qed.

(* A x is linear in x (pointwise hypothesis only below the common length n) *)
Lemma ch_Ax_linear (A : crs) (a1 a2 : S) (x x1 x2 : vec) n i :
  length x = n -> length x1 = n -> length x2 = n ->
  (forall j, j < n -> vget x j = a1 * vget x1 j + a2 * vget x2 j) ->
  Ax A x i = a1 * Ax A x1 i + a2 * Ax A x2 i.
Proof.
  intros Hx H1 H2 H. unfold Ax.
  rewrite <- !(sumn_scal Srt), <- (sumn_add Srt).
  apply sumn_ext. intros j _.
  destruct (lt_dec j n) as [Hj|Hj].
  - rewrite (H j Hj). ring.
  - rewrite !ch_vget_over by lia. ring.
Qed.

Lemma ch_Ax_ext (A : crs) (x y : vec) n i :
  length x = n -> length y = n ->
  (forall j, j < n -> vget x j = vget y j) -> Ax A x i = Ax A y i.
Proof.
  intros Hx Hy H.
  rewrite (ch_Ax_linear A s1 s0 x y y n i Hx Hy Hy).
  - ring.
  - intros j Hj. rewrite (H j Hj). ring.
Qed.

(* the (optional) diagonal preconditioning of one residual entry:
   vmul(1, M, r, 0, r) when scale, identity otherwise *)
Definition ch_prec (M : option vec) (i : nat) (v : S) : S :=
  match M with Some m => s1 * vget m i * v + s0 * v | None => v end.

Lemma ch_prec_zero M i : ch_prec M i s0 = s0.
Proof. unfold ch_prec. destruct M; ring. Qed.

Lemma ch_prec_linear M i (a1 a2 v1 v2 : S) :
  ch_prec M i (a1 * v1 + a2 * v2) = a1 * ch_prec M i v1 + a2 * ch_prec M i v2.
Proof. unfold ch_prec. destruct M; ring. Qed.

Lemma ch_coef0 (two quarter c d alpha : S) :
  snd (cheby_coef two quarter c d 0 alpha) = s0.
Proof. reflexivity. Qed.

(* ------------------------------------------------------------------ *)
(* one step of solve(), pointwise *)
Lemma ch_step_spec (two quarter c d : S) M (A : crs) (b x p r : vec) (alpha : S) k :
  wf A = true ->
  length b = nrows A -> length x = nrows A -> length p = nrows A -> length r = nrows A ->
  (forall m, M = Some m -> length m = nrows A) ->
  exists x' p' r' : vec,
    cheby_step two quarter c d M A b (x, p, r, alpha) k
      = (x', p', r', fst (cheby_coef two quarter c d k alpha)) /\
    length x' = nrows A /\ length p' = nrows A /\ length r' = nrows A /\
    (forall i, i < nrows A ->
       vget p' i = fst (cheby_coef two quarter c d k alpha)
                     * ch_prec M i (vget b i - Ax A x i)
                   + snd (cheby_coef two quarter c d k alpha) * vget p i) /\
    (forall i, i < nrows A -> vget x' i = vget p' i + vget x i).
Proof.
  intros Hwf Hb Hx Hp Hr HM.
  unfold cheby_step.
  destruct (cheby_coef two quarter c d k alpha) as [al be]. cbn [fst snd].
  set (r1 := residual b A x r).
  assert (Lr1 : length r1 = nrows A) by (apply residual_length; assumption).
  assert (Gr1 : forall i, i < nrows A -> vget r1 i = vget b i - Ax A x i)
    by (intros i Hi; apply (residual_spec Srt); assumption).
  set (r2 := match M with Some m => vmul s1 m r1 s0 r1 | None => r1 end).
  assert (Lr2 : length r2 = nrows A).
  { subst r2. destruct M as [m|]; [|exact Lr1].
    pose proof (HM m eq_refl) as Hm. rewrite vmul_length; congruence. }
  assert (Gr2 : forall i, i < nrows A -> vget r2 i = ch_prec M i (vget b i - Ax A x i)).
  { intros i Hi. subst r2. unfold ch_prec. destruct M as [m|].
    - pose proof (HM m eq_refl) as Hm.
      rewrite (vmul_spec Srt Seqb) by congruence. rewrite (Gr1 i Hi). reflexivity.
    - apply Gr1; exact Hi. }
  set (p' := axpby al r2 be p).
  assert (Lp' : length p' = nrows A) by (subst p'; rewrite axpby_length; congruence).
  assert (Gp' : forall i, i < nrows A -> vget p' i = al * vget r2 i + be * vget p i)
    by (intros i Hi; subst p'; apply (axpby_spec Srt Seqb); congruence).
  exists (axpby s1 p' s1 x), p', r2.
  split; [reflexivity|].
  split; [rewrite axpby_length; congruence|].
  split; [exact Lp'|]. split; [exact Lr2|].
  split.
  - intros i Hi. rewrite (Gp' i Hi), (Gr2 i Hi). reflexivity.
  - intros i Hi. rewrite (axpby_spec Srt Seqb) by congruence. ring.
Qed.

(* ------------------------------------------------------------------ *)
(* T7a: an exact solution is a fixed point *)

Lemma ch_fix_gen (two quarter c d : S) M (A : crs) (b x0 : vec) :
  wf A = true -> length b = nrows A -> length x0 = nrows A ->
  (forall m, M = Some m -> length m = nrows A) ->
  (forall i, i < nrows A -> Ax A x0 i = vget b i) ->
  forall len s (x p r : vec) alpha,
    length x = nrows A -> length p = nrows A -> length r = nrows A ->
    (forall i, i < nrows A -> vget x i = vget x0 i) ->
    (s = 0%nat \/ forall i, i < nrows A -> vget p i = s0) ->
    forall i, i < nrows A ->
      vget (fst (fst (fst (fold_left (cheby_step two quarter c d M A b) (seq s len)
                                     (x, p, r, alpha))))) i = vget x0 i.
Proof.
  intros Hwf Hb Hx0 HM Hfix.
  induction len as [|len IH]; intros s x p r alpha Hx Hp Hr Hxe Hpz i Hi.
  - simpl. apply Hxe; exact Hi.
  - cbn [seq fold_left].
    destruct (ch_step_spec two quarter c d M A b x p r alpha s Hwf Hb Hx Hp Hr HM)
      as (x' & p' & r' & E & Lx' & Lp' & Lr' & Gp' & Gx').
    rewrite E.
    assert (Pz : forall j, j < nrows A -> vget p' j = s0).
    { intros j Hj. rewrite (Gp' j Hj).
      rewrite (ch_Ax_ext A x x0 (nrows A) j Hx Hx0 Hxe), (Hfix j Hj).
      replace (vget b j - vget b j) with (@s0 S) by ring.
      rewrite ch_prec_zero.
      destruct Hpz as [->|Hpz].
      - rewrite ch_coef0. ring.
      - rewrite (Hpz j Hj). ring. }
    apply IH; try assumption.
    + intros j Hj. rewrite (Gx' j Hj), (Pz j Hj), (Hxe j Hj). ring.
    + right. exact Pz.
Qed.

Theorem cheby_solve_fixed_point (two quarter c d : S) M degree (A : crs) (b x p r : vec) :
  wf A = true ->
  length b = nrows A -> length x = nrows A -> length p = nrows A -> length r = nrows A ->
  (forall m, M = Some m -> length m = nrows A) ->
  (forall i, i < nrows A -> Ax A x i = vget b i) ->
  forall i, i < nrows A ->
    vget (fst (fst (fst (cheby_solve two quarter c d M degree A b x p r)))) i = vget x i.
Proof.
  intros Hwf Hb Hx Hp Hr HM Hfix i Hi. unfold cheby_solve.
  apply (ch_fix_gen two quarter c d M A b x Hwf Hb Hx HM Hfix); auto.
Qed.

Lemma ch_sweep_solve (c d : S) M degree (A : crs) (b x p r : vec) :
  cheby_sweep (c, d, M) degree A b x p r
  = fst (fst (fst (cheby_solve c_two c_quarter c d M degree A b x p r))).
Proof.
  unfold cheby_sweep.
  destruct (cheby_solve c_two c_quarter c d M degree A b x p r) as [[[x' p'] r'] al].
  reflexivity.
Qed.

Theorem cheby_sweep_fixed_point (c d : S) M degree (A : crs) (b x p r : vec) :
  wf A = true ->
  length b = nrows A -> length x = nrows A -> length p = nrows A -> length r = nrows A ->
  (forall m, M = Some m -> length m = nrows A) ->
  (forall i, i < nrows A -> Ax A x i = vget b i) ->
  forall i, i < nrows A ->
    vget (cheby_sweep (c, d, M) degree A b x p r) i = vget x i.
Proof.
  intros. rewrite ch_sweep_solve. apply cheby_solve_fixed_point; assumption.
Qed.

(* ------------------------------------------------------------------ *)
(* T7b: linearity in (b, x), independence of the workspaces *)

Lemma ch_lin_gen (two quarter c d : S) M (A : crs) (a1 a2 : S) (b b1 b2 : vec) :
  wf A = true ->
  length b = nrows A -> length b1 = nrows A -> length b2 = nrows A ->
  (forall m, M = Some m -> length m = nrows A) ->
  (forall i, i < nrows A -> vget b i = a1 * vget b1 i + a2 * vget b2 i) ->
  forall len s (x p r x1 p1 r1 x2 p2 r2 : vec) alpha,
    length x = nrows A -> length p = nrows A -> length r = nrows A ->
    length x1 = nrows A -> length p1 = nrows A -> length r1 = nrows A ->
    length x2 = nrows A -> length p2 = nrows A -> length r2 = nrows A ->
    (forall i, i < nrows A -> vget x i = a1 * vget x1 i + a2 * vget x2 i) ->
    (s = 0%nat \/ forall i, i < nrows A -> vget p i = a1 * vget p1 i + a2 * vget p2 i) ->
    forall i, i < nrows A ->
      vget (fst (fst (fst (fold_left (cheby_step two quarter c d M A b) (seq s len)
                                     (x, p, r, alpha))))) i
      = a1 * vget (fst (fst (fst (fold_left (cheby_step two quarter c d M A b1) (seq s len)
                                            (x1, p1, r1, alpha))))) i
      + a2 * vget (fst (fst (fst (fold_left (cheby_step two quarter c d M A b2) (seq s len)
                                            (x2, p2, r2, alpha))))) i.
Proof.
  intros Hwf Hb Hb1 Hb2 HM Hbl.
  induction len as [|len IH];
    intros s x p r x1 p1 r1 x2 p2 r2 alpha Hx Hp Hr Hx1 Hp1 Hr1 Hx2 Hp2 Hr2 Hxl Hpl i Hi.
  - simpl. apply Hxl; exact Hi.
  - cbn [seq fold_left].
    destruct (ch_step_spec two quarter c d M A b x p r alpha s Hwf Hb Hx Hp Hr HM)
      as (x' & p' & r' & E & Lx' & Lp' & Lr' & Gp' & Gx').
    destruct (ch_step_spec two quarter c d M A b1 x1 p1 r1 alpha s Hwf Hb1 Hx1 Hp1 Hr1 HM)
      as (x1' & p1' & r1' & E1 & Lx1' & Lp1' & Lr1' & Gp1' & Gx1').
    destruct (ch_step_spec two quarter c d M A b2 x2 p2 r2 alpha s Hwf Hb2 Hx2 Hp2 Hr2 HM)
      as (x2' & p2' & r2' & E2 & Lx2' & Lp2' & Lr2' & Gp2' & Gx2').
    rewrite E, E1, E2.
    assert (Pl : forall j, j < nrows A -> vget p' j = a1 * vget p1' j + a2 * vget p2' j).
    { intros j Hj. rewrite (Gp' j Hj), (Gp1' j Hj), (Gp2' j Hj).
      rewrite (ch_Ax_linear A a1 a2 x x1 x2 (nrows A) j Hx Hx1 Hx2 Hxl), (Hbl j Hj).
      replace (a1 * vget b1 j + a2 * vget b2 j - (a1 * Ax A x1 j + a2 * Ax A x2 j))
        with (a1 * (vget b1 j - Ax A x1 j) + a2 * (vget b2 j - Ax A x2 j)) by ring.
      rewrite ch_prec_linear.
      destruct Hpl as [->|Hpl].
      - rewrite ch_coef0. ring.
      - rewrite (Hpl j Hj). ring. }
    apply IH; try assumption.
    + intros j Hj. rewrite (Gx' j Hj), (Gx1' j Hj), (Gx2' j Hj), (Pl j Hj), (Hxl j Hj). ring.
    + right. exact Pl.
Qed.

Theorem cheby_solve_linear (two quarter c d : S) M degree (A : crs) (a1 a2 : S)
        (b x p r b1 x1 p1 r1 b2 x2 p2 r2 : vec) :
  wf A = true ->
  length b = nrows A -> length x = nrows A -> length p = nrows A -> length r = nrows A ->
  length b1 = nrows A -> length x1 = nrows A -> length p1 = nrows A -> length r1 = nrows A ->
  length b2 = nrows A -> length x2 = nrows A -> length p2 = nrows A -> length r2 = nrows A ->
  (forall m, M = Some m -> length m = nrows A) ->
  (forall i, i < nrows A -> vget b i = a1 * vget b1 i + a2 * vget b2 i) ->
  (forall i, i < nrows A -> vget x i = a1 * vget x1 i + a2 * vget x2 i) ->
  forall i, i < nrows A ->
    vget (fst (fst (fst (cheby_solve two quarter c d M degree A b x p r)))) i
    = a1 * vget (fst (fst (fst (cheby_solve two quarter c d M degree A b1 x1 p1 r1)))) i
    + a2 * vget (fst (fst (fst (cheby_solve two quarter c d M degree A b2 x2 p2 r2)))) i.
Proof.
  intros Hwf Hb Hx Hp Hr Hb1 Hx1 Hp1 Hr1 Hb2 Hx2 Hp2 Hr2 HM Hbl Hxl i Hi.
  unfold cheby_solve.
  apply (ch_lin_gen two quarter c d M A a1 a2 b b1 b2 Hwf Hb Hb1 Hb2 HM Hbl); auto.
Qed.

Theorem cheby_sweep_linear (c d : S) M degree (A : crs) (a1 a2 : S)
        (b x p r b1 x1 p1 r1 b2 x2 p2 r2 : vec) :
  wf A = true ->
  length b = nrows A -> length x = nrows A -> length p = nrows A -> length r = nrows A ->
  length b1 = nrows A -> length x1 = nrows A -> length p1 = nrows A -> length r1 = nrows A ->
  length b2 = nrows A -> length x2 = nrows A -> length p2 = nrows A -> length r2 = nrows A ->
  (forall m, M = Some m -> length m = nrows A) ->
  (forall i, i < nrows A -> vget b i = a1 * vget b1 i + a2 * vget b2 i) ->
  (forall i, i < nrows A -> vget x i = a1 * vget x1 i + a2 * vget x2 i) ->
  forall i, i < nrows A ->
    vget (cheby_sweep (c, d, M) degree A b x p r) i
    = a1 * vget (cheby_sweep (c, d, M) degree A b1 x1 p1 r1) i
    + a2 * vget (cheby_sweep (c, d, M) degree A b2 x2 p2 r2) i.
Proof.
  intros. rewrite !ch_sweep_solve. apply cheby_solve_linear; assumption.
Qed.

(* the result does not depend on the content of the workspaces p, r
   (for every degree, including 0) *)
Theorem cheby_solve_junk_independent (two quarter c d : S) M degree (A : crs)
        (b x p r p' r' : vec) :
  wf A = true ->
  length b = nrows A -> length x = nrows A ->
  length p = nrows A -> length r = nrows A -> length p' = nrows A -> length r' = nrows A ->
  (forall m, M = Some m -> length m = nrows A) ->
  forall i, i < nrows A ->
    vget (fst (fst (fst (cheby_solve two quarter c d M degree A b x p r)))) i
    = vget (fst (fst (fst (cheby_solve two quarter c d M degree A b x p' r')))) i.
Proof.
  intros Hwf Hb Hx Hp Hr Hp' Hr' HM i Hi.
  rewrite (cheby_solve_linear two quarter c d M degree A s1 s0
             b x p r b x p' r' b x p' r'); try assumption.
  - ring.
  - intros; ring.
  - intros; ring.
Qed.

Theorem cheby_sweep_junk_independent (c d : S) M degree (A : crs) (b x p r p' r' : vec) :
  wf A = true ->
  length b = nrows A -> length x = nrows A ->
  length p = nrows A -> length r = nrows A -> length p' = nrows A -> length r' = nrows A ->
  (forall m, M = Some m -> length m = nrows A) ->
  forall i, i < nrows A ->
    vget (cheby_sweep (c, d, M) degree A b x p r) i
    = vget (cheby_sweep (c, d, M) degree A b x p' r') i.
Proof.
  intros. rewrite !ch_sweep_solve. apply cheby_solve_junk_independent; assumption.
Qed.

(* affine in x for fixed b: the difference of two sweeps with the same right-hand side
   is the sweep of the homogeneous problem applied to the difference *)
Corollary cheby_sweep_affine (c d : S) M degree (A : crs) (b z x y e p r p1 r1 p2 r2 : vec) :
  wf A = true ->
  length b = nrows A -> length z = nrows A ->
  length x = nrows A -> length y = nrows A -> length e = nrows A ->
  length p = nrows A -> length r = nrows A -> length p1 = nrows A -> length r1 = nrows A ->
  length p2 = nrows A -> length r2 = nrows A ->
  (forall m, M = Some m -> length m = nrows A) ->
  (forall i, i < nrows A -> vget z i = s0) ->
  (forall i, i < nrows A -> vget x i = vget y i + vget e i) ->
  forall i, i < nrows A ->
    vget (cheby_sweep (c, d, M) degree A b x p r) i
    = vget (cheby_sweep (c, d, M) degree A b y p1 r1) i
    + vget (cheby_sweep (c, d, M) degree A z e p2 r2) i.
Proof.
  intros Hwf Hb Hz Hx Hy He Hp Hr Hp1 Hr1 Hp2 Hr2 HM Hz0 Hxe i Hi.
  rewrite (cheby_sweep_linear c d M degree A s1 s1 b x p r b y p1 r1 z e p2 r2);
    try assumption.
  - ring.
  - intros j Hj. rewrite (Hz0 j Hj). ring.
  - intros j Hj. rewrite (Hxe j Hj). ring.
Qed.

End ChebyProofs.
