(* NcRingBlockInv.v -- math::inverse(static_matrix<T,b,b>) at the block instance:
   whenever detail::inverse passes its assertion (blk_inverse x = Some y) the result is a RIGHT inverse,
   x * y = I (InverseExact.inverse_exact: LU with partial pivoting + 2n triangular solves, every n).
   Consequences used by the non-commutative relaxation theorems:
     [BlockS_inv_right]    sinv x <> 0 -> x * sinv x = 1      (the hypothesis Hinv of BlockIlu0Exact.v)
     [BlockS_inv_two_sided] if both x and sinv x are inverted successfully then sinv x is a two-sided
                            inverse and sinv (sinv x) = x.
   Base ring: a field with decidable equality and sinv 0 = 0 (QcS). *)
From Amgcl Require Import Scalar Vec KernelsProofs DirectUtil Inverse StaticMat StaticMatProofs InverseExact
  BlockInst NcRing NcRingBlock.
Local Open Scope S_scope.

Section BlockInv.
Variable S0 : Scalar.
Variable b : nat.
Hypothesis Sft : Sfield S0.
Hypothesis Seqb : seqb_spec S0.
Hypothesis sinv_0 : sinv (@s0 S0) = s0.
Let Srt : Sring S0 := F_R Sft.
Local Notation B := (BlockS S0 b).
Local Notation blk := (blk S0 b).

Lemma blk_inverse_aux (o : option (vec S0)) (F : forall y, o = Some y -> length y = (b * b)%nat) :
  option_map blk_list
    (match o as o' return (o = o' -> option blk) with
     | Some y => fun E => Some (mk_blk S0 b y (F y E))
     | None => fun _ => None
     end eq_refl) = o.
Proof. revert F. destruct o; intro F; reflexivity. Qed.

Lemma blk_inverse_eq (x : blk) :
  option_map blk_list (blk_inverse x) = sm_inverse b (blk_list x) (sm_zero b b).
Proof.
  exact (blk_inverse_aux (sm_inverse b (blk_list x) (sm_zero b b))
           (fun y E => eq_trans (inverse_len S0 b _ _ _ E) (repeat_len S0 b s0))).
Qed.

Theorem blk_inverse_right (x y : blk) : blk_inverse x = Some y -> blk_mul S0 b x y = blk_id S0 b.
Proof.
  intro H. pose proof (blk_inverse_eq x) as E. rewrite H in E. cbn [option_map] in E. symmetry in E.
  apply (blk_ext_get S0 b). intros i j Hi Hj.
  rewrite blk_get_mul, blk_get_id by assumption.
  exact (inverse_exact Sft Seqb sinv_0 b (blk_list x) (blk_len S0 b x) (sm_zero b b) (blk_list y)
           (sm_zero_length b b) E i j Hi Hj).
Qed.

(* the zero block is the out-of-domain default of blk_inv: a non-zero result is a right inverse *)
Theorem BlockS_inv_right (x : B) : sinv x <> s0 -> x * sinv x = s1.
Proof.
  cbn [sinv smul s0 s1 BlockS]. unfold blk_inv. intro H.
  destruct (blk_inverse x) as [y|] eqn:E; [|contradiction H; reflexivity].
  apply blk_inverse_right. exact E.
Qed.

Theorem BlockS_inv_two_sided (x : B) : sinv x <> s0 -> sinv (sinv x) <> s0 ->
  x * sinv x = s1 /\ sinv x * x = s1 /\ sinv (sinv x) = x.
Proof.
  intros H1 H2. pose proof (BlockS_inv_right x H1) as R1. pose proof (BlockS_inv_right _ H2) as R2.
  pose proof (BlockS_ncring S0 b Srt) as Hnc.
  assert (E : sinv (sinv x) = x).
  { transitivity ((x * sinv x) * sinv (sinv x)); [rewrite R1; symmetry; apply (nc_mul_1_l _ Hnc)|].
    rewrite <- (nc_mul_assoc _ Hnc), R2. apply (nc_mul_1_r _ Hnc). }
  split; [exact R1|]. split; [|exact E]. rewrite E in R2. exact R2.
Qed.

End BlockInv.
