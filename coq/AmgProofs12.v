(* AmgProofs12.v -- C02-B1 closed for hierarchies produced by the model: Galerkin chain of
   M-matrices, damped Jacobi (0 < w <= 1) or Gauss-Seidel, exact coarse solve:
   hier_dec holds, the cycle decreases the energy (strictly for w < 1 or Gauss-Seidel), and the
   preconditioner is positive:  <B g, g> > 0 for g <> 0.  (ordered field) *)
From Amgcl Require Import Scalar Vec Crs Kernels KernelsProofs MatOps MatOpsProofs Relax DenseSolve
  Amg AmgExec AmgProofs AmgProofs2 AmgProofs3 AmgProofs4 AmgProofs5 AmgProofs6 AmgProofs7 AmgProofs8
  AmgProofs9 AmgProofs10 AmgOrder AmgProofs11.
Local Open Scope S_scope.

Section Closed.
Context {S : Scalar}.
Local Notation vec := (vec S).
Local Notation crs := (crs S).
Local Notation level := (@level S).
Local Notation ldesc := (@ldesc S).
Hypothesis Sft : Sfield S.
Hypothesis Seqb : seqb_spec S.
Hypothesis Ord : ordered S.
Let Srt : Sring S := F_R Sft.
Add Ring SRingA12 : Srt.
Local Notation ip := (@ip S).

Definition fdiag_ok (A : crs) : Prop :=
  forall i, i < nrows A -> first_col (nth i (rows A) []) i = Some (mget A i i).

Definition lvl_spd (A : crs) : Prop :=
  wf A = true /\ mmat (nrows A) A /\ fdiag_ok A /\ gs_diag_ok A.

Definition kind_ok (k : @relax_kind S) : Prop :=
  match k with RJacobi w => olt s0 w /\ ole w s1 | RGS => True | RSpai0 => False end.
Definition kind_strict (k : @relax_kind S) : Prop :=
  match k with RJacobi w => olt w s1 | RGS => True | RSpai0 => False end.

Lemma std_sweeps_dec k (A : crs) : kind_ok k -> lvl_spd A ->
  it_dec (nrows A) A (sm (nrows A) (fst (mk_relax_std k A))) /\
  it_dec (nrows A) A (sm (nrows A) (snd (mk_relax_std k A))).
Proof.
  intros Hk (WA & HM & Hfd & Hgs). destruct k as [w| |]; cbn [mk_relax_std fst snd]; [| destruct Hk|].
  - destruct Hk as [H0 H1].
    split; apply (jacobi_it_dec Sft Seqb Ord A w (vzero (nrows A)) WA HM Hfd H0 H1).
  - destruct HM as (SA & _ & Hpos & _).
    split; [apply (gs_it_dec Sft Seqb Ord A WA SA Hgs Hpos true)|apply (gs_it_dec Sft Seqb Ord A WA SA Hgs Hpos false)].
Qed.

Lemma std_pre_sdec k (A : crs) : kind_ok k -> kind_strict k -> lvl_spd A ->
  it_sdec (nrows A) A (sm (nrows A) (fst (mk_relax_std k A))).
Proof.
  intros Hk Hs (WA & HM & Hfd & Hgs). destruct k as [w| |]; cbn [mk_relax_std fst snd]; [| destruct Hk|].
  - destruct Hk as [H0 H1]. apply (jacobi_it_sdec Sft Seqb Ord A w (vzero (nrows A)) WA HM Hfd H0 Hs).
  - destruct HM as (SA & _ & Hpos & _). apply (gs_it_sdec Sft Seqb Ord A WA SA Hgs Hpos true).
Qed.

Fixpoint descs_spd (ls : list ldesc) : Prop :=
  match ls with
  | [] => True
  | LMid A P R :: tl => lvl_spd A /\ wf P = true /\ wf R = true /\ nrows P = nrows A /\
                        transp (nrows A) (nrows R) R P /\ descs_spd tl
  | LLast A :: tl => lvl_spd A /\ descs_spd tl
  | LSolve A :: tl => lvl_spd A /\ descs_spd tl
  end.

Lemma descs_spd_A l tl : descs_spd (l :: tl) -> lvl_spd (ld_A l) /\ descs_spd tl.
Proof. destruct l; simpl; tauto. Qed.

Lemma id_sm_dec n (A : crs) : it_dec n A (sm n (fun (_ x t : vec) => (x, t))).
Proof. apply (id_dec Srt (O1 Ord) n A). Qed.

Lemma inst_dec k (l : ldesc) : kind_ok k -> lvl_spd (ld_A l) ->
  let il := instantiate (mk_relax_std k) mk_solve_exact l in
  it_dec (nrows (ld_A l)) (ld_A l) (sm (nrows (ld_A l)) (lpre il)) /\
  it_dec (nrows (ld_A l)) (ld_A l) (sm (nrows (ld_A l)) (lpost il)).
Proof.
  intros Hk Hl. destruct l as [A P R|A|A]; cbn [instantiate lpre lpost ld_A] in *;
    try (apply std_sweeps_dec; assumption).
  split; apply id_sm_dec.
Qed.

Theorem chain_hier_dec k (ls : list ldesc) : kind_ok k -> chain (@galerkin S) ls -> descs_spd ls ->
  hier_dec (std_levels k ls).
Proof.
  intro Hk. induction ls as [|l tl IH]; intros Hc Hd; [destruct Hc|].
  destruct (descs_spd_A l tl Hd) as [Hl Htl].
  pose proof Hl as (WA & HM & _ & _). pose proof HM as (SA & _).
  unfold std_levels in *. cbn [map hier_dec]. rewrite (inst_lA (mk_relax_std k) mk_solve_exact).
  destruct (inst_sweeps_ok (mk_relax_std k) mk_solve_exact (mk_relax_std_ok k) l) as [Ok1 Ok2].
  destruct (inst_dec k l Hk Hl) as [D1 D2].
  split; [exact Ok1|]. split; [exact Ok2|]. split; [exact WA|]. split; [exact SA|].
  split; [exact D1|]. split; [exact D2|].
  destruct tl as [|next tl'].
  - cbn [map]. split; [|exact I].
    intros sv Esv. destruct l as [A P R|A|A]; cbn in Esv; try discriminate.
    inversion Esv; subst. cbn [ld_A] in *. split; [apply mk_solve_exact_ok|].
    apply (exact_solve_dec Sft Seqb (O1 Ord) A); [apply SA|exact WA|exact SA|].
    intros v Lv. change (ole (sopp (qA (nrows A) A v v)) s0).
    apply (proj1 (ole_opp Srt Ord _)). apply (mmat_psd Sft Ord (nrows A) A HM v).
  - destruct l as [A P R| |]; simpl in Hc; try contradiction. destruct Hc as [Hn Hc].
    cbn [map]. split; [|apply IH; assumption].
    simpl in Hd. destruct Hd as (_ & WP & WR & NP & HT & _).
    cbn [instantiate lA lR lP ld_A] in *.
    rewrite (inst_lA (mk_relax_std k) mk_solve_exact), Hn, sort_rows_nrows.
    assert (E : nrows (galerkin A P R) = nrows R) by apply galerkin_shape.
    rewrite E. split; [exact WR|]. split; [exact WP|]. split; [reflexivity|]. split; [exact NP|].
    split; [exact HT|]. intros u _. apply (galerkin_energy Srt A P R (nrows A) (nrows R)); assumption.
Qed.

(* the top level is smoothed (not the direct solver alone) *)
Definition top_smoothed (ls : list ldesc) : Prop :=
  match ls with LSolve _ :: _ => False | [] => False | _ => True end.

Theorem chain_top_strict k (ls : list ldesc) : kind_ok k -> kind_strict k -> descs_spd ls ->
  top_smoothed ls -> top_strict (std_levels k ls).
Proof.
  intros Hk Hs Hd Ht. destruct ls as [|l tl]; [destruct Ht|].
  destruct (descs_spd_A l tl Hd) as [Hl _].
  unfold std_levels. cbn [map top_strict]. rewrite (inst_lA (mk_relax_std k) mk_solve_exact).
  split.
  - destruct l as [A P R|A|A]; cbn [instantiate lpre ld_A] in *; [| |destruct Ht];
      apply std_pre_sdec; assumption.
  - destruct tl as [|n2 tl']; cbn [map]; [|exact I].
    intros sv Esv. destruct l as [A P R|A|A]; cbn in Esv; try discriminate. destruct Ht.
Qed.

(* positivity from the strict energy inequality and positive semi-definiteness *)
Lemma pos_from_energy (q b : S) : ole s0 q -> lt0 (q - two * b) -> olt s0 b.
Proof.
  intros Hq H. change (olt (q - two * b) s0) in H.
  destruct (olt_or_ole s0 b) as [L|L]; [exact L|]. exfalso.
  assert (P : ole s0 (q - two * b)).
  { replace (q - two * b) with (q + (sopp b + sopp b)) by (unfold two; ring).
    replace (@s0 S) with (@s0 S + (s0 + s0)) by ring.
    apply (ole_add Srt Ord); [exact Hq|]. apply (ole_add Srt Ord);
      apply (proj1 (ole_0_sub Srt Ord b s0)) in L; replace (s0 - b) with (sopp b) in L by ring; exact L. }
  exact (olt_not_ole _ _ H P).
Qed.

(* closed statement: contraction and positivity of the preconditioner *)
Theorem built_contracts kd ce dc ml ts (M : crs) k nc pc :
  kind_ok kd -> kind_strict kd ->
  let ls := amg_init ce dc ml (@galerkin S) ts M in
  descs_spd ls -> top_smoothed ls ->
  let lvls := std_levels kd ls in
  forall scr g x, scratch_wf lvls scr -> length g = nrows M -> length x = nrows M ->
  g <> vzero (nrows M) ->
  let B := fst (apply (Datatypes.S k) (Datatypes.S k) (Datatypes.S nc) (Datatypes.S pc) lvls scr g x) in
  lt0 (qA (nrows M) (sort_rows M) B B - two * ip (nrows M) g B) /\ olt s0 (ip (nrows M) g B).
Proof.
  intros Hk Hs ls Hd Ht lvls scr g x Hscr Lg Lx Hg B.
  destruct (amg_init_chain ce dc ml (@galerkin S) ts M) as [Hc Hh]. fold ls in Hc, Hh.
  pose proof (chain_hier_dec kd ls Hk Hc Hd) as HD. fold lvls in HD.
  pose proof (chain_top_strict kd ls Hk Hs Hd Ht) as HS. fold lvls in HS.
  assert (En : top_n lvls = nrows M).
  { unfold lvls, std_levels. rewrite (top_n_inst _ _ _ _ Hh). apply sort_rows_nrows. }
  assert (EA : top_A lvls = sort_rows M).
  { unfold lvls, std_levels, top_A. destruct ls as [|l tl]; [destruct Hh|]. cbn [map hd].
    rewrite (inst_lA (mk_relax_std kd) mk_solve_exact). exact Hh. }
  assert (Hl : lvl_spd (sort_rows M)).
  { destruct ls as [|l tl]; [destruct Hh|]. simpl in Hh. rewrite <- Hh. apply (descs_spd_A l tl Hd). }
  destruct Hl as (WA & HM & _ & _). pose proof HM as (SA & _).
  rewrite sort_rows_nrows in HM, SA.
  pose proof (apply_energy_strict Srt Seqb (O1 Ord) (O2 Sft Ord) (O3 Sft Ord) k nc pc lvls HD HS) as H.
  rewrite En, EA in H. specialize (H WA SA scr g x Hscr Lg Lx Hg). cbv zeta in H. fold B in H.
  split; [exact H|]. apply (pos_from_energy _ _ (mmat_psd Sft Ord (nrows M) (sort_rows M) HM B) H).
Qed.

End Closed.
