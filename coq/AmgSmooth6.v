(* AmgSmooth6.v -- C02: positive definiteness of the V-cycle preconditioner for ANY coarse operator
   (in particular the re-scaled Galerkin operator A_c = s R A P of plain aggregation with
   over-interpolation, amgcl's default for coarsening::aggregation), where the energy argument of
   AmgProofs10 does not apply (the Galerkin identity <A P u, P u> = <A_c u, u> fails for s <> 1).
   For ncycle = 1, npre = npost = k, started at x = 0, with x1 = pre^k(g, 0), w = R (g - A x1):
       <B g, g> = - J_g(x1) + <B_c w, w>,        J_g(x) = <A x,x> - 2 <g,x>
   (the post-smoother is the dual of the pre-smoother: AmgProofs7.it_dual).  - J_g(x1) >= 0 because
   the pre-smoother does not increase J_g from J_g(0) = 0, > 0 for g <> 0 if it decreases strictly;
   <B_c w, w> >= 0 by induction.  No relation between the level matrices is used.
   The W-cycle and pre_cycles = 2 are excluded for a reason: B_2 = 2 B_1 - B_1 A B_1 is positive only
   if B_1 A B_1 < 2 B_1, which is the contraction statement again. *)
From Amgcl Require Import Scalar Vec Crs Kernels KernelsProofs MatOps MatOpsProofs Relax RelaxProofs DenseSolve
  Amg AmgExec AmgProofs AmgProofs2 AmgProofs3 AmgProofs4 AmgProofs5 AmgProofs6 AmgProofs7 AmgProofs8
  AmgProofs9 AmgProofs10 AmgOrder AmgProofs11 AmgProofs12 AmgSmooth AmgSmooth2 AmgSmooth3.
Local Open Scope S_scope.

Section VPos.
Context {S : Scalar}.
Local Notation vec := (vec S).
Local Notation crs := (crs S).
Local Notation level := (@level S).
Local Notation ldesc := (@ldesc S).
Hypothesis Sft : Sfield S.
Hypothesis Seqb : seqb_spec S.
Hypothesis Ord : ordered S.
Let Srt : Sring S := F_R Sft.
Add Ring SRingSm6 : Srt.
Local Notation ip := (@ip S).

Variable k : nat.       (* npre = npost = k, ncycle = 1 *)

(* pre-smoothers do not increase the energy of their own level; a coarse solver is non-negative *)
Fixpoint hier_pre_dec (lvls : list level) : Prop :=
  match lvls with
  | [] => True
  | l :: rest =>
    let n := nrows (lA l) in
    it_dec n (lA l) (sm n (lpre l)) /\
    (forall sv, lsolve l = Some sv -> forall w, length w = n -> ole s0 (ip n (sv w (z n)) w)) /\
    hier_pre_dec rest
  end.

Definition Bop (lvls : list level) (g : vec) : vec := Cyc k 1 lvls g (vzero (top_n lvls)).

(* - J_g(x1) >= 0 for x1 = pre^k(g, 0) *)
Lemma pre_gain n (A : crs) (Phi : iteration) : wf A = true -> nrows A = n -> sym_mat n A ->
  it_len n Phi -> it_dec n A Phi -> forall g, length g = n ->
  ole s0 (sopp (J n A g (Phi g (z n)))).
Proof.
  intros WA NA SA HL HD g Lg. pose proof (HD g (z n) Lg (Lz n)) as H. unfold dJ in H.
  rewrite (J_zero Srt n A g) in H.
  apply (proj2 (ole_opp Srt Ord _)). replace (sopp (sopp (J n A g (Phi g (z n))))) with (J n A g (Phi g (z n)) - s0) by ring.
  exact H.
Qed.

Lemma pre_gain_strict n (A : crs) (Phi : iteration) : wf A = true -> nrows A = n -> sym_mat n A ->
  it_sdec n A Phi -> forall g, length g = n -> g <> z n ->
  olt s0 (sopp (J n A g (Phi g (z n)))).
Proof.
  intros WA NA SA HS g Lg Hg.
  assert (Hr : res n A g (z n) <> z n) by (rewrite (res_zero Srt n A WA NA SA g Lg); exact Hg).
  pose proof (HS g (z n) Lg (Lz n) Hr) as H. unfold dJ in H. rewrite (J_zero Srt n A g) in H.
  apply (proj2 (olt_opp Srt Ord _)). replace (sopp (sopp (J n A g (Phi g (z n))))) with (J n A g (Phi g (z n)) - s0) by ring.
  exact H.
Qed.

(* <x1, g - A x1> + <g, x1> = - J_g(x1) *)
Lemma gain_id n (A : crs) (g x1 : vec) : wf A = true -> nrows A = n -> sym_mat n A ->
  length g = n -> length x1 = n ->
  ip n g x1 + ip n x1 (res n A g x1) = sopp (J n A g x1).
Proof.
  intros WA NA SA Lg L1. rewrite (ip_sym Srt n x1 (res n A g x1)).
  rewrite (ip_res_l Srt n A WA NA SA g x1 x1 Lg L1 L1). unfold J, two. ring.
Qed.

Section Level.
Variable l : level.
Let n := nrows (lA l).
Hypothesis Hpre : sweep_ok n (lpre l).
Hypothesis Hpost : sweep_ok n (lpost l).
Hypothesis WA : wf (lA l) = true.
Hypothesis SA : sym_mat n (lA l).
Hypothesis Hcpost : sweep_cons n (lA l) (lpost l).
Hypothesis Hcpre : sweep_cons n (lA l) (lpre l).
Hypothesis Hadj : sweep_adj n (lpre l) (lpost l).

Let PreK := itpow k (sm n (lpre l)).
Let PostK := itpow k (sm n (lpost l)).

Lemma LPre : it_len n PreK.
Proof. apply itpow_len, sm_len, Hpre. Qed.
Lemma LPost : it_len n PostK.
Proof. apply itpow_len, sm_len, Hpost. Qed.

Lemma Dpost : it_dual n (lA l) PostK PreK.
Proof.
  apply (itpow_dual Srt n (lA l) WA eq_refl SA k); [apply sm_len, Hpost|apply sm_len, Hpre| |].
  - apply (sm_cons n (lA l)), Hcpre.
  - apply (sm_dual Srt n (lA l) WA eq_refl SA); assumption.
Qed.

(* last level without solver: B g = post^k(g, pre^k(g, 0)) *)
Lemma last_gain (g : vec) : length g = n ->
  ip n (comp PostK PreK g (z n)) g = sopp (J n (lA l) g (PreK g (z n))).
Proof.
  intro Lg. unfold comp. set (x1 := PreK g (z n)).
  assert (L1 : length x1 = n) by (apply LPre; [exact Lg|apply Lz]).
  rewrite (Dpost g x1 g Lg L1 Lg). fold x1. apply gain_id; auto.
Qed.

(* level with a coarser one below *)
Section Mid.
Variable n' : nat.
Variable Bc : vec -> vec.
Hypothesis WR : wf (lR l) = true.
Hypothesis WP : wf (lP l) = true.
Hypothesis NR : nrows (lR l) = n'.
Hypothesis NP : nrows (lP l) = n.
Hypothesis HT : transp n n' (lR l) (lP l).
Hypothesis Bc_len : forall h, length h = n' -> length (Bc h) = n'.

Lemma mid_gain (g : vec) : length g = n ->
  let x1 := PreK g (z n) in
  let w := restr n' (lR l) (res n (lA l) g x1) in
  ip n (body_it k l n' Bc g (z n)) g = sopp (J n (lA l) g x1) + ip n' (Bc w) w.
Proof.
  intros Lg x1 w. destruct HT as (HcR & HcP & Htr).
  assert (L1 : length x1 = n) by (apply LPre; [exact Lg|apply Lz]).
  assert (Lr : length (res n (lA l) g x1) = n) by (apply (res_length n (lA l) eq_refl SA); exact Lg).
  assert (Lw : length w = n') by apply restr_length.
  set (u := Bc w). assert (Lu : length u = n') by (apply Bc_len, Lw).
  set (x2 := cgc n (lA l) n' (lR l) (lP l) Bc g x1).
  assert (L2 : length x2 = n) by (apply cgc_len; assumption).
  change (body_it k l n' Bc g (z n)) with (PostK g x2).
  rewrite (Dpost g x2 g Lg L2 Lg). fold x1.
  (* <x2, r> = <P u, r> + <x1, r> *)
  assert (E2 : ip n x2 (res n (lA l) g x1) =
               ip n (mv (lP l) u) (res n (lA l) g x1) + ip n x1 (res n (lA l) g x1)).
  { rewrite (ip_lin_l Srt n s1 (mv (lP l) u) s1 x1 x2 (res n (lA l) g x1)); [ring|].
    intros i Hi. unfold x2. rewrite (cgc_get Srt Seqb n (lA l) n' (lR l) (lP l) Bc WP NP g x1 i L1 Hi).
    fold w. fold u. rewrite (mv_get Srt (lP l) u i WP). ring. }
  rewrite E2.
  (* <P u, r> = <u, R r> = <Bc w, w> *)
  assert (E3 : ip n (mv (lP l) u) (res n (lA l) g x1) = ip n' u w).
  { rewrite (ip_Ax n (lP l) u (mv (lP l) u) (res n (lA l) g x1)) by (intros i _; apply (mv_get Srt (lP l) u i WP)).
    rewrite (qA_adj Srt (lP l) (lR l) n n' u (res n (lA l) g x1) HcP HcR)
      by (intros i j Hi Hj; symmetry; apply Htr; assumption).
    rewrite (ip_sym Srt n' u w). symmetry. apply ip_Ax. intros i Hi. unfold w, restr.
    rewrite (spmv_spec Srt Seqb) by (auto; rewrite ?vzero_length; congruence). ring. }
  rewrite E3.
  rewrite <- (gain_id n (lA l) g x1 WA eq_refl SA Lg L1). ring.
Qed.

End Mid.
End Level.

(* the V-cycle operator is positive semi-definite on every level ... *)
Theorem Vcycle_psd (lvls : list level) : hier_sym lvls -> hier_symk lvls -> hier_pre_dec lvls ->
  forall g, length g = top_n lvls -> ole s0 (ip (top_n lvls) (Bop lvls g) g).
Proof.
  induction lvls as [|l rest IH]; intros Hh Hk Hp g Lg.
  - unfold AmgProofs6.ip. simpl. apply (ole_refl Ord).
  - pose proof (hier_sym_wf _ Hh) as Hwf.
    cbn [hier_sym] in Hh. destruct Hh as (Hpre & Hpost & WA & SA & Hcpost & Hadj & Hmid & Hrest).
    cbn [hier_symk] in Hk. destruct Hk as [Hcpre Hk'].
    cbn [hier_pre_dec] in Hp. destruct Hp as (Dpre & Hsv & Hp').
    cbn [top_n] in *. set (n := nrows (lA l)) in *.
    pose proof (itpow_dec Srt (O1 Ord) (O2 Sft Ord) n (lA l) k _ (sm_len n _ Hpre) Dpre) as DPre.
    unfold Bop. cbn [top_n]. fold n.
    destruct rest as [|nxt rest'].
    + unfold Cyc. rewrite (cyc_last_eq k 1 l Hwf (zscr [l]) g (vzero n) (zscr_wf [l]) Lg (vzero_length n)).
      destruct (lsolve l) as [sv|] eqn:El.
      * apply (Hsv sv eq_refl g Lg).
      * change (@vzero S n) with (@z S n).
        pose proof (last_gain l Hpre Hpost WA SA Hcpost Hcpre Hadj g Lg) as E. fold n in E. fold n. rewrite E.
        apply (pre_gain n (lA l) _ WA eq_refl SA (LPre l Hpre) DPre g Lg).
    + destruct Hmid as (WR & WP & NR & NP & HT).
      set (n' := nrows (lA nxt)) in *.
      pose proof Hwf as (_ & _ & _ & Hwf').
      set (Bc := fun h => Cyc k 1 (nxt :: rest') h (vzero n')).
      assert (Bc_len : forall h, length h = n' -> length (Bc h) = n').
      { intros h Lh. unfold Bc. apply (Cyc_len Seqb k 1 (nxt :: rest') Hwf'); [exact Lh|apply vzero_length]. }
      unfold Cyc at 1.
      rewrite (cyc_mid_eq Seqb k 1 l nxt rest' Hwf (zscr (l :: nxt :: rest')) g (vzero n)
                 (zscr_wf _) Lg (vzero_length n)).
      fold n'. fold Bc. change (itpow 1 (body_it k l n' Bc) g (vzero n)) with (body_it k l n' Bc g (@z S n)).
      pose proof (mid_gain l Hpre Hpost WA SA Hcpost Hcpre Hadj n' Bc WR WP NR NP HT Bc_len g Lg) as E.
      cbv zeta in E. fold n in E. fold n. rewrite E.
      replace (@s0 S) with (@s0 S + s0) by ring. apply (ole_add Srt Ord).
      * apply (pre_gain n (lA l) _ WA eq_refl SA (LPre l Hpre) DPre g Lg).
      * specialize (IH Hrest Hk' Hp'). cbn [top_n] in IH. fold n' in IH.
        apply IH. apply restr_length.
Qed.

(* ... and positive definite where the pre-smoother strictly decreases the energy (k >= 1) *)
Theorem Vcycle_pd (lvls : list level) : hier_sym lvls -> hier_symk lvls -> hier_pre_dec lvls ->
  (match lvls with
   | l :: _ => it_sdec (nrows (lA l)) (lA l) (itpow k (sm (nrows (lA l)) (lpre l))) /\
               (lsolve l = None \/ exists nxt rest, lvls = l :: nxt :: rest)
   | [] => False end) ->
  forall g, length g = top_n lvls -> g <> vzero (top_n lvls) ->
  olt s0 (ip (top_n lvls) (Bop lvls g) g).
Proof.
  destruct lvls as [|l rest]; intros Hh Hk Hp Hs g Lg Hg; [destruct Hs|].
  destruct Hs as [SPre Hns].
  pose proof (hier_sym_wf _ Hh) as Hwf.
  pose proof Hh as Hh0. pose proof Hk as Hk0. pose proof Hp as Hp0.
  cbn [hier_sym] in Hh. destruct Hh as (Hpre & Hpost & WA & SA & Hcpost & Hadj & Hmid & Hrest).
  cbn [hier_symk] in Hk. destruct Hk as [Hcpre Hk'].
  cbn [hier_pre_dec] in Hp. destruct Hp as (Dpre & Hsv & Hp').
  cbn [top_n] in *. set (n := nrows (lA l)) in *.
  unfold Bop. cbn [top_n]. fold n.
  destruct rest as [|nxt rest'].
  - unfold Cyc. rewrite (cyc_last_eq k 1 l Hwf (zscr [l]) g (vzero n) (zscr_wf [l]) Lg (vzero_length n)).
    destruct Hns as [El|(nx & rs & E)]; [|discriminate]. rewrite El.
    change (@vzero S n) with (@z S n).
    pose proof (last_gain l Hpre Hpost WA SA Hcpost Hcpre Hadj g Lg) as E. fold n in E. fold n. rewrite E.
    apply (pre_gain_strict n (lA l) _ WA eq_refl SA SPre g Lg Hg).
  - destruct Hmid as (WR & WP & NR & NP & HT).
    set (n' := nrows (lA nxt)) in *.
    pose proof Hwf as (_ & _ & _ & Hwf').
    set (Bc := fun h => Cyc k 1 (nxt :: rest') h (vzero n')).
    assert (Bc_len : forall h, length h = n' -> length (Bc h) = n').
    { intros h Lh. unfold Bc. apply (Cyc_len Seqb k 1 (nxt :: rest') Hwf'); [exact Lh|apply vzero_length]. }
    unfold Cyc at 1.
    rewrite (cyc_mid_eq Seqb k 1 l nxt rest' Hwf (zscr (l :: nxt :: rest')) g (vzero n)
               (zscr_wf _) Lg (vzero_length n)).
    fold n'. fold Bc. change (itpow 1 (body_it k l n' Bc) g (vzero n)) with (body_it k l n' Bc g (@z S n)).
    pose proof (mid_gain l Hpre Hpost WA SA Hcpost Hcpre Hadj n' Bc WR WP NR NP HT Bc_len g Lg) as E.
    cbv zeta in E. fold n in E. fold n. rewrite E.
    replace (@s0 S) with (@s0 S + s0) by ring. apply (olt_ole_add Srt Ord).
    + apply (pre_gain_strict n (lA l) _ WA eq_refl SA SPre g Lg Hg).
    + pose proof (Vcycle_psd (nxt :: rest') Hrest Hk' Hp') as H. cbn [top_n] in H. fold n' in H.
      apply H. apply restr_length.
Qed.

End VPos.

(* ------------------------------------------------------------------ *)
(* closed form for hierarchies built by the model with ANY of its coarse operators (Galerkin or
   re-scaled Galerkin): the V-cycle preconditioner (ncycle = 1, pre_cycles = 1, npre = npost >= 1)
   is symmetric positive definite *)
Section VPosBuilt.
Context {S : Scalar}.
Local Notation vec := (vec S).
Local Notation crs := (crs S).
Local Notation ldesc := (@ldesc S).
Hypothesis Sft : Sfield S.
Hypothesis Seqb : seqb_spec S.
Hypothesis Ord : ordered S.
Hypothesis Habs2 : forall v : S, sabs v * sabs v = v * v.
Hypothesis Hadj : forall v : S, sadj v = v.   (* real value types: math::adjoint = id (SPAI-0 accumulates adjoint(a_ii)) *)
Let Srt : Sring S := F_R Sft.
Add Ring SRingSm6b : Srt.
Local Notation ip := (@ip S).

(* the exact solve of a symmetric positive semi-definite matrix is a non-negative operator *)
Lemma exact_solve_nonneg (A : crs) : ncols A = nrows A -> wf A = true -> psd0 A ->
  forall w : vec, length w = nrows A -> ole s0 (ip (nrows A) (mk_solve_exact A w (z (nrows A))) w).
Proof.
  intros Hsq WA Hpsd w Lw. unfold mk_solve_exact. destruct (dense_solve A w) as [y|] eqn:E.
  - replace (ip (nrows A) y w) with (qA (nrows A) A y y); [apply Hpsd|].
    rewrite (ip_sym Srt). unfold qA, AmgProofs6.ip. apply sumn_ext. intros i Hi.
    rewrite (dense_solve_correct Sft Seqb A w y Hsq Lw E i Hi). reflexivity.
  - rewrite (ip_zero_l Srt). apply (ole_refl Ord).
Qed.

Lemma descs_pre_dec kd (ls : list ldesc) : descs_ok kd ls -> hier_pre_dec (std_levels kd ls).
Proof.
  induction ls as [|l tl IH]; intro Hd; [exact I|].
  destruct (descs_ok_A kd l tl Hd) as [Hl Htl]. specialize (IH Htl).
  unfold std_levels in *. cbn [map hier_pre_dec]. rewrite (inst_lA (mk_relax_std kd) mk_solve_exact).
  split; [apply (inst_dec2 Sft Seqb Ord Habs2 Hadj kd l Hl)|]. split; [|exact IH].
  intros sv Esv w Lw. destruct l as [A P R|A|A]; cbn in Esv; try discriminate.
  inversion Esv; subst. cbn [ld_A] in *. destruct Hl as (WA & SA & Hpsd & _).
  apply exact_solve_nonneg; [apply SA|exact WA|exact Hpsd|exact Lw].
Qed.

Lemma descs_ok_all kd (ls : list ldesc) : descs_ok kd ls -> forall l, In l ls -> lvl_ok kd (ld_A l).
Proof.
  induction ls as [|l tl IH]; intros Hd l0 Hin; [destruct Hin|].
  destruct Hin as [E|Hin].
  - subst l0. apply (descs_ok_A kd l tl Hd).
  - apply IH; [apply (descs_ok_A kd l tl Hd)|exact Hin].
Qed.

Theorem built_Vcycle_pd kd ce dc ml sc ts (M : crs) k :
  let ls := amg_init ce dc ml (coarse_op_of sc) ts M in
  wf M = true -> sym_mat (nrows M) M -> ts_sym (nrows M) ts ->
  (forall A, In (LSolve A) ls -> solvable A = true) ->
  descs_ok kd ls -> top_strict_desc kd ls -> top_smoothed ls ->
  let lvls := std_levels kd ls in
  forall scr g x, scratch_wf lvls scr -> length g = nrows M -> length x = nrows M ->
  g <> vzero (nrows M) ->
  olt s0 (ip (nrows M) g (fst (apply (Datatypes.S k) (Datatypes.S k) 1 1 lvls scr g x))).
Proof.
  intros ls WM SM Hts Hsolv Hd Hs Ht lvls scr g x Hscr Lg Lx Hg.
  destruct (amg_init_chain ce dc ml (coarse_op_of sc) ts M) as [Hc Hh]. fold ls in Hc, Hh.
  destruct (std_levels_wf kd _ ls (coarse_op_of_shape sc) Hc) as (Hw & Hne & _). fold lvls in Hw, Hne.
  assert (En : top_n lvls = nrows M).
  { unfold lvls, std_levels. rewrite (top_n_inst _ _ _ _ Hh). apply sort_rows_nrows. }
  (* level conditions, read off descs_ok *)
  pose proof (descs_ok_all kd ls Hd) as Hall.
  assert (Hsol : forall A, In (LSolve A) ls -> solve_sym (nrows A) (mk_solve_exact A)).
  { intros A HA. destruct (Hall _ HA) as (_ & SA & _). cbn [ld_A] in SA.
    apply (mk_solve_exact_sym Sft Seqb A); [apply SA|apply Hsolv, HA|exact SA]. }
  assert (Hsym : hier_sym lvls /\ hier_symk lvls).
  { destruct kd as [w| |].
    - apply (std_levels_sym Srt Seqb (RJacobi w) ce dc ml sc ts M I WM SM Hts Hsol).
    - apply (std_levels_sym Srt Seqb (@RSpai0 S) ce dc ml sc ts M I WM SM Hts Hsol).
    - apply (std_levels_sym_gs Sft ce dc ml sc ts M WM SM Hts Hsol).
      intros l Hl. destruct (Hall l Hl) as (_ & _ & _ & Hgs & _). exact Hgs. }
  destruct Hsym as [Hsy Hsk].
  pose proof (descs_pre_dec kd ls Hd) as Hpd. fold lvls in Hpd.
  (* the top level *)
  assert (Htop : match lvls with
                 | l :: _ => it_sdec (nrows (lA l)) (lA l) (itpow (Datatypes.S k) (sm (nrows (lA l)) (lpre l))) /\
                             (lsolve l = None \/ exists nxt rest, lvls = l :: nxt :: rest)
                 | [] => False end).
  { unfold lvls, std_levels in *. destruct ls as [|l tl]; [destruct Ht|]. cbn [map].
    destruct (descs_ok_A kd l tl Hd) as [Hl _]. cbn [top_strict_desc] in Hs.
    rewrite (inst_lA (mk_relax_std kd) mk_solve_exact). split.
    - destruct (inst_sweeps_ok (mk_relax_std kd) mk_solve_exact (mk_relax_std_ok kd) l) as [Ok1 _].
      destruct (inst_dec2 Sft Seqb Ord Habs2 Hadj kd l Hl) as [D1 _].
      apply (itpow_sdec Srt (O1 Ord) (O2 Sft Ord) (O3 Sft Ord) _ _ k _ (sm_len _ _ Ok1) D1).
      destruct l as [A P R|A|A]; cbn [instantiate lpre ld_A] in *; [| |destruct Ht];
        apply (std_pre_sdec2 Sft Seqb Ord Habs2 Hadj); assumption.
    - left. destruct l as [A P R|A|A]; [reflexivity|reflexivity|destruct Ht]. }
  rewrite (apply_it Seqb (Datatypes.S k) 1 0 lvls Hw scr g x Hscr) by congruence.
  change (itpow 1 (Cyc (Datatypes.S k) 1 lvls) g (vzero (top_n lvls))) with (Bop (Datatypes.S k) lvls g).
  rewrite (ip_sym Srt), <- En.
  apply (Vcycle_pd Sft Seqb Ord (Datatypes.S k) lvls Hsy Hsk Hpd Htop); congruence.
Qed.

End VPosBuilt.
