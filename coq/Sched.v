(* Sched.v -- schedules as data (DESIGN 1.3): a small concurrent semantics for the
   OpenMP regions of amgcl, and the schedule-construction code shared by the two
   hand-written level schedulers
     amgcl/relaxation/gauss_seidel.hpp:211-326   (parallel_sweep ctor)
     amgcl/relaxation/detail/ilu_solve.hpp:283-395 (sptr_solve ctor).
   Definitions only; proofs in SchedProofs.v.

   A *step* has a read set, one written cell and a function of the state.  A *level*
   is a list of per-thread step lists executed between two barriers; an execution of
   a level is any interleaving of the threads' lists that keeps each thread's own
   order ([Interleave]); an execution of a region is a concatenation of executions of
   its levels ([InterleaveLevels], the barrier).  States are lists of cells; a write
   outside the list is a no-op, a read outside gives the default [d] (exactly the
   behaviour of [Relax.set_nth] / [Vec.vget]). *)
From Coq Require Import Permutation.
From Amgcl Require Import Scalar.

Section Sem.
Variable V : Type.
Variable d : V.

Definition state := list V.
Fixpoint upd (st : state) (i : nat) (v : V) : state :=
  match st, i with
  | [], _ => []
  | _ :: tl, O => v :: tl
  | a :: tl, Datatypes.S k => a :: upd tl k v
  end.
Definition rd (st : state) (c : nat) : V := nth c st d.

Record step := mkStep { reads : list nat; wr : nat; fn : state -> V }.

Definition exec1 (s : step) (st : state) : state := upd st (wr s) (fn s st).
Definition exec (l : list step) (st : state) : state := fold_left (fun st s => exec1 s st) l st.

(* the declared read set is honest: the function depends on the state only through it *)
Definition respects (s : step) : Prop :=
  forall st st', (forall c, In c (reads s) -> rd st c = rd st' c) -> fn s st = fn s st'.

(* Bernstein's conditions for two steps *)
Definition indep (a b : step) : Prop :=
  wr a <> wr b /\ ~ In (wr a) (reads b) /\ ~ In (wr b) (reads a).

(* all interleavings of the threads' lists; each thread keeps its own order *)
Inductive Interleave : list (list step) -> list step -> Prop :=
| il_nil ts : Forall (fun t => t = []) ts -> Interleave ts []
| il_step ts1 s t ts2 l :
    Interleave (ts1 ++ t :: ts2) l -> Interleave (ts1 ++ (s :: t) :: ts2) (s :: l).

(* steps of different threads of one level never conflict *)
Definition cross_indep (ts : list (list step)) : Prop :=
  forall i j a b, i <> j -> In a (nth i ts []) -> In b (nth j ts []) -> indep a b.

(* a region = list of levels with a barrier after each *)
Inductive InterleaveLevels : list (list (list step)) -> list step -> Prop :=
| ill_nil : InterleaveLevels [] []
| ill_cons ts l rest lr :
    Interleave ts l -> InterleaveLevels rest lr -> InterleaveLevels (ts :: rest) (l ++ lr).

(* the in-order execution: level by level, thread 0's list, then thread 1's, ... *)
Definition seq_of_levels (lv : list (list (list step))) : list step := concat (map (@concat step) lv).

(* an executable scheduler: [choice] names the thread that moves next (threads that
   are finished or out of range are skipped); when the choices run out the remaining
   lists run in thread order.  Every result is an interleaving (SchedProofs.pick_Interleave). *)
Fixpoint take_from (ts : list (list step)) (k : nat) : option (step * list (list step)) :=
  match ts, k with
  | [], _ => None
  | [] :: _, O => None
  | (s :: t) :: rest, O => Some (s, t :: rest)
  | t :: rest, Datatypes.S k' =>
      match take_from rest k' with
      | Some (s, rest') => Some (s, t :: rest')
      | None => None
      end
  end.
Fixpoint pick (choice : list nat) (ts : list (list step)) : list step :=
  match choice with
  | [] => concat ts
  | k :: ch => match take_from ts k with
               | Some (s, ts') => s :: pick ch ts'
               | None => pick ch ts
               end
  end.
Fixpoint pick_levels (choices : list (list nat)) (lv : list (list (list step))) : list step :=
  match lv with
  | [] => []
  | ts :: rest => pick (hd [] choices) ts ++ pick_levels (tl choices) rest
  end.

End Sem.

Arguments mkStep {V}. Arguments reads {V}. Arguments wr {V}. Arguments fn {V}.
Arguments upd {V}. Arguments exec1 {V}. Arguments exec {V}. Arguments indep {V}.
Arguments Interleave {V}. Arguments InterleaveLevels {V}. Arguments cross_indep {V}.
Arguments seq_of_levels {V}. Arguments pick {V}. Arguments pick_levels {V}. Arguments take_from {V}.

(* ------------------------------------------------------------------------------ *)
(* Row schedules: levels of row indices, per thread.                                *)

(* the serial visiting order of rows: 0..n-1 (forward sweep, lower solve) or n-1..0 *)
Definition sweep_order (forward : bool) (n : nat) : list nat :=
  if forward then seq 0 n else rev (seq 0 n).

(* l[b, e) *)
Definition slice {X} (l : list X) (b e : nat) : list X := firstn (e - b) (skipn b l).

(* "split each level into tasks": chunk_size = (lev_size + nthreads - 1) / nthreads;
   beg = min(tid * chunk_size, lev_size); end = min(beg + chunk_size, lev_size) *)
Definition chunk_size (len nt : nat) : nat := (len + nt - 1) / nt.
Definition chunk_beg (len nt tid : nat) : nat := Nat.min (tid * chunk_size len nt) len.
Definition chunk_end (len nt tid : nat) : nat := Nat.min (chunk_beg len nt tid + chunk_size len nt) len.
Definition omp_chunks {X} (nt : nat) (l : list X) : list (list X) :=
  map (fun tid => slice l (chunk_beg (length l) nt tid) (chunk_end (length l) nt tid)) (seq 0 nt).

(* 1. split rows into levels.  [level] is the zero-initialised array; rows are visited
   in [order]; l = level[i]; for the dependency columns c: l = max(l, level[c]+1);
   level[i] = l.  A column that has not been visited yet contributes its initial 0. *)
Fixpoint updn (l : list nat) (i v : nat) : list nat :=
  match l, i with
  | [], _ => []
  | _ :: tl, O => v :: tl
  | a :: tl, Datatypes.S k => a :: updn tl k v
  end.
Definition row_level (level : list nat) (i : nat) (cs : list nat) : nat :=
  fold_left (fun l c => Nat.max l (nth c level 0 + 1)) cs (nth i level 0).
Definition compute_levels (deps : nat -> list nat) (order : list nat) (n : nat) : list nat :=
  fold_left (fun level i => updn level i (row_level level i (deps i))) order (repeat 0 n).
(* the level loop of gauss_seidel::parallel_sweep after the anti-dependency fix
   (/repo dff00c6): after level[i] = l, every column c of the row that is swept LATER
   gets level[c] = max(level[c], l+1) -- the row that writes x[c] has to wait for the
   row that still reads the old x[c].  A column outside the array is a no-op here (out
   of bounds in the C++; excluded for square matrices). *)
Definition push_levels (level : list nat) (l : nat) (cs : list nat) : list nat :=
  fold_left (fun lv c => updn lv c (Nat.max (nth c lv 0) (l + 1))) cs level.
Definition compute_levels_push (deps push : nat -> list nat) (order : list nat) (n : nat) : list nat :=
  fold_left (fun level i => let l := row_level level i (deps i) in
                            push_levels (updn level i l) l (push i)) order (repeat 0 n).
(* nlev = max(nlev, l+1) *)
Definition nlev_of (level : list nat) : nat := fold_left (fun m l => Nat.max m (l + 1)) level 0.

(* 2. reorder matrix rows: counting sort of 0..n-1 by level; rows of one level stay in
   increasing order (both sweep directions).  Level k = order[start[k], start[k+1]). *)
Definition level_rows (level : list nat) : list (list nat) :=
  map (fun k => filter (fun i => Nat.eqb (nth i level 0) k) (seq 0 (length level)))
      (seq 0 (nlev_of level)).

(* 3. each level is split into nthreads tasks: schedule = level -> thread -> rows *)
Definition rsched := list (list (list nat)).
Definition schedule_of_levels (nt : nat) (level : list nat) : rsched :=
  map (omp_chunks nt) (level_rows level).

(* 4. the per-thread tables the C++ keeps: ord[tid] = rows of the thread's tasks in
   task order; tasks[tid][lev] = (loc_beg, loc_end) positions in ord[tid] *)
Definition thread_ord (sch : rsched) (tid : nat) : list nat :=
  concat (map (fun lv => nth tid lv []) sch).
Definition thread_tasks (sch : rsched) (tid : nat) : list (nat * nat) :=
  snd (fold_left (fun (pa : nat * list (nat * nat)) lv =>
                    let k := length (nth tid lv []) in
                    (fst pa + k, snd pa ++ [(fst pa, fst pa + k)])) sch (0, [])).
Definition tables (nt : nat) (sch : rsched) : list (list (nat * nat) * list nat) :=
  map (fun tid => (thread_tasks sch tid, thread_ord sch tid)) (seq 0 nt).

(* the way back, as sweep()/solve() read the tables: in round k every thread runs
   ord[tid][tasks[tid][k].beg .. tasks[tid][k].end) and waits at the barrier.  The
   number of rounds of a thread is the length of its task list; the OpenMP barrier
   needs all threads to have the same number (checked by [tables_uniform]). *)
Definition sched_of_tables (tb : list (list (nat * nat) * list nat)) : rsched :=
  let nlev := fold_left (fun m t => Nat.max m (length (fst t))) tb 0 in
  map (fun k => map (fun t => let be := nth k (fst t) (0, 0) in slice (snd t) (fst be) (snd be)) tb)
      (seq 0 nlev).
Definition tables_uniform (tb : list (list (nat * nat) * list nat)) : bool :=
  match tb with
  | [] => true
  | t0 :: _ => forallb (fun t => Nat.eqb (length (fst t)) (length (fst t0))) tb
  end.

(* ------------------------------------------------------------------------------ *)
(* The validity conditions of a row schedule with respect to a serial order, as
   boolean checks (evaluated on the MODEL's schedule by the theorems and on the
   IMPLEMENTATION's dumped tables by the check).
     reads i  : cells row i reads (other than its own cell)
     forward  : serial order is 0..n-1 (true) or n-1..0 (false)                      *)
Definition flat_level (lv : list (list nat)) : list nat := concat lv.
Definition flat_sched (sch : rsched) : list nat := concat (map flat_level sch).

(* every row 0..n-1 appears exactly once *)
Definition sched_is_perm (n : nat) (sch : rsched) : bool :=
  let l := flat_sched sch in
  Nat.eqb (length l) n && forallb (fun i => Nat.eqb (count_occ Nat.eq_dec l i) 1) (seq 0 n).

(* level number of a row in a schedule (first level that contains it) *)
Fixpoint level_in (sch : rsched) (i : nat) : nat :=
  match sch with
  | [] => 0
  | lv :: rest => if existsb (Nat.eqb i) (flat_level lv) then 0 else Datatypes.S (level_in rest i)
  end.

(* no two different rows of one level conflict: neither reads the cell the other writes.
   Returns the first offending (level, i, j) with j in reads i. *)
Definition level_conflicts (reads : nat -> list nat) (lv : list nat) : list (nat * nat) :=
  flat_map (fun i => map (fun j => (i, j))
                         (filter (fun j => negb (Nat.eqb i j) && existsb (Nat.eqb j) (reads i)) lv)) lv.
Definition level_conflict_free (reads : nat -> list nat) (sch : rsched) : bool :=
  forallb (fun lv => match level_conflicts reads (flat_level lv) with [] => true | _ => false end) sch.
Definition first_conflict (reads : nat -> list nat) (sch : rsched) : option (nat * (nat * nat)) :=
  let fix go k sch := match sch with
    | [] => None
    | lv :: rest => match level_conflicts reads (flat_level lv) with
                    | c :: _ => Some (k, c)
                    | [] => go (Datatypes.S k) rest
                    end
    end in go 0 sch.

(* a row that reads a cell written in another level sees what the serial sweep sees:
   the writer is in an earlier level iff it is earlier in the serial order *)
Definition serial_before (forward : bool) (a b : nat) : bool :=
  if forward then Nat.ltb a b else Nat.ltb b a.
Definition deps_respected (reads : nat -> list nat) (n : nat) (forward : bool) (sch : rsched) : bool :=
  forallb (fun i => forallb (fun c =>
      Nat.eqb c i || negb (Nat.ltb c n) ||
      Bool.eqb (serial_before forward c i) (Nat.ltb (level_in sch c) (level_in sch i))) (reads i))
    (seq 0 n).

Definition first_dep_violation (reads : nat -> list nat) (n : nat) (forward : bool) (sch : rsched) : option (nat * nat) :=
  hd_error (flat_map (fun i => map (fun c => (i, c)) (filter (fun c => negb (
      Nat.eqb c i || negb (Nat.ltb c n) ||
      Bool.eqb (serial_before forward c i) (Nat.ltb (level_in sch c) (level_in sch i)))) (reads i)))
    (seq 0 n)).

Definition sched_ok (reads : nat -> list nat) (n : nat) (forward : bool) (sch : rsched) : bool :=
  sched_is_perm n sch && level_conflict_free reads sch && deps_respected reads n forward sch.

(* the same conditions as a proposition (what the theorems use) *)
Definition sched_valid (reads : nat -> list nat) (n : nat) (forward : bool) (sch : rsched) : Prop :=
  Permutation (flat_sched sch) (seq 0 n) /\
  (forall lv i j, In lv sch -> In i (flat_level lv) -> In j (flat_level lv) -> i <> j -> ~ In j (reads i)) /\
  (forall i c, i < n -> In c (reads i) -> c <> i -> c < n ->
     (serial_before forward c i = true <-> level_in sch c < level_in sch i)).

(* ------------------------------------------------------------------------------ *)
(* Row-parallel loops: "#pragma omp parallel for" over i whose body writes only the
   iteration-owned cell i and reads, of the shared output, at most that cell (everything
   else it reads is read-only input, i.e. part of [body]).  [its] assigns iterations to
   threads (any schedule kind: static, dynamic, guided). *)
Definition pf_step {V} (d : V) (body : nat -> V -> V) (i : nat) : step V :=
  mkStep [i] i (fun st => body i (nth i st d)).
Definition par_for_steps {V} (d : V) (body : nat -> V -> V) (its : list (list nat)) : list (list (step V)) :=
  map (map (pf_step d body)) its.

(* reductions: fold of a binary operation over per-thread partial results *)
Definition reduce {X} (op : X -> X -> X) (e : X) (l : list X) : X := fold_left op l e.
Definition reduce_chunked {X} (op : X -> X -> X) (e : X) (cs : list (list X)) : X :=
  reduce op e (map (reduce op e) cs).
