(* Extract_specrad.v -- extraction of the executable SPECIFICATION side of the two spectral-radius clauses of C08
   (SpecRadSpec.v, SpecRadPower.power_oracle, SpecRadBlock.bgersh_spec) plus the models they are evaluated against,
   for the oracle stage run_specrad of tools/props/C08.py (model driver group "specrad", ocaml/specrad/ops_specrad.ml).
   Directives: ExtractCommon.v (trusted base, DESIGN.md section 6). *)
From Amgcl Require Import ExtractCommon.
From Coq Require Import QArith Qcanon.
From Amgcl Require Import Scalar QcInst Vec Crs Kernels KernelsProofs MatOps MatOps2 DirectUtil Inverse StaticMat BlockInst
  SpecRadOrd SpecRadPower SpecRadBlock SpecRadSpec SpecRadGrid.
Separate Extraction
  QcInst.QcS Scalar.is_zero Scalar.smax Scalar.smin
  Vec Crs Kernels MatOps MatOps2 StaticMat BlockInst
  SpecRadOrd.vsq SpecRadPower.pm_op SpecRadPower.power_norms SpecRadPower.power_last SpecRadPower.frob2
  SpecRadPower.power_oracle SpecRadBlock.bgersh_spec SpecRadBlock.bnrm SpecRadBlock.bip SpecRadSpec SpecRadGrid.eps64 SpecRadGrid.bnrm_up.
