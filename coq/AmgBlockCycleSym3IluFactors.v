(* AmgBlockCycleSym3IluFactors.v -- C02 / ILU(0) on a symmetric matrix (commutative field): the factors computed by
   Ilu.ilu0 (IKJ elimination restricted to the pattern of A; L strict lower with the multipliers, U strict upper, D the
   INVERTED pivots) of a symmetric matrix with a symmetric sparsity pattern, strictly sorted rows and a stored diagonal
   satisfy
        L_ij = D_j * U_ji          for all i, j,
   i.e. (I + L)(D^-1 + U) = (I + L) D^-1 (I + L)^T.  Strong induction on the column j from: exactness on the pattern
   (Ilu0Exact.ilu0_exact_on_pattern), pattern inclusion and triangularity of the factors (IluProofs.ilu0_structure), and
   non-vanishing pivots (the invariant of Ilu0Exact).  With AmgBlockCycleSym3Ilu.ilu_solve_herm this makes the ILU(0)
   sweep self-adjoint. *)
From Coq Require Import ZifyBool.
From Amgcl Require Import Scalar Vec Crs Kernels KernelsProofs MatOps MatOpsProofs Relax Ilu IluProofs IluExactSolve Ilu0Exact.
Local Open Scope S_scope.

Section Ilu0Sym.
Context {S : Scalar}.
Hypothesis Sft : Sfield S.
Hypothesis Seqb : seqb_spec S.
Add Field SFieldIS : Sft.
Local Notation Srt := (F_R Sft).
Local Notation row := (row S).
Local Notation vec := (vec S).
Local Notation crs := (crs S).

Variables (A : crs) (junk : vec) (L U : crs) (D : vec).
Local Notation n := (nrows A).
Hypothesis WA : wf A = true.
Hypothesis SqA : ncols A = n.
Hypothesis SoA : forall i, i < n -> sorted_strict (nth i (rows A) []) = true.
Hypothesis DgA : has_diag A = true.
Hypothesis HF : ilu0 A junk = Ok (L, U, D).
(* A symmetric, with a symmetric sparsity pattern *)
Hypothesis SyA : forall i j, i < n -> j < n -> mget A i j = mget A j i.
Hypothesis SpA : forall i j, i < n -> j < n -> has_col j (nth i (rows A) []) = has_col i (nth j (rows A) []).

Lemma ilu0_pivots_nonzero : forall k, k < n -> vget D k <> s0.
Proof.
  intros k Hk. pose proof HF as H. unfold ilu0 in H.
  destruct (ilu0_rows ([], [], []) 0 (rows A) junk) as [[[Ls Us] D']|] eqn:E; [|discriminate].
  inversion H; subst L U D. clear H.
  assert (G : x0_ginv (rows A) Ls Us D' (length (rows A))).
  { apply (x0_rows_inv Sft Seqb (rows A) junk) with (rs := rows A) (pre := []) (i := 0%nat)
      (Ls := []) (Us := []) (D := []); auto.
    - intros k0 Hk0. split; [apply SoA; exact Hk0|apply x0_has_diag_has_col; assumption].
    - unfold x0_ginv. cbn [length]. repeat split; intros; lia. }
  destruct G as (_ & _ & _ & _ & G5 & _). exact (G5 k Hk).
Qed.

Let HLl : strict_lower L := ilu0_strict_lower A junk L U D HF.
Lemma HUu : strict_upper n U.
Proof. rewrite <- SqA. exact (ilu0_strict_upper A junk L U D HF WA). Qed.

Lemma absent_rget (r ra : row) j : (forall c v, In (c, v) r -> In c (map fst ra)) ->
  has_col j ra = false -> rget r j = s0.
Proof.
  intros Hin Hj. apply (x0_rget_absent Sft).
  destruct (has_col j r) eqn:E; [|reflexivity]. exfalso.
  apply x0_has_col_In in E. apply in_map_iff in E as ([c v] & Ec & He). simpl in Ec. subst c.
  apply Hin in He. apply x0_has_col_In in He. congruence.
Qed.

Lemma L_off_pattern i j : has_col j (nth i (rows A) []) = false -> mget L i j = s0.
Proof.
  intro H. destruct (ilu0_structure A junk L U D HF) as (_ & _ & _ & _ & _ & HLs & _).
  unfold mget. apply (absent_rget _ (nth i (rows A) [])); [|exact H].
  intros c v Hin. apply (HLs i c v Hin).
Qed.
Lemma U_off_pattern i j : has_col j (nth i (rows A) []) = false -> mget U i j = s0.
Proof.
  intro H. destruct (ilu0_structure A junk L U D HF) as (_ & _ & _ & _ & _ & _ & HUs).
  unfold mget. apply (absent_rget _ (nth i (rows A) [])); [|exact H].
  intros c v Hin. apply (HUs i c v Hin).
Qed.

Lemma exact_lower i j : j < i -> i < n -> has_col j (nth i (rows A) []) = true ->
  sumn (fun k => mget L i k * mget U k j) j + mget L i j * sinv (vget D j) = mget A i j.
Proof.
  intros Hji Hi Hp.
  pose proof (ilu0_exact_on_pattern Sft Seqb A junk L U D WA SqA SoA DgA HF i j Hi Hp) as E.
  unfold lu_entry in E.
  replace (i =? j)%nat with false in E by (symmetry; apply Nat.eqb_neq; lia).
  rewrite (mget_upper_zero n U i j HUu) in E by lia.
  rewrite (sumn_extend Sft _ (Datatypes.S j) i) in E.
  - simpl in E. rewrite Nat.eqb_refl in E. rewrite <- E.
    rewrite (sumn_ext (fun k => mget L i k * (if (k =? j)%nat then sinv (vget D k) else mget U k j))
                      (fun k => mget L i k * mget U k j) j).
    + ring.
    + intros k Hk. replace (k =? j)%nat with false by (symmetry; apply Nat.eqb_neq; lia). reflexivity.
  - lia.
  - intros k Hk1 Hk2. replace (k =? j)%nat with false by (symmetry; apply Nat.eqb_neq; lia).
    rewrite (mget_upper_zero n U k j HUu) by lia. ring.
Qed.

Lemma exact_upper i j : j < i -> i < n -> has_col i (nth j (rows A) []) = true ->
  sumn (fun k => mget L j k * mget U k i) j + mget U j i = mget A j i.
Proof.
  intros Hji Hi Hp.
  pose proof (ilu0_exact_on_pattern Sft Seqb A junk L U D WA SqA SoA DgA HF j i ltac:(lia) Hp) as E.
  unfold lu_entry in E.
  replace (j =? i)%nat with false in E by (symmetry; apply Nat.eqb_neq; lia).
  rewrite <- E. f_equal. apply sumn_ext. intros k Hk.
  replace (k =? i)%nat with false by (symmetry; apply Nat.eqb_neq; lia). reflexivity.
Qed.

(* THE FACTOR RELATION: L_ij = D_j U_ji  (D_j the inverted pivot): (I + L)(D^-1 + U) = (I + L) D^-1 (I + L)^T *)
Theorem ilu0_factors_sym : forall i j, i < n -> j < n -> mget L i j = vget D j * mget U j i.
Proof.
  assert (G : forall m j, j < m -> forall i, i < n -> j < n -> mget L i j = vget D j * mget U j i).
  { induction m as [|m IH]; intros j Hjm i Hi Hj; [lia|].
    destruct (Nat.le_gt_cases i j) as [Hij|Hji].
    - rewrite (mget_lower_zero L i j HLl Hij), (mget_upper_zero n U j i HUu Hij). ring.
    - destruct (has_col j (nth i (rows A) [])) eqn:Ep.
      + pose proof (exact_lower i j Hji Hi Ep) as E1.
        rewrite (SpA i j Hi Hj) in Ep.
        pose proof (exact_upper i j Hji Hi Ep) as E2.
        assert (Es : sumn (fun k => mget L i k * mget U k j) j = sumn (fun k => mget L j k * mget U k i) j).
        { apply sumn_ext. intros k Hk.
          rewrite (IH k ltac:(lia) i Hi ltac:(lia)), (IH k ltac:(lia) j Hj ltac:(lia)). ring. }
        pose proof (ilu0_pivots_nonzero j Hj) as Dj.
        assert (E3 : mget L i j * sinv (vget D j) = mget U j i).
        { rewrite Es, (SyA i j Hi Hj), <- E2 in E1.
          transitivity (sumn (fun k => mget L j k * mget U k i) j + mget L i j * sinv (vget D j)
                        - sumn (fun k => mget L j k * mget U k i) j); [ring|]. rewrite E1. ring. }
        rewrite <- E3. field. exact Dj.
      + rewrite (L_off_pattern i j Ep). rewrite (SpA i j Hi Hj) in Ep. rewrite (U_off_pattern j i Ep). ring. }
  intros i j Hi Hj. apply (G (Datatypes.S j) j); [lia|exact Hi|exact Hj].
Qed.

End Ilu0Sym.
