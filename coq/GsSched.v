(* GsSched.v -- model of gauss_seidel::parallel_sweep<forward>
   (amgcl/relaxation/gauss_seidel.hpp:192-378): construction of the level schedule
   and the sweep executed from the per-thread tables.  Definitions only. *)
From Amgcl Require Import Scalar Vec Crs Kernels MatOps Relax Sched.
Local Open Scope S_scope.

Section GsSched.
Context {S : Scalar}.
Local Notation vec := (vec S).
Local Notation crs := (crs S).

Definition row_cols (r : row S) : list nat := map fst r.
Definition cols_of (A : crs) (i : nat) : list nat := row_cols (nth i (rows A) []).

(* 1. levels: rows are visited in sweep order.  First loop over the row: the already-swept
   neighbours of the row's own pattern (forward: skip c >= i; backward: skip c <= i) give
   l = max(l, level[c]+1).  Second loop (the fix dff00c6): the neighbours that are swept
   LATER (forward: c > i) get level[c] = max(level[c], l+1). *)
Definition gs_deps (forward : bool) (A : crs) (i : nat) : list nat :=
  filter (fun c => if forward then Nat.ltb c i else Nat.ltb i c) (cols_of A i).
Definition gs_push (forward : bool) (A : crs) (i : nat) : list nat :=
  filter (fun c => if forward then Nat.ltb i c else Nat.ltb c i) (cols_of A i).
Definition gs_levels (forward : bool) (A : crs) : list nat :=
  compute_levels_push (gs_deps forward A) (gs_push forward A) (sweep_order forward (nrows A)) (nrows A).
(* 2.+3. counting sort by level, each level split into nthreads chunks *)
Definition gs_schedule (forward : bool) (A : crs) (nt : nat) : rsched :=
  schedule_of_levels nt (gs_levels forward A).

(* HISTORICAL (documentation only): the level rule before the fix dff00c6 looked only at
   the row's own already-swept neighbours.  For structurally non-symmetric patterns it
   violates the property (SchedProofs.gs_schedule_old_race_refuted). *)
Definition gs_levels_old (forward : bool) (A : crs) : list nat :=
  compute_levels (gs_deps forward A) (sweep_order forward (nrows A)) (nrows A).
Definition gs_schedule_old (forward : bool) (A : crs) (nt : nat) : rsched :=
  schedule_of_levels nt (gs_levels_old forward A).
(* 4. per-thread copies of the rows, in ord[tid] order (ptr/col/val of the thread) *)
Definition thread_rows (A : crs) (sch : rsched) (tid : nat) : list (row S) :=
  map (fun i => nth i (rows A) []) (thread_ord sch tid).

(* sweep(): one row.  D = identity; X = rhs[i]; entries: c == i ? D = v : X -= v*x[c];
   x[i] = inverse(D) * X.  Same text as Relax.gs_row, with the new value separated
   from the store (GsSchedProofs: gs_row = set_nth x i (gs_val ...)). *)
Definition gs_val (i : nat) (r : row S) (rhs x : vec) : S :=
  let '(D, X) := fold_left (fun (dx : S * S) e =>
        if Nat.eqb (fst e) i then (snd e, snd dx) else (fst dx, snd dx - snd e * vget x (fst e)))
        r (s1, vget rhs i) in
  sinv D * X.
(* cells of x the row reads: the off-diagonal columns *)
Definition gs_reads (A : crs) (i : nat) : list nat :=
  filter (fun c => negb (Nat.eqb c i)) (cols_of A i).
Definition gs_step (A : crs) (rhs : vec) (i : nat) : step S :=
  mkStep (gs_reads A i) i (fun x => gs_val i (nth i (rows A) []) rhs x).

(* the parallel region: level -> thread -> steps *)
Definition gs_par_levels (forward : bool) (A : crs) (nt : nat) (rhs : vec) : list (list (list (step S))) :=
  map (map (map (gs_step A rhs))) (gs_schedule forward A nt).
Definition gs_par_levels_old (forward : bool) (A : crs) (nt : nat) (rhs : vec) : list (list (list (step S))) :=
  map (map (map (gs_step A rhs))) (gs_schedule_old forward A nt).
(* in-order execution (thread 0's task, thread 1's task, ..., barrier, next level) *)
Definition gs_par_sweep_inorder (forward : bool) (A : crs) (nt : nat) (rhs x : vec) : vec :=
  exec (seq_of_levels (gs_par_levels forward A nt rhs)) x.
(* execution under a scripted interleaving *)
Definition gs_par_sweep_pick (choices : list (list nat)) (forward : bool) (A : crs) (nt : nat) (rhs x : vec) : vec :=
  exec (pick_levels choices (gs_par_levels forward A nt rhs)) x.

(* the serial sweep as a list of the same steps *)
Definition gs_serial_steps (forward : bool) (A : crs) (rhs : vec) : list (step S) :=
  map (gs_step A rhs) (sweep_order forward (nrows A)).

(* structural symmetry of the pattern *)
Definition pattern_symmetric (A : crs) : Prop :=
  forall i j, i < nrows A -> j < nrows A -> In j (cols_of A i) -> In i (cols_of A j).
Definition pattern_symmetricb (A : crs) : bool :=
  forallb (fun i => forallb (fun j => negb (Nat.ltb j (nrows A)) || existsb (Nat.eqb i) (cols_of A j))
                            (cols_of A i)) (seq 0 (nrows A)).

(* the validity check of a (model or dumped) schedule for this sweep *)
Definition gs_sched_ok (forward : bool) (A : crs) (sch : rsched) : bool :=
  sched_ok (gs_reads A) (nrows A) forward sch.

End GsSched.
