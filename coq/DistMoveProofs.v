(* DistMoveProofs.v -- lemmas about DistMove.v (move_to_backend histories of one distributed_matrix object). *)
From Coq Require Import Lia.
From Amgcl Require Import Scalar QcInst Vec Crs Kernels MatOps Cheby Dist DistProofs DistMove.
Local Open Scope nat_scope.

(* ---- list helpers ---- *)
Lemma map_snd_indexed_from {X Y} (g : X -> Y) (l : list X) : forall b,
  map (fun ro : nat * X => g (snd ro)) (combine (seq b (length l)) l) = map g l.
Proof. induction l as [|a l IH]; intro b; simpl; [reflexivity | rewrite IH; reflexivity]. Qed.

Lemma map_snd_indexed {X Y} (g : X -> Y) (l : list X) :
  map (fun ro : nat * X => g (snd ro)) (indexed l) = map g l.
Proof. apply map_snd_indexed_from. Qed.

Lemma nth_map_indexed_from {X Y} (f : nat * X -> Y) (l : list X) dX dY : forall b r, r < length l ->
  nth r (map f (combine (seq b (length l)) l)) dY = f (b + r, nth r l dX).
Proof.
  induction l as [|a l IH]; intros b r Hr; simpl in *; [lia|].
  destruct r as [|r]; [rewrite Nat.add_0_r; reflexivity|].
  rewrite IH by lia. f_equal. f_equal. lia.
Qed.

Lemma nth_map_indexed {X Y} (f : nat * X -> Y) (l : list X) dX dY r : r < length l ->
  nth r (map f (indexed l)) dY = f (r, nth r l dX).
Proof. intro H. unfold indexed. rewrite (nth_map_indexed_from f l dX dY 0 r H). reflexivity. Qed.

Lemma indexed_length {X} (l : list X) : length (indexed l) = length l.
Proof. unfold indexed. rewrite combine_length, seq_length. lia. Qed.

Lemma nnz_zero_rows {S : Scalar} (l : list (row S)) : forall a,
  fold_left (fun a r => a + length r) l a = 0 -> a = 0 /\ Forall (fun r => r = []) l.
Proof.
  induction l as [|r l IH]; intros a H; simpl in *; [split; [exact H | constructor]|].
  apply IH in H. destruct H as [H1 H2]. split; [lia|]. constructor; [|exact H2].
  destruct r; [reflexivity | simpl in H1; lia].
Qed.

Lemma rem_cols_nnz_zero {S : Scalar} (M : rank_mat S) : nnz (rm_rem M) = 0 -> rem_cols M = [].
Proof.
  intro H. unfold nnz in H. apply nnz_zero_rows in H. destruct H as [_ H].
  unfold rem_cols. replace (flat_map (fun r : row S => map fst r) (rows (rm_rem M))) with (@nil nat); [reflexivity|].
  induction H as [|r l Hr _ IH]; simpl; [reflexivity|]. subst r. simpl. exact IH.
Qed.

Section MoveProofs.
Context {S : Scalar}.
Local Notation vec := (vec S).
Local Notation dobj := (dobj S).
Local Notation rank_obj := (rank_obj S).

(* ---- (ii) keep_src = true leaves the source unchanged ---- *)
Lemma move_rank_keep_src rc (o : rank_obj) : ob_src (move_rank rc true o) = ob_src o.
Proof. reflexivity. Qed.

Lemma move_src_ranks keep (O : dobj) :
  map (@ob_src S) (do_ranks (move_to_backend keep O)) = map (fun o => if keep then ob_src o else None) (do_ranks O).
Proof.
  unfold move_to_backend. simpl. rewrite map_map.
  apply (map_snd_indexed (fun o : rank_obj => if keep then ob_src o else None)).
Qed.

Theorem kept_source_is_source (O : dobj) : source (move_to_backend true O) = source O.
Proof.
  unfold source. rewrite move_src_ranks. simpl. rewrite map_ext with (g := @ob_src S) by reflexivity. reflexivity.
Qed.

Theorem kept_source_history (ks : list bool) : forallb (fun k => k) ks = true ->
  forall O : dobj, source (moves ks O) = source O.
Proof.
  induction ks as [|k ks IH]; intros H O; [reflexivity|].
  simpl in H. apply andb_prop in H. destruct H as [Hk H]. subst k.
  change (moves (true :: ks) O) with (moves ks (move_to_backend true O)).
  rewrite IH by exact H. apply kept_source_is_source.
Qed.

Lemma moves_cparts ks : forall O : dobj, do_cparts (moves ks O) = do_cparts O /\ do_pats (moves ks O) = do_pats O
                                          /\ length (do_ranks (moves ks O)) = length (do_ranks O).
Proof.
  induction ks as [|k ks IH]; intro O; simpl; [repeat split|].
  destruct (IH (move_to_backend k O)) as [H1 [H2 H3]]. unfold moves in *. rewrite H1, H2, H3.
  simpl. rewrite map_length, indexed_length. repeat split.
Qed.

(* keep_src = false releases the source on every rank, and it stays released *)
Theorem released_after_false (O : dobj) : released (move_to_backend false O).
Proof.
  intros o Ho. unfold move_to_backend in Ho. simpl in Ho. apply in_map_iff in Ho.
  destruct Ho as [ro [<- _]]. reflexivity.
Qed.

Lemma released_move keep (O : dobj) : released O -> released (move_to_backend keep O).
Proof.
  intros H o Ho. unfold move_to_backend in Ho. simpl in Ho. apply in_map_iff in Ho.
  destruct Ho as [[r o'] [<- Hin]]. simpl. destruct keep; [|reflexivity].
  apply H. unfold indexed in Hin. apply in_combine_r in Hin. exact Hin.
Qed.

Theorem released_history ks : forall O : dobj, In false ks -> released (moves ks O).
Proof.
  induction ks as [|k ks IH]; intros O H; simpl in *; [contradiction|].
  destruct H as [-> | H].
  - assert (G : forall ks' (O' : dobj), released O' -> released (moves ks' O')).
    { clear. induction ks' as [|k' ks' IH']; intros O' H'; simpl; [exact H'|]. apply IH'. apply released_move. exact H'. }
    apply G. apply released_after_false.
  - apply IH. exact H.
Qed.

Lemma released_source (O : dobj) : released O -> do_ranks O <> [] -> source O = None.
Proof.
  intros H Hne. unfold source. unfold released in H. destruct (do_ranks O) as [|o l]; [contradiction|].
  simpl. rewrite (H o (or_introl eq_refl)). reflexivity.
Qed.

(* the source of a freshly constructed object is the matrix it was built from *)
Lemma all_some_map_Some {X} (l : list X) : all_some (map Some l) = Some l.
Proof. induction l as [|a l IH]; simpl; [reflexivity | rewrite IH; reflexivity]. Qed.

Lemma source_construct (D : dmat S) : source (construct D) = Some D.
Proof.
  unfold source, construct. simpl. rewrite map_map. simpl.
  rewrite (map_ext _ Some) by reflexivity. rewrite all_some_map_Some. destruct D; reflexivity.
Qed.

Theorem kept_source_of_constructed (D : dmat S) ks : forallb (fun k => k) ks = true ->
  source (moves ks (construct D)) = Some D.
Proof. intro H. rewrite kept_source_history by exact H. apply source_construct. Qed.

(* ---- the backend view is fixed by the first move_to_backend ---- *)
Lemma move_rank_backend_idem rc rc' k1 k2 (o : rank_obj) :
  (ob_bloc (move_rank rc' k2 (move_rank rc k1 o)), ob_brem (move_rank rc' k2 (move_rank rc k1 o)),
   ob_xrem (move_rank rc' k2 (move_rank rc k1 o)))
  = (ob_bloc (move_rank rc k1 o), ob_brem (move_rank rc k1 o), ob_xrem (move_rank rc k1 o)).
Proof.
  destruct o as [src bl br xr]. simpl.
  destruct bl as [L|], br as [R|], xr as [k|], src as [M|], k1; simpl; try reflexivity;
    destruct (Nat.eqb (nnz (rm_rem M)) 0) eqn:E; simpl; try rewrite E; reflexivity.
Qed.

Theorem backend_fixed_by_first_move k1 k2 (O : dobj) :
  backend (move_to_backend k2 (move_to_backend k1 O)) = backend (move_to_backend k1 O).
Proof.
  unfold backend. set (O1 := move_to_backend k1 O).
  unfold move_to_backend at 1. simpl. rewrite map_map.
  assert (G : forall l : list rank_obj, (forall o, In o l -> exists rc o0, o = move_rank rc k1 o0) ->
          forall b, map (fun x : nat * rank_obj =>
                 (ob_bloc (move_rank (rank_rc (do_pats O1) (fst x)) k2 (snd x)),
                  ob_brem (move_rank (rank_rc (do_pats O1) (fst x)) k2 (snd x)),
                  ob_xrem (move_rank (rank_rc (do_pats O1) (fst x)) k2 (snd x)))) (combine (seq b (length l)) l)
          = map (fun o => (ob_bloc o, ob_brem o, ob_xrem o)) l).
  { induction l as [|o l IH]; intros H b; [reflexivity|]. cbn [length seq combine map fst snd]. f_equal.
    - destruct (H o (or_introl eq_refl)) as [rc [o0 ->]]. apply move_rank_backend_idem.
    - apply IH. intros o' Ho'. apply H. right. exact Ho'. }
  apply G. intros o Ho. unfold O1, move_to_backend in Ho. simpl in Ho. apply in_map_iff in Ho.
  destruct Ho as [[r o0] [<- _]]. eexists. eexists. reflexivity.
Qed.

Theorem backend_fixed_by_first_move_history ks k1 (O : dobj) :
  backend (moves ks (move_to_backend k1 O)) = backend (move_to_backend k1 O).
Proof.
  revert k1 O. induction ks as [|k ks IH]; intros k1 O; simpl; [reflexivity|].
  unfold moves in *. rewrite IH. apply backend_fixed_by_first_move.
Qed.

(* mul / residual read the backend view, the pattern and the partition only *)
Lemma nth_backend (O : dobj) r :
  nth r (backend O) (None, None, None) =
  (ob_bloc (nth r (do_ranks O) dflt_obj), ob_brem (nth r (do_ranks O) dflt_obj), ob_xrem (nth r (do_ranks O) dflt_obj)).
Proof.
  unfold backend. change (None, None, None) with ((fun o : rank_obj => (ob_bloc o, ob_brem o, ob_xrem o)) dflt_obj).
  apply map_nth.
Qed.

Lemma obj_spmv_backend_ext (O O' : dobj) alpha xs beta ys :
  do_cparts O = do_cparts O' -> do_pats O = do_pats O' -> backend O = backend O' ->
  obj_spmv alpha O xs beta ys = obj_spmv alpha O' xs beta ys.
Proof.
  intros H1 H2 H3. unfold obj_spmv. rewrite H1, H2. apply map_ext. intro r.
  pose proof (nth_backend O r) as E. pose proof (nth_backend O' r) as E'. rewrite H3 in E. rewrite E' in E.
  injection E as Ea Eb Ec. unfold obj_rank_spmv. rewrite Ea, Eb, Ec. reflexivity.
Qed.

Lemma obj_residual_backend_ext (O O' : dobj) fs xs ress :
  do_cparts O = do_cparts O' -> do_pats O = do_pats O' -> backend O = backend O' ->
  obj_residual fs O xs ress = obj_residual fs O' xs ress.
Proof.
  intros H1 H2 H3. unfold obj_residual. rewrite H1, H2. apply map_ext. intro r.
  pose proof (nth_backend O r) as E. pose proof (nth_backend O' r) as E'. rewrite H3 in E. rewrite E' in E.
  injection E as Ea Eb Ec. unfold obj_rank_residual. rewrite Ea, Eb, Ec. reflexivity.
Qed.

(* ---- (i) the backend view's product / residual = the source's ---- *)
Lemma rank_rc_construct (D : dmat S) r : r < length (dm_cparts D) -> r < length (dm_ranks D) ->
  rank_rc (dm_pattern D) r = rem_cols (nth r (dm_ranks D) dflt_rank).
Proof.
  intros H1 H2. unfold rank_rc, dm_pattern, comm_pattern.
  rewrite (nth_map_seq _ (length (dm_cparts D)) r dflt_cpat H1). simpl.
  rewrite (nth_map_lt rem_cols (dm_ranks D) r dflt_rank []) by exact H2. reflexivity.
Qed.

Lemma nth_moved_construct (D : dmat S) keep r : r < length (dm_ranks D) ->
  nth r (do_ranks (move_to_backend keep (construct D))) dflt_obj
  = move_rank (rank_rc (dm_pattern D) r) keep (fresh_obj (nth r (dm_ranks D) dflt_rank)).
Proof.
  intro H. unfold move_to_backend, construct. simpl.
  rewrite (nth_map_indexed _ (map fresh_obj (dm_ranks D)) dflt_obj dflt_obj r) by (rewrite map_length; exact H).
  simpl. f_equal. rewrite (nth_map_lt fresh_obj (dm_ranks D) r dflt_rank dflt_obj) by exact H. reflexivity.
Qed.

Theorem moved_spmv_is_source_spmv (D : dmat S) keep alpha xs beta ys :
  length (dm_ranks D) = length (dm_cparts D) ->
  obj_spmv alpha (move_to_backend keep (construct D)) xs beta ys = map Some (dist_spmv alpha D xs beta ys).
Proof.
  intro HL. unfold obj_spmv, dist_spmv. rewrite map_map.
  change (do_cparts (move_to_backend keep (construct D))) with (dm_cparts D).
  change (do_pats (move_to_backend keep (construct D))) with (dm_pattern D).
  apply map_ext_in. intros r Hr. apply in_seq in Hr. assert (Hr' : r < length (dm_ranks D)) by lia.
  rewrite nth_moved_construct by exact Hr'.
  pose proof (rank_rc_construct D r (proj2 Hr) Hr') as Erc.
  unfold rank_rc in *. set (rc := cp_rc (nth r (dm_pattern D) dflt_cpat)) in *.
  set (M := nth r (dm_ranks D) dflt_rank) in *.
  unfold obj_rank_spmv, rank_spmv, move_rank, fresh_obj. simpl. rewrite Nat.eqb_refl.
  destruct (is_nil rc) eqn:En; [reflexivity|].
  destruct (Nat.eqb (nnz (rm_rem M)) 0) eqn:Ez; [|reflexivity].
  apply Nat.eqb_eq in Ez. apply rem_cols_nnz_zero in Ez. rewrite <- Erc in Ez. rewrite Ez in En. discriminate.
Qed.

Theorem moved_residual_is_source_residual (D : dmat S) keep fs xs ress :
  length (dm_ranks D) = length (dm_cparts D) ->
  obj_residual fs (move_to_backend keep (construct D)) xs ress = map Some (dist_residual fs D xs ress).
Proof.
  intro HL. unfold obj_residual, dist_residual. rewrite map_map.
  change (do_cparts (move_to_backend keep (construct D))) with (dm_cparts D).
  change (do_pats (move_to_backend keep (construct D))) with (dm_pattern D).
  apply map_ext_in. intros r Hr. apply in_seq in Hr. assert (Hr' : r < length (dm_ranks D)) by lia.
  rewrite nth_moved_construct by exact Hr'.
  pose proof (rank_rc_construct D r (proj2 Hr) Hr') as Erc.
  unfold rank_rc in *. set (rc := cp_rc (nth r (dm_pattern D) dflt_cpat)) in *.
  set (M := nth r (dm_ranks D) dflt_rank) in *.
  unfold obj_rank_residual, rank_residual, move_rank, fresh_obj. simpl. rewrite Nat.eqb_refl.
  destruct (is_nil rc) eqn:En; [reflexivity|].
  destruct (Nat.eqb (nnz (rm_rem M)) 0) eqn:Ez; [|reflexivity].
  apply Nat.eqb_eq in Ez. apply rem_cols_nnz_zero in Ez. rewrite <- Erc in Ez. rewrite Ez in En. discriminate.
Qed.

(* ... after ANY history that starts with a move_to_backend *)
Theorem history_spmv_is_source_spmv (D : dmat S) k ks alpha xs beta ys :
  length (dm_ranks D) = length (dm_cparts D) ->
  obj_spmv alpha (moves (k :: ks) (construct D)) xs beta ys = map Some (dist_spmv alpha D xs beta ys).
Proof.
  intro HL. rewrite <- (moved_spmv_is_source_spmv D k) by exact HL. simpl.
  destruct (moves_cparts ks (move_to_backend k (construct D))) as [H1 [H2 _]].
  apply obj_spmv_backend_ext; [exact H1 | exact H2 | apply backend_fixed_by_first_move_history].
Qed.

Theorem history_residual_is_source_residual (D : dmat S) k ks fs xs ress :
  length (dm_ranks D) = length (dm_cparts D) ->
  obj_residual fs (moves (k :: ks) (construct D)) xs ress = map Some (dist_residual fs D xs ress).
Proof.
  intro HL. rewrite <- (moved_residual_is_source_residual D k) by exact HL. simpl.
  destruct (moves_cparts ks (move_to_backend k (construct D))) as [H1 [H2 _]].
  apply obj_residual_backend_ext; [exact H1 | exact H2 | apply backend_fixed_by_first_move_history].
Qed.

(* ---- copy to another backend after keep_src = true: the copy is the object the constructor would build ---- *)
Theorem copy_of_kept_is_construct (D : dmat S) ks : forallb (fun k => k) ks = true ->
  copy_obj (moves ks (construct D)) = Some (construct D).
Proof.
  intro H. unfold copy_obj. rewrite kept_source_of_constructed by exact H. simpl.
  destruct (moves_cparts ks (construct D)) as [H1 [H2 _]]. rewrite H1, H2. reflexivity.
Qed.

Theorem copy_of_released_fails (O : dobj) ks : In false ks -> do_ranks O <> [] -> copy_obj (moves ks O) = None.
Proof.
  intros H Hne. unfold copy_obj. rewrite released_source; [reflexivity | apply released_history; exact H |].
  destruct (moves_cparts ks O) as [_ [_ HL]]. intro E. rewrite E in HL. simpl in HL.
  destruct (do_ranks O); [contradiction | discriminate].
Qed.

End MoveProofs.

Lemma split_ranks_length {S : Scalar} (A : crs S) rp cp : length (dm_ranks (split A rp cp)) = length (dm_cparts (split A rp cp)).
Proof. unfold split. simpl. rewrite map_length, seq_length. reflexivity. Qed.

(* ---- the in-place variant (seeded regression C11-2): same backend view, different source ---- *)
Section Inplace.
Context {S : Scalar}.

Lemma move_rank_inplace_backend rc keep (o : rank_obj S) :
  (ob_bloc (move_rank_inplace rc keep o), ob_brem (move_rank_inplace rc keep o), ob_xrem (move_rank_inplace rc keep o))
  = (ob_bloc (move_rank rc keep o), ob_brem (move_rank rc keep o), ob_xrem (move_rank rc keep o)).
Proof.
  destruct o as [src bl br xr]. unfold move_rank_inplace. simpl.
  destruct br as [R|]; [reflexivity|]. destruct src as [M|]; [|reflexivity].
  destruct (Nat.eqb (nnz (rm_rem M)) 0) eqn:E; simpl; rewrite ?E; [reflexivity|].
  destruct bl; reflexivity.
Qed.

Theorem inplace_backend_same keep (O : dobj S) :
  backend (move_to_backend_inplace keep O) = backend (move_to_backend keep O).
Proof.
  unfold backend, move_to_backend_inplace, move_to_backend. simpl. rewrite !map_map.
  apply map_ext. intro ro. apply move_rank_inplace_backend.
Qed.

Theorem inplace_spmv_same keep (O : dobj S) alpha xs beta ys :
  obj_spmv alpha (move_to_backend_inplace keep O) xs beta ys = obj_spmv alpha (move_to_backend keep O) xs beta ys.
Proof. apply obj_spmv_backend_ext; [reflexivity | reflexivity | apply inplace_backend_same]. Qed.
End Inplace.

(* witness: 3 ranks, one row and one column each; rank 0 references column 2 (ghost 0), rank 1 columns 0 and 2
   (ghosts 0 and 1; ghost id 1 is rank 1's own global column), rank 2 column 1 (ghost 0) *)
Definition w_A : crs QcS :=
  mkCrs 3 [[(0, qc 2 1); (2, qc 3 1)]; [(1, qc 1 1); (0, qc 5 1); (2, qc 7 1)]; [(2, qc 4 1); (1, qc 6 1)]].
Definition w_p : list nat := [1; 1; 1].
Definition w_D : dmat QcS := split w_A w_p w_p.
Definition w_kept : dobj QcS := move_to_backend true (construct w_D).
Definition w_inpl : dobj QcS := move_to_backend_inplace true (construct w_D).
(* what the in-place variant leaves behind local()/remote(): the remote parts carry ghost ids *)
Definition w_D' : dmat QcS :=
  mkDmat w_p (map (fun M => mkRankMat (rm_loc M) (renumber (rem_cols M) (rm_rem M))) (dm_ranks w_D)).
Definition rem_colss {S : Scalar} (D : dmat S) : list (list (list nat)) :=
  map (fun M => map (map fst) (rows (rm_rem M))) (dm_ranks D).

Theorem inplace_renumbering_refuted :
  (* the faithful model: the kept source is the source *)
  source w_kept = Some w_D /\
  (* the in-place variant: products and residuals are unaffected ... *)
  (forall alpha xs beta ys, obj_spmv alpha w_inpl xs beta ys = map Some (dist_spmv alpha w_D xs beta ys)) /\
  (* ... but what local()/remote() return afterwards is another matrix (ghost ids instead of global columns) *)
  let D' := w_D' in source w_inpl = Some D' /\ D' <> w_D /\
    rem_colss w_D = [[[2]]; [[0; 2]]; [[1]]] /\ rem_colss D' = [[[0]]; [[0; 1]]; [[0]]] /\
    (* every consumer of the source is wrong: transpose, product (left and right operand), the rows shipped by
       remote_rows, and the copy to another backend refers to a column that idx does not know (idx.at throws) *)
    mget (assemble (dist_transpose D' w_p)) 0 0 <> mget (transpose w_A) 0 0 /\
    mget (assemble (dist_product D' w_D)) 0 0 <> mget (spgemm_saad w_A w_A false) 0 0 /\
    mget (assemble (dist_product w_D D')) 0 2 <> mget (spgemm_saad w_A w_A false) 0 2 /\
    dist_remote_rows (dm_pattern w_D) D' 0 <> dist_remote_rows (dm_pattern w_D) w_D 0 /\
    bad_remote_cols (rank_rc (do_pats w_inpl) 0) (nth 0 (dm_ranks D') dflt_rank) = [0] /\
    bad_remote_cols (rank_rc (do_pats w_kept) 0) (nth 0 (dm_ranks w_D) dflt_rank) = [].
Proof.
  split; [apply (kept_source_of_constructed w_D [true]); reflexivity|].
  split.
  { intros. unfold w_inpl. rewrite inplace_spmv_same. apply moved_spmv_is_source_spmv. apply split_ranks_length. }
  assert (Hne : forall a b : QcS, seqb a b = false -> a <> b).
  { intros a b H E. apply (proj2 (QcS_eqb a b)) in E. rewrite E in H. discriminate. }
  intro D'. subst D'. split; [reflexivity|].
  split; [intro E; apply (f_equal rem_colss) in E; vm_compute in E; discriminate|].
  split; [vm_compute; reflexivity|]. split; [vm_compute; reflexivity|].
  split; [apply Hne; vm_compute; reflexivity|].
  split; [apply Hne; vm_compute; reflexivity|].
  split; [apply Hne; vm_compute; reflexivity|].
  split; [intro E; apply (f_equal (map (map fst))) in E; vm_compute in E; discriminate|].
  split; vm_compute; reflexivity.
Qed.
