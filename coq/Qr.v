(* Qr.v -- detail::QR<value_type> for scalar value types as coded
   (amgcl/detail/qr.hpp:114-465; port of LAPACK ZGEQR2/ZUNG2R/ZLARFG/ZLARF).
   Executable over every Scalar; with the pseudo-root of QcS the reflectors are not
   unitary, but model and code must still agree digit for digit.  The correctness
   statement (A = QR, Q'Q = I) needs a true square root and is NOT proved here, see
   Properties_C16.v.
   Matrices are flat arrays addressed with (row_stride, col_stride).  Pointers into A
   become (array, offset).  Where the C++ passes the same array as [v] and as [C]
   (compute) the cells read through [v] (column i) and written through [C] (columns
   > i) are disjoint, so passing the array twice is the same computation. *)
From Amgcl Require Import Scalar Vec DirectUtil.
Local Open Scope S_scope.
Local Open Scope nat_scope.

Section Qr.
Context {S : Scalar}.
Local Notation vec := (vec S).

Definition sqr (x : S) : S := (x * x)%S.

(* gen_reflector(order, alpha = A[ia], x = A + ix, stride) -> (tau, A') *)
Definition gen_reflector (order ia ix stride : nat) (A : vec) : S * vec :=
  if Nat.leb order 1 then (s0, A) else
  let n := order - 1 in
  let xnorm2 := for_loop 0 n (fun i s => (s + sqr (sabs (vget A (ix + i * stride))))%S) s0 in
  if is_zero xnorm2 then (s0, A) else
  let alpha := vget A ia in
  let beta0 := (- sabs (ssqrt (sqr (sabs alpha) + xnorm2)))%S in
  let beta := if sltb alpha s0 then (- beta0)%S else beta0 in
  let tau := (s1 - sinv beta * alpha)%S in
  let alpha1 := sinv (alpha - beta * s1)%S in
  let A1 := for_loop 0 n (fun i A => lset A (ix + i * stride) (alpha1 * vget A (ix + i * stride))%S) A in
  (tau, lset A1 ia (beta * s1)%S).

(* apply_reflector(m, n, v = V + iv, v_stride, tau, C = C + ic, row_stride, col_stride) -> C' *)
Definition apply_reflector (m n : nat) (V : vec) (iv v_stride : nat) (tau : S)
           (C : vec) (ic row_stride col_stride : nat) : vec :=
  if is_zero tau then C else
  for_loop 0 n (fun i C =>
    let ia := ic + i * col_stride in
    let w := for_loop 1 (m - 1)
               (fun j s => (s + sadj (vget C (ia + j * row_stride)) * vget V (iv + j * v_stride))%S)
               (sadj (vget C ia)) in
    let s := (tau * sadj w)%S in
    let C1 := lset C ia (vget C ia - s)%S in
    for_loop 1 (m - 1)
      (fun j C => lset C (ia + j * row_stride)
                       (vget C (ia + j * row_stride) - vget V (iv + j * v_stride) * s)%S) C1) C.

(* compute(rows, cols, row_stride, col_stride, A) -> (A', tau) *)
Definition qr_compute (m n rs cs : nat) (A : vec) : vec * vec :=
  let k := Nat.min m n in
  for_loop 0 k (fun i (At : vec * vec) =>
    let ii := i * (rs + cs) in
    let '(t, A1) := gen_reflector (m - i) ii (ii + rs) rs (fst At) in
    let A2 := if Nat.ltb (i + 1) n
              then apply_reflector (m - i) (n - i - 1) A1 ii rs (sadj t) A1 (ii + cs) rs cs
              else A1 in
    (A2, lset (snd At) i t)) (A, repeat s0 k).

(* factorize(...) -> (A' (holds R and the reflectors), tau, q); q.resize(m*n) keeps old
   content of a reused object: junk input *)
Definition qr_factorize (m n rs cs : nat) (A qjunk : vec) : vec * vec * vec :=
  let '(A', tau) := qr_compute m n rs cs A in
  let k := Nat.min m n in
  let q0 := for_loop 0 m (fun i q =>
              for_loop k (n - k) (fun j q =>
                lset q (i * rs + j * cs) (if Nat.eqb i j then s1 else s0)) q) qjunk in
  let q := for_down 0 k (fun i q =>
      let ic := i * cs in
      let ii := i * (rs + cs) in
      let ti := vget tau i in
      let q1 := if Nat.ltb i (n - 1)
                then apply_reflector (m - i) (n - i - 1) A' ii rs ti q (ii + cs) rs cs
                else q in
      let q2 := for_loop 0 i (fun j q => lset q (j * rs + ic) s0) q1 in
      let q3 := lset q2 ii (s1 - ti)%S in
      for_loop (i + 1) (m - (i + 1))
        (fun j q => lset q (j * rs + ic) (- ti * vget A' (j * rs + ic))%S) q3) q0 in
  (A', tau, q).

Definition qr_R (rs cs : nat) (A' : vec) (i j : nat) : S :=
  if Nat.ltb j i then s0 else vget A' (i * rs + j * cs).
Definition qr_Q (rs cs : nat) (q : vec) (i j : nat) : S := vget q (i * rs + j * cs).

(* solve(rows, cols, row_stride, col_stride, A, b, x, computed = false) -> x *)
Definition qr_solve (rows cols rs cs : nat) (A b : vec) : vec :=
  let f := firstn rows b in
  if Nat.leb cols rows then
    let '(A', tau) := qr_compute rows cols rs cs A in
    let f1 := for_loop 0 cols (fun i f =>
                apply_reflector (rows - i) 1 A' (i * (rs + cs)) rs (sadj (vget tau i)) f i 1 1) f in
    let x0 := firstn cols f1 in
    for_down 0 cols (fun i x =>
      let ia := i * cs in
      let rii := vget A' (i * (rs + cs)) in
      if is_zero rii then x else
      let x1 := lset x i (sinv rii * vget x i)%S in
      for_loop 0 i (fun j x => lset x j (vget x j - vget A' (ia + j * rs) * vget x i)%S) x1) x0
  else
    let A1 := map sadj (firstn (cols * rows) A) ++ skipn (cols * rows) A in
    let '(A', tau) := qr_compute cols rows cs rs A1 in
    let f1 := for_loop 0 rows (fun i f =>
      let ia := i * cs in
      let rii := sadj (vget A' (i * (rs + cs))) in
      if is_zero rii then f else
      let f' := lset f i (sinv rii * vget f i)%S in
      for_loop (i + 1) (rows - (i + 1))
        (fun j f => lset f j (vget f j - sadj (vget A' (ia + j * rs)) * vget f i)%S) f') f in
    let x0 := f1 ++ repeat s0 (cols - rows) in
    for_down 0 rows (fun i x =>
      apply_reflector (cols - i) 1 A' (i * (cs + rs)) cs (vget tau i) x i 1 1) x0.

End Qr.
