(* SpecRadSpec.v -- C08: executable (boolean) forms of the hypotheses and conclusions of the spectral-radius
   theorems, extracted to OCaml (Extract_specrad.v) and evaluated on the implementation's outputs by the oracle
   stage [run_specrad] of tools/props/C08.py.  Definitions only; soundness in SpecRadQc.v.

   eig_check A v lam          A v = lam v row by row and v <> 0                (hypotheses of C08_gershgorin_bound)
   eig_check_scaled A v lam   A v = lam D v, D = last stored diagonal entries, all non-zero   (C08_gershgorin_bound_scaled)
   beig_check / beig_check_scaled   the same for block values, lam a base scalar embedded by [emb]
                                     (C08_block_gershgorin_bound(_scaled))
   bound_check r lam          |lam| <= r
   SpecRadPower.power_oracle  r^2 <= ||A||_F^2 t^2 and 0 <= r                   (C08_power_oracle_accepts_model) *)
From Amgcl Require Import Scalar Vec Crs Kernels KernelsProofs MatOps MatOps2.
Local Open Scope nat_scope.
Local Open Scope S_scope.

Section Spec.
Context {S : Scalar}.

(* the last stored diagonal entry of row i, identity when the row stores none (= MatOps2Proofs.Gersh.last_diag) *)
Definition ldiag (A : crs S) (i : nat) : S :=
  match last_col (nth i (rows A) []) i with Some d => d | None => s1 end.

Definition nonzero_vec (n : nat) (v : vec S) : bool := existsb (fun i => negb (is_zero (vget v i))) (seq 0 n).

Definition eig_check (A : crs S) (v : vec S) (lam : S) : bool :=
  forallb (fun i => seqb (Ax A v i) (lam * vget v i)) (seq 0 (nrows A)) && nonzero_vec (nrows A) v.

Definition eig_check_scaled (A : crs S) (v : vec S) (lam : S) : bool :=
  forallb (fun i => negb (is_zero (ldiag A i)) && seqb (Ax A v i) (lam * ldiag A i * vget v i)) (seq 0 (nrows A)) &&
  nonzero_vec (nrows A) v.

Definition bound_check (r lam : S) : bool := negb (sltb r (sabs lam)).
End Spec.

Section BlockSpec.
Variable S0 B : Scalar.
Variable emb : S0 -> B.

Definition beig_check (A : crs B) (v : vec B) (lam : S0) : bool :=
  forallb (fun i => seqb (Ax A v i) (emb lam * vget v i)) (seq 0 (nrows A)) && nonzero_vec (nrows A) v.

(* D_i = last stored diagonal block; inverse(D_i) D_i = I is checked, not assumed *)
Definition beig_check_scaled (A : crs B) (v : vec B) (lam : S0) : bool :=
  forallb (fun i => seqb (sinv (ldiag A i) * ldiag A i) s1 &&
                    seqb (Ax A v i) (ldiag A i * (emb lam * vget v i))) (seq 0 (nrows A)) &&
  nonzero_vec (nrows A) v.
End BlockSpec.
