(* CompositeProofs5.v -- C18-A4 composed with C16-A3: deflated_solver::init builds E = Z^T A Z as
   a row-major nvec x nvec array and inverts it in place with detail::inverse (Inverse.v, proved
   exact in InverseExact.v); with that E^-1 the projection leaves Z^T (b - A x) = 0 (field). *)
From Coq Require Import ZifyBool.
From Amgcl Require Import Scalar Vec Crs Kernels KernelsProofs MatOps Adapters Composite CompositeProofs CompositeProofs4.
From Amgcl Require Inverse InverseExact.
Local Open Scope S_scope.

Section Field.
Context {S : Scalar}.
Local Notation vec := (vec S).
Hypothesis Sft : Sfield S.
Hypothesis Seqb : seqb_spec S.
Hypothesis sinv_0 : sinv (@s0 S) = s0.
Let Srt5 : Sring S := F_R Sft.
Add Ring SRingK5 : Srt5.

(* row i of the row-major array: project() reads E[i*nvec + j] *)
Definition unflatten (nv : nat) (B : vec) : list vec :=
  map (fun i => map (fun j => vget B (i * nv + j)%nat) (seq 0 nv)) (seq 0 nv).
(* init(): E := Z^T A Z (row major), detail::inverse(nvec, E, t, p); t is scratch (junk) *)
Definition deflate_init (A : crs S) (Z : list vec) (t : vec) : option (list vec) :=
  match Inverse.inverse (length Z) (concat (deflate_E A Z)) t with
  | Some B => Some (unflatten (length Z) B)
  | None => None
  end.

Lemma concat_uniform_get (nv : nat) : forall (E : list vec) i k,
  Forall (fun r => length r = nv) E -> i < length E -> k < nv ->
  vget (concat E) (i * nv + k) = vget (nth i E []) k.
Proof.
  induction E as [|r E IH]; intros i k HE Hi Hk; simpl in Hi; [lia|].
  apply Forall_cons_iff in HE as [Hr HE]. simpl concat. unfold vget in *.
  destruct i as [|i]; simpl.
  - apply app_nth1. lia.
  - rewrite app_nth2 by lia. rewrite Hr. replace (nv + i * nv + k - nv)%nat with (i * nv + k)%nat by lia.
    apply IH; [exact HE|lia|exact Hk].
Qed.

Lemma concat_uniform_length (nv : nat) (E : list vec) :
  Forall (fun r => length r = nv) E -> length (concat E) = (length E * nv)%nat.
Proof.
  induction E as [|r E IH]; intro HE; [reflexivity|].
  apply Forall_cons_iff in HE as [Hr HE]. simpl. rewrite app_length, IH by exact HE. lia.
Qed.

Lemma nth_map_seq0 {X} (f : nat -> X) m j d : j < m -> nth j (map f (seq 0 m)) d = f j.
Proof.
  intro H. rewrite (nth_indep _ d (f 0%nat)) by (rewrite map_length, seq_length; exact H).
  rewrite map_nth, seq_nth by exact H. reflexivity.
Qed.

Lemma unflatten_get nv (B : vec) k j : k < nv -> j < nv -> vget (nth k (unflatten nv B) []) j = vget B (k * nv + j).
Proof.
  intros Hk Hj. unfold unflatten. rewrite nth_map_seq0 by exact Hk.
  unfold vget at 1. rewrite nth_map_seq0 by exact Hj. reflexivity.
Qed.

Lemma deflate_E_shape (A : crs S) (Z : list vec) :
  length (deflate_E A Z) = length Z /\ Forall (fun r => length r = length Z) (deflate_E A Z).
Proof.
  unfold deflate_E. split; [apply map_length|].
  apply Forall_forall. intros r Hr. apply in_map_iff in Hr as [z [<- _]]. apply map_length.
Qed.

Theorem deflate_init_right_inverse (A : crs S) (Z Einv : list vec) (t : vec) :
  length t = (length Z * length Z)%nat -> deflate_init A Z t = Some Einv ->
  forall v, length v = length Z -> matvec (deflate_E A Z) (matvec Einv v) = v.
Proof.
  intros Ht H. unfold deflate_init in H.
  destruct (Inverse.inverse (length Z) (concat (deflate_E A Z)) t) as [B|] eqn:EI; [|discriminate].
  injection H as <-.
  destruct (deflate_E_shape A Z) as [HE HEr].
  assert (HA : length (concat (deflate_E A Z)) = (length Z * length Z)%nat).
  { rewrite (concat_uniform_length (length Z)) by exact HEr. rewrite HE. reflexivity. }
  pose proof (InverseExact.inverse_exact Sft Seqb sinv_0 (length Z) _ HA t B Ht EI) as X.
  apply (matvec_inverse Srt5 _ _ (length Z)).
  - exact HE.
  - unfold unflatten. rewrite map_length, seq_length. reflexivity.
  - exact HEr.
  - unfold unflatten. apply Forall_forall. intros r Hr. apply in_map_iff in Hr as [i [<- _]].
    rewrite map_length, seq_length. reflexivity.
  - intros i j Hi Hj. rewrite <- (X i j Hi Hj). unfold Inverse.mat_mul_get, Inverse.mat_get.
    apply sumn_ext. intros k Hk.
    rewrite unflatten_get by assumption.
    rewrite (concat_uniform_get (length Z)) by (try exact HEr; lia). reflexivity.
Qed.

(* A4, closed over init(): with the E^-1 that init() computes, project() leaves a residual
   orthogonal to every deflation vector *)
Theorem deflate_init_project_orthogonal (A : crs S) (n : nat) (Z Einv : list vec) (t b x : vec) :
  length t = (length Z * length Z)%nat -> deflate_init A Z t = Some Einv ->
  length b = nrows A -> Forall (fun z => length z = n) Z -> length x = n ->
  forall z, In z Z -> dotv z (vsub b (mv A (deflate_project A Z Einv b x))) = s0.
Proof.
  intros Ht HI Hb HZ Hx z Hz.
  apply (deflate_project_orthogonal Srt5 A n b Hb Z Einv x HZ Hx); [|exact Hz].
  apply (deflate_init_right_inverse A Z Einv t Ht HI). rewrite map_length. reflexivity.
Qed.

End Field.
