(* IluSched.v -- model of ilu_solve<builtin>::sptr_solve<lower>
   (amgcl/relaxation/detail/ilu_solve.hpp:238-462): serial_solve, the level schedule
   built by the sptr_solve constructor and the solve executed from the per-thread
   tables.  Definitions only. *)
From Amgcl Require Import Scalar Vec Crs Kernels MatOps Relax Sched GsSched.
Local Open Scope S_scope.

Section IluSched.
Context {S : Scalar}.
Local Notation vec := (vec S).
Local Notation crs := (crs S).

(* --- serial_solve: in-place, entry by entry ---
   for i = 0..n-1:   for j in row i of L: x[i] -= L.val[j] * x[L.col[j]]
   for i = n-1..0:   for j in row i of U: x[i] -= U.val[j] * x[U.col[j]];  x[i] = D[i] * x[i] *)
Definition serial_row (i : nat) (r : row S) (x : vec) : vec :=
  fold_left (fun x e => set_nth x i (vget x i - snd e * vget x (fst e))) r x.
Definition serial_lower (L : crs) (x : vec) : vec :=
  fold_left (fun x i => serial_row i (nth i (rows L) []) x) (seq 0 (nrows L)) x.
Definition serial_upper (U : crs) (D : vec) (x : vec) : vec :=
  fold_left (fun x i => let x' := serial_row i (nth i (rows U) []) x in
                        set_nth x' i (vget D i * vget x' i)) (rev (seq 0 (nrows U))) x.
Definition ilu_serial_solve (L U : crs) (D x : vec) : vec := serial_upper U D (serial_lower L x).

(* --- sptr_solve constructor: levels from ALL entries of the row (no c < i filter:
   the matrix is assumed strictly triangular), rows visited 0..n-1 (lower) or
   n-1..0 (upper) --- *)
Definition sptr_levels (lower : bool) (A : crs) : list nat :=
  compute_levels (cols_of A) (sweep_order lower (nrows A)) (nrows A).
Definition sptr_schedule (lower : bool) (A : crs) (nt : nat) : rsched :=
  schedule_of_levels nt (sptr_levels lower A).
(* D[tid] = _D[i] for the thread's rows (upper only) *)
Definition thread_diag (D : vec) (sch : rsched) (tid : nat) : vec :=
  map (fun i => vget D i) (thread_ord sch tid).

(* --- solve(): one row.  X = 0; X += val * x[col];  lower: x[i] -= X;
   upper: x[i] = D * (x[i] - X) --- *)
Definition sptr_sum (r : row S) (x : vec) : S :=
  fold_left (fun X e => X + snd e * vget x (fst e)) r s0.
Definition sptr_val (lower : bool) (i : nat) (r : row S) (Di : S) (x : vec) : S :=
  if lower then vget x i - sptr_sum r x else Di * (vget x i - sptr_sum r x).
Definition sptr_step (lower : bool) (A : crs) (D : vec) (i : nat) : step S :=
  mkStep (i :: cols_of A i) i (fun x => sptr_val lower i (nth i (rows A) []) (vget D i) x).

Definition sptr_par_levels (lower : bool) (A : crs) (D : vec) (nt : nat) : list (list (list (step S))) :=
  map (map (map (sptr_step lower A D))) (sptr_schedule lower A nt).
Definition sptr_solve_inorder (lower : bool) (A : crs) (D : vec) (nt : nat) (x : vec) : vec :=
  exec (seq_of_levels (sptr_par_levels lower A D nt)) x.
Definition sptr_solve_pick (choices : list (list nat)) (lower : bool) (A : crs) (D : vec) (nt : nat) (x : vec) : vec :=
  exec (pick_levels choices (sptr_par_levels lower A D nt)) x.
(* parallel_solve: lower->solve(x); upper->solve(x) *)
Definition ilu_parallel_solve_inorder (L U : crs) (D : vec) (nt : nat) (x : vec) : vec :=
  sptr_solve_inorder false U D nt (sptr_solve_inorder true L D nt x).

(* the same row function applied in serial order *)
Definition sptr_serial_steps (lower : bool) (A : crs) (D : vec) : list (step S) :=
  map (sptr_step lower A D) (sweep_order lower (nrows A)).

(* strictly triangular patterns *)
Definition strict_lower (A : crs) : Prop :=
  forall i c, i < nrows A -> In c (cols_of A i) -> c < i.
Definition strict_upper (A : crs) : Prop :=
  forall i c, i < nrows A -> In c (cols_of A i) -> i < c /\ c < nrows A.
Definition strict_tri (lower : bool) (A : crs) : Prop :=
  if lower then strict_lower A else strict_upper A.
Definition strict_trib (lower : bool) (A : crs) : bool :=
  forallb (fun i => forallb (fun c => if lower then Nat.ltb c i else Nat.ltb i c && Nat.ltb c (nrows A))
                            (cols_of A i)) (seq 0 (nrows A)).

Definition sptr_sched_ok (lower : bool) (A : crs) (sch : rsched) : bool :=
  sched_ok (cols_of A) (nrows A) lower sch.

End IluSched.
