(* KrylovMath2CG.v -- CG finite termination (C05-B1, last open statement):
   (a) the dimension lemma for lists: n + 1 vectors of length n over a field are linearly dependent
       (Gaussian elimination on the first component, induction on n);
   (b) a family that is orthogonal w.r.t. a form B(u, v) = <u, P v> with B(v, v) <> 0 is linearly independent;
   (c) hence CG cannot make n steps without breakdown and keep a non-zero residual: nobreak n -> r_n = 0,
       A x_n = f, and the model of cg.hpp returns the solution when it is allowed n iterations. *)
From Amgcl Require Import Scalar Vec Kernels KernelsProofs Krylov KrylovRef KrylovProofs
                          KrylovMathVec KrylovMathCG KrylovMathLsq AmgOrder.
Local Open Scope S_scope.
Local Notation SS := Datatypes.S.

Ltac vext :=
  unfold vadd, vsub, vscal, vzeros; rewrite ?zipw_vmap2;
  apply nth_error_ext; let i := fresh "i" in intro i;
  repeat (rewrite ?nth_error_vmap2, ?nth_error_vmap3, ?nth_error_map);
  repeat match goal with |- context [nth_error ?v i] => destruct (nth_error v i) end;
  simpl; try reflexivity; try (f_equal; ring).

(* ================================================================== *)
Section LinDep.
Context {S : Scalar}.
Local Notation vec := (vec S).
Hypothesis Sft : Sfield S.
Hypothesis Seqb : seqb_spec S.
Add Field SFieldLD : Sft.
Let Srt : Sring S := F_R Sft.

(* linear combination of a list of vectors of length n *)
Fixpoint lc (n : nat) (cs : list S) (vs : list vec) : vec :=
  match cs, vs with
  | c :: cs', v :: vs' => vadd (vscal c v) (lc n cs' vs')
  | _, _ => zeron n
  end.
(* the same combination of the first components *)
Fixpoint hsum (cs : list S) (vs : list vec) : S :=
  match cs, vs with
  | c :: cs', v :: vs' => c * hd s0 v + hsum cs' vs'
  | _, _ => s0
  end.
Definition alln (n : nat) (vs : list vec) : Prop := Forall (fun v => length v = n) vs.
Definition allzero (cs : list S) : Prop := Forall (fun c => c = s0) cs.

Lemma lc_len n cs : forall vs, alln n vs -> length (lc n cs vs) = n.
Proof.
  induction cs as [|c cs IH]; intros [|v vs] H; simpl; try apply zeron_len.
  apply Forall_cons_iff in H as (Lv & Hvs). apply vadd_len; [apply vscal_len; assumption|apply IH; assumption].
Qed.

Lemma lc_cons n cs : forall vs, alln (SS n) vs -> lc (SS n) cs vs = hsum cs vs :: lc n cs (map (@tl S) vs).
Proof.
  induction cs as [|c cs IH]; intros [|v vs] H; simpl; try reflexivity.
  apply Forall_cons_iff in H as (Lv & Hvs). rewrite IH by assumption.
  destruct v as [|h t]; [discriminate|]. reflexivity.
Qed.

Lemma lc_app n c1 : forall l1 c2 l2, length c1 = length l1 -> alln n (l1 ++ l2) ->
  lc n (c1 ++ c2) (l1 ++ l2) = vadd (lc n c1 l1) (lc n c2 l2).
Proof.
  induction c1 as [|c c1 IH]; intros [|v l1] c2 l2 L H; simpl in *; try discriminate.
  - symmetry. apply (zeron_vadd_l Srt). apply lc_len, H.
  - apply Forall_cons_iff in H as (Lv & Hvs). rewrite IH by (auto; lia). vext.
Qed.
Lemma hsum_app c1 : forall l1 c2 l2, length c1 = length l1 ->
  hsum (c1 ++ c2) (l1 ++ l2) = hsum c1 l1 + hsum c2 l2.
Proof.
  induction c1 as [|c c1 IH]; intros [|v l1] c2 l2 L; simpl in *; try discriminate; [ring|].
  rewrite IH by lia. ring.
Qed.
Lemma hsum_zero cs : forall vs, Forall (fun v => hd s0 v = s0) vs -> hsum cs vs = s0.
Proof.
  induction cs as [|c cs IH]; intros [|v vs] H; simpl; try reflexivity.
  apply Forall_cons_iff in H as (Hv & Hvs). rewrite Hv, IH by assumption. ring.
Qed.

(* one elimination step on the tails: w |-> tl w - (hd w * a) tu *)
Definition elim (a : S) (tu : vec) (w : vec) : vec := vsub (tl w) (vscal (hd s0 w * a) tu).
Lemma lc_elim n a tu cs : forall l, alln (SS n) l -> length tu = n ->
  lc n cs (map (elim a tu) l) = vsub (lc n cs (map (@tl S) l)) (vscal (hsum cs l * a) tu).
Proof.
  induction cs as [|c cs IH]; intros [|w l] H Lt; simpl.
  - apply (vec_ext_n n); [apply zeron_len|apply vsub_len; [apply zeron_len|apply vscal_len, Lt]|].
    intros i Hi. rewrite (nth_vsub_n n), (nth_vscal_n n) by (auto using zeron_len, vscal_len).
    unfold zeron. rewrite nth_repeat. ring.
  - apply (vec_ext_n n); [apply zeron_len|apply vsub_len; [apply zeron_len|apply vscal_len, Lt]|].
    intros i Hi. rewrite (nth_vsub_n n), (nth_vscal_n n) by (auto using zeron_len, vscal_len).
    unfold zeron. rewrite nth_repeat. ring.
  - apply (vec_ext_n n); [apply zeron_len|apply vsub_len; [apply zeron_len|apply vscal_len, Lt]|].
    intros i Hi. rewrite (nth_vsub_n n), (nth_vscal_n n) by (auto using zeron_len, vscal_len).
    unfold zeron. rewrite nth_repeat. ring.
  - apply Forall_cons_iff in H as (Lw & Hl). rewrite IH by assumption. unfold elim. vext.
Qed.

Lemma tl_len n (v : vec) : length v = SS n -> length (tl v) = n.
Proof. destruct v; simpl; intro H; [discriminate|lia]. Qed.
Lemma alln_tl n l : alln (SS n) l -> alln n (map (@tl S) l).
Proof. intro H. induction H; constructor; [apply tl_len; assumption|assumption]. Qed.
Lemma alln_elim n a tu l : alln (SS n) l -> length tu = n -> alln n (map (elim a tu) l).
Proof.
  intros H Lt. induction H; constructor; [|assumption].
  unfold elim. apply vsub_len; [apply tl_len; assumption|apply vscal_len, Lt].
Qed.

Lemma s_eq_dec (x y : S) : {x = y} + {x <> y}.
Proof.
  destruct (seqb x y) eqn:E; [left; apply Seqb, E|right; intro H; apply Seqb in H; congruence].
Qed.

(* THE DIMENSION LEMMA *)
Theorem lin_dep : forall n (vs : list vec), length vs = SS n -> alln n vs ->
  exists cs, length cs = SS n /\ ~ allzero cs /\ lc n cs vs = zeron n.
Proof.
  induction n as [|n IH]; intros vs L H.
  - destruct vs as [|v [|w vs]]; try discriminate. apply Forall_cons_iff in H as (Lv & _).
    destruct v; [|discriminate].
    exists [s1]. split; [reflexivity|]. split; [|reflexivity].
    intro Z. apply Forall_cons_iff in Z as (E & _). exact (F_1_neq_0 Sft E).
  - destruct (Forall_Exists_dec (fun v : vec => hd s0 v = s0) (fun v => s_eq_dec (hd s0 v) s0) vs) as [Z|NZ].
    + (* all first components vanish: drop the first vector, use the tails of the others *)
      destruct vs as [|v0 rest]; [discriminate|]. simpl in L.
      pose proof H as H'. apply Forall_cons_iff in H' as (Lv0 & Hrest).
      assert (Lr : length (map (@tl S) rest) = SS n) by (rewrite map_length; apply eq_add_S, L).
      destruct (IH (map (@tl S) rest) Lr (alln_tl n rest Hrest)) as (cs & Lc & NZc & E).
      exists (s0 :: cs). split; [simpl; lia|]. split.
      * intro Zc. apply Forall_cons_iff in Zc as (_ & Zc). contradiction.
      * rewrite lc_cons by exact H. rewrite (hsum_zero _ _ Z). simpl. rewrite E.
        change (zeron (SS n)) with (@s0 S :: zeron n). f_equal.
        apply (vec_ext_n n); [apply vadd_len; [apply vscal_len, tl_len, Lv0|apply zeron_len]|apply zeron_len|].
        intros i Hi. rewrite (nth_vadd_n n), (nth_vscal_n n) by (auto using vscal_len, tl_len, zeron_len).
        unfold zeron. rewrite nth_repeat. ring.
    + (* a vector u with non-zero first component h: eliminate it from all the others *)
      apply Exists_exists in NZ as (u & Hu & Nh).
      destruct (in_split u vs Hu) as (l1 & l2 & ->).
      set (h := hd s0 u) in *.
      assert (Hl : alln (SS n) (l1 ++ l2)).
      { pose proof H as H'. apply Forall_app in H' as (H1 & H2). apply Forall_cons_iff in H2 as (_ & H2). apply Forall_app. split; assumption. }
      assert (Lu : length u = SS n).
      { pose proof H as H'. apply Forall_app in H' as (_ & H2). apply Forall_cons_iff in H2 as (H2 & _). exact H2. }
      assert (Ltu : length (tl u) = n) by (apply tl_len, Lu).
      assert (Ll : length (l1 ++ l2) = SS n) by (rewrite app_length in *; simpl in L; lia).
      assert (Lr : length (map (elim (sinv h) (tl u)) (l1 ++ l2)) = SS n) by (rewrite map_length; exact Ll).
      destruct (IH (map (elim (sinv h) (tl u)) (l1 ++ l2)) Lr (alln_elim n (sinv h) (tl u) _ Hl Ltu)) as (cs & Lc & NZc & E).
      (* split the coefficients at the position of u *)
      set (c1 := firstn (length l1) cs). set (c2 := skipn (length l1) cs).
      assert (Ecs : cs = c1 ++ c2) by (symmetry; apply firstn_skipn).
      assert (Lc1 : length c1 = length l1).
      { unfold c1. rewrite firstn_length. rewrite app_length in Ll. lia. }
      set (cu := - ((hsum c1 l1 + hsum c2 l2) * sinv h)).
      exists (c1 ++ cu :: c2). split; [|split].
      * rewrite app_length. simpl. rewrite <- Lc, Ecs, app_length. lia.
      * intro Zc. apply NZc. rewrite Ecs. apply Forall_app in Zc as (Z1 & Z2). apply Forall_cons_iff in Z2 as (_ & Z2).
        apply Forall_app. split; assumption.
      * rewrite lc_cons by exact H.
        rewrite (hsum_app c1 l1 (cu :: c2) (u :: l2) Lc1). cbn [hsum]. fold h.
        change (zeron (SS n)) with (@s0 S :: zeron n). f_equal.
        { unfold cu. field. exact Nh. }
        rewrite map_app. cbn [map].
        assert (Ht : alln n (map (@tl S) l1 ++ tl u :: map (@tl S) l2)).
        { change (map (@tl S) l1 ++ tl u :: map (@tl S) l2) with (map (@tl S) l1 ++ map (@tl S) (u :: l2)).
          rewrite <- map_app. apply alln_tl, H. }
        pose proof (lc_app n c1 (map (@tl S) l1) (cu :: c2) (tl u :: map (@tl S) l2)) as X.
        rewrite map_length in X. specialize (X Lc1 Ht). etransitivity; [exact X|]. clear X.
        cbn [lc].
        (* what the induction hypothesis says, in terms of the tails *)
        rewrite Ecs, map_app in E.
        rewrite (lc_app n c1 (map (elim (sinv h) (tl u)) l1) c2 (map (elim (sinv h) (tl u)) l2)) in E
          by (rewrite ?map_length, <- ?map_app; try assumption; apply alln_elim; assumption).
        apply Forall_app in Hl as (Hl1 & Hl2).
        rewrite (lc_elim n (sinv h) (tl u) c1 l1 Hl1 Ltu), (lc_elim n (sinv h) (tl u) c2 l2 Hl2 Ltu) in E.
        set (L1 := lc n c1 (map (@tl S) l1)) in *. set (L2 := lc n c2 (map (@tl S) l2)) in *.
        assert (LL1 : length L1 = n) by (apply lc_len, alln_tl, Hl1).
        assert (LL2 : length L2 = n) by (apply lc_len, alln_tl, Hl2).
        apply (vec_ext_n n); [auto using vadd_len, vscal_len|apply zeron_len|].
        intros i Hi.
        assert (Ei : nth i (vadd (vsub L1 (vscal (hsum c1 l1 * sinv h) (tl u))) (vsub L2 (vscal (hsum c2 l2 * sinv h) (tl u)))) s0
                     = nth i (zeron n) s0) by (rewrite E; reflexivity).
        rewrite (nth_vadd_n n), !(nth_vsub_n n), !(nth_vscal_n n) in Ei by (auto using vsub_len, vscal_len).
        rewrite !(nth_vadd_n n), (nth_vscal_n n) by (auto using vadd_len, vscal_len).
        rewrite <- Ei. unfold cu. ring.
Qed.
End LinDep.

(* ================================================================== *)
(* (b) orthogonal w.r.t. B(u, v) = <u, P v> with B(v, v) <> 0  =>  linearly independent *)
Section OrthIndep.
Context {S : Scalar}.
Local Notation vec := (vec S).
Hypothesis Sft : Sfield S.
Add Field SFieldOI : Sft.
Let Srt : Sring S := F_R Sft.
Variable n : nat.
Variable P : vec -> vec.
Definition Bf (u v : vec) : S := rdot u (P v).

Lemma rdot_lc_zero cs : forall (vs : list vec) (z : vec), alln n vs -> (forall u, In u vs -> rdot u z = s0) -> rdot (lc n cs vs) z = s0.
Proof.
  induction cs as [|c cs IH]; intros [|v vs] z H O; simpl; try apply (rdot_zeron_l Srt).
  apply Forall_cons_iff in H as (Lv & Hvs).
  rewrite (rdot_vadd_l Srt) by (rewrite (vscal_len _ _ n Lv), (lc_len n cs vs Hvs); reflexivity).
  rewrite (rdot_vscal_l Srt), (O v (or_introl eq_refl)), (IH vs z Hvs (fun u Hu => O u (or_intror Hu))). ring.
Qed.

Theorem orth_indep : forall (vs : list vec) (cs : list S), alln n vs -> length cs = length vs ->
  ForallOrdPairs (fun u v => Bf u v = s0 /\ Bf v u = s0) vs -> Forall (fun v => Bf v v <> s0) vs ->
  lc n cs vs = zeron n -> allzero cs.
Proof.
  induction vs as [|v vs IH]; intros [|c cs] H L O D E; simpl in L; try discriminate; [constructor|].
  apply Forall_cons_iff in H as (Lv & Hvs). apply Forall_cons_iff in D as (Dv & Dvs).
  inversion O as [|a l Ov Ovs]; subst a l.
  simpl in E.
  assert (Z : rdot (lc n cs vs) (P v) = s0).
  { apply rdot_lc_zero; [exact Hvs|]. intros u Hu. exact (proj2 (proj1 (Forall_forall _ _) Ov u Hu)). }
  assert (Ec : c * Bf v v = s0).
  { transitivity (rdot (vadd (vscal c v) (lc n cs vs)) (P v)); [|rewrite E; apply (rdot_zeron_l Srt)].
    rewrite (rdot_vadd_l Srt) by (rewrite (vscal_len _ _ n Lv), (lc_len n cs vs Hvs); reflexivity).
    rewrite (rdot_vscal_l Srt), Z. unfold Bf. ring. }
  assert (C0 : c = s0).
  { transitivity (c * Bf v v * sinv (Bf v v)); [field; exact Dv|rewrite Ec; ring]. }
  constructor; [exact C0|].
  apply (IH cs Hvs ltac:(lia) Ovs Dvs).
  rewrite <- E, C0. symmetry.
  pose proof (lc_len n cs vs Hvs) as LL.
  apply (vec_ext_n n); [apply vadd_len; [apply vscal_len, Lv|exact LL]|exact LL|].
  intros i Hi. rewrite (nth_vadd_n n), (nth_vscal_n n) by (auto using vscal_len). ring.
Qed.

Lemma fop_map_seq {X} (R : X -> X -> Prop) (g : nat -> X) m : forall a,
  (forall i j, a <= i -> i < j -> j < a + m -> R (g i) (g j)) -> ForallOrdPairs R (map g (seq a m)).
Proof.
  induction m as [|m IH]; intros a H; simpl; constructor.
  - apply Forall_forall. intros x Hx. apply in_map_iff in Hx as (j & <- & Hj). apply in_seq in Hj.
    apply H; lia.
  - apply IH. intros i j H1 H2 H3. apply H; lia.
Qed.
End OrthIndep.

(* ================================================================== *)
(* (c) CG terminates after at most n steps *)
Section CGTermination.
Context {S : Scalar}.
Local Notation vec := (vec S).
Hypothesis Sft : Sfield S.
Hypothesis Seqb : seqb_spec S.
Hypothesis Sreal : forall x : S, sadj x = x.
Add Field SFieldCT : Sft.
Let Srt : Sring S := F_R Sft.
Variable n : nat.
Variables A P : vec -> vec.
Hypothesis A_len : forall v, length v = n -> length (A v) = n.
Hypothesis P_len : forall v, length v = n -> length (P v) = n.
Hypothesis A_sym : forall x y, length x = n -> length y = n -> rdot (A x) y = rdot x (A y).
Hypothesis P_sym : forall x y, length x = n -> length y = n -> rdot (P x) y = rdot x (P y).
Variables f x0 : vec.
Hypothesis Lf : length f = n.
Hypothesis Lx0 : length x0 = n.
Local Notation rk := (rk A P f x0).
Local Notation xk := (xk A P f x0).
Local Notation nobreak := (nobreak A P f x0).

Lemma vec_eq_dec (u v : vec) : {u = v} + {u <> v}.
Proof. apply list_eq_dec, (s_eq_dec Seqb). Qed.

(* P definite on the non-zero vectors (implied by positive definiteness in an ordered field) *)
Hypothesis P_def : forall v, length v = n -> v <> zeron n -> rdot v (P v) <> s0.

Theorem cg_finite_termination : nobreak n -> rk n = zeron n.
Proof.
  intro NB. destruct (vec_eq_dec (rk n) (zeron n)) as [E|NE]; [exact E|exfalso].
  set (rs := map rk (seq 0 (SS n))).
  assert (Lr : forall k, length (rk k) = n) by (intro k; apply (len_r n A P A_len P_len f x0 Lf Lx0)).
  assert (Hrs : alln n rs).
  { apply Forall_forall. intros v Hv. apply in_map_iff in Hv as (k & <- & _). apply Lr. }
  assert (Lrs : length rs = SS n) by (unfold rs; rewrite map_length, seq_length; reflexivity).
  destruct (lin_dep Sft Seqb n rs Lrs Hrs) as (cs & Lc & NZ & E).
  apply NZ. apply (orth_indep Sft n P rs cs Hrs ltac:(congruence)); [| |exact E].
  - apply fop_map_seq. intros i j _ Hij Hj.
    assert (O : rdot (rk j) (P (rk i)) = s0).
    { apply (cg_residuals_P_orthogonal Sft Sreal n A P A_len P_len A_sym P_sym f x0 Lf Lx0 j i); [|exact Hij].
      apply (nobreak_le n A P f x0 Lf Lx0 n j); [lia|exact NB]. }
    unfold Bf. split; [|exact O].
    rewrite (rdot_sym Srt Sreal), (P_sym (rk j) (rk i) (Lr j) (Lr i)). exact O.
  - apply Forall_forall. intros v Hv. apply in_map_iff in Hv as (k & <- & Hk). apply in_seq in Hk.
    unfold Bf. destruct (Nat.eq_dec k n) as [->|Nk].
    + apply P_def; [apply Lr|exact NE].
    + destruct (NB k ltac:(lia)) as (Nrz & _). rewrite rz_def in Nrz. exact Nrz.
Qed.

(* ... and then x_n solves the system *)
Hypothesis A_lin : linear_on n A.
Lemma residual_zero_solves k : rk k = zeron n -> A (xk k) = f.
Proof.
  intro E.
  rewrite (rk_residual Sft n A P A_len P_len f x0 Lf Lx0 A_lin k) in E.
  assert (LA : length (A (xk k)) = n) by (apply A_len, (len_x n A P A_len P_len f x0 Lf Lx0)).
  apply (vec_ext_n n); [exact LA|exact Lf|]. intros i Hi.
  assert (Ei : nth i (vsub f (A (xk k))) s0 = nth i (zeron n) s0) by (rewrite E; reflexivity).
  rewrite (nth_vsub_n n) in Ei by assumption. unfold zeron in Ei. rewrite nth_repeat in Ei.
  transitivity (nth i f s0 - (nth i f s0 - nth i (A (xk k)) s0)); [ring|rewrite Ei; ring].
Qed.
Theorem cg_reaches_solution : nobreak n -> A (xk n) = f.
Proof. intro NB. apply residual_zero_solves, cg_finite_termination, NB. Qed.

(* on the model of cg.hpp: if it makes n iterations (without breakdown) it returns the exact solution *)
Theorem cg_model_exact_after_n_iterations prm junk nr r w :
  k_prologue norm_a prm f = Go nr -> cg A P prm f x0 junk = (KOk r, w) ->
  k_it r = n -> nobreak n -> A (k_x r) = f.
Proof.
  intros Hp Hc Hn NB.
  destruct (cg_model_returns_seq Srt Seqb n A P A_len P_len A_lin prm f x0 junk nr r w Lf Lx0 Hp Hc) as (_ & Ex).
  rewrite Ex, Hn. apply cg_reaches_solution, NB.
Qed.

End CGTermination.

(* ordered field, A and P positive definite: no hypothesis on the run is left -- some residual r_k, k <= n,
   vanishes, and the corresponding iterate solves the system *)
Section CGTerminationOrd.
Context {S : Scalar}.
Local Notation vec := (vec S).
Hypothesis Sft : Sfield S.
Hypothesis Seqb : seqb_spec S.
Hypothesis Sreal : forall x : S, sadj x = x.
Hypothesis Ord : ordered S.
Variable n : nat.
Variables A P : vec -> vec.
Hypothesis A_len : forall v, length v = n -> length (A v) = n.
Hypothesis P_len : forall v, length v = n -> length (P v) = n.
Hypothesis A_sym : forall x y, length x = n -> length y = n -> rdot (A x) y = rdot x (A y).
Hypothesis P_sym : forall x y, length x = n -> length y = n -> rdot (P x) y = rdot x (P y).
Hypothesis A_lin : linear_on n A.
Hypothesis A_pd : forall v, length v = n -> v <> zeron n -> olt s0 (rdot v (A v)).
Hypothesis P_pd : forall v, length v = n -> v <> zeron n -> olt s0 (rdot v (P v)).
Variables f x0 : vec.
Hypothesis Lf : length f = n.
Hypothesis Lx0 : length x0 = n.
Local Notation rk := (rk A P f x0).
Local Notation xk := (xk A P f x0).

Lemma P_def_of_pd : forall v, length v = n -> v <> zeron n -> rdot v (P v) <> s0.
Proof.
  intros v L N E. pose proof (P_pd v L N) as H. rewrite E in H. unfold olt in H.
  rewrite (o_irrefl S Ord) in H. discriminate.
Qed.

Theorem cg_nobreak_terminates : nobreak A P f x0 n -> rk n = zeron n.
Proof. exact (cg_finite_termination Sft Seqb Sreal n A P A_len P_len A_sym P_sym f x0 Lf Lx0 P_def_of_pd). Qed.

Lemma first_zero_residual m : (exists k, k < m /\ rk k = zeron n) \/ (forall k, k < m -> rk k <> zeron n).
Proof.
  induction m as [|m [(k & Hk & E)|NZ]].
  - right. intros k Hk. lia.
  - left. exists k. split; [lia|exact E].
  - destruct (vec_eq_dec Seqb (rk m) (zeron n)) as [E|NE].
    + left. exists m. split; [lia|exact E].
    + right. intros k Hk. destruct (Nat.eq_dec k m) as [->|N]; [exact NE|apply NZ; lia].
Qed.

Theorem cg_terminates_within_n_steps : exists k, k <= n /\ rk k = zeron n /\ A (xk k) = f.
Proof.
  assert (Sol : forall k, rk k = zeron n -> A (xk k) = f).
  { exact (residual_zero_solves Sft n A P A_len P_len f x0 Lf Lx0 A_lin). }
  destruct (first_zero_residual n) as [(k & Hk & E)|NZ].
  - exists k. split; [lia|]. split; [exact E|apply Sol, E].
  - assert (NB : nobreak A P f x0 n).
    { exact (cg_nobreak_while_residual_nonzero Sft Sreal n A P A_len P_len A_sym P_sym f x0 Lf Lx0 Ord A_pd P_pd n NZ). }
    exists n. split; [lia|]. pose proof (cg_nobreak_terminates NB) as E. split; [exact E|apply Sol, E].
Qed.
End CGTerminationOrd.
