(* SpecRadBlock.v -- C08, Gershgorin estimate of backend::spectral_radius for BLOCK values
   (value_type = static_matrix<T,b,b>, math::norm = Frobenius norm):

     for a block eigenpair  sum_j A_ij v_j = lambda v_i  (v_i blocks -- in particular b x 1 columns --, v <> 0,
     lambda a base scalar)         |lambda| <= max_i sum_j ||A_ij||_F                                [bgersh_bound]
     scaled variant (D^-1 A, D_i = last stored diagonal block of row i, inverse(D_i) D_i = I)
                                   |lambda| <= max_i (sum_j ||A_ij||_F) ||inverse(D_i)||_F         [bgersh_bound_scaled]

   proved in SQUARED form in every ordered field, without square roots: the Frobenius inner product
   <x,y> = sum_kl x_kl y_kl satisfies Cauchy-Schwarz <x,y>^2 <= <x,x><y,y> (SpecRadOrd.cauchy_schwarz) and is
   sub-multiplicative <ax,ax> <= <a,a><x,x>; the numbers n_ij the code adds up only have to satisfy
       0 <= n_ij   and   <A_ij,A_ij> <= n_ij^2          [norm_ok: the root is non-negative and not under-estimated]
   on the blocks the run meets -- true for an exact root (R), and in QcS for perfect dyadic squares.
   Section NormedGersh is abstract (B any non-commutative ring with such an inner product, base scalars embedded by
   a map [emb] with <emb c * x, emb c * x> = c^2 <x,x>); Section BlockFrob instantiates it with BlockS S0 b and shows
   that MatOps2.spectral_radius_gersh at BlockS returns exactly the embedded number the bound is about, for every
   thread chunking [block_gersh_value]. *)
From Coq Require Import QArith Qcanon.
From Amgcl Require Import Scalar QcInst Vec Crs Kernels KernelsProofs MatOps MatOpsProofs MatOps2 MatOps2Proofs
  DirectUtil Inverse StaticMat StaticMatProofs BlockInst NcRing NcKernels NcRingBlock BlockGershProofs SpecRadOrd.
Local Close Scope Qc_scope.
Local Close Scope Q_scope.
Local Open Scope nat_scope.
Local Open Scope S_scope.

Section NormedGersh.
Variable S0 B : Scalar.
Hypothesis Hof : ordfield_theory S0.
Hypothesis Hnc : ncring_theory B.
Variable ip : B -> B -> S0.
Variable emb : S0 -> B.
Variable nrm : B -> S0.
Hypothesis ip_add_l : forall x y z : B, ip (x + y) z = ip x z + ip y z.
Hypothesis ip_sym : forall x y : B, ip x y = ip y x.
Hypothesis ip_nonneg : forall x : B, sle s0 (ip x x).
Hypothesis ip_zero : forall x : B, ip x x = s0 -> x = s0.
Hypothesis ip_cs : forall x y : B, sle (ip x y * ip x y) (ip x x * ip y y).
Hypothesis ip_submult : forall a x : B, sle (ip (a * x) (a * x)) (ip a a * ip x x).
Hypothesis ip_emb : forall (c : S0) (x : B), ip (emb c * x) (emb c * x) = c * c * ip x x.

Let Srt0 : Sring S0 := of_ring S0 Hof.
Add Ring SRingNG : Srt0.
Local Instance nciNG : NcRingInst B := ncring_inst Hnc.

(* the number the code uses for ||a|| is non-negative and not below the true norm *)
Definition norm_ok (a : B) : Prop := sle s0 (nrm a) /\ sle (ip a a) (nrm a * nrm a).

(* specification of the estimate on base scalars *)
Definition brow_sum (r : row B) : S0 := fold_left (fun a e => a + nrm (snd e)) r s0.
Definition bgersh_row (scale : bool) (ir : nat * row B) : S0 :=
  if scale then brow_sum (snd ir) * nrm (sinv (match last_col (snd ir) (fst ir) with Some d => d | None => s1 end))
  else brow_sum (snd ir).
Definition bgersh_spec (scale : bool) (A : crs B) : S0 :=
  max_from s0 (map (bgersh_row scale) (indexed (rows A))).

Lemma ip_add_r (x y z : B) : ip z (x + y) = ip z x + ip z y.
Proof. rewrite ip_sym, ip_add_l, (ip_sym x), (ip_sym y). reflexivity. Qed.

Lemma ip_0_l (z : B) : ip s0 z = s0.
Proof.
  assert (E : ip (s0 + s0) z = ip s0 z + ip s0 z) by apply ip_add_l.
  replace (@s0 B + s0) with (@s0 B) in E by ncr.
  transitivity (ip s0 z + ip s0 z - ip s0 z); [ring|]. rewrite <- E. ring.
Qed.

Lemma ip_sq_sum (y Y : B) : ip (y + Y) (y + Y) = ip y y + (s1 + s1) * ip y Y + ip Y Y.
Proof. rewrite ip_add_l, !ip_add_r, (ip_sym Y y). ring. Qed.

Lemma brow_sum_acc (r : row B) (a : S0) : fold_left (fun a e => a + nrm (snd e)) r a = a + brow_sum r.
Proof.
  unfold brow_sum. revert a; induction r as [|e r IH]; intro a; cbn [fold_left]; [ring|].
  rewrite IH, (IH (s0 + _)). ring.
Qed.
Lemma brow_sum_cons (e : nat * B) (r : row B) : brow_sum (e :: r) = nrm (snd e) + brow_sum r.
Proof. unfold brow_sum at 1. cbn [fold_left]. rewrite brow_sum_acc. ring. Qed.

(* <y,Y> <= c d w  from  <y,y> <= c^2 w, <Y,Y> <= d^2 w *)
Lemma ip_cross (y Y : B) (c d w : S0) : sle s0 c -> sle s0 d -> sle s0 w ->
  sle (ip y y) (c * c * w) -> sle (ip Y Y) (d * d * w) -> sle (ip y Y) (c * d * w).
Proof.
  intros Hc Hd Hw Hy HY. apply (ole_sq_cancel Hof).
  - apply (ole_mul_nonneg Hof); [apply (ole_mul_nonneg Hof)|]; assumption.
  - apply (ole_trans Hof _ _ _ (ip_cs y Y)).
    replace (c * d * w * (c * d * w)) with ((c * c * w) * (d * d * w)) by ring.
    apply (ole_mul Hof); try assumption; apply ip_nonneg.
Qed.

(* the row estimate: || sum_e a_e v_(c_e) ||^2 <= (sum_e n_e)^2 w   when ||v_c||^2 <= w for all c *)
Lemma brow_bound (n : nat) (v : vec B) (w : S0) (r : row B) :
  sle s0 w -> (forall c, c < n -> sle (ip (vget v c) (vget v c)) w) ->
  (forall e, In e r -> fst e < n /\ norm_ok (snd e)) ->
  sle s0 (brow_sum r) /\ sle (ip (dotrow r v) (dotrow r v)) (brow_sum r * brow_sum r * w).
Proof.
  intros Hw Hv. induction r as [|e r IH]; intro He.
  - unfold dotrow, brow_sum. cbn [fold_left]. split; [apply (ole_refl Hof)|].
    rewrite ip_0_l. apply (ole_eq Hof). ring.
  - destruct IH as [IH0 IH1]; [intros e' He'; apply He; right; exact He'|].
    destruct (He e (or_introl eq_refl)) as [Hc [Hn0 Hn1]].
    rewrite (nc_dotrow_cons Hnc), brow_sum_cons. split; [apply (ole_add_nonneg Hof); assumption|].
    set (y := snd e * vget v (fst e)). set (Y := dotrow r v) in *. set (c := nrm (snd e)) in *. set (d := brow_sum r) in *.
    assert (Hy : sle (ip y y) (c * c * w)).
    { apply (ole_trans Hof _ _ _ (ip_submult _ _)). apply (ole_mul Hof); try apply ip_nonneg; [exact Hn1|apply Hv; exact Hc]. }
    rewrite ip_sq_sum.
    replace ((c + d) * (c + d) * w) with (c * c * w + (s1 + s1) * (c * d * w) + d * d * w) by ring.
    apply (ole_add Hof); [apply (ole_add Hof)|]; [exact Hy| |exact IH1].
    apply (ole_mul_l Hof); [|apply (ole_add_nonneg Hof); apply (ole_0_1 Hof)].
    apply ip_cross; assumption.
Qed.

Lemma bgersh_row_le (scale : bool) (A : crs B) (i : nat) : i < nrows A ->
  sle (bgersh_row scale (i, nth i (rows A) [])) (bgersh_spec scale A).
Proof.
  intro Hi. apply (omax_from_In Hof). apply (in_map (bgersh_row scale)). apply Gersh.indexed_In. exact Hi.
Qed.

Definition stored_ok (A : crs B) : Prop := forall r e, In r (rows A) -> In e r -> norm_ok (snd e).

Lemma row_hyp (A : crs B) (i : nat) : wf A = true -> i < nrows A -> stored_ok A ->
  forall e, In e (nth i (rows A) []) -> fst e < ncols A /\ norm_ok (snd e).
Proof.
  intros Hwf Hi Hok e He. split.
  - assert (Hr : row_wf (ncols A) (nth i (rows A) []) = true) by (apply forallb_nth; assumption).
    unfold row_wf in Hr. rewrite forallb_forall in Hr. apply Nat.ltb_lt. apply Hr. exact He.
  - apply (Hok (nth i (rows A) []) e); [apply nth_In; exact Hi|exact He].
Qed.

Lemma Ax_dotrow_nc (A : crs B) (v : vec B) (i : nat) : wf A = true -> i < nrows A ->
  Ax A v i = dotrow (nth i (rows A) []) v.
Proof.
  intros Hwf Hi. unfold Ax, mget. symmetry. apply (nc_dotrow_spec Hnc). apply forallb_nth; assumption.
Qed.

(* a row i0 with ||v_i0|| maximal and positive *)
Lemma argmax_block (v : vec B) (n : nat) : (exists i, i < n /\ vget v i <> s0) ->
  exists i0, i0 < n /\ sltb s0 (ip (vget v i0) (vget v i0)) = true /\
             forall j, j < n -> sle (ip (vget v j) (vget v j)) (ip (vget v i0) (vget v i0)).
Proof.
  intros [k [Hk Hvk]]. destruct (oargmax Hof (fun i => ip (vget v i) (vget v i)) n) as [i0 [Hi Hmax]]; [lia|].
  exists i0. split; [exact Hi|split; [|exact Hmax]].
  apply (olt_le_trans Hof _ (ip (vget v k) (vget v k))); [|apply Hmax; exact Hk].
  apply (opos_of_nonneg_ne Hof); [apply ip_nonneg|]. intro E. apply Hvk. apply ip_zero. exact E.
Qed.

(* Gershgorin, block values, unscaled *)
Theorem bgersh_bound (A : crs B) (v : vec B) (lam : S0) :
  wf A = true -> nrows A = ncols A -> stored_ok A ->
  (forall i, i < nrows A -> Ax A v i = emb lam * vget v i) ->
  (exists i, i < nrows A /\ vget v i <> s0) ->
  sle (sabs lam) (bgersh_spec false A).
Proof.
  intros Hwf Hsq Hok Heig Hnz.
  destruct (argmax_block v (nrows A) Hnz) as [i0 [Hi [Hpos Hmax]]].
  set (w := ip (vget v i0) (vget v i0)) in *.
  destruct (brow_bound (ncols A) v w (nth i0 (rows A) [])) as [HR0 HR1].
  - apply (olt_le Hof). exact Hpos.
  - rewrite <- Hsq. exact Hmax.
  - apply row_hyp; assumption.
  - apply (ole_trans Hof _ (brow_sum (nth i0 (rows A) []))); [|apply (bgersh_row_le false A i0 Hi)].
    apply (oabs_le_of_sq Hof); [exact HR0|]. apply (ole_mul_cancel Hof _ _ w Hpos).
    rewrite <- Ax_dotrow_nc in HR1 by assumption. rewrite (Heig i0 Hi), ip_emb in HR1. exact HR1.
Qed.

(* Gershgorin for D^-1 A: D_i = last stored diagonal block of row i (identity if none), inverse(D_i) D_i = I *)
Theorem bgersh_bound_scaled (A : crs B) (v : vec B) (lam : S0) :
  wf A = true -> nrows A = ncols A -> stored_ok A ->
  (forall i, i < nrows A -> sinv (Gersh.last_diag A i) * Gersh.last_diag A i = s1 /\ norm_ok (sinv (Gersh.last_diag A i))) ->
  (forall i, i < nrows A -> Ax A v i = Gersh.last_diag A i * (emb lam * vget v i)) ->
  (exists i, i < nrows A /\ vget v i <> s0) ->
  sle (sabs lam) (bgersh_spec true A).
Proof.
  intros Hwf Hsq Hok Hd Heig Hnz.
  destruct (argmax_block v (nrows A) Hnz) as [i0 [Hi [Hpos Hmax]]].
  set (w := ip (vget v i0) (vget v i0)) in *.
  destruct (brow_bound (ncols A) v w (nth i0 (rows A) [])) as [HR0 HR1].
  - apply (olt_le Hof). exact Hpos.
  - rewrite <- Hsq. exact Hmax.
  - apply row_hyp; assumption.
  - destruct (Hd i0 Hi) as [Hinv [Hm0 Hm1]].
    apply (ole_trans Hof _ (bgersh_row true (i0, nth i0 (rows A) []))); [|apply (bgersh_row_le true A i0 Hi)].
    unfold bgersh_row. cbn [fst snd]. fold (Gersh.last_diag A i0).
    set (R := brow_sum (nth i0 (rows A) [])) in *. set (d := Gersh.last_diag A i0) in *. set (m := nrm (sinv d)) in *.
    apply (oabs_le_of_sq Hof); [apply (ole_mul_nonneg Hof); assumption|].
    apply (ole_mul_cancel Hof _ _ w Hpos).
    rewrite <- Ax_dotrow_nc in HR1 by assumption.
    assert (E : emb lam * vget v i0 = sinv d * Ax A v i0).
    { rewrite (Heig i0 Hi). fold d. transitivity ((sinv d * d) * (emb lam * vget v i0)); [rewrite Hinv; ncr|ncr]. }
    unfold w. rewrite <- ip_emb. rewrite E.
    apply (ole_trans Hof _ _ _ (ip_submult _ _)).
    replace (R * m * (R * m) * ip (vget v i0) (vget v i0)) with ((m * m) * (R * R * ip (vget v i0) (vget v i0))) by ring.
    apply (ole_mul Hof); try apply ip_nonneg; assumption.
Qed.

(* ---- the loop on base scalars (BlockGershProofs.gersh_n) computes bgersh_spec, for every chunking ---- *)
Lemma gersh_inner_n (scale : bool) (i : nat) (r : row B) (a : S0) (dia : B) :
  fold_left (fun (sd : S0 * B) e =>
               (fst sd + nrm (snd e), if scale && Nat.eqb (fst e) i then snd e else snd sd)) r (a, dia)
  = (fold_left (fun a e => a + nrm (snd e)) r a,
     if scale then match last_col r i with Some d => d | None => dia end else dia).
Proof.
  revert a dia; induction r as [|[c x] r IH]; intros a dia; cbn [fold_left last_col fst snd].
  - destruct scale; reflexivity.
  - rewrite IH. f_equal. destruct scale; cbn [andb]; [|reflexivity].
    destruct (last_col r i); [reflexivity|]. destruct (Nat.eqb c i); reflexivity.
Qed.

Lemma gersh_row_n_spec (scale : bool) (e : S0) (ir : nat * row B) :
  gersh_row_n S0 B nrm scale e ir = smax e (bgersh_row scale ir).
Proof.
  unfold gersh_row_n, bgersh_row. cbv zeta. rewrite (gersh_inner_n scale (fst ir)). cbn [fst snd].
  destruct scale; reflexivity.
Qed.

Lemma gersh_chunk_n_spec (scale : bool) (irs : list (nat * row B)) :
  gersh_chunk_n S0 B nrm scale irs = max_from s0 (map (bgersh_row scale) irs).
Proof.
  unfold gersh_chunk_n, max_from. generalize (@s0 S0).
  induction irs as [|ir irs IH]; intro e; cbn [fold_left map]; [reflexivity|].
  rewrite gersh_row_n_spec. apply IH.
Qed.

Theorem gersh_n_spec (scale : bool) (lens : list nat) (A : crs B) :
  nrows A <= fold_right Nat.add 0 lens ->
  gersh_n S0 B nrm scale lens A = bgersh_spec scale A.
Proof.
  intro H. unfold gersh_n. cbv zeta.
  rewrite (Gersh.chunks_max (of_lt_irrefl S0 Hof) (of_lt_trans S0 Hof) (of_lt_total S0 Hof)
             (fun _ => true) (bgersh_row scale) (gersh_chunk_n S0 B nrm scale)).
  - fold (bgersh_spec scale A).
    assert (H0 : sltb (bgersh_spec scale A) s0 = false) by apply (omax_from_ge Hof).
    rewrite H0. reflexivity.
  - intros ch _. apply gersh_chunk_n_spec.
  - apply forallb_forall. reflexivity.
  - apply (ole_refl Hof).
  - rewrite Gersh.indexed_length. exact H.
Qed.

End NormedGersh.

(* ------------------------------------------------------------------ *)
(* static_matrix<T,b,b> over an ordered field T with trivial adjoint: the Frobenius inner product *)
Section BlockFrob.
Variable S0 : Scalar.
Variable b : nat.
Hypothesis Hb : 0 < b.
Hypothesis Hof : ordfield_theory S0.
Hypothesis adj_id : forall x : S0, sadj x = x.
Local Notation B := (BlockS S0 b).

Let Srt0 : Sring S0 := of_ring S0 Hof.
Add Ring SRingBF : Srt0.

Definition bip (x y : B) : S0 := sumn (fun i => sumn (fun j => blk_get x i j * blk_get y i j) b) b.
(* math::norm of a block, as a base scalar (sabs at BlockS is its embedding) *)
Definition bnrm (a : B) : S0 := sm_norm (blk_list a).
(* non-negative root, not under-estimated *)
Definition sqrt_ok2 (x : S0) : Prop := sle s0 (ssqrt x) /\ sle x (ssqrt x * ssqrt x).

Lemma sumn2_ext (f g : nat -> nat -> S0) n m :
  (forall i j, i < n -> j < m -> f i j = g i j) ->
  sumn (fun i => sumn (fun j => f i j) m) n = sumn (fun i => sumn (fun j => g i j) m) n.
Proof. intro H. apply sumn_ext. intros i Hi. apply sumn_ext. intros j Hj. apply H; assumption. Qed.

Lemma bip_add_l (x y z : B) : bip (x + y) z = bip x z + bip y z.
Proof.
  unfold bip. rewrite <- (sumn_add Srt0). apply sumn_ext. intros i Hi. rewrite <- (sumn_add Srt0).
  apply sumn_ext. intros j Hj. cbn [sadd BlockS]. rewrite (blk_get_add S0 b) by assumption. ring.
Qed.

Lemma bip_sym (x y : B) : bip x y = bip y x.
Proof. unfold bip. apply sumn2_ext. intros. ring. Qed.

Lemma bip_nonneg (x : B) : sle s0 (bip x x).
Proof. apply (osumn_nonneg Hof). intros i _. apply (osumn_sq_nonneg Hof) with (f := fun j => blk_get x i j). Qed.

Lemma bip_zero (x : B) : bip x x = s0 -> x = s0.
Proof.
  intro H. cbn [s0 BlockS]. apply (blk_ext_get S0 b). intros i j Hi Hj. rewrite (blk_get_zero S0 b) by assumption.
  assert (Hrow : sumn (fun j => blk_get x i j * blk_get x i j) b = s0).
  { apply (osumn_nonneg_zero Hof (fun i => sumn (fun j => blk_get x i j * blk_get x i j) b) b); try assumption.
    intros k _. apply (osumn_sq_nonneg Hof) with (f := fun j => blk_get x k j). }
  exact (osumn_sq_zero Hof (fun j => blk_get x i j) b Hrow j Hj).
Qed.

Lemma bip_flat (x y : B) :
  bip x y = sumn (fun k => blk_get x (k / b) (k mod b) * blk_get y (k / b) (k mod b)) (b * b).
Proof. unfold bip. apply (sumn_flatten Hof (fun i j => blk_get x i j * blk_get y i j)). exact Hb. Qed.

Lemma bip_cs (x y : B) : sle (bip x y * bip x y) (bip x x * bip y y).
Proof. rewrite !bip_flat. apply (cauchy_schwarz Hof). Qed.

Lemma bip_submult (a x : B) : sle (bip (a * x) (a * x)) (bip a a * bip x x).
Proof.
  unfold bip at 1. cbn [smul BlockS].
  apply (ole_trans Hof _ (sumn (fun i => sumn (fun j =>
           sumn (fun k => blk_get a i k * blk_get a i k) b * sumn (fun k => blk_get x k j * blk_get x k j) b) b) b)).
  - apply (osumn_le Hof). intros i Hi. apply (osumn_le Hof). intros j Hj.
    rewrite (blk_get_mul S0 b) by assumption. apply (cauchy_schwarz Hof).
  - apply (ole_eq Hof). unfold bip.
    rewrite (sumn_ext (fun i => sumn (fun j => sumn (fun k => blk_get a i k * blk_get a i k) b *
                                            sumn (fun k => blk_get x k j * blk_get x k j) b) b)
                      (fun i => sumn (fun k => blk_get a i k * blk_get a i k) b *
                                sumn (fun j => sumn (fun k => blk_get x k j * blk_get x k j) b) b))
      by (intros i _; apply (sumn_scal Srt0)).
    rewrite (sumn_scal_r Hof). f_equal. apply (sumn_swap Hof).
Qed.

Lemma bip_emb (c : S0) (x : B) : bip ((blk_embed S0 b c : B) * x) ((blk_embed S0 b c : B) * x) = c * c * bip x x.
Proof.
  unfold bip. cbn [smul BlockS]. rewrite <- (sumn_scal Srt0). apply sumn_ext. intros i Hi.
  rewrite <- (sumn_scal Srt0). apply sumn_ext. intros j Hj.
  rewrite (blk_embed_mul_l S0 b Srt0) by assumption. ring.
Qed.

(* the argument of the square root in math::norm is <a,a> *)
Lemma bnrm_sqrt (a : B) : bnrm a = ssqrt (bip a a).
Proof.
  unfold bnrm, sm_norm. f_equal.
  rewrite (fold_add_sumn Hof (fun x => x * sadj x) s0). rewrite (blk_len S0 b).
  assert (E : s0 + sumn (fun i => nth i (blk_list a) s0 * sadj (nth i (blk_list a) s0)) (b * b) = bip a a).
  { rewrite bip_flat. match goal with |- s0 + ?u = _ => replace (s0 + u) with u by ring end.
    apply sumn_ext. intros k Hk. rewrite adj_id. unfold blk_get, sm_get, vget.
    replace (k / b * b + k mod b)%nat with k; [reflexivity|]. pose proof (Nat.div_mod k b). lia. }
  rewrite E. apply (oabs_nonneg_id Hof). apply bip_nonneg.
Qed.

Lemma norm_ok_of_sqrt (a : B) : sqrt_ok2 (bip a a) -> norm_ok S0 B bip bnrm a.
Proof. unfold sqrt_ok2, norm_ok. rewrite bnrm_sqrt. tauto. Qed.

(* ---- c |-> c I preserves the order (operator< of static_matrix compares traces) ---- *)
Lemma osum_const_lt (x y : S0) n : 0 < n -> sltb x y = true ->
  sltb (sumn (fun _ => x) n) (sumn (fun _ => y) n) = true.
Proof.
  intros Hn H. destruct n as [|n]; [lia|]. clear Hn. induction n as [|n IH]; cbn [sumn] in *.
  - replace (s0 + x) with (x + s0) by ring. replace (s0 + y) with (y + s0) by ring. apply (of_lt_add S0 Hof). exact H.
  - apply (of_lt_trans S0 Hof _ (sumn (fun _ => y) n + y + x)).
    + apply (of_lt_add S0 Hof). exact IH.
    + replace (sumn (fun _ => y) n + y + x) with (x + (sumn (fun _ => y) n + y)) by ring.
      replace (sumn (fun _ => y) n + y + y) with (y + (sumn (fun _ => y) n + y)) by ring.
      apply (of_lt_add S0 Hof). exact H.
Qed.

Lemma trace_embed_gen (x : S0) : sm_trace b b (blk_list (blk_embed S0 b x)) = sumn (fun _ => x) b.
Proof.
  unfold sm_trace. rewrite Nat.min_id. apply sumn_ext. intros i Hi.
  change (sm_get b (blk_list (blk_embed S0 b x)) i i) with (blk_get (blk_embed S0 b x) i i).
  rewrite (blk_get_embed S0 b) by assumption. rewrite Nat.eqb_refl. reflexivity.
Qed.

Lemma embed_ltb_gen (x y : S0) : @sltb B (blk_embed S0 b x) (blk_embed S0 b y) = sltb x y.
Proof.
  cbn [sltb BlockS]. unfold blk_ltb, sm_ltb. rewrite !trace_embed_gen.
  destruct (sltb x y) eqn:E.
  - apply osum_const_lt; assumption.
  - destruct (sltb (sumn (fun _ => x) b) (sumn (fun _ => y) b)) eqn:E2; [|reflexivity]. exfalso.
    destruct (ole_cases Hof y x E) as [H|H].
    + pose proof (osum_const_lt y x b Hb H) as H3.
      pose proof (of_lt_trans S0 Hof _ _ _ E2 H3) as H4. rewrite (of_lt_irrefl S0 Hof) in H4. discriminate.
    + subst y. rewrite (of_lt_irrefl S0 Hof) in E2. discriminate.
Qed.

(* spectral_radius (Gershgorin branch) at block values = the embedded base-scalar estimate, every chunking *)
Theorem block_gersh_value (scale : bool) (lens : list nat) (A : crs B) :
  nrows A <= fold_right Nat.add 0 lens ->
  spectral_radius_gersh scale lens A = blk_embed S0 b (bgersh_spec S0 B bnrm scale A).
Proof.
  intro Hl.
  rewrite (gersh_emb S0 B (blk_embed S0 b) bnrm (blk_embed_add S0 b Srt0) (blk_embed_mul S0 b Srt0)
             embed_ltb_gen (blk_embed_0 S0 b) (blk_embed_1 S0 b) (fun a => eq_refl) scale lens A).
  f_equal. apply (gersh_n_spec S0 B Hof bnrm scale lens A Hl).
Qed.

Definition blocks_sqrt_ok (A : crs B) : Prop :=
  forall r e, In r (rows A) -> In e r -> sqrt_ok2 (bip (snd e) (snd e)).

(* Gershgorin for block values *)
Theorem block_gersh_bound (A : crs B) (v : vec B) (lam : S0) :
  wf A = true -> nrows A = ncols A -> blocks_sqrt_ok A ->
  (forall i, i < nrows A -> Ax A v i = (blk_embed S0 b lam : B) * vget v i) ->
  (exists i, i < nrows A /\ vget v i <> s0) ->
  sle (sabs lam) (bgersh_spec S0 B bnrm false A).
Proof.
  intros Hwf Hsq Hok. apply (bgersh_bound S0 B Hof (BlockS_ncring S0 b Srt0) bip (blk_embed S0 b) bnrm
    bip_add_l bip_sym bip_nonneg bip_zero bip_cs bip_submult bip_emb A v lam Hwf Hsq).
  intros r e Hr He. apply norm_ok_of_sqrt. exact (Hok r e Hr He).
Qed.

Theorem block_gersh_bound_scaled (A : crs B) (v : vec B) (lam : S0) :
  wf A = true -> nrows A = ncols A -> blocks_sqrt_ok A ->
  (forall i, i < nrows A -> sinv (Gersh.last_diag A i) * Gersh.last_diag A i = s1 /\
                            sqrt_ok2 (bip (sinv (Gersh.last_diag A i)) (sinv (Gersh.last_diag A i)))) ->
  (forall i, i < nrows A -> Ax A v i = Gersh.last_diag A i * ((blk_embed S0 b lam : B) * vget v i)) ->
  (exists i, i < nrows A /\ vget v i <> s0) ->
  sle (sabs lam) (bgersh_spec S0 B bnrm true A).
Proof.
  intros Hwf Hsq Hok Hd. apply (bgersh_bound_scaled S0 B Hof (BlockS_ncring S0 b Srt0) bip (blk_embed S0 b) bnrm
    bip_add_l bip_sym bip_nonneg bip_zero bip_cs bip_submult bip_emb A v lam Hwf Hsq).
  - intros r e Hr He. apply norm_ok_of_sqrt. exact (Hok r e Hr He).
  - intros i Hi. destruct (Hd i Hi) as [H1 H2]. split; [exact H1|apply norm_ok_of_sqrt; exact H2].
Qed.

End BlockFrob.
