(* InverseTwoSided.v -- a right inverse of a square matrix over a field is a left inverse, and therefore
   the result of detail::inverse (Inverse.v; math::inverse of static_matrix<T,b,b>, BlockInst.v) is a
   TWO-SIDED inverse whenever the algorithm passes its assertion.  (C16 / A3; removes the hypothesis
   "sinv (sinv x) also succeeds" of NcRingBlockInv.BlockS_inv_two_sided.)

   Route ("injective => surjective" through the verified elimination itself, no dimension count):
     A B = I  =>  the columns of B are linearly independent   (InversePivot.left_inverse_nonsingular, X := A)
              =>  the pivoted Gauss-Jordan of Inverse.v run on B meets no zero pivot and returns C with B C = I
                                                               (InversePivot.inverse_nonsingular)
              =>  A = A (B C) = (A B) C = C                    (StaticMatProofs.fmul_assoc)
              =>  B A = B C = I.
   InversePivot.inverse_nonsingular needs an "order" only to know that the pivot search finds a non-zero entry
   of the remaining column when there is one.  EVERY field with decidable equality carries such an order:
   [PivS S] is S with   sabs x := if x == 0 then 0 else 1,   a < b := (a == 0) && (b != 0)
   (and sinv 0 := 0, which the field laws leave free); its field operations are those of S, so a statement
   about sums and products over [PivS S] IS the statement over S (conversion).  Hence the first theorem needs
   nothing but [Sfield S] and [seqb_spec S]:

     [right_inverse_is_left_inverse]   A B = I -> B A = I            (function-level n x n matrices)
     [nonsingular_has_two_sided_inverse]  linearly independent columns => a two-sided inverse exists
     [inverse_exact_left]              inverse n A t = Some B -> B A = I   (row-major arrays of Inverse.v)
     [inverse_of_inverse]              (order hypotheses of InversePivot.v) inverse n A t = Some B ->
                                       inverse n B t' = Some A  for every scratch array t'
     [BlockS_inv_left], [BlockS_inv_two_sided_field]
                                       sinv x <> 0 -> x * sinv x = 1 /\ sinv x * x = 1     at BlockS S0 b
     [BlockS_inv_involutive]           with the order hypotheses of InversePivot.v on S0 (true at QcS):
                                       sinv x <> 0 -> sinv (sinv x) <> 0 /\ sinv (sinv x) = x
                                       (inverse succeeds on A => it succeeds on inverse(A)). *)
From Amgcl Require Import Scalar Vec KernelsProofs DirectUtil Inverse StaticMat StaticMatProofs InverseExact
  InversePivot BlockInst NcRing NcRingBlock NcRingBlockInv.
Local Open Scope S_scope.

Local Notation delta i j := (if Nat.eqb i j then s1 else s0).

(* ================================================================================================= *)
(* 1. with the hypotheses of InversePivot.v *)
Section Ordered.
Context {S : Scalar}.
Hypothesis Sft : Sfield S.
Hypothesis Seqb : seqb_spec S.
Hypothesis sinv_0 : sinv (@s0 S) = s0.
Hypothesis Olt_irrefl : forall a : S, sltb a a = false.
Hypothesis Olt_trans : forall a b c : S, sltb a b = true -> sltb b c = true -> sltb a c = true.
Hypothesis Oabs_0 : sabs (@s0 S) = s0.
Hypothesis Oabs_pos : forall x : S, x <> s0 -> sltb s0 (sabs x) = true.
Let Srt : Sring S := F_R Sft.
Add Ring SRingI2 : Srt.

(* a matrix with a left inverse has a right inverse: the one detail::inverse computes *)
Lemma left_inverse_has_right_inverse n (A B : nat -> nat -> S) :
  (forall i j, i < n -> j < n -> sumn (fun k => A i k * B k j) n = delta i j) ->
  exists C : nat -> nat -> S, forall i j, i < n -> j < n -> sumn (fun k => B i k * C k j) n = delta i j.
Proof.
  intro HAB. set (Bv := sm_of_fun n n B).
  assert (LB : length Bv = (n * n)%nat) by apply sm_of_fun_length.
  assert (GB : forall i j, i < n -> j < n -> mat_get n Bv i j = B i j).
  { intros i j Hi Hj. exact (sm_of_fun_get n n B i j Hi Hj). }
  assert (Hns : nonsingular n Bv).
  { apply (left_inverse_nonsingular Sft n Bv A). intros i j Hi Hj. rewrite <- (HAB i j Hi Hj).
    apply sumn_ext. intros k Hk. rewrite GB by assumption. reflexivity. }
  destruct (inverse_nonsingular Sft Seqb sinv_0 Olt_irrefl Olt_trans Oabs_0 Oabs_pos n Bv Bv LB LB Hns)
    as (Cv & _ & HC).
  exists (mat_get n Cv). intros i j Hi Hj. rewrite <- (HC i j Hi Hj). unfold mat_mul_get.
  apply sumn_ext. intros k Hk. rewrite GB by assumption. reflexivity.
Qed.

(* a left inverse A and a right inverse C of the same matrix B agree (ring only) *)
Lemma inverses_agree n (A B C : nat -> nat -> S) :
  (forall i j, i < n -> j < n -> sumn (fun k => A i k * B k j) n = delta i j) ->
  (forall i j, i < n -> j < n -> sumn (fun k => B i k * C k j) n = delta i j) ->
  forall i j, i < n -> j < n -> A i j = C i j.
Proof.
  intros HAB HBC i j Hi Hj.
  transitivity (fmul n A (fmul n B C) i j).
  - unfold fmul at 1.
    transitivity (sumn (fun k => A i k * delta k j) n).
    + rewrite (sumn_delta_r Srt). destruct (Nat.ltb_spec j n); [reflexivity|lia].
    + apply sumn_ext. intros k Hk. unfold fmul. rewrite (HBC k j Hk Hj). reflexivity.
  - rewrite <- (fmul_assoc Srt). unfold fmul at 1.
    transitivity (sumn (fun k => delta i k * C k j) n).
    + apply sumn_ext. intros k Hk. unfold fmul. rewrite (HAB i k Hi Hk). reflexivity.
    + rewrite (sumn_delta_l Srt). destruct (Nat.ltb_spec i n); [reflexivity|lia].
Qed.

Lemma right_inverse_is_left_inverse_ord n (A B : nat -> nat -> S) :
  (forall i j, i < n -> j < n -> sumn (fun k => A i k * B k j) n = delta i j) ->
  forall i j, i < n -> j < n -> sumn (fun k => B i k * A k j) n = delta i j.
Proof.
  intro HAB. destruct (left_inverse_has_right_inverse n A B HAB) as (C & HBC).
  intros i j Hi Hj. rewrite <- (HBC i j Hi Hj). apply sumn_ext. intros k Hk.
  rewrite (inverses_agree n A B C HAB HBC k j Hk Hj). reflexivity.
Qed.

(* detail::inverse applied to its own result: no zero pivot is met, and the result is the original array
   (the scratch arrays t, t' are arbitrary: junk) *)
Theorem inverse_of_inverse n (A t Bm t' : vec S) :
  length A = (n * n)%nat -> length t = (n * n)%nat -> length t' = (n * n)%nat ->
  inverse n A t = Some Bm -> inverse n Bm t' = Some A.
Proof.
  intros LA Lt Lt' H.
  assert (LB : length Bm = (n * n)%nat) by (rewrite (inverse_len S n A t Bm H); exact Lt).
  pose proof (inverse_exact Sft Seqb sinv_0 n A LA t Bm Lt H) as HAB. unfold mat_mul_get in HAB.
  assert (Hns : nonsingular n Bm) by exact (left_inverse_nonsingular Sft n Bm (mat_get n A) HAB).
  destruct (inverse_nonsingular Sft Seqb sinv_0 Olt_irrefl Olt_trans Oabs_0 Oabs_pos n Bm t' LB Lt' Hns)
    as (Cv & EC & HBC).
  rewrite EC. f_equal. unfold mat_mul_get in HBC.
  assert (LC : length Cv = (n * n)%nat) by (rewrite (inverse_len S n Bm t' Cv EC); exact Lt').
  rewrite (sm_eta n n Cv LC), (sm_eta n n A LA). apply sm_of_fun_ext. intros i j Hi Hj. symmetry.
  exact (inverses_agree n (mat_get n A) (mat_get n Bm) (mat_get n Cv) HAB HBC i j Hi Hj).
Qed.

End Ordered.

(* ================================================================================================= *)
(* 2. every field with decidable equality: the pivot order "0 < everything else" *)
Section PivOrder.
Variable S : Scalar.

Definition piv_inv (x : S) : S := if seqb x s0 then s0 else sinv x.
Definition piv_abs (x : S) : S := if seqb x s0 then s0 else s1.
Definition piv_ltb (a c : S) : bool := seqb a s0 && negb (seqb c s0).

(* the field operations are those of S; division is re-expressed through piv_inv (equal to sdiv for
   every non-zero divisor, see PivS_field) *)
Definition PivS : Scalar :=
  mkScalar (T S) s0 s1 sadd smul ssub sopp (fun x y => x * piv_inv y) piv_inv sadj piv_abs ssqrt
           seqb piv_ltb seps sofQ.

Hypothesis Sft : Sfield S.
Hypothesis Seqb : seqb_spec S.

Lemma seqb_refl0 : seqb (@s0 S) s0 = true.
Proof. apply Seqb. reflexivity. Qed.

Lemma seqb_false (x y : S) : x <> y -> seqb x y = false.
Proof. intro H. destruct (seqb x y) eqn:E; [|reflexivity]. apply Seqb in E. contradiction. Qed.

Lemma PivS_field : Sfield PivS.
Proof.
  constructor.
  - exact (F_R Sft).
  - exact (F_1_neq_0 Sft).
  - intros p q. reflexivity.
  - intros p Hp. change (p <> @s0 S) in Hp. change (@smul S (piv_inv p) p = @s1 S). unfold piv_inv.
    rewrite (seqb_false p s0 Hp). exact (Finv_l Sft p Hp).
Qed.

Lemma PivS_eqb : seqb_spec PivS.
Proof. exact Seqb. Qed.

Lemma PivS_inv0 : sinv (@s0 PivS) = s0.
Proof. change (piv_inv (@s0 S) = s0). unfold piv_inv. rewrite seqb_refl0. reflexivity. Qed.

Lemma PivS_lt_irrefl : forall a : PivS, sltb a a = false.
Proof. intro a. change (piv_ltb a a = false). unfold piv_ltb. destruct (@seqb S a s0); reflexivity. Qed.

Lemma PivS_lt_trans : forall a c d : PivS, sltb a c = true -> sltb c d = true -> sltb a d = true.
Proof.
  intros a c d. change (piv_ltb a c = true -> piv_ltb c d = true -> piv_ltb a d = true). unfold piv_ltb.
  destruct (@seqb S a s0), (@seqb S c s0), (@seqb S d s0); cbn; congruence.
Qed.

Lemma PivS_abs_0 : sabs (@s0 PivS) = s0.
Proof. change (piv_abs (@s0 S) = s0). unfold piv_abs. rewrite seqb_refl0. reflexivity. Qed.

Lemma PivS_abs_pos : forall x : PivS, x <> s0 -> sltb s0 (sabs x) = true.
Proof.
  intros x Hx. change (piv_ltb (@s0 S) (piv_abs x) = true). change (x <> @s0 S) in Hx.
  unfold piv_ltb, piv_abs. rewrite seqb_refl0, (seqb_false x s0 Hx).
  rewrite (seqb_false s1 s0 (F_1_neq_0 Sft)). reflexivity.
Qed.

(* THE THEOREM: over a field, A B = I implies B A = I (n x n matrices as functions; entries outside
   [0,n) x [0,n) are never read) *)
Theorem right_inverse_is_left_inverse n (A B : nat -> nat -> S) :
  (forall i j, i < n -> j < n -> sumn (fun k => A i k * B k j) n = delta i j) ->
  forall i j, i < n -> j < n -> sumn (fun k => B i k * A k j) n = delta i j.
Proof.
  exact (right_inverse_is_left_inverse_ord (S := PivS) PivS_field PivS_eqb PivS_inv0 PivS_lt_irrefl PivS_lt_trans
           PivS_abs_0 PivS_abs_pos n A B).
Qed.

(* linearly independent columns (InversePivot.nonsingular) <=> a two-sided inverse exists, in every field with
   decidable equality; "<=" is InversePivot.left_inverse_nonsingular *)
Theorem nonsingular_has_two_sided_inverse n (A : vec S) : length A = (n * n)%nat -> nonsingular n A ->
  exists Bm : vec S, length Bm = (n * n)%nat /\
    (forall i j, i < n -> j < n -> mat_mul_get n A Bm i j = delta i j) /\
    (forall i j, i < n -> j < n -> mat_mul_get n Bm A i j = delta i j).
Proof.
  intros LA Hns.
  destruct (inverse_nonsingular (S := PivS) PivS_field PivS_eqb PivS_inv0 PivS_lt_irrefl PivS_lt_trans
              PivS_abs_0 PivS_abs_pos n A A LA LA Hns) as (Bm & EB & HAB).
  exists Bm. split; [exact (eq_trans (inverse_len PivS n A A Bm EB) LA)|]. split; [exact HAB|].
  unfold mat_mul_get. apply (right_inverse_is_left_inverse n (mat_get n A) (mat_get n Bm)). exact HAB.
Qed.

(* detail::inverse: the returned array is also a LEFT inverse *)
Hypothesis sinv_0 : sinv (@s0 S) = s0.

Theorem inverse_exact_left n (A t Bm : vec S) : length A = (n * n)%nat -> length t = (n * n)%nat ->
  inverse n A t = Some Bm ->
  forall i j, i < n -> j < n -> mat_mul_get n Bm A i j = delta i j.
Proof.
  intros LA Lt H. unfold mat_mul_get.
  apply (right_inverse_is_left_inverse n (mat_get n A) (mat_get n Bm)).
  exact (inverse_exact Sft Seqb sinv_0 n A LA t Bm Lt H).
Qed.

End PivOrder.

(* ================================================================================================= *)
(* 3. the block value type *)
Section BlockTwoSided.
Variable S0 : Scalar.
Variable b : nat.
Hypothesis Sft : Sfield S0.
Hypothesis Seqb : seqb_spec S0.
Hypothesis sinv_0 : sinv (@s0 S0) = s0.
Local Notation B := (BlockS S0 b).
Local Notation blk := (blk S0 b).

Lemma blk_mul_id_get (x y : blk) :
  blk_mul S0 b x y = blk_id S0 b <->
  (forall i j, i < b -> j < b -> sumn (fun k => blk_get x i k * blk_get y k j) b = delta i j).
Proof.
  split.
  - intros E i j Hi Hj. rewrite <- (blk_get_mul S0 b x y i j Hi Hj), E. apply blk_get_id; assumption.
  - intro H. apply (blk_ext_get S0 b). intros i j Hi Hj. rewrite blk_get_mul, blk_get_id by assumption.
    apply H; assumption.
Qed.

(* blocks: a right inverse is a left inverse *)
Theorem blk_right_inverse_is_left_inverse (x y : blk) :
  blk_mul S0 b x y = blk_id S0 b -> blk_mul S0 b y x = blk_id S0 b.
Proof.
  intro H. apply blk_mul_id_get. apply (right_inverse_is_left_inverse S0 Sft Seqb b). apply blk_mul_id_get. exact H.
Qed.

Theorem BlockS_inv_left (x : B) : sinv x <> s0 -> sinv x * x = s1.
Proof.
  intro H. apply blk_right_inverse_is_left_inverse. exact (BlockS_inv_right S0 b Sft Seqb sinv_0 x H).
Qed.

Theorem BlockS_inv_two_sided_field (x : B) : sinv x <> s0 -> x * sinv x = s1 /\ sinv x * x = s1.
Proof.
  intro H. split; [exact (BlockS_inv_right S0 b Sft Seqb sinv_0 x H)|exact (BlockS_inv_left x H)].
Qed.

(* ---- with the pivot order of InversePivot.v: inverse succeeds on A => it succeeds on inverse(A) ---- *)
Hypothesis Olt_irrefl : forall a : S0, sltb a a = false.
Hypothesis Olt_trans : forall a c d : S0, sltb a c = true -> sltb c d = true -> sltb a d = true.
Hypothesis Oabs_0 : sabs (@s0 S0) = s0.
Hypothesis Oabs_pos : forall x : S0, x <> s0 -> sltb s0 (sabs x) = true.

Lemma blk_inverse_of_left_inverse (x y : blk) :
  blk_mul S0 b x y = blk_id S0 b -> exists z, blk_inverse y = Some z.
Proof.
  intro H.
  assert (Hns : nonsingular b (blk_list y)).
  { apply (left_inverse_nonsingular Sft b (blk_list y) (blk_get x)).
    exact (proj1 (blk_mul_id_get x y) H). }
  destruct (inverse_nonsingular Sft Seqb sinv_0 Olt_irrefl Olt_trans Oabs_0 Oabs_pos b (blk_list y) (sm_zero b b)
              (blk_len S0 b y) (sm_zero_length b b) Hns) as (Cv & EC & _).
  pose proof (blk_inverse_eq S0 b y) as E. unfold sm_inverse in E. rewrite EC in E.
  destruct (blk_inverse y) as [z|]; [exists z; reflexivity|discriminate E].
Qed.

Theorem BlockS_inv_involutive (x : B) : sinv x <> s0 -> sinv (sinv x) <> s0 /\ sinv (sinv x) = x.
Proof.
  intro H. pose proof (BlockS_inv_right S0 b Sft Seqb sinv_0 x H) as R1.
  assert (H2 : sinv (sinv x) <> s0).
  { destruct (blk_inverse_of_left_inverse x (sinv x) R1) as (z & Ez).
    pose proof (blk_inverse_right S0 b Sft Seqb sinv_0 _ _ Ez) as R2.
    change (sinv (sinv x)) with (blk_inv S0 b (sinv x)). unfold blk_inv. rewrite Ez.
    intro Z. change (@s0 B) with (blk_zero S0 b) in Z. subst z.
    (* (sinv x) * 0 = I forces 0 = I, i.e. x * sinv x = I = 0 = sinv x ... : all blocks are equal *)
    pose proof (BlockS_ncring S0 b (F_R Sft)) as Hnc.
    apply H.
    transitivity (sinv x * (@s1 B)); [symmetry; apply (nc_mul_1_r _ Hnc)|].
    change (@s1 B) with (blk_id S0 b). rewrite <- R2.
    change (blk_mul S0 b (sinv x) (blk_zero S0 b)) with (sinv x * (@s0 B)).
    rewrite (nc_mul_0_r Hnc), (nc_mul_0_r Hnc). reflexivity. }
  split; [exact H2|].
  exact (proj2 (proj2 (BlockS_inv_two_sided S0 b Sft Seqb sinv_0 x H H2))).
Qed.

Theorem BlockS_inv_two_sided_ord (x : B) : sinv x <> s0 ->
  x * sinv x = s1 /\ sinv x * x = s1 /\ sinv (sinv x) <> s0 /\ sinv (sinv x) = x.
Proof.
  intro H. destruct (BlockS_inv_two_sided_field x H) as (R & L). destruct (BlockS_inv_involutive x H) as (N & I).
  repeat split; assumption.
Qed.

End BlockTwoSided.
