(* Properties_C13.v -- C13: block, complex and mixed-precision formulations solve the same
   system.  Statements only; proofs: BlockProofs.v, ComplexProofs.v.
   The mixed-precision clause (float preconditioner under a double solver reaches 1e-8) is a
   rounding statement: tested by tools/props/C13.py, not proved. *)
From Amgcl Require Import Scalar QcInst Vec Crs Kernels KernelsProofs MatOps Adapters AdaptersProofs BlockProofs ComplexProofs.
Local Open Scope S_scope.

Section Ring.
Variable S : Scalar.
Hypothesis Srt : Sring S.

(* A1: the block adapter (row iterator that merges b scalar rows, block_matrix.hpp:73-161)
   followed by unblock_matrix (173-232) gives back the same dense operator, for every block
   size, every scalar matrix with sorted rows and dimensions divisible by b -- structurally
   incomplete blocks included (their missing entries read as zero) *)
Theorem C13_unblock_block_dense (b : nat) (A : crs S) i j :
  0 < b -> nrows A mod b = 0 -> ncols A mod b = 0 ->
  Forall (fun r => sorted_strict r = true) (rows A) ->
  i < nrows A -> j < ncols A ->
  mget (unblock b (to_gcrs (block_adapter b (crs_view A)))) i j = mget A i j.
Proof. exact (unblock_block_dense Srt b A i j). Qed.

Theorem C13_unblock_block_dims (b : nat) (A : crs S) :
  0 < b -> nrows A mod b = 0 -> ncols A mod b = 0 ->
  nrows (unblock b (to_gcrs (block_adapter b (crs_view A)))) = nrows A /\
  ncols (unblock b (to_gcrs (block_adapter b (crs_view A)))) = ncols A.
Proof. exact (unblock_block_dims b A). Qed.

(* the dense reading of one produced block row (entries of equal block column add up) equals
   the dense reading of the b scalar rows it was merged from *)
Theorem C13_block_row_dense (b : nat) (rs : list (row S)) J i j :
  0 < b -> Forall (fun r => sorted_strict r = true) rs ->
  i < length rs -> j < b ->
  brget (block_row (total_len rs) b rs) J i j = rget (nth i rs []) (J * b + j).
Proof. intros Hb Hs. apply (block_row_dense Srt b Hb (total_len rs) rs Hs). apply le_n. Qed.

(* A2 (partial): the operator recovered from the block matrix has the same action A x.
   FULL STATEMENT (unproved): for the block product itself,
     of_blocks (bspmv_sums b (to_gcrs (block_adapter b (crs_view A))) (to_blocks b x))
       = map (fun r => dotrow r x) (rows A)
   under the same hypotheses plus wf A and length x = ncols A, i.e.
   spmv_block (block A) (chunks b x) = chunks b (spmv A x).  The block product is tied to the
   scalar product by the correspondence check (ops block / o.spmv_same) instead. *)
Theorem C13_block_action_partial (b : nat) (A : crs S) (x : vec S) i :
  0 < b -> nrows A mod b = 0 -> ncols A mod b = 0 ->
  Forall (fun r => sorted_strict r = true) (rows A) ->
  i < nrows A ->
  Ax (unblock b (to_gcrs (block_adapter b (crs_view A)))) x i = Ax A x i.
Proof. exact (unblock_block_Ax Srt b A x i). Qed.

(* A4: complex adapter.  [[a,-b],[b,a]] acting on (x,y) is (a+bi)(x+yi) ... *)
Theorem C13_complex_2x2 (a b x y : S) :
  (a * x + (- b) * y, b * x + a * y) = cmul (a, b) (x, y).
Proof. exact (complex_2x2 Srt a b x y). Qed.

(* ... and row 2i / 2i+1 of the real expansion applied to the interleaved vector are the real /
   imaginary part of complex row i applied to the complex vector: a solution of one system is
   a solution of the other *)
Theorem C13_complex_adapter_action (A : adapter (@cplx S)) (z : list (@cplx S)) i :
  dotrow (a_row (complex_adapter A) (2 * i)) (interleave z) = fst (cdotrow (a_row A i) z) /\
  dotrow (a_row (complex_adapter A) (2 * i + 1)) (interleave z) = snd (cdotrow (a_row A i) z).
Proof. exact (complex_row_action Srt A z i). Qed.
End Ring.

(* A3: the wrappers are re-chunking (term equality, any S) *)
Theorem C13_block_solver_is_rechunking (S : Scalar) b
  (inner : list (@bvec S) -> list (@bvec S) -> list (@bvec S)) (rhs x : vec S) :
  block_solver_apply b inner rhs x = of_blocks (inner (to_blocks b rhs) (to_blocks b x)).
Proof. exact (block_solver_is_rechunking b inner rhs x). Qed.
Print Assumptions C13_block_solver_is_rechunking.

Theorem C13_as_block_is_rechunking (S : Scalar) b inner (A : adapter S) (rhs x : vec S) :
  as_block_apply b inner A rhs x
  = of_blocks (inner (to_gcrs (block_adapter b A)) (to_blocks b rhs) (to_blocks b x)).
Proof. exact (as_block_is_rechunking b inner A rhs x). Qed.
Print Assumptions C13_as_block_is_rechunking.

Theorem C13_rechunk_roundtrip (S : Scalar) b (x : vec S) : 0 < b -> of_blocks (to_blocks b x) = x.
Proof. exact (rechunk_roundtrip b x). Qed.
Print Assumptions C13_rechunk_roundtrip.

(* closed at the exact rationals *)
Theorem C13_unblock_block_dense_Qc (b : nat) (A : crs QcS) i j :
  0 < b -> nrows A mod b = 0 -> ncols A mod b = 0 ->
  Forall (fun r => sorted_strict r = true) (rows A) ->
  i < nrows A -> j < ncols A ->
  mget (unblock b (to_gcrs (block_adapter b (crs_view A)))) i j = mget A i j.
Proof. exact (C13_unblock_block_dense QcS QcS_ring b A i j). Qed.
Print Assumptions C13_unblock_block_dense_Qc.

Theorem C13_complex_adapter_action_Qc (A : adapter (@cplx QcS)) (z : list (@cplx QcS)) i :
  dotrow (a_row (complex_adapter A) (2 * i)) (interleave z) = fst (cdotrow (a_row A i) z) /\
  dotrow (a_row (complex_adapter A) (2 * i + 1)) (interleave z) = snd (cdotrow (a_row A i) z).
Proof. exact (C13_complex_adapter_action QcS QcS_ring A z i). Qed.
Print Assumptions C13_complex_adapter_action_Qc.

(* non-vacuity: a structurally incomplete 2x2-block matrix (any Scalar) *)
Example C13_nonvacuous (S : Scalar) :
  let A : crs S := mkCrs 4 [[(0, s1); (3, s1)]; [(1, s1)]; [(2, s1)]; [(0, s1); (2, s1); (3, s1)]]%nat in
  Forall (fun r => sorted_strict r = true) (rows A) /\ nrows A mod 2 = 0 /\
  to_gcrs (block_adapter 2 (crs_view A)) =
  mkG 2 [[(0, [[s1; s0]; [s0; s1]]); (1, [[s0; s1]; [s0; s0]])];
         [(0, [[s0; s0]; [s1; s0]]); (1, [[s1; s0]; [s1; s1]])]]%nat.
Proof. cbv zeta. split; [repeat constructor|split; reflexivity]. Qed.
