(* Properties_C13.v -- C13: block, complex and mixed-precision formulations solve the same
   system.  Statements only; proofs: BlockProofs.v, BlockSpmv.v, ComplexProofs.v, MixedPrecision.v.
   The mixed-precision clause (float preconditioner under a double solver reaches 1e-8) is a
   rounding statement: tested by tools/props/C13.py, not proved; what IS proved about mixed precision
   (round 2b, end of file) is the exact-arithmetic part: the vector view is taken at the vector's Scalar,
   the block adapter commutes with the float -> double conversion, and so the block / hybrid products of a
   float block matrix with double vectors are the scalar products of the converted matrix. *)
From Amgcl Require Import Scalar QcInst Vec Crs Kernels KernelsProofs MatOps Adapters AdaptersProofs BlockProofs ComplexProofs
  BlockInst BlockSpmv MixedPrecision.
Local Open Scope S_scope.

Section Ring.
Variable S : Scalar.
Hypothesis Srt : Sring S.

(* A1: the block adapter (row iterator that merges b scalar rows, block_matrix.hpp:73-161)
   followed by unblock_matrix (173-232) gives back the same dense operator, for every block
   size, every scalar matrix with sorted rows and dimensions divisible by b -- structurally
   incomplete blocks included (their missing entries read as zero) *)
Theorem C13_unblock_block_dense (b : nat) (A : crs S) i j :
  0 < b -> nrows A mod b = 0 -> ncols A mod b = 0 ->
  Forall (fun r => sorted_strict r = true) (rows A) ->
  i < nrows A -> j < ncols A ->
  mget (unblock b (to_gcrs (block_adapter b (crs_view A)))) i j = mget A i j.
Proof. exact (unblock_block_dense Srt b A i j). Qed.

Theorem C13_unblock_block_dims (b : nat) (A : crs S) :
  0 < b -> nrows A mod b = 0 -> ncols A mod b = 0 ->
  nrows (unblock b (to_gcrs (block_adapter b (crs_view A)))) = nrows A /\
  ncols (unblock b (to_gcrs (block_adapter b (crs_view A)))) = ncols A.
Proof. exact (unblock_block_dims b A). Qed.

(* the dense reading of one produced block row (entries of equal block column add up) equals
   the dense reading of the b scalar rows it was merged from *)
Theorem C13_block_row_dense (b : nat) (rs : list (row S)) J i j :
  0 < b -> Forall (fun r => sorted_strict r = true) rs ->
  i < length rs -> j < b ->
  brget (block_row (total_len rs) b rs) J i j = rget (nth i rs []) (J * b + j).
Proof. intros Hb Hs. apply (block_row_dense Srt b Hb (total_len rs) rs Hs). apply le_n. Qed.

(* A2, dense form: the operator recovered from the block matrix has the same action A x.
   (Name kept from round 1; the FULL statement about the block product itself --
   spmv_block (block A) (chunks b x) = chunks b (spmv A x) -- is C13_block_spmv below.) *)
Theorem C13_block_action_partial (b : nat) (A : crs S) (x : vec S) i :
  0 < b -> nrows A mod b = 0 -> ncols A mod b = 0 ->
  Forall (fun r => sorted_strict r = true) (rows A) ->
  i < nrows A ->
  Ax (unblock b (to_gcrs (block_adapter b (crs_view A)))) x i = Ax A x i.
Proof. exact (unblock_block_Ax Srt b A x i). Qed.

(* A4: complex adapter.  [[a,-b],[b,a]] acting on (x,y) is (a+bi)(x+yi) ... *)
Theorem C13_complex_2x2 (a b x y : S) :
  (a * x + (- b) * y, b * x + a * y) = cmul (a, b) (x, y).
Proof. exact (complex_2x2 Srt a b x y). Qed.

(* ... and row 2i / 2i+1 of the real expansion applied to the interleaved vector are the real /
   imaginary part of complex row i applied to the complex vector: a solution of one system is
   a solution of the other *)
Theorem C13_complex_adapter_action (A : adapter (@cplx S)) (z : list (@cplx S)) i :
  dotrow (a_row (complex_adapter A) (2 * i)) (interleave z) = fst (cdotrow (a_row A i) z) /\
  dotrow (a_row (complex_adapter A) (2 * i + 1)) (interleave z) = snd (cdotrow (a_row A i) z).
Proof. exact (complex_row_action Srt A z i). Qed.
End Ring.

(* A3: the wrappers are re-chunking (term equality, any S) *)
Theorem C13_block_solver_is_rechunking (S : Scalar) b
  (inner : list (@bvec S) -> list (@bvec S) -> list (@bvec S)) (rhs x : vec S) :
  block_solver_apply b inner rhs x = of_blocks (inner (to_blocks b rhs) (to_blocks b x)).
Proof. exact (block_solver_is_rechunking b inner rhs x). Qed.
Print Assumptions C13_block_solver_is_rechunking.

Theorem C13_as_block_is_rechunking (S : Scalar) b inner (A : adapter S) (rhs x : vec S) :
  as_block_apply b inner A rhs x
  = of_blocks (inner (to_gcrs (block_adapter b A)) (to_blocks b rhs) (to_blocks b x)).
Proof. exact (as_block_is_rechunking b inner A rhs x). Qed.
Print Assumptions C13_as_block_is_rechunking.

Theorem C13_rechunk_roundtrip (S : Scalar) b (x : vec S) : 0 < b -> of_blocks (to_blocks b x) = x.
Proof. exact (rechunk_roundtrip b x). Qed.
Print Assumptions C13_rechunk_roundtrip.


(* A2, FULL: the block product itself.  The left-hand side is literally [Kernels.spmv] -- the model
   of the one spmv_impl of the builtin backend (matrix_ops.hpp:47-116) -- at the Scalar instance
   [BlockS S0 b] = static_matrix<T,b,b> (BlockInst.v), applied to the model of what
   adapter::block_matrix<static_matrix<T,b,b>> yields ([block_matrix] = Adapters.block_adapter copied
   into a CRS of blocks) and to the vectors re-interpreted by backend::reinterpret_as_rhs
   ([as_rhs]: groups of b scalars as static_matrix<T,b,1>); alpha and beta are scalar_type.
   It equals the re-interpreted SCALAR spmv for every b > 0 and every scalar matrix with strictly
   sorted rows whose row count is divisible by b: structurally incomplete blocks, rows of one block
   row touching different block columns (the shape that exposed seeded C13-1), columns out of range
   and vectors of any length included.  No hypothesis on the number of columns is needed. *)
Theorem C13_block_spmv (S0 : Scalar) (b : nat) (Srt : Sring S0) (Hb : 0 < b) (Seqb : seqb_spec S0)
  (alpha beta : S0) (A : crs S0) (x y : vec S0) :
  nrows A mod b = 0 -> Forall (fun r => sorted_strict r = true) (rows A) -> length y = nrows A ->
  spmv (S:=BlockS S0 b) (blk_embed S0 b alpha) (block_matrix S0 b A) (as_rhs S0 b x)
       (blk_embed S0 b beta) (as_rhs S0 b y)
  = as_rhs S0 b (spmv alpha A x beta y).
Proof. exact (block_spmv_full S0 b Srt Hb Seqb alpha beta A x y). Qed.
Print Assumptions C13_block_spmv.

(* the same for the bare row products (no coefficient, no is_zero test: needs no decidable equality) *)
Theorem C13_block_spmv_rows (S0 : Scalar) (b : nat) (Srt : Sring S0) (Hb : 0 < b) (A : crs S0) (x : vec S0) :
  nrows A mod b = 0 -> Forall (fun r => sorted_strict r = true) (rows A) ->
  map (fun r => dotrow (S:=BlockS S0 b) r (as_rhs S0 b x)) (rows (block_matrix S0 b A))
  = as_rhs S0 b (map (fun r => dotrow r x) (rows A)).
Proof. exact (block_spmv_rows S0 b Srt Hb A x). Qed.
Print Assumptions C13_block_spmv_rows.

(* ... and for backend::residual: the block residual is the re-interpreted scalar residual, so a
   block formulation that reports / reaches a zero residual has solved the SCALAR system *)
Theorem C13_block_residual (S0 : Scalar) (b : nat) (Srt : Sring S0) (Hb : 0 < b) (A : crs S0) (f x r : vec S0) :
  nrows A mod b = 0 -> Forall (fun r => sorted_strict r = true) (rows A) ->
  length f = nrows A -> length r = nrows A ->
  residual (S:=BlockS S0 b) (as_rhs S0 b f) (block_matrix S0 b A) (as_rhs S0 b x) (as_rhs S0 b r)
  = as_rhs S0 b (residual f A x r).
Proof. exact (block_residual_full S0 b Srt Hb A f x r). Qed.
Print Assumptions C13_block_residual.

(* A3: backend::builtin_hybrid stores the matrix in block format (copy_matrix = block_matrix of the
   scalar matrix, builtin_hybrid.hpp:52-56) and keeps scalar vectors; its spmv / residual
   (matrix_ops.hpp:120-170: reinterpret the vectors, run the block kernel in place) ARE the scalar
   spmv / residual.  The same statement covers make_block_solver, as_block and as_scalar: the block
   operator they hand to the inner object acts on re-chunked vectors as the scalar matrix does. *)
Theorem C13_hybrid_spmv_is_scalar (S0 : Scalar) (b : nat) (Srt : Sring S0) (Hb : 0 < b) (Seqb : seqb_spec S0)
  (alpha beta : S0) (A : crs S0) (x y : vec S0) :
  nrows A mod b = 0 -> Forall (fun r => sorted_strict r = true) (rows A) -> length y = nrows A ->
  hybrid_spmv S0 b alpha (block_matrix S0 b A) x beta y = spmv alpha A x beta y.
Proof. exact (hybrid_spmv_is_scalar S0 b Srt Hb Seqb alpha beta A x y). Qed.
Print Assumptions C13_hybrid_spmv_is_scalar.

Theorem C13_hybrid_residual_is_scalar (S0 : Scalar) (b : nat) (Srt : Sring S0) (Hb : 0 < b) (A : crs S0) (f x r : vec S0) :
  nrows A mod b = 0 -> Forall (fun r => sorted_strict r = true) (rows A) ->
  length f = nrows A -> length r = nrows A ->
  hybrid_residual S0 b f (block_matrix S0 b A) x r = residual f A x r.
Proof. exact (hybrid_residual_is_scalar S0 b Srt Hb A f x r). Qed.
Print Assumptions C13_hybrid_residual_is_scalar.

(* re-interpretation of a vector whose length is a multiple of b is lossless *)
Theorem C13_reinterpret_roundtrip (S0 : Scalar) (b : nat) (Hb : 0 < b) (v : vec S0) n :
  length v = (n * b)%nat -> of_rhs S0 b (as_rhs S0 b v) = v.
Proof. exact (of_as_rhs S0 b Hb v n). Qed.
Print Assumptions C13_reinterpret_roundtrip.

(* closed at the exact rationals *)
Theorem C13_unblock_block_dense_Qc (b : nat) (A : crs QcS) i j :
  0 < b -> nrows A mod b = 0 -> ncols A mod b = 0 ->
  Forall (fun r => sorted_strict r = true) (rows A) ->
  i < nrows A -> j < ncols A ->
  mget (unblock b (to_gcrs (block_adapter b (crs_view A)))) i j = mget A i j.
Proof. exact (C13_unblock_block_dense QcS QcS_ring b A i j). Qed.
Print Assumptions C13_unblock_block_dense_Qc.

Theorem C13_complex_adapter_action_Qc (A : adapter (@cplx QcS)) (z : list (@cplx QcS)) i :
  dotrow (a_row (complex_adapter A) (2 * i)) (interleave z) = fst (cdotrow (a_row A i) z) /\
  dotrow (a_row (complex_adapter A) (2 * i + 1)) (interleave z) = snd (cdotrow (a_row A i) z).
Proof. exact (C13_complex_adapter_action QcS QcS_ring A z i). Qed.
Print Assumptions C13_complex_adapter_action_Qc.


Theorem C13_block_spmv_Qc (b : nat) (Hb : 0 < b) (alpha beta : QcS) (A : crs QcS) (x y : vec QcS) :
  nrows A mod b = 0 -> Forall (fun r => sorted_strict r = true) (rows A) -> length y = nrows A ->
  spmv (S:=BlockS QcS b) (blk_embed QcS b alpha) (block_matrix QcS b A) (as_rhs QcS b x)
       (blk_embed QcS b beta) (as_rhs QcS b y)
  = as_rhs QcS b (spmv alpha A x beta y).
Proof. exact (C13_block_spmv QcS b QcS_ring Hb QcS_eqb alpha beta A x y). Qed.
Print Assumptions C13_block_spmv_Qc.

Theorem C13_hybrid_spmv_is_scalar_Qc (b : nat) (Hb : 0 < b) (alpha beta : QcS) (A : crs QcS) (x y : vec QcS) :
  nrows A mod b = 0 -> Forall (fun r => sorted_strict r = true) (rows A) -> length y = nrows A ->
  hybrid_spmv QcS b alpha (block_matrix QcS b A) x beta y = spmv alpha A x beta y.
Proof. exact (C13_hybrid_spmv_is_scalar QcS b QcS_ring Hb QcS_eqb alpha beta A x y). Qed.
Print Assumptions C13_hybrid_spmv_is_scalar_Qc.

(* non-vacuity: a structurally incomplete 2x2-block matrix (any Scalar) *)
Example C13_nonvacuous (S : Scalar) :
  let A : crs S := mkCrs 4 [[(0, s1); (3, s1)]; [(1, s1)]; [(2, s1)]; [(0, s1); (2, s1); (3, s1)]]%nat in
  Forall (fun r => sorted_strict r = true) (rows A) /\ nrows A mod 2 = 0 /\
  to_gcrs (block_adapter 2 (crs_view A)) =
  mkG 2 [[(0, [[s1; s0]; [s0; s1]]); (1, [[s0; s1]; [s0; s0]])];
         [(0, [[s0; s0]; [s1; s0]]); (1, [[s1; s0]; [s1; s1]])]]%nat.
Proof. cbv zeta. split; [repeat constructor|split; reflexivity]. Qed.

(* non-vacuity of C13_block_spmv: the same matrix (row 0 touches block columns 0 and 1, row 1 only
   block column 0), computed at the block instance over the exact rationals *)
Example C13_block_spmv_nonvacuous :
  let A : crs QcS := mkCrs 4 [[(0, s1); (3, s1)]; [(1, s1)]; [(2, s1)]; [(0, s1); (2, s1); (3, s1)]]%nat in
  let x : vec QcS := [s1; s1 + s1; s1 + s1 + s1; s1 + s1 + s1 + s1] in
  nrows A mod 2 = 0 /\ Forall (fun r => sorted_strict r = true) (rows A) /\
  of_rhs QcS 2 (spmv (S:=BlockS QcS 2) (blk_embed QcS 2 s1) (block_matrix QcS 2 A) (as_rhs QcS 2 x)
                     (blk_embed QcS 2 s0) (as_rhs QcS 2 [s0; s0; s0; s0]))
  = spmv s1 A x s0 [s0; s0; s0; s0].
Proof. cbv zeta. split; [reflexivity|]. split; [repeat constructor|]. vm_compute. reflexivity. Qed.

(* ================================================================ round 2b: mixed precision x re-interpretation
   (seeded change C13-2).  Two Scalars: matrix values in Sm (float), vectors in Sv (double), conversion
   up : Sm -> Sv with up 0 = 0.  The models have ONE Scalar; these theorems say what that means for a
   mixed-precision run: the view backend::reinterpret_as_rhs is BlockSpmv.as_rhs AT Sv (builtin.hpp: the rhs
   type of the matrix block with its scalar REPLACED by the vector's scalar -- [as_rhs Sv b] has no argument
   through which the matrix precision could enter), and the float block matrix enters the product through
   the conversion of its entries.  Rounding is not modelled (exact arithmetic; tied on data where neither
   precision rounds: tools/props/C13.py, group MK). *)

(* the block adapter commutes with the conversion: it compares column indices only and fills the missing
   entries of incomplete blocks with zeros *)
Theorem C13_block_adapter_commutes_with_precision (Sm Sv : Scalar) (up : Sm -> Sv) (up0 : up s0 = s0) (b : nat) (A : crs Sm) :
  to_gcrs (block_adapter b (crs_view (up_crs Sm Sv up A)))
  = up_gcrs Sm Sv up (to_gcrs (block_adapter b (crs_view A))).
Proof. exact (block_adapter_map Sm Sv up up0 b A). Qed.
Print Assumptions C13_block_adapter_commutes_with_precision.

(* the float block matrix, entries promoted = the block matrix of the promoted scalar matrix *)
Theorem C13_mixed_precision_block_matrix (Sm Sv : Scalar) (up : Sm -> Sv) (up0 : up s0 = s0) (b : nat) (A : crs Sm) :
  promoted_block_matrix Sm Sv up b A = block_matrix Sv b (up_crs Sm Sv up A).
Proof. exact (promoted_block_matrix_is_block_matrix Sm Sv up up0 b A). Qed.
Print Assumptions C13_mixed_precision_block_matrix.

(* C13_hybrid_spmv_is_scalar at mixed precision: builtin_hybrid<float block> matrix, Sv scalar vectors *)
Theorem C13_mixed_precision_view (Sm Sv : Scalar) (up : Sm -> Sv) (up0 : up s0 = s0) (b : nat) (Srt : Sring Sv) (Hb : 0 < b)
  (Seqb : seqb_spec Sv) (alpha beta : Sv) (A : crs Sm) (x y : vec Sv) :
  nrows A mod b = 0 -> Forall (fun r => sorted_strict r = true) (rows A) -> length y = nrows A ->
  hybrid_spmv Sv b alpha (promoted_block_matrix Sm Sv up b A) x beta y = spmv alpha (up_crs Sm Sv up A) x beta y.
Proof. exact (mixed_hybrid_spmv_is_scalar Sm Sv up up0 b Srt Hb Seqb alpha beta A x y). Qed.
Print Assumptions C13_mixed_precision_view.

Theorem C13_mixed_precision_hybrid_residual (Sm Sv : Scalar) (up : Sm -> Sv) (up0 : up s0 = s0) (b : nat) (Srt : Sring Sv) (Hb : 0 < b)
  (A : crs Sm) (f x r : vec Sv) :
  nrows A mod b = 0 -> Forall (fun r => sorted_strict r = true) (rows A) ->
  length f = nrows A -> length r = nrows A ->
  hybrid_residual Sv b f (promoted_block_matrix Sm Sv up b A) x r = residual f (up_crs Sm Sv up A) x r.
Proof. exact (mixed_hybrid_residual_is_scalar Sm Sv up up0 b Srt Hb A f x r). Qed.
Print Assumptions C13_mixed_precision_hybrid_residual.

(* C13_block_spmv at mixed precision: crs<float block> and vectors re-interpreted by the caller
   (make_block_solver, relaxation::as_block) *)
Theorem C13_mixed_precision_block_spmv (Sm Sv : Scalar) (up : Sm -> Sv) (up0 : up s0 = s0) (b : nat) (Srt : Sring Sv) (Hb : 0 < b)
  (Seqb : seqb_spec Sv) (alpha beta : Sv) (A : crs Sm) (x y : vec Sv) :
  nrows A mod b = 0 -> Forall (fun r => sorted_strict r = true) (rows A) -> length y = nrows A ->
  spmv (S:=BlockS Sv b) (blk_embed Sv b alpha) (promoted_block_matrix Sm Sv up b A) (as_rhs Sv b x)
       (blk_embed Sv b beta) (as_rhs Sv b y)
  = as_rhs Sv b (spmv alpha (up_crs Sm Sv up A) x beta y).
Proof. exact (mixed_block_spmv Sm Sv up up0 b Srt Hb Seqb alpha beta A x y). Qed.
Print Assumptions C13_mixed_precision_block_spmv.

(* closed instance / non-vacuity: vectors over the exact rationals, matrix values in any Scalar that embeds
   into them -- here the rationals themselves with the identity conversion *)
Theorem C13_mixed_precision_view_Qc (b : nat) (Hb : 0 < b) (alpha beta : QcS) (A : crs QcS) (x y : vec QcS) :
  nrows A mod b = 0 -> Forall (fun r => sorted_strict r = true) (rows A) -> length y = nrows A ->
  hybrid_spmv QcS b alpha (promoted_block_matrix QcS QcS (fun v => v) b A) x beta y
  = spmv alpha (up_crs QcS QcS (fun v => v) A) x beta y.
Proof. exact (C13_mixed_precision_view QcS QcS (fun v => v) eq_refl b QcS_ring Hb QcS_eqb alpha beta A x y). Qed.
Print Assumptions C13_mixed_precision_view_Qc.
