(* OneInverseExamples.v -- non-vacuity witnesses for the "one inverse" block theorems of InverseTwoSidedUses.v
   (exported as C06_nc_*_one_inverse / C12_nc_*_one_inverse): block matrices whose diagonal block is WZ5's
   non-symmetric 3 x 3 block X = [[0,2,1],[1,1,0],[3,0,1]] (det -5; its (0,0) entry is zero and the pivot search of
   column 0 selects row 2, so detail::inverse exchanges rows -- Properties_C16.C16_inverse_two_sided_nonvacuous).
   Only computations; no new mathematics. *)
From Coq Require Import QArith Qcanon Lia List.
Import ListNotations.
From Amgcl Require Import Scalar QcInst Vec Crs Kernels KernelsProofs MatOps MatOpsProofs Aggregates Coarsen CoarsenProofs
  Dist DistProofs DistSa DistSaPtent DistSaProofs DistSaNcConn NcRing NcKernels
  BlockInst NcRingBlock NcRingBlockInv DistSaNc Inverse InverseTwoSided InverseTwoSidedUses
  Relax Ilu IluProofs BlockRelaxProofsIlu BlockIlu0Exact BlockIluClosed.
Local Close Scope Q_scope.
Local Close Scope Qc_scope.
Local Open Scope nat_scope.
Local Open Scope S_scope.

Definition B3 : Scalar := BlockS QcS 3.
Definition mkb3 (l : list Z) : B3 := blk_of_list QcS 3 (map (fun z => qc z 1) l).
Definition oi_X : B3 := mkb3 [0; 2; 1;  1; 1; 0;  3; 0; 1]%Z.
Definition oi_a : B3 := mkb3 [0; 0; 0;  1; 1; 0;  0; 0; 0]%Z.
Definition oi_c : B3 := mkb3 [0; 1; 0;  0; 0; 0;  0; 0; 1]%Z.
Definition oi_I : B3 := mkb3 [1; 0; 0;  0; 1; 0;  0; 0; 1]%Z.
Definition oi_0 : B3 := mkb3 [0; 0; 0;  0; 0; 0;  0; 0; 0]%Z.
Definition oi_omega : B3 := blk_embed QcS 3 (qc 1 2).

Lemma B3_neq (x y : B3) : seqb x y = false -> x <> y.
Proof. exact (nc_seqb_false_neq B3 (BlockS_eqb QcS 3 QcS_eqb) x y). Qed.

Lemma B3_eq (x y : B3) : seqb x y = true -> x = y.
Proof. exact (proj1 (BlockS_eqb QcS 3 QcS_eqb x y)). Qed.

Lemma oi_X_row_swap_nonsymmetric :
  find_pivot 3 (blk_list oi_X) (seq 0 3) 0 = 2 /\ seqb (sadj oi_X) oi_X = false /\ sinv oi_X <> s0.
Proof. split; [vm_compute; reflexivity|]. split; [vm_compute; reflexivity|]. apply B3_neq. vm_compute. reflexivity. Qed.

(* ---------------- C06: block tridiagonal ILU(0) --------------------------------------------------------------
        W = [ X  a  . ]      a = [0 0 0; 1 1 0; 0 0 0],  c = [0 1 0; 0 0 0; 0 0 1]   (X a <> a X)
            [ c  X  I ]      xs = three static_matrix<Q,3,1> entries (column-0 blocks), rhs = W xs
            [ .  c  X ]                                                                                         *)
Definition oi_W : crs B3 := mkCrs 3 [ [(0, oi_X); (1, oi_a)]; [(0, oi_c); (1, oi_X); (2, oi_I)]; [(1, oi_c); (2, oi_X)] ].
Definition oi_col (l : list Z) : B3 := blk_col QcS 3 (map (fun z => qc z 1) l).
Definition oi_xs : vec B3 := [oi_col [1; -2; 3]%Z; oi_col [3; 1; 0]%Z; oi_col [-1; 4; 2]%Z].
Definition oi_rhs : vec B3 := map (fun r => dotrow r oi_xs) (rows oi_W).
Definition oi_veq (x y : vec B3) : bool :=
  Nat.eqb (length x) (length y) && forallb (fun p => seqb (fst p) (snd p)) (combine x y).

Definition oi_LUD : crs B3 * crs B3 * vec B3 :=
  match ilu0 oi_W [] with Ok r => r | Err _ => (mkCrs 0 [], mkCrs 0 [], []) end.
Definition oi_L : crs B3 := fst (fst oi_LUD).
Definition oi_U : crs B3 := snd (fst oi_LUD).
Definition oi_D : vec B3 := snd oi_LUD.

Lemma oi_W_tridiagonal : tridiagonal oi_W.
Proof.
  intros i c Hi H. change (nrows oi_W) with 3 in Hi.
  destruct i as [|[|[|i]]]; [| | |lia]; destruct c as [|[|[|c]]]; cbn in H; try discriminate H; lia.
Qed.

Lemma oi_ilu0_ok : ilu0 oi_W [] = Ok (oi_L, oi_U, oi_D).
Proof.
  assert (C : match ilu0 oi_W [] with Ok _ => true | Err _ => false end = true) by (vm_compute; reflexivity).
  unfold oi_L, oi_U, oi_D, oi_LUD. destruct (ilu0 oi_W []) as [[[L U] D]|e]; [reflexivity|discriminate C].
Qed.

Lemma oi_ilu0_one_inverse_nonvacuous :
  wf oi_W = true /\ ncols oi_W = nrows oi_W /\
  (forall i, i < nrows oi_W -> sorted_strict (nth i (rows oi_W) []) = true) /\
  has_diag oi_W = true /\ tridiagonal oi_W /\ pat_closed oi_W /\
  length oi_rhs = nrows oi_W /\
  oi_X * oi_a <> oi_a * oi_X /\
  ilu0 oi_W [] = Ok (oi_L, oi_U, oi_D) /\
  (forall k, k < nrows oi_W -> vget oi_D k <> s0) /\
  vget oi_D 0 = sinv oi_X /\ mget oi_L 1 0 = oi_c * sinv oi_X /\ mget oi_L 1 0 <> sinv oi_X * oi_c /\
  (forall i j, i < nrows oi_W -> has_col j (nth i (rows oi_W) []) = true ->
     seqb (lu_entry oi_L oi_U oi_D i j) (mget oi_W i j) = true) /\
  oi_veq (ilu_apply oi_L oi_U oi_D oi_rhs [s0; s0; s0]) oi_xs = true.
Proof.
  split; [vm_compute; reflexivity|]. split; [reflexivity|].
  split; [intros i Hi; change (nrows oi_W) with 3 in Hi; destruct i as [|[|[|i]]]; [vm_compute; reflexivity ..|lia]|].
  split; [vm_compute; reflexivity|]. split; [exact oi_W_tridiagonal|].
  split; [apply tridiagonal_pat_closed; [vm_compute; reflexivity|exact oi_W_tridiagonal]|].
  split; [reflexivity|]. split; [apply B3_neq; vm_compute; reflexivity|].
  split; [exact oi_ilu0_ok|].
  split; [intros k Hk; change (nrows oi_W) with 3 in Hk; apply B3_neq;
          destruct k as [|[|[|k]]]; [vm_compute; reflexivity ..|lia]|].
  split; [apply B3_eq; vm_compute; reflexivity|]. split; [apply B3_eq; vm_compute; reflexivity|].
  split; [apply B3_neq; vm_compute; reflexivity|].
  split; [|vm_compute; reflexivity].
  intros i j Hi Hj. change (nrows oi_W) with 3 in Hi.
  destruct i as [|[|[|i]]]; [| | |lia]; destruct j as [|[|[|j]]]; cbn in Hj; try discriminate Hj;
    vm_compute; reflexivity.
Qed.

(* ---------------- C12: distributed smoothed aggregation -------------------------------------------------------
   3 block rows on the ranks [2; 0; 1] (rank 1 is empty), the 3 x 3 analogue of DistSaNc.sw_A:
        A = [ X  a  c ]     row 0 has a strong LOCAL off-diagonal entry (column 1) and a strong REMOTE one (column 2),
            [ .  X  . ]     eps_strong = 0, P_tent = I, omega = 1/2; the filtered diagonal of row 0 is X itself, whose
            [ .  .  X ]     inversion exchanges rows                                                                  *)
Definition oi_A : crs B3 := mkCrs 3 [[(0, oi_X); (1, oi_a); (2, oi_c)]; [(1, oi_X)]; [(2, oi_X)]].
Definition oi_Pt : crs B3 := mkCrs 3 [[(0, oi_I)]; [(1, oi_I)]; [(2, oi_I)]].
Definition oi_parts : list nat := [2; 0; 1].

Lemma oi_dist_sa_one_inverse_nonvacuous :
  psum oi_parts = nrows oi_A /\ ncols oi_A = nrows oi_A /\ wf oi_A = true /\
  length oi_parts = length oi_parts /\ psum oi_parts = nrows oi_Pt /\ 0 < nrows oi_A /\
  diag_count 0 (nth 0 (rows oi_A) []) = 1 /\
  sa_D oi_A (conn_flags _ oi_0 oi_A oi_0) 0 = oi_X /\
  find_pivot 3 (blk_list (sa_D oi_A (conn_flags _ oi_0 oi_A oi_0) 0)) (seq 0 3) 0 = 2 /\
  sinv (sa_D oi_A (conn_flags _ oi_0 oi_A oi_0) 0) <> s0 /\
  forallb (fun j => seqb (mget (assemble (dist_sa_smooth oi_0 oi_0 oi_omega (split oi_A oi_parts oi_parts)
                                                         (split oi_Pt oi_parts oi_parts))) 0 j)
                         (sa_formula oi_omega oi_A (conn_flags _ oi_0 oi_A oi_0) oi_Pt 0 j)) [0; 1; 2] = true /\
  seqb (mget (assemble (dist_sa_smooth oi_0 oi_0 oi_omega (split oi_A oi_parts oi_parts) (split oi_Pt oi_parts oi_parts))) 0 1)
       (s0 - oi_omega * (sinv oi_X * oi_a)) = true /\
  seqb (mget (assemble (dist_sa_smooth oi_0 oi_0 oi_omega (split oi_A oi_parts oi_parts) (split oi_Pt oi_parts oi_parts))) 0 2)
       (s0 - oi_omega * (oi_c * sinv oi_X)) = false.
Proof.
  repeat (split; [vm_compute; try reflexivity; lia|]).
  split; [apply B3_eq; vm_compute; reflexivity|].
  split; [vm_compute; reflexivity|].
  split; [apply B3_neq; vm_compute; reflexivity|].
  vm_compute. repeat split; reflexivity.
Qed.
