(* NcRingBlock.v -- static_matrix<T,b,b> blocks over a commutative ring form a non-commutative
   ring: [ncring_theory (BlockS S0 b)] from [Sring S0] (re-using the list identities of
   StaticMatProofs.v; the well-formedness side conditions length = b*b are discharged by the
   carrier of BlockS).  Plus: decidable equality, the embeddings of base scalars (central) and of
   static_matrix<T,b,1> vectors (column-0 blocks; closed under +, -, unary -, LEFT products). *)
From Coq Require Import Eqdep_dec.
From Amgcl Require Import Scalar Vec KernelsProofs DirectUtil Inverse StaticMat StaticMatProofs BlockInst NcRing.
Local Open Scope S_scope.

Section BlockRing.
Variable S0 : Scalar.
Variable b : nat.
Hypothesis Srt : Sring S0.
Add Ring SRingBlk : Srt.
Local Notation B := (BlockS S0 b).
Local Notation blk := (blk S0 b).

(* two blocks with the same buffer are equal (the length proof is unique: UIP on nat) *)
Lemma blk_ext (x y : blk) : blk_list x = blk_list y -> x = y.
Proof.
  destruct x as [x Hx], y as [y Hy]; simpl. intros ->.
  f_equal. apply UIP_dec. apply Nat.eq_dec.
Qed.
Lemma blk_len (x : blk) : length (blk_list x) = (b * b)%nat.
Proof. exact (proj2_sig x). Qed.

(* cell-wise extensionality *)
Lemma blk_ext_get (x y : blk) :
  (forall i j, i < b -> j < b -> blk_get x i j = blk_get y i j) -> x = y.
Proof. intro H. apply blk_ext. apply (sm_ext b b); try apply blk_len. exact H. Qed.

(* cells of the operations *)
Lemma blk_get_of_fun (f : nat -> nat -> S0) i j : i < b -> j < b -> blk_get (blk_of_fun S0 b f) i j = f i j.
Proof. intros. unfold blk_get; simpl. apply sm_of_fun_get; assumption. Qed.
Lemma blk_get_add (x y : blk) i j : i < b -> j < b -> blk_get (blk_add S0 b x y) i j = blk_get x i j + blk_get y i j.
Proof. intros. unfold blk_get; simpl. apply (sm_add_get b b); try apply blk_len; assumption. Qed.
Lemma blk_get_sub (x y : blk) i j : i < b -> j < b -> blk_get (blk_sub S0 b x y) i j = blk_get x i j - blk_get y i j.
Proof. intros. unfold blk_get; simpl. apply (sm_sub_get b b); try apply blk_len; assumption. Qed.
Lemma blk_get_neg (x : blk) i j : i < b -> j < b -> blk_get (blk_neg S0 b x) i j = - blk_get x i j.
Proof. intros. unfold blk_get; simpl. apply (sm_neg_get b b); try apply blk_len; assumption. Qed.
Lemma blk_get_mul (x y : blk) i j : i < b -> j < b ->
  blk_get (blk_mul S0 b x y) i j = sumn (fun k => blk_get x i k * blk_get y k j) b.
Proof. intros. unfold blk_get; simpl. rewrite sm_mul_get by assumption. reflexivity. Qed.
Lemma blk_get_zero i j : i < b -> j < b -> blk_get (blk_zero S0 b) i j = s0.
Proof. intros. unfold blk_get; simpl. apply sm_zero_get; assumption. Qed.
Lemma blk_get_id i j : i < b -> j < b -> blk_get (blk_id S0 b) i j = if Nat.eqb i j then s1 else s0.
Proof. intros. unfold blk_get; simpl. apply sm_id_get; assumption. Qed.

(* ---- the ring ---- *)
Theorem BlockS_ncring : ncring_theory B.
Proof.
  constructor; cbn [T s0 s1 sadd smul ssub sopp BlockS]; intros; apply blk_ext; cbn [blk_list proj1_sig
    blk_add blk_mul blk_sub blk_neg blk_zero blk_id mk_blk].
  - rewrite (sm_add_comm Srt b b); [apply (sm_add_zero_r Srt b b)| |]; try apply blk_len. apply sm_zero_length.
  - apply (sm_add_comm Srt b b); apply blk_len.
  - symmetry. apply (sm_add_assoc Srt b b); apply blk_len.
  - apply (sm_mul_id_l Srt); apply blk_len.
  - apply (sm_mul_id_r Srt); apply blk_len.
  - symmetry. apply (sm_mul_assoc Srt).
  - apply (sm_mul_add_distr_r Srt); apply blk_len.
  - apply (sm_mul_add_distr_l Srt); apply blk_len.
  - apply (sm_sub_def Srt b b); apply blk_len.
  - apply (sm_add_neg_r Srt b b); apply blk_len.
Qed.

(* ---- decidable equality ---- *)
Lemma list_eqb_spec (Seqb : seqb_spec S0) (x y : vec S0) : list_eqb S0 x y = true <-> x = y.
Proof.
  revert y; induction x as [|a x IH]; intros [|c y]; simpl; split; intro H; try congruence; try discriminate.
  - apply andb_true_iff in H as [H1 H2]. apply Seqb in H1. apply IH in H2. congruence.
  - injection H as -> ->. apply andb_true_iff. split; [apply Seqb; reflexivity|apply IH; reflexivity].
Qed.
Theorem BlockS_eqb : seqb_spec S0 -> seqb_spec B.
Proof.
  intros Seqb x y. cbn [seqb BlockS]. unfold blk_eqb. rewrite (list_eqb_spec Seqb). split.
  - apply blk_ext.
  - intros ->. reflexivity.
Qed.

(* ---- base scalars: c |-> c I is a ring homomorphism into the CENTRE ---- *)
Lemma blk_get_embed c i j : i < b -> j < b -> blk_get (blk_embed S0 b c) i j = if Nat.eqb i j then c else s0.
Proof. intros. unfold blk_embed. rewrite blk_get_of_fun by assumption. reflexivity. Qed.

Lemma sumn_delta_l' (i : nat) (c : S0) (f : nat -> S0) n :
  sumn (fun k => (if Nat.eqb i k then c else s0) * f k) n = if Nat.ltb i n then c * f i else s0.
Proof.
  induction n as [|n IH]; simpl; [reflexivity|]. rewrite IH.
  destruct (Nat.eqb_spec i n) as [->|Hne].
  - rewrite Nat.ltb_irrefl. destruct (Nat.ltb_spec n (Datatypes.S n)); [ring|lia].
  - destruct (Nat.ltb_spec i n), (Nat.ltb_spec i (Datatypes.S n)); try lia; ring.
Qed.
Lemma sumn_delta_r' (j : nat) (c : S0) (f : nat -> S0) n :
  sumn (fun k => f k * (if Nat.eqb k j then c else s0)) n = if Nat.ltb j n then f j * c else s0.
Proof.
  induction n as [|n IH]; simpl; [reflexivity|]. rewrite IH.
  destruct (Nat.eqb_spec n j) as [->|Hne].
  - rewrite Nat.ltb_irrefl. destruct (Nat.ltb_spec j (Datatypes.S j)); [ring|lia].
  - destruct (Nat.ltb_spec j n), (Nat.ltb_spec j (Datatypes.S n)); try lia; ring.
Qed.

(* (c I) * M = c * M cell by cell: the C++ `c * M` (operator*(T, static_matrix): M *= c) *)
Theorem blk_embed_mul_l c (x : blk) i j : i < b -> j < b ->
  blk_get (blk_mul S0 b (blk_embed S0 b c) x) i j = c * blk_get x i j.
Proof.
  intros Hi Hj. rewrite blk_get_mul by assumption.
  rewrite (sumn_ext _ (fun k => (if Nat.eqb i k then c else s0) * blk_get x k j)).
  - rewrite sumn_delta_l'. apply Nat.ltb_lt in Hi. rewrite Hi. reflexivity.
  - intros k Hk. rewrite blk_get_embed by assumption. reflexivity.
Qed.
Theorem blk_embed_mul_r c (x : blk) i j : i < b -> j < b ->
  blk_get (blk_mul S0 b x (blk_embed S0 b c)) i j = blk_get x i j * c.
Proof.
  intros Hi Hj. rewrite blk_get_mul by assumption.
  rewrite (sumn_ext _ (fun k => blk_get x i k * (if Nat.eqb k j then c else s0))).
  - rewrite sumn_delta_r'. apply Nat.ltb_lt in Hj. rewrite Hj. reflexivity.
  - intros k Hk. rewrite blk_get_embed by assumption. reflexivity.
Qed.
Theorem blk_embed_central c (x : blk) :
  blk_mul S0 b (blk_embed S0 b c) x = blk_mul S0 b x (blk_embed S0 b c).
Proof.
  apply blk_ext_get. intros i j Hi Hj. rewrite blk_embed_mul_l, blk_embed_mul_r by assumption. ring.
Qed.
Theorem blk_embed_add c d : blk_embed S0 b (c + d) = blk_add S0 b (blk_embed S0 b c) (blk_embed S0 b d).
Proof.
  apply blk_ext_get. intros i j Hi Hj. rewrite blk_get_add, !blk_get_embed by assumption.
  destruct (Nat.eqb i j); ring.
Qed.
Theorem blk_embed_mul c d : blk_embed S0 b (c * d) = blk_mul S0 b (blk_embed S0 b c) (blk_embed S0 b d).
Proof.
  apply blk_ext_get. intros i j Hi Hj. rewrite blk_embed_mul_l, !blk_get_embed by assumption.
  destruct (Nat.eqb i j); ring.
Qed.
Theorem blk_embed_0 : blk_embed S0 b s0 = blk_zero S0 b.
Proof.
  apply blk_ext_get. intros i j Hi Hj. rewrite blk_get_embed, blk_get_zero by assumption.
  destruct (Nat.eqb i j); reflexivity.
Qed.
Theorem blk_embed_1 : blk_embed S0 b s1 = blk_id S0 b.
Proof.
  apply blk_ext_get. intros i j Hi Hj. rewrite blk_get_embed, blk_get_id by assumption. reflexivity.
Qed.

(* ---- vectors: static_matrix<T,b,1> as column-0 blocks ---- *)
Definition is_col (x : blk) : Prop := forall i j, i < b -> 0 < j < b -> blk_get x i j = s0.
Lemma blk_get_col (v : vec S0) i j : i < b -> j < b ->
  blk_get (blk_col S0 b v) i j = if Nat.eqb j 0 then vget v i else s0.
Proof. intros. unfold blk_col. rewrite blk_get_of_fun by assumption. reflexivity. Qed.
Lemma blk_col_is_col (v : vec S0) : is_col (blk_col S0 b v).
Proof.
  intros i j Hi Hj. rewrite blk_get_col by lia. destruct (Nat.eqb_spec j 0); [lia|reflexivity].
Qed.
Lemma blk_col0_get (x : blk) i : i < b -> vget (blk_col0 x) i = blk_get x i 0.
Proof. intro Hi. unfold blk_col0, vget. exact (tabulate_nth b (fun k => blk_get x k 0) i s0 Hi). Qed.
Lemma blk_col0_length (x : blk) : length (blk_col0 x) = b.
Proof. apply tabulate_length. Qed.
(* a column-0 block is determined by its column 0 *)
Lemma is_col_eta (x : blk) : is_col x -> x = blk_col S0 b (blk_col0 x).
Proof.
  intro H. apply blk_ext_get. intros i j Hi Hj. rewrite blk_get_col by assumption.
  destruct (Nat.eqb_spec j 0) as [->|Hne].
  - rewrite blk_col0_get by assumption. reflexivity.
  - apply H; lia.
Qed.

(* closure: +, -, unary -, LEFT product by any block; the action on column 0 is the C++ operation on
   static_matrix<T,b,1> (operator+=, operator-=, operator*(static_matrix<b,b>, static_matrix<b,1>)) *)
Theorem is_col_add (x y : blk) : is_col x -> is_col y -> is_col (blk_add S0 b x y).
Proof. intros Hx Hy i j Hi Hj. rewrite blk_get_add, Hx, Hy by lia. ring. Qed.
Theorem is_col_sub (x y : blk) : is_col x -> is_col y -> is_col (blk_sub S0 b x y).
Proof. intros Hx Hy i j Hi Hj. rewrite blk_get_sub, Hx, Hy by lia. ring. Qed.
Theorem is_col_neg (x : blk) : is_col x -> is_col (blk_neg S0 b x).
Proof. intros Hx i j Hi Hj. rewrite blk_get_neg, Hx by lia. ring. Qed.
Theorem is_col_zero : is_col (blk_zero S0 b).
Proof. intros i j Hi Hj. apply blk_get_zero; lia. Qed.
Theorem is_col_mul_l (a x : blk) : is_col x -> is_col (blk_mul S0 b a x).
Proof.
  intros Hx i j Hi Hj. rewrite blk_get_mul by lia.
  rewrite (sumn_ext _ (fun _ => s0)); [apply (sumn_zero Srt)|].
  intros k Hk. rewrite Hx by lia. ring.
Qed.
(* the matrix-vector product: (a * col v)_{i,0} = sum_k a_ik v_k *)
Theorem blk_mul_col (a : blk) (v : vec S0) i : i < b ->
  blk_get (blk_mul S0 b a (blk_col S0 b v)) i 0 = sumn (fun k => blk_get a i k * vget v k) b.
Proof.
  intro Hi.
  rewrite blk_get_mul by lia. apply sumn_ext. intros k Hk.
  rewrite blk_get_col by lia. reflexivity.
Qed.
Theorem blk_add_col (u v : vec S0) i : i < b ->
  blk_get (blk_add S0 b (blk_col S0 b u) (blk_col S0 b v)) i 0 = vget u i + vget v i.
Proof. intro Hi. rewrite blk_get_add, !blk_get_col by lia. reflexivity. Qed.
Theorem blk_sub_col (u v : vec S0) i : i < b ->
  blk_get (blk_sub S0 b (blk_col S0 b u) (blk_col S0 b v)) i 0 = vget u i - vget v i.
Proof. intro Hi. rewrite blk_get_sub, !blk_get_col by lia. reflexivity. Qed.

(* RIGHT multiplication does NOT preserve the shape in general -- which is why the embedding is only
   claimed for the smoothers (left products); see the Example in Properties_C06.v. *)

(* combined statements (Properties_C06.v) *)
Theorem blk_embed_central_cells (c : S0) (x : blk) :
  blk_mul S0 b (blk_embed S0 b c) x = blk_mul S0 b x (blk_embed S0 b c) /\
  forall i j, i < b -> j < b -> blk_get (blk_mul S0 b (blk_embed S0 b c) x) i j = c * blk_get x i j.
Proof. split; [apply blk_embed_central|apply blk_embed_mul_l]. Qed.

Theorem is_col_closed (a x y : blk) : is_col x -> is_col y ->
  is_col (blk_add S0 b x y) /\ is_col (blk_sub S0 b x y) /\ is_col (blk_neg S0 b x) /\
  is_col (blk_mul S0 b a x) /\
  (forall (v : vec S0) i, i < b ->
     blk_get (blk_mul S0 b a (blk_col S0 b v)) i 0 = sumn (fun k => blk_get a i k * vget v k) b).
Proof.
  intros Hx Hy. repeat split.
  - apply is_col_add; assumption.
  - apply is_col_sub; assumption.
  - apply is_col_neg; assumption.
  - apply is_col_mul_l; assumption.
  - apply blk_mul_col.
Qed.

End BlockRing.
