(* NcKernelsProofs.v -- C07 for NON-COMMUTATIVE value types (ncring_theory: static_matrix blocks), part 2.
   NcKernels.v proves the formulas of spmv / residual / axpby / axpbypcz / vmul without commutativity; here:
     1. lin_comb for every n >= 1 (odd/even pairing loop), coefficients on the LEFT:  y_i' = sum_k c_k * v_k[i] + alpha * y_i
     2. the Kahan-compensated inner product, serial and per-thread for any chunking: = sum_i x_i * adj(y_i), in THAT order
        (only the additive group laws are used: the compensation term is identically zero)
     3. the same for the generic entry product of BlockKernels.v (entries static_matrix<T,b,1> / static_matrix<T,b,b>)
     4. block values (BlockS S0 b over a commutative ring S0):
        - math::inner_product of static_matrix<T,b,1> entries = sum_k x[k] * adj(y[k])          [bvec_ip_spec]
        - the block SpMV is the scalar SpMV of the EXPANDED (unblocked) matrix on the flattened vector:
            (A X)_I [k] = sum_{j < ncols*b} expand A (I*b+k) j * xflat j                        [block_Ax_expanded]
          and with base-scalar coefficients alpha, beta (embedded as alpha*I) the whole primitive is the scalar formula
            y'[I*b+k] = alpha * (sum_j ...) + beta * y[I*b+k]                                   [block_spmv_expanded]
        - scalar vectors passed where block vectors are expected (backend::reinterpret_as_rhs): entry (I, k) of the
          block view is x[I*b+k], and flattening the view gives x back                          [bvec_of_flat_get, flat_of_bvec_of_flat] *)
From Amgcl Require Import Scalar Vec Crs Kernels KernelsProofs NcRing NcKernels
  DirectUtil Inverse StaticMat StaticMatProofs BlockInst NcRingBlock BlockKernels.
Local Open Scope S_scope.

(* ------------------------------------------------------------------ *)
Section NcKernels2.
Context {S : Scalar}.
Local Notation vec := (vec S).
Hypothesis Hnc : ncring_theory S.
Hypothesis Seqb : seqb_spec S.
Local Instance nck2 : NcRingInst S := ncring_inst Hnc.

(* ---- lin_comb ---- *)
Lemma nc_lin_comb_rest_spec n : forall (cv : list (S * vec)) (y : vec) i,
  length cv <= n -> all_len (length y) cv -> i < length y ->
  vget (lin_comb_rest cv y) i = lc_sum cv i + vget y i
  /\ length (lin_comb_rest cv y) = length y.
Proof.
  induction n as [|n IH]; intros cv y i Hn Hl Hi.
  - destruct cv; simpl in *; [split; [ncr|reflexivity] | lia].
  - destruct cv as [|[c1 v1] [|[c2 v2] tl]].
    + simpl. split; [ncr|reflexivity].
    + inversion Hl as [|? ? H1 _]; subst. simpl in H1. simpl.
      split; [rewrite (nc_axpby_spec Hnc Seqb) by congruence; simpl; ncr | rewrite axpby_length; congruence].
    + inversion Hl as [|? ? H1 Hl']; subst. inversion Hl' as [|? ? H2 Hl'']; subst.
      simpl in H1, H2. cbn [lin_comb_rest lc_sum].
      assert (Hlen : length (axpbypcz c1 v1 c2 v2 s1 y) = length y)
        by (rewrite axpbypcz_length; congruence).
      destruct (IH tl (axpbypcz c1 v1 c2 v2 s1 y) i) as [E L].
      * simpl in Hn. lia.
      * rewrite Hlen. exact Hl''.
      * rewrite Hlen. exact Hi.
      * split; [|congruence]. rewrite E. rewrite (nc_axpbypcz_spec Hnc Seqb) by congruence. ncr.
Qed.

Theorem nc_lin_comb_spec c0 (v0 : vec) cv alpha (y : vec) i :
  length v0 = length y -> all_len (length y) cv -> i < length y ->
  vget (lin_comb ((c0, v0) :: cv) alpha y) i = lc_sum ((c0, v0) :: cv) i + alpha * vget y i.
Proof.
  intros H0 Hl Hi. unfold lin_comb.
  assert (Hlen : length (axpby c0 v0 alpha y) = length y) by (rewrite axpby_length; congruence).
  destruct (nc_lin_comb_rest_spec (length cv) cv (axpby c0 v0 alpha y) i) as [E _];
    rewrite ?Hlen; auto.
  rewrite E. rewrite (nc_axpby_spec Hnc Seqb) by congruence. simpl. ncr.
Qed.

(* ---- inner product (entries multiply as x * adj y, in that order) ---- *)
Lemma nc_kahan_fold (l : list (S * S)) (s : S) :
  fold_left kahan_step l (s, s0) =
  (s + fold_right (fun xy acc => fst xy * sadj (snd xy) + acc) s0 l, s0).
Proof.
  revert s; induction l as [|[a b] l IH]; intro s; simpl.
  - f_equal; ncr.
  - replace (s + (a * sadj b - s0) - s - (a * sadj b - s0)) with (@s0 S) by ncr.
    rewrite IH. f_equal. ncr.
Qed.

Theorem nc_inner_product_serial_spec (x y : vec) : inner_product_serial x y = dot x y.
Proof.
  unfold inner_product_serial, kahan. rewrite nc_kahan_fold. simpl. rewrite dot_combine. ncr.
Qed.

Lemma nc_vsum_acc (v : vec) (a : S) : fold_left sadd v a = a + vsum v.
Proof.
  unfold vsum. revert a; induction v as [|b v IH]; intro a; simpl; [ncr|].
  rewrite IH, (IH (s0 + b)). ncr.
Qed.

Lemma nc_fr_app (l1 l2 : list (S * S)) :
  fold_right (fun xy acc => fst xy * sadj (snd xy) + acc) s0 (l1 ++ l2) =
  fold_right (fun xy acc => fst xy * sadj (snd xy) + acc) s0 l1 +
  fold_right (fun xy acc => fst xy * sadj (snd xy) + acc) s0 l2.
Proof. induction l1 as [|e l1 IH]; simpl; [ncr|rewrite IH; ncr]. Qed.

Lemma nc_chunks_sum (lens : list nat) : forall (l : list (S * S)),
  length l <= fold_right Nat.add 0 lens ->
  vsum (map (fun xy => fst (fold_left kahan_step xy (s0, s0))) (chunks lens l)) =
  fold_right (fun xy acc => fst xy * sadj (snd xy) + acc) s0 l.
Proof.
  induction lens as [|n ns IH]; intros l Hl; simpl in *.
  - destruct l; simpl in *; [reflexivity|lia].
  - unfold vsum. simpl. rewrite nc_vsum_acc. rewrite IH.
    + rewrite nc_kahan_fold. simpl. rewrite <- (firstn_skipn n l) at 3. rewrite nc_fr_app. ncr.
    + rewrite skipn_length. lia.
Qed.

Theorem nc_inner_product_parallel_spec lens (x y : vec) :
  length (combine x y) <= fold_right Nat.add 0 lens ->
  inner_product_parallel lens x y = inner_product_serial x y.
Proof.
  intro H. unfold inner_product_parallel. rewrite nc_chunks_sum by exact H.
  rewrite nc_inner_product_serial_spec. apply dot_combine.
Qed.

End NcKernels2.

(* ------------------------------------------------------------------ *)
(* generic entry product into a result ring R (additive group laws of R only) *)
Section GenInner.
Context {R : Scalar} {X : Type}.
Hypothesis Hnc : ncring_theory R.
Local Instance nck3 : NcRingInst R := ncring_inst Hnc.
Variable ip : X -> X -> R.

Lemma kahan_g_fold (l : list (X * X)) (s : R) :
  fold_left (kahan_step_g ip) l (s, s0) =
  (s + fold_right (fun xy acc => ip (fst xy) (snd xy) + acc) s0 l, s0).
Proof.
  revert s; induction l as [|[a b] l IH]; intro s; simpl.
  - f_equal; ncr.
  - replace (s + (ip a b - s0) - s - (ip a b - s0)) with (@s0 R) by ncr.
    rewrite IH. f_equal. ncr.
Qed.

Lemma dot_g_combine (x y : list X) :
  fold_right (fun xy acc => ip (fst xy) (snd xy) + acc) s0 (combine x y) = dot_g ip x y.
Proof.
  revert y; induction x as [|a x IH]; intros [|b y]; simpl; try reflexivity. rewrite IH; reflexivity.
Qed.

Theorem inner_product_serial_g_spec (x y : list X) : inner_product_serial_g ip x y = dot_g ip x y.
Proof.
  unfold inner_product_serial_g. rewrite kahan_g_fold. simpl. rewrite dot_g_combine. ncr.
Qed.

Lemma g_vsum_acc (v : list R) (a : R) : fold_left sadd v a = a + vsum v.
Proof.
  unfold vsum. revert a; induction v as [|b v IH]; intro a; simpl; [ncr|].
  rewrite IH, (IH (s0 + b)). ncr.
Qed.

Lemma g_fr_app (l1 l2 : list (X * X)) :
  fold_right (fun xy acc => ip (fst xy) (snd xy) + acc) s0 (l1 ++ l2) =
  fold_right (fun xy acc => ip (fst xy) (snd xy) + acc) s0 l1 +
  fold_right (fun xy acc => ip (fst xy) (snd xy) + acc) s0 l2.
Proof. induction l1 as [|e l1 IH]; simpl; [ncr|rewrite IH; ncr]. Qed.

Lemma g_chunks_sum (lens : list nat) : forall (l : list (X * X)),
  length l <= fold_right Nat.add 0 lens ->
  vsum (map (fun xy => fst (fold_left (kahan_step_g ip) xy (s0, s0))) (chunks lens l)) =
  fold_right (fun xy acc => ip (fst xy) (snd xy) + acc) s0 l.
Proof.
  induction lens as [|n ns IH]; intros l Hl; simpl in *.
  - destruct l; simpl in *; [reflexivity|lia].
  - unfold vsum. simpl. rewrite g_vsum_acc. rewrite IH.
    + rewrite kahan_g_fold. simpl. rewrite <- (firstn_skipn n l) at 3. rewrite g_fr_app. ncr.
    + rewrite skipn_length. lia.
Qed.

Theorem inner_product_parallel_g_spec lens (x y : list X) :
  length (combine x y) <= fold_right Nat.add 0 lens ->
  inner_product_parallel_g ip lens x y = inner_product_serial_g ip x y.
Proof.
  intro H. unfold inner_product_parallel_g. rewrite g_chunks_sum by exact H.
  rewrite inner_product_serial_g_spec. apply dot_g_combine.
Qed.

End GenInner.

(* ------------------------------------------------------------------ *)
Section BlockKernelsProofs.
Variable S0 : Scalar.
Variable b : nat.
Hypothesis Srt : Sring S0.
Hypothesis Seqb0 : seqb_spec S0.
Add Ring SRingBK : Srt.
Local Notation B := (BlockS S0 b).
Local Notation blk := (blk S0 b).
Let HncB : ncring_theory B := BlockS_ncring S0 b Srt.
Let SeqbB : seqb_spec B := BlockS_eqb S0 b Seqb0.

(* ---- math::inner_product on static_matrix<T,b,1> entries ---- *)
Lemma sm_inner_vec_acc (l : list (S0 * S0)) (a : S0) :
  fold_left (fun s xy => s + fst xy * sadj (snd xy)) l a =
  a + fold_right (fun xy acc => fst xy * sadj (snd xy) + acc) s0 l.
Proof.
  revert a; induction l as [|e l IH]; intro a; simpl; [ring|]. rewrite IH. ring.
Qed.

Theorem bvec_ip_spec (x y : blk) : bvec_ip x y = dot (blk_col0 x) (blk_col0 y).
Proof.
  unfold bvec_ip, sm_inner_vec. rewrite sm_inner_vec_acc, (dot_combine (S := S0)). ring.
Qed.

(* backend::inner_product on block vectors: serial Kahan = per-thread Kahan = sum_i sum_k x_i[k] * adj(y_i[k]) *)
Theorem bvec_inner_serial_spec (x y : list blk) :
  bvec_inner_serial S0 b x y = dot_g (R := S0) bvec_ip x y.
Proof. exact (inner_product_serial_g_spec (ncring_of_ring S0 Srt) bvec_ip x y). Qed.

Theorem bvec_inner_parallel_spec lens (x y : list blk) :
  length (combine x y) <= fold_right Nat.add 0 lens ->
  bvec_inner_parallel S0 b lens x y = bvec_inner_serial S0 b x y.
Proof. exact (inner_product_parallel_g_spec (ncring_of_ring S0 Srt) bvec_ip lens x y). Qed.

Theorem bmat_inner_serial_spec (x y : list blk) :
  bmat_inner_serial S0 b x y = dot_g (R := B) bmat_ip x y.
Proof. exact (inner_product_serial_g_spec HncB bmat_ip x y). Qed.

Theorem bmat_inner_parallel_spec lens (x y : list blk) :
  length (combine x y) <= fold_right Nat.add 0 lens ->
  bmat_inner_parallel S0 b lens x y = bmat_inner_serial S0 b x y.
Proof. exact (inner_product_parallel_g_spec HncB bmat_ip lens x y). Qed.

(* cells of the block entry product: p(i,j) = sum_k x(k,i) * adj(y(k,j)) *)
Theorem bmat_ip_get (x y : blk) i j : i < b -> j < b ->
  blk_get (bmat_ip x y) i j = sumn (fun k => blk_get x k i * sadj (blk_get y k j)) b.
Proof.
  intros Hi Hj. unfold blk_get, bmat_ip; simpl. unfold sm_inner. rewrite sm_of_fun_get by assumption. reflexivity.
Qed.

(* ---- cells of finite block sums ---- *)
Lemma blk_get_sumn (f : nat -> B) n i j : i < b -> j < b ->
  blk_get (sumn f n) i j = sumn (fun k => blk_get (f k) i j) n.
Proof.
  intros Hi Hj. induction n as [|n IH]; simpl.
  - apply (blk_get_zero S0 b); assumption.
  - cbn [sadd BlockS]. rewrite (blk_get_add S0 b) by assumption. rewrite IH. reflexivity.
Qed.

(* ---- flattening double sums: sum_J sum_l f J l = sum_{j < n*b} f (j/b) (j mod b) ---- *)
Lemma sumn_split (g : nat -> S0) p q : sumn g (p + q) = sumn g p + sumn (fun l => g (p + l)%nat) q.
Proof.
  induction q as [|q IH]; simpl.
  - rewrite Nat.add_0_r. ring.
  - rewrite Nat.add_succ_r. simpl. rewrite IH. ring.
Qed.

Lemma sumn_flatten (f : nat -> nat -> S0) n :
  sumn (fun J => sumn (fun l => f J l) b) n = sumn (fun j => f (j / b)%nat (j mod b)) (n * b).
Proof.
  induction n as [|n IH]; [reflexivity|].
  simpl sumn at 1. rewrite IH.
  replace (Datatypes.S n * b)%nat with (n * b + b)%nat by lia.
  rewrite sumn_split. f_equal. apply sumn_ext. intros l Hl.
  rewrite (idx_div b n l Hl), (idx_mod b n l Hl). reflexivity.
Qed.

(* the expanded (unblocked) dense matrix and the flattened vector *)
Definition expand_get (A : crs B) (i j : nat) : S0 :=
  blk_get (mget A (i / b) (j / b)) (i mod b) (j mod b).
Definition flat_get (X : list blk) (j : nat) : S0 :=
  blk_get (vget (S := B) X (j / b)) (j mod b) 0.

(* (A X)_I, component k  =  row I*b+k of the expanded matrix times the flattened vector *)
Theorem block_Ax_expanded (A : crs B) (X : list blk) I k : k < b ->
  blk_get (Ax A X I) k 0 = sumn (fun j => expand_get A (I * b + k) j * flat_get X j) (ncols A * b).
Proof.
  intro Hk. assert (Hb : 0 < b) by lia.
  unfold Ax. rewrite blk_get_sumn by assumption.
  rewrite (sumn_ext _ (fun J => sumn (fun l => blk_get (mget A I J) k l * blk_get (vget (S := B) X J) l 0) b)).
  - rewrite (sumn_flatten (fun J l => blk_get (mget A I J) k l * blk_get (vget (S := B) X J) l 0)).
    apply sumn_ext. intros j _. unfold expand_get, flat_get.
    rewrite (idx_div b I k Hk), (idx_mod b I k Hk). reflexivity.
  - intros J _. cbn [smul BlockS]. apply (blk_get_mul S0 b); assumption.
Qed.

(* spmv with base-scalar coefficients: the scalar formula on the expanded matrix *)
Theorem block_spmv_expanded (alpha beta : S0) (A : crs B) (X Y : list blk) I k :
  wf A = true -> length Y = nrows A -> I < nrows A -> k < b ->
  blk_get (vget (S := B) (spmv (S := B) (blk_embed S0 b alpha) A X (blk_embed S0 b beta) Y) I) k 0 =
  alpha * sumn (fun j => expand_get A (I * b + k) j * flat_get X j) (ncols A * b)
  + beta * flat_get Y (I * b + k).
Proof.
  intros Hwf HY HI Hk. assert (Hb : 0 < b) by lia.
  rewrite (nc_spmv_spec HncB SeqbB) by assumption.
  cbn [sadd smul BlockS]. rewrite (blk_get_add S0 b) by assumption.
  rewrite !(blk_embed_mul_l S0 b Srt) by assumption.
  rewrite block_Ax_expanded by assumption.
  unfold flat_get. rewrite (idx_div b I k Hk), (idx_mod b I k Hk). reflexivity.
Qed.

Theorem block_residual_expanded (F : list blk) (A : crs B) (X Rr : list blk) I k :
  wf A = true -> length F = nrows A -> length Rr = nrows A -> I < nrows A -> k < b ->
  blk_get (vget (S := B) (residual (S := B) F A X Rr) I) k 0 =
  flat_get F (I * b + k) - sumn (fun j => expand_get A (I * b + k) j * flat_get X j) (ncols A * b).
Proof.
  intros Hwf HF HR HI Hk. assert (Hb : 0 < b) by lia.
  rewrite (nc_residual_spec HncB) by assumption.
  cbn [ssub BlockS]. rewrite (blk_get_sub S0 b) by assumption.
  rewrite block_Ax_expanded by assumption.
  unfold flat_get. rewrite (idx_div b I k Hk), (idx_mod b I k Hk). reflexivity.
Qed.

(* the results stay column-0 blocks (vector entries) when the inputs are *)
Lemma is_col_sumn (f : nat -> B) n : (forall k, is_col S0 b (f k)) -> is_col S0 b (sumn f n).
Proof.
  intro H. induction n as [|n IH]; simpl.
  - apply is_col_zero.
  - apply (is_col_add S0 b Srt); [exact IH|apply H].
Qed.

Theorem block_spmv_is_col (alpha beta : B) (A : crs B) (X Y : list blk) I :
  wf A = true -> length Y = nrows A -> I < nrows A ->
  (forall J, is_col S0 b (vget (S := B) X J)) -> is_col S0 b (vget (S := B) Y I) ->
  is_col S0 b (vget (S := B) (spmv (S := B) alpha A X beta Y) I).
Proof.
  intros Hwf HY HI HX HYI.
  rewrite (nc_spmv_spec HncB SeqbB) by assumption.
  apply (is_col_add S0 b Srt); apply (is_col_mul_l S0 b Srt); [|exact HYI].
  unfold Ax. apply is_col_sumn. intro J. apply (is_col_mul_l S0 b Srt). apply HX.
Qed.

(* ---- reinterpret_as_rhs: scalar vectors viewed as block vectors ---- *)
Lemma nth_firstn_lt {X} (l : list X) n k d : k < n -> nth k (firstn n l) d = nth k l d.
Proof.
  revert l k; induction n as [|n IH]; intros l k Hk; [lia|].
  destruct l as [|a l]; [destruct k; reflexivity|]. destruct k as [|k]; [reflexivity|]. simpl. apply IH. lia.
Qed.
Lemma nth_skipn_add {X} (l : list X) p k d : nth k (skipn p l) d = nth (p + k) l d.
Proof.
  revert l; induction p as [|p IH]; intro l; [reflexivity|].
  destruct l as [|a l]; [destruct k; reflexivity|]. simpl. apply IH.
Qed.
Lemma vget_firstn_skipn (x : vec S0) p k : k < b -> vget (firstn b (skipn p x)) k = vget x (p + k).
Proof. intro Hk. unfold vget. rewrite nth_firstn_lt by exact Hk. apply nth_skipn_add. Qed.

Theorem bvec_of_flat_length (x : vec S0) : length (bvec_of_flat S0 b x) = (length x / b)%nat.
Proof. unfold bvec_of_flat. rewrite map_length, seq_length. reflexivity. Qed.

Theorem bvec_of_flat_get (x : vec S0) I k : I < length x / b -> k < b ->
  blk_get (vget (S := B) (bvec_of_flat S0 b x) I) k 0 = vget x (I * b + k).
Proof.
  intros HI Hk. assert (Hb : 0 < b) by lia.
  unfold vget at 1, bvec_of_flat.
  rewrite (nth_indep _ _ (blk_col S0 b (firstn b (skipn (0 * b) x)))) by (rewrite map_length, seq_length; exact HI).
  rewrite (map_nth (fun I => blk_col S0 b (firstn b (skipn (I * b) x)))), seq_nth by exact HI. simpl Nat.add.
  rewrite (blk_get_col S0 b) by assumption. simpl Nat.eqb. apply vget_firstn_skipn. exact Hk.
Qed.

Theorem bvec_of_flat_is_col (x : vec S0) I : is_col S0 b (vget (S := B) (bvec_of_flat S0 b x) I).
Proof.
  unfold vget, bvec_of_flat.
  destruct (Nat.ltb_spec I (length x / b)) as [HI|HI].
  - rewrite (nth_indep _ _ (blk_col S0 b (firstn b (skipn (0 * b) x)))) by (rewrite map_length, seq_length; exact HI).
    rewrite (map_nth (fun I => blk_col S0 b (firstn b (skipn (I * b) x)))). apply blk_col_is_col.
  - rewrite nth_overflow by (rewrite map_length, seq_length; exact HI). apply is_col_zero.
Qed.

(* flat_get of the block view is the scalar vector itself *)
Theorem flat_get_bvec_of_flat (x : vec S0) j : 0 < b -> j < length x / b * b ->
  flat_get (bvec_of_flat S0 b x) j = vget x j.
Proof.
  intros Hb Hj. unfold flat_get.
  assert (HI : j / b < length x / b) by (apply Nat.div_lt_upper_bound; lia).
  rewrite bvec_of_flat_get by (try assumption; apply Nat.mod_upper_bound; lia).
  f_equal. rewrite Nat.mul_comm. symmetry. apply Nat.div_mod. lia.
Qed.

End BlockKernelsProofs.

(* ------------------------------------------------------------------ *)
(* reinterpret_as_rhs round trip *)
Section FlatRoundTrip.
Variable S0 : Scalar.
Variable b : nat.
Local Notation B := (BlockS S0 b).

Lemma firstn_plus {X} (l : list X) n m : firstn (n + m) l = firstn n l ++ firstn m (skipn n l).
Proof.
  revert l; induction n as [|n IH]; intro l; [reflexivity|].
  destruct l as [|a l]; simpl; [rewrite firstn_nil; reflexivity|]. f_equal. apply IH.
Qed.

Lemma flat_chunks (x : vec S0) q :
  flat_map (fun I => firstn b (skipn (I * b) x)) (seq 0 q) = firstn (q * b) x.
Proof.
  induction q as [|q IH]; [reflexivity|].
  rewrite seq_S, flat_map_app, IH. simpl flat_map. rewrite app_nil_r. simpl Nat.add.
  replace (Datatypes.S q * b)%nat with (q * b + b)%nat by lia. symmetry. apply firstn_plus.
Qed.

Lemma blk_col0_col (v : vec S0) : length v = b -> blk_col0 (blk_col S0 b v) = v.
Proof.
  intro Hv. unfold blk_col0. apply (list_ext _ _ s0).
  - rewrite tabulate_length. symmetry; exact Hv.
  - intros i Hi. rewrite tabulate_length in Hi. rewrite tabulate_nth by exact Hi.
    destruct (Nat.eq_dec b 0) as [->|Hb]; [lia|].
    rewrite (blk_get_col S0 b) by lia. reflexivity.
Qed.

(* flattening the block view of a scalar vector whose length is a multiple of b gives the vector back *)
Theorem flat_of_bvec_of_flat (x : vec S0) : (length x / b * b)%nat = length x ->
  flat_of_bvec S0 b (bvec_of_flat S0 b x) = x.
Proof.
  intro Hx. unfold flat_of_bvec, bvec_of_flat. rewrite flat_map_concat_map, map_map.
  rewrite (map_ext_in _ (fun I => firstn b (skipn (I * b) x))).
  - rewrite <- flat_map_concat_map, flat_chunks, Hx. apply firstn_all.
  - intros I HI. apply in_seq in HI. apply blk_col0_col.
    rewrite firstn_length, skipn_length. nia.
Qed.
End FlatRoundTrip.
