(* SpecRadR.v -- C08, the two spectral-radius clauses closed at the real numbers of Coq's standard library, where
   ssqrt is the true square root: every hypothesis about square roots of SpecRadPower.v / SpecRadBlock.v holds
   ([sqrt_ok], [sqrt_ok2] for every real), so the statements read as in the property:
     power method:  0 <= estimate <= sqrt M  for every M >= 0 with |T x|^2 <= M |x|^2 for all x, i.e. the estimate never
                    exceeds the largest singular value of T = A resp. D^-1 A                        [power_le_sigma_R]
     Gershgorin, block values:  |lambda| <= max_i sum_j ||A_ij||_F  (x ||D_i^-1||_F)               [block_gersh_bound_R]
   The axioms of Reals are listed by Print Assumptions (Properties_C08.v). *)
From Coq Require Import Reals Lra Qreals RealField.
From Amgcl Require Import Scalar Vec Crs Kernels KernelsProofs MatOps MatOps2 MatOps2Proofs BlockInst
  SpecRadOrd SpecRadPower SpecRadBlock.
Local Open Scope R_scope.

Definition RS : Scalar :=
  mkScalar R 0 1 Rplus Rmult Rminus Ropp Rdiv Rinv (fun x => x) Rabs sqrt
           (fun x y => if Req_EM_T x y then true else false)
           (fun x y => if Rlt_dec x y then true else false)
           (/ IZR (2 ^ 52)) Q2R.

Lemma RS_ltb (x y : RS) : @sltb RS x y = true <-> x < y.
Proof. cbn. destruct (Rlt_dec x y); split; intro H; try reflexivity; try assumption; try discriminate. contradiction. Qed.

Lemma RS_sle (x y : RS) : sle x y <-> x <= y.
Proof. unfold Gersh.sle. cbn. destruct (Rlt_dec y x); split; intro H; try reflexivity; try discriminate; lra. Qed.

Theorem RS_ordfield : ordfield_theory RS.
Proof.
  constructor.
  - intro x. cbn. destruct (Rlt_dec x x); [lra|reflexivity].
  - intros x y z. rewrite !RS_ltb. lra.
  - intros x y H1 H2. cbn in *. destruct (Rlt_dec x y); [discriminate|]. destruct (Rlt_dec y x); [discriminate|]. lra.
  - exact (F_R Rfield).
  - intros x y z. rewrite !RS_ltb. cbn. lra.
  - intros x y z. rewrite !RS_ltb. cbn. intros Hz Hxy. apply Rmult_lt_compat_r; assumption.
  - intro x. apply RS_sle. cbn. apply Rabs_pos.
  - intro x. cbn. fold (Rsqr (Rabs x)). fold (Rsqr x). symmetry. apply Rsqr_abs.
  - exact Rfield.
Qed.

Lemma RS_sqrt_ok (x : RS) : sqrt_ok x.
Proof.
  unfold sqrt_ok. apply RS_sle. cbn. destruct (Rle_dec 0 x) as [H|H].
  - rewrite sqrt_sqrt by exact H. lra.
  - assert (E : sqrt x = 0) by (apply sqrt_neg_0; lra). rewrite E. lra.
Qed.

Lemma RS_sqrt_ok2 (x : RS) : sqrt_ok2 RS x.
Proof. split; [apply RS_sle; cbn; apply sqrt_pos|apply RS_sqrt_ok]. Qed.

Lemma Forall_all {X} (P : X -> Prop) (l : list X) : (forall x, P x) -> Forall P l.
Proof. intro H. induction l; constructor; auto. Qed.

(* power method: the estimate never exceeds sqrt M *)
Theorem power_le_sigma_R (scale : bool) (A : crs RS) (M : R) (iters : nat) (start : vec RS) :
  0 <= M -> (forall x : vec RS, length x = nrows A -> vsq (pm_op scale A x) <= M * vsq x) ->
  length start = nrows A ->
  0 <= spectral_radius_power scale A iters start <= sqrt M.
Proof.
  intros HM Hop Hs.
  destruct (power_bound RS_ordfield scale A M iters start) as [H0 H1].
  - apply RS_sle. exact HM.
  - intros x Hx. apply RS_sle. apply Hop. exact Hx.
  - exact Hs.
  - apply Forall_all. exact RS_sqrt_ok.
  - apply RS_sle in H0. apply RS_sle in H1. cbn in H0, H1. split; [exact H0|].
    set (r := spectral_radius_power scale A iters start) in *.
    rewrite <- (sqrt_square r) by exact H0. apply sqrt_le_1_alt. exact H1.
Qed.

(* the same with the operator written densely: T = A, or D^-1 A with D the last stored diagonal entries *)
Theorem power_le_sigma_dense_R (scale : bool) (A : crs RS) (M : R) (iters : nat) (start : vec RS) :
  wf A = true -> (scale = true -> Gersh.has_last_diag A = true) -> 0 <= M ->
  (forall x : vec RS, length x = nrows A ->
     sumn (fun i => (DinvA scale A x i * DinvA scale A x i)%S) (nrows A) <= M * vsq x) ->
  length start = nrows A ->
  0 <= spectral_radius_power scale A iters start <= sqrt M.
Proof.
  intros Hwf Hd HM Hop Hs.
  destruct (power_bound_dense RS_ordfield scale A M iters start) as [H0 H1]; try assumption.
  - apply RS_sle. exact HM.
  - intros x Hx. apply RS_sle. apply Hop. exact Hx.
  - apply Forall_all. exact RS_sqrt_ok.
  - apply RS_sle in H0. apply RS_sle in H1. cbn in H0, H1. split; [exact H0|].
    set (r := spectral_radius_power scale A iters start) in *.
    rewrite <- (sqrt_square r) by exact H0. apply sqrt_le_1_alt. exact H1.
Qed.

(* the estimate never exceeds the Frobenius norm *)
Theorem power_le_frobenius_R (scale : bool) (A : crs RS) (iters : nat) (start : vec RS) :
  wf A = true -> nrows A = ncols A -> length start = nrows A ->
  0 <= spectral_radius_power scale A iters start <= sqrt (frob2 scale A).
Proof.
  intros Hwf Hsq Hs.
  destruct (power_le_frobenius RS_ordfield scale A iters start Hwf Hsq Hs (Forall_all _ _ RS_sqrt_ok)) as [H0 H1].
  apply RS_sle in H0. apply RS_sle in H1. cbn in H0, H1. split; [exact H0|].
  set (r := spectral_radius_power scale A iters start) in *.
  rewrite <- (sqrt_square r) by exact H0. apply sqrt_le_1_alt. exact H1.
Qed.

(* Gershgorin for block values over R *)
Section BlockR.
Variable b : nat.
Hypothesis Hb : (0 < b)%nat.
Local Notation B := (BlockS RS b).

Theorem block_gersh_value_R (scale : bool) (lens : list nat) (A : crs B) :
  (nrows A <= fold_right Nat.add 0 lens)%nat ->
  spectral_radius_gersh scale lens A = blk_embed RS b (bgersh_spec RS B (bnrm RS b) scale A).
Proof. exact (block_gersh_value RS b Hb RS_ordfield scale lens A). Qed.

Theorem block_gersh_bound_R (A : crs B) (v : vec B) (lam : R) :
  wf A = true -> nrows A = ncols A ->
  (forall i, (i < nrows A)%nat -> Ax A v i = ((blk_embed RS b lam : B) * vget v i)%S) ->
  (exists i, (i < nrows A)%nat /\ vget v i <> s0) ->
  Rabs lam <= bgersh_spec RS B (bnrm RS b) false A.
Proof.
  intros Hwf Hsq Heig Hnz. apply RS_sle.
  apply (block_gersh_bound RS b Hb RS_ordfield (fun x => eq_refl) A v lam Hwf Hsq); try assumption.
  intros r e _ _. apply RS_sqrt_ok2.
Qed.

Theorem block_gersh_bound_scaled_R (A : crs B) (v : vec B) (lam : R) :
  wf A = true -> nrows A = ncols A ->
  (forall i, (i < nrows A)%nat -> (sinv (Gersh.last_diag A i) * Gersh.last_diag A i)%S = s1) ->
  (forall i, (i < nrows A)%nat -> Ax A v i = (Gersh.last_diag A i * ((blk_embed RS b lam : B) * vget v i))%S) ->
  (exists i, (i < nrows A)%nat /\ vget v i <> s0) ->
  Rabs lam <= bgersh_spec RS B (bnrm RS b) true A.
Proof.
  intros Hwf Hsq Hd Heig Hnz. apply RS_sle.
  apply (block_gersh_bound_scaled RS b Hb RS_ordfield (fun x => eq_refl) A v lam Hwf Hsq); try assumption.
  - intros r e _ _. apply RS_sqrt_ok2.
  - intros i Hi. split; [apply Hd; exact Hi|apply RS_sqrt_ok2].
Qed.
End BlockR.
