(* AmgScale5.v -- C02-B2 for the Chebyshev smoother with the Gershgorin bound (the default
   configuration of relaxation::chebyshev: power_iters = 0, scale = false), ordered field, c > 0:
     gershgorin (c A) = c * gershgorin A            (|v c| = |v| c, max commutes with a positive factor)
     (c, d) of c A    = c * (c, d) of A
     alpha_k of c A   = alpha_k of A / c,  beta_k unchanged
     sweep of (c A, b) = sweep of (A, b / c)        (any degree, any content of the workspaces p, r)
   Hypothesis sinv 0 = 0 (true for the exact rationals and for vq::Q): then 1/(x c) = (1/x)(1/c) also
   for x = 0 and no side condition on the denominators of the recurrence is needed. *)
From Amgcl Require Import Scalar Vec Crs Kernels KernelsProofs MatOps MatOpsProofs Relax DenseSolve Cheby
  Amg AmgExec AmgProofs AmgProofs2 AmgProofs3 AmgProofs4 AmgOrder AmgScale AmgScale2.
Local Open Scope S_scope.

Section ChebyScale.
Context {S : Scalar}.
Local Notation vec := (vec S).
Local Notation row := (row S).
Local Notation crs := (crs S).
Hypothesis Sft : Sfield S.
Hypothesis Seqb : seqb_spec S.
Hypothesis Ord : ordered S.
Let Srt : Sring S := F_R Sft.
Add Ring SRingSc5 : Srt.
Add Field SFieldSc5 : Sft.

Variable c : S.
Hypothesis Hc : olt s0 c.
Hypothesis Habs : forall v : S, sabs (v * c) = sabs v * c.
Hypothesis Hinv0 : sinv (@s0 S) = s0.
Let ci : S := sinv c.

Lemma c_ne : c <> s0.
Proof. intro E. rewrite E in Hc. unfold olt in Hc. rewrite (o_irrefl S Ord) in Hc. discriminate. Qed.

Lemma Hci5 : c * ci = s1.
Proof. unfold ci. field. exact c_ne. Qed.

Local Notation sce := (sce c).
Local Notation vsc := (@vsc S).

(* 1/(x c) = (1/x)(1/c), also for x = 0 *)
Lemma sinv_scale (x : S) : sinv (x * c) = sinv x * ci.
Proof.
  destruct (seqb x s0) eqn:E.
  - apply Seqb in E. subst x. replace (s0 * c) with (@s0 S) by ring. rewrite Hinv0. ring.
  - assert (Hx : x <> s0) by (intro E'; subst x; rewrite (proj2 (Seqb s0 s0) eq_refl) in E; discriminate).
    unfold ci. field. split; [exact c_ne|exact Hx].
Qed.

Lemma sinv_scale2 (x : S) : sinv (x * (c * c)) = sinv x * ci * ci.
Proof. replace (x * (c * c)) with (x * c * c) by ring. rewrite !sinv_scale. ring. Qed.

(* --- the Gershgorin bound --- *)
Lemma sltb_scale (a b : S) : sltb (a * c) (b * c) = sltb a b.
Proof.
  destruct (sltb a b) eqn:E.
  - apply (o_mul S Ord); assumption.
  - destruct (sltb (a * c) (b * c)) eqn:E'; [|reflexivity]. exfalso.
    (* b <= a gives b c <= a c *)
    pose proof (ole_mul_pos Ord b a c Hc E) as H. unfold ole in H. congruence.
Qed.

Lemma smax_scale (a b : S) : smax (a * c) (b * c) = smax a b * c.
Proof. unfold smax. rewrite sltb_scale. destruct (sltb a b); reflexivity. Qed.

Lemma gersh_fold (i : nat) (r : row) (s dia : S) :
  fold_left (fun (sd : S * S) e => (fst sd + sabs (snd e), if false && Nat.eqb (fst e) i then snd e else snd sd))
            (map sce r) (s * c, dia) =
  (fst (fold_left (fun (sd : S * S) e => (fst sd + sabs (snd e), if false && Nat.eqb (fst e) i then snd e else snd sd))
                  r (s, dia)) * c, dia) /\
  snd (fold_left (fun (sd : S * S) e => (fst sd + sabs (snd e), if false && Nat.eqb (fst e) i then snd e else snd sd))
                 r (s, dia)) = dia.
Proof.
  revert s; induction r as [|e r IH]; intro s; [split; reflexivity|].
  cbn [map fold_left fst snd andb AmgScale.sce]. rewrite Habs.
  replace (s * c + sabs (snd e) * c) with ((s + sabs (snd e)) * c) by ring. apply IH.
Qed.

Lemma gersh_row_sce i (r : row) : gersh_row false i (map sce r) = gersh_row false i r * c.
Proof.
  unfold gersh_row. destruct (gersh_fold i r s0 s1) as [E1 E2].
  replace (@s0 S) with (@s0 S * c) at 1 by ring. rewrite E1.
  destruct (fold_left _ r (s0, s1)) as [s dia]. reflexivity.
Qed.

Lemma smax0_nonneg (x : S) : sltb (smax s0 x) s0 = false.
Proof.
  unfold smax. destruct (sltb s0 x) eqn:E; [|apply (o_irrefl S Ord)].
  destruct (sltb x s0) eqn:E'; [|reflexivity]. exfalso.
  pose proof (o_trans S Ord _ _ _ E E') as H. rewrite (o_irrefl S Ord) in H. discriminate.
Qed.

Lemma indexed_map {X Y} (f : X -> Y) (l : list X) :
  indexed (map f l) = map (fun ir => (fst ir, f (snd ir))) (indexed l).
Proof.
  unfold indexed. rewrite map_length. generalize (seq 0 (length l)). intro sq. revert sq.
  induction l as [|a l IH]; intros [|q sq]; try reflexivity. cbn [map combine fst snd]. f_equal. apply IH.
Qed.

Theorem gershgorin_mscale (A : crs) : gershgorin false (mscale A c) = gershgorin false A * c.
Proof.
  unfold gershgorin. rewrite mscale_rows, indexed_map.
  assert (G : forall (l : list (nat * row)) (em : S),
            fold_left (fun (em : S) ir => smax em (gersh_row false (fst ir) (snd ir)))
                      (map (fun ir : nat * row => (fst ir, map sce (snd ir))) l) (em * c) =
            fold_left (fun (em : S) ir => smax em (gersh_row false (fst ir) (snd ir))) l em * c).
  { induction l as [|ir l IH]; intro em; [reflexivity|]. cbn [map fold_left fst snd].
    rewrite gersh_row_sce, smax_scale. apply IH. }
  pose proof (G (indexed (rows A)) s0) as G0. replace (@s0 S * c) with (@s0 S) in G0 by ring. unfold Crs.row in *. rewrite G0.
  clear G G0.
  match goal with |- context [smax s0 (?t * c)] => generalize t end. intro emax.
  assert (E1 : smax s0 (emax * c) = smax s0 emax * c).
  { rewrite <- smax_scale. f_equal. ring. }
  rewrite E1.
  assert (E2 : sltb (smax s0 emax * c) s0 = false).
  { replace (@s0 S) with (@s0 S * c) at 2 by ring. rewrite sltb_scale. apply smax0_nonneg. }
  rewrite E2, smax0_nonneg. reflexivity.
Qed.

(* --- coefficients --- *)
Lemma cheby_cd_scale (half hi0 lower higher : S) :
  cheby_cd half (hi0 * c) lower higher =
  (fst (cheby_cd half hi0 lower higher) * c, snd (cheby_cd half hi0 lower higher) * c).
Proof. unfold cheby_cd. cbn [fst snd]. f_equal; ring. Qed.

Lemma cheby_coef_scale (two quarter cc d alpha : S) k :
  cheby_coef two quarter (cc * c) (d * c) k (alpha * ci) =
  (fst (cheby_coef two quarter cc d k alpha) * ci, snd (cheby_coef two quarter cc d k alpha)).
Proof.
  pose proof Hci5 as H1.
  destruct k as [|[|k]]; cbn [cheby_coef fst snd].
  - rewrite sinv_scale. reflexivity.
  - replace (two * (d * c) * (d * c) - cc * c * (cc * c)) with ((two * d * d - cc * cc) * (c * c)) by ring.
    rewrite sinv_scale2. f_equal.
    + transitivity (two * d * sinv (two * d * d - cc * cc) * ci * (c * ci)); [ring|]. rewrite H1. ring.
    + transitivity (two * d * sinv (two * d * d - cc * cc) * d * (c * ci) * (c * ci) - s1); [ring|].
      rewrite H1. ring.
  - replace (d * c - quarter * (alpha * ci) * (cc * c) * (cc * c))
      with ((d - quarter * alpha * cc * cc * (c * ci)) * c) by ring.
    rewrite H1. replace (d - quarter * alpha * cc * cc * s1) with (d - quarter * alpha * cc * cc) by ring.
    rewrite sinv_scale. f_equal.
    transitivity (sinv (d - quarter * alpha * cc * cc) * d * (c * ci) - s1); [ring|]. rewrite H1. ring.
Qed.

(* --- one step and the whole solve, M = None (scale = false) --- *)
Section Solve.
Variables two quarter cc d : S.
Variable A : crs.
Hypothesis WA : wf A = true.
Let n := nrows A.

Lemma cheby_step_scale (b x p p' r r' : vec) (alpha : S) k :
  length b = n -> length x = n -> length p = n -> length p' = n -> length r = n -> length r' = n ->
  (k <> 0 -> p' = p) ->
  let st' := cheby_step two quarter (cc * c) (d * c) None (mscale A c) b (x, p', r', alpha * ci) k in
  let st := cheby_step two quarter cc d None A (vsc ci b) (x, p, r, alpha) k in
  fst (fst (fst st')) = fst (fst (fst st)) /\ snd (fst (fst st')) = snd (fst (fst st)) /\
  snd (fst st') = vsc c (snd (fst st)) /\ snd st' = snd st * ci /\
  length (fst (fst (fst st))) = n /\ length (snd (fst (fst st))) = n /\ length (snd (fst st)) = n.
Proof.
  intros Lb Lx Lp Lp' Lr Lr' Hp. cbv zeta. unfold cheby_step.
  rewrite (residual_mscale Srt c ci Hci5 A b x r r' WA Lb Lr Lr').
  set (r1 := residual (vsc ci b) A x r).
  assert (L1 : length r1 = n) by (unfold r1; apply residual_length; [rewrite vsc_length; exact Lb|exact Lr]).
  rewrite cheby_coef_scale.
  destruct (cheby_coef two quarter cc d k alpha) as [al be] eqn:Ec. cbn [fst snd].
  assert (Ep : axpby (al * ci) (vsc c r1) be p' = axpby al r1 be p).
  { apply vec_ext.
    - rewrite !axpby_length; rewrite ?vsc_length; congruence.
    - rewrite axpby_length by (rewrite vsc_length; congruence). rewrite vsc_length, L1. intros i Hi.
      rewrite !(axpby_spec Srt Seqb) by (rewrite ?vsc_length; congruence).
      rewrite (vsc_get Srt).
      destruct k as [|k].
      + (* beta = 0: the old p is irrelevant *)
        cbn [cheby_coef] in Ec. inversion Ec; subst.
        transitivity (sinv d * (c * ci) * vget r1 i); [ring|]. rewrite Hci5. ring.
      + rewrite (Hp ltac:(discriminate)).
        transitivity (al * (c * ci) * vget r1 i + be * vget p i); [ring|]. rewrite Hci5. ring. }
  rewrite Ep. set (pn := axpby al r1 be p).
  assert (Lpn : length pn = n) by (unfold pn; rewrite axpby_length; congruence).
  repeat split; try reflexivity.
  - rewrite axpby_length; congruence.
  - exact Lpn.
  - exact L1.
Qed.

Lemma cheby_fold_scale (b : vec) (Lb : length b = n) : forall (ks : list nat) (x p p' r r' : vec) (alpha : S),
  length x = n -> length p = n -> length p' = n -> length r = n -> length r' = n ->
  (match ks with k :: _ => k <> 0 -> p' = p | [] => True end) ->
  NoDup ks -> (forall k, In k (tl ks) -> k <> 0) ->
  fst (fst (fst (fold_left (cheby_step two quarter (cc * c) (d * c) None (mscale A c) b) ks (x, p', r', alpha * ci)))) =
  fst (fst (fst (fold_left (cheby_step two quarter cc d None A (vsc ci b)) ks (x, p, r, alpha)))).
Proof.
  induction ks as [|k ks IH]; intros x p p' r r' alpha Lx Lp Lp' Lr Lr' Hp Hnd Htl; [reflexivity|].
  cbn [fold_left].
  destruct (cheby_step_scale b x p p' r r' alpha k Lb Lx Lp Lp' Lr Lr' Hp) as (E1 & E2 & E3 & E4 & L1 & L2 & L3).
  destruct (cheby_step two quarter (cc * c) (d * c) None (mscale A c) b (x, p', r', alpha * ci) k) as [[[x1' p1'] r1'] a1'].
  destruct (cheby_step two quarter cc d None A (vsc ci b) (x, p, r, alpha) k) as [[[x1 p1] r1] a1].
  cbn [fst snd] in *. subst x1' p1' r1' a1'.
  inversion Hnd as [|? ? Hnin Hnd']; subst.
  apply IH; try assumption.
  - rewrite vsc_length. exact L3.
  - destruct ks; [exact I|]. intros _. reflexivity.
  - intros k0 Hk0. cbn [tl] in Htl. apply Htl. destruct ks as [|k1 ks']; [destruct Hk0|]. right. exact Hk0.
Qed.

End Solve.

(* the sweep of the default configuration: Gershgorin bound, no diagonal scaling *)
Theorem cheby_sweep_mscale (A : crs) (lower higher : S) (junk junk' : vec) degree (b x p p' r r' : vec) :
  wf A = true -> length b = nrows A -> length x = nrows A ->
  length p = nrows A -> length p' = nrows A -> length r = nrows A -> length r' = nrows A ->
  cheby_sweep (cheby_setup false (mscale A c) (gershgorin false (mscale A c)) lower higher junk')
              degree (mscale A c) b x p' r' =
  cheby_sweep (cheby_setup false A (gershgorin false A) lower higher junk) degree A (vsc ci b) x p r.
Proof.
  intros WA Lb Lx Lp Lp' Lr Lr'. unfold cheby_sweep, cheby_setup.
  rewrite gershgorin_mscale, cheby_cd_scale.
  destruct (cheby_cd c_half (gershgorin false A) lower higher) as [cc d]. cbn [fst snd].
  unfold cheby_solve.
  pose proof (cheby_fold_scale c_two c_quarter cc d A WA b Lb (seq 0 degree) x p p' r r' s0 Lx Lp Lp' Lr Lr') as H.
  replace (@s0 S * ci) with (@s0 S) in H by ring.
  assert (E : fst (fst (fst (fold_left (cheby_step c_two c_quarter (cc * c) (d * c) None (mscale A c) b)
                                        (seq 0 degree) (x, p', r', s0)))) =
              fst (fst (fst (fold_left (cheby_step c_two c_quarter cc d None A (vsc ci b))
                                        (seq 0 degree) (x, p, r, s0))))).
  { apply H.
    - destruct degree; [exact I|]. cbn [seq]. intro Hk. exfalso. apply Hk. reflexivity.
    - apply seq_NoDup.
    - intros k Hk. destruct degree; [destruct Hk|]. cbn [seq tl] in Hk. apply in_seq in Hk. lia. }
  destruct (fold_left (cheby_step c_two c_quarter (cc * c) (d * c) None (mscale A c) b) (seq 0 degree) (x, p', r', s0))
    as [[[x1' p1'] r1'] a1'].
  destruct (fold_left (cheby_step c_two c_quarter cc d None A (vsc ci b)) (seq 0 degree) (x, p, r, s0))
    as [[[x1 p1] r1] a1].
  exact E.
Qed.

End ChebyScale.
