(* LowLevel2I.v -- C10-A2, second layer: the constructor of relaxation::ilu0
   (amgcl/relaxation/ilu0.hpp:92-205) over flat arrays with uninitialised cells (LowLevel2.v).

   Memory:
     L, U          set_size(n, n) (ptr UNWRITTEN), set_nonzeros(Lnz / Unz) (col, val UNWRITTEN),
                   ptr[0] = 0; Lnz / Unz from a counting pass over A
     D             numa_vector<value_type>(n, false): UNWRITTEN
     work          std::vector<value_type*>(n, NULL): a pointer is NULL or points at a cell of
                   L->val, of D or of U->val -- modelled as option of (array, index); *w on NULL
                   is reported as OutOfBounds
   precondition(...) throws: the constructor ends with the exception (outcome IThrow).
   At the end L->nnz = Lhead, U->nnz = Uhead: the arrays keep their allocated length, the cells
   behind nnz are stale.  Proofs: LowLevel2IProofs.v. *)
From Coq Require Import ZArith.
From Amgcl Require Import Scalar Vec Crs Kernels MatOps Relax Ilu LowLevel LowLevelT LowLevel2 LowLevel2G.
Local Open Scope S_scope.

Inductive wp := WL (k : nat) | WD (k : nat) | WU (k : nat).

Section Ilu0.
Context {S : Scalar}.

Record ist := mkI {
  ilp : marr nat; ilc : marr nat; ilv : marr S;       (* L->ptr, L->col, L->val *)
  iup : marr nat; iuc : marr nat; iuv : marr S;       (* U->ptr, U->col, U->val *)
  idd : marr S;                                       (* D *)
  iwk : marr (option wp);                             (* work *)
  ilh : nat; iuh : nat }.                             (* Lhead, Uhead *)

(* *w *)
Definition wp_rd (w : option wp) (st : ist) : mres S :=
  match w with
  | None => OutOfBounds
  | Some (WL k) => mrd (ilv st) k
  | Some (WD k) => mrd (idd st) k
  | Some (WU k) => mrd (iuv st) k
  end.
(* *w = x *)
Definition wp_wr (w : option wp) (st : ist) (x : S) : mres ist :=
  match w with
  | None => OutOfBounds
  | Some (WL k) => a <-- mwr (ilv st) k x ;;
                   Done (mkI (ilp st) (ilc st) a (iup st) (iuc st) (iuv st) (idd st) (iwk st) (ilh st) (iuh st))
  | Some (WD k) => a <-- mwr (idd st) k x ;;
                   Done (mkI (ilp st) (ilc st) (ilv st) (iup st) (iuc st) (iuv st) a (iwk st) (ilh st) (iuh st))
  | Some (WU k) => a <-- mwr (iuv st) k x ;;
                   Done (mkI (ilp st) (ilc st) (ilv st) (iup st) (iuc st) a (idd st) (iwk st) (ilh st) (iuh st))
  end.

(* counting pass: if (c < i) ++Lnz; else if (c > i) ++Unz; *)
Definition ilu0_count (F : fcrs S) : mres (nat * nat) :=
  mfor 0 (fn F) (fun i acc =>
    row_loop (fptr F) i (fun j acc =>
      c <-- ird (fcol F) j ;;
      Done (if Nat.ltb c i then (Datatypes.S (fst acc), snd acc)
            else if Nat.ltb i c then (fst acc, Datatypes.S (snd acc)) else acc)) acc) (0%nat, 0%nat).

(* first loop over row i: scatter into L / D / U and set the work pointers *)
Definition scatter_body (F : fcrs S) (i j : nat) (st : ist) : mres ist :=
  c <-- ird (fcol F) j ;;
  v <-- ird (fval F) j ;;
  if Nat.ltb c i then
    lc <-- mwr (ilc st) (ilh st) c ;;
    lv <-- mwr (ilv st) (ilh st) v ;;
    wk <-- mwr (iwk st) c (Some (WL (ilh st))) ;;
    Done (mkI (ilp st) lc lv (iup st) (iuc st) (iuv st) (idd st) wk (Datatypes.S (ilh st)) (iuh st))
  else if Nat.eqb c i then
    dd <-- mwr (idd st) i v ;;
    wk <-- mwr (iwk st) c (Some (WD i)) ;;
    Done (mkI (ilp st) (ilc st) (ilv st) (iup st) (iuc st) (iuv st) dd wk (ilh st) (iuh st))
  else
    uc <-- mwr (iuc st) (iuh st) c ;;
    uv <-- mwr (iuv st) (iuh st) v ;;
    wk <-- mwr (iwk st) c (Some (WU (iuh st))) ;;
    Done (mkI (ilp st) (ilc st) (ilv st) (iup st) uc uv (idd st) wk (ilh st) (Datatypes.S (iuh st))).

(* for (k = U->ptr[c]; k < U->ptr[c+1]; ++k) { w = work[U->col[k]]; if (w) *w -= tl * U->val[k]; } *)
Definition lincomb_body (tl : S) (k : nat) (st : ist) : mres ist :=
  uc <-- mrd (iuc st) k ;;
  w <-- mrd (iwk st) uc ;;
  match w with
  | None => Done st
  | Some _ => old <-- wp_rd w st ;; uv <-- mrd (iuv st) k ;; wp_wr w st (old - tl * uv)
  end.

Inductive eres := EOk (st : ist) | EThrow (e : ilu_err).

(* second loop over row i, with its break and its two preconditions *)
Fixpoint elim_loop (F : fcrs S) (i j cnt : nat) (st : ist) : mres eres :=
  match cnt with
  | O => Done (EOk st)
  | Datatypes.S cnt' =>
    c <-- ird (fcol F) j ;;
    if Nat.leb i c then
      if negb (Nat.eqb c i) then Done (EThrow NoDiag)
      else
        di <-- mrd (idd st) i ;;
        if is_zero di then Done (EThrow ZeroPivot)
        else
          di' <-- mrd (idd st) i ;;
          dd <-- mwr (idd st) i (sinv di') ;;
          Done (EOk (mkI (ilp st) (ilc st) (ilv st) (iup st) (iuc st) (iuv st) dd (iwk st) (ilh st) (iuh st)))
    else
      w <-- mrd (iwk st) c ;;
      x <-- wp_rd w st ;;
      dc <-- mrd (idd st) c ;;
      let tl := x * dc in
      w' <-- mrd (iwk st) c ;;
      st1 <-- wp_wr w' st tl ;;
      pb <-- mrd (iup st1) c ;;
      pe <-- mrd (iup st1) (c + 1) ;;
      st2 <-- mfor pb (pe - pb) (lincomb_body tl) st1 ;;
      elim_loop F i (Datatypes.S j) cnt' st2
  end.

(* "get rid of zeros in the factors": in-place compaction of the row just computed *)
Definition compact (ptr col : marr nat) (val : marr S) (i : nat) : mres (marr nat * marr S * nat) :=
  h0 <-- mrd ptr i ;;
  e <-- mrd ptr (i + 1) ;;
  mfor h0 (e - h0) (fun j (s : marr nat * marr S * nat) =>
    let '(col, val, head) := s in
    v <-- mrd val j ;;
    if negb (is_zero v) then
      cj <-- mrd col j ;;
      col' <-- mwr col head cj ;;
      val' <-- mwr val head v ;;
      Done (col', val', Datatypes.S head)
    else Done s) (col, val, h0).

Definition ilu0_row_body (F : fcrs S) (i : nat) (st : ist) : mres eres :=
  p <-- ird (fptr F) i ;;
  e <-- ird (fptr F) (i + 1) ;;
  st1 <-- mfor p (e - p) (scatter_body F i) st ;;
  lp <-- mwr (ilp st1) (i + 1) (ilh st1) ;;
  up <-- mwr (iup st1) (i + 1) (iuh st1) ;;
  let st2 := mkI lp (ilc st1) (ilv st1) up (iuc st1) (iuv st1) (idd st1) (iwk st1) (ilh st1) (iuh st1) in
  r <-- elim_loop F i p (e - p) st2 ;;
  match r with
  | EThrow x => Done (EThrow x)
  | EOk st3 =>
    cl <-- compact (ilp st3) (ilc st3) (ilv st3) i ;;
    cu <-- compact (iup st3) (iuc st3) (iuv st3) i ;;
    lp' <-- mwr (ilp st3) (i + 1) (snd cl) ;;
    up' <-- mwr (iup st3) (i + 1) (snd cu) ;;
    wk <-- mfor p (e - p) (fun j wk => c <-- ird (fcol F) j ;; mwr wk c None) (iwk st3) ;;
    Done (EOk (mkI lp' (fst (fst cl)) (snd (fst cl)) up' (fst (fst cu)) (snd (fst cu)) (idd st3) wk (snd cl) (snd cu)))
  end.

(* the row loop stops at the first exception *)
Fixpoint ilu0_rows_ll (F : fcrs S) (i cnt : nat) (st : ist) : mres eres :=
  match cnt with
  | O => Done (EOk st)
  | Datatypes.S k =>
    r <-- ilu0_row_body F i st ;;
    match r with
    | EThrow x => Done (EThrow x)
    | EOk st' => ilu0_rows_ll F (Datatypes.S i) k st'
    end
  end.

Definition ll_ilu0 (F : fcrs S) : mres eres :=
  let n := fn F in
  cnt <-- ilu0_count F ;;
  lp <-- mwr (fresh (n + 1)) 0 0%nat ;;
  up <-- mwr (fresh (n + 1)) 0 0%nat ;;
  ilu0_rows_ll F 0 n
    (mkI lp (fresh (fst cnt)) (fresh (fst cnt)) up (fresh (snd cnt)) (fresh (snd cnt))
         (fresh n) (filled (repeat None n)) 0 0).

End Ilu0.
Arguments ist : clear implicits.
Arguments eres : clear implicits.
