(* Extract_amg.v -- extraction for the amg group (C02, C03). Same directives as Extract_kernels.v. *)
From Amgcl Require Import ExtractCommon.
From Coq Require Import QArith Qcanon.
From Amgcl Require Import Scalar QcInst Vec Crs Kernels MatOps Relax DenseSolve Amg AmgExec Ilu Cheby.
Separate Extraction
  QcInst.QcS Scalar.is_zero Scalar.smax Scalar.smin
  Vec Crs Kernels MatOps Relax DenseSolve Amg AmgExec Ilu Cheby.
