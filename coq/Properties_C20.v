(* Properties_C20.v -- C20: the C interface (0- and 1-based) gives the C++ results.
   Statements only; proofs in CapiProofs.v / PtreeProofs.v.  The substance "C API call =
   C++ run-time interface call" is C14-A3 plus the bitwise correspondence of drv_capi. *)
From Coq Require Import String List Bool Arith ZArith.
From Amgcl Require Import Ptree PtreeProofs Capi CapiProofs Capi2 Capi2Proofs Capi2Life.
Import ListNotations.
Local Open Scope Z_scope.

(* ---- A1: Fortran (1-based) entry points = 0-based entry points on the shifted arrays, for
        every value type; the reads stay inside the caller's arrays ---- *)
Theorem C20_A1_fortran_is_c_on_shifted_arrays (V : Type) (dv : V) n nnz ptr col (val : list V) :
  wf_arrays V 1 n nnz ptr col val ->
  build_f V dv n ptr col val = build_c V dv n (map Z.pred ptr) (map Z.pred col) val
  /\ wf_arrays V 0 n nnz (map Z.pred ptr) (map Z.pred col) val.
Proof. intros H. split; [exact (build_f_is_build_c_shifted V dv n nnz ptr col val H) | exact (wf_shift V n nnz ptr col val H)]. Qed.
Print Assumptions C20_A1_fortran_is_c_on_shifted_arrays.

(* every col[] / val[] position dereferenced while the matrix is read is < nnz, every ptr[]
   position is <= n (both index bases) *)
Theorem C20_A1_reads_inside_arrays (V : Type) base n nnz ptr col (val : list V) :
  wf_arrays V base n nnz ptr col val ->
  Forall (fun j => (j < length col)%nat /\ (j < length val)%nat) (reads base n ptr)
  /\ Forall (fun i => (i < length ptr)%nat) (ptr_reads n).
Proof.
  intros H. split; [|exact (ptr_reads_in_range V base n nnz ptr col val H)].
  pose proof (reads_in_range V base n nnz ptr col val H) as R.
  destruct H as (_ & _ & _ & _ & Hc & Hv). rewrite Hc, Hv.
  eapply Forall_impl; [|exact R]. intros j Hj. split; exact Hj.
Qed.
Print Assumptions C20_A1_reads_inside_arrays.

(* the low-level remark: the Fortran variants form  col + ptr[n]  with the RAW (1-based)
   ptr[n] = nnz + 1, one position beyond one-past-the-end; it is formed, never read *)
Theorem C20_A1_fortran_end_iterator_formed_not_read (V : Type) n nnz ptr col (val : list V) :
  wf_arrays V 1 n nnz ptr col val ->
  formed_end n ptr = Z.of_nat nnz + 1 /\ Forall (fun j => (j < nnz)%nat) (reads 1 n ptr).
Proof. intros H. split; [exact (formed_end_fortran V n nnz ptr col val H) | exact (reads_in_range V 1 n nnz ptr col val H)]. Qed.
Print Assumptions C20_A1_fortran_end_iterator_formed_not_read.

Example C20_wf_arrays_satisfiable :
  wf_arrays Z 1 2 3 [1; 3; 4] [1; 2; 2] [5; 6; 7]
  /\ build_f Z 0 2 [1; 3; 4] [1; 2; 2] [5; 6; 7] = [[(0, 5); (1, 6)]; [(1, 7)]].
Proof. split; [repeat split; reflexivity | reflexivity]. Qed.

(* ---- A2: handle life cycle ---- *)
Theorem C20_A2_created_handle_is_usable s k h s' :
  cstep s (Create k h) = Some s' -> cstep s' (Use k h) = Some s'.
Proof. exact (create_then_use s k h s'). Qed.
Print Assumptions C20_A2_created_handle_is_usable.

Theorem C20_A2_destroyed_handle_is_dead s k h s' k' :
  cstep s (Destroy k h) = Some s' -> cstep s' (Use k' h) = None /\ cstep s' (Destroy k' h) = None.
Proof. intros H. split; [exact (destroy_then_use s k h s' k' H) | exact (destroy_twice s k h s' k' H)]. Qed.
Print Assumptions C20_A2_destroyed_handle_is_dead.

Theorem C20_A2_destroy_is_local s k h s' h' :
  cstep s (Destroy k h) = Some s' -> h <> h' -> lookup_h h' s' = lookup_h h' s.
Proof. exact (destroy_other s k h s' h'). Qed.
Print Assumptions C20_A2_destroy_is_local.

Theorem C20_A2_disciplined_client_never_hits_UB os :
  disciplined [] os = true <-> exists s', crun [] os = Some s' /\ NoDup (map fst s').
Proof.
  split.
  - intros H. apply disciplined_runs in H. destruct H as [s' H]. exists s'. split; [exact H|].
    exact (crun_nodup os [] s' (NoDup_nil _) H).
  - intros (s' & H & _). apply disciplined_runs. exists s'. exact H.
Qed.
Print Assumptions C20_A2_disciplined_client_never_hits_UB.

(* ---- A3: typed setters = Ptree.put; the value reaches a reader of the same name unchanged ---- *)
Theorem C20_A3_setter_is_put name text prm :
  capi_set name text prm = put_path (split_dots name) text prm.
Proof. reflexivity. Qed.
Print Assumptions C20_A3_setter_is_put.

Theorem C20_A3_set_value_is_read_back name text prm :
  capi_get name (capi_set name text prm) = Some text.
Proof. exact (capi_set_get name text prm). Qed.
Print Assumptions C20_A3_set_value_is_read_back.

Theorem C20_A3_later_settings_of_other_names_do_not_disturb script name text prm :
  (forall e, In e script -> split_dots (fst e) <> split_dots name) ->
  capi_get name (capi_sets script (capi_set name text prm)) = Some text.
Proof. exact (capi_sets_last script name text prm). Qed.
Print Assumptions C20_A3_later_settings_of_other_names_do_not_disturb.

(* ---- H: call HISTORIES (Capi2.v).  The state of the C layer is the table handle |-> object built from the
        CONTENTS of the caller's arrays at creation; an entry point reads the contents its arguments have at
        the time of the call.  The C++ run-time interface is abstract (any constructors / calls, objects with
        their own mutable state). ---- *)

(* H1: the outputs of a history are a function of its CONTENTS TRACE: two caller programs (different buffer
   addresses, arrays reused in place or fresh) with the same contents trace get the same outputs *)
Theorem C20_H1_outputs_depend_on_contents_only
  (V : Type) (dv : V) (X Obj Res : Type)
  (new_precond new_solver : nat -> matrix V -> option ptree -> Obj)
  (precond_apply : Obj -> X -> X -> X * Obj) (solver_solve : Obj -> X -> X -> (Res * X) * Obj)
  (solver_solve_mtx : Obj -> matrix V -> X -> X -> (Res * X) * Obj)
  hist1 hist2 tb m1 m2 tr1 tr2 tb1 tb2 m1' m2' :
  run V dv X Obj Res new_precond new_solver precond_apply solver_solve solver_solve_mtx tb m1 hist1 = Some (tr1, tb1, m1') ->
  run V dv X Obj Res new_precond new_solver precond_apply solver_solve solver_solve_mtx tb m2 hist2 = Some (tr2, tb2, m2') ->
  map fst tr1 = map fst tr2 -> map snd tr1 = map snd tr2 /\ tb1 = tb2.
Proof. exact (run_same_trace_same_outputs V dv X Obj Res new_precond new_solver precond_apply solver_solve solver_solve_mtx hist1 hist2 tb m1 m2 tr1 tr2 tb1 tb2 m1' m2'). Qed.
Print Assumptions C20_H1_outputs_depend_on_contents_only.

(* H1 (locality, unconditional): removing every apply / solve / solve_mtx on the handles in P changes no
   output of any other call -- also for handles created later at a reused handle value *)
Theorem C20_H1_calls_on_a_handle_do_not_affect_other_handles
  (V : Type) (dv : V) (X Obj Res : Type)
  (new_precond new_solver : nat -> matrix V -> option ptree -> Obj)
  (precond_apply : Obj -> X -> X -> X * Obj) (solver_solve : Obj -> X -> X -> (Res * X) * Obj)
  (solver_solve_mtx : Obj -> matrix V -> X -> X -> (Res * X) * Obj)
  (P : nat -> bool) tr tb outs tb1 :
  runR V dv X Obj Res new_precond new_solver precond_apply solver_solve solver_solve_mtx tb tr = Some (outs, tb1) ->
  let keep := fun c => negb (is_use V X c && P (handle_of V X c)) in
  exists tb1', runR V dv X Obj Res new_precond new_solver precond_apply solver_solve solver_solve_mtx tb (filter keep tr)
               = Some (outs_of V X Res keep tr outs, tb1').
Proof. exact (calls_are_local V dv X Obj Res new_precond new_solver precond_apply solver_solve solver_solve_mtx P tr tb outs tb1). Qed.
Print Assumptions C20_H1_calls_on_a_handle_do_not_affect_other_handles.

(* H1 (statelessness, given the reuse property C15 of the C++ objects): the k-th call of any history returns
   what the same call returns right after the creations alone, every earlier use of any handle removed *)
Theorem C20_H1_stateless_given_object_reuse
  (V : Type) (dv : V) (X Obj Res : Type)
  (new_precond new_solver : nat -> matrix V -> option ptree -> Obj)
  (precond_apply : Obj -> X -> X -> X * Obj) (solver_solve : Obj -> X -> X -> (Res * X) * Obj)
  (solver_solve_mtx : Obj -> matrix V -> X -> X -> (Res * X) * Obj)
  (sim : Obj -> Obj -> Prop) :
  (forall o, sim o o) -> (forall o o', sim o o' -> sim o' o) -> (forall o1 o2 o3, sim o1 o2 -> sim o2 o3 -> sim o1 o3) ->
  (forall o rhs x, sim (snd (precond_apply o rhs x)) o) ->
  (forall o rhs x, sim (snd (solver_solve o rhs x)) o) ->
  (forall o A rhs x, sim (snd (solver_solve_mtx o A rhs x)) o) ->
  (forall o o' rhs x, sim o o' -> fst (precond_apply o rhs x) = fst (precond_apply o' rhs x)) ->
  (forall o o' rhs x, sim o o' -> fst (solver_solve o rhs x) = fst (solver_solve o' rhs x)) ->
  (forall o o' A rhs x, sim o o' -> fst (solver_solve_mtx o A rhs x) = fst (solver_solve_mtx o' A rhs x)) ->
  forall tr c tb outs tb1,
  runR V dv X Obj Res new_precond new_solver precond_apply solver_solve solver_solve_mtx tb (tr ++ [c]) = Some (outs, tb1) ->
  exists outs' tb1',
    runR V dv X Obj Res new_precond new_solver precond_apply solver_solve solver_solve_mtx tb
         (filter (fun c => negb (is_use V X c)) tr ++ [c]) = Some (outs', tb1')
    /\ last outs' ONone = last outs ONone.
Proof. exact (stateless_fresh V dv X Obj Res new_precond new_solver precond_apply solver_solve solver_solve_mtx sim). Qed.
Print Assumptions C20_H1_stateless_given_object_reuse.

(* setters / read_json / destroy on a params handle leave every other entry (e.g. a solver created from it
   before) as it was *)
Theorem C20_H1_params_calls_touch_no_other_handle
  (V : Type) (dv : V) (X Obj Res : Type)
  (new_precond new_solver : nat -> matrix V -> option ptree -> Obj)
  (precond_apply : Obj -> X -> X -> X * Obj) (solver_solve : Obj -> X -> X -> (Res * X) * Obj)
  (solver_solve_mtx : Obj -> matrix V -> X -> X -> (Res * X) * Obj)
  tb c tb1 out h' :
  exec_r V dv X Obj Res new_precond new_solver precond_apply solver_solve solver_solve_mtx tb c = Some (tb1, out) ->
  (match c with RPSet _ _ _ _ _ | RPJson _ _ _ _ | RPDestroy _ _ _ => True | _ => False end) ->
  handle_of V X c <> h' -> tlookup Obj h' tb1 = tlookup Obj h' tb.
Proof. exact (params_ops_touch_nothing_else V dv X Obj Res new_precond new_solver precond_apply solver_solve solver_solve_mtx tb c tb1 out h'). Qed.
Print Assumptions C20_H1_params_calls_touch_no_other_handle.

(* H2: A1 lifted to histories: EVERY call of a history returns what the 0-based entry point returns on the
   arrays shifted by map Z.pred (create_f, solve_f, solve_mtx_f; arrays reused in place or not) *)
Theorem C20_H2_fortran_is_c_on_shifted_arrays_for_every_call_of_a_history
  (V : Type) (dv : V) (X Obj Res : Type)
  (new_precond new_solver : nat -> matrix V -> option ptree -> Obj)
  (precond_apply : Obj -> X -> X -> X * Obj) (solver_solve : Obj -> X -> X -> (Res * X) * Obj)
  (solver_solve_mtx : Obj -> matrix V -> X -> X -> (Res * X) * Obj)
  hist tb m tr tb' m' :
  run V dv X Obj Res new_precond new_solver precond_apply solver_solve solver_solve_mtx tb m hist = Some (tr, tb', m') ->
  wf_trace V dv X Obj Res new_precond new_solver precond_apply solver_solve solver_solve_mtx tb (map fst tr) ->
  runR V dv X Obj Res new_precond new_solver precond_apply solver_solve solver_solve_mtx tb (map (defort V X) (map fst tr))
  = Some (map snd tr, tb').
Proof. exact (run_defort V dv X Obj Res new_precond new_solver precond_apply solver_solve solver_solve_mtx hist tb m tr tb' m'). Qed.
Print Assumptions C20_H2_fortran_is_c_on_shifted_arrays_for_every_call_of_a_history.

(* the histories refine the bare protocol of A2: a history has defined behaviour (no dangling or wrongly typed
   handle reaches a static_cast) iff its erasure to create / use / destroy steps is a disciplined script *)
Theorem C20_H_history_defined_iff_disciplined
  (V : Type) (dv : V) (X Obj Res : Type)
  (new_precond new_solver : nat -> matrix V -> option ptree -> Obj)
  (precond_apply : Obj -> X -> X -> X * Obj) (solver_solve : Obj -> X -> X -> (Res * X) * Obj)
  (solver_solve_mtx : Obj -> matrix V -> X -> X -> (Res * X) * Obj) tr :
  runR V dv X Obj Res new_precond new_solver precond_apply solver_solve solver_solve_mtx [] tr <> None
  <-> disciplined [] (flat_map (erase V X) tr) = true.
Proof. exact (history_defined_iff_disciplined V dv X Obj Res new_precond new_solver precond_apply solver_solve solver_solve_mtx tr). Qed.
Print Assumptions C20_H_history_defined_iff_disciplined.

(* H3: the failure class "cache keyed by the ADDRESSES of the caller's arrays" (seeded C20-2) is not a
   refinement of the model: two caller programs with the same contents trace (a matrix with another pattern
   and the same nnz reassembled in place / written to fresh arrays) get different outputs from it *)
Theorem C20_H3_address_keyed_cache_refuted :
  option_map (fun r => map fst (fst (fst r))) (obs_run (ac_hist 1 2)) =
  option_map (fun r => map fst (fst (fst r))) (obs_run (ac_hist 11 12))
  /\ option_map (fun r => map snd (fst (fst r))) (obs_run (ac_hist 1 2)) = obs_run_ac (ac_hist 11 12)
  /\ obs_run_ac (ac_hist 1 2) <> obs_run_ac (ac_hist 11 12).
Proof. exact address_keyed_cache_refuted. Qed.
Print Assumptions C20_H3_address_keyed_cache_refuted.

(* the hypotheses of H1 (reuse) and H2 (well-formed Fortran calls) are satisfiable: the observer instance *)
Example C20_H_hypotheses_satisfiable :
  (forall o rhs x, snd (obs_solve_mtx o [] rhs x) = o)
  /\ match obs_run (ac_hist 1 2) with
     | Some (tr, _, _) =>
         wf_trace obsV 0%Z obsX unit (matrix obsV) obs_new obs_new obs_apply obs_solve obs_solve_mtx [] (map fst tr)
         /\ length tr = 3%nat
     | None => False
     end.
Proof.
  split; [reflexivity|]. vm_compute. split; [|reflexivity].
  split; [exists 3%nat; repeat split; reflexivity|].
  split; [intros n o H; injection H as <- <-; exists 3%nat; repeat split; reflexivity|].
  split; [intros n o H; injection H as <- <-; exists 3%nat; repeat split; reflexivity|exact I].
Qed.

(* the reuse hypotheses of C20_H1_stateless_given_object_reuse are consistent: the observer instance satisfies
   them with sim = eq *)
Example C20_H1_reuse_hypotheses_satisfiable tr c tb outs tb1 :
  runR obsV 0%Z obsX unit (matrix obsV) obs_new obs_new obs_apply obs_solve obs_solve_mtx tb (tr ++ [c]) = Some (outs, tb1) ->
  exists outs' tb1',
    runR obsV 0%Z obsX unit (matrix obsV) obs_new obs_new obs_apply obs_solve obs_solve_mtx tb
         (filter (fun c => negb (is_use obsV obsX c)) tr ++ [c]) = Some (outs', tb1')
    /\ last outs' ONone = last outs ONone.
Proof.
  apply (C20_H1_stateless_given_object_reuse obsV 0%Z obsX unit (matrix obsV) obs_new obs_new obs_apply obs_solve obs_solve_mtx eq);
    intros; subst; reflexivity.
Qed.
