(* Properties_C20.v -- C20: the C interface (0- and 1-based) gives the C++ results.
   Statements only; proofs in CapiProofs.v / PtreeProofs.v.  The substance "C API call =
   C++ run-time interface call" is C14-A3 plus the bitwise correspondence of drv_capi. *)
From Coq Require Import String List Bool Arith ZArith.
From Amgcl Require Import Ptree PtreeProofs Capi CapiProofs.
Import ListNotations.
Local Open Scope Z_scope.

(* ---- A1: Fortran (1-based) entry points = 0-based entry points on the shifted arrays, for
        every value type; the reads stay inside the caller's arrays ---- *)
Theorem C20_A1_fortran_is_c_on_shifted_arrays (V : Type) (dv : V) n nnz ptr col (val : list V) :
  wf_arrays V 1 n nnz ptr col val ->
  build_f V dv n ptr col val = build_c V dv n (map Z.pred ptr) (map Z.pred col) val
  /\ wf_arrays V 0 n nnz (map Z.pred ptr) (map Z.pred col) val.
Proof. intros H. split; [exact (build_f_is_build_c_shifted V dv n nnz ptr col val H) | exact (wf_shift V n nnz ptr col val H)]. Qed.
Print Assumptions C20_A1_fortran_is_c_on_shifted_arrays.

(* every col[] / val[] position dereferenced while the matrix is read is < nnz, every ptr[]
   position is <= n (both index bases) *)
Theorem C20_A1_reads_inside_arrays (V : Type) base n nnz ptr col (val : list V) :
  wf_arrays V base n nnz ptr col val ->
  Forall (fun j => (j < length col)%nat /\ (j < length val)%nat) (reads base n ptr)
  /\ Forall (fun i => (i < length ptr)%nat) (ptr_reads n).
Proof.
  intros H. split; [|exact (ptr_reads_in_range V base n nnz ptr col val H)].
  pose proof (reads_in_range V base n nnz ptr col val H) as R.
  destruct H as (_ & _ & _ & _ & Hc & Hv). rewrite Hc, Hv.
  eapply Forall_impl; [|exact R]. intros j Hj. split; exact Hj.
Qed.
Print Assumptions C20_A1_reads_inside_arrays.

(* the low-level remark: the Fortran variants form  col + ptr[n]  with the RAW (1-based)
   ptr[n] = nnz + 1, one position beyond one-past-the-end; it is formed, never read *)
Theorem C20_A1_fortran_end_iterator_formed_not_read (V : Type) n nnz ptr col (val : list V) :
  wf_arrays V 1 n nnz ptr col val ->
  formed_end n ptr = Z.of_nat nnz + 1 /\ Forall (fun j => (j < nnz)%nat) (reads 1 n ptr).
Proof. intros H. split; [exact (formed_end_fortran V n nnz ptr col val H) | exact (reads_in_range V 1 n nnz ptr col val H)]. Qed.
Print Assumptions C20_A1_fortran_end_iterator_formed_not_read.

Example C20_wf_arrays_satisfiable :
  wf_arrays Z 1 2 3 [1; 3; 4] [1; 2; 2] [5; 6; 7]
  /\ build_f Z 0 2 [1; 3; 4] [1; 2; 2] [5; 6; 7] = [[(0, 5); (1, 6)]; [(1, 7)]].
Proof. split; [repeat split; reflexivity | reflexivity]. Qed.

(* ---- A2: handle life cycle ---- *)
Theorem C20_A2_created_handle_is_usable s k h s' :
  cstep s (Create k h) = Some s' -> cstep s' (Use k h) = Some s'.
Proof. exact (create_then_use s k h s'). Qed.
Print Assumptions C20_A2_created_handle_is_usable.

Theorem C20_A2_destroyed_handle_is_dead s k h s' k' :
  cstep s (Destroy k h) = Some s' -> cstep s' (Use k' h) = None /\ cstep s' (Destroy k' h) = None.
Proof. intros H. split; [exact (destroy_then_use s k h s' k' H) | exact (destroy_twice s k h s' k' H)]. Qed.
Print Assumptions C20_A2_destroyed_handle_is_dead.

Theorem C20_A2_destroy_is_local s k h s' h' :
  cstep s (Destroy k h) = Some s' -> h <> h' -> lookup_h h' s' = lookup_h h' s.
Proof. exact (destroy_other s k h s' h'). Qed.
Print Assumptions C20_A2_destroy_is_local.

Theorem C20_A2_disciplined_client_never_hits_UB os :
  disciplined [] os = true <-> exists s', crun [] os = Some s' /\ NoDup (map fst s').
Proof.
  split.
  - intros H. apply disciplined_runs in H. destruct H as [s' H]. exists s'. split; [exact H|].
    exact (crun_nodup os [] s' (NoDup_nil _) H).
  - intros (s' & H & _). apply disciplined_runs. exists s'. exact H.
Qed.
Print Assumptions C20_A2_disciplined_client_never_hits_UB.

(* ---- A3: typed setters = Ptree.put; the value reaches a reader of the same name unchanged ---- *)
Theorem C20_A3_setter_is_put name text prm :
  capi_set name text prm = put_path (split_dots name) text prm.
Proof. reflexivity. Qed.
Print Assumptions C20_A3_setter_is_put.

Theorem C20_A3_set_value_is_read_back name text prm :
  capi_get name (capi_set name text prm) = Some text.
Proof. exact (capi_set_get name text prm). Qed.
Print Assumptions C20_A3_set_value_is_read_back.

Theorem C20_A3_later_settings_of_other_names_do_not_disturb script name text prm :
  (forall e, In e script -> split_dots (fst e) <> split_dots name) ->
  capi_get name (capi_sets script (capi_set name text prm)) = Some text.
Proof. exact (capi_sets_last script name text prm). Qed.
Print Assumptions C20_A3_later_settings_of_other_names_do_not_disturb.
