(* Own.v -- C10-A3: the life cycle of crs::own_data (amgcl/backend/builtin.hpp:61-288,
   amgcl/adapter/zero_copy.hpp) as a small state machine.  No proofs here (OwnProofs.v).

   A world is what a tracking allocator sees:
     objs  : the live crs objects, id |-> { own_data ; the arrays it points to }
             (ptr/col/val are allocated, handed over and released together, so the three
              arrays are one block unit; None = null pointers),
     heap  : the library-allocated blocks (new[]) that have not been delete[]d yet,
     next  : counter for fresh block ids,
     dfree : number of delete[]s of a library block that was not live (double free),
     ufree : number of delete[]s of a user block (memory borrowed by a zero-copy view).

   Operations (one constructor per member function the flag takes part in):
     NewEmpty k      crs()                         own = true, null arrays
     NewOwn k        crs(n, m, ptr, col, val) /
                     crs(const Matrix&)            allocates, own = true
     NewView k u     adapter::zero_copy(user u)    own = false, arrays = user block u
     CopyCtor k j    crs(const crs &j)             allocates iff j has arrays, own = true
     MoveCtor k j    crs(crs &&j)                  takes arrays AND flag of j; j keeps its
                                                   flag with null arrays
     CopyAssign k j  k = j        free_data(); if (!own) { arrays = 0; own = true };
                                  allocates iff j has arrays         (after /repo b0b02bf)
     MoveAssign k j  k = move(j)  swaps arrays and flags
     Destroy k       ~crs()       free_data(): delete[] iff own; the object is gone
   Ops that name an object that does not exist (never created / already destroyed), or that
   construct into an id that is still live, are no-ops: the C++ driver skips them as well.

   step_gen false is the HISTORICAL copy assignment (before b0b02bf: own_data untouched). *)
From Coq Require Import List Arith Bool.
Import ListNotations.

Inductive block := Lib (b : nat) | Usr (u : nat).
Record obj := mkObj { own : bool; arr : option block }.
Record world := mkWorld {
  objs : list (nat * obj);
  heap : list nat;
  next : nat;
  dfree : nat;
  ufree : nat }.

Inductive op :=
| NewEmpty (k : nat)
| NewOwn (k : nat)
| NewView (k u : nat)
| CopyCtor (k j : nat)
| MoveCtor (k j : nat)
| CopyAssign (k j : nat)
| MoveAssign (k j : nat)
| Destroy (k : nat).

Definition init : world := mkWorld [] [] 0 0 0.

(* association list: lookup finds the first binding, del removes every binding *)
Fixpoint lookup (k : nat) (l : list (nat * obj)) : option obj :=
  match l with
  | [] => None
  | (k', o) :: t => if Nat.eqb k k' then Some o else lookup k t
  end.
Fixpoint del (k : nat) (l : list (nat * obj)) : list (nat * obj) :=
  match l with
  | [] => []
  | (k', o) :: t => if Nat.eqb k k' then del k t else (k', o) :: del k t
  end.
Definition find (k : nat) (w : world) : option obj := lookup k (objs w).
Definition set_obj (k : nat) (o : obj) (w : world) : world :=
  mkWorld ((k, o) :: del k (objs w)) (heap w) (next w) (dfree w) (ufree w).
Definition del_obj (k : nat) (w : world) : world :=
  mkWorld (del k (objs w)) (heap w) (next w) (dfree w) (ufree w).

(* delete[] of the three arrays of one block unit; delete[] 0 is a no-op *)
Definition free_block (ob : option block) (w : world) : world :=
  match ob with
  | None => w
  | Some (Usr _) => mkWorld (objs w) (heap w) (next w) (dfree w) (S (ufree w))
  | Some (Lib b) =>
      if existsb (Nat.eqb b) (heap w)
      then mkWorld (objs w) (remove Nat.eq_dec b (heap w)) (next w) (dfree w) (ufree w)
      else mkWorld (objs w) (heap w) (next w) (S (dfree w)) (ufree w)
  end.
(* void free_data() { if (own_data) { delete[] ptr; ptr = 0; ... } } : the heap part *)
Definition free_data (o : obj) (w : world) : world :=
  if own o then free_block (arr o) w else w.
(* new ptr_type[..], new col_type[..], new val_type[..] : one fresh block *)
Definition alloc (w : world) : nat * world :=
  (next w, mkWorld (objs w) (next w :: heap w) (S (next w)) (dfree w) (ufree w)).

Definition has_arrays (o : obj) : bool := match arr o with Some _ => true | None => false end.

(* "if (other.ptr && other.col && other.val) { allocate and copy }" into object k whose
   flag is fl and whose current arrays are cur *)
Definition copy_from (k : nat) (fl : bool) (cur : option block) (j : nat) (w : world) : world :=
  match find j w with
  | Some oj =>
      if has_arrays oj
      then let (b, w') := alloc w in set_obj k (mkObj fl (Some (Lib b))) w'
      else set_obj k (mkObj fl cur) w
  | None => set_obj k (mkObj fl cur) w
  end.

Definition step_gen (fixed : bool) (w : world) (o : op) : world :=
  match o with
  | NewEmpty k =>
      match find k w with Some _ => w | None => set_obj k (mkObj true None) w end
  | NewOwn k =>
      match find k w with
      | Some _ => w
      | None => let (b, w') := alloc w in set_obj k (mkObj true (Some (Lib b))) w'
      end
  | NewView k u =>
      match find k w with Some _ => w | None => set_obj k (mkObj false (Some (Usr u))) w end
  | CopyCtor k j =>
      match find k w, find j w with
      | None, Some _ => copy_from k true None j w
      | _, _ => w
      end
  | MoveCtor k j =>
      match find k w, find j w with
      | None, Some oj => set_obj j (mkObj (own oj) None) (set_obj k (mkObj (own oj) (arr oj)) w)
      | _, _ => w
      end
  | CopyAssign k j =>
      match find k w, find j w with
      | Some ok, Some _ =>
          let w1 := free_data ok w in
          (* the source is read AFTER free_data (k = j: self-assignment empties the matrix) *)
          if fixed
          then copy_from k true None j (set_obj k (mkObj true None) w1)
          else let cur := if own ok then None else arr ok in
               copy_from k (own ok) cur j (set_obj k (mkObj (own ok) cur) w1)
      | _, _ => w
      end
  | MoveAssign k j =>
      match find k w, find j w with
      | Some ok, Some oj => set_obj k oj (set_obj j ok w)
      | _, _ => w
      end
  | Destroy k =>
      match find k w with
      | Some ok => del_obj k (free_data ok w)
      | None => w
      end
  end.

Definition step : world -> op -> world := step_gen true.
Definition step_old : world -> op -> world := step_gen false.   (* historical, before b0b02bf *)

Definition run_gen (fixed : bool) (ops : list op) : world := fold_left (step_gen fixed) ops init.
Definition run : list op -> world := run_gen true.

(* end of scope: every remaining object is destroyed *)
Definition destroy_all_gen (fixed : bool) (w : world) : world :=
  fold_left (fun w k => step_gen fixed w (Destroy k)) (map fst (objs w)) w.
Definition destroy_all : world -> world := destroy_all_gen true.

Definition leaks (w : world) : nat := length (heap w).
