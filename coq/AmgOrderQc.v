(* AmgOrderQc.v -- the order facts used by C02-B1 (AmgProofs10.v) hold at the exact rationals. *)
From Coq Require Import QArith Qcanon.
From Amgcl Require Import Scalar QcInst Vec Crs Kernels Amg AmgProofs10.

Lemma qc_ltb_lt (a b : Qc) : qc_ltb a b = true <-> (a < b)%Qc.
Proof. unfold qc_ltb, Qclt, Qlt. apply Z.ltb_lt. Qed.

Lemma QcS_le0 (x : T QcS) : le0 x <-> (x <= Q2Qc 0)%Qc.
Proof.
  unfold le0. change (@sltb QcS) with qc_ltb. change (@s0 QcS) with (Q2Qc 0). split.
  - intro H. apply Qcnot_lt_le. intro L. apply qc_ltb_lt in L. congruence.
  - intro H. destruct (qc_ltb (Q2Qc 0) x) eqn:E; [|reflexivity].
    apply qc_ltb_lt in E. exfalso. exact (Qcle_not_lt _ _ H E).
Qed.

Lemma QcS_lt0 (x : T QcS) : lt0 x <-> (x < Q2Qc 0)%Qc.
Proof. unfold lt0. apply qc_ltb_lt. Qed.

Lemma QcS_le0_0 : le0 (@s0 QcS).
Proof. reflexivity. Qed.

Lemma QcS_le0_add (a b : T QcS) : le0 a -> le0 b -> le0 (sadd a b).
Proof.
  rewrite !QcS_le0. intros Ha Hb. change (sadd a b) with (a + b)%Qc.
  replace (Q2Qc 0) with (Q2Qc 0 + Q2Qc 0)%Qc by (apply Qc_is_canon; reflexivity).
  apply Qcplus_le_compat; assumption.
Qed.

Lemma QcS_lt0_add (a b : T QcS) : lt0 a -> le0 b -> lt0 (sadd a b).
Proof.
  rewrite QcS_le0, !QcS_lt0. intros Ha Hb. change (sadd a b) with (a + b)%Qc.
  unfold Qclt, Qcle in *. change (this (a + b)%Qc) with (Qred (this a + this b)).
  rewrite Qred_correct. change (this (Q2Qc 0)) with (0#1)%Q in *.
  setoid_replace (0#1)%Q with (0 + 0)%Q by reflexivity.
  apply Qplus_lt_le_compat; assumption.
Qed.

Lemma QcS_lt0_le0 (a : T QcS) : lt0 a -> le0 a.
Proof. rewrite QcS_le0, QcS_lt0. apply Qclt_le_weak. Qed.

(* the full ordered-ring interface of AmgOrder.v *)
From Amgcl Require Import AmgOrder.
Lemma QcS_ordered : ordered QcS.
Proof.
  constructor.
  - intro x. change (@sltb QcS) with qc_ltb. destruct (qc_ltb x x) eqn:E; [|reflexivity].
    apply qc_ltb_lt in E. exfalso. exact (Qclt_not_eq _ _ E eq_refl).
  - intros x y z H1 H2. apply qc_ltb_lt. apply qc_ltb_lt in H1, H2. exact (Qclt_trans _ _ _ H1 H2).
  - intros x y H1 H2. change (@sltb QcS) with qc_ltb in *. apply Qcle_antisym; apply Qcnot_lt_le; intro L;
      apply qc_ltb_lt in L; congruence.
  - intros x y z H. apply qc_ltb_lt. apply qc_ltb_lt in H. change (sadd x z) with (x + z)%Qc.
    change (sadd y z) with (y + z)%Qc. unfold Qclt in *.
    change (this (x + z)%Qc) with (Qred (this x + this z)). change (this (y + z)%Qc) with (Qred (this y + this z)).
    rewrite !Qred_correct. apply Qplus_lt_le_compat; [exact H|apply Qle_refl].
  - intros x y z Hz H. apply qc_ltb_lt. apply qc_ltb_lt in Hz, H.
    apply Qcmult_lt_compat_r; assumption.
Qed.
