(* SpecRadOrd.v -- ordered fields WITHOUT square roots, as a predicate on a [Scalar] record, and the
   Cauchy-Schwarz inequality in squared form.  Used by SpecRadPower.v (power method) and SpecRadBlock.v
   (Gershgorin with Frobenius block norms).  (C08)

   [ordfield_theory S]: the order is the record's operator< ([sltb]), a strict total order compatible with + and
   with * by positive elements; [sabs] is non-negative and squares to the square ([sabs x * sabs x = x * x], i.e.
   sabs x = x or sabs x = -x); field laws.  Nothing is assumed about [ssqrt]: theorems that meet a square root carry
   an explicit hypothesis about the values it is applied to.
   Instances: QcS (here), the real numbers (SpecRadR.v). *)
From Coq Require Import QArith Qcanon Qcabs.
From Amgcl Require Import Scalar QcInst Vec Crs Kernels KernelsProofs MatOps MatOpsProofs MatOps2 MatOps2Proofs.
Local Close Scope Qc_scope.
Local Close Scope Q_scope.
Local Open Scope nat_scope.
Local Open Scope S_scope.

Notation sle := Gersh.sle.

Record ordfield_theory (S : Scalar) : Prop := mk_ordfield {
  of_lt_irrefl : forall x : S, sltb x x = false;
  of_lt_trans  : forall x y z : S, sltb x y = true -> sltb y z = true -> sltb x z = true;
  of_lt_total  : forall x y : S, sltb x y = false -> sltb y x = false -> x = y;
  of_ring      : Sring S;
  of_lt_add    : forall x y z : S, sltb x y = true -> sltb (x + z) (y + z) = true;
  of_lt_mul    : forall x y z : S, sltb s0 z = true -> sltb x y = true -> sltb (x * z) (y * z) = true;
  of_abs_nonneg : forall x : S, sle s0 (sabs x);
  of_abs_sqr   : forall x : S, sabs x * sabs x = x * x;
  of_field     : Sfield S }.

Section Ord.
Context {S : Scalar}.
Hypothesis Hof : ordfield_theory S.

Let Srt : Sring S := of_ring S Hof.
Add Ring SRingOrd : Srt.

(* ---- the order (wrappers of MatOps2Proofs.Gersh) ---- *)
Lemma ole_refl (x : S) : sle x x.
Proof. exact (Gersh.sle_refl (of_lt_irrefl S Hof) x). Qed.
Lemma ole_trans (x y z : S) : sle x y -> sle y z -> sle x z.
Proof. exact (Gersh.sle_trans (of_lt_trans S Hof) (of_lt_total S Hof) x y z). Qed.
Lemma olt_le (x y : S) : sltb x y = true -> sle x y.
Proof. exact (Gersh.slt_le (of_lt_irrefl S Hof) (of_lt_trans S Hof) x y). Qed.
Lemma ole_antisym (x y : S) : sle x y -> sle y x -> x = y.
Proof. exact (Gersh.sle_antisym (of_lt_total S Hof) x y). Qed.
Lemma ole_cases (x y : S) : sle x y -> sltb x y = true \/ x = y.
Proof. exact (Gersh.sle_cases (of_lt_total S Hof) x y). Qed.
Lemma ole_total (x y : S) : sle x y \/ sle y x.
Proof. exact (Gersh.sle_total (of_lt_irrefl S Hof) (of_lt_trans S Hof) x y). Qed.
Lemma olt_le_trans (x y z : S) : sltb x y = true -> sle y z -> sltb x z = true.
Proof. exact (Gersh.slt_le_trans (of_lt_trans S Hof) (of_lt_total S Hof) x y z). Qed.
Lemma ole_lt_trans (x y z : S) : sle x y -> sltb y z = true -> sltb x z = true.
Proof. exact (Gersh.sle_lt_trans (of_lt_trans S Hof) (of_lt_total S Hof) x y z). Qed.
Lemma ole_add (a b c d : S) : sle a b -> sle c d -> sle (a + c) (b + d).
Proof. exact (Gersh.sle_add (of_lt_trans S Hof) (of_lt_total S Hof) Srt (of_lt_add S Hof) a b c d). Qed.
Lemma ole_mul_r (x y z : S) : sle x y -> sle s0 z -> sle (x * z) (y * z).
Proof.
  exact (Gersh.sle_mul_r (of_lt_irrefl S Hof) (of_lt_trans S Hof) (of_lt_total S Hof) Srt (of_lt_mul S Hof) x y z).
Qed.
Lemma ole_mul_l (x y z : S) : sle x y -> sle s0 z -> sle (z * x) (z * y).
Proof.
  exact (Gersh.sle_mul_l (of_lt_irrefl S Hof) (of_lt_trans S Hof) (of_lt_total S Hof) Srt (of_lt_mul S Hof) x y z).
Qed.
Lemma ole_mul_cancel (a b m : S) : sltb s0 m = true -> sle (a * m) (b * m) -> sle a b.
Proof. exact (Gersh.sle_mul_cancel (of_lt_mul S Hof) a b m). Qed.
Lemma omax_from_In (a x : S) (l : list S) : In x l -> sle x (max_from a l).
Proof. exact (Gersh.max_from_In (of_lt_irrefl S Hof) (of_lt_trans S Hof) (of_lt_total S Hof) a x l). Qed.
Lemma omax_from_ge (a : S) (l : list S) : sle a (max_from a l).
Proof. exact (Gersh.max_from_ge (of_lt_irrefl S Hof) (of_lt_trans S Hof) (of_lt_total S Hof) a l). Qed.

Lemma ole_eq (x y : S) : x = y -> sle x y.
Proof. intros ->. apply ole_refl. Qed.

Lemma ole_add_nonneg (x y : S) : sle s0 x -> sle s0 y -> sle s0 (x + y).
Proof. intros Hx Hy. replace (@s0 S) with (@s0 S + s0) at 1 by ring. apply ole_add; assumption. Qed.

Lemma ole_mul_nonneg (x y : S) : sle s0 x -> sle s0 y -> sle s0 (x * y).
Proof. intros Hx Hy. replace (@s0 S) with (s0 * y) by ring. apply ole_mul_r; assumption. Qed.

Lemma ole_mul (a b c d : S) : sle s0 a -> sle a b -> sle s0 c -> sle c d -> sle (a * c) (b * d).
Proof.
  intros Ha Hab Hc Hcd. apply (ole_trans _ (b * c)).
  - apply ole_mul_r; assumption.
  - apply ole_mul_l; [assumption|]. apply (ole_trans _ a); assumption.
Qed.

(* x < 0 -> 0 < -x *)
Lemma olt_opp (x : S) : sltb x s0 = true -> sltb s0 (- x) = true.
Proof.
  intro H. apply (of_lt_add S Hof _ _ (- x)) in H.
  replace (x + - x) with (@s0 S) in H by ring. replace (s0 + - x) with (- x) in H by ring. exact H.
Qed.

Lemma osq_nonneg (x : S) : sle s0 (x * x).
Proof.
  destruct (sltb s0 x) eqn:Hp.
  - replace (@s0 S) with (s0 * x) by ring. apply olt_le. apply (of_lt_mul S Hof); assumption.
  - destruct (sltb x s0) eqn:Hn.
    + apply olt_opp in Hn. replace (x * x) with (- x * - x) by ring.
      replace (@s0 S) with (s0 * - x) by ring. apply olt_le. apply (of_lt_mul S Hof); assumption.
    + assert (x = s0) by (apply (of_lt_total S Hof); assumption). subst x.
      replace (@s0 S * s0) with (@s0 S) by ring. apply ole_refl.
Qed.

Lemma ole_0_1 : sle (@s0 S) s1.
Proof. replace (@s1 S) with (@s1 S * s1) by ring. apply osq_nonneg. Qed.

(* 0 <= c, a^2 <= c^2  ->  a <= c *)
Lemma ole_sq_cancel (a c : S) : sle s0 c -> sle (a * a) (c * c) -> sle a c.
Proof.
  intros Hc H. unfold Gersh.sle. destruct (sltb c a) eqn:E; [|reflexivity]. exfalso.
  assert (Ha : sltb s0 a = true) by (apply (ole_lt_trans _ c); assumption).
  assert (H1 : sle (c * c) (c * a)) by (apply ole_mul_l; [apply olt_le; exact E|exact Hc]).
  assert (H2 : sltb (c * a) (a * a) = true) by (apply (of_lt_mul S Hof); assumption).
  assert (H3 : sltb (c * c) (a * a) = true) by (apply (ole_lt_trans _ (c * a)); assumption).
  unfold Gersh.sle in H. congruence.
Qed.

Lemma ole_sq_mono (a c : S) : sle s0 a -> sle a c -> sle (a * a) (c * c).
Proof. intros Ha H. apply ole_mul; try assumption. Qed.

(* x^2 = 0 -> x = 0 *)
Lemma osq_zero (x : S) : x * x = s0 -> x = s0.
Proof.
  intro H. apply (of_lt_total S Hof).
  - destruct (sltb x s0) eqn:Hn; [exfalso|reflexivity].
    apply olt_opp in Hn. pose proof (of_lt_mul S Hof _ _ _ Hn Hn) as H1.
    replace (s0 * - x) with (@s0 S) in H1 by ring. replace (- x * - x) with (x * x) in H1 by ring.
    rewrite H, (of_lt_irrefl S Hof) in H1. discriminate.
  - destruct (sltb s0 x) eqn:Hp; [exfalso|reflexivity].
    pose proof (of_lt_mul S Hof _ _ _ Hp Hp) as H1.
    replace (s0 * x) with (@s0 S) in H1 by ring.
    rewrite H, (of_lt_irrefl S Hof) in H1. discriminate.
Qed.

(* absolute value *)
Lemma oabs_mul (x y : S) : sabs (x * y) = sabs x * sabs y.
Proof.
  apply ole_antisym; apply ole_sq_cancel;
    try (apply ole_mul_nonneg; apply (of_abs_nonneg S Hof)); try apply (of_abs_nonneg S Hof).
  - apply ole_eq. rewrite (of_abs_sqr S Hof).
    replace (sabs x * sabs y * (sabs x * sabs y)) with ((sabs x * sabs x) * (sabs y * sabs y)) by ring.
    rewrite !(of_abs_sqr S Hof). ring.
  - apply ole_eq. rewrite (of_abs_sqr S Hof).
    replace (sabs x * sabs y * (sabs x * sabs y)) with ((sabs x * sabs x) * (sabs y * sabs y)) by ring.
    rewrite !(of_abs_sqr S Hof). ring.
Qed.

Lemma oabs_sq (x : S) : sabs (x * x) = x * x.
Proof. rewrite oabs_mul. apply (of_abs_sqr S Hof). Qed.

(* |x| <= c  from  x^2 <= c^2, 0 <= c *)
Lemma oabs_le_of_sq (x c : S) : sle s0 c -> sle (x * x) (c * c) -> sle (sabs x) c.
Proof. intros Hc H. apply ole_sq_cancel; [exact Hc|]. rewrite (of_abs_sqr S Hof). exact H. Qed.

(* ---- finite sums ---- *)
Lemma osumn_nonneg (f : nat -> S) n : (forall i, i < n -> sle s0 (f i)) -> sle s0 (sumn f n).
Proof.
  induction n as [|n IH]; intro H; cbn [sumn]; [apply ole_refl|].
  apply ole_add_nonneg; [apply IH; intros; apply H; lia|apply H; lia].
Qed.

Lemma osumn_le (f g : nat -> S) n : (forall i, i < n -> sle (f i) (g i)) -> sle (sumn f n) (sumn g n).
Proof.
  induction n as [|n IH]; intro H; cbn [sumn]; [apply ole_refl|].
  apply ole_add; [apply IH; intros; apply H; lia|apply H; lia].
Qed.

Lemma osumn_sq_nonneg (f : nat -> S) n : sle s0 (sumn (fun i => f i * f i) n).
Proof. apply osumn_nonneg. intros. apply osq_nonneg. Qed.

(* a sum of squares vanishes only if every term does *)
Lemma osumn_sq_zero (f : nat -> S) n : sumn (fun i => f i * f i) n = s0 -> forall i, i < n -> f i = s0.
Proof.
  induction n as [|n IH]; intros H i Hi; [lia|]. cbn [sumn] in H.
  assert (H1 : sle s0 (sumn (fun i => f i * f i) n)) by apply osumn_sq_nonneg.
  assert (H2 : sle s0 (f n * f n)) by apply osq_nonneg.
  assert (E1 : sumn (fun i => f i * f i) n = s0).
  { apply ole_antisym; [|exact H1]. rewrite <- H.
    replace (sumn (fun i => f i * f i) n) with (sumn (fun i => f i * f i) n + s0) at 1 by ring.
    apply ole_add; [apply ole_refl|exact H2]. }
  rewrite E1 in H. replace (s0 + f n * f n) with (f n * f n) in H by ring.
  destruct (Nat.eq_dec i n) as [->|Hne]; [apply osq_zero; exact H|apply IH; [exact E1|lia]].
Qed.

Lemma sumn_scal_r (a : S) (f : nat -> S) n : sumn (fun i => f i * a) n = sumn f n * a.
Proof. induction n as [|n IH]; cbn [sumn]; [ring|]. rewrite IH. ring. Qed.

Lemma sumn_sub (f g : nat -> S) n : sumn (fun i => f i - g i) n = sumn f n - sumn g n.
Proof. induction n as [|n IH]; cbn [sumn]; [ring|]. rewrite IH. ring. Qed.

Lemma sumn_swap (f : nat -> nat -> S) n m :
  sumn (fun i => sumn (fun j => f i j) m) n = sumn (fun j => sumn (fun i => f i j) n) m.
Proof.
  induction n as [|n IH]; cbn [sumn].
  - symmetry. apply (sumn_zero Srt).
  - rewrite IH. symmetry. apply (sumn_add Srt).
Qed.

(* a sum of non-negative terms vanishes only if every term does *)
Lemma osumn_nonneg_zero (f : nat -> S) n : (forall i, i < n -> sle s0 (f i)) -> sumn f n = s0 ->
  forall i, i < n -> f i = s0.
Proof.
  induction n as [|n IH]; intros Hf H i Hi; [lia|]. cbn [sumn] in H.
  assert (H1 : sle s0 (sumn f n)) by (apply osumn_nonneg; intros; apply Hf; lia).
  assert (H2 : sle s0 (f n)) by (apply Hf; lia).
  assert (E1 : sumn f n = s0).
  { apply ole_antisym; [|exact H1]. rewrite <- H.
    replace (sumn f n) with (sumn f n + s0) at 1 by ring. apply ole_add; [apply ole_refl|exact H2]. }
  rewrite E1 in H. replace (s0 + f n) with (f n) in H by ring.
  destruct (Nat.eq_dec i n) as [->|Hne]; [exact H|apply IH; [intros; apply Hf; lia|exact E1|lia]].
Qed.

(* an index where a finite family is largest *)
Lemma oargmax (g : nat -> S) (n : nat) : 0 < n -> exists i, i < n /\ forall j, j < n -> sle (g j) (g i).
Proof.
  induction n as [|n IH]; intro Hn; [lia|]. destruct n as [|n'].
  - exists 0. split; [lia|]. intros j Hj. replace j with 0 by lia. apply ole_refl.
  - destruct IH as [i [Hi Hmax]]; [lia|].
    destruct (ole_total (g (Datatypes.S n')) (g i)) as [H|H].
    + exists i. split; [lia|]. intros j Hj.
      destruct (Nat.eq_dec j (Datatypes.S n')) as [->|Hne]; [exact H|apply Hmax; lia].
    + exists (Datatypes.S n'). split; [lia|]. intros j Hj.
      destruct (Nat.eq_dec j (Datatypes.S n')) as [->|Hne]; [apply ole_refl|].
      apply (ole_trans _ (g i)); [apply Hmax; lia|exact H].
Qed.

(* 0 <= x, x <> 0 -> 0 < x *)
Lemma opos_of_nonneg_ne (x : S) : sle s0 x -> x <> s0 -> sltb s0 x = true.
Proof. intros H Hn. destruct (ole_cases _ _ H) as [H1|H1]; [exact H1|]. exfalso. apply Hn. symmetry. exact H1. Qed.

(* sabs x = x for x >= 0 *)
Lemma oabs_nonneg_id (x : S) : sle s0 x -> sabs x = x.
Proof.
  intro H. apply ole_antisym; apply ole_sq_cancel; try exact H; try apply (of_abs_nonneg S Hof);
    apply ole_eq; rewrite (of_abs_sqr S Hof); reflexivity.
Qed.

(* splitting and flattening of sums *)
Lemma sumn_app (g : nat -> S) p q : sumn g (p + q) = sumn g p + sumn (fun j => g (p + j)%nat) q.
Proof.
  induction q as [|q IH]; [rewrite Nat.add_0_r; cbn [sumn]; ring|].
  rewrite Nat.add_succ_r. cbn [sumn]. rewrite IH. ring.
Qed.

Lemma sumn_flatten (f : nat -> nat -> S) (n b : nat) : 0 < b ->
  sumn (fun i => sumn (fun j => f i j) b) n = sumn (fun k => f (k / b)%nat (k mod b)%nat) (n * b).
Proof.
  intro Hb. induction n as [|n IH]; [reflexivity|].
  cbn [sumn]. rewrite IH. replace (Datatypes.S n * b)%nat with (n * b + b)%nat by lia. rewrite sumn_app. f_equal.
  apply sumn_ext. intros j Hj.
  replace (n * b + j)%nat with (j + n * b)%nat by lia.
  rewrite Nat.div_add, Nat.mod_add by lia. rewrite Nat.div_small, Nat.mod_small by exact Hj. reflexivity.
Qed.

(* ---- Cauchy-Schwarz, squared form (Lagrange's identity, no roots, no division) ---- *)
Lemma lagrange_step (x y : nat -> S) (a b : S) n :
  sumn (fun i => (x i * b - a * y i) * (x i * b - a * y i)) n =
  sumn (fun i => x i * x i) n * (b * b) - (s1 + s1) * (a * b) * sumn (fun i => x i * y i) n
  + (a * a) * sumn (fun i => y i * y i) n.
Proof. induction n as [|n IH]; cbn [sumn]; [ring|]. rewrite IH. ring. Qed.

Theorem cauchy_schwarz (x y : nat -> S) n :
  sle (sumn (fun i => x i * y i) n * sumn (fun i => x i * y i) n)
      (sumn (fun i => x i * x i) n * sumn (fun i => y i * y i) n).
Proof.
  induction n as [|n IH]; cbn [sumn]; [apply ole_eq; ring|].
  set (P := sumn (fun i => x i * y i) n) in *. set (X := sumn (fun i => x i * x i) n) in *.
  set (Y := sumn (fun i => y i * y i) n) in *.
  assert (L : sle s0 (X * (y n * y n) - (s1 + s1) * (x n * y n) * P + (x n * x n) * Y)).
  { unfold X, P, Y. rewrite <- lagrange_step. apply osumn_sq_nonneg with (f := fun i => x i * y n - x n * y i). }
  replace ((P + x n * y n) * (P + x n * y n))
    with (P * P + s0 + ((s1 + s1) * (x n * y n) * P + x n * y n * (x n * y n))) by ring.
  replace ((X + x n * x n) * (Y + y n * y n))
    with (X * Y + (X * (y n * y n) - (s1 + s1) * (x n * y n) * P + x n * x n * Y)
          + ((s1 + s1) * (x n * y n) * P + x n * y n * (x n * y n))) by ring.
  apply ole_add; [apply ole_add; [exact IH|exact L]|apply ole_refl].
Qed.

(* <x,y> <= c d  when |x|^2 <= c^2, |y|^2 <= d^2, c, d >= 0 *)
Corollary cauchy_schwarz_le (x y : nat -> S) n (c d : S) :
  sle s0 c -> sle s0 d ->
  sle (sumn (fun i => x i * x i) n) (c * c) -> sle (sumn (fun i => y i * y i) n) (d * d) ->
  sle (sumn (fun i => x i * y i) n) (c * d).
Proof.
  intros Hc Hd Hx Hy. apply ole_sq_cancel; [apply ole_mul_nonneg; assumption|].
  apply (ole_trans _ _ _ (cauchy_schwarz x y n)).
  replace (c * d * (c * d)) with ((c * c) * (d * d)) by ring.
  apply ole_mul; try assumption; apply osumn_sq_nonneg.
Qed.

(* ---- vectors: squared Euclidean norm ---- *)
Definition vsq (v : vec S) : S := sumn (fun i => vget v i * vget v i) (length v).

Lemma vsq_nonneg (v : vec S) : sle s0 (vsq v).
Proof. apply osumn_sq_nonneg with (f := vget v). Qed.

Lemma vsq_zero (v : vec S) : vsq v = s0 -> forall i, vget v i = s0.
Proof.
  intros H i. destruct (Nat.lt_ge_cases i (length v)) as [Hi|Hi].
  - exact (osumn_sq_zero (vget v) (length v) H i Hi).
  - unfold vget. apply nth_overflow. exact Hi.
Qed.

Lemma vget_map_scal (f : S) (v : vec S) i : vget (map (fun x => f * x) v) i = f * vget v i.
Proof.
  unfold vget. destruct (Nat.lt_ge_cases i (length v)) as [Hi|Hi].
  - rewrite (nth_indep _ s0 (f * s0)) by (rewrite map_length; exact Hi).
    rewrite (map_nth (fun x => f * x)). reflexivity.
  - rewrite !nth_overflow by (rewrite ?map_length; exact Hi). ring.
Qed.

Lemma vsq_scal (f : S) (v : vec S) : vsq (map (fun x => f * x) v) = f * f * vsq v.
Proof.
  unfold vsq. rewrite map_length. rewrite <- (sumn_scal Srt). apply sumn_ext. intros i _.
  rewrite vget_map_scal. ring.
Qed.

(* a list sum as an indexed sum *)
Lemma fold_add_sumn {X} (g : X -> S) (d : X) (l : list X) (a : S) :
  fold_left (fun acc x => acc + g x) l a = a + sumn (fun i => g (nth i l d)) (length l).
Proof.
  revert a. induction l as [|x l IH] using rev_ind; intro a; [cbn; ring|].
  rewrite fold_left_app, app_length, Nat.add_comm. cbn [fold_left length Nat.add sumn]. rewrite IH.
  rewrite app_nth2 by lia. rewrite Nat.sub_diag. cbn [nth].
  rewrite (sumn_ext (fun i => g (nth i (l ++ [x]) d)) (fun i => g (nth i l d))).
  - ring.
  - intros i Hi. rewrite app_nth1 by exact Hi. reflexivity.
Qed.

End Ord.

(* ------------------------------------------------------------------ *)
(* the exact rationals are an instance *)
Lemma QcS_abs_sqr : forall x : QcS, sabs x * sabs x = x * x.
Proof.
  intro x. cbn [sabs smul QcS]. rewrite Gersh.qc_abs_Qcabs.
  destruct (Qcabs_case x (fun y => Qcmult y y = Qcmult x x)); try reflexivity; intros; ring.
Qed.

Theorem QcS_ordfield : ordfield_theory QcS.
Proof.
  exact (mk_ordfield QcS Gersh.QcS_lt_irrefl Gersh.QcS_lt_trans Gersh.QcS_lt_total QcS_ring Gersh.QcS_lt_add
           Gersh.QcS_lt_mul Gersh.QcS_abs_nonneg QcS_abs_sqr QcS_field).
Qed.
