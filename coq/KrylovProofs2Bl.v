(* KrylovProofs2Bl.v -- lemmas about the BiCGStab(L) model (Krylov.v: bl_step, bl_loop, bicgstabl, qr_solve).
   Part 1 (any Scalar record, no laws): iterations <= maxiter + L - 1 and fuel sufficiency (L >= 1),
     zero right-hand side exit, locality of the Householder QR (its reads stay inside the leading
     m x m block), junk independence of the workspace (X and U[0] are cleared, so their ALLOCATED
     length is an input; every other cell is written before it is read).
   Part 2 (commutative ring with decidable equality, A and P linear and length preserving):
     R[0] = B - K X with B = the (preconditioned) residual of x, K = P A resp. A P, at every loop
     head, after the BiCG part, the polynomial part and the accurate-update branches, hence
     reported = ||f - A x_returned|| / ||f|| (preconditioned for side = left); converged guess. *)
From Amgcl Require Import Scalar Vec Kernels KernelsProofs Krylov KrylovProofs KrylovProofs2.
From Coq Require Import ZifyBool QArith_base.
Local Close Scope Q_scope.
Local Open Scope S_scope.
Local Notation SS := Datatypes.S.

Section AnyScalar.
Context {S : Scalar}.
Local Notation vec := (vec S).
Local Notation bl_st := (@bl_st S).
Local Notation bl_ws := (@bl_ws S).
Local Notation kprm := (@kprm S).

(* ---------------- iteration count, fuel ---------------- *)
Lemma bl_bicg_part_it (A P : vec -> vec) left eps js : forall st : bl_st,
  match bl_bicg_part A P left eps js st with
  | BlExc => True
  | BlDone s => exists j, In j js /\ t_it s = (t_it st + SS j)%nat
  | BlCont s => t_it s = t_it st
  end.
Proof.
  induction js as [|j tl IH]; intro st; simpl; [reflexivity|].
  destruct (is_zero (ip (l_R (t_ws st) j) (l_Rt (t_ws st)))); [exact I|].
  match goal with |- context [pspmv left A P ?u] => destruct (pspmv left A P u) as [uj1 T1] end.
  destruct (is_zero (ip uj1 (l_Rt (t_ws st)))); [exact I|].
  match goal with |- context [pspmv left A P ?u] => destruct (pspmv left A P u) as [rj1 T2] end.
  match goal with |- context [sltb ?z eps] => destruct (sltb z eps) end.
  - exists j. split; [left; reflexivity | reflexivity].
  - match goal with |- match bl_bicg_part A P left eps tl ?s' with _ => _ end =>
      specialize (IH s'); destruct (bl_bicg_part A P left eps tl s') as [|s|s] end; [exact I | | exact IH].
    destruct IH as (j' & Hj & E). exists j'. split; [right; exact Hj | exact E].
Qed.

Lemma bl_step_it (A P : vec -> vec) prm eps zeta0 (st : bl_st) :
  match bl_step A P prm eps zeta0 st with
  | BlExc => True
  | BlDone s => t_it st < t_it s <= t_it st + p_L prm
  | BlCont s => t_it s = (t_it st + p_L prm)%nat
  end.
Proof.
  unfold bl_step. cbv zeta.
  match goal with |- context [bl_bicg_part A P ?l eps ?js ?s1'] =>
    pose proof (bl_bicg_part_it A P l eps js s1') as Q; destruct (bl_bicg_part A P l eps js s1') as [|s|s] end;
    [exact I | |].
  - destruct Q as (j & Hj & E). apply in_seq in Hj. simpl in E. lia.
  - simpl in Q. destruct (bl_poly (p_L prm) (p_convex prm) (l_R (t_ws s))) as [[Y0 omega]|]; [|exact I].
    destruct (sltb _ (p_delta prm)); [|simpl; lia].
    match goal with |- context [pspmv ?l A P ?u] => destruct (pspmv l A P u) as [r0 T] end.
    destruct (_ || _); [|simpl; lia].
    destruct (_ && _); simpl; lia.
Qed.

Lemma bl_loop_it (A P : vec -> vec) prm eps zeta0 fuel : 1 <= p_L prm -> forall (st s : bl_st) oof,
  t_it st <= p_maxiter prm + p_L prm - 1 -> p_maxiter prm <= t_it st + fuel ->
  bl_loop A P prm eps zeta0 fuel st = Some (s, oof) -> t_it s <= p_maxiter prm + p_L prm - 1 /\ oof = false.
Proof.
  intro HL. induction fuel as [|k IH]; intros st s oof H1 H2; simpl.
  - destruct (Nat.ltb (t_it st) (p_maxiter prm) && negb (sltb (t_zeta st) eps)) eqn:E.
    + apply Bool.andb_true_iff in E as [E _]. apply Nat.ltb_lt in E. lia.
    + intro Q; inversion Q; subst. auto.
  - destruct (Nat.ltb (t_it st) (p_maxiter prm) && negb (sltb (t_zeta st) eps)) eqn:E.
    + apply Bool.andb_true_iff in E as [E _]. apply Nat.ltb_lt in E.
      pose proof (bl_step_it A P prm eps zeta0 st) as Q.
      destruct (bl_step A P prm eps zeta0 st) as [|s'|s']; [discriminate | |].
      * intro R; inversion R; subst. split; [lia | reflexivity].
      * apply IH; lia.
    + intro Q; inversion Q; subst. auto.
Qed.

(* iterations <= maxiter + L - 1 (the loop advances in steps of L), fuel = maxiter suffices;
   L >= 1 is the precondition checked by the constructor *)
Theorem bicgstabl_iters_bounded (A P : vec -> vec) prm (f x0 : vec) junk r w : 1 <= p_L prm ->
  bicgstabl A P prm f x0 junk = (KOk r, w) -> k_it r <= p_maxiter prm + p_L prm - 1 /\ k_oof r = false.
Proof.
  intro HL. unfold bicgstabl. destruct (k_prologue norm_a prm f) as [nr|nr].
  - intro H; inversion H; subst; simpl; split; [lia|reflexivity].
  - cbv zeta. destruct (if p_left prm then _ else _) as [B T].
    match goal with |- context [bl_loop A P prm ?e ?z ?fu ?st] =>
      destruct (bl_loop A P prm e z fu st) as [[st' oof]|] eqn:E end; [|discriminate].
    apply (bl_loop_it A P prm _ _ _ HL) in E; [|simpl; lia | simpl; lia].
    destruct (if p_left prm then _ else _) as [x T'].
    intro H; inversion H; subst; simpl. exact E.
Qed.

Theorem bicgstabl_zero_rhs (A P : vec -> vec) prm (f x0 : vec) junk :
  sltb (norm_a f) eps1 = true -> p_ns prm = false ->
  fst (bicgstabl A P prm f x0 junk) = KOk (mkRes 0 (norm_a f) (k_clear x0) false).
Proof. intros H N. unfold bicgstabl, k_prologue. rewrite H, N. reflexivity. Qed.

(* ---------------- junk independence ----------------
   Rt, B, R[0] are assigned, X and U[0] cleared (allocated length!) at the start of a call;
   R[i], U[i] (i >= 1) are written in BiCG step i-1 before they are read; the polynomial part
   reads R[0..L], U[0..L] only -- through the Gram matrix and the Householder QR, whose reads stay
   inside the leading block (lemmas *_agree below); T is write-only scratch. *)
Lemma fold_left_rel {X Y Z} (R : X -> Y -> Prop) (f : X -> Z -> X) (g : Y -> Z -> Y) (l : list Z) :
  (forall a b z, In z l -> R a b -> R (f a z) (g b z)) -> forall a b, R a b -> R (fold_left f l a) (fold_left g l b).
Proof.
  induction l as [|z tl IH]; intros H a b Rab; simpl; [exact Rab|].
  apply IH; [intros a' b' z' Hz; apply H; right; exact Hz | apply H; [left; reflexivity | exact Rab]].
Qed.
Lemma fold_left_ext_in2 {X Y} (f g : X -> Y -> X) (l : list Y) a b :
  a = b -> (forall a y, In y l -> f a y = g a y) -> fold_left f l a = fold_left g l b.
Proof.
  intros <- H. revert a. induction l as [|y tl IH]; intro a; simpl; [reflexivity|].
  rewrite (H a y (or_introl eq_refl)). apply IH. intros a' y' Hy. apply H. right; exact Hy.
Qed.

Definition Agr1 (Q : nat -> Prop) (f g : nat -> S) : Prop := forall i, Q i -> f i = g i.

Lemma gen_reflector_agree order alpha (x x' : nat -> S) : (forall k, k < order - 1 -> x k = x' k) ->
  fst (fst (gen_reflector order alpha x)) = fst (fst (gen_reflector order alpha x')) /\
  snd (fst (gen_reflector order alpha x)) = snd (fst (gen_reflector order alpha x')) /\
  forall k, k < order - 1 -> snd (gen_reflector order alpha x) k = snd (gen_reflector order alpha x') k.
Proof.
  intro H. unfold gen_reflector. destruct (Nat.leb order 1); [simpl; auto|]. cbv zeta.
  assert (E : fold_left (fun acc i => acc + sqr (sabs (x i))) (seq 0 (order - 1)%nat) (sofQ (0 # 1)%Q)
            = fold_left (fun acc i => acc + sqr (sabs (x' i))) (seq 0 (order - 1)%nat) (sofQ (0 # 1)%Q)).
  { apply fold_left_ext_in2; [reflexivity|]. intros a k Hk. apply in_seq in Hk. rewrite H by lia. reflexivity. }
  rewrite <- E. destruct (is_zero _); [simpl; auto|]. cbn [fst snd].
  split; [reflexivity|]. split; [reflexivity|]. intros k Hk.
  destruct (Nat.ltb k (order - 1)%nat); rewrite H by exact Hk; reflexivity.
Qed.

Lemma app_refl_agree m n' (v v' : nat -> S) tau ro co (C C' : nat -> nat -> S) Q :
  Agr Q C C' -> (forall j i, j < m -> i < n' -> Q (ro + j)%nat (co + i)%nat) -> 1 <= m ->
  (forall j, 1 <= j < m -> v j = v' j) ->
  Agr Q (app_refl m n' v tau ro co C) (app_refl m n' v' tau ro co C').
Proof.
  intros HA HQ Hm Hv. unfold app_refl. destruct (is_zero tau); [exact HA|].
  apply (fold_left_rel (Agr Q)); [|exact HA]. clear C C' HA. intros C C' i Hi HA. apply in_seq in Hi. cbv zeta.
  assert (Q0 : Q ro (co + i)%nat) by (rewrite <- (Nat.add_0_r ro); apply HQ; lia).
  assert (Es : fold_left (fun s j => s + sadj (C (ro + j)%nat (co + i)%nat) * v j) (seq 1 (m - 1)%nat) (sadj (C ro (co + i)%nat))
             = fold_left (fun s j => s + sadj (C' (ro + j)%nat (co + i)%nat) * v' j) (seq 1 (m - 1)%nat) (sadj (C' ro (co + i)%nat))).
  { apply fold_left_ext_in2; [rewrite (HA _ _ Q0); reflexivity|].
    intros a j Hj. apply in_seq in Hj. rewrite (HA _ _ (HQ j i ltac:(lia) ltac:(lia))), Hv by lia. reflexivity. }
  rewrite <- Es, <- (HA _ _ Q0).
  apply (fold_left_rel (Agr Q)); [|apply agr_updm_same; exact HA].
  intros D D' j Hj HD. apply in_seq in Hj.
  rewrite <- (HD _ _ (HQ j i ltac:(lia) ltac:(lia))), <- Hv by lia. apply agr_updm_same. exact HD.
Qed.

Lemma app_refl_vec_agree m (v v' : nat -> S) tau o (f f' : nat -> S) (Q : nat -> Prop) :
  Agr1 Q f f' -> (forall j, j < m -> Q (o + j)%nat) -> 1 <= m -> (forall j, 1 <= j < m -> v j = v' j) ->
  Agr1 Q (app_refl_vec m v tau o f) (app_refl_vec m v' tau o f').
Proof.
  intros HA HQ Hm Hv. unfold app_refl_vec. destruct (is_zero tau); [exact HA|]. cbv zeta.
  assert (Q0 : Q o) by (rewrite <- (Nat.add_0_r o); apply HQ; lia).
  assert (Es : fold_left (fun s j => s + sadj (f (o + j)%nat) * v j) (seq 1 (m - 1)%nat) (sadj (f o))
             = fold_left (fun s j => s + sadj (f' (o + j)%nat) * v' j) (seq 1 (m - 1)%nat) (sadj (f' o))).
  { apply fold_left_ext_in2; [rewrite (HA _ Q0); reflexivity|].
    intros a j Hj. apply in_seq in Hj. rewrite (HA _ (HQ j ltac:(lia))), Hv by lia. reflexivity. }
  rewrite <- Es, <- (HA _ Q0).
  apply (fold_left_rel (Agr1 Q)).
  - intros D D' j Hj HD. apply in_seq in Hj.
    rewrite <- (HD _ (HQ j ltac:(lia))), <- Hv by lia. intros k Hk. apply upd_same. apply HD, Hk.
  - intros k Hk. apply upd_same. apply HA, Hk.
Qed.

Definition Qsq (m : nat) (r c : nat) : Prop := r < m /\ c < m.
Definition QRrel (m : nat) (a b : (nat -> nat -> S) * (nat -> S)) : Prop :=
  Agr (Qsq m) (fst a) (fst b) /\ forall i, snd a i = snd b i.

Lemma qr_compute_agree m (A0 A0' : nat -> nat -> S) : Agr (Qsq m) A0 A0' ->
  QRrel m (qr_compute m A0) (qr_compute m A0').
Proof.
  intro HA. unfold qr_compute.
  apply (fold_left_rel (QRrel m)); [|split; [exact HA | reflexivity]].
  intros [B t] [B' t'] i Hi (HB & Ht). apply in_seq in Hi. cbn [fst snd] in HB, Ht.
  destruct (gen_reflector_agree (m - i)%nat (B i i) (fun k => B (i + 1 + k)%nat i) (fun k => B' (i + 1 + k)%nat i)
              ltac:(intros k Hk; apply HB; split; lia)) as (E1 & E2 & E3).
  rewrite <- (HB i i ltac:(split; lia)).
  destruct (gen_reflector (m - i)%nat (B i i) (fun k => B (i + 1 + k)%nat i)) as [[ti aii] col].
  destruct (gen_reflector (m - i)%nat (B i i) (fun k => B' (i + 1 + k)%nat i)) as [[ti' aii'] col'].
  cbn [fst snd] in E1, E2, E3. subst ti' aii'.
  set (A1 := fold_left (fun A' k => updm A' (i + 1 + k)%nat i (col k)) (seq 0 (m - i - 1)%nat) (updm B i i aii)).
  set (A1' := fold_left (fun A' k => updm A' (i + 1 + k)%nat i (col' k)) (seq 0 (m - i - 1)%nat) (updm B' i i aii)).
  assert (H1 : Agr (Qsq m) A1 A1').
  { apply (fold_left_rel (Agr (Qsq m))); [|apply agr_updm_same; exact HB].
    intros D D' k Hk HD. apply in_seq in Hk. rewrite <- E3 by lia. apply agr_updm_same. exact HD. }
  split; cbn [fst snd]; [|intro k; apply upd_same, Ht].
  destruct (Nat.ltb (i + 1)%nat m) eqn:El; [|exact H1]. apply Nat.ltb_lt in El.
  apply app_refl_agree; [exact H1 | | lia |].
  - intros j c Hj Hc. split; lia.
  - intros j Hj. apply H1. split; lia.
Qed.

Lemma qr_solve_agree m (At At' : (nat -> nat -> S) * (nat -> S)) (b b' : nat -> S) (computed : bool) :
  (if computed then QRrel m At At' else Agr (Qsq m) (fst At) (fst At')) ->
  (forall k, k < m -> b k = b' k) ->
  QRrel m (fst (qr_solve m At b computed)) (fst (qr_solve m At' b' computed)) /\
  forall k, k < m -> snd (qr_solve m At b computed) k = snd (qr_solve m At' b' computed) k.
Proof.
  intros HAt Hb. unfold qr_solve.
  assert (H0 : QRrel m (if computed then At else qr_compute m (fst At)) (if computed then At' else qr_compute m (fst At'))).
  { destruct computed; [exact HAt | apply qr_compute_agree; exact HAt]. }
  destruct (if computed then At else qr_compute m (fst At)) as [B t].
  destruct (if computed then At' else qr_compute m (fst At')) as [B' t'].
  destruct H0 as (HB & Ht). cbn [fst snd] in HB, Ht. cbn [fst snd].
  split; [split; assumption|].
  set (Q := fun k => k < m).
  change (Agr1 Q
    (fold_left (fun x i => let rii := B i i in if is_zero rii then x else
                  let xi := sinv rii * x i in fold_left (fun x' j => upd x' j (x' j - B j i * xi)) (seq 0 i) (upd x i xi))
       (rev (seq 0 m))
       (fold_left (fun f i => app_refl_vec (m - i)%nat (fun j => B (i + j)%nat i) (sadj (t i)) i f) (seq 0 m) b))
    (fold_left (fun x i => let rii := B' i i in if is_zero rii then x else
                  let xi := sinv rii * x i in fold_left (fun x' j => upd x' j (x' j - B' j i * xi)) (seq 0 i) (upd x i xi))
       (rev (seq 0 m))
       (fold_left (fun f i => app_refl_vec (m - i)%nat (fun j => B' (i + j)%nat i) (sadj (t' i)) i f) (seq 0 m) b'))).
  apply (fold_left_rel (Agr1 Q)).
  - intros x x' i Hi Hx. apply in_rev in Hi. apply in_seq in Hi. cbv zeta.
    rewrite <- (HB i i ltac:(split; lia)). destruct (is_zero (B i i)); [exact Hx|].
    rewrite <- (Hx i ltac:(unfold Q; lia)).
    apply (fold_left_rel (Agr1 Q)).
    + intros y y' j Hj Hy. apply in_seq in Hj.
      rewrite <- (Hy j ltac:(unfold Q; lia)), <- (HB j i ltac:(split; lia)).
      intros k Hk. apply upd_same, Hy, Hk.
    + intros k Hk. apply upd_same, Hx, Hk.
  - apply (fold_left_rel (Agr1 Q)); [|exact Hb].
    intros f f' i Hi Hf. apply in_seq in Hi. rewrite <- Ht.
    apply app_refl_vec_agree; [exact Hf | intros j Hj; unfold Q; lia | lia |].
    intros j Hj. apply HB. split; lia.
Qed.

(* bl_poly as a function of the Gram matrix *)
Definition bl_mzb (R : nat -> vec) : nat -> nat -> S :=
  fun i j => if Nat.ltb j i then sadj (ip (R i) (R j)) else if Nat.eqb i j then ip (R i) (R i) else sadj (ip (R j) (R i)).
Definition bl_poly_M (L : nat) (convex : bool) (MZb : nat -> nat -> S) : option ((nat -> S) * S) :=
  let Asub := fun i j => MZb (1 + i)%nat (1 + j)%nat in
  let Y0 :=
    if convex || Nat.eqb L 1 then
      let '(_, y) := qr_solve L (Asub, fun _ => s0) (fun k => MZb 0 (1 + k)%nat) false in
      fun i => if Nat.eqb i 0 then - s1 else y (i - 1)%nat
    else
      let '(At, y0) := qr_solve (L - 1) (Asub, fun _ => s0) (fun k => MZb 0 (1 + k)%nat) false in
      let '(_, yl) := qr_solve (L - 1) At (fun k => MZb L (1 + k)%nat) true in
      let Y0 := fun i => if Nat.eqb i 0 then - s1 else if Nat.eqb i L then s0 else y0 (i - 1)%nat in
      let YL := fun i => if Nat.eqb i 0 then s0 else if Nat.eqb i L then - s1 else yl (i - 1)%nat in
      let '(dot0, dot1, dotA) :=
        fold_left (fun (d : S * S * S) i =>
          let '(d0, d1, dA) := d in
          let '(z0, zL) := fold_left (fun (z : S * S) j => (fst z + MZb i j * Y0 j, snd z + MZb i j * YL j)) (seq 0 (SS L)) (s0, s0) in
          (d0 + Y0 i * z0, d1 + YL i * zL, dA + YL i * z0)) (seq 0 (SS L)) (s0, s0, s0) in
      let kappa0 := ssqrt (sabs dot0) in
      let kappa1 := ssqrt (sabs dot1) in
      let kappaA := dotA in
      if negb (is_zero kappa0) && negb (is_zero kappa1) then
        let ghat := if sltb kappaA (sofQ c07 * kappa0 * kappa1)
                    then (if sltb kappaA (sofQ (0 # 1)%Q) then (- sofQ c07) * kappa0 / kappa1 else sofQ c07 * kappa0 / kappa1)
                    else kappaA / (kappa1 * kappa1) in
        fun i => Y0 i - ghat * YL i
      else Y0 in
  let omega := fold_left (fun om h => if is_zero om then Y0 h else om) (rev (seq 1 L)) (Y0 L) in
  if is_zero omega then None else Some (Y0, omega).
Lemma bl_poly_eq L convex (R : nat -> vec) : bl_poly L convex R = bl_poly_M L convex (bl_mzb R).
Proof. reflexivity. Qed.

Definition bl_prel (L : nat) (a b : option ((nat -> S) * S)) : Prop :=
  match a, b with
  | Some (Y, om), Some (Y', om') => om = om' /\ forall i, i <= L -> Y i = Y' i
  | None, None => True
  | _, _ => False
  end.

Lemma bl_poly_M_agree L convex (M M' : nat -> nat -> S) : 1 <= L ->
  (forall i j, i <= L -> j <= L -> M i j = M' i j) ->
  bl_prel L (bl_poly_M L convex M) (bl_poly_M L convex M').
Proof.
  intros HL HM. unfold bl_poly_M. cbv zeta.
  (* the coefficient vector agrees on [0, L] *)
  match goal with |- bl_prel L (if is_zero (fold_left _ _ (?Ya L)) then _ else _) (if is_zero (fold_left _ _ (?Yb L)) then _ else _) =>
    assert (HY : forall i, i <= L -> Ya i = Yb i); [| set (Y := Ya) in *; set (Y' := Yb) in * ] end.
  { destruct (convex || Nat.eqb L 1).
    - destruct (qr_solve_agree L (fun i j => M (1 + i)%nat (1 + j)%nat, fun _ => s0) (fun i j => M' (1 + i)%nat (1 + j)%nat, fun _ => s0)
                  (fun k => M 0 (1 + k)%nat) (fun k => M' 0 (1 + k)%nat) false) as (_ & Ey).
      { cbn [fst]. intros r c (Hr & Hc). apply HM; lia. }
      { intros k Hk. apply HM; lia. }
      destruct (qr_solve L (fun i j => M (1 + i)%nat (1 + j)%nat, fun _ => s0) (fun k => M 0 (1 + k)%nat) false) as [q y].
      destruct (qr_solve L (fun i j => M' (1 + i)%nat (1 + j)%nat, fun _ => s0) (fun k => M' 0 (1 + k)%nat) false) as [q' y'].
      cbn [snd] in Ey. intros i Hi. destruct (Nat.eqb i 0) eqn:E0; [reflexivity|].
      apply Nat.eqb_neq in E0. apply Ey. lia.
    - destruct (qr_solve_agree (L - 1) (fun i j => M (1 + i)%nat (1 + j)%nat, fun _ => s0) (fun i j => M' (1 + i)%nat (1 + j)%nat, fun _ => s0)
                  (fun k => M 0 (1 + k)%nat) (fun k => M' 0 (1 + k)%nat) false) as (Eq & Ey).
      { cbn [fst]. intros r c (Hr & Hc). apply HM; lia. }
      { intros k Hk. apply HM; lia. }
      destruct (qr_solve (L - 1) (fun i j => M (1 + i)%nat (1 + j)%nat, fun _ => s0) (fun k => M 0 (1 + k)%nat) false) as [q y].
      destruct (qr_solve (L - 1) (fun i j => M' (1 + i)%nat (1 + j)%nat, fun _ => s0) (fun k => M' 0 (1 + k)%nat) false) as [q' y'].
      cbn [fst snd] in Eq, Ey.
      destruct (qr_solve_agree (L - 1) q q' (fun k => M L (1 + k)%nat) (fun k => M' L (1 + k)%nat) true Eq) as (_ & Eyl).
      { intros k Hk. apply HM; lia. }
      destruct (qr_solve (L - 1) q (fun k => M L (1 + k)%nat) true) as [q2 yl].
      destruct (qr_solve (L - 1) q' (fun k => M' L (1 + k)%nat) true) as [q2' yl'].
      cbn [snd] in Eyl.
      assert (E0 : forall i, i <= L -> (if Nat.eqb i 0 then - s1 else if Nat.eqb i L then s0 else y (i - 1)%nat)
                                     = (if Nat.eqb i 0 then - s1 else if Nat.eqb i L then s0 else y' (i - 1)%nat)).
      { intros i Hi. destruct (Nat.eqb i 0) eqn:Ea; [reflexivity|]. destruct (Nat.eqb i L) eqn:Eb; [reflexivity|].
        apply Nat.eqb_neq in Ea. apply Nat.eqb_neq in Eb. apply Ey. lia. }
      assert (EL : forall i, i <= L -> (if Nat.eqb i 0 then s0 else if Nat.eqb i L then - s1 else yl (i - 1)%nat)
                                     = (if Nat.eqb i 0 then s0 else if Nat.eqb i L then - s1 else yl' (i - 1)%nat)).
      { intros i Hi. destruct (Nat.eqb i 0) eqn:Ea; [reflexivity|]. destruct (Nat.eqb i L) eqn:Eb; [reflexivity|].
        apply Nat.eqb_neq in Ea. apply Nat.eqb_neq in Eb. apply Eyl. lia. }
      match goal with |- context [fold_left ?F (seq 0 (SS L)) (s0, s0, s0)] => set (FA := F) end.
      match goal with |- context [fold_left ?F (seq 0 (SS L)) (s0, s0, s0)] =>
        lazymatch F with FA => fail | _ => set (FB := F) end end.
      assert (Ed : fold_left FA (seq 0 (SS L)) (s0, s0, s0) = fold_left FB (seq 0 (SS L)) (s0, s0, s0)).
      { apply fold_left_ext_in2; [reflexivity|]. intros [[d0 d1] dA] i Hi. apply in_seq in Hi. unfold FA, FB.
        match goal with |- context [fold_left ?G (seq 0 (SS L)) (s0, s0)] => set (GA := G) end.
        match goal with |- context [fold_left ?G (seq 0 (SS L)) (s0, s0)] =>
          lazymatch G with GA => fail | _ => set (GB := G) end end.
        assert (Ez : fold_left GA (seq 0 (SS L)) (s0, s0) = fold_left GB (seq 0 (SS L)) (s0, s0)).
        { apply fold_left_ext_in2; [reflexivity|]. intros z j Hj. apply in_seq in Hj. unfold GA, GB.
          rewrite (HM i j), (E0 j), (EL j) by lia. reflexivity. }
        rewrite Ez, (E0 i), (EL i) by lia. reflexivity. }
      rewrite Ed.
      destruct (fold_left FB (seq 0 (SS L)) (s0, s0, s0)) as [[dot0 dot1] dotA].
      destruct (negb (is_zero (ssqrt (sabs dot0))) && negb (is_zero (ssqrt (sabs dot1)))); [|exact E0].
      intros i Hi. rewrite (E0 i), (EL i) by exact Hi. reflexivity. }
  rewrite <- (HY L) by lia.
  assert (Eo : fold_left (fun om h => if is_zero om then Y h else om) (rev (seq 1 L)) (Y L)
             = fold_left (fun om h => if is_zero om then Y' h else om) (rev (seq 1 L)) (Y L)).
  { apply fold_left_ext_in2; [reflexivity|]. intros om h Hh. apply in_rev in Hh. apply in_seq in Hh.
    rewrite (HY h) by lia. reflexivity. }
  rewrite <- Eo. destruct (is_zero _); [exact I|]. split; [reflexivity | exact HY].
Qed.

Lemma bl_poly_agree L convex (R R' : nat -> vec) : 1 <= L -> (forall i, i <= L -> R i = R' i) ->
  bl_prel L (bl_poly L convex R) (bl_poly L convex R').
Proof.
  intros HL HR. rewrite !bl_poly_eq. apply bl_poly_M_agree; [exact HL|].
  intros i j Hi Hj. unfold bl_mzb. rewrite (HR i), (HR j) by assumption. reflexivity.
Qed.

Lemma bl_bicg_part_cons (A P : vec -> vec) left eps j tl (st : bl_st) :
  bl_bicg_part A P left eps (j :: tl) st =
    let w := t_ws st in
    let rho1 := ip (l_R w j) (l_Rt w) in
    if is_zero rho1 then BlExc else
    let beta := t_alpha st * (rho1 / t_rho0 st) in
    let U1 := fold_left (fun U i => upd U i (k_axpby s1 (l_R w i) (- beta) (U i))) (seq 0 (SS j)) (l_U w) in
    let '(uj1, T1) := pspmv left A P (U1 j) in
    let U2 := upd U1 (SS j) uj1 in
    let sigma := ip uj1 (l_Rt w) in
    if is_zero sigma then BlExc else
    let alpha := rho1 / sigma in
    let X := k_axpby alpha (U2 0) s1 (l_X w) in
    let R1 := fold_left (fun R i => upd R i (k_axpby (- alpha) (U2 (SS i)) s1 (R i))) (seq 0 (SS j)) (l_R w) in
    let '(rj1, T2) := pspmv left A P (R1 j) in
    let R2 := upd R1 (SS j) rj1 in
    let zeta := norm_a (R2 0) in
    let st' := mkBlSt (t_x st) (mkBlWs (l_Rt w) X (l_B w) T2 R2 U2) alpha rho1 (t_omega st)
                      zeta (smax zeta (t_rnc st)) (smax zeta (t_rnt st)) (t_it st) in
    if sltb zeta eps
    then BlDone (mkBlSt (t_x st) (t_ws st') alpha rho1 (t_omega st) zeta (t_rnc st') (t_rnt st') (t_it st + SS j)%nat)
    else bl_bicg_part A P left eps tl st'.
Proof. reflexivity. Qed.

(* two loop states agree on everything the code can still read; R[i], U[i] up to index j *)
Definition bl_rel (j : nat) (a b : bl_st) : Prop :=
  t_x a = t_x b /\ t_alpha a = t_alpha b /\ t_rho0 a = t_rho0 b /\ t_omega a = t_omega b /\
  t_zeta a = t_zeta b /\ t_rnc a = t_rnc b /\ t_rnt a = t_rnt b /\ t_it a = t_it b /\
  l_Rt (t_ws a) = l_Rt (t_ws b) /\ l_X (t_ws a) = l_X (t_ws b) /\ l_B (t_ws a) = l_B (t_ws b) /\
  forall i, i <= j -> l_R (t_ws a) i = l_R (t_ws b) i /\ l_U (t_ws a) i = l_U (t_ws b) i.
Definition bl_brel (j : nat) (a b : @bl_bicg S) : Prop :=
  match a, b with
  | BlExc, BlExc => True
  | BlDone x, BlDone y => bl_rel 0 x y
  | BlCont x, BlCont y => bl_rel j x y
  | _, _ => False
  end.

Lemma bl_rel_weaken j j' (a b : bl_st) : j' <= j -> bl_rel j a b -> bl_rel j' a b.
Proof.
  intros Hj (H1 & H2 & H3 & H4 & H5 & H6 & H7 & H8 & H9 & H10 & H11 & H12).
  unfold bl_rel. repeat (split; [assumption|]). intros i Hi. apply H12. lia.
Qed.

Lemma bl_bicg_part_agree (A P : vec -> vec) left eps : forall m j (a b : bl_st), bl_rel j a b ->
  bl_brel (j + m) (bl_bicg_part A P left eps (seq j m) a) (bl_bicg_part A P left eps (seq j m) b).
Proof.
  induction m as [|m IH]; intros j a b R.
  - simpl. rewrite Nat.add_0_r. exact R.
  - change (seq j (SS m)) with (j :: seq (SS j) m).
    destruct R as (Ex & Ea & Er & Eo & Ez & Ec & Et & Ei & ERt & EX & EB & ERU).
    rewrite !bl_bicg_part_cons. cbv zeta.
    set (wa := t_ws a) in *. set (wb := t_ws b) in *.
    rewrite <- ERt, <- (proj1 (ERU j (le_n j))), <- Ea, <- Er.
    destruct (is_zero (ip (l_R wa j) (l_Rt wa))); [exact I|].
    set (beta := t_alpha a * (ip (l_R wa j) (l_Rt wa) / t_rho0 a)).
    destruct (fold_upd_range (fun i (v : vec) => k_axpby s1 (l_R wa i) (- beta) v) 0 (SS j) (l_U wa)) as (Ua1 & Ua2).
    destruct (fold_upd_range (fun i (v : vec) => k_axpby s1 (l_R wb i) (- beta) v) 0 (SS j) (l_U wb)) as (Ub1 & Ub2).
    cbv zeta in Ua1, Ua2, Ub1, Ub2.
    set (U1a := fold_left (fun U i => upd U i (k_axpby s1 (l_R wa i) (- beta) (U i))) (seq 0 (SS j)) (l_U wa)) in *.
    set (U1b := fold_left (fun U i => upd U i (k_axpby s1 (l_R wb i) (- beta) (U i))) (seq 0 (SS j)) (l_U wb)) in *.
    assert (EU1 : forall i, i <= j -> U1a i = U1b i).
    { intros i Hi. rewrite Ua1, Ub1 by lia. destruct (ERU i Hi) as (E1 & E2). rewrite E1, E2. reflexivity. }
    rewrite <- (EU1 j (le_n j)).
    destruct (pspmv left A P (U1a j)) as [uj1 T1].
    destruct (is_zero (ip uj1 (l_Rt wa))); [exact I|].
    set (alpha := ip (l_R wa j) (l_Rt wa) / ip uj1 (l_Rt wa)).
    assert (EU2 : forall i, i <= SS j -> upd U1a (SS j) uj1 i = upd U1b (SS j) uj1 i).
    { intros i Hi. destruct (Nat.eq_dec i (SS j)) as [->|N]; [rewrite !upd_eq; reflexivity|].
      rewrite !upd_neq by exact N. apply EU1. lia. }
    set (U2a := upd U1a (SS j) uj1) in *. set (U2b := upd U1b (SS j) uj1) in *.
    destruct (fold_upd_range (fun i (v : vec) => k_axpby (- alpha) (U2a (SS i)) s1 v) 0 (SS j) (l_R wa)) as (Ra1 & Ra2).
    destruct (fold_upd_range (fun i (v : vec) => k_axpby (- alpha) (U2b (SS i)) s1 v) 0 (SS j) (l_R wb)) as (Rb1 & Rb2).
    cbv zeta in Ra1, Ra2, Rb1, Rb2.
    set (R1a := fold_left (fun R i => upd R i (k_axpby (- alpha) (U2a (SS i)) s1 (R i))) (seq 0 (SS j)) (l_R wa)) in *.
    set (R1b := fold_left (fun R i => upd R i (k_axpby (- alpha) (U2b (SS i)) s1 (R i))) (seq 0 (SS j)) (l_R wb)) in *.
    assert (ER1 : forall i, i <= j -> R1a i = R1b i).
    { intros i Hi. rewrite Ra1, Rb1 by lia. rewrite (EU2 (SS i)) by lia. destruct (ERU i Hi) as (E1 & _). rewrite E1. reflexivity. }
    rewrite <- (ER1 j (le_n j)).
    destruct (pspmv left A P (R1a j)) as [rj1 T2].
    assert (ER2 : forall i, i <= SS j -> upd R1a (SS j) rj1 i = upd R1b (SS j) rj1 i).
    { intros i Hi. destruct (Nat.eq_dec i (SS j)) as [->|N]; [rewrite !upd_eq; reflexivity|].
      rewrite !upd_neq by exact N. apply ER1. lia. }
    rewrite <- (ER2 0) by lia. rewrite <- (EU2 0) by lia. rewrite <- EX, <- Ex, <- Eo, <- Ec, <- Et, <- Ei, <- EB.
    set (zeta := norm_a (upd R1a (SS j) rj1 0)).
    assert (Rn : forall it, bl_rel (SS j)
       (mkBlSt (t_x a) (mkBlWs (l_Rt wa) (k_axpby alpha (U2a 0) s1 (l_X wa)) (l_B wa) T2 (upd R1a (SS j) rj1) U2a)
               alpha (ip (l_R wa j) (l_Rt wa)) (t_omega a) zeta (smax zeta (t_rnc a)) (smax zeta (t_rnt a)) it)
       (mkBlSt (t_x a) (mkBlWs (l_Rt wa) (k_axpby alpha (U2a 0) s1 (l_X wa)) (l_B wa) T2 (upd R1b (SS j) rj1) U2b)
               alpha (ip (l_R wa j) (l_Rt wa)) (t_omega a) zeta (smax zeta (t_rnc a)) (smax zeta (t_rnt a)) it)).
    { intro it. unfold bl_rel. cbn [t_x t_alpha t_rho0 t_omega t_zeta t_rnc t_rnt t_it t_ws l_Rt l_X l_B l_R l_U].
      repeat (split; [reflexivity|]). intros i Hi. split; [apply ER2 | apply EU2]; exact Hi. }
    destruct (sltb zeta eps).
    + cbn [t_ws t_rnc t_rnt]. apply (bl_rel_weaken (SS j) 0); [lia | apply Rn].
    + replace (j + SS m)%nat with (SS j + m)%nat by lia. apply IH. apply Rn.
Qed.

Lemma map_ext_seq {X} (g h : nat -> X) a m : (forall i, a <= i < a + m -> g i = h i) -> map g (seq a m) = map h (seq a m).
Proof. intro H. apply map_ext_in. intros i Hi. apply in_seq in Hi. apply H. lia. Qed.

Lemma bl_step_agree (A P : vec -> vec) prm eps zeta0 (a b : bl_st) : 1 <= p_L prm -> bl_rel 0 a b ->
  bl_brel 0 (bl_step A P prm eps zeta0 a) (bl_step A P prm eps zeta0 b).
Proof.
  intros HL R. unfold bl_step. cbv zeta.
  match goal with |- bl_brel 0 (match bl_bicg_part A P ?l eps ?js ?a1 with _ => _ end) (match bl_bicg_part _ _ _ _ _ ?b1 with _ => _ end) =>
    assert (R1 : bl_rel 0 a1 b1);
    [| pose proof (bl_bicg_part_agree A P l eps (p_L prm) 0 a1 b1 R1) as Q;
       destruct (bl_bicg_part A P l eps js a1) as [|sa|sa], (bl_bicg_part A P l eps js b1) as [|sb|sb];
       simpl in Q; try contradiction; try exact Q ] end.
  { destruct R as (Ex & Ea & Er & Eo & Ez & Ec & Et & Ei & ERt & EX & EB & ERU).
    unfold bl_rel. cbn [t_x t_alpha t_rho0 t_omega t_zeta t_rnc t_rnt t_it t_ws]. rewrite Eo, Er. auto 20. }
  set (L := p_L prm) in *.
  destruct Q as (Ex & Ea & Er & Eo & Ez & Ec & Et & Ei & ERt & EX & EB & ERU).
  set (wa := t_ws sa) in *. set (wb := t_ws sb) in *.
  pose proof (bl_poly_agree L (p_convex prm) (l_R wa) (l_R wb) HL (fun i Hi => proj1 (ERU i Hi))) as QP.
  destruct (bl_poly L (p_convex prm) (l_R wa)) as [[Y om]|], (bl_poly L (p_convex prm) (l_R wb)) as [[Y' om']|];
    simpl in QP; try contradiction; [|exact I].
  destruct QP as (<- & EY).
  assert (E1 : map (fun i => (Y (SS i), l_R wa i)) (seq 0 L) = map (fun i => (Y' (SS i), l_R wb i)) (seq 0 L)).
  { apply map_ext_seq. intros i Hi. rewrite EY by lia. destruct (ERU i ltac:(lia)) as (E & _). rewrite E. reflexivity. }
  assert (E2 : map (fun i => (- s1 * Y (SS i), l_U wa (SS i))) (seq 0 L) = map (fun i => (- s1 * Y' (SS i), l_U wb (SS i))) (seq 0 L)).
  { apply map_ext_seq. intros i Hi. rewrite EY by lia. destruct (ERU (SS i) ltac:(lia)) as (_ & E). rewrite E. reflexivity. }
  assert (E3 : map (fun i => (- s1 * Y (SS i), l_R wa (SS i))) (seq 0 L) = map (fun i => (- s1 * Y' (SS i), l_R wb (SS i))) (seq 0 L)).
  { apply map_ext_seq. intros i Hi. rewrite EY by lia. destruct (ERU (SS i) ltac:(lia)) as (E & _). rewrite E. reflexivity. }
  rewrite <- E1, <- E2, <- E3, <- EX, <- EB, <- ERt, <- Ex, <- Ea, <- Er, <- Ec, <- Et, <- Ei.
  destruct (ERU 0 ltac:(lia)) as (ER0 & EU0). rewrite <- ER0, <- EU0.
  set (X' := k_lin_comb (map (fun i => (Y (SS i), l_R wa i)) (seq 0 L)) s1 (l_X wa)).
  set (U0 := k_lin_comb (map (fun i => (- s1 * Y (SS i), l_U wa (SS i))) (seq 0 L)) s1 (l_U wa 0)).
  set (R0 := k_lin_comb (map (fun i => (- s1 * Y (SS i), l_R wa (SS i))) (seq 0 L)) s1 (l_R wa 0)).
  assert (Rn : forall x X B T r0 (Ra Rb Ua Ub : nat -> vec) al rh om' z c t it, Ra 0 = Rb 0 -> Ua 0 = Ub 0 ->
     bl_rel 0 (mkBlSt x (mkBlWs (l_Rt wa) X B T Ra Ua) al rh om' z c t it)
              (mkBlSt x (mkBlWs (l_Rt wa) X B r0 Rb Ub) al rh om' z c t it)).
  { intros. unfold bl_rel. cbn [t_x t_alpha t_rho0 t_omega t_zeta t_rnc t_rnt t_it t_ws l_Rt l_X l_B l_R l_U].
    repeat (split; [reflexivity|]). intros i Hi. assert (i = 0) by lia. subst i. split; assumption. }
  destruct (sltb _ (p_delta prm)); [|apply Rn; rewrite !upd_eq; reflexivity].
  destruct (pspmv (p_left prm) A P X') as [r0 T].
  destruct (_ || _); [|apply Rn; rewrite !upd_eq; reflexivity].
  destruct (_ && _); apply Rn; rewrite ?upd_eq; reflexivity.
Qed.

Lemma bl_loop_agree (A P : vec -> vec) prm eps zeta0 fuel : 1 <= p_L prm -> forall a b : bl_st, bl_rel 0 a b ->
  match bl_loop A P prm eps zeta0 fuel a, bl_loop A P prm eps zeta0 fuel b with
  | Some (x, o1), Some (y, o2) => bl_rel 0 x y /\ o1 = o2
  | None, None => True
  | _, _ => False
  end.
Proof.
  intro HL. induction fuel as [|k IH]; intros a b R; simpl;
    pose proof R as (_ & _ & _ & _ & Ez & _ & _ & Ei & _); rewrite <- Ez, <- Ei.
  - destruct (_ && _); split; auto.
  - destruct (_ && _); [|split; auto].
    pose proof (bl_step_agree A P prm eps zeta0 a b HL R) as Q.
    destruct (bl_step A P prm eps zeta0 a) as [|a'|a'], (bl_step A P prm eps zeta0 b) as [|b'|b']; simpl in Q; try contradiction.
    + exact I.
    + split; [exact Q | reflexivity].
    + apply IH. exact Q.
Qed.

(* the workspace was allocated for vectors of length n: X and U[0] are cleared, not assigned *)
Definition bl_sized (n : nat) (w : bl_ws) : Prop := length (l_X w) = n /\ length (l_U w 0) = n.

Theorem bicgstabl_junk_independent (A P : vec -> vec) prm (f x0 : vec) n (j1 j2 : bl_ws) : 1 <= p_L prm ->
  bl_sized n j1 -> bl_sized n j2 ->
  fst (bicgstabl A P prm f x0 j1) = fst (bicgstabl A P prm f x0 j2).
Proof.
  intros HL (X1 & U1) (X2 & U2). unfold bicgstabl. destruct (k_prologue norm_a prm f) as [nr|nr]; [reflexivity|].
  cbv zeta.
  assert (EB : fst (if p_left prm then (P (k_residual f (A x0)), k_residual f (A x0)) else (k_residual f (A x0), l_T j1))
             = fst (if p_left prm then (P (k_residual f (A x0)), k_residual f (A x0)) else (k_residual f (A x0), l_T j2)))
    by (destruct (p_left prm); reflexivity).
  destruct (if p_left prm then (P (k_residual f (A x0)), k_residual f (A x0)) else (k_residual f (A x0), l_T j1)) as [B T1].
  destruct (if p_left prm then (P (k_residual f (A x0)), k_residual f (A x0)) else (k_residual f (A x0), l_T j2)) as [B' T2].
  cbn [fst] in EB. subst B'.
  match goal with |- context [bl_loop A P prm ?e ?z ?fu ?sa] =>
    match goal with |- context [bl_loop A P prm e z fu ?sb] =>
      lazymatch sa with sb => fail | _ => idtac end;
      assert (R0 : bl_rel 0 sa sb);
      [| pose proof (bl_loop_agree A P prm e z fu HL sa sb R0) as Q;
         destruct (bl_loop A P prm e z fu sa) as [[a o1]|], (bl_loop A P prm e z fu sb) as [[b o2]|]; try contradiction; [|reflexivity] ]
    end end.
  { unfold bl_rel. cbn [t_x t_alpha t_rho0 t_omega t_zeta t_rnc t_rnt t_it t_ws l_Rt l_X l_B l_R l_U].
    repeat (split; [reflexivity|]). split; [apply k_clear_len_eq; congruence|]. split; [reflexivity|].
    intros i Hi. assert (i = 0) by lia. subst i. rewrite !upd_eq. split; [reflexivity | apply k_clear_len_eq; congruence]. }
  destruct Q as ((Ex & _ & _ & _ & Ez & _ & _ & Ei & _ & EX & _) & Eo).
  rewrite <- Ex, <- EX, <- Ez, <- Ei, <- Eo. destruct (p_left prm); reflexivity.
Qed.

End AnyScalar.

(* ================================================================== *)
(* commutative ring, linear A and P: R[0] = B - K X with B = the (preconditioned) residual of x *)
Section RingLaws.
Context {S : Scalar}.
Local Notation vec := (vec S).
Local Notation bl_st := (@bl_st S).
Local Notation bl_ws := (@bl_ws S).
Local Notation kprm := (@kprm S).
Hypothesis Srt : Sring S.
Hypothesis Seqb : seqb_spec S.
Add Ring SRingB : Srt.
Variable n : nat.
Variables A P : vec -> vec.
Hypothesis A_len : forall v, length v = n -> length (A v) = n.
Hypothesis P_len : forall v, length v = n -> length (P v) = n.
Hypothesis A_lin : linear_on n A.
Hypothesis P_lin : linear_on n P.
Variable left : bool.

Local Notation K := (Kop A P left).
Local Notation axpby_spec := (k_axpby_spec Srt Seqb).
Local Notation K_len := (Kop_len n A P A_len P_len left).

Lemma Kop_lin : linear_on n K.
Proof.
  intros a x y Lx Ly. unfold Kop. destruct left.
  - rewrite (A_lin a x y Lx Ly). apply P_lin; apply A_len; assumption.
  - rewrite (P_lin a x y Lx Ly). apply A_lin; apply P_len; assumption.
Qed.

Lemma pspmv_fst (F : vec) : fst (pspmv left A P F) = K F.
Proof. unfold pspmv, Kop. destruct left; reflexivity. Qed.
Lemma pspmv_snd_right (F : vec) : left = false -> snd (pspmv left A P F) = P F.
Proof. intro E. unfold pspmv. rewrite E. reflexivity. Qed.

Lemma k_axpby_n a (x : vec) b (y : vec) : length x = n -> length y = n -> length (k_axpby a x b y) = n.
Proof. intros Lx Ly. rewrite k_axpby_length; lia. Qed.

(* ---- backend::lin_comb with alpha = 1: y + sum c_i v_i ---- *)
Definition lc (cv : list (S * vec)) (y : vec) : vec :=
  fold_left (fun acc (p : S * vec) => vmap2 (fun a b => a + fst p * b) acc (snd p)) cv y.
Definition cv_n (cv : list (S * vec)) : Prop := forall p, In p cv -> length (snd p) = n.

Lemma lc_len cv : cv_n cv -> forall y : vec, length y = n -> length (lc cv y) = n.
Proof.
  induction cv as [|p tl IH]; intros H y Ly; simpl; [exact Ly|].
  apply IH; [intros q Hq; apply H; right; exact Hq|].
  rewrite vmap2_length, (H p (or_introl eq_refl)). lia.
Qed.

Lemma k_lin_comb_rest_lc cv :
  (cv_n cv -> forall y : vec, length y = n -> k_lin_comb_rest cv y = lc cv y) /\
  (forall p, cv_n (p :: cv) -> forall y : vec, length y = n -> k_lin_comb_rest (p :: cv) y = lc (p :: cv) y).
Proof.
  induction cv as [|q tl (IH1 & IH2)].
  - split; [reflexivity|]. intros [c1 v1] H y Ly. simpl.
    assert (L1 : length v1 = n) by (apply (H (c1, v1)); left; reflexivity).
    rewrite axpby_spec by lia. vec_ring2.
  - split; [apply IH2|]. intros [c1 v1] H y Ly. destruct q as [c2 v2].
    assert (L1 : length v1 = n) by (apply (H (c1, v1)); left; reflexivity).
    assert (L2 : length v2 = n) by (apply (H (c2, v2)); right; left; reflexivity).
    change (k_lin_comb_rest ((c1, v1) :: (c2, v2) :: tl) y) with (k_lin_comb_rest tl (k_axpbypcz c1 v1 c2 v2 s1 y)).
    rewrite IH1; [| intros p Hp; apply H; right; right; exact Hp | apply (k_axpbypcz_len3 n); assumption].
    simpl. f_equal. rewrite (k_axpbypcz_spec Srt Seqb) by lia. vec_ring2.
Qed.

Lemma k_lin_comb_lc cv (y : vec) : cv_n cv -> length y = n -> k_lin_comb cv s1 y = lc cv y.
Proof.
  intros H Ly. destruct cv as [|[c0 v0] tl]; [reflexivity|]. simpl.
  assert (L0 : length v0 = n) by (apply (H (c0, v0)); left; reflexivity).
  destruct (k_lin_comb_rest_lc tl) as (Q & _).
  rewrite Q; [| intros p Hp; apply H; right; exact Hp | apply k_axpby_n; assumption].
  f_equal. rewrite axpby_spec by lia. vec_ring2.
Qed.

Definition vsubK (B X : vec) : vec := vmap2 (fun b k => b - k) B (K X).

(* the polynomial update: X += sum g_i R[i-1], R[0] -= sum g_i R[i] keeps R[0] = B - K X
   when R[i] = K R[i-1] *)
Lemma poly_joint (Y : nat -> S) (R : nat -> vec) (B : vec) l : length B = n ->
  (forall i, In i l -> length (R i) = n /\ R (SS i) = K (R i)) ->
  forall aX aR : vec, length aX = n -> aR = vsubK B aX ->
  lc (map (fun i => (- s1 * Y (SS i), R (SS i))) l) aR
  = vsubK B (lc (map (fun i => (Y (SS i), R i)) l) aX).
Proof.
  intros LB. induction l as [|i tl IH]; intros H aX aR LX E; simpl; [exact E|].
  destruct (H i (or_introl eq_refl)) as (LR & ER).
  apply IH; [intros j Hj; apply H; right; exact Hj | rewrite vmap2_length; lia |].
  unfold vsubK. rewrite (Kop_lin (Y (SS i)) aX (R i) LX LR). rewrite E, ER. unfold vsubK. vec_ring2.
Qed.

(* ---- invariants ---- *)
Definition bl_base (f : vec) (st : bl_st) : Prop :=
  let w := t_ws st in
  length (t_x st) = n /\ length (l_X w) = n /\ l_B w = Rm A P left f (t_x st) /\ l_R w 0 = vsubK (l_B w) (l_X w).
Definition bl_chain (j : nat) (w : bl_ws) : Prop :=
  (forall i, i <= j -> length (l_R w i) = n /\ length (l_U w i) = n) /\
  (forall i, i < j -> l_R w (SS i) = K (l_R w i) /\ l_U w (SS i) = K (l_U w i)).
Definition bl_inv (f : vec) (st : bl_st) : Prop :=
  bl_base f st /\ length (l_U (t_ws st) 0) = n /\ t_zeta st = norm_a (l_R (t_ws st) 0).

Lemma bl_bicg_part_inv (f : vec) eps : length f = n -> forall m j (st : bl_st),
  bl_base f st -> bl_chain j (t_ws st) ->
  match bl_bicg_part A P left eps (seq j m) st with
  | BlExc => True
  | BlDone s => bl_inv f s
  | BlCont s => bl_base f s /\ bl_chain (j + m) (t_ws s)
  end.
Proof.
  intro Lf. induction m as [|m IH]; intros j st Hb Hc.
  - simpl. rewrite Nat.add_0_r. split; assumption.
  - change (seq j (SS m)) with (j :: seq (SS j) m). rewrite bl_bicg_part_cons. cbv zeta.
    destruct Hb as (Lx & LX & HB & HR). destruct Hc as (Hl & Hk).
    set (w := t_ws st) in *.
    destruct (is_zero (ip (l_R w j) (l_Rt w))); [exact I|].
    set (beta := t_alpha st * (ip (l_R w j) (l_Rt w) / t_rho0 st)).
    destruct (fold_upd_range (fun i (v : vec) => k_axpby s1 (l_R w i) (- beta) v) 0 (SS j) (l_U w)) as (U1a & U1b).
    cbv zeta in U1a, U1b.
    set (U1 := fold_left (fun U i => upd U i (k_axpby s1 (l_R w i) (- beta) (U i))) (seq 0 (SS j)) (l_U w)) in *.
    assert (U1v : forall i, i <= j -> U1 i = vmap2 (fun a b => a + - beta * b) (l_R w i) (l_U w i)).
    { intros i Hi. destruct (Hl i Hi) as (L1 & L2). rewrite U1a by lia. rewrite axpby_spec by lia. vec_ring2. }
    assert (U1l : forall i, i <= j -> length (U1 i) = n).
    { intros i Hi. destruct (Hl i Hi) as (L1 & L2). rewrite U1v by exact Hi. rewrite vmap2_length. lia. }
    assert (U1k : forall i, i < j -> U1 (SS i) = K (U1 i)).
    { intros i Hi. destruct (Hl i ltac:(lia)) as (L1 & L2). destruct (Hk i Hi) as (E1 & E2).
      rewrite !U1v by lia. rewrite (Kop_lin (- beta) _ _ L1 L2), E1, E2. reflexivity. }
    rewrite (surjective_pairing (pspmv left A P (U1 j))). rewrite pspmv_fst.
    set (U2 := upd U1 (SS j) (K (U1 j))).
    destruct (is_zero (ip (K (U1 j)) (l_Rt w))); [exact I|].
    set (alpha := ip (l_R w j) (l_Rt w) / ip (K (U1 j)) (l_Rt w)).
    assert (U2l : forall i, i <= SS j -> length (U2 i) = n).
    { intros i Hi. unfold U2. destruct (Nat.eq_dec i (SS j)) as [->|N].
      - rewrite upd_eq. apply K_len, U1l. lia.
      - rewrite upd_neq by exact N. apply U1l. lia. }
    assert (U2k : forall i, i < SS j -> U2 (SS i) = K (U2 i)).
    { intros i Hi. unfold U2. destruct (Nat.eq_dec i j) as [->|N].
      - rewrite upd_eq, upd_neq by lia. reflexivity.
      - rewrite !upd_neq by lia. apply U1k. lia. }
    destruct (fold_upd_range (fun i (v : vec) => k_axpby (- alpha) (U2 (SS i)) s1 v) 0 (SS j) (l_R w)) as (R1a & R1b).
    cbv zeta in R1a, R1b.
    set (R1 := fold_left (fun R i => upd R i (k_axpby (- alpha) (U2 (SS i)) s1 (R i))) (seq 0 (SS j)) (l_R w)) in *.
    assert (R1v : forall i, i <= j -> R1 i = vmap2 (fun a b => a + - alpha * b) (l_R w i) (U2 (SS i))).
    { intros i Hi. destruct (Hl i Hi) as (L1 & L2). pose proof (U2l (SS i) ltac:(lia)) as L3.
      rewrite R1a by lia. rewrite axpby_spec by lia. vec_ring2. }
    assert (R1l : forall i, i <= j -> length (R1 i) = n).
    { intros i Hi. destruct (Hl i Hi) as (L1 & L2). pose proof (U2l (SS i) ltac:(lia)) as L3.
      rewrite R1v by exact Hi. rewrite vmap2_length. lia. }
    assert (R1k : forall i, i < j -> R1 (SS i) = K (R1 i)).
    { intros i Hi. destruct (Hl i ltac:(lia)) as (L1 & L2). destruct (Hk i Hi) as (E1 & E2).
      pose proof (U2l (SS i) ltac:(lia)) as L3.
      rewrite !R1v by lia. rewrite (Kop_lin (- alpha) _ _ L1 L3), E1, (U2k (SS i)) by lia. reflexivity. }
    rewrite (surjective_pairing (pspmv left A P (R1 j))). rewrite pspmv_fst.
    set (R2 := upd R1 (SS j) (K (R1 j))).
    assert (R2l : forall i, i <= SS j -> length (R2 i) = n).
    { intros i Hi. unfold R2. destruct (Nat.eq_dec i (SS j)) as [->|N].
      - rewrite upd_eq. apply K_len, R1l. lia.
      - rewrite upd_neq by exact N. apply R1l. lia. }
    assert (R2k : forall i, i < SS j -> R2 (SS i) = K (R2 i)).
    { intros i Hi. unfold R2. destruct (Nat.eq_dec i j) as [->|N].
      - rewrite upd_eq, upd_neq by lia. reflexivity.
      - rewrite !upd_neq by lia. apply R1k. lia. }
    set (X' := k_axpby alpha (U2 0) s1 (l_X w)).
    assert (LX' : length X' = n) by (apply k_axpby_n; [apply U2l; lia | exact LX]).
    assert (HR' : R2 0 = vsubK (l_B w) X').
    { unfold R2. rewrite upd_neq by lia. rewrite R1v by lia. rewrite (U2k 0) by lia.
      pose proof (U2l 0 ltac:(lia)) as L0.
      unfold X'. rewrite axpby_spec by lia.
      replace (vmap2 (fun xi yi => alpha * xi + s1 * yi) (U2 0) (l_X w))
        with (vmap2 (fun xi yi => xi + alpha * yi) (l_X w) (U2 0)) by vec_ring2.
      unfold vsubK. rewrite (Kop_lin alpha _ _ LX L0). fold w. rewrite HR. unfold vsubK. vec_ring2. }
    assert (Hb' : forall a r0 om z c t it T, bl_base f (mkBlSt (t_x st) (mkBlWs (l_Rt w) X' (l_B w) T R2 U2) a r0 om z c t it)).
    { intros. unfold bl_base. cbn [t_x t_ws l_X l_B l_R]. auto. }
    destruct (sltb _ eps).
    + unfold bl_inv. cbn [t_ws t_zeta l_U l_R]. split; [apply Hb'|]. split; [apply U2l; lia | reflexivity].
    + match goal with |- match bl_bicg_part A P left eps _ ?s' with _ => _ end =>
        specialize (IH (SS j) s' (Hb' _ _ _ _ _ _ _ _)) end.
      cbn [t_ws] in IH. replace (j + SS m)%nat with (SS j + m)%nat by lia.
      apply IH. split; [intros i Hi; split; [apply R2l | apply U2l]; exact Hi |].
      intros i Hi. split; [apply R2k | apply U2k]; exact Hi.
Qed.

Lemma K_clear (z : vec) : length z = n -> K (k_clear z) = k_clear z.
Proof. apply (lin_clear Srt n K K_len Kop_lin). Qed.

Lemma vsubK_clear (B z : vec) : length B = n -> length z = n -> vsubK B (k_clear z) = B.
Proof.
  intros LB Lz. unfold vsubK. rewrite K_clear by exact Lz.
  rewrite (k_clear_len_eq z B) by lia. unfold k_clear. vec_ring2.
Qed.

(* moving the accumulated correction X into x: the (preconditioned) residual of x + Y X is B - K X *)
Lemma Rm_shift (f x X : vec) : length f = n -> length x = n -> length X = n ->
  Rm A P left f (if left then k_axpby s1 X s1 x else k_axpby s1 (P X) s1 x) = vsubK (Rm A P left f x) X /\
  length (if left then k_axpby s1 X s1 x else k_axpby s1 (P X) s1 x) = n.
Proof.
  intros Lf Lx LX.
  assert (E : (if left then k_axpby s1 X s1 x else k_axpby s1 (P X) s1 x)
              = vmap2 (fun xi yi => xi + s1 * yi) x (Yop P left X)).
  { unfold Yop. destruct left; rewrite axpby_spec by (rewrite ?P_len; lia); vec_ring2. }
  assert (LY : length (Yop P left X) = n) by (apply (Yop_len n P P_len); exact LX).
  split; [rewrite E | destruct left; apply k_axpby_n; auto].
  rewrite (Rm_update Srt n A P A_len A_lin P_lin left f x _ s1 Lf Lx LY).
  replace (Gop A P left (Yop P left X)) with (K X) by (unfold Gop, Yop, Kop; destruct left; reflexivity).
  unfold vsubK. vec_ring2.
Qed.

Lemma bl_step_inv (f : vec) prm eps zeta0 (st : bl_st) : p_left prm = left -> length f = n ->
  bl_inv f st ->
  match bl_step A P prm eps zeta0 st with
  | BlExc => True | BlDone s => bl_inv f s | BlCont s => bl_inv f s
  end.
Proof.
  intros El Lf (Hb & LU0 & Hz). unfold bl_step. cbv zeta. rewrite El.
  match goal with |- context [bl_bicg_part A P left eps (seq 0 ?L) ?s1'] =>
    assert (Hb1 : bl_base f s1') by exact Hb;
    assert (Hc1 : bl_chain 0 (t_ws s1'));
    [| pose proof (bl_bicg_part_inv f eps Lf L 0 s1' Hb1 Hc1) as Q;
       destruct (bl_bicg_part A P left eps (seq 0 L) s1') as [|s|s] ] end.
  { cbn [t_ws]. destruct Hb as (Lx & LX & HB & HR). split; [|intros i Hi; lia].
    intros i Hi. assert (i = 0) by lia. subst i. split; [|exact LU0].
    rewrite HR. unfold vsubK. rewrite vmap2_length, HB, K_len by exact LX.
    rewrite (Rm_len n A P A_len P_len) by assumption. lia. }
  - exact I.
  - exact Q.
  - simpl in Q. destruct Q as ((Lx & LX & HB & HR) & (Hl & Hk)).
    set (L := p_L prm) in *. set (w := t_ws s) in *.
    destruct (bl_poly L (p_convex prm) (l_R w)) as [[Y0 omega]|]; [|exact I].
    assert (LB : length (l_B w) = n) by (rewrite HB; apply (Rm_len n A P A_len P_len); assumption).
    (* the three linear combinations *)
    assert (CX : cv_n (map (fun i => (Y0 (SS i), l_R w i)) (seq 0 L))).
    { intros p Hp. apply in_map_iff in Hp as (i & <- & Hi). apply in_seq in Hi. apply Hl. lia. }
    assert (CU : cv_n (map (fun i => (- s1 * Y0 (SS i), l_U w (SS i))) (seq 0 L))).
    { intros p Hp. apply in_map_iff in Hp as (i & <- & Hi). apply in_seq in Hi. apply Hl. lia. }
    assert (CR : cv_n (map (fun i => (- s1 * Y0 (SS i), l_R w (SS i))) (seq 0 L))).
    { intros p Hp. apply in_map_iff in Hp as (i & <- & Hi). apply in_seq in Hi. apply Hl. lia. }
    destruct (Hl 0 ltac:(lia)) as (LR0 & LU00).
    rewrite (k_lin_comb_lc _ _ CX LX), (k_lin_comb_lc _ _ CU LU00), (k_lin_comb_lc _ _ CR LR0).
    set (X' := lc (map (fun i => (Y0 (SS i), l_R w i)) (seq 0 L)) (l_X w)).
    set (U0 := lc (map (fun i => (- s1 * Y0 (SS i), l_U w (SS i))) (seq 0 L)) (l_U w 0)).
    assert (LX' : length X' = n) by (apply lc_len; assumption).
    assert (LU0' : length U0 = n) by (apply lc_len; assumption).
    assert (ER0 : lc (map (fun i => (- s1 * Y0 (SS i), l_R w (SS i))) (seq 0 L)) (l_R w 0) = vsubK (l_B w) X').
    { apply poly_joint; [exact LB | | exact LX | exact HR].
      intros i Hi. apply in_seq in Hi. split; [apply Hl; lia | apply Hk; lia]. }
    rewrite ER0. set (R0 := vsubK (l_B w) X').
    assert (LR0' : length R0 = n) by (unfold R0, vsubK; rewrite vmap2_length, K_len by exact LX'; lia).
    (* the state without the accurate update *)
    assert (Inv1 : forall a r0 om c t it, bl_inv f (mkBlSt (t_x s) (mkBlWs (l_Rt w) X' (l_B w) (l_T w) (upd (l_R w) 0 R0) (upd (l_U w) 0 U0)) a r0 om (norm_a R0) c t it)).
    { intros. unfold bl_inv, bl_base. cbn [t_x t_ws t_zeta l_X l_B l_R l_U]. rewrite !upd_eq. auto 10. }
    destruct (sltb _ (p_delta prm)); [|apply Inv1].
    rewrite (surjective_pairing (pspmv left A P X')), pspmv_fst.
    assert (ER0' : k_axpby s1 (l_B w) (- s1) (K X') = R0).
    { rewrite axpby_spec by (rewrite K_len by exact LX'; lia). unfold R0, vsubK. vec_ring2. }
    rewrite ER0'.
    destruct (_ || _); [|apply Inv1].
    destruct (_ && _).
    + (* update_x *)
      assert (ET : (if left then k_axpby s1 X' s1 (t_x s) else k_axpby s1 (snd (pspmv left A P X')) s1 (t_x s))
                   = (if left then k_axpby s1 X' s1 (t_x s) else k_axpby s1 (P X') s1 (t_x s))).
      { destruct left; reflexivity. }
      rewrite ET. destruct (Rm_shift f (t_x s) X' Lf Lx LX') as (E1 & E2).
      unfold bl_inv, bl_base. cbn [t_x t_ws t_zeta l_X l_B l_R l_U]. rewrite !upd_eq.
      split; [|split; [exact LU0' | reflexivity]].
      split; [exact E2|]. split; [rewrite k_clear_length; exact LX'|]. split.
      * rewrite E1, <- HB. reflexivity.
      * symmetry. apply vsubK_clear; assumption.
    + unfold bl_inv, bl_base. cbn [t_x t_ws t_zeta l_X l_B l_R l_U]. rewrite !upd_eq. auto 10.
Qed.

Lemma bl_loop_inv (f : vec) prm eps zeta0 fuel : p_left prm = left -> length f = n -> forall (st s : bl_st) oof,
  bl_inv f st -> bl_loop A P prm eps zeta0 fuel st = Some (s, oof) -> bl_inv f s.
Proof.
  intros El Lf. induction fuel as [|k IH]; intros st s oof I0; simpl.
  - destruct (_ && _); intro H; inversion H; subst; exact I0.
  - destruct (_ && _); [|intro H; inversion H; subst; exact I0].
    pose proof (bl_step_inv f prm eps zeta0 st El Lf I0) as Q.
    destruct (bl_step A P prm eps zeta0 st) as [|s'|s']; [discriminate | |].
    + intro H; inversion H; subst; exact Q.
    + apply IH. exact Q.
Qed.

Theorem bicgstabl_residual_truthful prm (f x0 : vec) junk nr r w :
  p_left prm = left -> length f = n -> length x0 = n -> bl_sized n junk ->
  k_prologue norm_a prm f = Go nr ->
  bicgstabl A P prm f x0 junk = (KOk r, w) ->
  k_res r = true_res norm_a A P left f (k_x r) / nr.
Proof.
  intros El Lf Lx (ZX & ZU) Hp. unfold bicgstabl. rewrite Hp. cbv zeta. rewrite El.
  set (B := Rm A P left f x0).
  assert (EB : (if left then (P (k_residual f (A x0)), k_residual f (A x0)) else (k_residual f (A x0), l_T junk))
             = (B, if left then k_residual f (A x0) else l_T junk)) by (unfold B, Rm; destruct left; reflexivity).
  rewrite EB.
  assert (LB : length B = n) by (apply (Rm_len n A P A_len P_len); assumption).
  match goal with |- context [bl_loop A P prm ?e ?z ?fu ?st] =>
    assert (I0 : bl_inv f st);
    [| destruct (bl_loop A P prm e z fu st) as [[st' oof]|] eqn:E; [|discriminate];
       apply (bl_loop_inv f prm _ _ _ El Lf _ _ _ I0) in E ] end.
  { unfold bl_inv, bl_base. cbn [t_x t_ws t_zeta l_X l_B l_R l_U]. rewrite !upd_eq.
    split; [|split; [rewrite k_clear_length; exact ZU | reflexivity]].
    split; [exact Lx|]. split; [rewrite k_clear_length; exact ZX|]. split; [reflexivity|].
    symmetry. apply vsubK_clear; assumption. }
  destruct E as ((Lx' & LX' & HB & HR) & _ & Hz).
  destruct (Rm_shift f (t_x st') (l_X (t_ws st')) Lf Lx' LX') as (E1 & _).
  assert (Ex : (if left then (k_axpby s1 (l_X (t_ws st')) s1 (t_x st'), l_T (t_ws st'))
                else (k_axpby s1 (P (l_X (t_ws st'))) s1 (t_x st'), P (l_X (t_ws st'))))
             = (if left then k_axpby s1 (l_X (t_ws st')) s1 (t_x st') else k_axpby s1 (P (l_X (t_ws st'))) s1 (t_x st'),
                if left then l_T (t_ws st') else P (l_X (t_ws st')))) by (destruct left; reflexivity).
  rewrite Ex. intro H; inversion H; subst; clear H. cbn [k_res k_x].
  unfold true_res. change (if left then P (k_residual f (A ?x)) else k_residual f (A ?x)) with (Rm A P left f x).
  rewrite E1, <- HB, <- HR, Hz. reflexivity.
Qed.

(* an initial guess whose (preconditioned) residual is below the tolerance: the loop is not entered,
   x + (cleared X) = x is returned; needs the ring laws (and P 0 = 0 for right preconditioning) *)
Theorem bicgstabl_converged_guess prm (f x0 : vec) junk nr :
  p_left prm = left -> length f = n -> length x0 = n -> bl_sized n junk ->
  k_prologue norm_a prm f = Go nr ->
  sltb (true_res norm_a A P left f x0) (smax (p_tol prm * nr) (p_abstol prm)) = true ->
  fst (bicgstabl A P prm f x0 junk) = KOk (mkRes 0 (true_res norm_a A P left f x0 / nr) x0 false).
Proof.
  intros El Lf Lx (ZX & ZU) Hp Hc. unfold bicgstabl. rewrite Hp. cbv zeta. rewrite El.
  unfold true_res in *. change (if left then P (k_residual f (A x0)) else k_residual f (A x0)) with (Rm A P left f x0) in *.
  set (B := Rm A P left f x0) in *.
  assert (EB : (if left then (P (k_residual f (A x0)), k_residual f (A x0)) else (k_residual f (A x0), l_T junk))
             = (B, if left then k_residual f (A x0) else l_T junk)) by (unfold B, Rm; destruct left; reflexivity).
  rewrite EB.
  assert (EL : forall fuel st, t_zeta st = norm_a B ->
     bl_loop A P prm (smax (p_tol prm * nr) (p_abstol prm)) (norm_a B) fuel st = Some (st, false)).
  { intros fuel st Ez. destruct fuel; simpl; rewrite Ez, Hc, Bool.andb_false_r; reflexivity. }
  rewrite EL by reflexivity. cbn [t_ws t_x t_it t_zeta l_X].
  assert (Ex : (if left then k_axpby s1 (k_clear (l_X junk)) s1 x0 else k_axpby s1 (P (k_clear (l_X junk))) s1 x0) = x0).
  { rewrite (lin_clear Srt n P P_len P_lin _ ZX). rewrite (k_clear_len_eq (l_X junk) x0) by lia.
    assert (E : k_axpby s1 (k_clear x0) s1 x0 = x0).
    { rewrite axpby_spec by (rewrite k_clear_length; lia). unfold k_clear. vec_ring2. }
    destruct left; exact E. }
  destruct left; cbn [fst]; rewrite Ex; reflexivity.
Qed.

End RingLaws.
