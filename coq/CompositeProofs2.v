(* CompositeProofs2.v -- C18-A1 (part): gather (x2u, x2p) followed by scatter (u2x, p2x) is the
   identity, for every mask (any Scalar). *)
From Amgcl Require Import Scalar Vec Crs Kernels MatOps Adapters Composite.

Section GatherScatter.
Context {S : Scalar}.
Local Notation vec := (vec S).

Lemma vget_app_len (p : vec) (a : S) (g : vec) : vget (p ++ a :: g) (length p) = a.
Proof. unfold vget. rewrite app_nth2 by apply le_n. rewrite Nat.sub_diag. reflexivity. Qed.

Lemma scatter_gather_gen (mask : list bool) : forall (x : vec) nu0 np0 (pu pp : vec),
  length x = length mask -> length pu = nu0 -> length pp = np0 ->
  map (fun mi : bool * nat => if fst mi then vget (pp ++ gather mask true x) (snd mi)
                              else vget (pu ++ gather mask false x) (snd mi))
      (combine mask (idx_from mask nu0 np0)) = x.
Proof.
  induction mask as [|m mask IH]; intros x nu0 np0 pu pp Hl Hu Hp.
  - destruct x; [reflexivity|discriminate].
  - destruct x as [|a x]; [discriminate|]. simpl in Hl.
    destruct m; unfold gather; simpl; fold (gather mask true x); fold (gather mask false x).
    + f_equal; [rewrite <- Hp; apply vget_app_len|].
      specialize (IH x nu0 (Datatypes.S np0) pu (pp ++ [a])).
      rewrite <- app_assoc in IH. simpl in IH. apply IH; [lia|exact Hu|rewrite app_length; simpl; lia].
    + f_equal; [rewrite <- Hu; apply vget_app_len|].
      specialize (IH x (Datatypes.S nu0) np0 (pu ++ [a]) pp).
      rewrite <- app_assoc in IH. simpl in IH. apply IH; [lia|rewrite app_length; simpl; lia|exact Hp].
Qed.

Theorem scatter_gather (mask : list bool) (x : vec) : length x = length mask ->
  scatter_up mask (gather mask false x) (gather mask true x) = x.
Proof.
  intro H. unfold scatter_up, mask_idx.
  exact (scatter_gather_gen mask x 0 0 [] [] H eq_refl eq_refl).
Qed.
End GatherScatter.
