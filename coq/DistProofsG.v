(* DistProofsG.v -- C11: the distributed Gershgorin estimate (Dist.dist_gershgorin, model of
   amgcl/mpi/distributed_matrix.hpp:1159-1190 after the fixes ed6ca09 and 18c5201) is, on every
   rank, the serial estimate Cheby.gershgorin of the assembled matrix -- for every contiguous
   partition (empty ranks included) and every assignment of contiguous row chunks to OpenMP threads.

   Hypotheses: [sltb] is a strict total order (for std::max), [+] is a commutative monoid (from the
   ring laws; "sum over the local part + sum over the remote part = sum over the row"). *)
From Coq Require Import QArith Qcanon.
From Amgcl Require Import Scalar QcInst Vec Crs Kernels MatOps Cheby Dist DistProofs.
Local Open Scope nat_scope.

Section ListG.
Context {X Y : Type}.

Definition indexed_from (b : nat) (l : list X) : list (nat * X) := combine (seq b (length l)) l.

Lemma indexed_is_from (l : list X) : indexed l = indexed_from 0 l.
Proof. reflexivity. Qed.

Lemma indexed_from_app (b : nat) (l1 l2 : list X) :
  indexed_from b (l1 ++ l2) = indexed_from b l1 ++ indexed_from (b + length l1) l2.
Proof.
  unfold indexed_from. revert b; induction l1 as [|a l1 IH]; intro b; simpl.
  - rewrite Nat.add_0_r. reflexivity.
  - f_equal. rewrite IH. do 3 f_equal. lia.
Qed.

Lemma combine_seq_shift (b c : nat) (l : list X) :
  combine (seq (b + c) (length l)) l = map (fun ix => (b + fst ix, snd ix)) (combine (seq c (length l)) l).
Proof.
  revert c; induction l as [|a l IH]; intro c; simpl; [reflexivity|].
  f_equal. rewrite <- IH. do 2 f_equal. lia.
Qed.

Lemma indexed_from_shift (b : nat) (l : list X) :
  indexed_from b l = map (fun ix => (b + fst ix, snd ix)) (indexed_from 0 l).
Proof. unfold indexed_from. rewrite <- combine_seq_shift, Nat.add_0_r. reflexivity. Qed.

(* the rows of the ranks, numbered from the rank's first global row, are the globally numbered rows *)
Lemma indexed_chunks (parts : list nat) : forall (b : nat) (l : list X), length l <= psum parts ->
  concat (map (fun q => indexed_from (b + pbeg parts q) (nth q (chunks parts l) [])) (seq 0 (length parts)))
  = indexed_from b l.
Proof.
  induction parts as [|p ps IH]; intros b l H.
  - simpl in *. destruct l; simpl in *; [reflexivity|lia].
  - cbn [length chunks seq map concat nth]. 
    rewrite <- seq_shift, map_map. cbn [nth].
    change (pbeg (p :: ps) 0) with 0. rewrite Nat.add_0_r.
    replace (indexed_from b l) with (indexed_from b (firstn p l ++ skipn p l)) by (rewrite firstn_skipn; reflexivity).
    rewrite indexed_from_app. f_equal.
    rewrite <- (IH (b + length (firstn p l)) (skipn p l)) by (simpl in H; rewrite skipn_length; lia).
    f_equal. apply map_ext_in. intros q Hq. apply in_seq in Hq.
    change (pbeg (p :: ps) (S q)) with (p + pbeg ps q).
    destruct (Nat.le_gt_cases p (length l)) as [Hle|Hgt].
    + rewrite firstn_length_le by exact Hle. f_equal. lia.
    + assert (E : skipn p l = []) by (apply skipn_all2; lia).
      rewrite E. assert (N : nth q (chunks ps (@nil X)) [] = []).
      { rewrite nth_chunks by lia. rewrite skipn_nil, firstn_nil. reflexivity. }
      rewrite N. reflexivity.
Qed.

Lemma map_combine_maps (f : X -> Y) (g : X -> Y) (l : list X) :
  combine (map f l) (map g l) = map (fun x => (f x, g x)) l.
Proof. induction l as [|a l IH]; simpl; [reflexivity|f_equal; exact IH]. Qed.

End ListG.

Section Gersh.
Context {S : Scalar}.
Local Notation vec := (vec S).
Local Notation row := (row S).
Local Notation crs := (crs S).
Local Open Scope S_scope.

(* ---- std::max over a strict total order ---- *)
Hypothesis lt_irrefl : forall x : S, sltb x x = false.
Hypothesis lt_trans  : forall x y z : S, sltb x y = true -> sltb y z = true -> sltb x z = true.
Hypothesis lt_total  : forall x y : S, sltb x y = false -> sltb y x = false -> x = y.
(* ---- + is a commutative monoid ---- *)
Hypothesis Srt : Sring S.
Add Ring SRingDistG : Srt.

Definition sle (x y : S) : Prop := sltb y x = false.

Lemma sle_refl (x : S) : sle x x.
Proof. apply lt_irrefl. Qed.

Lemma sle_trans (x y z : S) : sle x y -> sle y z -> sle x z.
Proof.
  unfold sle. intros Hxy Hyz. destruct (sltb z x) eqn:Hzx; [|reflexivity].
  destruct (sltb x y) eqn:E.
  - rewrite (lt_trans z x y Hzx E) in Hyz. discriminate.
  - assert (x = y) by (apply lt_total; assumption). subst. congruence.
Qed.

Lemma slt_le (x y : S) : sltb x y = true -> sle x y.
Proof.
  unfold sle. intro H. destruct (sltb y x) eqn:E; [|reflexivity].
  rewrite <- (lt_irrefl x). symmetry. apply (lt_trans x y x); assumption.
Qed.

Lemma sle_antisym (x y : S) : sle x y -> sle y x -> x = y.
Proof. unfold sle. intros H1 H2. apply lt_total; assumption. Qed.

Lemma smax_l (x y : S) : sle x (smax x y).
Proof. unfold smax. destruct (sltb x y) eqn:E; [apply slt_le; exact E|apply sle_refl]. Qed.

Lemma smax_r (x y : S) : sle y (smax x y).
Proof. unfold smax. destruct (sltb x y) eqn:E; [apply sle_refl|exact E]. Qed.

Lemma smax_lub (x y z : S) : sle x z -> sle y z -> sle (smax x y) z.
Proof. unfold smax. destruct (sltb x y); auto. Qed.

Lemma smax_eq_l (x y : S) : sle y x -> smax x y = x.
Proof. unfold smax, sle. intros ->. reflexivity. Qed.

Lemma smax_assoc (x y z : S) : smax (smax x y) z = smax x (smax y z).
Proof.
  apply sle_antisym.
  - apply smax_lub; [apply smax_lub|].
    + apply smax_l.
    + apply (sle_trans _ (smax y z)); [apply smax_l|apply smax_r].
    + apply (sle_trans _ (smax y z)); [apply smax_r|apply smax_r].
  - apply smax_lub; [|apply smax_lub].
    + apply (sle_trans _ (smax x y)); [apply smax_l|apply smax_l].
    + apply (sle_trans _ (smax x y)); [apply smax_r|apply smax_l].
    + apply smax_r.
Qed.

(* running maximum from a start value *)
Definition mx (a : S) (l : list S) : S := fold_left smax l a.

Lemma mx_smax (a b : S) (l : list S) : mx (smax a b) l = smax a (mx b l).
Proof.
  unfold mx. revert b; induction l as [|c l IH]; intro b; simpl; [reflexivity|].
  rewrite smax_assoc. apply IH.
Qed.

Lemma mx_ge (a : S) (l : list S) : sle a (mx a l).
Proof.
  unfold mx. revert a; induction l as [|c l IH]; intro a; simpl; [apply sle_refl|].
  apply (sle_trans _ (smax a c)); [apply smax_l|apply IH].
Qed.

Lemma mx_app (a : S) (l1 l2 : list S) : mx a (l1 ++ l2) = mx (mx a l1) l2.
Proof. unfold mx. apply fold_left_app. Qed.

Lemma smax_mx_s0 (r : S) (l : list S) : sle s0 r -> smax r (mx s0 l) = mx r l.
Proof. intro H. rewrite <- mx_smax. rewrite smax_eq_l by exact H. reflexivity. Qed.

Lemma fold_smax_map {X} (f : X -> S) (l : list X) (a : S) :
  fold_left (fun em x => smax em (f x)) l a = mx a (map f l).
Proof. unfold mx. revert a; induction l as [|x l IH]; intro a; simpl; [reflexivity|apply IH]. Qed.

(* threads: per-chunk maxima from 0, combined from a start value >= 0 = the maximum over all rows *)
Lemma chunks_mx {X} (f : X -> S) : forall (lens : list nat) (l : list X) (r0 : S),
  sle s0 r0 -> length l <= psum lens ->
  fold_left (fun r ch => smax r (mx s0 (map f ch))) (chunks lens l) r0 = mx r0 (map f l).
Proof.
  induction lens as [|n ns IH]; intros l r0 Hr Hl; simpl in *.
  - destruct l; simpl in *; [reflexivity|lia].
  - rewrite smax_mx_s0 by exact Hr. rewrite IH.
    + rewrite <- mx_app, <- map_app, firstn_skipn. reflexivity.
    + apply (sle_trans _ r0); [exact Hr|apply mx_ge].
    + rewrite skipn_length. lia.
Qed.

(* ranks: Allreduce(MAX) in rank order of per-rank maxima from 0 = the maximum over all rows *)
Lemma ranks_mx (Ls : list (list S)) (r : S) : sle s0 r ->
  fold_left smax (map (mx s0) Ls) r = mx r (concat Ls).
Proof.
  revert r; induction Ls as [|L Ls IH]; intros r Hr; simpl; [reflexivity|].
  rewrite smax_mx_s0 by exact Hr. rewrite mx_app. apply IH.
  apply (sle_trans _ r); [exact Hr|apply mx_ge].
Qed.

(* ---- one row ---- *)
Definition sumr (r : row) : S := fold_right (fun e acc => sabs (snd e) + acc) s0 r.
Definition ldia (scale : bool) (i : nat) (r : row) (d : S) : S :=
  fold_left (fun d e => if scale && Nat.eqb (fst e) i then snd e else d) r d.

Lemma abs_fold (r : row) (a : S) : fold_left (fun a e => a + sabs (snd e)) r a = a + sumr r.
Proof.
  revert a; induction r as [|e r IH]; intro a; simpl; [ring|]. rewrite IH. ring.
Qed.

Lemma pair_fold (scale : bool) (i : nat) (r : row) (a d : S) :
  fold_left (fun (sd : S * S) e =>
      (fst sd + sabs (snd e), if scale && Nat.eqb (fst e) i then snd e else snd sd)) r (a, d)
  = (a + sumr r, ldia scale i r d).
Proof.
  unfold ldia. revert a d; induction r as [|e r IH]; intros a d; simpl.
  - f_equal. ring.
  - rewrite IH. f_equal. ring.
Qed.

Lemma sumr_filter_split (p : nat * S -> bool) (r : row) :
  sumr (filter p r) + sumr (filter (fun e => negb (p e)) r) = sumr r.
Proof.
  induction r as [|e r IH]; simpl; [ring|].
  destruct (p e); simpl; rewrite <- IH; ring.
Qed.

Lemma sumr_reindex (g : nat -> nat) (r : row) : sumr (map (fun e => (g (fst e), snd e)) r) = sumr r.
Proof. induction r as [|e r IH]; simpl; [reflexivity|rewrite IH; reflexivity]. Qed.

(* the diagonal test on local numbers = the diagonal test on global numbers *)
Lemma ldia_loc_row (scale : bool) (b n g : nat) (r : row) (d : S) : in_range b n g = true ->
  ldia scale (g - b) (loc_row b n r) d = ldia scale g r d.
Proof.
  intro Hg. unfold ldia, loc_row. revert d; induction r as [|e r IH]; intro d; simpl; [reflexivity|].
  unfold in_range in Hg. apply andb_prop in Hg as [Hg1 Hg2].
  apply Nat.leb_le in Hg1. apply Nat.ltb_lt in Hg2.
  destruct (in_range b n (fst e)) eqn:E; simpl.
  - unfold in_range in E. apply andb_prop in E as [E1 E2]. apply Nat.leb_le in E1.
    assert (Q : Nat.eqb (fst e - b) (g - b) = Nat.eqb (fst e) g).
    { destruct (Nat.eqb_spec (fst e) g) as [->|N]; [apply Nat.eqb_refl|apply Nat.eqb_neq; lia]. }
    rewrite Q. apply IH.
  - assert (Q : Nat.eqb (fst e) g = false).
    { apply Nat.eqb_neq. intro Heq. rewrite Heq in E. unfold in_range in E.
      apply Bool.andb_false_iff in E as [E|E]; [apply Nat.leb_gt in E|apply Nat.ltb_ge in E]; lia. }
    rewrite Q, Bool.andb_false_r. apply IH.
Qed.

Lemma dgersh_row_split (scale : bool) (b n g : nat) (r : row) : in_range b n g = true ->
  dgersh_row scale (g - b) (loc_row b n r) (rem_row b n r) = gersh_row scale g r.
Proof.
  intro Hg. unfold dgersh_row, gersh_row. rewrite !pair_fold. rewrite abs_fold.
  rewrite (ldia_loc_row scale b n g r s1 Hg).
  assert (E : s0 + sumr (loc_row b n r) + sumr (rem_row b n r) = s0 + sumr r).
  { unfold loc_row, rem_row. rewrite (sumr_reindex (fun c => (c - b)%nat)).
    rewrite <- (sumr_filter_split (fun e => in_range b n (fst e)) r). ring. }
  rewrite E. reflexivity.
Qed.

(* ---- one rank ---- *)
Definition grow (scale : bool) (ir : nat * row) : S := gersh_row scale (fst ir) (snd ir).

Lemma rank_rows_spec (scale : bool) (b n gc : nat) (rws : list row) : length rws <= n ->
  map (fun ir : nat * (row * row) => dgersh_row scale (fst ir) (fst (snd ir)) (snd (snd ir)))
      (indexed (combine (rows (rm_loc (split_rows b n gc rws))) (rows (rm_rem (split_rows b n gc rws)))))
  = map (grow scale) (indexed_from b rws).
Proof.
  intro Hn. unfold split_rows. simpl. rewrite map_combine_maps.
  rewrite (indexed_from_shift b rws). rewrite map_map.
  unfold indexed, indexed_from. rewrite map_length.
  set (ix := seq 0 (length rws)).
  assert (Hix : forall i, In i ix -> i < n) by (intros i Hi; apply in_seq in Hi; lia).
  clearbody ix. revert ix Hix. induction rws as [|rw rws IH]; intros ix Hix; destruct ix as [|i ix]; simpl; try reflexivity.
  f_equal.
  - unfold grow. simpl. rewrite <- (dgersh_row_split scale b n (b + i) rw).
    + replace (b + i - b)%nat with i by lia. reflexivity.
    + unfold in_range. apply andb_true_intro. split; [apply Nat.leb_le; lia|apply Nat.ltb_lt].
      assert (i < n) by (apply Hix; left; reflexivity). lia.
  - apply IH; [simpl in Hn; lia|]. intros j Hj. apply Hix. right. exact Hj.
Qed.

Lemma fold_left_ext' {A B} (f g : A -> B -> A) (l : list B) (a : A) :
  (forall a x, f a x = g a x) -> fold_left f l a = fold_left g l a.
Proof. intro H. revert a; induction l as [|x l IH]; intro a; simpl; [reflexivity|]. rewrite H. apply IH. Qed.

Lemma rank_gershgorin_thr_spec (scale : bool) (lens : list nat) (b n gc : nat) (rws : list row) :
  length rws <= n -> length rws <= psum lens ->
  rank_gershgorin_thr scale lens (split_rows b n gc rws) = mx s0 (map (grow scale) (indexed_from b rws)).
Proof.
  intros Hn Hl. unfold rank_gershgorin_thr.
  rewrite <- (rank_rows_spec scale b n gc rws Hn).
  set (L := indexed _).
  assert (HL : length L <= psum lens).
  { unfold L, indexed, split_rows. simpl. rewrite combine_length, seq_length, combine_length, !map_length. lia. }
  clearbody L.
  rewrite <- (chunks_mx (fun ir : nat * (row * row) => dgersh_row scale (fst ir) (fst (snd ir)) (snd (snd ir)))
                        lens L s0 (sle_refl s0) HL).
  apply fold_left_ext'. intros a ch. unfold dgersh_chunk. rewrite fold_smax_map. reflexivity.
Qed.

(* ---- the world ---- *)
Lemma smax_eq_r (x y : S) : sle x y -> smax x y = y.
Proof. intro H. apply sle_antisym; [apply smax_lub; [exact H|apply sle_refl]|apply smax_r]. Qed.

Lemma gershgorin_mx (scale : bool) (A : crs) :
  gershgorin scale A = gersh_final (mx s0 (map (grow scale) (indexed (rows A)))).
Proof.
  unfold gershgorin, gersh_final. rewrite (fold_smax_map (grow scale)).
  rewrite smax_eq_r by apply mx_ge. reflexivity.
Qed.

Lemma map_repeat' {A B} (f : A -> B) (v : A) (n : nat) : map f (repeat v n) = repeat (f v) n.
Proof. induction n; simpl; [reflexivity|f_equal; assumption]. Qed.

Lemma allreduce_max_mx (Ls : list (list S)) :
  allreduce_max (map (mx s0) Ls) = repeat (mx s0 (concat Ls)) (length Ls).
Proof.
  destruct Ls as [|a t]; [reflexivity|].
  unfold allreduce_max. cbn [map]. rewrite ranks_mx by apply mx_ge.
  rewrite <- mx_app. change (a ++ concat t) with (concat (a :: t)).
  change (mx s0 a :: map (mx s0) t) with (map (mx s0) (a :: t)).
  rewrite map_const, map_length. reflexivity.
Qed.

Theorem dist_gershgorin_thr_split (scale : bool) (lenss : list (list nat)) (A : crs) (parts : list nat) :
  psum parts = nrows A ->
  (forall r, r < length parts -> psize parts r <= psum (nth r lenss [])) ->
  dist_gershgorin_thr scale lenss (split A parts parts) = dist_gershgorin_spec scale A (length parts).
Proof.
  intros Hp Hl. unfold dist_gershgorin_thr, dist_gershgorin_spec.
  change (dm_cparts (split A parts parts)) with parts.
  set (I := fun r => indexed_from (0 + pbeg parts r) (nth r (chunks parts (rows A)) [])).
  assert (E : map (fun r => rank_gershgorin_thr scale (nth r lenss []) (nth r (dm_ranks (split A parts parts)) dflt_rank))
                  (seq 0 (length parts))
              = map (mx s0) (map (map (grow scale)) (map I (seq 0 (length parts))))).
  { rewrite !map_map. apply map_ext_in. intros r Hr. apply in_seq in Hr.
    unfold split. cbn [dm_ranks]. rewrite nth_map_seq by lia.
    unfold split_rank. 
    assert (Hc : length (nth r (chunks parts (rows A)) []) <= psize parts r).
    { rewrite nth_chunks by lia. rewrite firstn_length. unfold psize. lia. }
    rewrite (rank_gershgorin_thr_spec scale (nth r lenss []) (pbeg parts r) (psize parts r) (ncols A) _ Hc).
    - reflexivity.
    - specialize (Hl r ltac:(lia)). lia. }
  rewrite E. rewrite allreduce_max_mx. rewrite !map_length, seq_length.
  rewrite <- concat_map. unfold I. rewrite indexed_chunks by (unfold nrows in Hp; lia).
  rewrite <- indexed_is_from. rewrite map_repeat'. rewrite <- gershgorin_mx. reflexivity.
Qed.

Theorem dist_gershgorin_split (scale : bool) (A : crs) (parts : list nat) :
  psum parts = nrows A ->
  dist_gershgorin scale (split A parts parts) = dist_gershgorin_spec scale A (length parts).
Proof.
  intro Hp.
  rewrite <- (dist_gershgorin_thr_split scale (map (fun r => [psize parts r]) (seq 0 (length parts))) A parts Hp).
  - unfold dist_gershgorin, dist_gershgorin_thr. do 2 f_equal.
    change (dm_cparts (split A parts parts)) with parts.
    apply map_ext_in. intros r Hr. apply in_seq in Hr.
    unfold rank_gershgorin. f_equal.
    rewrite (nth_map_seq (fun r => [psize parts r]) (length parts) r []) by lia.
    unfold split. cbn [dm_ranks]. rewrite nth_map_seq by lia.
    unfold split_rank, split_rows, nrows. cbn [rm_loc rows]. rewrite map_length.
    (* one thread: the chunk length is the number of local rows = psize (the chunk is complete) *)
    f_equal. rewrite nth_chunks by lia. rewrite firstn_length, skipn_length.
    assert (B := pbeg_le_psum parts r). unfold psize. unfold nrows in Hp. lia.
  - intros r Hr. rewrite (nth_map_seq (fun r => [psize parts r]) (length parts) r []) by lia. simpl. lia.
Qed.

End Gersh.

(* ---- closed at the exact rationals ---- *)
Lemma qc_ltb_lt' (a b : Qc) : qc_ltb a b = true <-> (this a < this b)%Q.
Proof. unfold qc_ltb, Qlt. apply Z.ltb_lt. Qed.
Lemma QcS_lt_irr' (a : QcS) : sltb a a = false.
Proof.
  simpl. destruct (qc_ltb a a) eqn:E; [|reflexivity]. apply qc_ltb_lt' in E.
  exfalso. eapply Qlt_irrefl; eauto.
Qed.
Lemma QcS_lt_trans' (a b c : QcS) : sltb a b = true -> sltb b c = true -> sltb a c = true.
Proof. simpl. rewrite !qc_ltb_lt'. apply Qlt_trans. Qed.
Lemma QcS_lt_tri' (a b : QcS) : sltb a b = false -> sltb b a = false -> a = b.
Proof.
  simpl. intros H1 H2. apply Qc_is_canon.
  apply Qle_antisym; apply Qnot_lt_le; intro H; apply qc_ltb_lt' in H; congruence.
Qed.

Theorem dist_gershgorin_thr_split_Qc (scale : bool) (lenss : list (list nat)) (A : Crs.crs QcS) (parts : list nat) :
  psum parts = nrows A ->
  (forall r, r < length parts -> psize parts r <= psum (nth r lenss [])) ->
  dist_gershgorin_thr scale lenss (split A parts parts) = dist_gershgorin_spec scale A (length parts).
Proof. exact (dist_gershgorin_thr_split QcS_lt_irr' QcS_lt_trans' QcS_lt_tri' QcS_ring scale lenss A parts). Qed.

Theorem dist_gershgorin_split_Qc (scale : bool) (A : Crs.crs QcS) (parts : list nat) :
  psum parts = nrows A ->
  dist_gershgorin scale (split A parts parts) = dist_gershgorin_spec scale A (length parts).
Proof. exact (dist_gershgorin_split QcS_lt_irr' QcS_lt_trans' QcS_lt_tri' QcS_ring scale A parts). Qed.
