(* AmgExec.v -- executable instantiation of the hierarchy with the modelled smoothers and
   the exact coarse solve; used by the correspondence driver (ocaml/amg). *)
From Amgcl Require Import Scalar Vec Crs Kernels MatOps Relax DenseSolve Amg.
Local Open Scope S_scope.

Section AmgExec.
Context {S : Scalar}.
Local Notation vec := (vec S).
Local Notation crs := (crs S).

Inductive relax_kind := RJacobi (damping : S) | RSpai0 | RGS.

Definition mk_relax_std (k : relax_kind) (A : crs) : sweep * sweep :=
  match k with
  | RJacobi w =>
    let dia := jacobi_setup A (vzero (nrows A)) in
    let sw := fun rhs x t => jacobi_sweep w dia A rhs x t in (sw, sw)
  | RSpai0 =>
    let M := spai0_setup A in
    let sw := fun rhs x t => spai0_sweep M A rhs x t in (sw, sw)
  | RGS =>
    (fun rhs x t => (gs_sweep A rhs x true, t), fun rhs x t => (gs_sweep A rhs x false, t))
  end.

(* exact coarse solve; a singular coarse matrix is reported by the driver before use *)
Definition mk_solve_exact (A : crs) (rhs x : vec) : vec :=
  match dense_solve A rhs with Some y => y | None => x end.
Definition solvable (A : crs) : bool :=
  match dense_solve A (vzero (nrows A)) with Some _ => true | None => false end.

Definition coarse_op_of (scale : option S) : crs -> crs -> crs -> crs :=
  match scale with Some s => scaled_galerkin s | None => galerkin end.

End AmgExec.
