(* Coarsen.v -- coarsening policies, as coded:
   aggregation            (amgcl/coarsening/aggregation.hpp:125-157)
   smoothed_aggregation   (amgcl/coarsening/smoothed_aggregation.hpp:130-246)
   ruge_stuben            (amgcl/coarsening/ruge_stuben.hpp:103-469)
   detail::galerkin / scaled_galerkin.
   Definitions only; proofs: CoarsenProofs.v.

   float/double parameters enter as scalars already converted by the harness with
   the C++ expression of the code (eps2 = eps_strong*eps_strong in float;
   s = 1/over_interp in float; c23 = static_cast<scalar_type>(2.0/3); ...).
   nullspace.cols = 0 throughout (min_aggregate = nullspace.cols = 0). *)
From Amgcl Require Import Scalar Vec Crs Kernels MatOps MatOps2 Aggregates Tentative.
Local Open Scope S_scope.

Inductive transfer (S : Scalar) :=
| TrEmpty                                  (* error::empty_level *)
| TrPrecond                                (* precondition failure *)
| TrOob                                    (* model-only: the C++ would index outside an array *)
| TrOk (P R : crs S).
Arguments TrEmpty {S}. Arguments TrPrecond {S}. Arguments TrOob {S}. Arguments TrOk {S}.

Section Coarsen.
Context {S : Scalar}.
Local Notation vec := (vec S).
Local Notation row := (row S).
Local Notation crs := (crs S).
Local Notation transfer := (transfer S).

(* ---------------------------------------------------------------- galerkin *)
(* product(R, *product(A, P)) ; one thread: spgemm_saad, sort = false *)
Definition galerkin (nt : nat) (A P R : crs) : crs :=
  product nt R (product nt A P false) false.
Definition scaled_galerkin (nt : nat) (A P R : crs) (s : S) : crs :=
  mscale (galerkin nt A P R) s.

(* ---------------------------------------------------------------- aggregation *)
Definition aggregation_transfer (eps2 : S) (bs : nat) (A : crs) (junk : vec) : transfer :=
  match pointwise_aggregates eps2 bs 0 A junk with
  | AggEmpty => TrEmpty
  | AggPrecond => TrPrecond
  | AggOk count id _ =>
    let P := tentative_prolongation count id in TrOk P (transpose P)
  end.
(* s = 1 / prm.over_interp, computed in float by the code *)
Definition aggregation_coarse (nt : nat) (s : S) (A P R : crs) : crs := scaled_galerkin nt A P R s.

(* ---------------------------------------------------------------- smoothed aggregation *)
(* entries of a row together with their strong flag *)
Definition zip_row (r : row) (fl : list bool) : list (nat * S * bool) := combine r fl.

(* dia = sum of a_ij with (col == i || !strong) *)
Definition sa_dia (i : nat) (r : list (nat * S * bool)) : S :=
  fold_left (fun d e => if Nat.eqb (fst (fst e)) i || negb (snd e) then d + snd (fst e) else d) r s0.

(* if (!is_zero(dia)) dia = -omega * inverse(dia) *)
Definition sa_scale (omega dia : S) : S :=
  if is_zero dia then dia else (- omega) * sinv dia.

Definition sa_row (omega : S) (Pt : crs) (i : nat) (r : list (nat * S * bool)) : row :=
  let dia := sa_scale omega (sa_dia i r) in
  fold_left (fun acc e =>
     let ca := fst (fst e) in
     if negb (Nat.eqb ca i) && negb (snd e) then acc else
     let va := if Nat.eqb ca i then (s1 - omega) * s1 else dia * snd (fst e) in
     fold_left (fun acc ep => row_add acc (fst ep) (va * snd ep)) (nth ca (rows Pt) []) acc)
   r [].

Definition sa_smooth (omega : S) (A : crs) (st : flags) (Pt : crs) : crs :=
  mkCrs (ncols Pt)
        (map (fun ir => sa_row omega Pt (fst ir) (zip_row (snd ir) (nth (fst ir) st [])))
             (indexed (rows A))).

(* omega = relax * c23                      (estimate_spectral_radius = false)
   omega = relax * (c43 / rho)              (true; rho = spectral_radius<true>(A, power_iters)) *)
Definition sa_omega (relax c23 : S) : S := relax * c23.
Definition sa_omega_rho (relax c43 rho : S) : S := relax * (c43 / rho).

Definition sa_transfer_omega (eps2 omega : S) (bs : nat) (A : crs) (junk : vec) : transfer :=
  match pointwise_aggregates eps2 bs 0 A junk with
  | AggEmpty => TrEmpty
  | AggPrecond => TrPrecond
  | AggOk count id st =>
    let Pt := tentative_prolongation count id in
    let P := sa_smooth omega A st Pt in TrOk P (transpose P)
  end.
Definition sa_transfer (eps2 relax c23 : S) (bs : nat) (A : crs) (junk : vec) : transfer :=
  sa_transfer_omega eps2 (sa_omega relax c23) bs A junk.
(* Gershgorin estimate spectral_radius<true>(A, 0): MatOps2.spectral_radius_gersh (current code, /repo
   519d545: [dia] reset to the identity for every row), one thread = one chunk *)
Definition sa_transfer_gersh (eps2 relax c43 : S) (bs : nat) (A : crs) (junk : vec) : transfer :=
  sa_transfer_omega eps2 (sa_omega_rho relax c43 (spectral_radius_gersh true [nrows A] A)) bs A junk.
Definition sa_coarse (nt : nat) (A P R : crs) : crs := galerkin nt A P R.


(* ---------------------------------------------------------------- smoothed_aggr_emin
   (amgcl/coarsening/smoothed_aggr_emin.hpp:86-330), nullspace.cols = 0, one thread.
   The `#pragma omp critical` accumulations omega[ca] += v, denum[c] += v*v are sums over the rows
   in row order here (any order gives the same value in a commutative ring). *)
(* filtered matrix: every stored diagonal entry becomes (i, D_i), strong off-diagonals are kept,
   weak ones are lumped into D_i *)
Definition emin_filter (A : crs) (st : flags) : crs * vec :=
  let l := map (fun ir =>
      let i := fst ir in
      let zr := zip_row (snd ir) (nth i st []) in
      let D := sa_dia i zr in
      (flat_map (fun e => if Nat.eqb (fst (fst e)) i then [(i, D)]
                          else if (snd e : bool) then [fst e] else []) zr, D))
    (indexed (rows A)) in
  (mkCrs (ncols A) (map fst l), map snd l).

(* current row of A D^-1 A P (marker logic = row_add), then detail::sort_row *)
Definition emin_adap_row (Af : crs) (dia : vec) (AP : crs) (ia : nat) : row :=
  sort_row (fold_left (fun acc a =>
      let va := sinv (vget dia (fst a)) * snd a in
      fold_left (fun acc p => row_add acc (fst p) (va * snd p)) (nth (fst a) (rows AP) []) acc)
    (nth ia (rows Af) []) []).

(* two-pointer walk over two column-sorted rows: products of the entries with equal column *)
Fixpoint join_prod (ra rb : row) {struct ra} : row :=
  match ra with
  | [] => []
  | (ca, va) :: ta =>
    (fix aux (rb : row) : row :=
       match rb with
       | [] => []
       | (cb, vb) :: tb =>
         if Nat.ltb ca cb then join_prod ta rb
         else if Nat.ltb cb ca then aux tb
         else (ca, va * vb) :: join_prod ta tb
       end) rb
  end.

Definition vadd_at (v : vec) (i : nat) (x : S) : vec := upd_nth v i (vget v i + x).

Definition emin_omega (Af : crs) (dia : vec) (AP : crs) (n nc : nat) : vec :=
  let od := fold_left (fun (od : vec * vec) ia =>
      let adap := emin_adap_row Af dia AP ia in
      (fold_left (fun om e => vadd_at om (fst e) (snd e)) (join_prod (nth ia (rows AP) []) adap) (fst od),
       fold_left (fun d e => vadd_at d (fst e) (snd e * snd e)) adap (snd od)))
    (seq 0 n) (vzero nc, vzero nc) in
  map2 (fun d o => sinv d * o) (snd od) (fst od).

(* for(; jp < ep; ++jp) { if (cp > ca) break; if (cp == ca) { va += val; break; } } *)
Fixpoint tent_scan (ca : nat) (r : row) : option S * row :=
  match r with
  | [] => (None, [])
  | (cp, vp) :: tl =>
    if Nat.ltb ca cp then (None, r)
    else if Nat.eqb cp ca then (Some vp, r)
    else tent_scan ca tl
  end.

(* overwrite the values of a product row: va = coef(ca, v) (+ the tentative entry in column ca) *)
Definition emin_upd_row (coef : nat -> S -> S) (prow trow : row) : row :=
  fst (fold_left (fun (acc : row * row) e =>
         let sc := tent_scan (fst e) (snd acc) in
         let va := coef (fst e) (snd e) in
         (fst acc ++ [(fst e, match fst sc with Some vp => va + vp | None => va end)], snd sc))
       prow ([], trow)).

Definition emin_interpolation (nt : nat) (Af : crs) (dia : vec) (Pt : crs) : crs * vec :=
  let AP := product nt Af Pt true in
  let omega := emin_omega Af dia AP (nrows Pt) (ncols Pt) in
  (mkCrs (ncols AP)
     (map (fun ir => let dinv := sinv (vget dia (fst ir)) in
                     emin_upd_row (fun ca v => (- dinv) * v * vget omega ca) (snd ir) (nth (fst ir) (rows Pt) []))
          (indexed (rows AP))),
   omega).

Definition emin_restriction (nt : nat) (Af : crs) (dia : vec) (Pt : crs) (omega : vec) : crs :=
  let Rt := sort_rows (transpose Pt) in
  let RA := product nt Rt Af true in
  mkCrs (ncols RA)
    (map (fun ir => let w := vget omega (fst ir) in
                    emin_upd_row (fun ca v => (- w) * sinv (vget dia ca) * v) (snd ir) (nth (fst ir) (rows Rt) []))
         (indexed (rows RA))).

Definition emin_transfer (nt : nat) (eps2 : S) (bs : nat) (A : crs) (junk : vec) : transfer :=
  match pointwise_aggregates eps2 bs 0 A junk with
  | AggEmpty => TrEmpty
  | AggPrecond => TrPrecond
  | AggOk count id st =>
    let Pt := tentative_prolongation count id in
    let fd := emin_filter A st in
    let po := emin_interpolation nt (fst fd) (snd fd) Pt in
    TrOk (fst po) (emin_restriction nt (fst fd) (snd fd) Pt (snd po))
  end.
Definition emin_coarse (nt : nat) (A P R : crs) : crs := galerkin nt A P R.

(* ---------------------------------------------------------------- Ruge-Stuben *)
Inductive cfm := CU | CC | CF.
Definition cfm_eqb (a b : cfm) : bool :=
  match a, b with CU, CU | CC, CC | CF, CF => true | _, _ => false end.
Definition cfget (cf : list cfm) (i : nat) : cfm := nth i cf CU.
Definition ng (l : list nat) (i : nat) : nat := nth i l 0%nat.

(* connect(): a_min = min(0, off-diagonal values); rows with |a_min| < eps become 'F' and
   (since /repo commit 7bd138f) all their S.val cells are written with false.  Before that
   fix the cells kept the content of `new char[nnz]`; the [junk] input (per row, true =
   non-zero char) is kept in the signature so that "for every heap content" stays a
   statement about the model: it is no longer read (rs_*_junk_independent). *)
Definition rs_amin (i : nat) (r : row) : S :=
  fold_left (fun m e => if Nat.eqb (fst e) i then m else smin m (snd e)) r s0.

Definition rs_connect_row (eps eps_strong : S) (jrow : list bool) (i : nat) (r : row) : list bool * cfm :=
  let am := rs_amin i r in
  if sltb (sabs am) eps then (map (fun _ => false) r, CF)
  else let am' := am * eps_strong in
       (map (fun e => negb (Nat.eqb (fst e) i) && sltb (snd e) am') r, CU).

Definition rs_connect (eps eps_strong : S) (A : crs) (junk : flags) : flags * list cfm :=
  let l := map (fun ir => rs_connect_row eps eps_strong (nth (fst ir) junk []) (fst ir) (snd ir))
               (indexed (rows A)) in
  (map fst l, map snd l).

(* transposed pattern: row c lists the rows i (once per flagged entry) with S.val[j] && col[j] = c *)
Definition rs_transpose (A : crs) (Sv : flags) : list (list nat) :=
  map (fun c => flat_map (fun irf => flat_map (fun eb => if snd eb && Nat.eqb (fst (fst eb)) c
                                                        then [fst irf] else [])
                                               (combine (fst (snd irf)) (snd (snd irf))))
                         (indexed (combine (rows A) Sv)))
      (seq 0 (nrows A)).

(* cfsplit(): bucket structure over lambda *)
Record cfst := mkCfst {
  c_cf : list cfm; c_lam : list nat; c_ptr : list nat; c_cnt : list nat;
  c_i2n : list nat; c_n2i : list nat }.

Definition rs_lambda0 (St : list (list nat)) (cf : list cfm) : list nat :=
  map (fun r => fold_left (fun t j => (t + (if cfm_eqb (cfget cf j) CU then 1 else 2))%nat) r 0%nat) St.

(* ptr(n+1,0); ++ptr[lambda[i]+1]; partial_sum *)
Definition rs_ptr0 (n : nat) (lam : list nat) : list nat :=
  psum_from 0 (fold_left (fun p l => upd_nth p (l + 1) (Datatypes.S (ng p (l + 1)))) lam (repeat 0%nat (n + 1))).

(* idx = ptr[lam] + cnt[lam]++; i2n[idx] = i; n2i[i] = idx *)
Definition rs_groups0 (n : nat) (lam ptr : list nat) : list nat * list nat * list nat :=
  fold_left (fun (s : list nat * list nat * list nat) i =>
               let '(cnt, i2n, n2i) := s in
               let l := ng lam i in
               let idx := (ng ptr l + ng cnt l)%nat in
               (upd_nth cnt l (Datatypes.S (ng cnt l)), upd_nth i2n idx i, upd_nth n2i i idx))
            (seq 0 n) (repeat 0%nat n, repeat 0%nat n, repeat 0%nat n).

(* swap the positions old_pos / new_pos in the group arrays:
   n2i[i2n[old]] = new; n2i[i2n[new]] = old; swap(i2n[old], i2n[new]) *)
Definition rs_swap (i2n n2i : list nat) (old_pos new_pos : nat) : list nat * list nat :=
  let n2i1 := upd_nth n2i (ng i2n old_pos) new_pos in
  let n2i2 := upd_nth n2i1 (ng i2n new_pos) old_pos in
  let a := ng i2n old_pos in let b := ng i2n new_pos in
  (upd_nth (upd_nth i2n old_pos b) new_pos a, n2i2).

(* increase lambda of ac (neighbour of a new F variable) *)
Definition rs_inc (n : nat) (s : cfst) (ac : nat) : cfst :=
  let lam_a := ng (c_lam s) ac in
  if negb (cfm_eqb (cfget (c_cf s) ac) CU) || Nat.leb n (lam_a + 1) then s else
  let old_pos := ng (c_n2i s) ac in
  let new_pos := (ng (c_ptr s) lam_a + ng (c_cnt s) lam_a - 1)%nat in
  let sw := rs_swap (c_i2n s) (c_n2i s) old_pos new_pos in
  let cnt1 := upd_nth (c_cnt s) lam_a (ng (c_cnt s) lam_a - 1)%nat in
  let cnt2 := upd_nth cnt1 (lam_a + 1) (Datatypes.S (ng cnt1 (lam_a + 1))) in
  let ptr1 := upd_nth (c_ptr s) (lam_a + 1) (ng (c_ptr s) lam_a + ng cnt2 lam_a)%nat in
  mkCfst (c_cf s) (upd_nth (c_lam s) ac (lam_a + 1)%nat) ptr1 cnt2 (fst sw) (snd sw).

(* decrease lambda of c (neighbour of a new C variable) *)
Definition rs_dec (s : cfst) (c : nat) : cfst :=
  let lam := ng (c_lam s) c in
  if negb (cfm_eqb (cfget (c_cf s) c) CU) || Nat.eqb lam 0 then s else
  let old_pos := ng (c_n2i s) c in
  let new_pos := ng (c_ptr s) lam in
  let sw := rs_swap (c_i2n s) (c_n2i s) old_pos new_pos in
  let cnt1 := upd_nth (c_cnt s) lam (ng (c_cnt s) lam - 1)%nat in
  let cnt2 := upd_nth cnt1 (lam - 1) (Datatypes.S (ng cnt1 (lam - 1))) in
  let ptr1 := upd_nth (c_ptr s) lam (Datatypes.S (ng (c_ptr s) lam)) in
  mkCfst (c_cf s) (upd_nth (c_lam s) c (lam - 1)%nat) ptr1 cnt2 (fst sw) (snd sw).

(* flagged columns of row i, in storage order *)
Definition rs_scols (A : crs) (Sv : flags) (i : nat) : list nat :=
  flat_map (fun eb => if (snd eb : bool) then [fst (fst eb)] else [])
           (combine (nth i (rows A) []) (nth i Sv [])).

(* neighbours from S' of the new C variable become F, their strong neighbours gain *)
Definition rs_make_f (n : nat) (A : crs) (Sv : flags) (s : cfst) (c : nat) : cfst :=
  if negb (cfm_eqb (cfget (c_cf s) c) CU) then s else
  let s1 := mkCfst (upd_nth (c_cf s) c CF) (c_lam s) (c_ptr s) (c_cnt s) (c_i2n s) (c_n2i s) in
  fold_left (rs_inc n) (rs_scols A Sv c) s1.

(* one iteration of "for(top = n; top-- > 0;)" ; the bool is the break flag *)
Definition rs_cf_step (n : nat) (A : crs) (Sv : flags) (St : list (list nat))
                      (sb : cfst * bool) (top : nat) : cfst * bool :=
  let s := fst sb in
  if snd sb then sb else
  let i := ng (c_i2n s) top in
  let lam := ng (c_lam s) i in
  if Nat.eqb lam 0 then
    (mkCfst (map (fun x => if cfm_eqb x CU then CC else x) (c_cf s))
            (c_lam s) (c_ptr s) (c_cnt s) (c_i2n s) (c_n2i s), true)
  else
    let s1 := mkCfst (c_cf s) (c_lam s) (c_ptr s) (upd_nth (c_cnt s) lam (ng (c_cnt s) lam - 1)%nat)
                     (c_i2n s) (c_n2i s) in
    if cfm_eqb (cfget (c_cf s1) i) CF then (s1, false) else
    let s2 := mkCfst (upd_nth (c_cf s1) i CC) (c_lam s1) (c_ptr s1) (c_cnt s1) (c_i2n s1) (c_n2i s1) in
    let s3 := fold_left (rs_make_f n A Sv) (nth i St []) s2 in
    (fold_left rs_dec (rs_scols A Sv i) s3, false).

(* None: lambda[i] + 1 would index past ptr / cnt (only possible with junk flags or
   duplicate entries) *)
Definition rs_cfsplit (A : crs) (Sv : flags) (St : list (list nat)) (cf : list cfm) : option (list cfm) :=
  let n := nrows A in
  let lam := rs_lambda0 St cf in
  if negb (forallb (fun l => Nat.ltb l n) lam) then None else
  let ptr := rs_ptr0 n lam in
  let '(cnt, i2n, n2i) := rs_groups0 n lam ptr in
  let s := mkCfst cf lam ptr cnt i2n n2i in
  Some (c_cf (fst (fold_left (rs_cf_step n A Sv St) (rev (seq 0 n)) (s, false)))).

(* cidx: running number of the C variables (0 for the others: vector(n) is zeroed) *)
Definition rs_cidx (cf : list cfm) : list nat * nat :=
  fold_left (fun (s : list nat * nat) x =>
               if cfm_eqb x CC then (fst s ++ [snd s], Datatypes.S (snd s)) else (fst s ++ [0%nat], snd s))
            cf ([], 0%nat).

Definition sle (x y : S) : bool := negb (sltb y x).     (* operator<= of a total order *)

(* interpolation row of an F/U variable.  r = entries with flag; strongC e = S.val[j] && cf[c]=='C' *)
Definition rs_strongC (cf : list cfm) (e : nat * S * bool) : bool :=
  snd e && cfm_eqb (cfget cf (fst (fst e))) CC.
(* (amin, amax) over the strong C entries, both starting from zero *)
Definition rs_minmax (cf : list cfm) (r : list (nat * S * bool)) : S * S :=
  fold_left (fun (m : S * S) e => if rs_strongC cf e then (smin (fst m) (snd (fst e)), smax (snd m) (snd (fst e))) else m)
            r (s0, s0).
(* dia, (a_num, a_den), (b_num, b_den), (d_neg, d_pos) *)
Definition rs_sums_step (do_trunc : bool) (cf : list cfm) (i : nat) (Amin Amax : S)
                        (a : S * (S * S) * (S * S) * (S * S)) (e : nat * S * bool) : S * (S * S) * (S * S) * (S * S) :=
  let '(dia, (a_num, a_den), (b_num, b_den), (d_neg, d_pos)) := a in
  let c := fst (fst e) in let v := snd (fst e) in
  if Nat.eqb c i then (v, (a_num, a_den), (b_num, b_den), (d_neg, d_pos)) else
  if sltb v s0 then
    (dia, (a_num + v, if rs_strongC cf e then a_den + v else a_den), (b_num, b_den),
     (if rs_strongC cf e && do_trunc && sle Amin v then d_neg + v else d_neg, d_pos))
  else
    (dia, (a_num, a_den), (b_num + v, if rs_strongC cf e then b_den + v else b_den),
     (d_neg, if rs_strongC cf e && do_trunc && sle v Amax then d_pos + v else d_pos)).
Definition rs_sums (do_trunc : bool) (cf : list cfm) (i : nat) (Amin Amax : S) (r : list (nat * S * bool)) :=
  fold_left (rs_sums_step do_trunc cf i Amin Amax) r (s0, (s0, s0), (s0, s0), (s0, s0)).
(* (alpha, beta) *)
Definition rs_coefs (eps : S) (do_trunc : bool) (acc : S * (S * S) * (S * S) * (S * S)) : S * S :=
  let '(dia, (a_num, a_den), (b_num, b_den), (d_neg, d_pos)) := acc in
  let cf_neg := if do_trunc && sltb eps (sabs (a_den - d_neg)) then sabs a_den / sabs (a_den - d_neg) else s1 in
  let cf_pos := if do_trunc && sltb eps (sabs (b_den - d_pos)) then sabs b_den / sabs (b_den - d_pos) else s1 in
  let dia' := if sltb s0 b_num && sltb (sabs b_den) eps then dia + b_num else dia in
  let alpha := if sltb eps (sabs a_den) then (- cf_neg) * sabs a_num / (sabs dia' * sabs a_den) else s0 in
  let beta  := if sltb eps (sabs b_den) then (- cf_pos) * sabs b_num / (sabs dia' * sabs b_den) else s0 in
  (alpha, beta).
Definition rs_emit (do_trunc : bool) (cf : list cfm) (cidx : list nat) (Amin Amax alpha beta : S)
                   (r : list (nat * S * bool)) : row :=
  flat_map (fun e =>
      let c := fst (fst e) in let v := snd (fst e) in
      if negb (rs_strongC cf e) then [] else
      if do_trunc && sle Amin v && sle v Amax then [] else
      [(ng cidx c, (if sltb v s0 then alpha else beta) * v)]) r.
Definition rs_interp_row (eps eps_trunc : S) (do_trunc : bool) (cf : list cfm) (cidx : list nat)
                         (i : nat) (r : list (nat * S * bool)) : row :=
  let mm := rs_minmax cf r in
  let Amin := fst mm * eps_trunc in
  let Amax := snd mm * eps_trunc in
  let ab := rs_coefs eps do_trunc (rs_sums do_trunc cf i Amin Amax r) in
  rs_emit do_trunc cf cidx Amin Amax (fst ab) (snd ab) r.

Definition rs_interp (eps eps_trunc : S) (do_trunc : bool) (A : crs) (Sv : flags) (cf : list cfm) : transfer :=
  let ci := rs_cidx cf in
  if Nat.eqb (snd ci) 0 then TrEmpty else
  let P := mkCrs (snd ci)
     (map (fun ir => let i := fst ir in
                     if cfm_eqb (cfget cf i) CC then [(ng (fst ci) i, s1)]
                     else rs_interp_row eps eps_trunc do_trunc cf (fst ci) i (zip_row (snd ir) (nth i Sv [])))
          (indexed (rows A))) in
  TrOk P (transpose P).

(* eps = detail::eps<Scalar>(1) = 2 * epsilon *)
Definition rs_eps : S := (s1 + s1) * seps.

Definition rs_cf (eps_strong : S) (A : crs) (junk : flags) : option (flags * list cfm) :=
  let c := rs_connect rs_eps eps_strong A junk in
  match rs_cfsplit A (fst c) (rs_transpose A (fst c)) (snd c) with
  | None => None
  | Some cf => Some (fst c, cf)
  end.

Definition rs_transfer (eps_strong eps_trunc : S) (do_trunc : bool) (A : crs) (junk : flags) : transfer :=
  match rs_cf eps_strong A junk with
  | None => TrOob
  | Some (Sv, cf) => rs_interp rs_eps eps_trunc do_trunc A Sv cf
  end.
Definition rs_coarse (nt : nat) (A P R : crs) : crs := galerkin nt A P R.

End Coarsen.


(* ---------------------------------------------------------------- one level of a hierarchy, uniform interface
   (for the amg group: build hierarchies entirely inside the model).  The policy object's mutable
   state is the float eps_strong, halved after every level by smoothed_aggregation and
   smoothed_aggr_emin: the per-level values eps_strong^2 (computed in float by the harness) are
   supplied as a list, head = current level.  nt = omp_get_max_threads() (product() switches kernels). *)
Inductive policy {S : Scalar} :=
| PolAggregation (eps2 : S) (bs : nat) (s_over : S)            (* s_over = 1 / over_interp, in float *)
| PolSA (eps2s : list S) (bs : nat) (relax c23 : S)
| PolSAGersh (eps2s : list S) (bs : nat) (relax c43 : S)       (* estimate_spectral_radius, power_iters = 0 *)
| PolEmin (eps2s : list S) (bs : nat)
| PolRS (eps_strong eps_trunc : S) (do_trunc : bool).
Inductive step_result {S : Scalar} :=
| StepEmpty | StepPrecond | StepOob
| StepOk (P R Ac : crs S) (next : @policy S).

Section Step.
Context {S : Scalar}.
Definition with_coarse (t : transfer S) (coarse : crs S -> crs S -> crs S) (next : @policy S) : @step_result S :=
  match t with
  | TrEmpty => StepEmpty | TrPrecond => StepPrecond | TrOob => StepOob
  | TrOk P R => StepOk P R (coarse P R) next
  end.
(* junk: diagonal cells of rows without a diagonal entry (plain_aggregates); junkf: unused since 7bd138f *)
Definition coarsen_step (nt : nat) (pol : @policy S) (A : crs S) (junk : vec S) (junkf : flags) : @step_result S :=
  match pol with
  | PolAggregation eps2 bs s =>
    with_coarse (aggregation_transfer eps2 bs A junk) (fun P R => aggregation_coarse nt s A P R) pol
  | PolSA eps2s bs relax c23 =>
    with_coarse (sa_transfer (nth 0 eps2s s0) relax c23 bs A junk) (fun P R => sa_coarse nt A P R)
                (PolSA (tl eps2s) bs relax c23)
  | PolSAGersh eps2s bs relax c43 =>
    with_coarse (sa_transfer_gersh (nth 0 eps2s s0) relax c43 bs A junk) (fun P R => sa_coarse nt A P R)
                (PolSAGersh (tl eps2s) bs relax c43)
  | PolEmin eps2s bs =>
    with_coarse (emin_transfer nt (nth 0 eps2s s0) bs A junk) (fun P R => emin_coarse nt A P R)
                (PolEmin (tl eps2s) bs)
  | PolRS es et dt =>
    with_coarse (rs_transfer es et dt A junkf) (fun P R => rs_coarse nt A P R) pol
  end.
End Step.

(* ================================================================ specifications
   (used by the theorems of CoarsenProofs.v and, extracted, by the oracle ops that
   are evaluated on the implementation's outputs) *)
Section Spec.
Context {S : Scalar}.
Local Notation vec := (vec S).
Local Notation row := (row S).
Local Notation crs := (crs S).

(* -- partition property of aggregate ids (plain_aggregates) *)
Definition ids_in_range (count : nat) (id : list Z) : bool :=
  forallb (fun a => Z.ltb a (Z.of_nat count) && (Z.leb 0 a || Z.eqb a removed)) id.
Definition ids_onto (count : nat) (id : list Z) : bool :=
  forallb (fun k => existsb (Z.eqb (Z.of_nat k)) id) (seq 0 count).
Fixpoint forallb2 {X Y} (f : X -> Y -> bool) (l1 : list X) (l2 : list Y) : bool :=
  match l1, l2 with
  | [], [] => true
  | a :: l1', b :: l2' => f a b && forallb2 f l1' l2'
  | _, _ => false
  end.
Definition ids_match_strong (id : list Z) (st : flags) : bool :=
  forallb2 (fun a fl => Bool.eqb (Z.leb 0 a) (has_strong fl)) id st.
Definition partition_ok (count : nat) (id : list Z) (st : flags) : bool :=
  ids_in_range count id && ids_onto count id && ids_match_strong id st.

(* -- structure of the tentative prolongation (no null space) *)
Definition row_eqb (r1 r2 : row) : bool :=
  forallb2 (fun e1 e2 => Nat.eqb (fst e1) (fst e2) && seqb (snd e1) (snd e2)) r1 r2.
Definition crs_eqb (A B : crs) : bool :=
  Nat.eqb (ncols A) (ncols B) && forallb2 row_eqb (rows A) (rows B).
Definition ptent_ok (naggr : nat) (id : list Z) (P : crs) : bool :=
  crs_eqb P (tentative_prolongation naggr id).

(* -- smoothed aggregation formula  P = (I - omega D^-1 A_F) P_tent, densely.
   A_F: strong off-diagonal entries kept, weak ones dropped; D_i = a_ii + sum of the
   weak off-diagonal entries of row i (what the code accumulates in [dia]). *)
Definition sa_D (A : crs) (st : flags) (i : nat) : S :=
  sa_dia i (zip_row (nth i (rows A) []) (nth i st [])).
Definition sa_AF (A : crs) (st : flags) (i k : nat) : S :=
  if Nat.eqb i k then sa_D A st i else
  fold_left (fun a e => if Nat.eqb (fst (fst e)) k && snd e then a + snd (fst e) else a)
            (zip_row (nth i (rows A) []) (nth i st [])) s0.
Definition sa_M (omega : S) (A : crs) (st : flags) (i k : nat) : S :=
  (if Nat.eqb i k then s1 else s0) - omega * sinv (sa_D A st i) * sa_AF A st i k.
Definition sa_formula (omega : S) (A : crs) (st : flags) (Pt : crs) (i j : nat) : S :=
  sumn (fun k => sa_M omega A st i k * mget Pt k j) (nrows A).
(* rows the formula speaks about: non-zero filtered diagonal, exactly one stored diagonal entry *)
Definition diag_count (i : nat) (r : row) : nat := length (filter (fun e => Nat.eqb (fst e) i) r).
Definition sa_row_regular (A : crs) (st : flags) (i : nat) : bool :=
  let zr := zip_row (nth i (rows A) []) (nth i st []) in
  negb (is_zero (sa_D A st i)) &&
  Nat.eqb (length (filter (fun e => Nat.eqb (fst (fst e)) i) zr)) 1 &&
  Nat.eqb (length zr) (length (nth i (rows A) [])).
Definition sa_formula_ok (omega : S) (A : crs) (st : flags) (Pt P : crs) : bool :=
  forallb (fun i => negb (sa_row_regular A st i) ||
                    forallb (fun j => seqb (mget P i j) (sa_formula omega A st Pt i j)) (seq 0 (ncols Pt)))
          (seq 0 (nrows A)).


(* -- energy-minimising smoothed aggregation, dense formulas (DESIGN 5-C04 B):
   AP = A_F P_tent, ADAP = A_F D^-1 AP, omega_j = <AP_j, ADAP_j> / <ADAP_j, ADAP_j> (columns),
   P = P_tent - D^-1 AP Omega,  R = P_tent^T - Omega P_tent^T A_F D^-1 *)
Definition emin_AP (A : crs) (st : flags) (Pt : crs) (i j : nat) : S :=
  sumn (fun k => sa_AF A st i k * mget Pt k j) (nrows A).
Definition emin_ADAP (A : crs) (st : flags) (Pt : crs) (i j : nat) : S :=
  sumn (fun k => sa_AF A st i k * (sinv (sa_D A st k) * emin_AP A st Pt k j)) (nrows A).
Definition emin_omega_spec (A : crs) (st : flags) (Pt : crs) (j : nat) : S :=
  sinv (sumn (fun i => emin_ADAP A st Pt i j * emin_ADAP A st Pt i j) (nrows A))
  * sumn (fun i => emin_AP A st Pt i j * emin_ADAP A st Pt i j) (nrows A).
Definition emin_P_spec (A : crs) (st : flags) (Pt : crs) (i j : nat) : S :=
  (- sinv (sa_D A st i)) * emin_AP A st Pt i j * emin_omega_spec A st Pt j + mget Pt i j.
Definition emin_RA (A : crs) (st : flags) (Pt : crs) (j i : nat) : S :=
  sumn (fun k => mget Pt k j * sa_AF A st k i) (nrows A).
Definition emin_R_spec (A : crs) (st : flags) (Pt : crs) (j i : nat) : S :=
  (- emin_omega_spec A st Pt j) * sinv (sa_D A st i) * emin_RA A st Pt j i + mget Pt i j.
(* all rows regular (one stored diagonal entry, flags cover the row) *)
Definition emin_regular (A : crs) (st : flags) : bool :=
  forallb (fun i => let zr := zip_row (nth i (rows A) []) (nth i st []) in
             Nat.eqb (length (filter (fun e => Nat.eqb (fst (fst e)) i) zr)) 1 &&
             Nat.eqb (length zr) (length (nth i (rows A) [])))
          (seq 0 (nrows A)).
Definition emin_formula_ok (A : crs) (st : flags) (Pt P R : crs) : bool :=
  negb (emin_regular A st) ||
  (forallb (fun i => forallb (fun j => seqb (mget P i j) (emin_P_spec A st Pt i j)
                                        && seqb (mget R j i) (emin_R_spec A st Pt j i))
                             (seq 0 (ncols Pt))) (seq 0 (nrows A))).

(* -- row sums *)
Definition row_sum (r : row) : S := fold_left (fun a e => a + snd e) r s0.
Definition is_symmetric (A : crs) : bool :=
  forallb (fun i => forallb (fun j => seqb (mget A i j) (mget A j i)) (seq 0 (nrows A))) (seq 0 (nrows A)).
(* symmetric A: zero-row-sum rows with a strong neighbour (and non-zero filtered diagonal) *)
Definition sa_rowsum_ok (A : crs) (st : flags) (P : crs) : bool :=
  negb (is_symmetric A) ||
  forallb (fun i => let r := nth i (rows A) [] in
             negb (is_zero (row_sum r) && has_strong (nth i st []) && sa_row_regular A st i)
             || seqb (row_sum (nth i (rows P) [])) s1)
          (seq 0 (nrows A)).
(* Ruge-Stuben: F rows with zero row sum, a strong negative C neighbour, positive diagonal *)
Definition rs_row_applicable (A : crs) (Sv : flags) (cf : list cfm) (i : nat) : bool :=
  let r := zip_row (nth i (rows A) []) (nth i Sv []) in
  negb (cfm_eqb (cfget cf i) CC) &&
  is_zero (row_sum (nth i (rows A) [])) &&
  existsb (fun e => snd e && cfm_eqb (cfget cf (fst (fst e))) CC && sltb (snd (fst e)) s0
                    && negb (Nat.eqb (fst (fst e)) i)) r &&
  Nat.eqb (diag_count i (nth i (rows A) [])) 1 &&
  sltb s0 (rget (nth i (rows A) []) i).
(* with truncation the statement needs eps_trunc < 1 (the largest connection survives) *)
Definition rs_rowsum_ok (do_trunc : bool) (eps_trunc : S) (A : crs) (Sv : flags) (cf : list cfm) (P : crs) : bool :=
  (do_trunc && negb (sltb eps_trunc s1)) ||
  forallb (fun i => negb (rs_row_applicable A Sv cf i) || seqb (row_sum (nth i (rows P) [])) s1)
          (seq 0 (nrows A)).

(* -- R = transpose P, storage order included *)
Definition transpose_ok (P R : crs) : bool := crs_eqb R (transpose P) && Nat.eqb (nrows R) (ncols P).

(* -- lifting: pointwise coarsening of A (x) I_b versus the scalar coarsening.
   The reduced matrix is by design the matrix of block NORMS, so the scalar problem the pointwise
   aggregates are lifted from is mabs A (= A as far as strength of connection goes whenever the
   diagonal is positive); the smoothing itself uses the values of A. *)
Definition mabs (A : crs) : crs :=
  mkCrs (ncols A) (map (map (fun e => (fst e, sabs (snd e)))) (rows A)).
Definition kron_row (b k : nat) (r : row) : row := map (fun e => ((fst e * b + k)%nat, snd e)) r.
Definition kron_id (b : nat) (A : crs) : crs :=
  mkCrs (ncols A * b) (flat_map (fun r => map (fun k => kron_row b k r) (seq 0 b)) (rows A)).
Definition lifted_ids (b : nat) (id : list Z) : list Z := expand_ids b id.
Definition lifted_flags (b : nat) (st : flags) : flags :=
  flat_map (fun fl => map (fun _ => fl) (seq 0 b)) st.
Definition lifted_aggregates (b : nat) (a : aggregates) : aggregates :=
  match a with
  | AggOk c id st => AggOk (c * b) (lifted_ids b id) (lifted_flags b st)
  | x => x
  end.
(* what smoothed_aggregation on A (x) I_b with block_size b has to return *)
Definition lifted_sa (eps2 omega : S) (b : nat) (A : crs) (junk : vec) : transfer S :=
  match plain_aggregates eps2 (mabs A) junk with
  | AggEmpty => TrEmpty
  | AggPrecond => TrPrecond
  | AggOk c id st =>
    let P := kron_id b (sa_smooth omega A st (tentative_prolongation c id)) in TrOk P (transpose P)
  end.
Definition aggregates_eqb (a1 a2 : aggregates) : bool :=
  match a1, a2 with
  | AggEmpty, AggEmpty => true
  | AggPrecond, AggPrecond => true
  | AggOk c1 id1 st1, AggOk c2 id2 st2 =>
    Nat.eqb c1 c2 && forallb2 Z.eqb id1 id2 && forallb2 (forallb2 Bool.eqb) st1 st2
  | _, _ => false
  end.
End Spec.
