(* IlupPattern.v -- the matrix P handed to ILU(0) by ILUP (amgcl/relaxation/ilup.hpp:52-170,
   model: Ilu.v ilup_matrix): its pattern is the structural pattern of A^(k+1), its values are
   those of A, and it satisfies the hypotheses of `ilup_exact_on_pattern` (IluRefute.v):
   wf, square, rows strictly sorted, full diagonal.
   Part 1 (any Scalar): symbolic product, pattern of the power, shape of the filled rows.
   Part 2 (ring laws): values (rget/mget) and the packaging theorem [ilup_matrix_ok]. *)
From Coq Require Import ZifyBool.
From Amgcl Require Import Scalar Vec Crs Kernels KernelsProofs MatOps Ilu.

(* ------------------------------------------------------------------ *)
(* T1: lists of column indices                                         *)
(* strictly increasing list of naturals *)
Fixpoint ip_inc (l : list nat) : Prop :=
  match l with
  | [] => True
  | c :: tl => (forall x, In x tl -> c < x) /\ ip_inc tl
  end.

Lemma ip_ins_uniq_In c l x : In x (ins_uniq c l) <-> x = c \/ In x l.
Proof.
  induction l as [|c' tl IH]; simpl.
  - intuition.
  - destruct (Nat.ltb_spec c c') as [Hlt|Hge].
    + simpl. intuition.
    + destruct (Nat.eqb_spec c c') as [->|Hne].
      * simpl. intuition.
      * simpl. rewrite IH. intuition.
Qed.

Lemma ip_ins_uniq_inc c l : ip_inc l -> ip_inc (ins_uniq c l).
Proof.
  induction l as [|c' tl IH]; simpl.
  - intros _. split; [intros x []|exact I].
  - intros [H1 H2].
    destruct (Nat.ltb_spec c c') as [Hlt|Hge].
    + simpl. split; [|split; assumption].
      intros x [<-|Hx]; [assumption|]. specialize (H1 x Hx). lia.
    + destruct (Nat.eqb_spec c c') as [->|Hne].
      * simpl. split; assumption.
      * simpl. split; [|apply IH; assumption].
        intros x Hx. apply ip_ins_uniq_In in Hx. destruct Hx as [->|Hx]; [lia|].
        apply H1; assumption.
Qed.

Lemma ip_ins_fold_In (l acc : list nat) x :
  In x (fold_left (fun acc cb => ins_uniq cb acc) l acc) <-> In x l \/ In x acc.
Proof.
  revert acc; induction l as [|c l IH]; intro acc; simpl.
  - intuition.
  - rewrite IH, ip_ins_uniq_In. intuition.
Qed.

Lemma ip_ins_fold_inc (l acc : list nat) :
  ip_inc acc -> ip_inc (fold_left (fun acc cb => ins_uniq cb acc) l acc).
Proof.
  revert acc; induction l as [|c l IH]; intro acc; simpl; [tauto|].
  intro H. apply IH. apply ip_ins_uniq_inc. exact H.
Qed.

Lemma ip_symb_fold_In (ra : list nat) (B : list (list nat)) acc x :
  In x (fold_left (fun acc ca => fold_left (fun acc cb => ins_uniq cb acc) (nth ca B []) acc) ra acc)
  <-> (exists ca, In ca ra /\ In x (nth ca B [])) \/ In x acc.
Proof.
  revert acc; induction ra as [|a ra IH]; intro acc; simpl.
  - split; [auto|]. intros [[ca [[] _]]|H]; exact H.
  - rewrite IH, ip_ins_fold_In. split.
    + intros [[ca [H1 H2]]|[H|H]].
      * left. exists ca. auto.
      * left. exists a. auto.
      * right. exact H.
    + intros [[ca [[<-|H1] H2]]|H].
      * right. left. exact H2.
      * left. exists ca. auto.
      * right. right. exact H.
Qed.

Lemma ip_symb_fold_inc (ra : list nat) (B : list (list nat)) acc :
  ip_inc acc ->
  ip_inc (fold_left (fun acc ca => fold_left (fun acc cb => ins_uniq cb acc) (nth ca B []) acc) ra acc).
Proof.
  revert acc; induction ra as [|a ra IH]; intro acc; simpl; [tauto|].
  intro H. apply IH. apply ip_ins_fold_inc. exact H.
Qed.

(* T1 *)
Theorem ip_symb_row_In (ra : list nat) (B : list (list nat)) c :
  In c (symb_row ra B) <-> exists ca, In ca ra /\ In c (nth ca B []).
Proof.
  unfold symb_row. rewrite ip_symb_fold_In. simpl. tauto.
Qed.

Theorem ip_symb_row_inc (ra : list nat) (B : list (list nat)) : ip_inc (symb_row ra B).
Proof. unfold symb_row. apply ip_symb_fold_inc. exact I. Qed.

Lemma ip_symb_product_length (A B : list (list nat)) : length (symb_product A B) = length A.
Proof. unfold symb_product. apply map_length. Qed.

Lemma ip_symb_product_nth (A B : list (list nat)) i : i < length A ->
  nth i (symb_product A B) [] = symb_row (nth i A []) B.
Proof.
  intro Hi. unfold symb_product.
  rewrite (nth_indep _ [] (symb_row [] B)) by (rewrite map_length; exact Hi).
  exact (map_nth (fun ra => symb_row ra B) A [] i).
Qed.

Lemma ip_iter_symb_length k : forall P A : list (list nat), length (iter_symb k P A) = length P.
Proof.
  induction k as [|k IH]; intros P A; simpl; [reflexivity|].
  rewrite IH. apply ip_symb_product_length.
Qed.

(* ------------------------------------------------------------------ *)
(* generic list facts                                                  *)
Lemma ip_map2_length {X Y Z} (f : X -> Y -> Z) l1 l2 :
  length l1 = length l2 -> length (map2 f l1 l2) = length l1.
Proof.
  revert l2; induction l1 as [|a l1 IH]; intros [|b l2] H; simpl in *; try congruence.
  f_equal. apply IH. congruence.
Qed.

Lemma ip_map2_nth {X Y Z} (f : X -> Y -> Z) l1 l2 i dx dy dz :
  i < length l1 -> i < length l2 -> nth i (map2 f l1 l2) dz = f (nth i l1 dx) (nth i l2 dy).
Proof.
  revert l2 i; induction l1 as [|a l1 IH]; intros [|b l2] i H1 H2; simpl in *; try lia.
  destruct i as [|i]; [reflexivity|]. apply IH; lia.
Qed.

Lemma ip_forallb_indexed_gen {X} (p : nat * X -> bool) d (l : list X) : forall s,
  forallb p (combine (seq s (length l)) l) = true <->
  forall i, i < length l -> p (s + i, nth i l d) = true.
Proof.
  induction l as [|x l IH]; intro s; simpl.
  - split; auto. intros _ i Hi. lia.
  - rewrite andb_true_iff, IH. split.
    + intros [H1 H2] [|i] Hi.
      * rewrite Nat.add_0_r; exact H1.
      * replace (s + Datatypes.S i) with (Datatypes.S s + i) by lia. apply H2. lia.
    + intros H. split.
      * specialize (H 0). rewrite Nat.add_0_r in H. apply H. lia.
      * intros i Hi. specialize (H (Datatypes.S i)).
        replace (Datatypes.S s + i) with (s + Datatypes.S i) by lia. apply H. lia.
Qed.

Lemma ip_forallb_indexed {X} (p : nat * X -> bool) d (l : list X) :
  forallb p (indexed l) = true <-> forall i, i < length l -> p (i, nth i l d) = true.
Proof. unfold indexed. rewrite (ip_forallb_indexed_gen p d l 0). simpl. tauto. Qed.

Lemma ip_forallb_nth {X} (p : X -> bool) d (l : list X) :
  forallb p l = true <-> forall i, i < length l -> p (nth i l d) = true.
Proof.
  rewrite forallb_forall. split.
  - intros H i Hi. apply H. apply nth_In. exact Hi.
  - intros H x Hx. destruct (In_nth l x d Hx) as [i [Hi <-]]. apply H. exact Hi.
Qed.

Lemma ip_inc_app_r (l1 l2 : list nat) : ip_inc (l1 ++ l2) -> ip_inc l2.
Proof. induction l1 as [|a l1 IH]; simpl; [tauto|]. intros [_ H]. apply IH. exact H. Qed.

(* ------------------------------------------------------------------ *)
Section Struct.
Context {S : Scalar}.
Local Notation row := (row S).
Local Notation crs := (crs S).

(* columns of row c of A, in storage order (empty outside the matrix) *)
Definition ip_cols (A : crs) (c : nat) : list nat := map fst (nth c (rows A) []).

Lemma ip_pattern_nth (A : crs) c : nth c (pattern A) [] = ip_cols A c.
Proof. unfold pattern, ip_cols. exact (map_nth (map fst) (rows A) [] c). Qed.

Lemma ip_pattern_length (A : crs) : length (pattern A) = nrows A.
Proof. unfold pattern, nrows. apply map_length. Qed.

(* T2: paths of length t+1 in the graph of A = structural non-zeros of A^(t+1) *)
Fixpoint reach (A : crs) (t : nat) (i j : nat) : Prop :=
  match t with
  | O => In j (ip_cols A i)
  | Datatypes.S t' => exists c, reach A t' i c /\ In j (ip_cols A c)
  end.

Definition ip_pat_ok (A : crs) (t : nat) (P : list (list nat)) : Prop :=
  length P = nrows A /\
  forall i, i < nrows A -> ip_inc (nth i P []) /\ forall j, In j (nth i P []) <-> reach A t i j.

Lemma ip_pat_ok_step (A : crs) t P : ip_pat_ok A t P ->
  ip_pat_ok A (Datatypes.S t) (symb_product P (pattern A)).
Proof.
  intros [HL HP]. split; [rewrite ip_symb_product_length; exact HL|].
  intros i Hi. rewrite ip_symb_product_nth by (rewrite HL; exact Hi).
  split; [apply ip_symb_row_inc|].
  intro j. rewrite ip_symb_row_In. simpl.
  destruct (HP i Hi) as [_ HR].
  split; intros [c [H1 H2]]; exists c.
  - rewrite ip_pattern_nth in H2. split; [apply HR; exact H1|exact H2].
  - rewrite ip_pattern_nth. split; [apply HR; exact H1|exact H2].
Qed.

Lemma ip_pat_ok_iter (A : crs) k : forall t P, ip_pat_ok A t P ->
  ip_pat_ok A (k + t) (iter_symb k P (pattern A)).
Proof.
  induction k as [|k IH]; intros t P H; simpl; [exact H|].
  replace (Datatypes.S (k + t)) with (k + Datatypes.S t) by lia.
  apply IH. apply ip_pat_ok_step. exact H.
Qed.

(* ------------------------------------------------------------------ *)
(* small facts on rows                                                 *)
Lemma ip_sorted_inc (r : row) : sorted_strict r = true <-> ip_inc (map fst r).
Proof.
  induction r as [|e1 tl IH]; [simpl; tauto|].
  destruct tl as [|e2 tl'].
  - simpl. split; auto. intros _. split; [intros x []|exact I].
  - change (sorted_strict (e1 :: e2 :: tl'))
      with (Nat.ltb (fst e1) (fst e2) && sorted_strict (e2 :: tl')).
    rewrite andb_true_iff, IH, Nat.ltb_lt. simpl. split.
    + intros [H1 [H2 H3]]. split; [|split; assumption].
      intros x [<-|Hx]; [assumption|]. specialize (H2 x Hx). lia.
    + intros [H1 H2]. split; [apply H1; left; reflexivity|exact H2].
Qed.

Lemma ip_has_col_In c (r : row) : has_col c r = true <-> In c (map fst r).
Proof.
  unfold has_col. rewrite existsb_exists, in_map_iff. split.
  - intros [e [H1 H2]]. exists e. apply Nat.eqb_eq in H2. auto.
  - intros [e [H1 H2]]. exists e. rewrite Nat.eqb_eq. auto.
Qed.

Lemma ip_first_col_In (r : row) i :
  (match first_col r i with Some _ => true | None => false end) = true <-> In i (map fst r).
Proof.
  induction r as [|[c v] r IH]; simpl.
  - split; [discriminate|tauto].
  - destruct (Nat.eqb_spec c i) as [->|Hne].
    + split; auto.
    + rewrite IH. split; [auto|]. intros [H|H]; [contradiction|exact H].
Qed.

Lemma ip_has_diag_iff (M : crs) :
  has_diag M = true <-> forall i, i < nrows M -> In i (ip_cols M i).
Proof.
  unfold has_diag. rewrite (ip_forallb_indexed _ [] (rows M)). unfold nrows, ip_cols.
  split; intros H i Hi; specialize (H i Hi); simpl in *; apply ip_first_col_In; exact H.
Qed.

Lemma ip_wf_iff (M : crs) :
  wf M = true <-> forall i j, i < nrows M -> In j (ip_cols M i) -> j < ncols M.
Proof.
  unfold wf. rewrite (ip_forallb_nth _ [] (rows M)). unfold nrows, ip_cols, row_wf. split.
  - intros H i j Hi Hj. specialize (H i Hi). rewrite forallb_forall in H.
    apply in_map_iff in Hj. destruct Hj as [e [<- He]]. apply Nat.ltb_lt. apply H. exact He.
  - intros H i Hi. rewrite forallb_forall. intros e He. apply Nat.ltb_lt.
    apply (H i (fst e) Hi). apply in_map. exact He.
Qed.

(* ------------------------------------------------------------------ *)
(* T3: the merge walk never changes the columns                        *)
Lemma ip_pskip_spec ca : forall (rest done r' d' : row), pskip ca rest done = (r', d') ->
  exists sk, rest = sk ++ r' /\ d' = rev sk ++ done /\ (forall e, In e sk -> fst e < ca) /\
             match r' with e :: _ => ca <= fst e | [] => True end.
Proof.
  induction rest as [|e tl IH]; intros done r' d' H; simpl in H.
  - injection H as <- <-. exists []. simpl. repeat split; auto. intros e [].
  - destruct (Nat.ltb_spec (fst e) ca) as [Hlt|Hge].
    + apply IH in H. destruct H as [sk [H1 [H2 [H3 H4]]]]. exists (e :: sk). simpl. subst.
      rewrite <- app_assoc. simpl. repeat split; auto. intros e' [<-|He]; auto.
    + injection H as <- <-. exists []. simpl. repeat split; auto. intros e' [].
Qed.

Definition ip_step (st : row * row) (ea : nat * S) : row * row :=
  let '(rest', done') := pskip (fst ea) (fst st) (snd st) in
  match rest' with
  | e :: tl => if Nat.eqb (fst e) (fst ea) then ((fst e, snd ea) :: tl, done') else (rest', done')
  | [] => ([], done')
  end.
Definition ip_out (st : row * row) : row := rev (snd st) ++ fst st.

Lemma ip_fill_row_eq (ra : row) pc :
  ilup_fill_row ra pc = ip_out (fold_left ip_step ra (map (fun c => (c, s0)) pc, [])).
Proof.
  unfold ilup_fill_row, ip_out, ip_step.
  destruct (fold_left _ ra _) as [rest done]. reflexivity.
Qed.

Lemma ip_step_cols st ea : map fst (ip_out (ip_step st ea)) = map fst (ip_out st).
Proof.
  unfold ip_step. destruct (pskip (fst ea) (fst st) (snd st)) as [r' d'] eqn:E.
  destruct (ip_pskip_spec _ _ _ _ _ E) as [sk [H1 [H2 [H3 H4]]]].
  unfold ip_out at 2. rewrite H1. subst d'.
  destruct r' as [|e tl].
  - unfold ip_out; simpl. rewrite rev_app_distr, rev_involutive, <- app_assoc. reflexivity.
  - destruct (Nat.eqb (fst e) (fst ea)); unfold ip_out; simpl;
      rewrite rev_app_distr, rev_involutive, <- app_assoc, !map_app; reflexivity.
Qed.

Lemma ip_fold_cols (ra : row) : forall st,
  map fst (ip_out (fold_left ip_step ra st)) = map fst (ip_out st).
Proof.
  induction ra as [|ea ra IH]; intro st; simpl; [reflexivity|].
  rewrite IH. apply ip_step_cols.
Qed.

Theorem ip_fill_row_cols (ra : row) pc : map fst (ilup_fill_row ra pc) = pc.
Proof.
  rewrite ip_fill_row_eq, ip_fold_cols. unfold ip_out. simpl.
  rewrite map_map. simpl. apply map_id.
Qed.

(* ------------------------------------------------------------------ *)
(* T4, structural form (any Scalar): the filled row is the pattern row with the values
   of A looked up, zero elsewhere *)
Lemma ip_inc_app_mid (l1 : list nat) c l2 : ip_inc (l1 ++ c :: l2) ->
  (forall x, In x l1 -> x < c) /\ (forall x, In x l2 -> c < x).
Proof.
  induction l1 as [|a l1 IH]; simpl.
  - intros [H _]. split; [intros x []|exact H].
  - intros [H1 H2]. destruct (IH H2) as [H3 H4]. split; [|exact H4].
    intros x [<-|Hx]; [|apply H3; exact Hx]. apply H1. apply in_or_app. right. left. reflexivity.
Qed.

Lemma ip_first_col_None (r : row) c : ~ In c (map fst r) -> first_col r c = None.
Proof.
  intro H. destruct (first_col r c) eqn:E; [|reflexivity]. exfalso. apply H.
  apply ip_first_col_In. rewrite E. reflexivity.
Qed.

Lemma ip_first_col_sorted (r : row) j v :
  ip_inc (map fst r) -> In (j, v) r -> first_col r j = Some v.
Proof.
  induction r as [|[c v0] r IH]; simpl; [tauto|].
  intros [H1 H2] [H|H].
  - injection H as -> ->. rewrite Nat.eqb_refl. reflexivity.
  - assert (Hc : c < j) by (apply H1; apply (in_map fst _ _ H)).
    destruct (Nat.eqb_spec c j) as [Heq|_]; [lia|]. apply IH; assumption.
Qed.

Definition ip_sinv (st : row * row) (ra2 : row) : Prop :=
  ip_inc (map fst (ip_out st)) /\ (forall c, In c (map fst ra2) -> In c (map fst (fst st))).

Lemma ip_step_struct st ea (ra2 : row) :
  ip_sinv st (ea :: ra2) -> ip_inc (map fst (ea :: ra2)) ->
  ip_sinv (ip_step st ea) ra2 /\
  exists pre e tl, ip_out st = pre ++ e :: tl /\ fst e = fst ea /\
                   ip_out (ip_step st ea) = pre ++ (fst ea, snd ea) :: tl.
Proof.
  intros [I1 I2] Hinc. simpl in Hinc. destruct Hinc as [Hlt Hinc].
  assert (Hcols := ip_step_cols st ea).
  unfold ip_step in *. destruct (pskip (fst ea) (fst st) (snd st)) as [r' d'] eqn:E.
  destruct (ip_pskip_spec _ _ _ _ _ E) as [sk [H1 [H2 [H3 H4]]]].
  assert (Hca : In (fst ea) (map fst r')).
  { assert (H : In (fst ea) (map fst (fst st))) by (apply I2; left; reflexivity).
    rewrite H1, map_app, in_app_iff in H. destruct H as [H|H]; [|exact H].
    apply in_map_iff in H. destruct H as [e [He1 He2]]. specialize (H3 e He2). lia. }
  assert (Hr' : ip_inc (map fst r')).
  { unfold ip_out in I1. rewrite H1, app_assoc, map_app in I1. apply ip_inc_app_r in I1. exact I1. }
  destruct r' as [|e tl]; [destruct Hca|].
  simpl in Hr'. destruct Hr' as [Hr1 Hr2].
  assert (Heq : fst e = fst ea).
  { simpl in Hca. destruct Hca as [H|H]; [exact H|]. specialize (Hr1 _ H). lia. }
  rewrite (proj2 (Nat.eqb_eq _ _) Heq) in *.
  split.
  - split.
    + rewrite Hcols. exact I1.
    + intros c Hc. simpl. right.
      assert (H : In c (map fst (fst st))) by (apply I2; right; exact Hc).
      specialize (Hlt c Hc).
      rewrite H1, map_app, in_app_iff in H. destruct H as [H|H].
      * apply in_map_iff in H. destruct H as [e' [He1 He2]]. specialize (H3 e' He2). lia.
      * simpl in H. destruct H as [H|H]; [lia|exact H].
  - exists (rev (snd st) ++ sk), e, tl. unfold ip_out. simpl fst. simpl snd.
    split; [rewrite H1, <- app_assoc; reflexivity|]. split; [exact Heq|].
    rewrite H2, rev_app_distr, rev_involutive, Heq. reflexivity.
Qed.

Definition ip_upd (ra : row) (x : nat * S) : nat * S :=
  (fst x, match first_col ra (fst x) with Some v => v | None => snd x end).

Lemma ip_fold_struct (ra2 : row) : forall st, ip_sinv st ra2 -> ip_inc (map fst ra2) ->
  ip_out (fold_left ip_step ra2 st) = map (ip_upd ra2) (ip_out st).
Proof.
  induction ra2 as [|ea ra2 IH]; intros st HI Hinc; simpl fold_left.
  - unfold ip_upd. simpl. symmetry. rewrite <- (map_id (ip_out st)) at 2.
    apply map_ext. intros [c v]. reflexivity.
  - destruct (ip_step_struct st ea ra2 HI Hinc) as [HI' [pre [e [tl [E1 [E2 E3]]]]]].
    rewrite IH; [|exact HI'|apply Hinc]. rewrite E3, E1.
    destruct HI as [I1 _]. rewrite E1, map_app in I1. simpl in I1.
    apply ip_inc_app_mid in I1. destruct I1 as [Hpre Htl].
    simpl in Hinc. destruct Hinc as [Hlt _].
    destruct ea as [ca va]. simpl in *.
    rewrite !map_app. simpl. f_equal; [|f_equal].
    + apply map_ext_in. intros x Hx. unfold ip_upd. simpl.
      assert (fst x < fst e) by (apply Hpre; apply in_map; exact Hx).
      destruct (Nat.eqb_spec ca (fst x)) as [Hq|_]; [lia|reflexivity].
    + unfold ip_upd. simpl. rewrite E2, Nat.eqb_refl.
      rewrite ip_first_col_None; [reflexivity|]. intro Hc. specialize (Hlt _ Hc). lia.
    + apply map_ext_in. intros x Hx. unfold ip_upd. simpl.
      assert (fst e < fst x) by (apply Htl; apply in_map; exact Hx).
      destruct (Nat.eqb_spec ca (fst x)) as [Hq|_]; [lia|reflexivity].
Qed.

Theorem ip_fill_row_struct (ra : row) (pc : list nat) :
  sorted_strict ra = true -> ip_inc pc -> (forall c, In c (map fst ra) -> In c pc) ->
  ilup_fill_row ra pc
  = map (fun c => (c, match first_col ra c with Some v => v | None => s0 end)) pc.
Proof.
  intros Hs Hp Hincl. rewrite ip_fill_row_eq, ip_fold_struct.
  - unfold ip_out. simpl. rewrite map_map. reflexivity.
  - assert (Hm : map fst (map (fun c => (c, @s0 S)) pc) = pc)
      by (rewrite map_map; simpl; apply map_id).
    split; unfold ip_out; simpl; rewrite Hm; assumption.
  - apply ip_sorted_inc. exact Hs.
Qed.

Corollary ip_fill_row_keeps (ra : row) (pc : list nat) j v :
  sorted_strict ra = true -> ip_inc pc -> (forall c, In c (map fst ra) -> In c pc) ->
  In (j, v) ra -> In (j, v) (ilup_fill_row ra pc).
Proof.
  intros Hs Hp Hincl Hin. rewrite ip_fill_row_struct by assumption.
  apply in_map_iff. exists j. split.
  - rewrite (ip_first_col_sorted ra j v); [reflexivity| |exact Hin]. apply ip_sorted_inc. exact Hs.
  - apply Hincl. apply (in_map fst _ _ Hin).
Qed.

Corollary ip_fill_row_zero (ra : row) (pc : list nat) e :
  sorted_strict ra = true -> ip_inc pc -> (forall c, In c (map fst ra) -> In c pc) ->
  In e (ilup_fill_row ra pc) -> ~ In (fst e) (map fst ra) -> snd e = s0.
Proof.
  intros Hs Hp Hincl Hin Hn. rewrite ip_fill_row_struct in Hin by assumption.
  apply in_map_iff in Hin. destruct Hin as [c [<- _]]. simpl in *.
  rewrite ip_first_col_None by exact Hn. reflexivity.
Qed.

End Struct.

(* ------------------------------------------------------------------ *)
(* the matrix P = ilup_matrix k A: pattern, shape (any Scalar)          *)
Section Mat.
Context {S : Scalar}.
Local Notation row := (row S).
Local Notation crs := (crs S).
Context (A : crs).
Hypothesis Hwf : wf A = true.
Hypothesis Hsq : ncols A = nrows A.
Hypothesis Hsorted : forall i, i < nrows A -> sorted_strict (nth i (rows A) []) = true.
Hypothesis Hdiag : has_diag A = true.

(* the symbolic pattern built by ilup_matrix (S k') *)
Definition ip_P (k' : nat) : list (list nat) :=
  iter_symb k' (symb_product (pattern A) (pattern A)) (pattern A).

Lemma ip_pat0 : ip_pat_ok A 0 (pattern A).
Proof.
  split; [apply ip_pattern_length|]. intros i Hi. rewrite ip_pattern_nth. split.
  - apply ip_sorted_inc. apply Hsorted. exact Hi.
  - intro j. simpl. tauto.
Qed.

Lemma ip_P_ok k' : ip_pat_ok A (Datatypes.S k') (ip_P k').
Proof.
  unfold ip_P. rewrite <- (Nat.add_1_r k').
  apply ip_pat_ok_iter. apply ip_pat_ok_step. exact ip_pat0.
Qed.

Lemma ip_rows_length k' : length (rows (ilup_matrix (Datatypes.S k') A)) = nrows A.
Proof.
  simpl. fold (ip_P k'). apply ip_map2_length. destruct (ip_P_ok k') as [H _]. rewrite H. reflexivity.
Qed.

Lemma ip_rows_nth k' i : i < nrows A ->
  nth i (rows (ilup_matrix (Datatypes.S k') A)) [] = ilup_fill_row (nth i (rows A) []) (nth i (ip_P k') []).
Proof.
  intro Hi. simpl. fold (ip_P k'). apply ip_map2_nth; [exact Hi|].
  destruct (ip_P_ok k') as [H _]. rewrite H. exact Hi.
Qed.

(* T3 *)
Theorem ip_nrows k : nrows (ilup_matrix k A) = nrows A.
Proof. destruct k as [|k']; [reflexivity|]. apply ip_rows_length. Qed.

Theorem ip_ncols k : ncols (ilup_matrix k A) = ncols A.
Proof. destruct k; reflexivity. Qed.

Theorem ip_cols_P k' i : i < nrows A ->
  ip_cols (ilup_matrix (Datatypes.S k') A) i = nth i (ip_P k') [].
Proof. intro Hi. unfold ip_cols. rewrite ip_rows_nth by exact Hi. apply ip_fill_row_cols. Qed.

(* T2 *)
Theorem ip_pattern_reach k' i j : i < nrows A ->
  In j (ip_cols (ilup_matrix (Datatypes.S k') A) i) <-> reach A (Datatypes.S k') i j.
Proof.
  intro Hi. rewrite ip_cols_P by exact Hi. destruct (ip_P_ok k') as [_ H]. apply (H i Hi).
Qed.

Theorem ip_has_col_reach k' i j : i < nrows A ->
  has_col j (nth i (rows (ilup_matrix (Datatypes.S k') A)) []) = true <-> reach A (Datatypes.S k') i j.
Proof. intro Hi. rewrite ip_has_col_In. apply ip_pattern_reach. exact Hi. Qed.

Theorem ip_sorted k i : i < nrows A -> sorted_strict (nth i (rows (ilup_matrix k A)) []) = true.
Proof.
  intro Hi. destruct k as [|k']; [apply Hsorted; exact Hi|].
  apply ip_sorted_inc. fold (ip_cols (ilup_matrix (Datatypes.S k') A) i).
  rewrite ip_cols_P by exact Hi. destruct (ip_P_ok k') as [_ H]. apply (H i Hi).
Qed.

(* columns reached are columns of A *)
Lemma ip_cols_lt c j : In j (ip_cols A c) -> j < ncols A.
Proof.
  intro H. destruct (Nat.lt_ge_cases c (nrows A)) as [Hc|Hc].
  - apply (proj1 (ip_wf_iff A) Hwf c j Hc H).
  - unfold ip_cols in H. rewrite nth_overflow in H by exact Hc. destruct H.
Qed.

Lemma ip_reach_lt t i j : reach A t i j -> j < ncols A.
Proof.
  destruct t as [|t]; simpl.
  - apply ip_cols_lt.
  - intros [c [_ H]]. apply ip_cols_lt in H. exact H.
Qed.

Theorem ip_wf k : wf (ilup_matrix k A) = true.
Proof.
  destruct k as [|k']; [exact Hwf|]. apply ip_wf_iff. intros i j Hi Hj.
  rewrite ip_nrows in Hi. rewrite ip_ncols. apply ip_pattern_reach in Hj; [|exact Hi].
  apply ip_reach_lt in Hj. exact Hj.
Qed.

(* with a full diagonal, the pattern of A is contained in the pattern of every power *)
Lemma ip_diag_In i : i < nrows A -> In i (ip_cols A i).
Proof. apply (proj1 (ip_has_diag_iff A) Hdiag). Qed.

Lemma ip_reach_diag t i : i < nrows A -> reach A t i i.
Proof.
  intro Hi. induction t as [|t IH]; simpl; [apply ip_diag_In; exact Hi|].
  exists i. split; [exact IH|apply ip_diag_In; exact Hi].
Qed.

Theorem ip_reach_incl t i j : i < nrows A -> In j (ip_cols A i) -> reach A t i j.
Proof.
  intros Hi Hj. destruct t as [|t]; simpl; [exact Hj|].
  exists i. split; [apply ip_reach_diag; exact Hi|exact Hj].
Qed.

(* T5 *)
Theorem ip_has_diag k : has_diag (ilup_matrix k A) = true.
Proof.
  destruct k as [|k']; [exact Hdiag|]. apply ip_has_diag_iff. intros i Hi.
  rewrite ip_nrows in Hi. apply ip_pattern_reach; [exact Hi|]. apply ip_reach_diag. exact Hi.
Qed.

(* T4 structural, matrix level (any Scalar): row i of P is the pattern row with A's values *)
Theorem ip_row_struct k' i : i < nrows A ->
  nth i (rows (ilup_matrix (Datatypes.S k') A)) []
  = map (fun c => (c, match first_col (nth i (rows A) []) c with Some v => v | None => s0 end))
        (nth i (ip_P k') []).
Proof.
  intro Hi. rewrite ip_rows_nth by exact Hi.
  destruct (ip_P_ok k') as [_ HP]. destruct (HP i Hi) as [Hinc Hreach].
  apply ip_fill_row_struct; [apply Hsorted; exact Hi|exact Hinc|].
  intros c Hc. apply Hreach. apply ip_reach_incl; assumption.
Qed.

End Mat.

(* ------------------------------------------------------------------ *)
(* Part 2: values (ring laws)                                          *)
Section Val.
Context {S : Scalar}.
Local Notation row := (row S).
Local Notation crs := (crs S).
Hypothesis Srt : Sring S.
Add Ring ip_SRing : Srt.

Lemma ip_rget_app (r1 r2 : row) j : rget (r1 ++ r2) j = (rget r1 j + rget r2 j)%S.
Proof.
  induction r1 as [|e r1 IH]; simpl app.
  - rewrite rget_nil. ring.
  - rewrite !(rget_cons Srt), IH. ring.
Qed.

Lemma ip_rget_zero (pc : list nat) j : rget (map (fun c => (c, @s0 S)) pc) j = s0.
Proof.
  induction pc as [|c pc IH]; simpl map; [reflexivity|].
  rewrite (rget_cons Srt), IH. simpl. destruct (Nat.eqb c j); ring.
Qed.

(* state invariant of the merge walk w.r.t. the entries of the A row still to come *)
Definition ip_inv (st : row * row) (ra2 : row) : Prop :=
  ip_inc (map fst (fst st)) /\
  (forall c, In c (map fst ra2) -> In c (map fst (fst st))) /\
  (forall e, In e (fst st) -> In (fst e) (map fst ra2) -> snd e = s0).

Lemma ip_step_val st ea (ra2 : row) :
  ip_inv st (ea :: ra2) -> ip_inc (map fst (ea :: ra2)) ->
  ip_inv (ip_step st ea) ra2 /\
  forall j, rget (ip_out (ip_step st ea)) j
            = (rget (ip_out st) j + (if Nat.eqb (fst ea) j then snd ea else s0))%S.
Proof.
  intros [I1 [I2 I3]] Hinc. simpl in Hinc. destruct Hinc as [Hlt Hinc].
  unfold ip_step. destruct (pskip (fst ea) (fst st) (snd st)) as [r' d'] eqn:E.
  destruct (ip_pskip_spec _ _ _ _ _ E) as [sk [H1 [H2 [H3 H4]]]].
  assert (Hca : In (fst ea) (map fst r')).
  { assert (H : In (fst ea) (map fst (fst st))) by (apply I2; left; reflexivity).
    rewrite H1, map_app, in_app_iff in H. destruct H as [H|H]; [|exact H].
    apply in_map_iff in H. destruct H as [e [He1 He2]]. specialize (H3 e He2). lia. }
  assert (Hr' : ip_inc (map fst r')).
  { rewrite H1, map_app in I1. apply ip_inc_app_r in I1. exact I1. }
  destruct r' as [|e tl]; [destruct Hca|].
  simpl in Hr'. destruct Hr' as [Hr1 Hr2].
  assert (Heq : fst e = fst ea).
  { simpl in Hca. destruct Hca as [H|H]; [exact H|]. specialize (Hr1 _ H). lia. }
  rewrite (proj2 (Nat.eqb_eq _ _) Heq).
  assert (He0 : snd e = s0).
  { apply I3; [rewrite H1; apply in_or_app; right; left; reflexivity|]. left. symmetry. exact Heq. }
  split.
  - split; [|split].
    + simpl. split; assumption.
    + intros c Hc. simpl. right.
      assert (H : In c (map fst (fst st))) by (apply I2; right; exact Hc).
      specialize (Hlt c Hc).
      rewrite H1, map_app, in_app_iff in H. destruct H as [H|H].
      * apply in_map_iff in H. destruct H as [e' [He1 He2]]. specialize (H3 e' He2). lia.
      * simpl in H. destruct H as [H|H]; [lia|exact H].
    + intros e' He' Hc. simpl in He'. destruct He' as [<-|He'].
      * simpl in Hc. specialize (Hlt _ Hc). lia.
      * apply I3; [rewrite H1; apply in_or_app; right; right; exact He'|]. right. exact Hc.
  - intro j. unfold ip_out. simpl fst. simpl snd. rewrite H1, H2.
    rewrite rev_app_distr, rev_involutive, <- app_assoc.
    rewrite !ip_rget_app, !(rget_cons Srt). simpl fst. simpl snd. rewrite He0, Heq.
    destruct (Nat.eqb (fst ea) j); ring.
Qed.

Lemma ip_fold_val (ra2 : row) : forall st, ip_inv st ra2 -> ip_inc (map fst ra2) ->
  forall j, rget (ip_out (fold_left ip_step ra2 st)) j = (rget (ip_out st) j + rget ra2 j)%S.
Proof.
  induction ra2 as [|ea ra2 IH]; intros st HI Hinc j; simpl fold_left.
  - rewrite rget_nil. ring.
  - destruct (ip_step_val st ea ra2 HI Hinc) as [HI' Hr].
    rewrite IH; [|exact HI'|apply Hinc]. rewrite Hr, (rget_cons Srt). ring.
Qed.

(* T4 *)
Theorem ip_fill_row_rget (ra : row) (pc : list nat) j :
  sorted_strict ra = true -> ip_inc pc -> (forall c, In c (map fst ra) -> In c pc) ->
  rget (ilup_fill_row ra pc) j = rget ra j.
Proof.
  intros Hs Hp Hincl. rewrite ip_fill_row_eq, ip_fold_val.
  - unfold ip_out. simpl. rewrite ip_rget_zero. ring.
  - assert (Hm : map fst (map (fun c => (c, @s0 S)) pc) = pc)
      by (rewrite map_map; simpl; apply map_id).
    split; [|split]; simpl fst.
    + rewrite Hm. exact Hp.
    + rewrite Hm. exact Hincl.
    + intros e He _. apply in_map_iff in He. destruct He as [c [<- _]]. reflexivity.
  - apply ip_sorted_inc. exact Hs.
Qed.

(* ------------------------------------------------------------------ *)
Section Final.
Context (A : crs).
Hypothesis Hwf : wf A = true.
Hypothesis Hsq : ncols A = nrows A.
Hypothesis Hsorted : forall i, i < nrows A -> sorted_strict (nth i (rows A) []) = true.
Hypothesis Hdiag : has_diag A = true.

Theorem ip_mget k i j : i < nrows A -> mget (ilup_matrix k A) i j = mget A i j.
Proof.
  intro Hi. destruct k as [|k']; [reflexivity|]. unfold mget.
  rewrite (ip_rows_nth A Hsorted k' i Hi).
  destruct (ip_P_ok A Hsorted k') as [_ HP]. destruct (HP i Hi) as [Hinc Hreach].
  apply ip_fill_row_rget.
  - apply Hsorted. exact Hi.
  - exact Hinc.
  - intros c Hc. apply Hreach. apply (ip_reach_incl A Hdiag); assumption.
Qed.

Theorem ip_mget_all k i j : mget (ilup_matrix k A) i j = mget A i j.
Proof.
  destruct (Nat.lt_ge_cases i (nrows A)) as [Hi|Hi]; [apply ip_mget; exact Hi|].
  unfold mget. rewrite !nth_overflow; [reflexivity|exact Hi|].
  fold (nrows (ilup_matrix k A)). rewrite (ip_nrows A Hsorted). exact Hi.
Qed.

(* T6 *)
Theorem ip_matrix_ok k :
  let P := ilup_matrix k A in
  wf P = true /\ ncols P = nrows P /\ nrows P = nrows A /\
  (forall i, i < nrows P -> sorted_strict (nth i (rows P) []) = true) /\
  has_diag P = true /\
  (forall i j, i < nrows A -> mget P i j = mget A i j) /\
  (k >= 1 -> forall i j, i < nrows A ->
     (has_col j (nth i (rows P) []) = true <-> reach A k i j)).
Proof.
  intro P. subst P.
  split; [apply (ip_wf A Hwf Hsorted)|].
  split; [rewrite (ip_ncols A), (ip_nrows A Hsorted); exact Hsq|].
  split; [apply (ip_nrows A Hsorted)|].
  split; [intros i Hi; rewrite (ip_nrows A Hsorted) in Hi; apply (ip_sorted A Hsorted); exact Hi|].
  split; [apply (ip_has_diag A Hsorted Hdiag)|].
  split; [intros i j Hi; apply ip_mget; exact Hi|].
  intros Hk i j Hi. destruct k as [|k']; [lia|].
  apply (ip_has_col_reach A Hsorted); exact Hi.
Qed.

End Final.
End Val.

(* final packaging, closed statement *)
Theorem ilup_matrix_ok {S : Scalar} (Srt : Sring S) (A : crs S) (k : nat) :
  wf A = true -> ncols A = nrows A ->
  (forall i, i < nrows A -> sorted_strict (nth i (rows A) []) = true) ->
  has_diag A = true ->
  let P := ilup_matrix k A in
  wf P = true /\ ncols P = nrows P /\ nrows P = nrows A /\
  (forall i, i < nrows P -> sorted_strict (nth i (rows P) []) = true) /\
  has_diag P = true /\
  (forall i j, i < nrows A -> mget P i j = mget A i j) /\
  (k >= 1 -> forall i j, i < nrows A ->
     (has_col j (nth i (rows P) []) = true <-> reach A k i j)).
Proof. intros H1 H2 H3 H4. exact (ip_matrix_ok Srt A H1 H2 H3 H4 k). Qed.

Theorem ilup_matrix_0 {S : Scalar} (A : crs S) : ilup_matrix 0 A = A.
Proof. reflexivity. Qed.

(* ------------------------------------------------------------------ *)
(* closed instance and a concrete sanity check                          *)
From Amgcl Require Import QcInst.

Theorem ilup_matrix_ok_Qc (A : crs QcS) (k : nat) :
  wf A = true -> ncols A = nrows A ->
  (forall i, i < nrows A -> sorted_strict (nth i (rows A) []) = true) ->
  has_diag A = true ->
  let P := ilup_matrix k A in
  wf P = true /\ ncols P = nrows P /\ nrows P = nrows A /\
  (forall i, i < nrows P -> sorted_strict (nth i (rows P) []) = true) /\
  has_diag P = true /\
  (forall i j, i < nrows A -> mget P i j = mget A i j) /\
  (k >= 1 -> forall i j, i < nrows A ->
     (has_col j (nth i (rows P) []) = true <-> reach A k i j)).
Proof. exact (ilup_matrix_ok QcS_ring A k). Qed.

(* tridiagonal-like 4x4 example: the hypotheses are satisfiable, and the pattern of
   ilup_matrix 1 is that of A^2 (bandwidth 2), of ilup_matrix 2 that of A^3 (full) *)
Definition ip_exA : crs QcS :=
  mkCrs 4 [[(0, qc 4 1); (1, qc (-1) 1)];
           [(0, qc (-1) 1); (1, qc 4 1); (2, qc 1 2)];
           [(1, qc 3 1); (2, qc 4 1); (3, qc 1 1)];
           [(2, qc 1 1); (3, qc 5 1)]].

Example ip_exA_hyps :
  wf ip_exA = true /\ ncols ip_exA = nrows ip_exA /\
  forallb sorted_strict (rows ip_exA) = true /\ has_diag ip_exA = true.
Proof. vm_compute. repeat split. Qed.

Example ip_exA_pattern :
  map (map fst) (rows (ilup_matrix 1 ip_exA)) = [[0; 1; 2]; [0; 1; 2; 3]; [0; 1; 2; 3]; [1; 2; 3]] /\
  map (map fst) (rows (ilup_matrix 2 ip_exA)) = [[0; 1; 2; 3]; [0; 1; 2; 3]; [0; 1; 2; 3]; [0; 1; 2; 3]].
Proof. vm_compute. split; reflexivity. Qed.

Print Assumptions ilup_matrix_ok.
Print Assumptions ip_symb_row_In.
Print Assumptions ip_row_struct.
Print Assumptions ilup_matrix_ok_Qc.
