(* SpecRadGrid.v -- C08: the pseudo square root of the exact instance QcS (floor root on the 2^-64 grid, QcInst.v)
   is non-negative and below the true root by less than 2^-64:  0 <= qc_sqrt x  and  x <= (qc_sqrt x + 2^-64)^2.
   Hence the block Gershgorin bound holds in QcS WITHOUT any hypothesis about square roots for the estimate computed
   with  ||a|| + 2^-64  in place of the pseudo norm ||a||  [block_gersh_bound_grid_Qc(_scaled)] -- this is the
   inequality the oracle sr.o.bgeig of the tie checks on the implementation's value. *)
From Coq Require Import QArith Qcanon Qcabs ZArith Lia.
From Amgcl Require Import Scalar QcInst Vec Crs Kernels KernelsProofs MatOps MatOpsProofs MatOps2 MatOps2Proofs
  BlockInst NcRing NcRingBlock BlockGershProofs SpecRadOrd SpecRadPower SpecRadBlock.
Local Close Scope Qc_scope.
Local Close Scope Q_scope.

Definition eps64 : QcS := Q2Qc (1 # Z.to_pos two64).

Local Open Scope Z_scope.

Lemma two64_pos : 0 < two64. Proof. reflexivity. Qed.
Lemma two128_sq : two128 = two64 * two64. Proof. reflexivity. Qed.
Lemma Zpos_two64 : Zpos (Z.to_pos two64) = two64. Proof. reflexivity. Qed.

(* the integer fact: n, d > 0, f = (n T) / d, s = sqrt f  ->  n * T <= (s+1)^2 * d  with T = 2^128 *)
Lemma grid_Z (n : Z) (d : positive) : 0 < n ->
  let s := Z.sqrt ((n * two128) / Zpos d) in
  n * (two64 * two64) <= (s + 1) * (s + 1) * Zpos d.
Proof.
  intros Hn s. set (f := (n * two128) / Zpos d) in *.
  assert (Hf0 : 0 <= f) by (apply Z.div_pos; [unfold two128; lia|lia]).
  pose proof (Z.sqrt_spec f Hf0) as [_ Hs]. fold s in Hs. unfold Z.succ in Hs.
  assert (Hd : n * two128 < Zpos d * (f + 1)).
  { pose proof (Z.mul_succ_div_gt (n * two128) (Zpos d) ltac:(lia)) as H. fold f in H. unfold Z.succ in H. lia. }
  rewrite <- two128_sq.
  assert (H1 : f + 1 <= (s + 1) * (s + 1)) by lia.
  assert (H2 : Zpos d * (f + 1) <= Zpos d * ((s + 1) * (s + 1))) by (apply Z.mul_le_mono_nonneg_l; lia).
  lia.
Qed.

Local Close Scope Z_scope.
Local Open Scope Q_scope.

Lemma qc_sqrt_pos_form (x : Qc) : (0 < Qnum (this x))%Z ->
  qc_sqrt x = Q2Qc (Z.sqrt ((Qnum (this x) * two128) / Zpos (Qden (this x))) # Z.to_pos two64).
Proof.
  intro H. unfold qc_sqrt. destruct (Z.leb_spec (Qnum (this x)) 0) as [H0|H0]; [lia|].
  f_equal. f_equal. unfold Qfloor', Qmult, inject_Z. cbn [Qnum Qden]. rewrite Pos.mul_1_r. reflexivity.
Qed.

Lemma qc_sqrt_nonneg (x : Qc) : Qcle (Q2Qc 0) (qc_sqrt x).
Proof.
  unfold Qcle. unfold qc_sqrt. destruct (Z.leb (Qnum (this x)) 0); [apply Qle_refl|].
  cbn [this Q2Qc]. rewrite !Qred_correct. unfold Qle. cbn [Qnum Qden].
  pose proof (Z.sqrt_nonneg (Qfloor' (this x * inject_Z two128))). lia.
Qed.

Theorem qc_sqrt_grid (x : Qc) : Qcle (Q2Qc 0) x ->
  Qcle x (Qcmult (Qcplus (qc_sqrt x) eps64) (Qcplus (qc_sqrt x) eps64)).
Proof.
  intro Hx. destruct (Z_lt_le_dec 0 (Qnum (this x))) as [Hn|Hn].
  - rewrite (qc_sqrt_pos_form x Hn). set (s := Z.sqrt ((Qnum (this x) * two128) / Zpos (Qden (this x)))).
    unfold Qcle, Qcmult, Qcplus, eps64. cbn [this Q2Qc]. rewrite !Qred_correct.
    set (P := Z.to_pos two64).
    assert (E : (s # P) + (1 # P) == (s + 1 # P)).
    { unfold Qeq, Qplus. cbn [Qnum Qden]. rewrite Pos2Z.inj_mul. ring. }
    rewrite E. unfold Qle, Qmult. cbn [Qnum Qden]. rewrite Pos2Z.inj_mul. unfold P. rewrite Zpos_two64.
    pose proof (grid_Z (Qnum (this x)) (Qden (this x)) Hn) as G. cbv zeta in G. fold s in G. exact G.
  - (* x <= 0, hence x = 0 <= anything squared *)
    unfold Qcle in *. cbn [this Q2Qc] in Hx.
    assert (H0 : this x <= 0) by (unfold Qle; cbn [Qnum Qden]; lia).
    apply (Qle_trans _ 0); [exact H0|].
    unfold Qcmult. cbn [this Q2Qc]. rewrite Qred_correct.
    set (y := this (Qcplus (qc_sqrt x) eps64)). unfold Qle, Qmult. cbn [Qnum Qden].
    pose proof (Z.square_nonneg (Qnum y)). lia.
Qed.

Local Close Scope Q_scope.
Local Open Scope nat_scope.
Local Open Scope S_scope.

(* in the vocabulary of the Scalar record *)
Lemma qc_le_sle (x y : QcS) : Qcle x y -> sle x y.
Proof. intro H. unfold Gersh.sle. apply Gersh.qc_ltb_ge. exact H. Qed.
Lemma sle_qc_le (x y : QcS) : sle x y -> Qcle x y.
Proof. intro H. apply Gersh.qc_ltb_ge. exact H. Qed.

Section GridBlock.
Variable b : nat.
Hypothesis Hb : 0 < b.
Local Notation B := (BlockS QcS b).

(* the norm the bound is about: pseudo Frobenius norm + 2^-64 *)
Definition bnrm_up (a : B) : QcS := bnrm QcS b a + eps64.

Lemma eps64_nonneg : sle s0 eps64.
Proof. apply qc_le_sle. unfold Qcle, eps64. cbn. unfold Qle. cbn. lia. Qed.

Lemma bnrm_up_ok (a : B) : norm_ok QcS B (bip QcS b) bnrm_up a.
Proof.
  unfold norm_ok, bnrm_up. rewrite (bnrm_sqrt QcS b Hb QcS_ordfield (fun x => eq_refl) a). split.
  - apply (ole_add_nonneg QcS_ordfield); [apply qc_le_sle; apply qc_sqrt_nonneg|exact eps64_nonneg].
  - apply qc_le_sle. apply qc_sqrt_grid. apply sle_qc_le. apply (bip_nonneg QcS b QcS_ordfield).
Qed.

Theorem block_gersh_bound_grid_Qc (A : crs B) (v : vec B) (lam : QcS) :
  wf A = true -> nrows A = ncols A ->
  (forall i, i < nrows A -> Ax A v i = (blk_embed QcS b lam : B) * vget v i) ->
  (exists i, i < nrows A /\ vget v i <> s0) ->
  sle (sabs lam) (bgersh_spec QcS B bnrm_up false A).
Proof.
  intros Hwf Hsq. apply (bgersh_bound QcS B QcS_ordfield (BlockS_ncring QcS b QcS_ring) (bip QcS b) (blk_embed QcS b) bnrm_up
    (bip_add_l QcS b QcS_ordfield) (bip_sym QcS b QcS_ordfield) (bip_nonneg QcS b QcS_ordfield) (bip_zero QcS b QcS_ordfield)
    (bip_cs QcS b Hb QcS_ordfield) (bip_submult QcS b QcS_ordfield) (bip_emb QcS b QcS_ordfield) A v lam Hwf Hsq).
  intros r e _ _. apply bnrm_up_ok.
Qed.

Theorem block_gersh_bound_grid_scaled_Qc (A : crs B) (v : vec B) (lam : QcS) :
  wf A = true -> nrows A = ncols A ->
  (forall i, i < nrows A -> sinv (Gersh.last_diag A i) * Gersh.last_diag A i = s1) ->
  (forall i, i < nrows A -> Ax A v i = Gersh.last_diag A i * ((blk_embed QcS b lam : B) * vget v i)) ->
  (exists i, i < nrows A /\ vget v i <> s0) ->
  sle (sabs lam) (bgersh_spec QcS B bnrm_up true A).
Proof.
  intros Hwf Hsq Hd. apply (bgersh_bound_scaled QcS B QcS_ordfield (BlockS_ncring QcS b QcS_ring) (bip QcS b) (blk_embed QcS b) bnrm_up
    (bip_add_l QcS b QcS_ordfield) (bip_sym QcS b QcS_ordfield) (bip_nonneg QcS b QcS_ordfield) (bip_zero QcS b QcS_ordfield)
    (bip_cs QcS b Hb QcS_ordfield) (bip_submult QcS b QcS_ordfield) (bip_emb QcS b QcS_ordfield) A v lam Hwf Hsq).
  - intros r e _ _. apply bnrm_up_ok.
  - intros i Hi. split; [apply Hd; exact Hi|apply bnrm_up_ok].
Qed.
End GridBlock.
