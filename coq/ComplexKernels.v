(* ComplexKernels.v -- C07, inner product for complex values: backend::inner_product is SESQUILINEAR,
   linear in the first and CONJUGATE-linear in the second argument.
   Section Involution: for every commutative ring S whose adjoint is an additive, multiplicative involution
     <a x, y> = a <x, y>          <x, a y> = adj(a) <x, y>
     <x + x', y> = <x,y> + <x',y>   <x, y + y'> = <x,y> + <x,y'>          adj <x, y> = <y, x>
   for the mathematical value [dot] and hence (KernelsProofs.inner_product_serial_spec /
   inner_product_parallel_spec) for the Kahan-compensated serial and per-thread implementations.
   Section ComplexInner: the instance ComplexS S0 (ComplexInst.v) over any commutative ring S0 satisfies the
   hypotheses (conjugation); <x, x> is an embedded real: its imaginary part vanishes.
   Closed at the Gaussian rationals CQcS. *)
From Amgcl Require Import Scalar QcInst Vec Crs Kernels KernelsProofs ComplexInst.
Local Open Scope S_scope.

Section Involution.
Context {S : Scalar}.
Local Notation vec := (vec S).
Hypothesis Srt : Sring S.
Hypothesis sadj_add : forall a b : S, sadj (a + b) = sadj a + sadj b.
Hypothesis sadj_mul : forall a b : S, sadj (a * b) = sadj a * sadj b.
Hypothesis sadj_invol : forall a : S, sadj (sadj a) = a.
Add Ring SRingInv : Srt.

Lemma inv_sadj_0 : sadj (@s0 S) = s0.
Proof.
  assert (H : sadj (@s0 S) + sadj s0 = sadj s0 + s0).
  { rewrite <- sadj_add. replace (@s0 S + s0) with (@s0 S) by ring. ring. }
  assert (H2 : sadj (@s0 S) = (sadj s0 + sadj s0) - sadj s0) by ring.
  rewrite H2, H. ring.
Qed.

Definition vscale (a : S) (x : vec) : vec := map (fun xi => a * xi) x.
Definition vadd (x y : vec) : vec := map (fun p => fst p + snd p) (combine x y).

Theorem dot_scal_l (a : S) (x y : vec) : dot (vscale a x) y = a * dot x y.
Proof.
  revert y; induction x as [|u x IH]; intros [|v y]; simpl; try ring. rewrite IH. ring.
Qed.

(* conjugate-linear in the SECOND argument *)
Theorem dot_scal_r (a : S) (x y : vec) : dot x (vscale a y) = sadj a * dot x y.
Proof.
  revert y; induction x as [|u x IH]; intros [|v y]; simpl; try ring. rewrite IH, sadj_mul. ring.
Qed.

Theorem dot_add_l (x x' y : vec) : length x = length x' ->
  dot (vadd x x') y = dot x y + dot x' y.
Proof.
  revert x' y; induction x as [|u x IH]; intros [|u' x'] y H; simpl in *; try discriminate; [destruct y; simpl; ring|].
  destruct y as [|v y]; simpl; [ring|]. unfold vadd in IH. rewrite IH by congruence. ring.
Qed.

Theorem dot_add_r (x y y' : vec) : length y = length y' ->
  dot x (vadd y y') = dot x y + dot x y'.
Proof.
  revert y y'; induction x as [|u x IH]; intros [|v y] [|v' y'] H; simpl in *; try discriminate; try ring.
  unfold vadd in IH. rewrite IH by congruence. rewrite sadj_add. ring.
Qed.

(* Hermitian symmetry *)
Theorem dot_conj_sym (x y : vec) : sadj (dot x y) = dot y x.
Proof.
  revert y; induction x as [|u x IH]; intros [|v y]; simpl; try apply inv_sadj_0.
  rewrite sadj_add, sadj_mul, sadj_invol, IH. ring.
Qed.

(* the implementations *)
Theorem inner_product_sesquilinear (a : S) (x y : vec) :
  inner_product_serial (vscale a x) y = a * inner_product_serial x y /\
  inner_product_serial x (vscale a y) = sadj a * inner_product_serial x y /\
  sadj (inner_product_serial x y) = inner_product_serial y x.
Proof.
  rewrite !(inner_product_serial_spec Srt). split; [apply dot_scal_l|]. split; [apply dot_scal_r|apply dot_conj_sym].
Qed.

Theorem inner_product_parallel_sesquilinear lens (a : S) (x y : vec) :
  length (combine x y) <= fold_right Nat.add 0 lens ->
  inner_product_parallel lens (vscale a x) y = a * inner_product_parallel lens x y /\
  inner_product_parallel lens x (vscale a y) = sadj a * inner_product_parallel lens x y.
Proof.
  intro H.
  assert (H1 : length (combine (vscale a x) y) <= fold_right Nat.add 0 lens)
    by (rewrite combine_length in *; unfold vscale; rewrite map_length; exact H).
  assert (H2 : length (combine x (vscale a y)) <= fold_right Nat.add 0 lens)
    by (rewrite combine_length in *; unfold vscale; rewrite map_length; exact H).
  rewrite !(inner_product_parallel_spec Srt) by assumption.
  rewrite !(inner_product_serial_spec Srt). split; [apply dot_scal_l|apply dot_scal_r].
Qed.

End Involution.

(* ------------------------------------------------------------------ *)
Section ComplexInner.
Variable S0 : Scalar.
Hypothesis Srt : Sring S0.
Add Ring SRingCI : Srt.
Local Notation C := (ComplexS S0).
Let CR : Sring C := ComplexS_ring S0 Srt.

Theorem complex_inner_product_sesquilinear (a : C) (x y : vec C) :
  inner_product_serial (vscale a x) y = a * inner_product_serial x y /\
  inner_product_serial x (vscale a y) = sadj a * inner_product_serial x y /\
  sadj (inner_product_serial x y) = inner_product_serial y x.
Proof. exact (inner_product_sesquilinear CR (conj_add S0 Srt) (conj_mul S0 Srt) (conj_invol S0 Srt) a x y). Qed.

Theorem complex_inner_product_additive (x x' y y' : vec C) :
  length x = length x' -> length y = length y' ->
  inner_product_serial (vadd x x') y = inner_product_serial x y + inner_product_serial x' y /\
  inner_product_serial x (vadd y y') = inner_product_serial x y + inner_product_serial x y'.
Proof.
  intros Hx Hy. rewrite !(inner_product_serial_spec CR).
  split; [apply (dot_add_l CR); exact Hx | apply (dot_add_r CR (conj_add S0 Srt)); exact Hy].
Qed.

Theorem complex_inner_product_parallel lens (a : C) (x y : vec C) :
  length (combine x y) <= fold_right Nat.add 0 lens ->
  inner_product_parallel lens x y = dot x y /\
  inner_product_parallel lens (vscale a x) y = a * inner_product_parallel lens x y /\
  inner_product_parallel lens x (vscale a y) = sadj a * inner_product_parallel lens x y.
Proof.
  intro H. split.
  - rewrite (inner_product_parallel_spec CR) by exact H. apply (inner_product_serial_spec CR).
  - exact (inner_product_parallel_sesquilinear CR (conj_mul S0 Srt) lens a x y H).
Qed.

(* <x, x> is real: sum of |x_i|^2 *)
Theorem complex_inner_self_real (x : vec C) : c_im (inner_product_serial x x) = s0.
Proof.
  rewrite (inner_product_serial_spec CR).
  induction x as [|u x IH]; [reflexivity|].
  cbn [dot]. change (c_im (u * sadj u + dot x x)) with (c_im (u * sadj u) + c_im (dot x x)).
  rewrite IH. cbn [smul sadj ComplexS c_mul c_conj c_re c_im fst snd]. ring.
Qed.

(* the coefficient i: <i x, y> = i <x, y> but <x, i y> = -i <x, y> *)
Theorem complex_inner_i (x y : vec C) :
  inner_product_serial x (vscale ((s0, s1) : T C) y) = ((s0, - s1) : T C) * inner_product_serial x y.
Proof. exact (proj1 (proj2 (complex_inner_product_sesquilinear ((s0, s1) : T C) x y))). Qed.

End ComplexInner.
