(* AmgBlockCycle.v -- C02 for BLOCK value types: what the multigrid cycle model needs beyond Amg.v.

   The cycle itself is NOT re-defined: [Amg.cycle] / [Amg.apply] / [Amg.amg_init] are polymorphic in the
   Scalar record and are run at [BlockInst.BlockS S0 b] (static_matrix<T,b,b>; products do not commute;
   right-hand-side / solution entries static_matrix<T,b,1> travel as column-0 blocks, see BlockInst.v).
   This file adds, definitions only:
     1. [relax5] / [mk_relax5]: the five smoothers the amg drivers instantiate, as ONE constructor of
        (apply_pre, apply_post) pairs over an arbitrary Scalar:
          damped_jacobi, spai0, gauss_seidel (serial)   Relax.v   (through AmgExec.mk_relax_std)
          ilu0 (serial solve)                            Ilu.v     ilu0 + ilu_sweep
          chebyshev (power_iters = 0)                    Cheby.v   gershgorin + cheby_setup + cheby_sweep
        ilu0 can refuse a matrix (no diagonal / zero pivot: the C++ throws): [relax5_ready] says whether
        the constructor succeeds; [mk_relax5] of a refused matrix is the identity sweep -- OUTSIDE the
        domain of the C++ (no object exists); the model driver raises an exception instead of using it
        and every theorem about hierarchies built with [mk_relax5] carries [relax5_ready] hypotheses.
        chebyshev keeps two per-object work vectors p, r (mutable members, not the level's t): every
        solve() overwrites r (residual) and, for degree >= 1, p (axpby with beta = 0 in iteration 0)
        before reading them; the model hands zero vectors in.
     2. the coarse direct solver for block values (skyline_lu<static_matrix<T,b,b>>) as a
        SPECIFICATION: the exact solve (DenseSolve.v) of the matrix expanded to scalars
        ([bexpand]: block (I,J) cell (r,s) -> entry (I*b+r, J*b+s)) applied to the flattened right-hand
        side, re-chunked into column-0 blocks: [mk_solve_block].
   Proofs: AmgBlockCycleProofs.v (history independence, well-formedness), AmgBlockCycleLin.v
   (right-linearity in a non-commutative ring; linearity over base scalars), AmgBlockCycleSym.v (symmetry of the
   V(1,1)-cycle over a ring with an involutive anti-automorphism). *)
From Amgcl Require Import Scalar Vec Crs Kernels MatOps Relax DenseSolve Amg AmgExec Ilu Cheby
  DirectUtil Inverse StaticMat BlockInst BlockKernels.
Local Open Scope S_scope.

Section Relax5.
Context {S : Scalar}.
Local Notation vec := (vec S).
Local Notation crs := (crs S).

Inductive relax5 :=
| R5Std (k : @relax_kind S)                               (* damped_jacobi | spai0 | gauss_seidel *)
| R5Ilu0 (damping : S)
| R5Cheby (degree : nat) (lower higher : S) (scale : bool).

Definition id_sweep : @sweep S := fun _ x t => (x, t).

(* ilu0(A, prm): the factors, or the exception of the constructor *)
Definition ilu0_sweeps (w : S) (A : crs) : option (@sweep S * @sweep S) :=
  match ilu0 A (vzero (nrows A)) with
  | Ok (L, U, D) => let sw := fun rhs x t => ilu_sweep w L U D A rhs x t in Some (sw, sw)
  | Err _ => None
  end.

(* chebyshev(A, prm) with power_iters = 0; apply_pre = apply_post = solve(A, rhs, x), t untouched *)
Definition cheby_sweeps (degree : nat) (lower higher : S) (scale : bool) (A : crs) : @sweep S * @sweep S :=
  let n := nrows A in
  let cdM := cheby_setup scale A (gershgorin scale A) lower higher (vzero n) in
  let sw := fun rhs x (t : vec) => (cheby_sweep cdM degree A rhs x (vzero n) (vzero n), t) in
  (sw, sw).

Definition relax5_ready (k : relax5) (A : crs) : bool :=
  match k with
  | R5Ilu0 w => match ilu0_sweeps w A with Some _ => true | None => false end
  | _ => true
  end.

Definition mk_relax5 (k : relax5) (A : crs) : @sweep S * @sweep S :=
  match k with
  | R5Std k0 => mk_relax_std k0 A
  | R5Ilu0 w => match ilu0_sweeps w A with Some p => p | None => (id_sweep, id_sweep) end
  | R5Cheby degree lower higher scale => cheby_sweeps degree lower higher scale A
  end.

(* every level that owns a smoother (LMid, LLast) can construct it *)
Definition descs_ready (k : relax5) (ls : list (@ldesc S)) : bool :=
  forallb (fun l => match l with LSolve _ => true | _ => relax5_ready k (ld_A l) end) ls.

End Relax5.

Section BlockSolve.
Variable S0 : Scalar.
Variable b : nat.
Local Notation B := (BlockS S0 b).

(* scalar row k (0 <= k < b) of a block row *)
Definition bexpand_row (r : row B) (k : nat) : row S0 :=
  flat_map (fun e => map (fun s => (fst e * b + s, blk_get (snd e) k s)%nat) (seq 0 b)) r.
Definition bexpand (A : crs B) : crs S0 :=
  mkCrs (ncols A * b) (flat_map (fun r => map (bexpand_row r) (seq 0 b)) (rows A)).

(* solve(rhs, x) of the coarsest level: the exact solution of the expanded system, as column-0 blocks *)
Definition mk_solve_block (A : crs B) (rhs x : vec B) : vec B :=
  match dense_solve (bexpand A) (flat_of_bvec S0 b rhs) with
  | Some y => bvec_of_flat S0 b y
  | None => x
  end.
Definition solvable_block (A : crs B) : bool :=
  match dense_solve (bexpand A) (vzero (nrows A * b)) with Some _ => true | None => false end.

(* the block hierarchy made runnable: five smoothers, block coarse solve *)
Definition block_levels (k : @relax5 B) (ls : list (@ldesc B)) : list (@level B) :=
  map (instantiate (mk_relax5 k) mk_solve_block) ls.

End BlockSolve.
