(* IluProofs.v -- proofs about the ILU substitution sweeps and the structure of the
   ILU(0)/ILU(k) factors (model: Ilu.v).

   Part 1 (AnyScalar): no algebraic law -- set_nth / lsolve_row frame lemmas, the
     structural predicates strict_lower / strict_upper (+ boolean versions with
     reflection), structure of the factors returned by ilu0 and iluk.
   Part 2 (RingLaws): commutative-ring laws -- the substitution equations of
     lsolve / usolve / ilu_solve, ilu_solve 0 = 0, fixed point of ilu_sweep,
     linearity of ilu_solve.
   Part 3 (FieldLaws): the "(D^-1 + U) x = y" form of the backward sweep.
   Part 4 (FactorStructure, no algebraic law): dimensions, triangularity and pattern
     inclusion of the factors returned by ilu0; dimensions and triangularity for iluk.
   Part 5 (Ilu0Solve): ilu0 output plugged into the substitution equations. *)
From Coq Require Import ZifyBool.
From Amgcl Require Import Scalar Vec Crs Kernels KernelsProofs MatOps Relax Ilu.
Local Open Scope S_scope.

(* generic list facts *)
Lemma fold_left_inv {A B} (f : A -> B -> A) (P : A -> Prop) (l : list B) (a : A) :
  P a -> (forall a b, In b l -> P a -> P (f a b)) -> P (fold_left f l a).
Proof.
  revert a; induction l as [|b l IH]; intros a Ha Hf; simpl; [exact Ha|].
  apply IH; [apply Hf; [left; reflexivity|exact Ha]|].
  intros a' b' Hb'. apply Hf. right; exact Hb'.
Qed.

(* ================================================================== *)
Section AnyScalar.
Context {S : Scalar}.
Local Notation vec := (vec S).
Local Notation row := (row S).
Local Notation crs := (crs S).

(* ---------------- set_nth ---------------- *)
Lemma set_nth_length (x : vec) i v : length (set_nth x i v) = length x.
Proof. revert i; induction x as [|a x IH]; intros [|i]; simpl; auto. Qed.

Lemma set_nth_get_ne (x : vec) i v j : j <> i -> vget (set_nth x i v) j = vget x j.
Proof.
  unfold vget. revert i j; induction x as [|a x IH]; intros [|i] [|j] H; simpl; auto; try lia.
Qed.

Lemma set_nth_get_eq (x : vec) i v : i < length x -> vget (set_nth x i v) i = v.
Proof.
  unfold vget. revert i; induction x as [|a x IH]; intros [|i] H; simpl in *; auto; try lia.
  apply IH; lia.
Qed.

Lemma set_nth_oob (x : vec) i v : length x <= i -> set_nth x i v = x.
Proof.
  revert i; induction x as [|a x IH]; intros [|i] H; simpl in *; auto; try lia.
  f_equal. apply IH; lia.
Qed.

Lemma set_nth_get (x : vec) i v j :
  vget (set_nth x i v) j = if Nat.eqb j i && Nat.ltb i (length x) then v else vget x j.
Proof.
  destruct (Nat.eqb_spec j i) as [->|Hne]; simpl.
  - destruct (Nat.ltb_spec i (length x)).
    + apply set_nth_get_eq; assumption.
    + rewrite set_nth_oob by assumption. reflexivity.
  - apply set_nth_get_ne; assumption.
Qed.

Lemma set_nth_same (x : vec) i : set_nth x i (vget x i) = x.
Proof.
  unfold vget. revert i; induction x as [|a x IH]; intros [|i]; simpl; auto.
  f_equal. apply IH.
Qed.

Lemma vget_vzero n i : vget (vzero n : vec) i = s0.
Proof.
  unfold vget, vzero. revert i; induction n as [|n IH]; intros [|i]; simpl; auto.
Qed.

Lemma vzero_length n : length (vzero n : vec) = n.
Proof. apply repeat_length. Qed.

Lemma vec_eq_vzero (l : vec) n :
  length l = n -> (forall i, i < n -> vget l i = s0) -> l = vzero n.
Proof.
  unfold vget, vzero. revert n; induction l as [|a l IH]; intros [|n] Hl H; simpl in *; try lia; auto.
  f_equal.
  - apply (H 0). lia.
  - apply IH; [lia|]. intros i Hi. apply (H (Datatypes.S i)). lia.
Qed.

(* ---------------- lsolve_row / usolve_row: frame facts ---------------- *)
Lemma lsolve_row_length i (r : row) (x : vec) : length (lsolve_row i r x) = length x.
Proof.
  unfold lsolve_row. revert x; induction r as [|e r IH]; intro x; simpl; [reflexivity|].
  rewrite IH. apply set_nth_length.
Qed.

Lemma lsolve_row_get_ne i (r : row) (x : vec) j : j <> i -> vget (lsolve_row i r x) j = vget x j.
Proof.
  intro H. unfold lsolve_row. revert x; induction r as [|e r IH]; intro x; simpl; [reflexivity|].
  rewrite IH. apply set_nth_get_ne; assumption.
Qed.

Lemma usolve_row_length D i (r : row) (x : vec) : length (usolve_row D i r x) = length x.
Proof. unfold usolve_row. rewrite set_nth_length. apply lsolve_row_length. Qed.

Lemma usolve_row_get_ne D i (r : row) (x : vec) j : j <> i -> vget (usolve_row D i r x) j = vget x j.
Proof.
  intro H. unfold usolve_row. rewrite set_nth_get_ne by assumption. apply lsolve_row_get_ne; assumption.
Qed.

Lemma lsolve_row_cons i e (r : row) (x : vec) :
  lsolve_row i (e :: r) x = lsolve_row i r (set_nth x i (vget x i - snd e * vget x (fst e))).
Proof. reflexivity. Qed.

(* dotrow only looks at the cells named by the row *)
Lemma dotrow_ext_acc (r : row) (x y : vec) (a : S) :
  (forall e, In e r -> vget x (fst e) = vget y (fst e)) ->
  fold_left (fun acc e => acc + snd e * vget x (fst e)) r a =
  fold_left (fun acc e => acc + snd e * vget y (fst e)) r a.
Proof.
  revert a; induction r as [|e r IH]; intros a H; simpl; [reflexivity|].
  rewrite (H e) by (left; reflexivity). apply IH. intros e' He'. apply H. right; exact He'.
Qed.

Lemma dotrow_ext (r : row) (x y : vec) :
  (forall e, In e r -> vget x (fst e) = vget y (fst e)) -> dotrow r x = dotrow r y.
Proof. apply dotrow_ext_acc. Qed.

(* sweeps over an arbitrary list of row indices: lengths *)
Lemma fold_rows_length (step : vec -> nat -> vec) (l : list nat) (x : vec) :
  (forall x i, length (step x i) = length x) -> length (fold_left step l x) = length x.
Proof.
  intro H. revert x; induction l as [|i l IH]; intro x; simpl; [reflexivity|].
  rewrite IH. apply H.
Qed.

Lemma lsolve_length (L : crs) (x : vec) : length (lsolve L x) = length x.
Proof. unfold lsolve. apply fold_rows_length. intros; apply lsolve_row_length. Qed.

Lemma usolve_length n (U : crs) (D x : vec) : length (usolve n U D x) = length x.
Proof. unfold usolve. apply fold_rows_length. intros; apply usolve_row_length. Qed.

Lemma ilu_solve_length (L U : crs) (D x : vec) : length (ilu_solve L U D x) = length x.
Proof. unfold ilu_solve. rewrite usolve_length. apply lsolve_length. Qed.

(* ---------------- structural predicates ---------------- *)
(* every stored entry of row i of L lies strictly left of the diagonal *)
Definition strict_lower (L : crs) : Prop :=
  forall i c v, In (c, v) (nth i (rows L) []) -> c < i.
(* every stored entry of row i of U lies strictly right of the diagonal, inside n columns *)
Definition strict_upper (n : nat) (U : crs) : Prop :=
  forall i c v, In (c, v) (nth i (rows U) []) -> i < c < n.

Definition strict_lowerb (L : crs) : bool :=
  forallb (fun ir => forallb (fun e => Nat.ltb (fst e) (fst ir)) (snd ir)) (indexed (rows L)).
Definition strict_upperb (n : nat) (U : crs) : bool :=
  forallb (fun ir => forallb (fun e => Nat.ltb (fst ir) (fst e) && Nat.ltb (fst e) n) (snd ir))
          (indexed (rows U)).

Lemma forallb_combine_seq {X} (p : nat * X -> bool) (l : list X) (d : X) a :
  forallb p (combine (seq a (length l)) l) = true <->
  (forall k, k < length l -> p ((a + k)%nat, nth k l d) = true).
Proof.
  revert a; induction l as [|y l IH]; intro a; simpl.
  - split; [intros _ k Hk; lia|reflexivity].
  - rewrite andb_true_iff, IH. split.
    + intros [H0 H] [|k] Hk; [rewrite Nat.add_0_r; exact H0|].
      replace (a + Datatypes.S k)%nat with (Datatypes.S a + k)%nat by lia. apply H. lia.
    + intro H. split.
      * specialize (H 0). rewrite Nat.add_0_r in H. apply H. lia.
      * intros k Hk. specialize (H (Datatypes.S k)).
        replace (a + Datatypes.S k)%nat with (Datatypes.S a + k)%nat in H by lia. apply H. lia.
Qed.

Lemma forallb_indexed {X} (p : nat * X -> bool) (l : list X) (d : X) :
  forallb p (indexed l) = true <-> (forall k, k < length l -> p (k, nth k l d) = true).
Proof. unfold indexed. rewrite (forallb_combine_seq p l d 0). reflexivity. Qed.

Lemma strict_lowerb_spec (L : crs) : strict_lowerb L = true <-> strict_lower L.
Proof.
  unfold strict_lowerb, strict_lower. rewrite (forallb_indexed _ _ []). split.
  - intros H i c v Hin. destruct (Nat.lt_ge_cases i (length (rows L))) as [Hi|Hi].
    + specialize (H i Hi). simpl in H. rewrite forallb_forall in H.
      specialize (H _ Hin). simpl in H. lia.
    + rewrite nth_overflow in Hin by assumption. destruct Hin.
  - intros H k Hk. simpl. apply forallb_forall. intros [c v] Hin. simpl.
    apply Nat.ltb_lt. eapply H; eassumption.
Qed.

Lemma strict_upperb_spec n (U : crs) : strict_upperb n U = true <-> strict_upper n U.
Proof.
  unfold strict_upperb, strict_upper. rewrite (forallb_indexed _ _ []). split.
  - intros H i c v Hin. destruct (Nat.lt_ge_cases i (length (rows U))) as [Hi|Hi].
    + specialize (H i Hi). simpl in H. rewrite forallb_forall in H.
      specialize (H _ Hin). simpl in H. lia.
    + rewrite nth_overflow in Hin by assumption. destruct Hin.
  - intros H k Hk. simpl. apply forallb_forall. intros [c v] Hin. simpl.
    specialize (H _ _ _ Hin). lia.
Qed.

End AnyScalar.

(* ================================================================== *)
Section RingLaws.
Context {S : Scalar}.
Local Notation vec := (vec S).
Local Notation row := (row S).
Local Notation crs := (crs S).
Hypothesis Srt : Sring S.
Hypothesis Seqb : seqb_spec S.
Add Ring SRing : Srt.

(* a column that is not stored reads as zero *)
Lemma rget_no_col (r : row) j : (forall e, In e r -> fst e <> j) -> rget r j = s0.
Proof.
  unfold rget. generalize (@s0 S). induction r as [|e r IH]; intros a H; simpl; [reflexivity|].
  destruct (Nat.eqb_spec (fst e) j) as [E|_].
  - exfalso. apply (H e); [left; reflexivity|exact E].
  - apply IH. intros e' He'. apply H. right; exact He'.
Qed.

Lemma mget_lower_zero (L : crs) i j : strict_lower L -> i <= j -> mget L i j = s0.
Proof.
  intros H Hij. unfold mget. apply rget_no_col. intros [c v] Hin. apply H in Hin. simpl. lia.
Qed.

Lemma mget_upper_zero n (U : crs) i j : strict_upper n U -> j <= i -> mget U i j = s0.
Proof.
  intros H Hij. unfold mget. apply rget_no_col. intros [c v] Hin. apply H in Hin. simpl. lia.
Qed.

(* ---------------- one row ---------------- *)
Lemma lsolve_row_get_eq i (r : row) (x : vec) :
  (forall e, In e r -> fst e <> i) -> i < length x ->
  vget (lsolve_row i r x) i = vget x i - dotrow r x.
Proof.
  revert x; induction r as [|e r IH]; intros x H Hi.
  - unfold lsolve_row, dotrow; simpl. ring.
  - rewrite lsolve_row_cons, IH.
    + rewrite set_nth_get_eq by exact Hi.
      rewrite (dotrow_ext r (set_nth x i (vget x i - snd e * vget x (fst e))) x).
      * rewrite (dotrow_cons Srt). ring.
      * intros e' He'. apply set_nth_get_ne. apply H. right; exact He'.
    + intros e' He'. apply H. right; exact He'.
    + rewrite set_nth_length. exact Hi.
Qed.

Lemma usolve_row_get_eq D i (r : row) (x : vec) :
  (forall e, In e r -> fst e <> i) -> i < length x ->
  vget (usolve_row D i r x) i = vget D i * (vget x i - dotrow r x).
Proof.
  intros H Hi. unfold usolve_row.
  rewrite set_nth_get_eq by (rewrite lsolve_row_length; exact Hi).
  rewrite lsolve_row_get_eq by assumption. reflexivity.
Qed.

(* ---------------- generic substitution sweep ---------------- *)
(* the rows are processed in the order [l]; row i may only reference cells that
   are not processed at or after the moment row i is processed *)
Fixpoint order_ok (M : crs) (l : list nat) : Prop :=
  match l with
  | [] => True
  | i :: tl => (forall j, In j (i :: tl) -> mget M i j = s0) /\ order_ok M tl
  end.

Lemma sweep_spec (M : crs) (n : nat) (step : vec -> nat -> vec) (g : nat -> S -> S) :
  (forall x i, length (step x i) = length x) ->
  (forall x i j, j <> i -> vget (step x i) j = vget x j) ->
  forall order, NoDup order -> order_ok M order ->
  (forall i x, In i order -> length x = n ->
     vget (step x i) i = g i (vget x i - sumn (fun j => mget M i j * vget x j) n)) ->
  forall x0, length x0 = n ->
  (forall i, In i order ->
     vget (fold_left step order x0) i =
     g i (vget x0 i - sumn (fun j => mget M i j * vget (fold_left step order x0) j) n))
  /\ (forall i, ~ In i order -> vget (fold_left step order x0) i = vget x0 i).
Proof.
  intros Hlen Hframe. induction order as [|i l IH]; intros ND OK Hstep x0 Hx0; simpl.
  - split; [intros i []|reflexivity].
  - apply NoDup_cons_iff in ND as [Hnotin ND']. destruct OK as [Hz OK'].
    destruct (IH ND' OK' (fun k x Hk => Hstep k x (or_intror Hk)) (step x0 i)) as [E1 E2].
    { rewrite Hlen. exact Hx0. }
    split.
    + intros k [<-|Hk].
      * rewrite E2 by exact Hnotin. rewrite Hstep by (auto; left; reflexivity).
        f_equal. f_equal. apply sumn_ext. intros j _.
        destruct (in_dec Nat.eq_dec j (i :: l)) as [Hin|Hout].
        -- rewrite (Hz j Hin). ring.
        -- rewrite E2 by (intro; apply Hout; right; assumption).
           rewrite Hframe by (intro; subst; apply Hout; left; reflexivity). reflexivity.
      * rewrite (E1 k Hk). rewrite Hframe by (intro; subst; contradiction). reflexivity.
    + intros k Hk. rewrite E2 by (intro; apply Hk; right; assumption).
      apply Hframe. intro; subst; apply Hk; left; reflexivity.
Qed.

Lemma order_ok_seq (M : crs) : (forall i j, i <= j -> mget M i j = s0) ->
  forall len a, order_ok M (seq a len).
Proof.
  intro H. induction len as [|len IH]; intro a; simpl; [exact I|]. split; [|apply IH].
  intros j [<-|Hj]; apply H; [lia|]. apply in_seq in Hj. lia.
Qed.

Lemma order_ok_rev_seq (M : crs) : (forall i j, j <= i -> mget M i j = s0) ->
  forall n, order_ok M (rev (seq 0 n)).
Proof.
  intro H. induction n as [|n IH]; [exact I|].
  rewrite seq_S, rev_app_distr. simpl. split; [|exact IH].
  intros j [<-|Hj]; apply H; [lia|]. apply in_rev, in_seq in Hj. lia.
Qed.

Lemma row_wf_of_bound m (r : row) : (forall e, In e r -> fst e < m) -> row_wf m r = true.
Proof. intro H. unfold row_wf. apply forallb_forall. intros e He. apply Nat.ltb_lt. auto. Qed.

(* ---------------- T4a: forward substitution ---------------- *)
Theorem lsolve_spec (L : crs) (b : vec) :
  strict_lower L -> length b = nrows L ->
  length (lsolve L b) = length b /\
  forall i, i < nrows L ->
    vget (lsolve L b) i + sumn (fun j => mget L i j * vget (lsolve L b) j) (nrows L) = vget b i.
Proof.
  intros HL Hb. split; [apply lsolve_length|]. intros i Hi.
  destruct (sweep_spec L (nrows L) (fun x i => lsolve_row i (nth i (rows L) []) x) (fun _ t => t))
    with (order := seq 0 (nrows L)) (x0 := b) as [E _].
  - intros; apply lsolve_row_length.
  - intros; apply lsolve_row_get_ne; assumption.
  - apply seq_NoDup.
  - apply order_ok_seq. intros; apply mget_lower_zero; assumption.
  - intros k x Hk Hx. apply in_seq in Hk.
    rewrite lsolve_row_get_eq.
    + f_equal. unfold mget. apply (dotrow_spec Srt). apply row_wf_of_bound.
      intros [c v] He. apply HL in He. simpl. lia.
    + intros [c v] He. apply HL in He. simpl. lia.
    + lia.
  - exact Hb.
  - unfold lsolve. rewrite (E i) at 1 by (apply in_seq; lia). ring.
Qed.

(* ---------------- T4b: backward substitution ---------------- *)
Theorem usolve_spec n (U : crs) (D y : vec) :
  strict_upper n U -> length y = n ->
  length (usolve n U D y) = n /\
  forall i, i < n ->
    vget (usolve n U D y) i =
    vget D i * (vget y i - sumn (fun j => mget U i j * vget (usolve n U D y) j) n).
Proof.
  intros HU Hy. split; [rewrite usolve_length; exact Hy|]. intros i Hi.
  destruct (sweep_spec U n (fun x i => usolve_row D i (nth i (rows U) []) x) (fun i t => vget D i * t))
    with (order := rev (seq 0 n)) (x0 := y) as [E _].
  - intros; apply usolve_row_length.
  - intros; apply usolve_row_get_ne; assumption.
  - apply NoDup_rev, seq_NoDup.
  - apply order_ok_rev_seq. intros; eapply mget_upper_zero; eassumption.
  - intros k x Hk Hx. apply in_rev, in_seq in Hk.
    rewrite usolve_row_get_eq.
    + f_equal. f_equal. unfold mget. apply (dotrow_spec Srt). apply row_wf_of_bound.
      intros [c v] He. apply HU in He. simpl. lia.
    + intros [c v] He. apply HU in He. simpl. lia.
    + lia.
  - exact Hy.
  - unfold usolve. apply E. apply in_rev. rewrite rev_involutive. apply in_seq. lia.
Qed.

(* ---------------- T4c: the complete solve ---------------- *)
(* substitution form of (I + L)(D^-1 + U) x = b *)
Theorem ilu_solve_spec (L U : crs) (D b : vec) :
  strict_lower L -> strict_upper (nrows L) U -> length b = nrows L ->
  length (ilu_solve L U D b) = nrows L /\
  forall i, i < nrows L ->
    vget (lsolve L b) i + sumn (fun j => mget L i j * vget (lsolve L b) j) (nrows L) = vget b i
    /\ vget (ilu_solve L U D b) i =
       vget D i * (vget (lsolve L b) i
                   - sumn (fun j => mget U i j * vget (ilu_solve L U D b) j) (nrows L)).
Proof.
  intros HL HU Hb.
  destruct (lsolve_spec L b HL Hb) as [Ly Ey].
  destruct (usolve_spec (nrows L) U D (lsolve L b) HU) as [Lx Ex]; [congruence|].
  split; [exact Lx|]. intros i Hi. split; [apply Ey; exact Hi|apply Ex; exact Hi].
Qed.

(* ---------------- T3a: solve of the zero vector ---------------- *)
Lemma set_nth_vzero n i : set_nth (vzero n : vec) i s0 = vzero n.
Proof.
  transitivity (set_nth (vzero n : vec) i (vget (vzero n : vec) i)).
  - rewrite vget_vzero. reflexivity.
  - apply set_nth_same.
Qed.

Lemma lsolve_row_zero i (r : row) n : lsolve_row i r (vzero n) = vzero n.
Proof.
  induction r as [|e r IH]; [reflexivity|].
  rewrite lsolve_row_cons, !vget_vzero.
  replace (s0 - snd e * s0) with (@s0 S) by ring. rewrite set_nth_vzero. exact IH.
Qed.

Lemma usolve_row_zero D i (r : row) n : usolve_row D i r (vzero n) = vzero n.
Proof.
  unfold usolve_row. rewrite lsolve_row_zero, vget_vzero.
  replace (vget D i * s0) with (@s0 S) by ring. apply set_nth_vzero.
Qed.

Lemma fold_left_fix {A B} (f : A -> B -> A) (l : list B) (a : A) :
  (forall b, f a b = a) -> fold_left f l a = a.
Proof. intro H. induction l as [|b l IH]; simpl; [reflexivity|]. rewrite H. exact IH. Qed.

(* no hypothesis at all on L, U, D (not even on the dimensions) *)
Theorem ilu_solve_zero_any (L U : crs) (D : vec) n : ilu_solve L U D (vzero n) = vzero n.
Proof.
  unfold ilu_solve, lsolve, usolve.
  rewrite (fold_left_fix (fun x i => lsolve_row i (nth i (rows L) []) x))
    by (intro; apply lsolve_row_zero).
  apply fold_left_fix. intro; apply usolve_row_zero.
Qed.

Theorem ilu_solve_zero (L U : crs) (D : vec) n :
  nrows L = n -> ilu_solve L U D (vzero n) = vzero n.
Proof. intros _. apply ilu_solve_zero_any. Qed.

(* ---------------- T3b: a solution of A x = rhs is a fixed point of the sweep ------- *)
Theorem ilu_sweep_fixed_point (w : S) (L U : crs) (D : vec) (A : crs) (rhs x tmp : vec) :
  wf A = true -> length rhs = nrows A -> length x = nrows A -> length tmp = nrows A ->
  (forall i, i < nrows A -> Ax A x i = vget rhs i) ->
  forall i, i < nrows A -> vget (fst (ilu_sweep w L U D A rhs x tmp)) i = vget x i.
Proof.
  intros Hwf Hr Hx Ht Hsol i Hi. unfold ilu_sweep. simpl.
  assert (Hres : residual rhs A x tmp = vzero (nrows A)).
  { apply vec_eq_vzero.
    - apply residual_length; assumption.
    - intros k Hk. rewrite (residual_spec Srt) by assumption. rewrite Hsol by exact Hk. ring. }
  rewrite Hres, ilu_solve_zero_any.
  rewrite (axpby_spec Srt Seqb) by (rewrite ?vzero_length; lia).
  rewrite vget_vzero. ring.
Qed.

(* the second component (the work vector handed back) is the zero vector *)
Theorem ilu_sweep_fixed_point_tmp (w : S) (L U : crs) (D : vec) (A : crs) (rhs x tmp : vec) :
  wf A = true -> length rhs = nrows A -> length x = nrows A -> length tmp = nrows A ->
  (forall i, i < nrows A -> Ax A x i = vget rhs i) ->
  snd (ilu_sweep w L U D A rhs x tmp) = vzero (nrows A).
Proof.
  intros Hwf Hr Hx Ht Hsol. unfold ilu_sweep. simpl.
  assert (Hres : residual rhs A x tmp = vzero (nrows A)).
  { apply vec_eq_vzero.
    - apply residual_length; assumption.
    - intros k Hk. rewrite (residual_spec Srt) by assumption. rewrite Hsol by exact Hk. ring. }
  rewrite Hres. apply ilu_solve_zero_any.
Qed.

(* ---------------- T3c: linearity, no structural hypothesis ---------------- *)
Definition lin3 (a b : S) (x u v : vec) : Prop :=
  length u = length x /\ length v = length x /\
  forall i, vget x i = a * vget u i + b * vget v i.

Lemma set_nth_lin a b (x u v : vec) i p q r :
  lin3 a b x u v -> p = a * q + b * r ->
  lin3 a b (set_nth x i p) (set_nth u i q) (set_nth v i r).
Proof.
  intros (Hu & Hv & H) Hp. unfold lin3. rewrite !set_nth_length. repeat split; try assumption.
  intro j. rewrite !set_nth_get, Hu, Hv.
  destruct (Nat.eqb j i && Nat.ltb i (length x)); [exact Hp|apply H].
Qed.

Lemma lsolve_row_lin a b i (r : row) (x u v : vec) :
  lin3 a b x u v -> lin3 a b (lsolve_row i r x) (lsolve_row i r u) (lsolve_row i r v).
Proof.
  revert x u v; induction r as [|e r IH]; intros x u v H; [exact H|].
  rewrite !lsolve_row_cons. apply IH. apply set_nth_lin; [exact H|].
  destruct H as (_ & _ & H). rewrite (H i), (H (fst e)). ring.
Qed.

Lemma usolve_row_lin a b D i (r : row) (x u v : vec) :
  lin3 a b x u v -> lin3 a b (usolve_row D i r x) (usolve_row D i r u) (usolve_row D i r v).
Proof.
  intro H. unfold usolve_row. pose proof (lsolve_row_lin a b i r x u v H) as H1.
  apply set_nth_lin; [exact H1|]. destruct H1 as (_ & _ & H1). rewrite (H1 i). ring.
Qed.

Lemma fold_lin a b (step : vec -> nat -> vec) (l : list nat) :
  (forall x u v i, lin3 a b x u v -> lin3 a b (step x i) (step u i) (step v i)) ->
  forall x u v, lin3 a b x u v ->
  lin3 a b (fold_left step l x) (fold_left step l u) (fold_left step l v).
Proof.
  intro Hs. induction l as [|i l IH]; intros x u v H; simpl; [exact H|]. apply IH, Hs, H.
Qed.

Lemma ilu_solve_lin a b (L U : crs) (D : vec) (x u v : vec) :
  lin3 a b x u v -> lin3 a b (ilu_solve L U D x) (ilu_solve L U D u) (ilu_solve L U D v).
Proof.
  intro H. unfold ilu_solve, usolve, lsolve.
  apply fold_lin; [intros; apply usolve_row_lin; assumption|].
  apply fold_lin; [intros; apply lsolve_row_lin; assumption|exact H].
Qed.

Theorem ilu_solve_linear (a b : S) (L U : crs) (D : vec) (w u v : vec) :
  length u = length w -> length v = length w ->
  (forall i, i < length w -> vget w i = a * vget u i + b * vget v i) ->
  forall i, vget (ilu_solve L U D w) i
            = a * vget (ilu_solve L U D u) i + b * vget (ilu_solve L U D v) i.
Proof.
  intros Hu Hv H.
  assert (H3 : lin3 a b w u v).
  { repeat split; try assumption. intro i.
    destruct (Nat.lt_ge_cases i (length w)) as [Hi|Hi]; [apply H; exact Hi|].
    unfold vget. rewrite !nth_overflow by lia. ring. }
  apply (ilu_solve_lin a b L U D) in H3. destruct H3 as (_ & _ & H3). exact H3.
Qed.

End RingLaws.

(* ================================================================== *)
Section FieldLaws.
Context {S : Scalar}.
Local Notation vec := (vec S).
Local Notation crs := (crs S).
Hypothesis Sft : Sfield S.
Add Field SField : Sft.

(* D holds the inverted pivots: row i of (D^-1 + U) x = y *)
Theorem ilu_solve_spec_field (L U : crs) (D b : vec) :
  strict_lower L -> strict_upper (nrows L) U -> length b = nrows L ->
  forall i, i < nrows L -> vget D i <> s0 ->
    vget (lsolve L b) i + sumn (fun j => mget L i j * vget (lsolve L b) j) (nrows L) = vget b i
    /\ sinv (vget D i) * vget (ilu_solve L U D b) i
       + sumn (fun j => mget U i j * vget (ilu_solve L U D b) j) (nrows L)
       = vget (lsolve L b) i.
Proof.
  intros HL HU Hb i Hi HD.
  destruct (ilu_solve_spec (F_R Sft) L U D b HL HU Hb) as [_ E].
  destruct (E i Hi) as [E1 E2]. split; [exact E1|].
  rewrite E2 at 1. field. exact HD.
Qed.

End FieldLaws.

(* ================================================================== *)
(* Part 4: structure of the computed factors -- no algebraic law.      *)
Section FactorStructure.
Context {S : Scalar}.
Local Notation vec := (vec S).
Local Notation row := (row S).
Local Notation crs := (crs S).

(* ---------------- ILU(0) ---------------- *)
Lemma upd_last_cols c f (r : row) : map fst (upd_last c f r) = map fst r.
Proof.
  induction r as [|e r IH]; simpl; [reflexivity|].
  destruct (has_col c r); simpl; [rewrite IH; reflexivity|].
  destruct (Nat.eqb (fst e) c); reflexivity.
Qed.

Definition wcols (w : @wrow S) : list nat * list nat := (map fst (wL w), map fst (wU w)).

Lemma wupd_cols i (w : @wrow S) c f : wcols (wupd i w c f) = wcols w.
Proof.
  unfold wupd, wcols. destruct (Nat.ltb c i); simpl.
  - rewrite upd_last_cols. reflexivity.
  - destruct (Nat.eqb c i).
    + destruct (whasd w); reflexivity.
    + simpl. rewrite upd_last_cols. reflexivity.
Qed.

Lemma ilu0_elim_cols i (Us : list row) (D : vec) (ents : row) :
  forall w w', ilu0_elim i Us D ents w = Ok w' -> wcols w' = wcols w.
Proof.
  induction ents as [|e tl IH]; intros w w' H.
  - simpl in H. inversion H. reflexivity.
  - cbn [ilu0_elim] in H. destruct (Nat.leb i (fst e)).
    + destruct (Nat.eqb (fst e) i); [|discriminate].
      destruct (is_zero (wd w)); [discriminate|]. inversion H. reflexivity.
    + apply IH in H. rewrite H.
      apply (fold_left_inv _ (fun w0 => wcols w0 = wcols w)).
      * apply wupd_cols.
      * intros a b _ Ha. rewrite wupd_cols. exact Ha.
Qed.

Lemma ilu0_scatter_cols i (r : row) jd :
  (forall c, In c (map fst (wL (ilu0_scatter i r jd))) -> c < i /\ In c (map fst r)) /\
  (forall c, In c (map fst (wU (ilu0_scatter i r jd))) -> i < c /\ In c (map fst r)).
Proof.
  unfold ilu0_scatter.
  apply (fold_left_inv _ (fun w : @wrow S =>
    (forall c, In c (map fst (wL w)) -> c < i /\ In c (map fst r)) /\
    (forall c, In c (map fst (wU w)) -> i < c /\ In c (map fst r)))).
  - simpl. split; intros c [].
  - intros w e He [HL HU].
    assert (Hc : In (fst e) (map fst r)) by (apply in_map; exact He).
    destruct (Nat.ltb_spec (fst e) i) as [Hlt|Hge]; simpl.
    + split; [|exact HU]. intros c Hin. rewrite map_app, in_app_iff in Hin.
      destruct Hin as [Hin|[<-|[]]]; [apply HL; exact Hin|]. split; assumption.
    + destruct (Nat.eqb_spec (fst e) i) as [Heq|Hne]; simpl; [split; assumption|].
      split; [exact HL|]. intros c Hin. rewrite map_app, in_app_iff in Hin.
      destruct Hin as [Hin|[<-|[]]]; [apply HU; exact Hin|]. split; [lia|assumption].
Qed.

(* what one finished row looks like, relative to row [ar] of A *)
Definition rowP (i : nat) (ar lr ur : row) : Prop :=
  (forall c v, In (c, v) lr -> c < i /\ In c (map fst ar)) /\
  (forall c v, In (c, v) ur -> i < c /\ In c (map fst ar)).

Lemma ilu0_row_struct (Ls Us : list row) (D : vec) i (r : row) jd st' :
  ilu0_row (Ls, Us, D) i r jd = Ok st' ->
  exists l u d, st' = (Ls ++ [l], Us ++ [u], D ++ [d]) /\ rowP i r l u.
Proof.
  unfold ilu0_row. destruct (ilu0_elim i Us D r (ilu0_scatter i r jd)) as [w|] eqn:E; [|discriminate].
  intro H. inversion H. exists (drop_zeros (wL w)), (drop_zeros (wU w)), (wd w).
  split; [reflexivity|].
  apply ilu0_elim_cols in E. unfold wcols in E. inversion E as [[EL EU]].
  destruct (ilu0_scatter_cols i r jd) as [HL HU].
  split; intros c v Hin; unfold drop_zeros in Hin; apply filter_In in Hin as [Hin _];
    apply (in_map fst) in Hin; simpl in Hin.
  - apply HL. rewrite <- EL. exact Hin.
  - apply HU. rewrite <- EU. exact Hin.
Qed.

Lemma ilu0_rows_struct (junk : vec) (rs : list row) :
  forall (Ls Us : list row) (D : vec) i st',
  ilu0_rows (Ls, Us, D) i rs junk = Ok st' ->
  exists Lx Ux Dx, st' = (Ls ++ Lx, Us ++ Ux, D ++ Dx) /\
    length Lx = length rs /\ length Ux = length rs /\ length Dx = length rs /\
    forall k, k < length rs -> rowP (i + k) (nth k rs []) (nth k Lx []) (nth k Ux []).
Proof.
  induction rs as [|r tl IH]; intros Ls Us D i st' H.
  - simpl in H. inversion H. exists [], [], []. rewrite !app_nil_r.
    repeat split; try reflexivity; simpl in *; lia.
  - cbn [ilu0_rows] in H.
    destruct (ilu0_row (Ls, Us, D) i r (vget junk i)) as [st1|] eqn:E; [|discriminate].
    apply ilu0_row_struct in E as (l & u & d & -> & HP).
    apply IH in H as (Lx & Ux & Dx & -> & HL & HU & HD & Hk).
    exists (l :: Lx), (u :: Ux), (d :: Dx). rewrite <- !app_assoc. simpl.
    split; [reflexivity|]. split; [f_equal; exact HL|]. split; [f_equal; exact HU|].
    split; [f_equal; exact HD|].
    intros [|k] Hk'; [rewrite Nat.add_0_r; exact HP|].
    replace (i + Datatypes.S k)%nat with (Datatypes.S i + k)%nat by lia. apply Hk. lia.
Qed.

(* T5s: dimensions, triangularity and pattern inclusion of the ILU(0) factors *)
Theorem ilu0_structure (A : crs) (junk : vec) (L U : crs) (D : vec) :
  ilu0 A junk = Ok (L, U, D) ->
  nrows L = nrows A /\ nrows U = nrows A /\ length D = nrows A /\
  ncols L = nrows A /\ ncols U = nrows A /\
  (forall i c v, In (c, v) (nth i (rows L) []) -> c < i /\ In c (map fst (nth i (rows A) []))) /\
  (forall i c v, In (c, v) (nth i (rows U) []) -> i < c /\ In c (map fst (nth i (rows A) []))).
Proof.
  unfold ilu0. destruct (ilu0_rows ([], [], []) 0 (rows A) junk) as [[[Ls Us] D']|] eqn:E; [|discriminate].
  intro H. inversion H; subst. clear H.
  apply ilu0_rows_struct in E as (Lx & Ux & Dx & E & HL & HU & HD & Hk).
  simpl in E. inversion E; subst. unfold nrows. simpl.
  repeat split; try assumption.
  - destruct (Nat.lt_ge_cases i (length (rows A))) as [Hi|Hi].
    + apply (Hk i Hi) in H. apply H.
    + rewrite nth_overflow in H by lia. destruct H.
  - destruct (Nat.lt_ge_cases i (length (rows A))) as [Hi|Hi].
    + apply (Hk i Hi) in H. apply H.
    + rewrite nth_overflow in H by lia. destruct H.
  - destruct (Nat.lt_ge_cases i (length (rows A))) as [Hi|Hi].
    + apply (Hk i Hi) in H. apply H.
    + rewrite nth_overflow in H by lia. destruct H.
  - destruct (Nat.lt_ge_cases i (length (rows A))) as [Hi|Hi].
    + apply (Hk i Hi) in H. apply H.
    + rewrite nth_overflow in H by lia. destruct H.
Qed.

Corollary ilu0_strict_lower (A : crs) junk (L U : crs) (D : vec) :
  ilu0 A junk = Ok (L, U, D) -> strict_lower L.
Proof.
  intro H. apply ilu0_structure in H as (_ & _ & _ & _ & _ & HL & _).
  intros i c v Hin. apply HL in Hin. apply Hin.
Qed.

(* the column bound of U comes from the column bound of A *)
Corollary ilu0_strict_upper (A : crs) junk (L U : crs) (D : vec) :
  ilu0 A junk = Ok (L, U, D) -> wf A = true -> strict_upper (ncols A) U.
Proof.
  intros H Hwf. apply ilu0_structure in H as (_ & _ & _ & _ & _ & _ & HU).
  intros i c v Hin. apply HU in Hin as [Hlt Hc]. split; [exact Hlt|].
  destruct (Nat.lt_ge_cases i (nrows A)) as [Hi|Hi].
  - apply in_map_iff in Hc as (e & <- & He).
    unfold wf in Hwf. rewrite forallb_forall in Hwf.
    specialize (Hwf (nth i (rows A) []) (nth_In _ _ Hi)).
    unfold row_wf in Hwf. rewrite forallb_forall in Hwf. apply Hwf in He. lia.
  - rewrite nth_overflow in Hc by exact Hi. destruct Hc.
Qed.

(* ---------------- ILU(k) ---------------- *)
Lemma iluk_row_struct lfil (Ls : list row) (Us : list (list (@knz S))) (D : vec) i (r : row) jd :
  exists Lr Ur d, iluk_row lfil (Ls, Us, D) i r jd = (Ls ++ [Lr], Us ++ [Ur], D ++ [d]) /\
    (forall c v, In (c, v) Lr -> c < i) /\ (forall e, In e Ur -> i < kcol e).
Proof.
  unfold iluk_row. eexists _, _, _. split; [reflexivity|]. split.
  - intros c v Hin. apply in_map_iff in Hin as (e & Ee & Hin).
    apply filter_In in Hin as [_ Hlt]. inversion Ee; subst. lia.
  - intros e Hin. apply filter_In in Hin as [_ Hlt]. lia.
Qed.

Lemma iluk_fold_struct lfil (junk : vec) (rs : list row) :
  forall a (Ls : list row) (Us : list (list (@knz S))) (D : vec),
  exists Lx Ux Dx,
    fold_left (fun st ir => iluk_row lfil st (fst ir) (snd ir) (vget junk (fst ir)))
              (combine (seq a (length rs)) rs) (Ls, Us, D) = (Ls ++ Lx, Us ++ Ux, D ++ Dx) /\
    length Lx = length rs /\ length Ux = length rs /\ length Dx = length rs /\
    forall k, k < length rs ->
      (forall c v, In (c, v) (nth k Lx []) -> c < a + k) /\
      (forall e, In e (nth k Ux []) -> a + k < kcol e).
Proof.
  induction rs as [|r tl IH]; intros a Ls Us D.
  - exists [], [], []. simpl. rewrite !app_nil_r. repeat split; intros; lia.
  - cbn [length seq combine fold_left fst snd].
    destruct (iluk_row_struct lfil Ls Us D a r (vget junk a)) as (Lr & Ur & d & -> & HLr & HUr).
    destruct (IH (Datatypes.S a) (Ls ++ [Lr]) (Us ++ [Ur]) (D ++ [d]))
      as (Lx & Ux & Dx & E & HL & HU & HD & Hk).
    exists (Lr :: Lx), (Ur :: Ux), (d :: Dx).
    split; [etransitivity; [exact E|]; rewrite <- !app_assoc; reflexivity|]. simpl.
    repeat split; try (f_equal; assumption).
    + destruct k as [|k]; [rewrite Nat.add_0_r; apply HLr|].
      replace (a + Datatypes.S k)%nat with (Datatypes.S a + k)%nat by lia. apply Hk. lia.
    + destruct k as [|k]; [rewrite Nat.add_0_r; apply HUr|].
      replace (a + Datatypes.S k)%nat with (Datatypes.S a + k)%nat by lia. apply Hk. lia.
Qed.

Theorem iluk_structure lfil (A : crs) (junk : vec) (L U : crs) (D : vec) :
  iluk lfil A junk = (L, U, D) ->
  nrows L = nrows A /\ nrows U = nrows A /\ length D = nrows A /\
  ncols L = nrows A /\ ncols U = nrows A /\
  (forall i c v, In (c, v) (nth i (rows L) []) -> c < i) /\
  (forall i c v, In (c, v) (nth i (rows U) []) -> i < c).
Proof.
  unfold iluk, indexed.
  destruct (iluk_fold_struct lfil junk (rows A) 0 [] [] []) as (Lx & Ux & Dx & E & HL & HU & HD & Hk).
  match goal with |- context [fold_left ?f ?l ?a] =>
    replace (fold_left f l a) with (@nil row ++ Lx, @nil (list (@knz S)) ++ Ux, @nil S ++ Dx)
      by (symmetry; exact E) end.
  simpl. intro H. inversion H; subst. clear H. unfold nrows. simpl. rewrite map_length.
  repeat split; try assumption.
  - intros i c v Hin. destruct (Nat.lt_ge_cases i (length (rows A))) as [Hi|Hi].
    + apply (Hk i Hi) in Hin. exact Hin.
    + rewrite nth_overflow in Hin by lia. destruct Hin.
  - intros i c v Hin.
    change (@nil (nat * S)) with (map (fun e : @knz S => (kcol e, kval e)) []) in Hin.
    rewrite map_nth in Hin. apply in_map_iff in Hin as (e & Ee & Hin).
    destruct (Nat.lt_ge_cases i (length (rows A))) as [Hi|Hi].
    + apply (Hk i Hi) in Hin. inversion Ee; subst. exact Hin.
    + rewrite nth_overflow in Hin by lia. destruct Hin.
Qed.

Corollary iluk_strict_lower lfil (A : crs) junk (L U : crs) (D : vec) :
  iluk lfil A junk = (L, U, D) -> strict_lower L.
Proof. intro H. apply iluk_structure in H as (_ & _ & _ & _ & _ & HL & _). exact HL. Qed.

End FactorStructure.

(* ================================================================== *)
(* Part 5: the factors computed by ilu0, plugged into the solve.       *)
Section Ilu0Solve.
Context {S : Scalar}.
Local Notation vec := (vec S).
Local Notation crs := (crs S).
Hypothesis Srt : Sring S.

(* whenever ilu0 succeeds on a well-formed square A, ilu_solve with its output
   satisfies the two substitution equations (no hypothesis on the values) *)
Theorem ilu0_solve_spec (A : crs) (junk : vec) (L U : crs) (D b : vec) :
  ilu0 A junk = Ok (L, U, D) -> wf A = true -> ncols A = nrows A -> length b = nrows A ->
  length (ilu_solve L U D b) = nrows A /\
  forall i, i < nrows A ->
    vget (lsolve L b) i + sumn (fun j => mget L i j * vget (lsolve L b) j) (nrows A) = vget b i
    /\ vget (ilu_solve L U D b) i =
       vget D i * (vget (lsolve L b) i
                   - sumn (fun j => mget U i j * vget (ilu_solve L U D b) j) (nrows A)).
Proof.
  intros H Hwf Hsq Hb.
  pose proof (ilu0_strict_lower A junk L U D H) as HL.
  pose proof (ilu0_strict_upper A junk L U D H Hwf) as HU.
  apply ilu0_structure in H as (Hn & _).
  rewrite Hsq, <- Hn in HU. rewrite <- Hn in Hb. rewrite <- Hn.
  apply (ilu_solve_spec Srt); assumption.
Qed.

End Ilu0Solve.
