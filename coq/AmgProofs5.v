(* AmgProofs5.v -- the exact coarse solve (DenseSolve.v, Gauss-Jordan with search for a
   non-zero pivot) is linear in the right-hand side and independent of the incoming x, for
   every square matrix on which it does not break down (commutative ring: the pivot choice
   only looks at the matrix part).  Then: closed form of C02-A2 for built hierarchies. *)
From Amgcl Require Import Scalar Vec Crs Kernels KernelsProofs MatOps MatOpsProofs Relax DenseSolve
  Amg AmgExec AmgProofs AmgProofs2 AmgProofs3 AmgProofs4.
Local Open Scope S_scope.

Inductive F3 {X : Type} (Q : X -> X -> X -> Prop) : list X -> list X -> list X -> Prop :=
| F3_nil : F3 Q [] [] []
| F3_cons x1 x2 x3 l1 l2 l3 : Q x1 x2 x3 -> F3 Q l1 l2 l3 -> F3 Q (x1 :: l1) (x2 :: l2) (x3 :: l3).

Lemma F3_map3 {X} (Q Q' : X -> X -> X -> Prop) (f1 f2 f3 : X -> X) l1 l2 l3 :
  (forall x1 x2 x3, Q x1 x2 x3 -> Q' (f1 x1) (f2 x2) (f3 x3)) ->
  F3 Q l1 l2 l3 -> F3 Q' (map f1 l1) (map f2 l2) (map f3 l3).
Proof. intros H HF. induction HF; simpl; constructor; auto. Qed.

Lemma F3_app {X} (Q : X -> X -> X -> Prop) l1 l2 l3 k1 k2 k3 :
  F3 Q l1 l2 l3 -> F3 Q k1 k2 k3 -> F3 Q (l1 ++ k1) (l2 ++ k2) (l3 ++ k3).
Proof. intros HF HK. induction HF; simpl; [exact HK|constructor; auto]. Qed.

Section SolveLin.
Context {S : Scalar}.
Local Notation vec := (vec S).
Local Notation crs := (crs S).
Hypothesis Srt : Sring S.
Add Ring SRingA5 : Srt.

Lemma vget_map (f : S -> S) (r : vec) j : j < length r -> vget (map f r) j = f (vget r j).
Proof.
  intro H. unfold vget. rewrite (nth_indep _ s0 (f s0)) by (rewrite map_length; exact H).
  apply map_nth.
Qed.

Lemma vget_scale c (r : vec) j : j < length r -> vget (scale_row c r) j = c * vget r j.
Proof. intro H. unfold scale_row. apply (vget_map (fun v => c * v)), H. Qed.

Lemma vget_sub (r : vec) c (p : vec) j : length p = length r -> j < length r ->
  vget (sub_row r c p) j = vget r j - c * vget p j.
Proof. intros HL Hj. unfold sub_row. rewrite upd2_get by congruence. reflexivity. Qed.

Lemma sub_row_length (r : vec) c (p : vec) : length (sub_row r c p) = length r.
Proof. apply upd2_length_any. Qed.

Section Rows.
Variables a b : S.
Variable m : nat.

(* three augmented rows: equal matrix part, third right-hand side = a*first + b*second *)
Definition rrel (q1 q2 q3 : vec) : Prop :=
  length q1 = Datatypes.S m /\ length q2 = Datatypes.S m /\ length q3 = Datatypes.S m /\
  (forall j, j < m -> vget q1 j = vget q3 j /\ vget q2 j = vget q3 j) /\
  vget q3 m = a * vget q1 m + b * vget q2 m.

Lemma rrel_scale c (p1 p2 p3 : vec) : rrel p1 p2 p3 ->
  rrel (scale_row c p1) (scale_row c p2) (scale_row c p3).
Proof.
  intros (L1 & L2 & L3 & HA & HB). unfold rrel, scale_row. rewrite !map_length.
  repeat split; try assumption.
  - fold (scale_row c p1). fold (scale_row c p3). rewrite !vget_scale by lia.
    f_equal. apply HA, H.
  - fold (scale_row c p2). fold (scale_row c p3). rewrite !vget_scale by lia.
    f_equal. apply HA, H.
  - fold (scale_row c p1). fold (scale_row c p2). fold (scale_row c p3).
    rewrite !vget_scale by lia. rewrite HB. ring.
Qed.

Lemma rrel_pivot k (p1 p2 p3 : vec) : k < m -> rrel p1 p2 p3 ->
  rrel (scale_row (sinv (vget p1 k)) p1) (scale_row (sinv (vget p2 k)) p2)
       (scale_row (sinv (vget p3 k)) p3).
Proof.
  intros Hk H. destruct H as (L1 & L2 & L3 & HA & HB).
  destruct (HA k Hk) as [-> ->]. apply rrel_scale. repeat split; try assumption; apply HA; assumption.
Qed.

Lemma rrel_sub c (q1 q2 q3 p1 p2 p3 : vec) : rrel p1 p2 p3 -> rrel q1 q2 q3 ->
  rrel (sub_row q1 c p1) (sub_row q2 c p2) (sub_row q3 c p3).
Proof.
  intros (L1 & L2 & L3 & HA & HB) (M1 & M2 & M3 & KA & KB).
  unfold rrel. rewrite !sub_row_length. repeat split; try assumption.
  - rewrite !vget_sub by lia. destruct (HA j H) as [-> _]. destruct (KA j H) as [-> _]. reflexivity.
  - rewrite !vget_sub by lia. destruct (HA j H) as [_ ->]. destruct (KA j H) as [_ ->]. reflexivity.
  - rewrite !vget_sub by lia. rewrite HB, KB. ring.
Qed.

Lemma rrel_elim k (q1 q2 q3 p1 p2 p3 : vec) : k < m -> rrel p1 p2 p3 -> rrel q1 q2 q3 ->
  rrel (sub_row q1 (vget q1 k) p1) (sub_row q2 (vget q2 k) p2) (sub_row q3 (vget q3 k) p3).
Proof.
  intros Hk HP HQ. pose proof HQ as (_ & _ & _ & KA & _).
  destruct (KA k Hk) as [-> ->]. apply rrel_sub; assumption.
Qed.

Definition opt3 {X} (Q : X -> X -> X -> Prop) (o1 o2 o3 : option X) : Prop :=
  match o1, o2, o3 with
  | Some x1, Some x2, Some x3 => Q x1 x2 x3
  | None, None, None => True
  | _, _, _ => False
  end.

Lemma pick_rel k l1 l2 l3 : k < m -> F3 rrel l1 l2 l3 ->
  opt3 (fun pt1 pt2 pt3 => rrel (fst pt1) (fst pt2) (fst pt3) /\ F3 rrel (snd pt1) (snd pt2) (snd pt3))
       (pick_pivot k l1) (pick_pivot k l2) (pick_pivot k l3).
Proof.
  intros Hk HF. induction HF as [|x1 x2 x3 l1 l2 l3 HQ HF IH]; simpl; [exact I|].
  pose proof HQ as (_ & _ & _ & KA & _). destruct (KA k Hk) as [-> ->].
  destruct (is_zero (vget x3 k)).
  - destruct (pick_pivot k l1) as [[p1 t1]|], (pick_pivot k l2) as [[p2 t2]|],
      (pick_pivot k l3) as [[p3 t3]|]; simpl in *; try contradiction; auto.
    destruct IH as [H1 H2]. split; [exact H1|constructor; assumption].
  - simpl. split; assumption.
Qed.

Lemma gj_rel steps : forall k d1 d2 d3 t1 t2 t3, k + steps <= m ->
  F3 rrel d1 d2 d3 -> F3 rrel t1 t2 t3 ->
  opt3 (F3 rrel) (gj steps k d1 t1) (gj steps k d2 t2) (gj steps k d3 t3).
Proof.
  induction steps as [|steps IH]; intros k d1 d2 d3 t1 t2 t3 Hk HD HT; simpl; [exact HD|].
  assert (Hk' : k < m) by lia.
  pose proof (pick_rel k t1 t2 t3 Hk' HT) as HP.
  destruct (pick_pivot k t1) as [[p1 u1]|], (pick_pivot k t2) as [[p2 u2]|],
    (pick_pivot k t3) as [[p3 u3]|]; simpl in HP; try contradiction; [|exact I].
  destruct HP as [HP HU].
  pose proof (rrel_pivot k p1 p2 p3 Hk' HP) as HP'.
  apply IH; [lia| |].
  - apply F3_app.
    + apply (F3_map3 rrel rrel); [|exact HD]. intros x1 x2 x3 HX. apply rrel_elim; assumption.
    + constructor; [exact HP'|constructor].
  - apply (F3_map3 rrel rrel); [|exact HU]. intros x1 x2 x3 HX. apply rrel_elim; assumption.
Qed.

Definition aug (D : list vec) (f : vec) : list vec := map (fun rb => fst rb ++ [snd rb]) (combine D f).

Lemma vget_app_l (r : vec) v j : j < length r -> vget (r ++ [v]) j = vget r j.
Proof. intro H. unfold vget. apply app_nth1, H. Qed.
Lemma vget_app_last (r : vec) v : vget (r ++ [v]) (length r) = v.
Proof. unfold vget. rewrite app_nth2, Nat.sub_diag by lia. reflexivity. Qed.

Lemma aug_rel (D : list vec) : Forall (fun r => length r = m) D -> forall f g : vec,
  length f = length g -> F3 rrel (aug D f) (aug D g) (aug D (vlin a f b g)).
Proof.
  induction 1 as [|r D Hr HD IH]; intros f g HL; [constructor|].
  destruct f as [|u f], g as [|v g]; simpl in HL; try discriminate; [constructor|].
  unfold aug, vlin. simpl. constructor.
  - unfold rrel. rewrite !app_length, Hr. simpl.
    split; [lia|]. split; [lia|]. split; [lia|]. split.
    + intros j Hj. rewrite !vget_app_l by lia. split; reflexivity.
    + rewrite <- Hr, !vget_app_last. reflexivity.
  - apply IH. congruence.
Qed.

Lemma extract_rel (o1 o2 o3 : list vec) : F3 rrel o1 o2 o3 ->
  map (fun r => vget r m) o3 = vlin a (map (fun r => vget r m) o1) b (map (fun r => vget r m) o2).
Proof.
  induction 1 as [|x1 x2 x3 l1 l2 l3 HQ HF IH]; [reflexivity|].
  simpl. unfold vlin in *. simpl. rewrite IH. f_equal. apply HQ.
Qed.

End Rows.

Lemma dense_rows_len (A : crs) : Forall (fun r => length r = ncols A) (dense_rows A).
Proof.
  unfold dense_rows. apply Forall_forall. intros r Hr. apply in_map_iff in Hr as (r0 & <- & _).
  rewrite map_length, seq_length. reflexivity.
Qed.

(* the three solves run in lock step *)
Theorem dense_solve_lockstep a b (A : crs) (f g : vec) : ncols A = nrows A -> length f = length g ->
  opt3 (fun y1 y2 y3 => y3 = vlin a y1 b y2)
       (dense_solve A f) (dense_solve A g) (dense_solve A (vlin a f b g)).
Proof.
  intros Hsq HL. unfold dense_solve.
  pose proof (gj_rel a b (nrows A) (nrows A) 0 [] [] [] _ _ _ (le_n _) (F3_nil _)
                (aug_rel a b (nrows A) (dense_rows A)
                   ltac:(rewrite <- Hsq; apply dense_rows_len) f g HL)) as H.
  unfold aug in H.
  destruct (gj (nrows A) 0 [] _) as [o1|], (gj (nrows A) 0 [] _) as [o2|], (gj (nrows A) 0 [] _) as [o3|];
    simpl in *; try contradiction; [|exact I].
  apply (extract_rel a b (nrows A)), H.
Qed.

Lemma vlin_zero (f : vec) : vlin s0 f s0 f = vzero (length f).
Proof.
  induction f as [|c f IH]; [reflexivity|]. unfold vlin, vzero in *. simpl. rewrite IH.
  replace (s0 * c + s0 * c) with (@s0 S) by ring. reflexivity.
Qed.

(* no breakdown on the zero right-hand side = no breakdown on any right-hand side *)
Lemma solvable_all (A : crs) (f : vec) : ncols A = nrows A -> length f = nrows A ->
  solvable A = true -> exists y, dense_solve A f = Some y.
Proof.
  intros Hsq Lf Hs. pose proof (dense_solve_lockstep s0 s0 A f f Hsq eq_refl) as H.
  rewrite vlin_zero, Lf in H. unfold solvable in Hs.
  destruct (dense_solve A (vzero (nrows A))); [|discriminate].
  destruct (dense_solve A f) as [y|]; [exists y; reflexivity|destruct H].
Qed.

Theorem mk_solve_exact_lin (A : crs) : ncols A = nrows A -> solvable A = true ->
  solve_lin (nrows A) (mk_solve_exact A).
Proof.
  intros Hsq Hs a b f g x y z Lf Lg Lx Ly Lz. unfold mk_solve_exact.
  pose proof (dense_solve_lockstep a b A f g Hsq ltac:(congruence)) as H.
  destruct (solvable_all A f Hsq Lf Hs) as [y1 E1]. destruct (solvable_all A g Hsq Lg Hs) as [y2 E2].
  rewrite E1, E2 in *. destruct (dense_solve A (vlin a f b g)); [exact H|destruct H].
Qed.

End SolveLin.

(* ------------------------------------------------------------------ *)
(* closed form of C02-A2: hierarchies produced by amg_init with the modelled smoothers and
   the exact coarse solve *)
Section Built.
Context {S : Scalar}.
Local Notation vec := (vec S).
Local Notation crs := (crs S).
Hypothesis Srt : Sring S.
Hypothesis Seqb : seqb_spec S.

Lemma coarse_op_of_wf (sc : option S) : cop_wf (coarse_op_of sc).
Proof. destruct sc as [s|]; [apply scaled_galerkin_cop_wf|apply galerkin_cop_wf]. Qed.

Theorem std_levels_lin k ce dc ml sc ts (M : crs) :
  wf M = true -> ts_wf (nrows M) ts ->
  (forall A, In (LSolve A) (amg_init ce dc ml (coarse_op_of sc) ts M) ->
             ncols A = nrows A /\ solvable A = true) ->
  hier_lin (std_levels k (amg_init ce dc ml (coarse_op_of sc) ts M)).
Proof.
  intros WM Hts Hsol.
  destruct (amg_init_chain ce dc ml (coarse_op_of sc) ts M) as [Hc Hh].
  unfold std_levels.
  apply (chain_hier_lin _ _ (mk_relax_std_ok k) (mk_relax_std_lin Srt Seqb k) mk_solve_exact_ok
           (coarse_op_of sc) _ (coarse_op_of_shape sc) Hc).
  - unfold amg_init. apply build_descs_wf.
    + apply coarse_op_of_shape.
    + apply coarse_op_of_wf.
    + apply sort_rows_wf, WM.
    + rewrite sort_rows_nrows. exact Hts.
  - intros A HA. destruct (Hsol A HA) as [Hsq Hs]. apply (mk_solve_exact_lin Srt A Hsq Hs).
Qed.

Theorem built_apply_linear k ce dc ml sc ts (M : crs) npre npost ncycle pre_cycles :
  wf M = true -> ts_wf (nrows M) ts ->
  (forall A, In (LSolve A) (amg_init ce dc ml (coarse_op_of sc) ts M) ->
             ncols A = nrows A /\ solvable A = true) ->
  let lvls := std_levels k (amg_init ce dc ml (coarse_op_of sc) ts M) in
  forall a b scr1 scr2 scr3 f g x1 x2 x3,
  scratch_wf lvls scr1 -> scratch_wf lvls scr2 -> scratch_wf lvls scr3 ->
  length f = nrows M -> length g = nrows M ->
  length x1 = nrows M -> length x2 = nrows M -> length x3 = nrows M ->
  fst (apply npre npost ncycle pre_cycles lvls scr3 (vlin a f b g) x3) =
  vlin a (fst (apply npre npost ncycle pre_cycles lvls scr1 f x1)) b
         (fst (apply npre npost ncycle pre_cycles lvls scr2 g x2)).
Proof.
  intros WM Hts Hsol lvls a b scr1 scr2 scr3 f g x1 x2 x3 H1 H2 H3 Lf Lg L1 L2 L3.
  pose proof (std_levels_lin k ce dc ml sc ts M WM Hts Hsol) as Hlin.
  destruct (amg_init_chain ce dc ml (coarse_op_of sc) ts M) as [Hc Hh].
  destruct (std_levels_wf k _ _ (coarse_op_of_shape sc) Hc) as (_ & Hne & _).
  assert (En : top_n lvls = nrows M).
  { unfold lvls, std_levels. rewrite (top_n_inst _ _ _ _ Hh). apply sort_rows_nrows. }
  apply (apply_linear Srt Seqb npre npost ncycle pre_cycles lvls Hlin Hne); congruence.
Qed.

End Built.
