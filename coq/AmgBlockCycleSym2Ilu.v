(* AmgBlockCycleSym2Ilu.v -- C02 for block value types, residual-correction smoothers (ILU family):
       tmp = rhs - A x;  tmp = N tmp;  x = w * tmp + 1 * x            (Ilu.ilu_sweep with N = ilu_solve L U D)
   over a non-commutative ring.  Such a sweep is CONSISTENT whatever N is (no additivity needed: the sweep started at
   x = 0 is w N), and apply_pre = apply_post is SELF-ADJOINT as soon as the solve operator N is hermitian with respect to
   ipH and the damping w is central and hermitian (an embedded real scalar).  So for ILU(0) the hypothesis good5 of the
   symmetry theorem reduces to ONE statement about the factors:  <N f, g> = <f, N g>  for N = (D^-1 + U)^-1 (I + L)^-1. *)
From Amgcl Require Import Scalar Vec Crs Kernels KernelsProofs MatOps MatOpsProofs Relax DenseSolve
  Amg AmgExec AmgProofs AmgProofs2 AmgProofs3 AmgProofs4 AmgProofs6 AmgProofs7 NcRing NcKernels AmgBlockNc Ilu IluProofs
  AmgBlockCycle AmgBlockCycleProofs AmgBlockCycleSym AmgBlockCycleSym2 AmgBlockCycleSym2Gs AmgBlockCycleSym2Built.
Local Open Scope S_scope.

Section IluNc.
Context {S : Scalar}.
Local Notation vec := (vec S).
Local Notation crs := (crs S).
Local Notation sweep := (@sweep S).
Hypothesis Hnc : ncring_theory S.
Hypothesis Seqb : seqb_spec S.
Local Instance ncsy5 : NcRingInst S := ncring_inst Hnc.
Hypothesis adj_add : forall a b : S, sadj (a + b) = sadj a + sadj b.
Hypothesis adj_mul : forall a b : S, sadj (a * b) = sadj b * sadj a.
Hypothesis adj_inv : forall a : S, sadj (sadj a) = a.

Section Corr.
Variable A : crs.
Variable w : S.
Variable N : vec -> vec.
Hypothesis WA : wf A = true.
Hypothesis N_len : forall v, length (N v) = length v.
Local Notation n := (nrows A).

Definition corr_sweep : sweep := fun rhs x tmp =>
  let t1 := residual rhs A x tmp in let t2 := N t1 in (axpby w t2 s1 x, t2).

Lemma residual_zero_x (r : vec) : length r = n -> residual r A (vzero n) (vzero n) = r.
Proof.
  intro Lr. apply vec_ext.
  - rewrite residual_length; rewrite ?vzero_length; congruence.
  - rewrite residual_length by (rewrite ?vzero_length; congruence). intros i Hi.
    rewrite (nc_residual_spec Hnc) by (rewrite ?vzero_length; auto). rewrite (nc_Ax_zero Hnc). ncr.
Qed.

Lemma corr_opM_get (r : vec) i : length r = n -> i < n -> vget (opM corr_sweep n r) i = w * vget (N r) i.
Proof.
  intros Lr Hi. unfold opM, corr_sweep. cbn [fst]. rewrite (residual_zero_x r Lr).
  rewrite (nc_axpby_spec Hnc Seqb) by (rewrite ?N_len, ?vzero_length; congruence).
  rewrite nc_vget_vzero. ncr.
Qed.

Lemma corr_opM_length (r : vec) : length r = n -> length (opM corr_sweep n r) = n.
Proof.
  intro Lr. unfold opM, corr_sweep. cbn [fst]. rewrite (residual_zero_x r Lr).
  rewrite axpby_length; rewrite ?N_len, ?vzero_length; congruence.
Qed.

Theorem corr_sweep_consH : sweep_consH n A corr_sweep.
Proof.
  intros f x t Lf Lx Lt.
  assert (Lz : length (@vzero S n) = n) by apply vzero_length.
  assert (Er : residual f A x t = residual f A x (vzero n)) by (apply residual_ignores_res; congruence).
  assert (Lr : length (residual f A x (vzero n)) = n) by (apply residual_length; congruence).
  apply (vadd_intro Hnc _ _ _ n).
  - exact Lx.
  - apply corr_opM_length, Lr.
  - unfold corr_sweep. cbn [fst]. rewrite axpby_length; rewrite ?N_len, Er; congruence.
  - intros i Hi. rewrite corr_opM_get by assumption. unfold corr_sweep. cbn [fst]. rewrite Er.
    rewrite (nc_axpby_spec Hnc Seqb) by (rewrite ?N_len; congruence). ncr.
Qed.

Theorem corr_sweep_adjH : sadj w = w -> (forall c : S, w * c = c * w) ->
  (forall f g, length f = n -> length g = n -> ipH n (N f) g = ipH n f (N g)) ->
  sweep_adjH n corr_sweep corr_sweep.
Proof.
  intros Hw Hc HN f g Lf Lg.
  transitivity (ipH n (N f) g * w).
  - unfold ipH. rewrite <- (ncsumn_scal_r Hnc). apply sumn_ext. intros i Hi.
    rewrite corr_opM_get by assumption. rewrite adj_mul, Hw.
    transitivity (sadj (vget (N f) i) * (w * vget g i)); [ncr|]. rewrite (Hc (vget g i)). ncr.
  - rewrite (HN f g Lf Lg). unfold ipH. rewrite <- (ncsumn_scal_r Hnc). apply sumn_ext. intros i Hi.
    rewrite corr_opM_get by assumption.
    rewrite (Hc (vget (N g) i)). ncr.
Qed.

End Corr.

(* ILU(0) as constructed by the model (Ilu.ilu0 on A, serial solve): what is left of good5 *)
Theorem ilu0_good5 (w : S) (A L U : crs) (D : vec) : wf A = true ->
  ilu0 A (vzero (nrows A)) = Ok (L, U, D) ->
  sadj w = w -> (forall c : S, w * c = c * w) ->
  (forall f g, length f = nrows A -> length g = nrows A ->
     ipH (nrows A) (ilu_solve L U D f) g = ipH (nrows A) f (ilu_solve L U D g)) ->
  good5 (R5Ilu0 w) A.
Proof.
  intros WA E Hw Hc HN. cbn [good5]. unfold sweep_triple. cbn [mk_relax5]. unfold ilu0_sweeps. rewrite E. cbn [fst snd].
  change (fun rhs x t => ilu_sweep w L U D A rhs x t) with (corr_sweep A w (ilu_solve L U D)).
  split; [|split].
  - apply corr_sweep_consH; [exact WA|intro v; apply ilu_solve_length].
  - apply corr_sweep_consH; [exact WA|intro v; apply ilu_solve_length].
  - apply corr_sweep_adjH; [exact WA|intro v; apply ilu_solve_length|exact Hw|exact Hc|exact HN].
Qed.

End IluNc.
