(* KrylovProofs2Idrs.v -- lemmas about the IDR(s) model (KrylovIdrs.v).
   Part 1 (any Scalar record, no laws): iteration count <= maxiter and fuel sufficiency, the
     trivial exits (zero right-hand side, converged initial guess), junk independence of the
     workspace (needs is_zero(zero) = true and the allocated length of G[i], U[i]).
   Part 2 (commutative ring with decidable equality, A linear and length preserving, P length
     preserving): r = f - A x, G[i] = A U[i] and (smoothing) r_s = f - A x_s at every loop head
     and at every exit, hence reported = ||f - A x_returned|| / ||f||. *)
From Amgcl Require Import Scalar Vec Kernels KernelsProofs Krylov KrylovIdrs KrylovProofs KrylovProofs2.
From Coq Require Import ZifyBool QArith_base.
Local Close Scope Q_scope.
Local Open Scope S_scope.
Local Notation SS := Datatypes.S.

Section AnyScalar.
Context {S : Scalar}.
Local Notation vec := (vec S).
Local Notation id_st := (@id_st S).
Local Notation id_ws := (@id_ws S).
Local Notation iprm := (@iprm S).

Definition mx (prm : iprm) : nat := p_maxiter (ip_k prm).

(* the workspace was allocated for vectors of length n (constructor, idrs.hpp:186-191) *)
Definition id_sized (n s : nat) (w : id_ws) : Prop :=
  forall i, i < s -> length (d_G w i) = n /\ length (d_U w i) = n.

(* ---------------- iteration count, fuel ---------------- *)
Lemma id_kstep_it (A P : vec -> vec) Sh (prm : iprm) eps k (st : id_st) :
  e_it st < mx prm ->
  match id_kstep A P Sh prm eps k st with
  | IdExc => True
  | IdStop st' => e_it st <= e_it st' <= mx prm
  | IdCont st' => e_it st' = SS (e_it st) /\ e_it st' < mx prm
  end.
Proof.
  intro H. unfold id_kstep. destruct (id_kcore A P Sh prm k st) as [o|]; [|exact I].
  destruct (sleb (o_res o) eps); [simpl; lia|].
  fold (mx prm). destruct (Nat.leb (mx prm) (SS (e_it st))) eqn:E; simpl.
  - lia.
  - apply Nat.leb_gt in E. lia.
Qed.

Lemma id_kloop_it (A P : vec -> vec) Sh (prm : iprm) eps ks : forall st : id_st,
  e_it st < mx prm ->
  match id_kloop A P Sh prm eps ks st with
  | IdExc => True
  | IdStop st' => e_it st <= e_it st' <= mx prm
  | IdCont st' => e_it st <= e_it st' < mx prm /\ (ks <> [] -> e_it st < e_it st')
  end.
Proof.
  induction ks as [|k tl IH]; intros st H; simpl.
  - split; [lia | intro C; contradiction].
  - pose proof (id_kstep_it A P Sh prm eps k st H) as Q.
    destruct (id_kstep A P Sh prm eps k st) as [|st'|st']; [exact I | exact Q |].
    destruct Q as (Q1 & Q2). specialize (IH st' Q2).
    destruct (id_kloop A P Sh prm eps tl st') as [|st''|st'']; [exact I | lia |].
    split; [lia | intros _; lia].
Qed.

Lemma id_omstep_it (A P : vec -> vec) (prm : iprm) f (st st' : id_st) :
  id_omstep A P prm f st = Some st' -> e_it st' = SS (e_it st).
Proof.
  unfold id_omstep. cbv zeta. destruct (is_zero _); [discriminate|].
  intro H; inversion H; reflexivity.
Qed.

Lemma id_pass_it (A P : vec -> vec) Sh (prm : iprm) f eps (st : id_st) :
  e_it st < mx prm ->
  match id_pass A P Sh prm f eps st with
  | IdExc => True
  | IdStop st' => e_it st <= e_it st' <= mx prm
  | IdCont st' => e_it st < e_it st' <= mx prm
  end.
Proof.
  intro H. unfold id_pass. cbv zeta.
  match goal with |- context [id_kloop A P Sh prm eps ?ks ?s1'] =>
    pose proof (id_kloop_it A P Sh prm eps ks s1' H) as Q;
    destruct (id_kloop A P Sh prm eps ks s1') as [|st'|st2] end; auto.
  simpl in Q. destruct Q as (Q1 & _).
  destruct (sleb (e_res st2) eps || Nat.leb (p_maxiter (ip_k prm)) (e_it st2)); [lia|].
  destruct (id_omstep A P prm f st2) as [st3|] eqn:E; [|exact I].
  apply id_omstep_it in E. lia.
Qed.

Lemma id_loop_it (A P : vec -> vec) Sh (prm : iprm) f eps fuel : forall (st st' : id_st) oof,
  e_it st <= mx prm -> mx prm <= e_it st + fuel ->
  id_loop A P Sh prm f eps fuel st = Some (st', oof) -> e_it st' <= mx prm /\ oof = false.
Proof.
  induction fuel as [|n IH]; intros st st' oof H1 H2; simpl; fold (mx prm).
  - destruct (Nat.ltb (e_it st) (mx prm) && sltb eps (e_res st)) eqn:E.
    + apply Bool.andb_true_iff in E as [E _]. apply Nat.ltb_lt in E. lia.
    + intro Q; inversion Q; subst. auto.
  - destruct (Nat.ltb (e_it st) (mx prm) && sltb eps (e_res st)) eqn:E.
    + apply Bool.andb_true_iff in E as [E _]. apply Nat.ltb_lt in E.
      pose proof (id_pass_it A P Sh prm f eps st E) as Q.
      destruct (id_pass A P Sh prm f eps st) as [|s'|s']; [discriminate| |].
      * intro R; inversion R; subst. split; [lia|reflexivity].
      * apply IH; lia.
    + intro Q; inversion Q; subst. auto.
Qed.

Theorem idrs_iters_le_maxiter (A P : vec -> vec) Sh (prm : iprm) (f x0 : vec) junk r w :
  idrs A P Sh prm f x0 junk = (KOk r, w) -> k_it r <= p_maxiter (ip_k prm) /\ k_oof r = false.
Proof.
  unfold idrs. cbv zeta. destruct (k_prologue norm_b (ip_k prm) f) as [nr|nr].
  - intro H; inversion H; subst; simpl; split; [lia|reflexivity].
  - destruct (sleb _ _).
    + intro H; inversion H; subst; simpl; split; [lia|reflexivity].
    + match goal with |- context [id_loop A P Sh prm f ?e ?fu ?st] =>
        destruct (id_loop A P Sh prm f e fu st) as [[st' oof]|] eqn:E end; [|discriminate].
      apply id_loop_it in E; [|unfold id_init; simpl; lia | unfold id_init, mx; simpl; lia].
      intro H; inversion H; subst; simpl. exact E.
Qed.

(* ---------------- trivial exits ---------------- *)
Theorem idrs_zero_rhs (A P : vec -> vec) Sh (prm : iprm) (f x0 : vec) junk :
  sltb (norm_b f) eps1 = true -> p_ns (ip_k prm) = false ->
  fst (idrs A P Sh prm f x0 junk) = KOk (mkRes 0 (norm_b f) (k_clear x0) false).
Proof. intros H N. unfold idrs, k_prologue. rewrite H, N. reflexivity. Qed.

(* the explicit exit of idrs.hpp:277: res_norm <= eps *)
Theorem idrs_converged_guess (A P : vec -> vec) Sh (prm : iprm) (f x0 : vec) junk nr :
  k_prologue norm_b (ip_k prm) f = Go nr ->
  sleb (true_res norm_b A P false f x0) (smax (p_tol (ip_k prm) * nr) (p_abstol (ip_k prm))) = true ->
  fst (idrs A P Sh prm f x0 junk) = KOk (mkRes 0 (true_res norm_b A P false f x0 / nr) x0 false).
Proof.
  intros Hp Hc. unfold idrs. cbv zeta. rewrite Hp. unfold true_res in *. rewrite Hc. reflexivity.
Qed.


(* ---------------- junk independence ----------------
   Everything the code reads was written earlier in the same call: M on [0,s)x[0,s) (identity at the
   start), f on [0,s) (start of every pass), c on [k,s) (start of every k step), v, t (overwritten),
   G[i], U[i] (cleared at the start: needs the ALLOCATED length), x_s, r_s (copied when smoothing). *)
Lemma fold_left_ext_in {X Y} (f g : X -> Y -> X) (l : list Y) :
  (forall a y, In y l -> f a y = g a y) -> forall a, fold_left f l a = fold_left g l a.
Proof.
  induction l as [|y tl IH]; intros H a; simpl; [reflexivity|].
  rewrite (H a y (or_introl eq_refl)). apply IH. intros a' y' Hy. apply H. right; exact Hy.
Qed.

Section Junk.
Hypothesis Hz : is_zero (@s0 S) = true.
Variable prm : iprm.
Local Notation s := (ip_s prm).
Local Notation smooth := (ip_smooth prm).

Definition id_wrel (w1 w2 : id_ws) : Prop :=
  (forall i j, i < s -> j < s -> d_M w1 i j = d_M w2 i j) /\ d_r w1 = d_r w2 /\
  (forall i, i < s -> d_G w1 i = d_G w2 i /\ d_U w1 i = d_U w2 i) /\
  (smooth = true -> d_xs w1 = d_xs w2 /\ d_rs w1 = d_rs w2).
Definition id_frel (w1 w2 : id_ws) : Prop := forall i, i < s -> d_f w1 i = d_f w2 i.
Definition id_srel (a b : id_st) : Prop :=
  e_x a = e_x b /\ e_om a = e_om b /\ e_res a = e_res b /\ e_it a = e_it b /\ id_wrel (e_ws a) (e_ws b).

Lemma id_solve_agree k (M1 M2 : nat -> nat -> S) (f1 f2 : nat -> S) (G1 G2 : nat -> vec) c1 c2 (r : vec) :
  (forall i j, i < s -> j < s -> M1 i j = M2 i j) -> (forall i, i < s -> f1 i = f2 i) ->
  (forall i, i < s -> G1 i = G2 i) ->
  snd (id_solve s k M1 f1 G1 c1 r) = snd (id_solve s k M2 f2 G2 c2 r) /\
  forall j, k <= j < s -> fst (id_solve s k M1 f1 G1 c1 r) j = fst (id_solve s k M2 f2 G2 c2 r) j.
Proof.
  intros HM Hf HG. unfold id_solve.
  set (F := fun (M : nat -> nat -> S) (fv : nat -> S) (G : nat -> vec) (cv : (nat -> S) * vec) i =>
        let ci0 := fold_left (fun acc j => acc - M i j * fst cv j) (seq k (i - k)) (fv i) in
        let ci := sinv (M i i) * ci0 in
        (upd (fst cv) i ci, k_axpby (- ci) (G i) s1 (snd cv))).
  change (snd (fold_left (F M1 f1 G1) (seq k (s - k)) (c1, r)) = snd (fold_left (F M2 f2 G2) (seq k (s - k)) (c2, r)) /\
          forall j, k <= j < s -> fst (fold_left (F M1 f1 G1) (seq k (s - k)) (c1, r)) j = fst (fold_left (F M2 f2 G2) (seq k (s - k)) (c2, r)) j).
  assert (Q : forall m, k + m <= s ->
     snd (fold_left (F M1 f1 G1) (seq k m) (c1, r)) = snd (fold_left (F M2 f2 G2) (seq k m) (c2, r)) /\
     forall j, k <= j < k + m -> fst (fold_left (F M1 f1 G1) (seq k m) (c1, r)) j = fst (fold_left (F M2 f2 G2) (seq k m) (c2, r)) j).
  { induction m as [|m IH]; intro Hm.
    - simpl. split; [reflexivity | intros j Hj; lia].
    - rewrite seq_snoc, !fold_left_app. destruct (IH ltac:(lia)) as (Ev & Ec).
      set (a := fold_left (F M1 f1 G1) (seq k m) (c1, r)) in *.
      set (b := fold_left (F M2 f2 G2) (seq k m) (c2, r)) in *.
      simpl fold_left. unfold F. cbv zeta. cbn [fst snd].
      replace (k + m - k)%nat with m by lia.
      assert (E0 : fold_left (fun acc j => acc - M1 (k + m)%nat j * fst a j) (seq k m) (f1 (k + m)%nat)
                 = fold_left (fun acc j => acc - M2 (k + m)%nat j * fst b j) (seq k m) (f2 (k + m)%nat)).
      { rewrite (Hf (k + m)%nat) by lia. apply fold_left_ext_in. intros acc j Hj. apply in_seq in Hj.
        rewrite (HM (k + m)%nat j), (Ec j) by lia. reflexivity. }
      rewrite E0, (HM (k + m)%nat (k + m)%nat), (HG (k + m)%nat), Ev by lia.
      split; [reflexivity|]. intros j Hj. destruct (Nat.eq_dec j (k + m)%nat) as [->|N].
      + rewrite !upd_eq. reflexivity.
      + rewrite !upd_neq by exact N. apply Ec. lia. }
  destruct (Nat.le_gt_cases k s) as [Hk|Hk].
  - destruct (Q (s - k)%nat ltac:(lia)) as (Q1 & Q2). split; [exact Q1|]. intros j Hj. apply Q2. lia.
  - replace (s - k)%nat with 0 by lia. simpl. split; [reflexivity | intros j Hj; lia].
Qed.

Lemma id_newU_agree k om (t : vec) c1 c2 (U1 U2 : nat -> vec) : k < s ->
  (forall j, k <= j < s -> c1 j = c2 j) -> (forall i, i < s -> U1 i = U2 i) ->
  id_newU s k om t c1 U1 = id_newU s k om t c2 U2.
Proof.
  intros Hk Hc HU. unfold id_newU. rewrite (Hc k), (HU k) by lia.
  apply fold_left_ext_in. intros u i Hi. apply in_seq in Hi. rewrite (Hc i), (HU i) by lia. reflexivity.
Qed.

Lemma id_biorth_agree k Sh (M1 M2 : nat -> nat -> S) (G1 G2 U1 U2 : nat -> vec) gu : k <= s ->
  (forall i j, i < s -> j < s -> M1 i j = M2 i j) -> (forall i, i < s -> G1 i = G2 i /\ U1 i = U2 i) ->
  id_biorth k Sh M1 G1 U1 gu = id_biorth k Sh M2 G2 U2 gu.
Proof.
  intros Hk HM HG. unfold id_biorth. apply fold_left_ext_in. intros [g u] i Hi. apply in_seq in Hi.
  destruct (HG i ltac:(lia)) as (E1 & E2). rewrite (HM i i), E1, E2 by lia. reflexivity.
Qed.

Lemma id_Mcol_agree k Sh (Gk : vec) (M1 M2 : nat -> nat -> S) :
  (forall i j, i < s -> j < s -> M1 i j = M2 i j) ->
  forall i j, i < s -> j < s -> id_Mcol s k Sh Gk M1 i j = id_Mcol s k Sh Gk M2 i j.
Proof.
  unfold id_Mcol. generalize (seq k (s - k)) as l. intro l. revert M1 M2.
  induction l as [|a tl IH]; intros M1 M2 HM; simpl; [exact HM|].
  apply IH. intros i j Hi Hj. unfold updm. destruct (Nat.eqb i a && Nat.eqb j k); [reflexivity | apply HM; assumption].
Qed.

Lemma id_smooth_f sm (x : vec) (w : id_ws) res : d_f (fst (id_smooth sm x w res)) = d_f w /\ d_M (fst (id_smooth sm x w res)) = d_M w.
Proof. unfold id_smooth. destruct sm; split; reflexivity. Qed.

Lemma id_smooth_agree (x : vec) (w1 w2 : id_ws) res : id_wrel w1 w2 ->
  id_wrel (fst (id_smooth smooth x w1 res)) (fst (id_smooth smooth x w2 res)) /\
  snd (id_smooth smooth x w1 res) = snd (id_smooth smooth x w2 res).
Proof.
  intros (HM & Hr & HG & Hs). unfold id_smooth. destruct smooth eqn:Sm; cbn [fst snd].
  - destruct (Hs eq_refl) as (E1 & E2). rewrite !(k_axpbypcz_zero Hz). rewrite E1, E2, Hr.
    split; [|reflexivity]. unfold id_wrel; cbn [d_M d_r d_G d_U d_xs d_rs].
    split; [exact HM|]. split; [reflexivity|]. split; [exact HG|]. intros _. split; reflexivity.
  - split; [|reflexivity]. unfold id_wrel. rewrite Sm. split; [exact HM|]. split; [exact Hr|]. split; [exact HG|]. discriminate.
Qed.

Definition id_orel (a b : option (@id_core S)) : Prop :=
  match a, b with
  | Some oa, Some ob => o_x oa = o_x ob /\ o_res oa = o_res ob /\ o_beta oa = o_beta ob /\
                        id_wrel (o_w oa) (o_w ob) /\ id_frel (o_w oa) (o_w ob)
  | None, None => True
  | _, _ => False
  end.

Lemma id_kcore_agree (A P : vec -> vec) Sh k (a b : id_st) : k < s ->
  id_srel a b -> id_frel (e_ws a) (e_ws b) -> id_orel (id_kcore A P Sh prm k a) (id_kcore A P Sh prm k b).
Proof.
  intros Hk (Ex & Eom & _ & _ & (HM & Hr & HG & Hs)) Hf. unfold id_kcore. cbv zeta.
  set (wa := e_ws a) in *. set (wb := e_ws b) in *.
  destruct (id_solve_agree k (d_M wa) (d_M wb) (d_f wa) (d_f wb) (d_G wa) (d_G wb) (d_c wa) (d_c wb) (d_r wa)
              HM Hf (fun i Hi => proj1 (HG i Hi))) as (Ev & Ec).
  rewrite <- Hr.
  set (cva := id_solve s k (d_M wa) (d_f wa) (d_G wa) (d_c wa) (d_r wa)) in *.
  set (cvb := id_solve s k (d_M wb) (d_f wb) (d_G wb) (d_c wb) (d_r wa)) in *.
  rewrite <- Ev. set (t := P (snd cva)).
  rewrite <- Eom.
  rewrite <- (id_newU_agree k (e_om a) t (fst cva) (fst cvb) (d_U wa) (d_U wb) Hk Ec (fun i Hi => proj2 (HG i Hi))).
  set (Uk1 := id_newU s k (e_om a) t (fst cva) (d_U wa)).
  rewrite <- (id_biorth_agree k Sh (d_M wa) (d_M wb) (d_G wa) (d_G wb) (d_U wa) (d_U wb) (A Uk1, Uk1) ltac:(lia) HM HG).
  set (gu := id_biorth k Sh (d_M wa) (d_G wa) (d_U wa) (A Uk1, Uk1)).
  pose proof (id_Mcol_agree k Sh (fst gu) (d_M wa) (d_M wb) HM) as HM'.
  set (Ma := id_Mcol s k Sh (fst gu) (d_M wa)) in *. set (Mb := id_Mcol s k Sh (fst gu) (d_M wb)) in *.
  rewrite <- (HM' k k Hk Hk), <- (Hf k Hk), <- Ex.
  destruct (is_zero (Ma k k)); [exact I|].
  set (beta := sinv (Ma k k) * d_f wa k).
  unfold id_orel. cbn [o_x o_w o_res o_beta].
  match goal with |- _ /\ snd (id_smooth _ ?x ?w1 ?res) = snd (id_smooth _ _ ?w2 _) /\ _ =>
    assert (W : id_wrel w1 w2);
    [| destruct (id_smooth_agree x w1 w2 res W) as (W1 & W2);
       destruct (id_smooth_f smooth x w1 res) as (F1 & _); destruct (id_smooth_f smooth x w2 res) as (F2 & _) ] end.
  { unfold id_wrel; cbn [d_M d_r d_G d_U d_xs d_rs]. split; [exact HM'|]. split; [reflexivity|]. split; [|exact Hs].
    intros i Hi. destruct (Nat.eq_dec i k) as [->|N].
    - rewrite !upd_eq. split; reflexivity.
    - rewrite !upd_neq by exact N. apply HG, Hi. }
  split; [reflexivity|]. split; [exact W2|]. split; [reflexivity|]. split; [exact W1|].
  unfold id_frel. rewrite F1, F2. cbn [d_f]. exact Hf.
Qed.

Definition id_steprel (a b : @id_step S) : Prop :=
  match a, b with
  | IdExc, IdExc => True
  | IdStop x, IdStop y => id_srel x y
  | IdCont x, IdCont y => id_srel x y /\ id_frel (e_ws x) (e_ws y)
  | _, _ => False
  end.

Lemma id_kstep_agree (A P : vec -> vec) Sh eps k (a b : id_st) : k < s ->
  id_srel a b -> id_frel (e_ws a) (e_ws b) ->
  id_steprel (id_kstep A P Sh prm eps k a) (id_kstep A P Sh prm eps k b).
Proof.
  intros Hk R Hf. pose proof (id_kcore_agree A P Sh k a b Hk R Hf) as Q.
  destruct R as (_ & Eom & _ & Eit & _). unfold id_kstep.
  destruct (id_kcore A P Sh prm k a) as [oa|], (id_kcore A P Sh prm k b) as [ob|]; simpl in Q; try contradiction; [|exact I].
  destruct Q as (Ex & Er & Eb & W & F). rewrite <- Er, <- Eit, <- Ex, <- Eom.
  destruct (sleb (o_res oa) eps).
  { unfold id_steprel, id_srel; cbn [e_x e_om e_res e_it e_ws]. auto. }
  destruct (Nat.leb _ _).
  { unfold id_steprel, id_srel; cbn [e_x e_om e_res e_it e_ws]. auto. }
  unfold id_steprel, id_srel, id_set_f; cbn [e_x e_om e_res e_it e_ws]. split.
  - repeat (split; [reflexivity|]).
    destruct W as (HM & Hr & HG & Hs). unfold id_wrel; cbn [d_M d_r d_G d_U d_xs d_rs]. auto.
  - unfold id_frel; cbn [d_f]. intros i Hi. rewrite <- Eb.
    destruct (fold_upd_range (fun i v => v - o_beta oa * d_M (o_w oa) i k) (SS k) (s - SS k) (d_f (o_w oa))) as (A1 & A2).
    destruct (fold_upd_range (fun i v => v - o_beta oa * d_M (o_w ob) i k) (SS k) (s - SS k) (d_f (o_w ob))) as (B1 & B2).
    cbv zeta in A1, A2, B1, B2. destruct W as (HM & _).
    destruct (Nat.le_gt_cases (SS k) i) as [L|L].
    + rewrite A1, B1 by lia. rewrite (F i Hi), (HM i k Hi Hk). reflexivity.
    + rewrite A2, B2 by lia. apply F, Hi.
Qed.

Lemma id_kloop_agree (A P : vec -> vec) Sh eps ks : (forall k, In k ks -> k < s) -> forall a b : id_st,
  id_srel a b -> id_frel (e_ws a) (e_ws b) ->
  id_steprel (id_kloop A P Sh prm eps ks a) (id_kloop A P Sh prm eps ks b).
Proof.
  induction ks as [|k tl IH]; intros Hk a b R F; simpl; [split; assumption|].
  pose proof (id_kstep_agree A P Sh eps k a b (Hk k (or_introl eq_refl)) R F) as Q.
  destruct (id_kstep A P Sh prm eps k a) as [|a'|a'], (id_kstep A P Sh prm eps k b) as [|b'|b']; simpl in Q; try contradiction; auto.
  destruct Q as (Q1 & Q2). apply IH; auto. intros j Hj. apply Hk. right; exact Hj.
Qed.

Definition id_osrel (a b : option id_st) : Prop :=
  match a, b with Some x, Some y => id_srel x y | None, None => True | _, _ => False end.

Lemma id_omstep_agree (A P : vec -> vec) f (a b : id_st) : id_srel a b ->
  id_osrel (id_omstep A P prm f a) (id_omstep A P prm f b).
Proof.
  intros (Ex & _ & _ & Eit & (HM & Hr & HG & Hs)). unfold id_omstep. cbv zeta.
  rewrite <- Hr, <- Ex, <- Eit.
  match goal with |- id_osrel (if is_zero ?o then _ else _) _ => destruct (is_zero o) end; [exact I|]. unfold id_osrel, id_srel; cbn [e_x e_om e_res e_it e_ws].
  match goal with |- _ /\ _ /\ snd (id_smooth _ ?x ?w1 ?res) = snd (id_smooth _ _ ?w2 _) /\ _ =>
    assert (W : id_wrel w1 w2) by (unfold id_wrel; cbn [d_M d_r d_G d_U d_xs d_rs]; auto);
    destruct (id_smooth_agree x w1 w2 res W) as (W1 & W2) end.
  auto.
Qed.

Lemma id_pass_agree (A P : vec -> vec) Sh f eps (a b : id_st) : id_srel a b ->
  match id_pass A P Sh prm f eps a, id_pass A P Sh prm f eps b with
  | IdExc, IdExc => True
  | IdStop x, IdStop y => id_srel x y
  | IdCont x, IdCont y => id_srel x y
  | _, _ => False
  end.
Proof.
  intro R. unfold id_pass. cbv zeta.
  match goal with |- match match id_kloop A P Sh prm eps ?ks ?a1 with _ => _ end with _ => _ end =>
    match goal with |- context [id_kloop A P Sh prm eps ks ?b1] =>
      lazymatch a1 with b1 => fail | _ => idtac end;
      assert (R1 : id_srel a1 b1 /\ id_frel (e_ws a1) (e_ws b1));
      [| pose proof (id_kloop_agree A P Sh eps ks ltac:(intros k Hk; apply in_seq in Hk; lia) a1 b1 (proj1 R1) (proj2 R1)) as Q;
         destruct (id_kloop A P Sh prm eps ks a1) as [|a'|a'], (id_kloop A P Sh prm eps ks b1) as [|b'|b'];
         simpl in Q; try contradiction; auto ]
    end end.
  { destruct R as (Ex & Eom & Er & Eit & (HM & Hr & HG & Hs)).
    unfold id_srel, id_frel, id_wrel, id_set_f; cbn [e_x e_om e_res e_it e_ws d_M d_f d_r d_G d_U d_xs d_rs].
    split; [auto 10|]. intros i Hi. rewrite <- Hr.
    destruct (fold_upd_range (fun i (_ : S) => ip (d_r (e_ws a)) (Sh i)) 0 s (d_f (e_ws a))) as (A1 & _).
    destruct (fold_upd_range (fun i (_ : S) => ip (d_r (e_ws a)) (Sh i)) 0 s (d_f (e_ws b))) as (B1 & _).
    cbv zeta in A1, B1. rewrite A1, B1 by lia. reflexivity. }
  destruct Q as (Q & _). pose proof Q as (_ & _ & Er & Eit & _). rewrite <- Er, <- Eit.
  destruct (sleb (e_res a') eps || Nat.leb (p_maxiter (ip_k prm)) (e_it a')); [exact Q|].
  pose proof (id_omstep_agree A P f a' b' Q) as Q2.
  destruct (id_omstep A P prm f a') as [a''|], (id_omstep A P prm f b') as [b''|]; simpl in Q2; try contradiction; auto.
Qed.

Lemma id_loop_agree (A P : vec -> vec) Sh f eps fuel : forall a b : id_st, id_srel a b ->
  match id_loop A P Sh prm f eps fuel a, id_loop A P Sh prm f eps fuel b with
  | Some (x, o1), Some (y, o2) => id_srel x y /\ o1 = o2
  | None, None => True
  | _, _ => False
  end.
Proof.
  induction fuel as [|m IH]; intros a b R; simpl; pose proof R as (_ & _ & Er & Eit & _); rewrite <- Er, <- Eit.
  - destruct (_ && _); split; auto.
  - destruct (_ && _); [|split; auto].
    pose proof (id_pass_agree A P Sh f eps a b R) as Q.
    destruct (id_pass A P Sh prm f eps a) as [|a'|a'], (id_pass A P Sh prm f eps b) as [|b'|b']; try contradiction.
    + exact I.
    + split; [exact Q | reflexivity].
    + apply IH. exact Q.
Qed.

(* M(i,j) = (i == j) for i, j < s overwrites the whole block *)
Lemma id_initM_agree (v : nat -> nat -> S) (cols : list nat) rows : forall (M1 M2 : nat -> nat -> S) Q, Agr Q M1 M2 ->
  Agr (fun r c => Q r c \/ (In r rows /\ In c cols))
      (fold_left (fun M i => fold_left (fun M j => updm M i j (v i j)) cols M) rows M1)
      (fold_left (fun M i => fold_left (fun M j => updm M i j (v i j)) cols M) rows M2).
Proof.
  assert (Row : forall i cs (M1 M2 : nat -> nat -> S) Q, Agr Q M1 M2 ->
     Agr (fun r c => Q r c \/ (r = i /\ In c cs))
         (fold_left (fun M j => updm M i j (v i j)) cs M1) (fold_left (fun M j => updm M i j (v i j)) cs M2)).
  { intros i cs. induction cs as [|j tl IH]; intros M1 M2 Q HA; simpl.
    - eapply agr_weaken; [|exact HA]. intros r c [H|(_ & [])]; exact H.
    - eapply agr_weaken; [|apply (IH _ _ _ (agr_updm Q M1 M2 i j (v i j) HA))].
      intros r c [H|(Hr & [Hc|Hc])]; [left; left; exact H | left; right; split; [exact Hr | symmetry; exact Hc] | right; split; assumption]. }
  induction rows as [|i tl IH]; intros M1 M2 Q HA; simpl.
  - eapply agr_weaken; [|exact HA]. intros r c [H|([] & _)]; exact H.
  - eapply agr_weaken; [|apply (IH _ _ _ (Row i cols M1 M2 Q HA))].
    intros r c [H|([Hr|Hr] & Hc)]; [left; left; exact H | left; right; split; [symmetry; exact Hr | exact Hc] | right; split; assumption].
Qed.

Lemma id_init_agree n (x0 r : vec) res (j1 j2 : id_ws) : id_sized n s j1 -> id_sized n s j2 ->
  id_srel (id_init prm x0 r res j1) (id_init prm x0 r res j2).
Proof.
  intros Z1 Z2. unfold id_init, id_srel, id_wrel. cbv zeta. cbn [e_x e_om e_res e_it e_ws d_M d_r d_G d_U d_xs d_rs].
  repeat (split; [reflexivity|]). split; [|split; [reflexivity|split]].
  - intros i j Hi Hj.
    apply (id_initM_agree (fun i j => sofQ (if Nat.eqb i j then (1 # 1)%Q else (0 # 1)%Q)) (seq 0 s) (seq 0 s)
             (d_M j1) (d_M j2) (fun _ _ => False) ltac:(intros ? ? [])).
    right. split; apply in_seq; lia.
  - intros i Hi. destruct (Z1 i Hi) as (G1 & U1). destruct (Z2 i Hi) as (G2 & U2).
    destruct (fold_upd_range (fun (_ : nat) (v : vec) => k_clear v) 0 s (d_G j1)) as (A1 & _).
    destruct (fold_upd_range (fun (_ : nat) (v : vec) => k_clear v) 0 s (d_G j2)) as (A2 & _).
    destruct (fold_upd_range (fun (_ : nat) (v : vec) => k_clear v) 0 s (d_U j1)) as (B1 & _).
    destruct (fold_upd_range (fun (_ : nat) (v : vec) => k_clear v) 0 s (d_U j2)) as (B2 & _).
    cbv zeta in A1, A2, B1, B2. rewrite A1, A2, B1, B2 by lia.
    split; apply k_clear_len_eq; congruence.
  - intro Sm. rewrite Sm. split; reflexivity.
Qed.

End Junk.

Theorem idrs_junk_independent (Hz : is_zero (@s0 S) = true) (A P : vec -> vec) Sh (prm : iprm) (f x0 : vec) n (j1 j2 : id_ws) :
  id_sized n (ip_s prm) j1 -> id_sized n (ip_s prm) j2 ->
  fst (idrs A P Sh prm f x0 j1) = fst (idrs A P Sh prm f x0 j2).
Proof.
  intros Z1 Z2. unfold idrs. cbv zeta. destruct (k_prologue norm_b (ip_k prm) f) as [nr|nr]; [reflexivity|].
  destruct (sleb _ _); [reflexivity|].
  match goal with |- context [id_loop A P Sh prm f ?e ?fu (id_init prm x0 ?r ?res j1)] =>
    assert (R0 : id_srel prm (id_init prm x0 r res j1) (id_init prm x0 r res j2)) by (eapply id_init_agree; eassumption);
    pose proof (id_loop_agree Hz prm A P Sh f e fu _ _ R0) as Q;
    destruct (id_loop A P Sh prm f e fu (id_init prm x0 r res j1)) as [[a o1]|],
             (id_loop A P Sh prm f e fu (id_init prm x0 r res j2)) as [[b o2]|]; try contradiction; [|reflexivity] end.
  destruct Q as ((Ex & _ & Er & Eit & (_ & _ & _ & Hs)) & Eo). cbn [fst]. rewrite Er, Eit, Eo.
  destruct (ip_smooth prm); [destruct (Hs eq_refl) as (E & _); rewrite E | rewrite Ex]; reflexivity.
Qed.

End AnyScalar.

(* ================================================================== *)
(* commutative ring, linear A: the carried residual IS the residual   *)
Section RingLaws.
Context {S : Scalar}.
Local Notation vec := (vec S).
Local Notation id_st := (@id_st S).
Local Notation id_ws := (@id_ws S).
Local Notation iprm := (@iprm S).
Hypothesis Srt : Sring S.
Hypothesis Seqb : seqb_spec S.
Add Ring SRingI : Srt.
Variable n : nat.
Variables A P : vec -> vec.
Hypothesis A_len : forall v, length v = n -> length (A v) = n.
Hypothesis P_len : forall v, length v = n -> length (P v) = n.
Hypothesis A_lin : linear_on n A.

Local Notation axpby_spec := (k_axpby_spec Srt Seqb).
Local Notation res_upd := (residual_update Srt n A A_lin).

(* what the code relies on: r = f - A x, G[i] = A U[i], and (smoothing) r_s = f - A x_s *)
Definition id_inv (prm : iprm) (f : vec) (x : vec) (w : id_ws) : Prop :=
  length x = n /\ d_r w = k_residual f (A x) /\
  (forall i, i < ip_s prm -> length (d_U w i) = n /\ d_G w i = A (d_U w i)) /\
  (ip_smooth prm = true -> length (d_xs w) = n /\ d_rs w = k_residual f (A (d_xs w))).
Definition id_res (prm : iprm) (w : id_ws) : S := norm_b (if ip_smooth prm then d_rs w else d_r w).

Lemma k_axpby_len_n a (x : vec) b (y : vec) : length x = n -> length y = n -> length (k_axpby a x b y) = n.
Proof. intros Lx Ly. rewrite k_axpby_length; lia. Qed.

(* smoothing keeps r, G, U, M and re-establishes r_s = f - A x_s; the reported norm is that of r_s *)
Lemma id_smooth_inv (prm : iprm) (f x : vec) (w : id_ws) : length f = n ->
  id_inv prm f x w ->
  let wr := id_smooth (ip_smooth prm) x w (norm_b (d_r w)) in
  id_inv prm f x (fst wr) /\ snd wr = id_res prm (fst wr).
Proof.
  intros Lf (Lx & Hr & HG & Hs). unfold id_smooth, id_res.
  destruct (ip_smooth prm) eqn:Sm; cbn [fst snd].
  - destruct (Hs eq_refl) as (Lxs & Hrs).
    split; [|cbn [d_rs]; reflexivity].
    unfold id_inv; cbn [d_r d_G d_U d_xs d_rs]. rewrite Sm.
    assert (Lr : length (d_r w) = n) by (rewrite Hr; apply (k_residual_len n A A_len); auto).
    assert (Lrs : length (d_rs w) = n) by (rewrite Hrs; apply (k_residual_len n A A_len); auto).
    rewrite (k_axpbypcz_c0 Seqb).
    set (t := vmap2 (fun xi yi => s1 * xi + - s1 * yi) (d_rs w) (d_r w)).
    assert (Lt : length t = n) by (unfold t; rewrite vmap2_length; lia).
    set (gamma := ip t (d_rs w) / ip t t).
    rewrite axpby_spec by lia. rewrite (k_axpbypcz_spec Srt Seqb) by lia.
    split; [exact Lx|]. split; [exact Hr|]. split; [exact HG|]. intros _. split.
    + rewrite vmap3_length. lia.
    + replace (vmap3 (fun xi yi zi => - gamma * xi + gamma * yi + s1 * zi) (d_xs w) x (d_xs w))
        with (vmap2 (fun a d => a + gamma * d) (d_xs w) (vmap2 (fun b a => b + - s1 * a) x (d_xs w)))
        by vec_ring2.
      rewrite res_upd by (rewrite ?vmap2_length; lia).
      rewrite (A_lin (- s1) x (d_xs w) Lx Lxs).
      unfold t. rewrite Hrs, Hr. unfold k_residual. vec_ring2.
  - split; [|reflexivity]. unfold id_inv. rewrite Sm.
    split; [exact Lx|]. split; [exact Hr|]. split; [exact HG|]. discriminate.
Qed.


Lemma id_solve_len s k M fv (G : nat -> vec) c0 (r : vec) :
  (forall i, i < s -> length (G i) = n) -> length r = n -> length (snd (id_solve s k M fv G c0 r)) = n.
Proof.
  intros HG Lr. unfold id_solve.
  assert (Q : forall l, (forall i, In i l -> i < s) -> forall cv : (nat -> S) * vec, length (snd cv) = n ->
    length (snd (fold_left (fun (cv : (nat -> S) * vec) i =>
        let ci0 := fold_left (fun acc j => acc - M i j * fst cv j) (seq k (i - k)) (fv i) in
        let ci := sinv (M i i) * ci0 in
        (upd (fst cv) i ci, k_axpby (- ci) (G i) s1 (snd cv))) l cv)) = n).
  { induction l as [|i tl IH]; intros Hl cv Lc; simpl; [exact Lc|].
    apply IH; [intros j Hj; apply Hl; right; exact Hj|]. cbn [snd].
    apply k_axpby_len_n; [apply HG, Hl; left; reflexivity | exact Lc]. }
  apply Q; [|exact Lr]. intros i Hi. apply in_seq in Hi. lia.
Qed.

Lemma id_newU_len s k om (t : vec) c (U : nat -> vec) :
  (forall i, i < s -> length (U i) = n) -> k < s -> length t = n -> length (id_newU s k om t c U) = n.
Proof.
  intros HU Hk Lt. unfold id_newU.
  assert (Q : forall l, (forall i, In i l -> i < s) -> forall u : vec, length u = n ->
    length (fold_left (fun u i => k_axpby (c i) (U i) s1 u) l u) = n).
  { induction l as [|i tl IH]; intros Hl u Lu; simpl; [exact Lu|].
    apply IH; [intros j Hj; apply Hl; right; exact Hj|].
    apply k_axpby_len_n; [apply HU, Hl; left; reflexivity | exact Lu]. }
  apply Q; [intros i Hi; apply in_seq in Hi; lia|].
  apply k_axpby_len_n; [exact Lt | apply HU; exact Hk].
Qed.

Lemma id_biorth_inv s k Sh M (G U : nat -> vec) :
  (forall i, i < s -> length (U i) = n /\ G i = A (U i)) -> k <= s ->
  forall g u : vec, length u = n -> g = A u ->
  let gu := id_biorth k Sh M G U (g, u) in length (snd gu) = n /\ fst gu = A (snd gu).
Proof.
  intros HG Hk. unfold id_biorth.
  assert (Q : forall l, (forall i, In i l -> i < s) -> forall gu : vec * vec, length (snd gu) = n -> fst gu = A (snd gu) ->
    let gu' := fold_left (fun (gu : vec * vec) i =>
        let alpha := ip (fst gu) (Sh i) / M i i in
        (k_axpby (- alpha) (G i) s1 (fst gu), k_axpby (- alpha) (U i) s1 (snd gu))) l gu in
    length (snd gu') = n /\ fst gu' = A (snd gu')).
  { induction l as [|i tl IH]; intros Hl [g u] Lu Eg; simpl; [split; assumption|].
    simpl in Lu, Eg. destruct (HG i (Hl i (or_introl eq_refl))) as (LU & EG).
    apply IH; [intros j Hj; apply Hl; right; exact Hj | |]; cbn [fst snd].
    - apply k_axpby_len_n; assumption.
    - set (alpha := ip g (Sh i) / M i i).
      assert (Lg : length g = n) by (rewrite Eg; apply A_len; exact Lu).
      assert (LG : length (G i) = n) by (rewrite EG; apply A_len; exact LU).
      rewrite !axpby_spec by lia.
      replace (vmap2 (fun xi yi => - alpha * xi + s1 * yi) (U i) u)
        with (vmap2 (fun xi yi => xi + - alpha * yi) u (U i)) by vec_ring2.
      rewrite (A_lin (- alpha) u (U i) Lu LU). rewrite <- Eg, <- EG. vec_ring2. }
  intros g u Lu Eg. apply (Q (seq 0 k)); [intros i Hi; apply in_seq in Hi; lia | exact Lu | exact Eg].
Qed.

(* one k step: the invariant and the meaning of the reported norm are kept *)
Lemma id_kcore_inv Sh (prm : iprm) (f : vec) k (st : id_st) o : length f = n -> k < ip_s prm ->
  id_inv prm f (e_x st) (e_ws st) -> id_kcore A P Sh prm k st = Some o ->
  id_inv prm f (o_x o) (o_w o) /\ o_res o = id_res prm (o_w o).
Proof.
  intros Lf Hk I. pose proof I as (Lx & Hr & HG & Hs). unfold id_kcore. cbv zeta.
  set (s := ip_s prm) in *. set (w := e_ws st) in *.
  assert (Lr : length (d_r w) = n) by (rewrite Hr; apply (k_residual_len n A A_len); auto).
  assert (HGl : forall i, i < s -> length (d_G w i) = n).
  { intros i Hi. destruct (HG i Hi) as (LU & EG). rewrite EG. apply A_len, LU. }
  set (cv := id_solve s k (d_M w) (d_f w) (d_G w) (d_c w) (d_r w)).
  assert (Lv : length (snd cv) = n) by (apply id_solve_len; assumption).
  set (t := P (snd cv)). assert (Lt : length t = n) by (apply P_len, Lv).
  set (Uk1 := id_newU s k (e_om st) t (fst cv) (d_U w)).
  assert (LU1 : length Uk1 = n) by (apply id_newU_len; auto; intros i Hi; apply HG, Hi).
  destruct (id_biorth_inv s k Sh (d_M w) (d_G w) (d_U w) HG ltac:(lia) (A Uk1) Uk1 LU1 eq_refl) as (LUk & EGk).
  set (gu := id_biorth k Sh (d_M w) (d_G w) (d_U w) (A Uk1, Uk1)) in *.
  set (M' := id_Mcol s k Sh (fst gu) (d_M w)).
  destruct (is_zero (M' k k)); [discriminate|].
  set (beta := sinv (M' k k) * d_f w k).
  assert (LGk : length (fst gu) = n) by (rewrite EGk; apply A_len, LUk).
  intro H; inversion H; subst o; clear H. cbn [o_x o_w o_res].
  match goal with |- id_inv prm f ?x (fst (id_smooth _ _ ?w1 _)) /\ _ =>
    assert (I1 : id_inv prm f x w1); [| replace (norm_b (k_axpby (- beta) (fst gu) s1 (d_r w))) with (norm_b (d_r w1)) by reflexivity;
                                        exact (id_smooth_inv prm f x w1 Lf I1) ] end.
  unfold id_inv. cbn [d_r d_G d_U d_xs d_rs].
  rewrite !axpby_spec by lia.
  split; [rewrite vmap2_length; lia|]. split.
  - replace (vmap2 (fun xi yi => beta * xi + s1 * yi) (snd gu) (e_x st))
      with (vmap2 (fun xi yi => xi + beta * yi) (e_x st) (snd gu)) by vec_ring2.
    rewrite res_upd by assumption. rewrite <- Hr, <- EGk. vec_ring2.
  - split; [|exact Hs]. intros i Hi. destruct (Nat.eq_dec i k) as [->|Ni].
    + rewrite !upd_eq. split; assumption.
    + rewrite !upd_neq by exact Ni. apply HG, Hi.
Qed.


Definition id_sinv (prm : iprm) (f : vec) (st : id_st) : Prop :=
  id_inv prm f (e_x st) (e_ws st) /\ e_res st = id_res prm (e_ws st).

Lemma id_kstep_inv Sh (prm : iprm) (f : vec) eps k (st : id_st) : length f = n -> k < ip_s prm ->
  id_sinv prm f st ->
  match id_kstep A P Sh prm eps k st with
  | IdExc => True | IdStop st' => id_sinv prm f st' | IdCont st' => id_sinv prm f st'
  end.
Proof.
  intros Lf Hk (I & _). unfold id_kstep.
  destruct (id_kcore A P Sh prm k st) as [o|] eqn:E; [|exact Logic.I].
  destruct (id_kcore_inv Sh prm f k st o Lf Hk I E) as (I1 & I2).
  destruct (sleb (o_res o) eps); [split; assumption|].
  destruct (Nat.leb _ _); split; assumption.
Qed.

Lemma id_kloop_inv Sh (prm : iprm) (f : vec) eps ks : length f = n -> (forall k, In k ks -> k < ip_s prm) ->
  forall st : id_st, id_sinv prm f st ->
  match id_kloop A P Sh prm eps ks st with
  | IdExc => True | IdStop st' => id_sinv prm f st' | IdCont st' => id_sinv prm f st'
  end.
Proof.
  intros Lf. induction ks as [|k tl IH]; intros Hk st I; simpl; [exact I|].
  pose proof (id_kstep_inv Sh prm f eps k st Lf (Hk k (or_introl eq_refl)) I) as Q.
  destruct (id_kstep A P Sh prm eps k st) as [|st'|st']; [exact Logic.I | exact Q |].
  apply IH; [intros j Hj; apply Hk; right; exact Hj | exact Q].
Qed.

Lemma id_omstep_inv (prm : iprm) (f : vec) (st st' : id_st) : length f = n ->
  id_sinv prm f st -> id_omstep A P prm f st = Some st' -> id_sinv prm f st'.
Proof.
  intros Lf ((Lx & Hr & HG & Hs) & _). unfold id_omstep. cbv zeta.
  set (w := e_ws st) in *.
  assert (Lr : length (d_r w) = n) by (rewrite Hr; apply (k_residual_len n A A_len); auto).
  set (v := P (d_r w)). assert (Lv : length v = n) by (apply P_len, Lr).
  set (t := A v). assert (Lt : length t = n) by (apply A_len, Lv).
  set (om := id_omega (ip_omega prm) t (d_r w)).
  destruct (is_zero om); [discriminate|].
  intro H; inversion H; subst st'; clear H. unfold id_sinv. cbn [e_x e_ws e_res].
  match goal with |- id_inv prm f ?x (fst (id_smooth _ _ ?w1 _)) /\ _ =>
    assert (I1 : id_inv prm f x w1); [| exact (id_smooth_inv prm f x w1 Lf I1) ] end.
  unfold id_inv. cbn [d_r d_G d_U d_xs d_rs].
  rewrite !axpby_spec by lia.
  split; [rewrite vmap2_length; lia|]. split; [|split; [exact HG | exact Hs]].
  destruct (ip_repl prm); [reflexivity|].
  replace (vmap2 (fun xi yi => om * xi + s1 * yi) v (e_x st))
    with (vmap2 (fun xi yi => xi + om * yi) (e_x st) v) by vec_ring2.
  rewrite res_upd by assumption. rewrite <- Hr. fold t. vec_ring2.
Qed.

Lemma id_pass_inv Sh (prm : iprm) (f : vec) eps (st : id_st) : length f = n ->
  id_sinv prm f st ->
  match id_pass A P Sh prm f eps st with
  | IdExc => True | IdStop st' => id_sinv prm f st' | IdCont st' => id_sinv prm f st'
  end.
Proof.
  intros Lf I. unfold id_pass. cbv zeta.
  match goal with |- context [id_kloop A P Sh prm eps ?ks ?s1'] =>
    assert (I1 : id_sinv prm f s1') by exact I;
    pose proof (id_kloop_inv Sh prm f eps ks Lf ltac:(intros k Hk; apply in_seq in Hk; lia) s1' I1) as Q;
    destruct (id_kloop A P Sh prm eps ks s1') as [|st'|st2] end; [exact Logic.I | exact Q |].
  destruct (sleb (e_res st2) eps || Nat.leb (p_maxiter (ip_k prm)) (e_it st2)); [exact Q|].
  destruct (id_omstep A P prm f st2) as [st3|] eqn:E; [|exact Logic.I].
  exact (id_omstep_inv prm f st2 st3 Lf Q E).
Qed.

Lemma id_loop_inv Sh (prm : iprm) (f : vec) eps fuel : length f = n -> forall (st st' : id_st) oof,
  id_sinv prm f st -> id_loop A P Sh prm f eps fuel st = Some (st', oof) -> id_sinv prm f st'.
Proof.
  intro Lf. induction fuel as [|m IH]; intros st st' oof I; simpl.
  - destruct (_ && _); intro H; inversion H; subst; exact I.
  - destruct (_ && _); [|intro H; inversion H; subst; exact I].
    pose proof (id_pass_inv Sh prm f eps st Lf I) as Q.
    destruct (id_pass A P Sh prm f eps st) as [|s'|s']; [discriminate | |].
    + intro H; inversion H; subst; exact Q.
    + apply IH. exact Q.
Qed.

Lemma id_init_inv (prm : iprm) (f x0 : vec) junk : length f = n -> length x0 = n ->
  id_sized n (ip_s prm) junk ->
  id_sinv prm f (id_init prm x0 (k_residual f (A x0)) (norm_b (k_residual f (A x0))) junk).
Proof.
  intros Lf Lx Hz. unfold id_init, id_sinv, id_inv, id_res. cbv zeta. cbn [e_x e_ws e_res d_r d_G d_U d_xs d_rs].
  split; [|destruct (ip_smooth prm); reflexivity].
  split; [exact Lx|]. split; [reflexivity|]. split.
  - intros i Hi. destruct (Hz i Hi) as (LG & LU).
    destruct (fold_upd_range (fun (_ : nat) (v : vec) => k_clear v) 0 (ip_s prm) (d_G junk)) as (G1 & _).
    destruct (fold_upd_range (fun (_ : nat) (v : vec) => k_clear v) 0 (ip_s prm) (d_U junk)) as (U1 & _).
    cbv zeta in G1, U1. rewrite G1, U1 by lia. split; [rewrite k_clear_length; exact LU|].
    rewrite (lin_clear Srt n A A_len A_lin _ LU). apply k_clear_len_eq. lia.
  - intro Sm. rewrite Sm. split; [exact Lx | reflexivity].
Qed.

Theorem idrs_residual_truthful Sh (prm : iprm) (f x0 : vec) junk nr r w :
  length f = n -> length x0 = n -> id_sized n (ip_s prm) junk ->
  k_prologue norm_b (ip_k prm) f = Go nr ->
  idrs A P Sh prm f x0 junk = (KOk r, w) ->
  k_res r = true_res norm_b A P false f (k_x r) / nr.
Proof.
  intros Lf Lx Hz Hp. unfold idrs. cbv zeta. rewrite Hp.
  destruct (sleb _ _).
  - intro H; inversion H; subst; simpl. reflexivity.
  - match goal with |- context [id_loop A P Sh prm f ?e ?fu ?st] =>
      destruct (id_loop A P Sh prm f e fu st) as [[st' oof]|] eqn:E end; [|discriminate].
    apply (id_loop_inv Sh prm f _ _ Lf) in E; [|apply id_init_inv; assumption].
    destruct E as ((_ & Hr & _ & Hs) & Hres).
    intro H; inversion H; subst; simpl. rewrite Hres. unfold id_res, true_res.
    destruct (ip_smooth prm).
    + destruct (Hs eq_refl) as (_ & E). rewrite E. reflexivity.
    + rewrite Hr. reflexivity.
Qed.

End RingLaws.
