(* KrylovIdrs.v -- executable model of IDR(s) (amgcl/solver/idrs.hpp).  Definitions only;
   proofs: KrylovProofs2Idrs.v.  Conventions as in Krylov.v:
   * A v = result of backend::spmv(1, A, v, 0, out) / the product inside backend::residual,
     P v = result of Prec.apply(v, out); both overwrite their output completely;
   * every mutable member of the solver object (M, f, c, r, v, t, x_s, r_s, G[], U[]) is a field
     of the workspace record [id_ws], an INPUT of the model ([junk]);
   * the shadow space P[0..s) of the C++ object (called [Sh] here; P is the preconditioner) is
     constant object state built by the constructor from s*n draws of std::mt19937 through
     std::uniform_real_distribution(-1,1): the draws are the explicit input [raw] of
     [idrs_shadow], which models the modified Gram-Schmidt loop of the constructor;
   * the while loop is a recursion on fuel = maxiter; running out of fuel sets [k_oof]
     (proved impossible); precondition(...) failures are the result [KExc]. *)
From Amgcl Require Import Scalar Vec Kernels Krylov.
From Coq Require Import QArith_base.
Local Close Scope Q_scope.
Local Open Scope S_scope.

Section Idrs.
Context {S : Scalar}.
Local Notation vec := (vec S).
Local Notation SS := Datatypes.S.

(* idrs::params: the common block (maxiter, tol, abstol, ns_search) is read from [ip_k] *)
Record iprm := mkIPrm { ip_k : @kprm S; ip_s : nat; ip_omega : S; ip_smooth : bool; ip_repl : bool }.

(* constructor, idrs.hpp:225-232:
     for j < s { for k < j { alpha = <P[k], P[j]>; P[j] -= alpha P[k]; }  P[j] *= 1/norm(P[j]); } *)
Definition idrs_shadow (s : nat) (raw : nat -> vec) : nat -> vec :=
  fold_left (fun Sh j =>
     let pj := fold_left (fun pj k => let alpha := ip (Sh k) pj in k_axpby (- alpha) (Sh k) s1 pj)
                         (seq 0 j) (Sh j) in
     let npj := norm_b pj in
     upd Sh j (k_axpby (sinv npj) pj s0 pj)) (seq 0 s) raw.

(* idrs::omega(t, s), idrs.hpp:475-487 *)
Definition id_omega (omg : S) (t s : vec) : S :=
  let norm_t := norm_b t in
  let norm_s := norm_b s in
  let ts := ip t s in
  let rho := sabs (ts / (norm_t * norm_s)) in
  let om := ts / (norm_t * norm_t) in
  if sltb rho omg then om * (omg / rho) else om.

Record id_ws := mkIdWs { d_M : nat -> nat -> S; d_f : nat -> S; d_c : nat -> S;
                         d_r : vec; d_v : vec; d_t : vec; d_xs : vec; d_rs : vec;
                         d_G : nat -> vec; d_U : nat -> vec }.
Record id_st := mkIdSt { e_x : vec; e_ws : id_ws; e_om : S; e_res : S; e_it : nat }.
Inductive id_step := IdExc | IdStop (st : id_st) | IdCont (st : id_st).

Definition id_set_f (w : id_ws) (fv : nat -> S) : id_ws :=
  mkIdWs (d_M w) fv (d_c w) (d_r w) (d_v w) (d_t w) (d_xs w) (d_rs w) (d_G w) (d_U w).

(* residual smoothing, idrs.hpp:352-358 and 390-396 (the same five statements) *)
Definition id_smooth (smoothing : bool) (x : vec) (w : id_ws) (res : S) : id_ws * S :=
  if smoothing then
    let t := k_axpbypcz s1 (d_rs w) (- s1) (d_r w) s0 (d_t w) in
    let gamma := ip t (d_rs w) / ip t t in
    let rs := k_axpby (- gamma) t s1 (d_rs w) in
    let xs := k_axpbypcz (- gamma) (d_xs w) gamma x s1 (d_xs w) in
    (mkIdWs (d_M w) (d_f w) (d_c w) (d_r w) (d_v w) t xs rs (d_G w) (d_U w), norm_b rs)
  else (w, res).

(* ---- the pieces of one pass of for(k = 0; k < s; ++k), idrs.hpp:305-367 ---- *)
(* copy(r, v); for(i = k; i < s; ++i) { c[i] = f[i]; for(j = k; j < i; ++j) c[i] -= M(i,j) c[j];
                                        c[i] = inverse(M(i,i)) c[i]; v -= c[i] G[i]; }          *)
Definition id_solve (s k : nat) (M : nat -> nat -> S) (fv : nat -> S) (G : nat -> vec)
                    (c0 : nat -> S) (r : vec) : (nat -> S) * vec :=
  fold_left (fun (cv : (nat -> S) * vec) i =>
        let ci0 := fold_left (fun acc j => acc - M i j * fst cv j) (seq k (i - k)) (fv i) in
        let ci := sinv (M i i) * ci0 in
        (upd (fst cv) i ci, k_axpby (- ci) (G i) s1 (snd cv))) (seq k (s - k)) (c0, r).
(* U[k] = om t + c[k] U[k]; for(i = k+1; i < s; ++i) U[k] += c[i] U[i] *)
Definition id_newU (s k : nat) (om : S) (t : vec) (c : nat -> S) (U : nat -> vec) : vec :=
  fold_left (fun u i => k_axpby (c i) (U i) s1 u) (seq (SS k) (s - SS k)) (k_axpby om t (c k) (U k)).
(* for(i = 0; i < k; ++i) { alpha = <G[k], P[i]> / M(i,i); G[k] -= alpha G[i]; U[k] -= alpha U[i]; } *)
Definition id_biorth (k : nat) (Sh : nat -> vec) (M : nat -> nat -> S) (G U : nat -> vec) (gu0 : vec * vec) : vec * vec :=
  fold_left (fun (gu : vec * vec) i =>
        let alpha := ip (fst gu) (Sh i) / M i i in
        (k_axpby (- alpha) (G i) s1 (fst gu), k_axpby (- alpha) (U i) s1 (snd gu))) (seq 0 k) gu0.
(* for(i = k; i < s; ++i) M(i,k) = <G[k], P[i]> *)
Definition id_Mcol (s k : nat) (Sh : nat -> vec) (Gk : vec) (M : nat -> nat -> S) : nat -> nat -> S :=
  fold_left (fun M i => updm M i k (ip Gk (Sh i))) (seq k (s - k)) M.

(* everything up to the stopping test: new x, workspace, residual norm, beta; None = "zero M[k,k]" *)
Record id_core := mkIdCore { o_x : vec; o_w : id_ws; o_res : S; o_beta : S }.
Definition id_kcore (A P : vec -> vec) (Sh : nat -> vec) (prm : iprm) (k : nat) (st : id_st) : option id_core :=
  let s := ip_s prm in
  let w := e_ws st in
  let cv := id_solve s k (d_M w) (d_f w) (d_G w) (d_c w) (d_r w) in
  let c := fst cv in
  let v := snd cv in
  let t := P v in                                                       (* Prec.apply(v, t) *)
  let Uk1 := id_newU s k (e_om st) t c (d_U w) in
  let gu := id_biorth k Sh (d_M w) (d_G w) (d_U w) (A Uk1, Uk1) in      (* spmv(one, A, U[k], zero, G[k]) *)
  let Gk := fst gu in
  let Uk := snd gu in
  let M' := id_Mcol s k Sh Gk (d_M w) in
  if is_zero (M' k k) then None else                                    (* "zero M[k,k]" *)
  let beta := sinv (M' k k) * d_f w k in
  let r := k_axpby (- beta) Gk s1 (d_r w) in
  let x := k_axpby beta Uk s1 (e_x st) in
  let w1 := mkIdWs M' (d_f w) c r v t (d_xs w) (d_rs w) (upd (d_G w) k Gk) (upd (d_U w) k Uk) in
  let wr := id_smooth (ip_smooth prm) x w1 (norm_b r) in
  Some (mkIdCore x (fst wr) (snd wr) beta).

Definition id_kstep (A P : vec -> vec) (Sh : nat -> vec) (prm : iprm) (eps : S) (k : nat) (st : id_st) : id_step :=
  match id_kcore A P Sh prm k st with
  | None => IdExc
  | Some o =>
    (* if (res_norm <= eps || ++iter >= maxiter) break;   -- iter is NOT incremented when converged *)
    if sleb (o_res o) eps then IdStop (mkIdSt (o_x o) (o_w o) (e_om st) (o_res o) (e_it st))
    else if Nat.leb (p_maxiter (ip_k prm)) (SS (e_it st))
    then IdStop (mkIdSt (o_x o) (o_w o) (e_om st) (o_res o) (SS (e_it st)))
    else
      (* for(i = k+1; i < s; ++i) f[i] -= beta M(i,k) *)
      let w2 := o_w o in
      let f' := fold_left (fun fv i => upd fv i (fv i - o_beta o * d_M w2 i k))
                          (seq (SS k) (ip_s prm - SS k)) (d_f w2) in
      IdCont (mkIdSt (o_x o) (id_set_f w2 f') (e_om st) (o_res o) (SS (e_it st)))
  end.

Fixpoint id_kloop (A P : vec -> vec) (Sh : nat -> vec) (prm : iprm) (eps : S) (ks : list nat) (st : id_st) : id_step :=
  match ks with
  | [] => IdCont st
  | k :: tl => match id_kstep A P Sh prm eps k st with
               | IdCont st' => id_kloop A P Sh prm eps tl st'
               | r => r
               end
  end.

(* the dimension-reduction step after the k loop, idrs.hpp:374-398; None = "zero omega" *)
Definition id_omstep (A P : vec -> vec) (prm : iprm) (f : vec) (st2 : id_st) : option id_st :=
  let w := e_ws st2 in
  let v := P (d_r w) in                                                 (* Prec.apply(r, v) *)
  let t := A v in                                                       (* spmv(one, A, v, zero, t) *)
  let om := id_omega (ip_omega prm) t (d_r w) in
  if is_zero om then None else                                          (* "zero omega" *)
  let r1 := k_axpby (- om) t s1 (d_r w) in
  let x := k_axpby om v s1 (e_x st2) in
  let r := if ip_repl prm then k_residual f (A x) else r1 in
  let w1 := mkIdWs (d_M w) (d_f w) (d_c w) r v t (d_xs w) (d_rs w) (d_G w) (d_U w) in
  let wr := id_smooth (ip_smooth prm) x w1 (norm_b r) in
  Some (mkIdSt x (fst wr) om (snd wr) (SS (e_it st2))).

(* one pass of the while loop body, idrs.hpp:301-398 *)
Definition id_pass (A P : vec -> vec) (Sh : nat -> vec) (prm : iprm) (f : vec) (eps : S) (st : id_st) : id_step :=
  let s := ip_s prm in
  let w := e_ws st in
  (* for(i = 0; i < s; ++i) f[i] = <r, P[i]> *)
  let fv := fold_left (fun fv i => upd fv i (ip (d_r w) (Sh i))) (seq 0 s) (d_f w) in
  let st1 := mkIdSt (e_x st) (id_set_f w fv) (e_om st) (e_res st) (e_it st) in
  match id_kloop A P Sh prm eps (seq 0 s) st1 with
  | IdExc => IdExc
  | IdStop st' => IdStop st'
  | IdCont st2 =>
    (* if (res_norm <= eps || iter >= maxiter) break; *)
    if sleb (e_res st2) eps || Nat.leb (p_maxiter (ip_k prm)) (e_it st2) then IdStop st2 else
    match id_omstep A P prm f st2 with
    | None => IdExc
    | Some st3 => IdCont st3
    end
  end.

(* while(iter < maxiter && res_norm > eps): every pass that does not leave the loop increases
   iter, so fuel = maxiter suffices *)
Fixpoint id_loop (A P : vec -> vec) (Sh : nat -> vec) (prm : iprm) (f : vec) (eps : S)
                 (fuel : nat) (st : id_st) : option (id_st * bool) :=
  if Nat.ltb (e_it st) (p_maxiter (ip_k prm)) && sltb eps (e_res st) then
    match fuel with
    | O => Some (st, true)
    | SS k => match id_pass A P Sh prm f eps st with
              | IdExc => None
              | IdStop s => Some (s, false)
              | IdCont s => id_loop A P Sh prm f eps k s
              end
    end
  else Some (st, false).

(* the state at the head of the while loop, idrs.hpp:282-299 *)
Definition id_init (prm : iprm) (x0 r : vec) (res : S) (junk : id_ws) : id_st :=
  let s := ip_s prm in
  let xs := if ip_smooth prm then x0 else d_xs junk in                  (* backend::copy(x, x_s) *)
  let rs := if ip_smooth prm then r else d_rs junk in                   (* backend::copy(r, r_s) *)
  let G := fold_left (fun G i => upd G i (k_clear (G i))) (seq 0 s) (d_G junk) in
  let U := fold_left (fun U i => upd U i (k_clear (U i))) (seq 0 s) (d_U junk) in
  (* M(i, j) = (i == j) *)
  let M := fold_left (fun M i => fold_left (fun M j => updm M i j (sofQ (if Nat.eqb i j then 1 # 1 else 0 # 1)%Q))
                                           (seq 0 s) M) (seq 0 s) (d_M junk) in
  mkIdSt x0 (mkIdWs M (d_f junk) (d_c junk) r (d_v junk) (d_t junk) xs rs G U) s1 res 0.

Definition idrs (A P : vec -> vec) (Sh : nat -> vec) (prm : iprm) (f x0 : vec) (junk : id_ws) : kout * id_ws :=
  let kp := ip_k prm in
  match k_prologue norm_b kp f with
  | Trivial nr => (k_trivial nr x0, junk)
  | Go nr =>
    let eps := smax (p_tol kp * nr) (p_abstol kp) in
    let r := k_residual f (A x0) in
    let res := norm_b r in
    if sleb res eps then                                                (* initial guess is good enough *)
      (KOk (mkRes 0 (res / nr) x0 false),
       mkIdWs (d_M junk) (d_f junk) (d_c junk) r (d_v junk) (d_t junk) (d_xs junk) (d_rs junk) (d_G junk) (d_U junk))
    else
    match id_loop A P Sh prm f eps (p_maxiter kp) (id_init prm x0 r res junk) with
    | None => (KExc, junk)
    | Some (st, oof) =>
      let x := if ip_smooth prm then d_xs (e_ws st) else e_x st in      (* backend::copy(x_s, x) *)
      (KOk (mkRes (e_it st) (e_res st / nr) x oof), e_ws st)
    end
  end.

End Idrs.
