(* Scalar.v -- the value-type interface of amgcl (amgcl/value_type/interface.hpp)
   as a record of operations.  Every algorithm of the model is a Gallina function
   over an arbitrary [Scalar]; laws are never part of the record: theorems that
   need algebra take a [ring_theory]/[field_theory] *hypothesis* inside a Section
   (closed at Qc in QcInst.v), theorems that need none hold for every record
   (hence also for IEEE floats with NaN). *)
From Coq Require Export List Arith ZArith Lia Bool Ring Field.
From Coq Require Import QArith_base.
Export ListNotations.
Local Close Scope Q_scope.

Record Scalar := mkScalar {
  T     :> Type;
  s0    : T;                      (* math::zero      *)
  s1    : T;                      (* math::identity  *)
  sadd  : T -> T -> T;
  smul  : T -> T -> T;
  ssub  : T -> T -> T;
  sopp  : T -> T;
  sdiv  : T -> T -> T;
  sinv  : T -> T;                 (* math::inverse = identity / x *)
  sadj  : T -> T;                 (* math::adjoint (conjugate)    *)
  sabs  : T -> T;                 (* math::norm for scalars       *)
  ssqrt : T -> T;                 (* sqrt (pseudo-root in the exact instance) *)
  seqb  : T -> T -> bool;         (* operator==                   *)
  sltb  : T -> T -> bool;         (* operator<                    *)
  seps  : T;                      (* numeric_limits::epsilon      *)
  sofQ  : Q -> T                  (* static_cast<value_type>(double parameter) *)
}.

Arguments s0 {_}. Arguments s1 {_}.
Arguments sadd {_}. Arguments smul {_}. Arguments ssub {_}. Arguments sopp {_}.
Arguments sdiv {_}. Arguments sinv {_}. Arguments sadj {_}. Arguments sabs {_}.
Arguments ssqrt {_}. Arguments seqb {_}. Arguments sltb {_}. Arguments seps {_}.
Arguments sofQ {_}.

Declare Scope S_scope.
Delimit Scope S_scope with S.
Infix "+" := sadd : S_scope.
Infix "*" := smul : S_scope.
Infix "-" := ssub : S_scope.
Infix "/" := sdiv : S_scope.
Notation "- x" := (sopp x) : S_scope.

Definition is_zero {S : Scalar} (x : S) : bool := seqb x s0.
Definition sleb {S : Scalar} (x y : S) : bool := negb (sltb y x).
Definition smax {S : Scalar} (x y : S) : S := if sltb x y then y else x.  (* std::max(x,y) *)
Definition smin {S : Scalar} (x y : S) : S := if sltb y x then y else x.  (* std::min(x,y) *)

(* Laws, as predicates used for Section hypotheses. *)
Definition seqb_spec (S : Scalar) := forall x y : S, seqb x y = true <-> x = y.
Notation Sring S :=
  (ring_theory (@s0 S) (@s1 S) (@sadd S) (@smul S) (@ssub S) (@sopp S) (@eq (T S))).
Notation Sfield S :=
  (field_theory (@s0 S) (@s1 S) (@sadd S) (@smul S) (@ssub S) (@sopp S) (@sdiv S) (@sinv S) (@eq (T S))).
