(* Extract_amgc.v -- extraction for the amgc group (C02, block value types: Amg.cycle / Amg.apply run at
   BlockInst.BlockS QcS b with the five smoothers and the block coarse solve of AmgBlockCycle.v).
   Same directives as Extract_kernels.v. *)
From Amgcl Require Import ExtractCommon.
From Coq Require Import QArith Qcanon.
From Amgcl Require Import Scalar QcInst Vec Crs Kernels MatOps Relax DenseSolve Amg AmgExec Ilu Cheby
  DirectUtil Inverse StaticMat BlockInst BlockKernels AmgBlockCycle.
Separate Extraction
  QcInst.QcS Scalar.is_zero Scalar.smax Scalar.smin
  Vec Crs Kernels MatOps Relax DenseSolve Amg AmgExec Ilu Cheby StaticMat BlockInst BlockKernels AmgBlockCycle.
