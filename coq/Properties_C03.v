(* Properties_C03.v -- every coarse level is the (re-scaled) Galerkin product; rebuild keeps it so.
   Statements only; proofs in AmgProofs.v.  Model: Amg.v (build = do_init/step_down,
   rebuild_levels = level::rebuild, amgcl/amg.hpp:358-512). *)
From Coq Require Import QArith Qcanon.
From Amgcl Require Import Scalar QcInst Vec Crs Kernels MatOps Amg AmgExec AmgProofs AmgExampleData.
Local Close Scope Qc_scope.
Local Close Scope Q_scope.
Local Open Scope S_scope.

(* T1: the hierarchy produced by do_init is a Galerkin chain: every element but the last is
   a level with transfer operators (LMid A P R) and its successor's matrix is
   sort_rows (coarse_operator A P R); the last element is not an LMid; the first matrix is
   the (row-sorted) input. *)
Theorem C03_build_chain {S : Scalar} ce dc ml (cop : crs S -> crs S -> crs S -> crs S) ts M :
  chain cop (amg_init ce dc ml cop ts M) /\ head_A (amg_init ce dc ml cop ts M) (sort_rows M).
Proof. exact (amg_init_chain ce dc ml cop ts M). Qed.
Print Assumptions C03_build_chain.

Theorem C03_build_chain_any_level {S : Scalar} ce dc ml (cop : crs S -> crs S -> crs S -> crs S) ts A nlev :
  chain cop (build ce dc ml cop ts A nlev).
Proof. exact (build_chain ce dc ml cop ts A nlev). Qed.
Print Assumptions C03_build_chain_any_level.

(* the chain predicate read element-wise *)
Theorem C03_chain_adjacent {S : Scalar} (cop : crs S -> crs S -> crs S -> crs S) ls :
  chain cop ls -> forall i A P R next,
  nth_error ls i = Some (LMid A P R) -> nth_error ls (Datatypes.S i) = Some next ->
  ld_A next = sort_rows (cop A P R).
Proof. exact (chain_adjacent cop ls). Qed.
Print Assumptions C03_chain_adjacent.

Theorem C03_chain_mid_iff_not_last {S : Scalar} (cop : crs S -> crs S -> crs S -> crs S) ls :
  chain cop ls -> forall i l,
  nth_error ls i = Some l -> (is_mid l = true <-> Datatypes.S i < length ls).
Proof. exact (chain_mid_iff_not_last cop ls). Qed.
Print Assumptions C03_chain_mid_iff_not_last.

(* T2: rebuild keeps the transfer operators and re-establishes the chain on the new matrix *)
Theorem C03_rebuild_keeps_transfers_and_chain {S : Scalar} (cop : crs S -> crs S -> crs S -> crs S) ls M' :
  chain cop ls ->
  chain cop (amg_rebuild cop ls M') /\ head_A (amg_rebuild cop ls M') (sort_rows M') /\
  transfers_of (amg_rebuild cop ls M') = transfers_of ls.
Proof. exact (amg_rebuild_chain cop ls M'). Qed.
Print Assumptions C03_rebuild_keeps_transfers_and_chain.

(* T3: rebuild = fresh hierarchy assembled from the new matrix with the same transfer operators *)
Theorem C03_rebuild_is_fresh_build {S : Scalar} ce dc ml (cop : crs S -> crs S -> crs S -> crs S) :
  coarse_shape cop -> forall ts M M', nrows M' = nrows M ->
  amg_rebuild cop (amg_init ce dc ml cop ts M) M' = amg_init ce dc ml cop ts M'.
Proof. exact (amg_rebuild_init ce dc ml cop). Qed.
Print Assumptions C03_rebuild_is_fresh_build.

(* ... also when the fresh build is given the (already row-sorted) operators stored in the hierarchy *)
Theorem C03_rebuild_is_fresh_build_from_stored {S : Scalar} ce dc ml (cop : crs S -> crs S -> crs S -> crs S) :
  coarse_shape cop -> forall ts M M', nrows M' = nrows M ->
  amg_rebuild cop (amg_init ce dc ml cop ts M) M' =
  amg_init ce dc ml cop (transfers_of (amg_init ce dc ml cop ts M)) M'.
Proof. exact (amg_rebuild_stored ce dc ml cop). Qed.
Print Assumptions C03_rebuild_is_fresh_build_from_stored.

Theorem C03_rebuild_restores_original {S : Scalar} ce dc ml (cop : crs S -> crs S -> crs S -> crs S) :
  coarse_shape cop -> forall ts M M', nrows M' = nrows M ->
  amg_rebuild cop (amg_rebuild cop (amg_init ce dc ml cop ts M) M') M = amg_init ce dc ml cop ts M.
Proof. exact (amg_rebuild_restore ce dc ml cop). Qed.
Print Assumptions C03_rebuild_restores_original.

(* all finite rebuild histories: only the last matrix counts *)
Theorem C03_rebuild_history {S : Scalar} ce dc ml (cop : crs S -> crs S -> crs S -> crs S) :
  coarse_shape cop -> forall ts M (Ms : list (crs S)) M',
  Forall (fun X => nrows X = nrows M) Ms -> nrows M' = nrows M ->
  amg_rebuild cop (fold_left (amg_rebuild cop) Ms (amg_init ce dc ml cop ts M)) M' =
  amg_init ce dc ml cop ts M'.
Proof. exact (amg_rebuild_history ce dc ml cop). Qed.
Print Assumptions C03_rebuild_history.

(* the shape hypothesis holds for both coarse operators of the library *)
Theorem C03_galerkin_shape {S : Scalar} : coarse_shape (@galerkin S).
Proof. exact galerkin_shape. Qed.
Print Assumptions C03_galerkin_shape.
Theorem C03_scaled_galerkin_shape {S : Scalar} (s : S) : coarse_shape (scaled_galerkin s).
Proof. exact (scaled_galerkin_shape s). Qed.
Print Assumptions C03_scaled_galerkin_shape.

Theorem C03_sort_rows_idempotent {S : Scalar} (A : crs S) : sort_rows (sort_rows A) = sort_rows A.
Proof. exact (sort_rows_idem A). Qed.
Print Assumptions C03_sort_rows_idempotent.

(* T4: last-level rule, number of levels, level sizes *)
Theorem C03_last_level_rule {S : Scalar} ce dc ml (cop : crs S -> crs S -> crs S -> crs S) ts A nlev d :
  match last (build ce dc ml cop ts A nlev) d with
  | LSolve A' => nrows A' <= ce /\ dc = true
  | LLast A' => nrows A' <= ce -> dc = false
  | LMid _ _ _ => False
  end.
Proof. exact (build_last_rule ce dc ml cop ts A nlev d). Qed.
Print Assumptions C03_last_level_rule.

Theorem C03_direct_solver_iff {S : Scalar} ce dc ml (cop : crs S -> crs S -> crs S -> crs S) ts A nlev d :
  (exists A', last (build ce dc ml cop ts A nlev) d = LSolve A') <->
  (nrows (ld_A (last (build ce dc ml cop ts A nlev) d)) <= ce /\ dc = true).
Proof. exact (build_last_solve_iff ce dc ml cop ts A nlev d). Qed.
Print Assumptions C03_direct_solver_iff.

Theorem C03_number_of_levels {S : Scalar} ce dc ml (cop : crs S -> crs S -> crs S -> crs S) ts A nlev :
  length (build ce dc ml cop ts A nlev) + nlev <= Nat.max ml (nlev + 1).
Proof. exact (build_length ce dc ml cop ts A nlev). Qed.
Print Assumptions C03_number_of_levels.

Theorem C03_level_sizes {S : Scalar} (cop : crs S -> crs S -> crs S -> crs S) ls :
  coarse_shape cop -> chain cop ls -> forall i A P R next,
  nth_error ls i = Some (LMid A P R) -> nth_error ls (Datatypes.S i) = Some next ->
  nrows (ld_A next) = nrows R.
Proof. exact (chain_sizes cop ls). Qed.
Print Assumptions C03_level_sizes.

(* T5: dense form (commutative ring): A_{l+1} = R A P, resp. (R A P) s; duplicates and any
   storage order allowed *)
Theorem C03_galerkin_dense {S : Scalar} (Srt : Sring S) (A P R : crs S) i j :
  wf A = true -> wf R = true ->
  mget (galerkin A P R) i j =
  sumn (fun k => mget R i k * sumn (fun l => mget A k l * mget P l j) (ncols A)) (ncols R).
Proof. exact (galerkin_dense Srt A P R i j). Qed.
Print Assumptions C03_galerkin_dense.

Theorem C03_scaled_galerkin_dense {S : Scalar} (Srt : Sring S) s (A P R : crs S) i j :
  wf A = true -> wf R = true ->
  mget (scaled_galerkin s A P R) i j =
  sumn (fun k => mget R i k * sumn (fun l => mget A k l * mget P l j) (ncols A)) (ncols R) * s.
Proof. exact (scaled_galerkin_dense Srt s A P R i j). Qed.
Print Assumptions C03_scaled_galerkin_dense.

Theorem C03_chain_levels_dense {S : Scalar} (Srt : Sring S) (ls : list (@ldesc S)) :
  chain (@galerkin S) ls -> forall n A P R next i j,
  nth_error ls n = Some (LMid A P R) -> nth_error ls (Datatypes.S n) = Some next ->
  wf A = true -> wf R = true ->
  mget (ld_A next) i j =
  sumn (fun k => mget R i k * sumn (fun l => mget A k l * mget P l j) (ncols A)) (ncols R).
Proof. exact (chain_galerkin_dense Srt ls). Qed.
Print Assumptions C03_chain_levels_dense.

Theorem C03_chain_levels_dense_scaled {S : Scalar} (Srt : Sring S) s (ls : list (@ldesc S)) :
  chain (scaled_galerkin s) ls -> forall n A P R next i j,
  nth_error ls n = Some (LMid A P R) -> nth_error ls (Datatypes.S n) = Some next ->
  wf A = true -> wf R = true ->
  mget (ld_A next) i j =
  sumn (fun k => mget R i k * sumn (fun l => mget A k l * mget P l j) (ncols A)) (ncols R) * s.
Proof. exact (chain_scaled_galerkin_dense Srt s ls). Qed.
Print Assumptions C03_chain_levels_dense_scaled.

(* closed instances at the exact rationals *)
Theorem C03_galerkin_dense_Qc (A P R : crs QcS) i j : wf A = true -> wf R = true ->
  mget (galerkin A P R) i j =
  sumn (fun k => mget R i k * sumn (fun l => mget A k l * mget P l j) (ncols A)) (ncols R).
Proof. exact (galerkin_dense QcS_ring A P R i j). Qed.
Print Assumptions C03_galerkin_dense_Qc.

Theorem C03_rebuild_is_fresh_build_Qc ce dc ml (sc : option (T QcS)) ts (M M' : crs QcS) :
  nrows M' = nrows M ->
  amg_rebuild (coarse_op_of sc) (amg_init ce dc ml (coarse_op_of sc) ts M) M' =
  amg_init ce dc ml (coarse_op_of sc) ts M'.
Proof.
  exact (amg_rebuild_init ce dc ml (coarse_op_of sc)
           (match sc as o return coarse_shape (coarse_op_of o) with
            | Some s => scaled_galerkin_shape s | None => galerkin_shape end) ts M M').
Qed.
Print Assumptions C03_rebuild_is_fresh_build_Qc.

(* non-vacuity: a concrete 3-level hierarchy over Qc (1D Laplacian, n = 4, pairwise aggregation) *)
Example C03_example_three_levels :
  map is_mid exH = [true; true; false] /\
  map (fun l => nrows (ld_A l)) exH = [4; 2; 1]%nat /\
  ldesc_eqb (last exH (LLast exM)) (LSolve (mkCrs 1 [[(0%nat, exq 2)]])) = true.
Proof. vm_compute. auto. Qed.

Example C03_example_rebuild :
  let M' := mscale exM (exq 3) in
  hier_eqb (amg_rebuild (@galerkin QcS) exH M') (amg_init 1 true 10 (@galerkin QcS) exTs M') = true /\
  hier_eqb (amg_rebuild (@galerkin QcS) (amg_rebuild (@galerkin QcS) exH M') exM) exH = true /\
  hier_eqb (amg_rebuild (@galerkin QcS) exH M') exH = false.
Proof. vm_compute. auto. Qed.

(* ------------------------------------------------------------------ *)
(* Block value types and coarsening wrappers (tie: tools/props/amg_block.py).  The implementation's
   hierarchy is dumped expanded to scalar CRS and the statement of this property is evaluated on the
   dump by the extracted oracles of AmgBlock.v.  T6: the oracles DECIDE the statement (any Scalar
   with decidable equality); T7: the model's own coarse operators pass them (commutative ring). *)
From Amgcl Require Import AmgBlock AmgBlockProofs.

Theorem C03_galerkin_oracle_decides {S : Scalar} (Seqb : seqb_spec S) sc (A P R An : crs S) :
  galerkin_spec_ok sc A P R An = true <->
  nrows An = nrows R /\ ncols An = ncols P /\
  forall i j, i < nrows R -> j < ncols P ->
    mget An i j = scaled_entry sc (triple_entry A P R i j).
Proof. exact (galerkin_spec_ok_iff Seqb sc A P R An). Qed.
Print Assumptions C03_galerkin_oracle_decides.

Theorem C03_adjoint_oracle_decides {S : Scalar} (Seqb : seqb_spec S) (P R : crs S) :
  adjoint_spec_ok P R = true <->
  nrows R = ncols P /\ ncols R = nrows P /\
  forall i j, i < nrows P -> j < ncols P -> mget R j i = sadj (mget P i j).
Proof. exact (adjoint_spec_ok_iff Seqb P R). Qed.
Print Assumptions C03_adjoint_oracle_decides.

(* an accepted dump: every level but the last has transfer operators of fitting shapes, stored
   sorted without duplicates, more than coarse_enough rows, R = adjoint P (when promised), and the
   next matrix is (R (A P)) [* s] entry by entry (or, for the hidden direct-solver level, has at
   most coarse_enough rows) *)
Theorem C03_dump_oracle_adjacent {S : Scalar} (Seqb : seqb_spec S) ce dc adj sc (ds : list (@dlevel S)) :
  dump_ok ce dc adj sc ds = true ->
  forall n d next, nth_error ds n = Some d -> nth_error ds (Datatypes.S n) = Some next ->
  exists A P R, d = DMid A P R /\
    stored_ok A = true /\ stored_ok P = true /\ stored_ok R = true /\
    ncols A = nrows A /\ nrows P = nrows A /\ ncols R = nrows A /\ nrows R = ncols P /\
    ce < nrows A /\
    (adj = true -> forall i j, i < nrows P -> j < ncols P -> mget R j i = sadj (mget P i j)) /\
    match dl_A next with
    | Some An => nrows An = nrows R /\ ncols An = ncols P /\
                 forall i j, i < nrows R -> j < ncols P ->
                   mget An i j = scaled_entry sc (triple_entry A P R i j)
    | None => ncols P <= ce
    end.
Proof. exact (dump_ok_adjacent Seqb ce dc adj sc ds). Qed.
Print Assumptions C03_dump_oracle_adjacent.

Theorem C03_dump_oracle_last {S : Scalar} ce dc adj sc (ds : list (@dlevel S)) :
  dump_ok ce dc adj sc ds = true ->
  match last ds (DSolve None) with
  | DMid _ _ _ => False
  | DLast A => nrows A <= ce -> dc = false
  | DSolve o => dc = true /\ match o with Some A => nrows A <= ce | None => True end
  end.
Proof. exact (dump_ok_last ce dc adj sc ds). Qed.
Print Assumptions C03_dump_oracle_last.

Theorem C03_decrease_oracle_decides {S : Scalar} (ds : list (@dlevel S)) :
  decrease_ok ds = true <-> forall A P R, In (DMid A P R) ds -> ncols P < nrows A.
Proof. exact (decrease_ok_iff ds). Qed.
Print Assumptions C03_decrease_oracle_decides.

Theorem C03_galerkin_oracle_accepts_model {S : Scalar} (Srt : Sring S) (Seqb : seqb_spec S) sc (A P R : crs S) :
  wf A = true -> wf R = true ->
  galerkin_spec_ok sc A P R (sort_rows (coarse_op_of sc A P R)) = true.
Proof. exact (galerkin_spec_ok_model Srt Seqb sc A P R). Qed.
Print Assumptions C03_galerkin_oracle_accepts_model.

Theorem C03_chain_passes_galerkin_oracle {S : Scalar} (Srt : Sring S) (Seqb : seqb_spec S) sc (ls : list (@ldesc S)) :
  chain (coarse_op_of sc) ls ->
  forall n A P R next, nth_error ls n = Some (LMid A P R) -> nth_error ls (Datatypes.S n) = Some next ->
  wf A = true -> wf R = true ->
  galerkin_spec_ok sc A P R (ld_A next) = true.
Proof. exact (chain_galerkin_spec_ok Srt Seqb sc ls). Qed.
Print Assumptions C03_chain_passes_galerkin_oracle.

Theorem C03_transpose_passes_adjoint_oracle {S : Scalar} (Srt : Sring S) (Seqb : seqb_spec S) (P : crs S) :
  (forall a b : S, sadj (a + b) = sadj a + sadj b) -> sadj (@s0 S) = s0 ->
  adjoint_spec_ok P (transpose P) = true.
Proof. exact (adjoint_spec_ok_transpose Srt Seqb P). Qed.
Print Assumptions C03_transpose_passes_adjoint_oracle.

Theorem C03_galerkin_oracle_accepts_model_Qc sc (A P R : crs QcS) : wf A = true -> wf R = true ->
  galerkin_spec_ok sc A P R (sort_rows (coarse_op_of sc A P R)) = true.
Proof. exact (galerkin_spec_ok_model QcS_ring QcS_eqb sc A P R). Qed.
Print Assumptions C03_galerkin_oracle_accepts_model_Qc.

(* non-vacuity: the oracle accepts the dump of the concrete hierarchy exH and rejects it as soon
   as the scaling is wrong *)
Example C03_example_dump_oracle :
  dump_ok 1 true true None (show_hier exH) = true /\
  decrease_ok (show_hier exH) = true /\
  dump_ok 1 true true (Some (exq 2)) (show_hier exH) = false.
Proof. vm_compute. auto. Qed.

(* ------------------------------------------------------------------ *)
(* Hierarchies built ENTIRELY inside the model (AmgFull.v): the transfer operators of every level
   are computed by the coarsening model Coarsen.coarsen_step (aggregation, smoothed aggregation,
   energy-minimising smoothed aggregation, Ruge-Stuben), nothing is supplied.  T8: such a hierarchy
   IS a [build] hierarchy for the transfer operators the coarsening chooses, so T1-T5 hold for it
   with no reference to implementation-supplied P/R.  [prep] = what a coarsening wrapper does to the
   base operators ([Some] for a class used directly, [as_scalar_prep b] for coarsening::as_scalar
   on b x b block values in the expanded view).  Tie: op amgfull (ocaml/amgb) against the
   dumps of harness/amg_driver.hpp, exactly (tools/props/C03.py run_full). *)
From Amgcl Require Import MatOps2 Aggregates Coarsen AmgFull AmgFullProofs.

Theorem C03_full_is_build {S : Scalar} ce dc nt (cop : crs S -> crs S -> crs S -> crs S) junk junkf prep k pol A lev ls :
  build_full ce dc nt cop junk junkf prep k pol A lev = FullOk ls ->
  ls = build ce dc (lev + Datatypes.S k) cop (full_transfers ce nt cop junk junkf prep k pol A lev) A lev.
Proof. exact (build_full_is_build ce dc nt cop junk junkf prep k pol A lev ls). Qed.
Print Assumptions C03_full_is_build.

(* "the transfer operators chosen on that level": every level carries the (row-sorted) output of
   the coarsening model for that level's matrix and policy state *)
Theorem C03_full_transfers_from_coarsening {S : Scalar} ce dc nt (cop : crs S -> crs S -> crs S -> crs S) junk junkf prep k pol A lev ls :
  build_full ce dc nt cop junk junkf prep k pol A lev = FullOk ls -> full_chain nt junk junkf prep pol lev ls.
Proof. exact (build_full_chain ce dc nt cop junk junkf prep k pol A lev ls). Qed.
Print Assumptions C03_full_transfers_from_coarsening.

Theorem C03_full_galerkin_chain {S : Scalar} ce dc nt (cop : crs S -> crs S -> crs S -> crs S) junk junkf prep k pol A lev ls :
  build_full ce dc nt cop junk junkf prep k pol A lev = FullOk ls -> chain cop ls /\ head_A ls A.
Proof. exact (build_full_galerkin_chain ce dc nt cop junk junkf prep k pol A lev ls). Qed.
Print Assumptions C03_full_galerkin_chain.

Theorem C03_full_last_level_rule {S : Scalar} ce dc nt (cop : crs S -> crs S -> crs S -> crs S) junk junkf prep k pol A lev ls d :
  build_full ce dc nt cop junk junkf prep k pol A lev = FullOk ls ->
  match last ls d with
  | LSolve A' => nrows A' <= ce /\ dc = true
  | LLast A' => nrows A' <= ce -> dc = false
  | LMid _ _ _ => False
  end.
Proof. exact (build_full_last_rule ce dc nt cop junk junkf prep k pol A lev ls d). Qed.
Print Assumptions C03_full_last_level_rule.

Theorem C03_full_number_of_levels {S : Scalar} ce dc nt (cop : crs S -> crs S -> crs S -> crs S) junk junkf prep k pol A lev ls :
  build_full ce dc nt cop junk junkf prep k pol A lev = FullOk ls -> length ls <= Datatypes.S k.
Proof. exact (build_full_length ce dc nt cop junk junkf prep k pol A lev ls). Qed.
Print Assumptions C03_full_number_of_levels.

(* the constructor amg(M, prm) with the coarsening policy pol *)
Theorem C03_full_init_is_init {S : Scalar} ce dc ml nt junk junkf prep (pol : @policy S) M ls :
  amg_init_full ce dc ml nt junk junkf prep pol M = FullOk ls ->
  ls = amg_init ce dc (eff_levels ml) (policy_cop pol) (init_transfers ce ml nt junk junkf prep pol M) M.
Proof. exact (amg_init_full_is_amg_init ce dc ml nt junk junkf prep pol M ls). Qed.
Print Assumptions C03_full_init_is_init.

Theorem C03_full_init_chain {S : Scalar} ce dc ml nt junk junkf prep (pol : @policy S) M ls :
  amg_init_full ce dc ml nt junk junkf prep pol M = FullOk ls ->
  chain (policy_cop pol) ls /\ head_A ls (sort_rows M) /\ full_chain nt junk junkf prep pol 0 ls.
Proof. exact (amg_init_full_chain ce dc ml nt junk junkf prep pol M ls). Qed.
Print Assumptions C03_full_init_chain.

Theorem C03_full_init_levels {S : Scalar} ce dc ml nt junk junkf prep (pol : @policy S) M ls :
  amg_init_full ce dc ml nt junk junkf prep pol M = FullOk ls -> length ls <= Nat.max ml 1.
Proof. exact (amg_init_full_levels ce dc ml nt junk junkf prep pol M ls). Qed.
Print Assumptions C03_full_init_levels.

Theorem C03_full_init_last_level_rule {S : Scalar} ce dc ml nt junk junkf prep (pol : @policy S) M ls d :
  amg_init_full ce dc ml nt junk junkf prep pol M = FullOk ls ->
  match last ls d with
  | LSolve A' => nrows A' <= ce /\ dc = true
  | LLast A' => nrows A' <= ce -> dc = false
  | LMid _ _ _ => False
  end.
Proof. exact (amg_init_full_last_rule ce dc ml nt junk junkf prep pol M ls d). Qed.
Print Assumptions C03_full_init_last_level_rule.

(* rebuild *)
Theorem C03_full_rebuild_keeps_transfers_and_chain {S : Scalar} ce dc nt (cop : crs S -> crs S -> crs S -> crs S) junk junkf prep k pol A ls M' :
  build_full ce dc nt cop junk junkf prep k pol A 0 = FullOk ls ->
  chain cop (amg_rebuild cop ls M') /\ head_A (amg_rebuild cop ls M') (sort_rows M') /\
  transfers_of (amg_rebuild cop ls M') = transfers_of ls.
Proof. exact (build_full_rebuild_chain ce dc nt cop junk junkf prep k pol A ls M'). Qed.
Print Assumptions C03_full_rebuild_keeps_transfers_and_chain.

Theorem C03_full_rebuild_is_fresh_build {S : Scalar} ce dc ml nt junk junkf prep (pol : @policy S) M M' ls :
  amg_init_full ce dc ml nt junk junkf prep pol M = FullOk ls -> nrows M' = nrows M ->
  amg_rebuild (policy_cop pol) ls M' =
  amg_init ce dc (eff_levels ml) (policy_cop pol) (init_transfers ce ml nt junk junkf prep pol M) M'.
Proof. exact (amg_init_full_rebuild_fresh ce dc ml nt junk junkf prep pol M M' ls). Qed.
Print Assumptions C03_full_rebuild_is_fresh_build.

Theorem C03_full_rebuild_is_fresh_build_from_stored {S : Scalar} ce dc ml nt junk junkf prep (pol : @policy S) M M' ls :
  amg_init_full ce dc ml nt junk junkf prep pol M = FullOk ls -> nrows M' = nrows M ->
  amg_rebuild (policy_cop pol) ls M' = amg_init ce dc (eff_levels ml) (policy_cop pol) (transfers_of ls) M'.
Proof. exact (amg_init_full_rebuild_stored ce dc ml nt junk junkf prep pol M M' ls). Qed.
Print Assumptions C03_full_rebuild_is_fresh_build_from_stored.

Theorem C03_full_rebuild_restores_original {S : Scalar} ce dc ml nt junk junkf prep (pol : @policy S) M M' ls :
  amg_init_full ce dc ml nt junk junkf prep pol M = FullOk ls -> nrows M' = nrows M ->
  amg_rebuild (policy_cop pol) (amg_rebuild (policy_cop pol) ls M') M = ls.
Proof. exact (amg_init_full_rebuild_restore ce dc ml nt junk junkf prep pol M M' ls). Qed.
Print Assumptions C03_full_rebuild_restores_original.

Theorem C03_full_rebuild_history {S : Scalar} ce dc ml nt junk junkf prep (pol : @policy S) M (Ms : list (crs S)) M' ls :
  amg_init_full ce dc ml nt junk junkf prep pol M = FullOk ls ->
  Forall (fun X => nrows X = nrows M) Ms -> nrows M' = nrows M ->
  amg_rebuild (policy_cop pol) (fold_left (amg_rebuild (policy_cop pol)) Ms ls) M' =
  amg_init ce dc (eff_levels ml) (policy_cop pol) (init_transfers ce ml nt junk junkf prep pol M) M'.
Proof. exact (amg_init_full_rebuild_history ce dc ml nt junk junkf prep pol M Ms M' ls). Qed.
Print Assumptions C03_full_rebuild_history.

(* R = adjoint P for aggregation / smoothed aggregation / Ruge-Stuben: by construction.  Through a
   wrapper: P and R are the wrapped, row-sorted images of some P0 and of transpose P0 *)
Theorem C03_full_restriction_is_transpose_wrapped {S : Scalar} nt junk junkf prep (ls : list (@ldesc S)) (pol : @policy S) lev :
  policy_adjoint pol = true -> full_chain nt junk junkf prep pol lev ls ->
  forall n A P R, nth_error ls n = Some (LMid A P R) ->
  exists P0 Pc Rc, prep P0 = Some Pc /\ prep (transpose P0) = Some Rc /\ P = sort_rows Pc /\ R = sort_rows Rc.
Proof. exact (full_chain_adjoint nt junk junkf prep ls pol lev). Qed.
Print Assumptions C03_full_restriction_is_transpose_wrapped.

Theorem C03_full_restriction_is_transpose {S : Scalar} nt junk junkf (ls : list (@ldesc S)) (pol : @policy S) lev :
  policy_adjoint pol = true -> full_chain nt junk junkf (@Some (crs S)) pol lev ls ->
  forall n A P R, nth_error ls n = Some (LMid A P R) ->
  exists P0, P = sort_rows P0 /\ R = sort_rows (transpose P0).
Proof. exact (full_chain_adjoint_direct nt junk junkf ls pol lev). Qed.
Print Assumptions C03_full_restriction_is_transpose.

(* dense Galerkin product at every level (commutative ring) *)
Theorem C03_full_levels_dense {S : Scalar} (Srt : Sring S) ce dc ml nt junk junkf prep (pol : @policy S) (M : crs S) ls :
  amg_init_full ce dc ml nt junk junkf prep pol M = FullOk ls ->
  forall n A P R next i j,
  nth_error ls n = Some (LMid A P R) -> nth_error ls (Datatypes.S n) = Some next ->
  wf A = true -> wf R = true ->
  mget (ld_A next) i j =
  match policy_scale pol with
  | Some s => sumn (fun k => mget R i k * sumn (fun l => mget A k l * mget P l j) (ncols A)) (ncols R) * s
  | None => sumn (fun k => mget R i k * sumn (fun l => mget A k l * mget P l j) (ncols A)) (ncols R)
  end.
Proof. exact (amg_init_full_dense Srt ce dc ml nt junk junkf prep pol M ls). Qed.
Print Assumptions C03_full_levels_dense.

Theorem C03_full_levels_dense_Qc ce dc ml nt junk junkf prep (pol : @policy QcS) (M : crs QcS) ls :
  amg_init_full ce dc ml nt junk junkf prep pol M = FullOk ls ->
  forall n A P R next i j,
  nth_error ls n = Some (LMid A P R) -> nth_error ls (Datatypes.S n) = Some next ->
  wf A = true -> wf R = true ->
  mget (ld_A next) i j =
  match policy_scale pol with
  | Some s => sumn (fun k => mget R i k * sumn (fun l => mget A k l * mget P l j) (ncols A)) (ncols R) * s
  | None => sumn (fun k => mget R i k * sumn (fun l => mget A k l * mget P l j) (ncols A)) (ncols R)
  end.
Proof. exact (amg_init_full_dense QcS_ring ce dc ml nt junk junkf prep pol M ls). Qed.
Print Assumptions C03_full_levels_dense_Qc.

(* non-vacuity: the 1D Laplacian exM coarsened inside the model by plain aggregation
   (over_interp = 2), smoothed aggregation and Ruge-Stuben: three levels 4 -> 2 -> 1 each, direct
   solver at the bottom; with max_levels = 2 the second level is the last and keeps its smoother;
   the rebuilt hierarchy passes the dump oracle *)
Definition exJunk : nat -> vec QcS := fun _ => [exq 0; exq 0; exq 0; exq 0].
Definition exJunkF : nat -> flags := fun _ => [].
Definition exPolA : @policy QcS := PolAggregation (qc 1 100) 1 (qc 1 2).
Definition exPolS : @policy QcS := PolSA [qc 1 100; qc 1 400; qc 1 1600] 1 (exq 1) (qc 2 3).
Definition exPolR : @policy QcS := PolRS (qc 1 4) (qc 1 5) true.
Definition ex_shape (r : @full_result QcS) : option (list bool * list nat) :=
  match r with FullOk ls => Some (map is_mid ls, map (fun l => nrows (ld_A l)) ls) | _ => None end.
Example C03_example_full_hierarchies :
  ex_shape (amg_init_full 1 true 10 1 exJunk exJunkF (@Some (crs QcS)) exPolA exM) = Some ([true; true; false], [4; 2; 1]%nat) /\
  ex_shape (amg_init_full 1 true 10 1 exJunk exJunkF (@Some (crs QcS)) exPolS exM) = Some ([true; true; false], [4; 2; 1]%nat) /\
  ex_shape (amg_init_full 1 true 10 1 exJunk exJunkF (@Some (crs QcS)) exPolR exM) = Some ([true; true; false], [4; 2; 1]%nat) /\
  ex_shape (amg_init_full 1 false 2 1 exJunk exJunkF (@Some (crs QcS)) exPolA exM) = Some ([true; false], [4; 2]%nat) /\
  match amg_init_full 1 true 10 1 exJunk exJunkF (@Some (crs QcS)) exPolA exM with
  | FullOk ls => dump_ok 1 true true (Some (qc 1 2)) (show_hier (amg_rebuild (policy_cop exPolA) ls (mscale exM (exq 3)))) = true
                 /\ dump_ok 1 true true None (show_hier ls) = false
  | _ => False
  end.
Proof. vm_compute. repeat split; reflexivity. Qed.

(* ------------------------------------------------------------------ *)
(* T5 for NON-COMMUTATIVE value types (AmgBlockNc.v).  The dense statements keep every product in
   the operand order of the code, so they hold verbatim over any non-commutative ring, in
   particular for amgcl::static_matrix<T,b,b> blocks (Scalar instance BlockInst.BlockS); T9: in the
   EXPANDED view (scalar cell (i,j) of a block-valued matrix = cell (i mod b, j mod b) of block
   (i/b, j/b): what the block tie prints) the block Galerkin product satisfies the scalar statement
   with expanded sizes -- the expansion commutes with R*A*P, with scaling by a base scalar and with
   row sorting.  This is the theorem behind evaluating the scalar oracle on expanded dumps. *)
From Amgcl Require Import NcRing BlockInst NcRingBlock AmgBlockNc.

Theorem C03_galerkin_dense_nc {S : Scalar} (Hnc : ncring_theory S) (A P R : crs S) i j :
  wf A = true -> wf R = true ->
  mget (Amg.galerkin A P R) i j =
  sumn (fun k => mget R i k * sumn (fun l => mget A k l * mget P l j) (ncols A)) (ncols R).
Proof. exact (nc_galerkin_dense Hnc A P R i j). Qed.
Print Assumptions C03_galerkin_dense_nc.

Theorem C03_scaled_galerkin_dense_nc {S : Scalar} (Hnc : ncring_theory S) s (A P R : crs S) i j :
  wf A = true -> wf R = true ->
  mget (Amg.scaled_galerkin s A P R) i j =
  sumn (fun k => mget R i k * sumn (fun l => mget A k l * mget P l j) (ncols A)) (ncols R) * s.
Proof. exact (nc_scaled_galerkin_dense Hnc s A P R i j). Qed.
Print Assumptions C03_scaled_galerkin_dense_nc.

Theorem C03_chain_levels_dense_nc {S : Scalar} (Hnc : ncring_theory S) (ls : list (@ldesc S)) :
  chain (@Amg.galerkin S) ls -> forall n A P R next i j,
  nth_error ls n = Some (LMid A P R) -> nth_error ls (Datatypes.S n) = Some next ->
  wf A = true -> wf R = true ->
  mget (ld_A next) i j =
  sumn (fun k => mget R i k * sumn (fun l => mget A k l * mget P l j) (ncols A)) (ncols R).
Proof. exact (nc_chain_galerkin_dense Hnc ls). Qed.
Print Assumptions C03_chain_levels_dense_nc.

Theorem C03_chain_levels_dense_scaled_nc {S : Scalar} (Hnc : ncring_theory S) s (ls : list (@ldesc S)) :
  chain (Amg.scaled_galerkin s) ls -> forall n A P R next i j,
  nth_error ls n = Some (LMid A P R) -> nth_error ls (Datatypes.S n) = Some next ->
  wf A = true -> wf R = true ->
  mget (ld_A next) i j =
  sumn (fun k => mget R i k * sumn (fun l => mget A k l * mget P l j) (ncols A)) (ncols R) * s.
Proof. exact (nc_chain_scaled_galerkin_dense Hnc s ls). Qed.
Print Assumptions C03_chain_levels_dense_scaled_nc.

(* blocks over a commutative ring *)
Theorem C03_block_galerkin_dense (S0 : Scalar) (b : nat) (Srt : Sring S0) (A P R : crs (BlockS S0 b)) i j :
  wf A = true -> wf R = true ->
  mget (Amg.galerkin A P R) i j =
  sumn (fun k => mget R i k * sumn (fun l => mget A k l * mget P l j) (ncols A)) (ncols R).
Proof. exact (block_galerkin_dense S0 b Srt A P R i j). Qed.
Print Assumptions C03_block_galerkin_dense.

Theorem C03_block_expansion_galerkin (S0 : Scalar) (b : nat) (Srt : Sring S0) (Hb : 0 < b) (A P R : crs (BlockS S0 b)) i j :
  wf A = true -> wf R = true ->
  xget S0 b (Amg.galerkin A P R) i j =
  sumn (fun k => xget S0 b R i k * sumn (fun l => xget S0 b A k l * xget S0 b P l j) (ncols A * b)%nat) (ncols R * b)%nat.
Proof. exact (xget_galerkin S0 b Srt Hb A P R i j). Qed.
Print Assumptions C03_block_expansion_galerkin.

Theorem C03_block_expansion_scaled_galerkin (S0 : Scalar) (b : nat) (Srt : Sring S0) (Hb : 0 < b) (c : S0) (A P R : crs (BlockS S0 b)) i j :
  wf A = true -> wf R = true ->
  xget S0 b (Amg.scaled_galerkin (blk_embed S0 b c : BlockS S0 b) A P R) i j =
  sumn (fun k => xget S0 b R i k * sumn (fun l => xget S0 b A k l * xget S0 b P l j) (ncols A * b)%nat) (ncols R * b)%nat * c.
Proof. exact (xget_scaled_galerkin S0 b Srt Hb c A P R i j). Qed.
Print Assumptions C03_block_expansion_scaled_galerkin.

Theorem C03_block_expansion_sort_rows (S0 : Scalar) (b : nat) (Srt : Sring S0) (A : crs (BlockS S0 b)) i j :
  xget S0 b (sort_rows A) i j = xget S0 b A i j.
Proof. exact (xget_sort_rows S0 b Srt A i j). Qed.
Print Assumptions C03_block_expansion_sort_rows.

Theorem C03_block_expansion_galerkin_Qc (b : nat) (Hb : 0 < b) (A P R : crs (BlockS QcS b)) i j :
  wf A = true -> wf R = true ->
  xget QcS b (Amg.galerkin A P R) i j =
  sumn (fun k => xget QcS b R i k * sumn (fun l => xget QcS b A k l * xget QcS b P l j) (ncols A * b)%nat) (ncols R * b)%nat.
Proof. exact (xget_galerkin QcS b QcS_ring Hb A P R i j). Qed.
Print Assumptions C03_block_expansion_galerkin_Qc.

(* R = adjoint P: transpose() without commutativity, and in the expanded view of blocks *)
Theorem C03_transpose_dense_nc {S : Scalar} (Hnc : ncring_theory S)
  (sadj_add : forall a b : S, sadj (a + b) = sadj a + sadj b) (sadj_0 : sadj (@s0 S) = s0) (A : crs S) i j :
  j < ncols A -> mget (transpose A) j i = sadj (mget A i j).
Proof. exact (nc_transpose_dense Hnc sadj_add sadj_0 A i j). Qed.
Print Assumptions C03_transpose_dense_nc.

Theorem C03_block_expansion_adjoint (S0 : Scalar) (b : nat) (Srt : Sring S0) (Hb : 0 < b)
  (sadj_add : forall x y : S0, sadj (x + y) = sadj x + sadj y) (sadj_0 : sadj (@s0 S0) = s0)
  (A : crs (BlockS S0 b)) i j :
  (j < ncols A * b)%nat -> xget S0 b (transpose A) j i = sadj (xget S0 b A i j).
Proof. exact (xget_transpose S0 b Srt Hb sadj_add sadj_0 A i j). Qed.
Print Assumptions C03_block_expansion_adjoint.

Theorem C03_block_expansion_adjoint_Qc (b : nat) (Hb : 0 < b) (A : crs (BlockS QcS b)) i j :
  (j < ncols A * b)%nat -> xget QcS b (transpose A) j i = xget QcS b A i j.
Proof. exact (xget_transpose QcS b QcS_ring Hb (fun x y => eq_refl) eq_refl A i j). Qed.
Print Assumptions C03_block_expansion_adjoint_Qc.
