(* Properties_C03.v -- every coarse level is the (re-scaled) Galerkin product; rebuild keeps it so.
   Statements only; proofs in AmgProofs.v.  Model: Amg.v (build = do_init/step_down,
   rebuild_levels = level::rebuild, amgcl/amg.hpp:358-512). *)
From Coq Require Import QArith Qcanon.
From Amgcl Require Import Scalar QcInst Vec Crs Kernels MatOps Amg AmgExec AmgProofs AmgExampleData.
Local Close Scope Qc_scope.
Local Close Scope Q_scope.
Local Open Scope S_scope.

(* T1: the hierarchy produced by do_init is a Galerkin chain: every element but the last is
   a level with transfer operators (LMid A P R) and its successor's matrix is
   sort_rows (coarse_operator A P R); the last element is not an LMid; the first matrix is
   the (row-sorted) input. *)
Theorem C03_build_chain {S : Scalar} ce dc ml (cop : crs S -> crs S -> crs S -> crs S) ts M :
  chain cop (amg_init ce dc ml cop ts M) /\ head_A (amg_init ce dc ml cop ts M) (sort_rows M).
Proof. exact (amg_init_chain ce dc ml cop ts M). Qed.
Print Assumptions C03_build_chain.

Theorem C03_build_chain_any_level {S : Scalar} ce dc ml (cop : crs S -> crs S -> crs S -> crs S) ts A nlev :
  chain cop (build ce dc ml cop ts A nlev).
Proof. exact (build_chain ce dc ml cop ts A nlev). Qed.
Print Assumptions C03_build_chain_any_level.

(* the chain predicate read element-wise *)
Theorem C03_chain_adjacent {S : Scalar} (cop : crs S -> crs S -> crs S -> crs S) ls :
  chain cop ls -> forall i A P R next,
  nth_error ls i = Some (LMid A P R) -> nth_error ls (Datatypes.S i) = Some next ->
  ld_A next = sort_rows (cop A P R).
Proof. exact (chain_adjacent cop ls). Qed.
Print Assumptions C03_chain_adjacent.

Theorem C03_chain_mid_iff_not_last {S : Scalar} (cop : crs S -> crs S -> crs S -> crs S) ls :
  chain cop ls -> forall i l,
  nth_error ls i = Some l -> (is_mid l = true <-> Datatypes.S i < length ls).
Proof. exact (chain_mid_iff_not_last cop ls). Qed.
Print Assumptions C03_chain_mid_iff_not_last.

(* T2: rebuild keeps the transfer operators and re-establishes the chain on the new matrix *)
Theorem C03_rebuild_keeps_transfers_and_chain {S : Scalar} (cop : crs S -> crs S -> crs S -> crs S) ls M' :
  chain cop ls ->
  chain cop (amg_rebuild cop ls M') /\ head_A (amg_rebuild cop ls M') (sort_rows M') /\
  transfers_of (amg_rebuild cop ls M') = transfers_of ls.
Proof. exact (amg_rebuild_chain cop ls M'). Qed.
Print Assumptions C03_rebuild_keeps_transfers_and_chain.

(* T3: rebuild = fresh hierarchy assembled from the new matrix with the same transfer operators *)
Theorem C03_rebuild_is_fresh_build {S : Scalar} ce dc ml (cop : crs S -> crs S -> crs S -> crs S) :
  coarse_shape cop -> forall ts M M', nrows M' = nrows M ->
  amg_rebuild cop (amg_init ce dc ml cop ts M) M' = amg_init ce dc ml cop ts M'.
Proof. exact (amg_rebuild_init ce dc ml cop). Qed.
Print Assumptions C03_rebuild_is_fresh_build.

(* ... also when the fresh build is given the (already row-sorted) operators stored in the hierarchy *)
Theorem C03_rebuild_is_fresh_build_from_stored {S : Scalar} ce dc ml (cop : crs S -> crs S -> crs S -> crs S) :
  coarse_shape cop -> forall ts M M', nrows M' = nrows M ->
  amg_rebuild cop (amg_init ce dc ml cop ts M) M' =
  amg_init ce dc ml cop (transfers_of (amg_init ce dc ml cop ts M)) M'.
Proof. exact (amg_rebuild_stored ce dc ml cop). Qed.
Print Assumptions C03_rebuild_is_fresh_build_from_stored.

Theorem C03_rebuild_restores_original {S : Scalar} ce dc ml (cop : crs S -> crs S -> crs S -> crs S) :
  coarse_shape cop -> forall ts M M', nrows M' = nrows M ->
  amg_rebuild cop (amg_rebuild cop (amg_init ce dc ml cop ts M) M') M = amg_init ce dc ml cop ts M.
Proof. exact (amg_rebuild_restore ce dc ml cop). Qed.
Print Assumptions C03_rebuild_restores_original.

(* all finite rebuild histories: only the last matrix counts *)
Theorem C03_rebuild_history {S : Scalar} ce dc ml (cop : crs S -> crs S -> crs S -> crs S) :
  coarse_shape cop -> forall ts M (Ms : list (crs S)) M',
  Forall (fun X => nrows X = nrows M) Ms -> nrows M' = nrows M ->
  amg_rebuild cop (fold_left (amg_rebuild cop) Ms (amg_init ce dc ml cop ts M)) M' =
  amg_init ce dc ml cop ts M'.
Proof. exact (amg_rebuild_history ce dc ml cop). Qed.
Print Assumptions C03_rebuild_history.

(* the shape hypothesis holds for both coarse operators of the library *)
Theorem C03_galerkin_shape {S : Scalar} : coarse_shape (@galerkin S).
Proof. exact galerkin_shape. Qed.
Print Assumptions C03_galerkin_shape.
Theorem C03_scaled_galerkin_shape {S : Scalar} (s : S) : coarse_shape (scaled_galerkin s).
Proof. exact (scaled_galerkin_shape s). Qed.
Print Assumptions C03_scaled_galerkin_shape.

Theorem C03_sort_rows_idempotent {S : Scalar} (A : crs S) : sort_rows (sort_rows A) = sort_rows A.
Proof. exact (sort_rows_idem A). Qed.
Print Assumptions C03_sort_rows_idempotent.

(* T4: last-level rule, number of levels, level sizes *)
Theorem C03_last_level_rule {S : Scalar} ce dc ml (cop : crs S -> crs S -> crs S -> crs S) ts A nlev d :
  match last (build ce dc ml cop ts A nlev) d with
  | LSolve A' => nrows A' <= ce /\ dc = true
  | LLast A' => nrows A' <= ce -> dc = false
  | LMid _ _ _ => False
  end.
Proof. exact (build_last_rule ce dc ml cop ts A nlev d). Qed.
Print Assumptions C03_last_level_rule.

Theorem C03_direct_solver_iff {S : Scalar} ce dc ml (cop : crs S -> crs S -> crs S -> crs S) ts A nlev d :
  (exists A', last (build ce dc ml cop ts A nlev) d = LSolve A') <->
  (nrows (ld_A (last (build ce dc ml cop ts A nlev) d)) <= ce /\ dc = true).
Proof. exact (build_last_solve_iff ce dc ml cop ts A nlev d). Qed.
Print Assumptions C03_direct_solver_iff.

Theorem C03_number_of_levels {S : Scalar} ce dc ml (cop : crs S -> crs S -> crs S -> crs S) ts A nlev :
  length (build ce dc ml cop ts A nlev) + nlev <= Nat.max ml (nlev + 1).
Proof. exact (build_length ce dc ml cop ts A nlev). Qed.
Print Assumptions C03_number_of_levels.

Theorem C03_level_sizes {S : Scalar} (cop : crs S -> crs S -> crs S -> crs S) ls :
  coarse_shape cop -> chain cop ls -> forall i A P R next,
  nth_error ls i = Some (LMid A P R) -> nth_error ls (Datatypes.S i) = Some next ->
  nrows (ld_A next) = nrows R.
Proof. exact (chain_sizes cop ls). Qed.
Print Assumptions C03_level_sizes.

(* T5: dense form (commutative ring): A_{l+1} = R A P, resp. (R A P) s; duplicates and any
   storage order allowed *)
Theorem C03_galerkin_dense {S : Scalar} (Srt : Sring S) (A P R : crs S) i j :
  wf A = true -> wf R = true ->
  mget (galerkin A P R) i j =
  sumn (fun k => mget R i k * sumn (fun l => mget A k l * mget P l j) (ncols A)) (ncols R).
Proof. exact (galerkin_dense Srt A P R i j). Qed.
Print Assumptions C03_galerkin_dense.

Theorem C03_scaled_galerkin_dense {S : Scalar} (Srt : Sring S) s (A P R : crs S) i j :
  wf A = true -> wf R = true ->
  mget (scaled_galerkin s A P R) i j =
  sumn (fun k => mget R i k * sumn (fun l => mget A k l * mget P l j) (ncols A)) (ncols R) * s.
Proof. exact (scaled_galerkin_dense Srt s A P R i j). Qed.
Print Assumptions C03_scaled_galerkin_dense.

Theorem C03_chain_levels_dense {S : Scalar} (Srt : Sring S) (ls : list (@ldesc S)) :
  chain (@galerkin S) ls -> forall n A P R next i j,
  nth_error ls n = Some (LMid A P R) -> nth_error ls (Datatypes.S n) = Some next ->
  wf A = true -> wf R = true ->
  mget (ld_A next) i j =
  sumn (fun k => mget R i k * sumn (fun l => mget A k l * mget P l j) (ncols A)) (ncols R).
Proof. exact (chain_galerkin_dense Srt ls). Qed.
Print Assumptions C03_chain_levels_dense.

Theorem C03_chain_levels_dense_scaled {S : Scalar} (Srt : Sring S) s (ls : list (@ldesc S)) :
  chain (scaled_galerkin s) ls -> forall n A P R next i j,
  nth_error ls n = Some (LMid A P R) -> nth_error ls (Datatypes.S n) = Some next ->
  wf A = true -> wf R = true ->
  mget (ld_A next) i j =
  sumn (fun k => mget R i k * sumn (fun l => mget A k l * mget P l j) (ncols A)) (ncols R) * s.
Proof. exact (chain_scaled_galerkin_dense Srt s ls). Qed.
Print Assumptions C03_chain_levels_dense_scaled.

(* closed instances at the exact rationals *)
Theorem C03_galerkin_dense_Qc (A P R : crs QcS) i j : wf A = true -> wf R = true ->
  mget (galerkin A P R) i j =
  sumn (fun k => mget R i k * sumn (fun l => mget A k l * mget P l j) (ncols A)) (ncols R).
Proof. exact (galerkin_dense QcS_ring A P R i j). Qed.
Print Assumptions C03_galerkin_dense_Qc.

Theorem C03_rebuild_is_fresh_build_Qc ce dc ml (sc : option (T QcS)) ts (M M' : crs QcS) :
  nrows M' = nrows M ->
  amg_rebuild (coarse_op_of sc) (amg_init ce dc ml (coarse_op_of sc) ts M) M' =
  amg_init ce dc ml (coarse_op_of sc) ts M'.
Proof.
  exact (amg_rebuild_init ce dc ml (coarse_op_of sc)
           (match sc as o return coarse_shape (coarse_op_of o) with
            | Some s => scaled_galerkin_shape s | None => galerkin_shape end) ts M M').
Qed.
Print Assumptions C03_rebuild_is_fresh_build_Qc.

(* non-vacuity: a concrete 3-level hierarchy over Qc (1D Laplacian, n = 4, pairwise aggregation) *)
Example C03_example_three_levels :
  map is_mid exH = [true; true; false] /\
  map (fun l => nrows (ld_A l)) exH = [4; 2; 1]%nat /\
  ldesc_eqb (last exH (LLast exM)) (LSolve (mkCrs 1 [[(0%nat, exq 2)]])) = true.
Proof. vm_compute. auto. Qed.

Example C03_example_rebuild :
  let M' := mscale exM (exq 3) in
  hier_eqb (amg_rebuild (@galerkin QcS) exH M') (amg_init 1 true 10 (@galerkin QcS) exTs M') = true /\
  hier_eqb (amg_rebuild (@galerkin QcS) (amg_rebuild (@galerkin QcS) exH M') exM) exH = true /\
  hier_eqb (amg_rebuild (@galerkin QcS) exH M') exH = false.
Proof. vm_compute. auto. Qed.
