(* LowLevel2AProofs.v -- C10-A2, second layer: tentative_prolongation without null space and
   plain_aggregates (LowLevel2A.v) stay inside their arrays, read no unwritten cell and produce
   the list models (Tentative.tentative_prolongation, Aggregates.plain_aggregates).
   No algebraic law is used (any Scalar record). *)
From Coq Require Import ZArith Lia.
From Amgcl Require Import Scalar Vec Crs Kernels MatOps MatOpsProofs Aggregates Tentative CoarsenProofs
                          LowLevel LowLevelProofs LowLevelT LowLevelTProofs
                          LowLevel2 LowLevel2Proofs LowLevel2G LowLevel2GProofs LowLevel2A.
Local Open Scope nat_scope.

(* ------------------------------------------------------------------ rows stored one after the other *)
Section Prefix.
Context {X : Type}.
Variable rs : list (list X).
Definition rbk (i : nat) : nat := length (concat (firstn i rs)).
Lemma rbk_S i : i < length rs -> rbk (Datatypes.S i) = rbk i + length (nth i rs []).
Proof.
  intro H. unfold rbk. rewrite (firstn_S_nth rs i []) by exact H.
  rewrite concat_app, app_length. cbn [concat]. rewrite app_nil_r. reflexivity.
Qed.
Lemma rbk_le i : rbk i <= length (concat rs).
Proof. unfold rbk. rewrite <- (firstn_skipn i rs) at 2. rewrite concat_app, app_length. lia. Qed.
Lemma rbk_all : rbk (length rs) = length (concat rs).
Proof. unfold rbk. rewrite firstn_all. reflexivity. Qed.
Lemma rbk_rd i : i <= length rs -> mrd (filled (0 :: psum (map (@length X) rs))) i = Done (rbk i).
Proof.
  intro H. rewrite (mrd_filled _ i 0) by (rewrite flat_ptr_length; lia).
  f_equal. rewrite <- (firstn_skipn i rs) at 1.
  replace i with (length (firstn i rs)) at 1 by (rewrite firstn_length; lia).
  apply flat_ptr_nth.
Qed.
Lemma concat_firstn_S i : i < length rs -> concat (firstn (Datatypes.S i) rs) = concat (firstn i rs) ++ nth i rs [].
Proof.
  intro H. rewrite (firstn_S_nth rs i []) by exact H. rewrite concat_app. cbn [concat]. rewrite app_nil_r. reflexivity.
Qed.
End Prefix.

Lemma fresh_S {X} k : @fresh X (Datatypes.S k) = None :: fresh k.
Proof. reflexivity. Qed.

(* for (i < n) ptr[i+1] = g(src[i]) into a fresh array whose cell 0 is written *)
Lemma fill_sizes {Y} (d : Y) (g : Y -> nat) (src : list Y) (x0 : nat) : forall k ia,
  ia + k = length src ->
  mfor ia k (fun i ptr => a <-- ird src i ;; mwr ptr (i + 1) (g a))
       (filled (x0 :: map g (firstn ia src)) ++ fresh k)
  = Done (filled (x0 :: map g src)).
Proof.
  induction k as [|k IH]; intros ia Hk.
  - rewrite mfor_zero. unfold fresh. cbn [repeat]. rewrite app_nil_r, firstn_all2 by lia. reflexivity.
  - rewrite mfor_step. rewrite (ird_ok src ia d) by lia. cbn [mbind].
    unfold fresh at 1. cbn [repeat]. fold (@fresh nat k).
    rewrite (mwr_app_len (filled (x0 :: map g (firstn ia src))) None (fresh k) _ (ia + 1))
      by (rewrite filled_length; cbn [length]; rewrite map_length, firstn_length; lia).
    cbn [mbind].
    replace (filled (x0 :: map g (firstn ia src)) ++ Some (g (nth ia src d)) :: fresh k)
      with (filled (x0 :: map g (firstn (Datatypes.S ia) src)) ++ fresh k).
    + apply IH. lia.
    + rewrite (firstn_S_nth src ia d) by lia. rewrite map_app. cbn [map].
      change (x0 :: map g (firstn ia src) ++ [g (nth ia src d)]) with ((x0 :: map g (firstn ia src)) ++ [g (nth ia src d)]).
      rewrite filled_app, <- app_assoc. reflexivity.
Qed.

Section Tentative.
Context {S : Scalar}.

Definition tlen (a : Z) : nat := if Z.leb 0 a then 1 else 0.
Lemma tentative_row_length (a : Z) : length (tentative_row (S := S) a) = tlen a.
Proof. unfold tentative_row, tlen. destruct (Z.leb 0 a); reflexivity. Qed.

Section Fill.
Variables (naggr : nat) (aggr : list Z).
Let trs : list (list (nat * S)) := map tentative_row aggr.
Let n := length aggr.
Let nnz := length (concat trs).
Let ptr : marr nat := filled (0 :: psum (map (@length (nat * S)) trs)).

Lemma trs_length : length trs = n.
Proof. unfold trs. apply map_length. Qed.
Lemma trs_nth i : i < n -> nth i trs [] = tentative_row (nth i aggr 0%Z).
Proof.
  intro H. unfold trs. rewrite (nth_indep _ [] (tentative_row 0%Z)) by (rewrite map_length; exact H).
  apply (map_nth tentative_row).
Qed.

Definition tstate (i : nat) : marr nat * marr S :=
  (filled (map fst (concat (firstn i trs))) ++ fresh (nnz - rbk trs i),
   filled (map snd (concat (firstn i trs))) ++ fresh (nnz - rbk trs i)).

Lemma tent_fill : forall k i, i + k = n ->
  mfor i k (fun i (cv : marr nat * marr S) =>
              a <-- ird aggr i ;;
              if Z.leb 0 a then
                p <-- mrd ptr i ;; col' <-- mwr (fst cv) p (Z.to_nat a) ;;
                p' <-- mrd ptr i ;; val' <-- mwr (snd cv) p' s1 ;; Done (col', val')
              else Done cv) (tstate i)
  = Done (tstate n).
Proof.
  induction k as [|k IH]; intros i Hk.
  - rewrite mfor_zero. replace i with n by lia. reflexivity.
  - rewrite mfor_step. rewrite (ird_ok aggr i 0%Z) by (fold n; lia). cbn [mbind].
    assert (Hi : i < length trs) by (rewrite trs_length; lia).
    pose proof (rbk_S trs i Hi) as HS. pose proof (rbk_le trs (Datatypes.S i)) as Hle. fold nnz in Hle.
    rewrite trs_nth in HS by lia. rewrite tentative_row_length in HS.
    assert (Enext : forall cv, cv = tstate (Datatypes.S i) ->
              mfor (Datatypes.S i) k (fun i (cv : marr nat * marr S) =>
                  a <-- ird aggr i ;;
                  if Z.leb 0 a then
                    p <-- mrd ptr i ;; col' <-- mwr (fst cv) p (Z.to_nat a) ;;
                    p' <-- mrd ptr i ;; val' <-- mwr (snd cv) p' s1 ;; Done (col', val')
                  else Done cv) cv = Done (tstate n)).
    { intros cv ->. apply IH. lia. }
    unfold tlen in HS. destruct (Z.leb 0 (nth i aggr 0%Z)) eqn:Ea.
    + unfold ptr. rewrite !(rbk_rd trs i) by lia. cbn [mbind].
      change (tstate i) with (filled (map fst (concat (firstn i trs))) ++ fresh (nnz - rbk trs i),
                              filled (map snd (concat (firstn i trs))) ++ fresh (nnz - rbk trs i)).
      cbn [fst snd].
      replace (nnz - rbk trs i) with (Datatypes.S (nnz - rbk trs (Datatypes.S i))) by lia.
      rewrite !fresh_S.
      rewrite (mwr_app_len _ None _ _ (rbk trs i)) by (rewrite filled_length, map_length; reflexivity). cbn [mbind].
      rewrite (mwr_app_len _ None _ _ (rbk trs i)) by (rewrite filled_length, map_length; reflexivity). cbn [mbind].
      apply Enext. unfold tstate. rewrite (concat_firstn_S trs i Hi), trs_nth by lia.
      unfold tentative_row. rewrite Ea. rewrite !map_app. cbn [map fst snd].
      rewrite !filled_app, <- !app_assoc. reflexivity.
    + cbn [mbind]. apply Enext. unfold tstate. rewrite (concat_firstn_S trs i Hi), trs_nth by lia.
      unfold tentative_row. rewrite Ea, app_nil_r. replace (rbk trs (Datatypes.S i)) with (rbk trs i) by lia. reflexivity.
Qed.

Theorem ll_tentative_ok_aux :
  ll_tentative n naggr aggr = Done (minit (flat_of (tentative_prolongation (S := S) naggr aggr))).
Proof.
  unfold ll_tentative. rewrite Nat.add_1_r. unfold fresh at 1. cbn [repeat mwr mbind]. fold (@fresh nat n).
  pose proof (fill_sizes 0%Z tlen aggr 0 n 0 eq_refl) as H1. cbn [firstn map] in H1.
  change (filled [0] ++ fresh n) with (Some 0 :: @fresh nat n) in H1.
  match goal with |- mbind ?X _ = _ => assert (HX : X = Done (filled (0 :: map tlen aggr))) by exact H1 end.
  rewrite HX. cbn [mbind].
  replace (Datatypes.S n) with (length (0 :: map tlen aggr)) by (cbn [length]; rewrite map_length; reflexivity).
  rewrite ll_psum_ok. cbn [mbind].
  assert (Hl : map tlen aggr = map (@length (nat * S)) trs).
  { unfold trs. rewrite map_map. apply map_ext. intro a. symmetry. apply tentative_row_length. }
  assert (Hp : filled (psum (0 :: map tlen aggr)) = ptr).
  { unfold ptr, psum. cbn [psum_from Nat.add]. rewrite Hl. reflexivity. }
  rewrite Hp. unfold ptr at 1. rewrite (rbk_rd trs n) by (rewrite trs_length; lia). cbn [mbind].
  replace (rbk trs n) with nnz by (unfold nnz; rewrite <- (rbk_all trs), trs_length; reflexivity).
  pose proof (tent_fill n 0 eq_refl) as H2.
  assert (E0 : tstate 0 = (fresh nnz, fresh nnz)).
  { unfold tstate, rbk. cbn [firstn concat map filled length app]. rewrite Nat.sub_0_r. reflexivity. }
  rewrite E0 in H2.
  match goal with |- mbind ?X _ = _ => assert (HX2 : X = Done (tstate n)) by exact H2 end.
  rewrite HX2. cbn [mbind]. unfold tstate. cbn [fst snd].
  replace (rbk trs n) with nnz by (unfold nnz; rewrite <- (rbk_all trs), trs_length; reflexivity).
  rewrite Nat.sub_diag. unfold fresh. cbn [repeat]. rewrite !app_nil_r.
  rewrite firstn_all2 by (rewrite trs_length; lia).
  unfold minit, flat_of, tentative_prolongation. cbn [fn fm fptr fcol fval rows ncols nrows].
  unfold nrows. cbn [rows]. rewrite map_length. reflexivity.
Qed.
End Fill.

(* tentative_prolongation(n, naggr, aggr, nullspace with cols = 0): for EVERY id vector of length n
   (only aggr[i] >= 0 matters for the memory accesses) *)
Theorem ll_tentative_ok (n naggr : nat) (aggr : list Z) : length aggr = n ->
  ll_tentative n naggr aggr = Done (minit (flat_of (tentative_prolongation (S := S) naggr aggr))).
Proof. intros <-. apply ll_tentative_ok_aux. Qed.

End Tentative.

(* ------------------------------------------------------------------ plain_aggregates *)
Lemma ptr_nth {X} (rs : list (list X)) i : i <= length rs ->
  nth i (0 :: psum (map (@length X) rs)) 0 = rbk rs i.
Proof.
  intro H. rewrite <- (firstn_skipn i rs) at 1.
  replace i with (length (firstn i rs)) at 1 by (rewrite firstn_length; lia).
  apply flat_ptr_nth.
Qed.
Lemma same_shape_rbk {X Y} (l1 : list (list X)) (l2 : list (list Y)) i :
  map (@length X) l1 = map (@length Y) l2 -> rbk l1 i = rbk l2 i.
Proof.
  unfold rbk. revert l2 i; induction l1 as [|a l1 IH]; intros [|b l2] i H; try discriminate.
  - rewrite !firstn_nil. reflexivity.
  - destruct i as [|i]; [reflexivity|]. cbn [firstn concat]. rewrite !app_length.
    cbn [map] in H. injection H as Hab Hl. rewrite Hab. f_equal. apply IH. exact Hl.
Qed.
Lemma nth_split3 {X} (l : list X) i d : i < length l -> l = firstn i l ++ nth i l d :: skipn (Datatypes.S i) l.
Proof.
  intro H. rewrite <- (firstn_skipn i l) at 1. f_equal. apply skipn_cons_nth. exact H.
Qed.
Lemma last_nth {X} (l : list X) d : last l d = nth (length l - 1) l d.
Proof.
  induction l as [|a l IH]; [reflexivity|]. destruct l as [|b l]; [reflexivity|].
  cbn [last length] in *. rewrite IH. cbn [Nat.sub]. rewrite Nat.sub_0_r. reflexivity.
Qed.
Lemma psum_from_same acc l : Aggregates.psum_from acc l = LowLevelT.psum_from acc l.
Proof. revert acc; induction l as [|a l IH]; intro acc; simpl; [reflexivity|]. rewrite IH. reflexivity. Qed.
Lemma mwr_filled_un {X} (l : list X) i v : i < length l -> mwr (filled l) i v = Done (filled (Aggregates.upd_nth l i v)).
Proof.
  revert i; induction l as [|a l IH]; intros i H; simpl in *; [lia|].
  destruct i as [|k]; [reflexivity|]. rewrite IH by lia. reflexivity.
Qed.
Lemma zget_nth (l : list Z) i d : i < length l -> zget l i = nth i l d.
Proof. intro H. unfold zget. apply nth_indep. exact H. Qed.

Section Agg.
Context {S : Scalar}.
Variable eps2 : S.
Variable A : crs S.
Variable junk : vec S.
Hypothesis HA : wf A = true.
Hypothesis Hsq : ncols A <= nrows A.
Hypothesis HD : has_diag A = true.
Let n := nrows A.
Let F := flat_of A.
Let rs : list (list (nat * S)) := rows A.
Let dia := diagonal A false junk.
Let fl : flags := strong_connections eps2 A junk.
Let nnz := length (concat rs).

Lemma rs_length : length rs = n. Proof. reflexivity. Qed.
Lemma dia_length : length dia = n. Proof. apply diagonal_length. Qed.
Lemma col_lt i e : In e (nth i rs []) -> fst e < n.
Proof.
  intro Hin. pose proof (row_wf_nth (ncols A) (rows A) i HA) as Hr.
  apply row_wf_iff in Hr. rewrite Forall_forall in Hr. specialize (Hr e Hin). unfold n. lia.
Qed.

Lemma row_lo i : i < n -> ird (fptr F) i = Done (rbk rs i).
Proof.
  intro H. unfold F, flat_of. cbn [fptr]. fold rs.
  rewrite (ird_ok _ i 0) by (rewrite (@flat_ptr_length (nat * S)), rs_length; lia).
  f_equal. apply ptr_nth. rewrite rs_length. lia.
Qed.
Lemma row_hi i : i < n -> ird (fptr F) (i + 1) = Done (rbk rs i + length (nth i rs [])).
Proof.
  intro H. unfold F, flat_of. cbn [fptr]. fold rs.
  rewrite (ird_ok _ (i + 1) 0) by (rewrite (@flat_ptr_length (nat * S)), rs_length; lia).
  f_equal. rewrite Nat.add_1_r, ptr_nth by (rewrite rs_length; lia). apply rbk_S. rewrite rs_length. exact H.
Qed.
Lemma row_rd i k : i < n -> k < length (nth i rs []) ->
  ird (fcol F) (rbk rs i + k) = Done (fst (nth k (nth i rs []) (0, s0))) /\
  ird (fval F) (rbk rs i + k) = Done (snd (nth k (nth i rs []) (0, s0))).
Proof.
  intros Hi Hk.
  pose proof (flat_reads (firstn i rs) (nth i rs []) (skipn (Datatypes.S i) rs) (ncols A) k (0, s0) Hk) as H.
  cbn zeta in H. rewrite <- (nth_split3 rs i []) in H by (rewrite rs_length; exact Hi).
  unfold F, rbk. destruct A as [m rws]. exact H.
Qed.
Lemma nnz_rd : (if Nat.eqb n 0 then Done 0 else ird (fptr F) n) = Done nnz.
Proof.
  destruct (Nat.eqb_spec n 0) as [H0|Hn].
  - f_equal. unfold nnz. assert (rs = []) by (apply length_zero_iff_nil; exact H0). rewrite H. reflexivity.
  - unfold F, flat_of. cbn [fptr]. fold rs.
    rewrite (ird_ok _ n 0) by (rewrite (@flat_ptr_length (nat * S)), rs_length; lia).
    f_equal. rewrite ptr_nth by (rewrite rs_length; lia). unfold nnz. rewrite <- rs_length. apply rbk_all.
Qed.

(* --- diagonal(A) into unwritten memory *)
Lemma diag_scan_list i dd : forall (r : list (nat * S)) j,
  (forall k, k < length r -> ird (fcol F) (j + k) = Done (fst (nth k r (0, s0))) /\
                             ird (fval F) (j + k) = Done (snd (nth k r (0, s0)))) ->
  diag_scan F i j (length r) dd = match first_col r i with Some d => mwr dd i d | None => Done dd end.
Proof.
  induction r as [|[c v] r IH]; intros j Hr; [reflexivity|].
  cbn [length diag_scan first_col].
  destruct (Hr 0 ltac:(simpl; lia)) as [Hc Hv]. rewrite Nat.add_0_r in Hc, Hv. cbn [nth fst snd] in Hc, Hv.
  rewrite Hc. cbn [mbind]. destruct (Nat.eqb c i); [rewrite Hv; reflexivity|].
  apply IH. intros k Hk. replace (Datatypes.S j + k) with (j + Datatypes.S k) by lia.
  apply (Hr (Datatypes.S k)). simpl. lia.
Qed.
Lemma has_diag_row i : i < n -> exists d, first_col (nth i rs []) i = Some d /\ nth i dia s0 = d.
Proof.
  intro Hi. unfold has_diag in HD. rewrite forallb_forall in HD.
  assert (Ei : nth i (indexed (rows A)) (0, []) = (i, nth i (rows A) [])) by (apply nth_indexed; exact Hi).
  assert (Hin : In (nth i (indexed (rows A)) (0, [])) (indexed (rows A))) by (apply nth_In; unfold indexed; rewrite combine_length, seq_length; unfold n, nrows in Hi; lia).
  rewrite Ei in Hin. specialize (HD _ Hin). cbn [fst snd] in HD. unfold rs.
  destruct (first_col (nth i (rows A) []) i) as [d|] eqn:E; [|discriminate].
  exists d. split; [exact E|].
  pose proof (diagonal_spec A false junk i Hi) as Hs. rewrite E in Hs. exact Hs.
Qed.
Lemma ll_diag_loop : forall k i, i + k = n ->
  mfor i k (fun i dd => p <-- ird (fptr F) i ;; e <-- ird (fptr F) (i + 1) ;; diag_scan F i p (e - p) dd)
       (filled (firstn i dia) ++ fresh k) = Done (filled dia).
Proof.
  induction k as [|k IH]; intros i Hk.
  - rewrite mfor_zero. unfold fresh. cbn [repeat]. rewrite app_nil_r, firstn_all2 by (rewrite dia_length; lia). reflexivity.
  - rewrite mfor_step. rewrite row_lo, row_hi by lia. cbn [mbind].
    replace (rbk rs i + length (nth i rs []) - rbk rs i) with (length (nth i rs [])) by lia.
    rewrite (diag_scan_list i _ (nth i rs []) (rbk rs i)) by (intros k0 Hk0; apply row_rd; [lia|exact Hk0]).
    destruct (has_diag_row i ltac:(lia)) as (d & Hd & Hn). rewrite Hd. rewrite fresh_S.
    rewrite (mwr_app_len _ None _ _ i) by (rewrite filled_length, firstn_length, dia_length; lia). cbn [mbind].
    replace (filled (firstn i dia) ++ Some d :: fresh k) with (filled (firstn (Datatypes.S i) dia) ++ fresh k).
    + apply IH. lia.
    + rewrite (firstn_S_nth dia i s0) by (rewrite dia_length; lia). rewrite Hn, filled_app, <- app_assoc. reflexivity.
Qed.
Lemma ll_diagonal_ok : ll_diagonal F = Done (filled dia).
Proof. unfold ll_diagonal. exact (ll_diag_loop n 0 eq_refl). Qed.

(* --- 1. strong connections *)
Lemma fl_shape : map (@length bool) fl = map (@length (nat * S)) rs.
Proof.
  unfold fl, strong_connections, indexed. fold rs. rewrite map_map.
  generalize 0 as k. induction rs as [|r l IH]; intro k; [reflexivity|].
  cbn [length seq combine map fst snd]. f_equal; [unfold strong_row; apply map_length|apply IH].
Qed.
Lemma fl_length : length fl = n.
Proof. rewrite <- (map_length (@length bool)), fl_shape, map_length. reflexivity. Qed.
Lemma fl_nth i : i < n -> nth i fl [] = strong_row eps2 dia i (nth i rs []).
Proof.
  intro Hi. unfold fl, strong_connections. fold dia.
  rewrite (nth_indep _ [] ((fun ir => strong_row eps2 dia (fst ir) (snd ir)) (0, []))) by (rewrite map_length, indexed_length; exact Hi).
  rewrite (map_nth (fun ir => strong_row eps2 dia (fst ir) (snd ir))). rewrite nth_indexed by exact Hi. reflexivity.
Qed.
Lemma fl_nth_length i : length (nth i fl []) = length (nth i rs []).
Proof.
  destruct (Nat.lt_ge_cases i n) as [Hi|Hi].
  - rewrite fl_nth by exact Hi. unfold strong_row. apply map_length.
  - rewrite !nth_overflow; [reflexivity|rewrite rs_length; exact Hi|rewrite fl_length; exact Hi].
Qed.
Lemma fl_rbk i : rbk fl i = rbk rs i.
Proof. apply same_shape_rbk. exact fl_shape. Qed.
Lemma fl_nnz : length (concat fl) = nnz.
Proof. unfold nnz. rewrite <- (rbk_all fl), <- (rbk_all rs), fl_length, rs_length. apply fl_rbk. Qed.

Definition strong_body (i : nat) (eps_dia_i : S) (j : nat) (st : marr bool) : mres (marr bool) :=
  c <-- ird (fcol F) j ;;
  v <-- ird (fval F) j ;;
  if Nat.eqb c i then mwr st j false
  else dc <-- mrd (filled dia) c ;; mwr st j (sltb (eps_dia_i * dc)%S (v * v)%S).

Lemma strong_row_loop i : forall (r : list (nat * S)) (pre : list bool) q,
  (forall k, k < length r -> ird (fcol F) (length pre + k) = Done (fst (nth k r (0, s0))) /\
                             ird (fval F) (length pre + k) = Done (snd (nth k r (0, s0)))) ->
  (forall e, In e r -> fst e < n) ->
  mfor (length pre) (length r) (strong_body i (eps2 * vget dia i)%S) (filled (pre ++ repeat false (length r + q)))
  = Done (filled (pre ++ strong_row eps2 dia i r ++ repeat false q)).
Proof.
  induction r as [|[c v] r IH]; intros pre q Hr Hc; [reflexivity|].
  cbn [length]. rewrite mfor_step. unfold strong_body at 1.
  destruct (Hr 0 ltac:(simpl; lia)) as [H1 H2]. rewrite Nat.add_0_r in H1, H2. cbn [nth fst snd] in H1, H2.
  rewrite H1, H2. cbn [mbind].
  assert (Hcn : c < n) by (apply (Hc (c, v)); left; reflexivity).
  assert (Ew : forall b, mwr (filled (pre ++ repeat false (Datatypes.S (length r) + q))) (length pre) b
                         = Done (filled ((pre ++ [b]) ++ repeat false (length r + q)))).
  { intro b. cbn [Nat.add repeat]. rewrite !filled_app. cbn [filled map]. rewrite <- app_assoc.
    apply mwr_app_len. apply filled_length. }
  assert (Enext : forall b, b = (negb (Nat.eqb c i) && sltb (eps2 * vget dia i * vget dia c)%S (v * v)%S)%bool ->
            mfor (Datatypes.S (length pre)) (length r) (strong_body i (eps2 * vget dia i)%S)
                 (filled ((pre ++ [b]) ++ repeat false (length r + q)))
            = Done (filled (pre ++ strong_row eps2 dia i ((c, v) :: r) ++ repeat false q))).
  { intros b ->. replace (Datatypes.S (length pre)) with (length (pre ++ [negb (Nat.eqb c i) && sltb (eps2 * vget dia i * vget dia c)%S (v * v)%S]%bool))
      by (rewrite app_length; simpl; lia).
    rewrite IH.
    - unfold strong_row. cbn [map fst snd]. rewrite <- !app_assoc. reflexivity.
    - intros k Hk. rewrite app_length. cbn [length]. replace (length pre + 1 + k) with (length pre + Datatypes.S k) by lia.
      apply (Hr (Datatypes.S k)). simpl. lia.
    - intros e He. apply Hc. right. exact He. }
  destruct (Nat.eqb c i) eqn:Eci.
  - rewrite Ew. cbn [mbind]. apply Enext. reflexivity.
  - rewrite (mrd_filled dia c s0) by (rewrite dia_length; exact Hcn). cbn [mbind].
    rewrite Ew. cbn [mbind]. apply Enext. reflexivity.
Qed.

Lemma ll_strong_loop : forall k i, i + k = n ->
  mfor i k (fun i st =>
      di <-- mrd (filled dia) i ;;
      row_loop (fptr F) i (strong_body i (eps2 * di)%S) st)
    (filled (concat (firstn i fl) ++ repeat false (nnz - rbk rs i)))
  = Done (filled (concat fl)).
Proof.
  induction k as [|k IH]; intros i Hk.
  - rewrite mfor_zero. replace i with (length rs) by (rewrite rs_length; lia).
    rewrite rbk_all. fold nnz. rewrite Nat.sub_diag. cbn [repeat]. rewrite app_nil_r.
    rewrite firstn_all2 by (rewrite fl_length, rs_length; lia). reflexivity.
  - rewrite mfor_step. rewrite (mrd_filled dia i s0) by (rewrite dia_length; lia). cbn [mbind].
    unfold row_loop. rewrite row_lo, row_hi by lia. cbn [mbind].
    replace (rbk rs i + length (nth i rs []) - rbk rs i) with (length (nth i rs [])) by lia.
    assert (Hi : i < length rs) by (rewrite rs_length; lia).
    pose proof (rbk_S rs i Hi) as HS. pose proof (rbk_le rs (Datatypes.S i)) as Hle. fold nnz in Hle.
    replace (nnz - rbk rs i) with (length (nth i rs []) + (nnz - rbk rs (Datatypes.S i))) by lia.
    assert (Hpre : length (concat (firstn i fl)) = rbk rs i) by (rewrite <- fl_rbk; reflexivity).
    rewrite <- Hpre at 1.
    change (nth i dia s0) with (vget dia i).
    rewrite (strong_row_loop i (nth i rs []) (concat (firstn i fl)) (nnz - rbk rs (Datatypes.S i))).
    + cbn [mbind]. rewrite app_assoc. rewrite <- fl_nth by lia.
      rewrite <- (concat_firstn_S fl i) by (rewrite fl_length; lia). apply IH. lia.
    + intros k0 Hk0. rewrite Hpre. apply row_rd; [lia|exact Hk0].
    + intros e He. apply (col_lt i). exact He.
Qed.
Lemma ll_strong_ok : ll_strong eps2 F (filled dia) (filled (repeat false nnz)) = Done (filled (concat fl)).
Proof.
  unfold ll_strong. pose proof (ll_strong_loop n 0 eq_refl) as H.
  cbn [firstn concat app] in H. unfold rbk in H. cbn [firstn concat length] in H. rewrite Nat.sub_0_r in H. exact H.
Qed.

(* --- 2a. lonely nodes *)
Lemma strong_scan_list : forall (bl pre post : list bool),
  strong_scan (filled (pre ++ bl ++ post)) (length pre) (length bl)
  = Done (if has_strong bl then undefined else removed).
Proof.
  induction bl as [|b bl IH]; intros pre post; [reflexivity|].
  cbn [length strong_scan]. rewrite filled_app. cbn [app filled map].
  rewrite (mrd_app_len (filled pre) b _ (length pre) (filled_length pre)). cbn [mbind].
  unfold has_strong. cbn [existsb]. destruct b; [reflexivity|]. cbn [orb].
  specialize (IH (pre ++ [false]) post). rewrite app_length in IH. cbn [length] in IH. rewrite Nat.add_1_r in IH.
  etransitivity; [|exact IH]. f_equal. unfold filled. rewrite !map_app. cbn [map]. rewrite <- !app_assoc. reflexivity.
Qed.

Lemma ll_lonely_loop : forall k i, i + k = n ->
  mfor i k (fun i id =>
      p <-- ird (fptr F) i ;; e <-- ird (fptr F) (i + 1) ;;
      state <-- strong_scan (filled (concat fl)) p (e - p) ;; mwr id i state)
    (filled (firstn i (init_id fl) ++ repeat 0%Z k))
  = Done (filled (init_id fl)).
Proof.
  induction k as [|k IH]; intros i Hk.
  - rewrite mfor_zero. cbn [repeat]. rewrite app_nil_r, firstn_all2 by (rewrite init_id_length, fl_length; lia). reflexivity.
  - rewrite mfor_step. rewrite row_lo, row_hi by lia. cbn [mbind].
    replace (rbk rs i + length (nth i rs []) - rbk rs i) with (length (nth i rs [])) by lia.
    assert (Hi : i < length fl) by (rewrite fl_length; lia).
    rewrite (nth_split3 fl i [] Hi) at 1. rewrite concat_app. cbn [concat].
    rewrite <- fl_nth_length.
    replace (rbk rs i) with (length (concat (firstn i fl))) by (rewrite <- fl_rbk; reflexivity).
    rewrite strong_scan_list. cbn [mbind].
    cbn [repeat]. rewrite filled_app. cbn [filled map].
    rewrite (mwr_app_len _ (Some 0%Z) _ _ i) by (rewrite filled_length, firstn_length, init_id_length; lia). cbn [mbind].
    replace (filled (firstn i (init_id fl)) ++ Some (if has_strong (nth i fl []) then undefined else removed) :: map Some (repeat 0%Z k))
      with (filled (firstn (Datatypes.S i) (init_id fl) ++ repeat 0%Z k)).
    + apply IH. lia.
    + rewrite (firstn_S_nth (init_id fl) i removed) by (rewrite init_id_length; exact Hi).
      rewrite <- app_assoc, filled_app. cbn [app filled map]. f_equal. f_equal. f_equal.
      change (nth i (init_id fl) removed) with (zget (init_id fl) i). apply zget_init_id. exact Hi.
Qed.
Lemma ll_lonely_ok : ll_lonely F (filled (concat fl)) (filled (repeat 0%Z n)) = Done (filled (init_id fl)).
Proof. unfold ll_lonely. exact (ll_lonely_loop n 0 eq_refl). Qed.

(* --- 2b. the aggregation pass *)
Let stf : marr bool := filled (concat fl).

Lemma st_rd i k : i < n -> k < length (nth i rs []) ->
  mrd stf (rbk rs i + k) = Done (nth k (nth i fl []) false).
Proof.
  intros Hi Hk. unfold stf.
  assert (Hil : i < length fl) by (rewrite fl_length; exact Hi).
  rewrite (nth_split3 fl i [] Hil) at 1. rewrite concat_app. cbn [concat].
  rewrite <- fl_rbk. unfold rbk.
  rewrite <- fl_nth_length in Hk.
  destruct (nth_split (nth i fl []) false Hk) as (b1 & b2 & Hb & Hl).
  rewrite Hb at 1. rewrite <- !app_assoc. cbn [app]. rewrite app_assoc, filled_app. cbn [filled map].
  apply mrd_app_len. rewrite filled_length, app_length. lia.
Qed.
Lemma srow_length i : length (srow A fl i) = length (nth i rs []).
Proof. unfold srow. fold rs. rewrite combine_length, map_length, fl_nth_length. apply Nat.min_id. Qed.
Lemma srow_nth i k : k < length (nth i rs []) ->
  nth k (srow A fl i) (0, false) = (fst (nth k (nth i rs []) (0, s0)), nth k (nth i fl []) false).
Proof.
  intro Hk. unfold srow. fold rs. rewrite combine_nth by (rewrite map_length, fl_nth_length; reflexivity).
  f_equal. change 0 with (fst (0, @s0 S)). apply map_nth.
Qed.
Lemma srow_lt i e : In e (srow A fl i) -> fst e < n.
Proof.
  intro Hin. unfold srow in Hin. fold rs in Hin.
  destruct e as [c b]. apply in_combine_l in Hin. apply in_map_iff in Hin as (x & Hx & Hin).
  cbn [fst]. rewrite <- Hx. apply (col_lt i). exact Hin.
Qed.

(* a loop over row i that reads the column and the flag of each entry *)
Lemma srow_loop {St} i (h : nat * bool -> St -> mres St) (body : nat -> St -> mres St) st : i < n ->
  (forall j s c b, ird (fcol F) j = Done c -> mrd stf j = Done b -> body j s = h (c, b) s) ->
  row_loop (fptr F) i body st = mfoldl h (srow A fl i) st.
Proof.
  intros Hi Hb. unfold row_loop. rewrite row_lo, row_hi by exact Hi. cbn [mbind].
  replace (rbk rs i + length (nth i rs []) - rbk rs i) with (length (nth i rs [])) by lia.
  rewrite <- srow_length. apply (mfor_list (0, false)). intros k s Hk. rewrite srow_length in Hk.
  destruct (row_rd i k Hi Hk) as [Hc _].
  rewrite (Hb _ s _ _ Hc (st_rd i k Hi Hk)). rewrite srow_nth by exact Hk. reflexivity.
Qed.

Definition h_claim (cur : Z) (e : nat * bool) (acc : marr Z * list nat) : mres (marr Z * list nat) :=
  if snd e then
    ic <-- mrd (fst acc) (fst e) ;;
    if negb (Z.eqb ic removed) then id' <-- mwr (fst acc) (fst e) cur ;; Done (id', snd acc ++ [fst e])
    else Done acc
  else Done acc.
Definition h_mark (cur : Z) (e : nat * bool) (id : marr Z) : mres (marr Z) :=
  if snd e then
    icc <-- mrd id (fst e) ;;
    if Z.eqb icc undefined then mwr id (fst e) cur else Done id
  else Done id.

Lemma claim_fold cur : forall (l : list (nat * bool)) idl nb,
  length idl = n -> (forall e, In e l -> fst e < n) ->
  mfoldl (h_claim cur) l (filled idl, nb)
  = Done (filled (fst (fold_left (claim_neib cur) l (idl, nb))), snd (fold_left (claim_neib cur) l (idl, nb))) /\
  length (fst (fold_left (claim_neib cur) l (idl, nb))) = n /\
  (forall c, In c (snd (fold_left (claim_neib cur) l (idl, nb))) -> In c nb \/ c < n).
Proof.
  induction l as [|[c b] l IH]; intros idl nb Hl Hc.
  - split; [reflexivity|]. split; [exact Hl|]. intros c H. left. exact H.
  - assert (Hcn : c < n) by (apply (Hc (c, b)); left; reflexivity).
    assert (Hc' : forall e, In e l -> fst e < n) by (intros e He; apply Hc; right; exact He).
    assert (Ecl : claim_neib cur (idl, nb) (c, b)
                  = if (b && negb (Z.eqb (zget idl c) removed))%bool then (Aggregates.upd_nth idl c cur, nb ++ [c]) else (idl, nb))
      by reflexivity.
    cbn [mfoldl fold_left]. rewrite Ecl. unfold h_claim at 1. cbn [fst snd].
    destruct b; cbn [andb].
    + rewrite (mrd_filled idl c removed) by lia. cbn [mbind]. fold (zget idl c).
      destruct (negb (Z.eqb (zget idl c) removed)).
      * rewrite mwr_filled_un by lia. cbn [mbind].
        destruct (IH (Aggregates.upd_nth idl c cur) (nb ++ [c]) ltac:(rewrite upd_nth_length; exact Hl) Hc') as (I1 & I2 & I3).
        split; [exact I1|]. split; [exact I2|]. intros x Hx. destruct (I3 x Hx) as [H|H]; [|right; exact H].
        apply in_app_iff in H as [H|[<-|[]]]; [left; exact H|right; exact Hcn].
      * cbn [mbind]. apply IH; assumption.
    + cbn [mbind]. apply IH; assumption.
Qed.
Lemma mark_fold cur : forall (l : list (nat * bool)) idl,
  length idl = n -> (forall e, In e l -> fst e < n) ->
  mfoldl (h_mark cur) l (filled idl) = Done (filled (fold_left (mark_undef cur) l idl)) /\
  length (fold_left (mark_undef cur) l idl) = n.
Proof.
  induction l as [|[c b] l IH]; intros idl Hl Hc.
  - split; [reflexivity|exact Hl].
  - assert (Hcn : c < n) by (apply (Hc (c, b)); left; reflexivity).
    assert (Hc' : forall e, In e l -> fst e < n) by (intros e He; apply Hc; right; exact He).
    assert (Emk : mark_undef cur idl (c, b)
                  = if (b && Z.eqb (zget idl c) undefined)%bool then Aggregates.upd_nth idl c cur else idl) by reflexivity.
    cbn [mfoldl fold_left]. rewrite Emk. unfold h_mark at 1. cbn [fst snd].
    destruct b; cbn [andb].
    + rewrite (mrd_filled idl c removed) by lia. cbn [mbind]. fold (zget idl c).
      destruct (Z.eqb (zget idl c) undefined).
      * rewrite mwr_filled_un by lia. cbn [mbind]. apply IH; [rewrite upd_nth_length; exact Hl|exact Hc'].
      * cbn [mbind]. apply IH; assumption.
    + cbn [mbind]. apply IH; assumption.
Qed.
Lemma neib_fold cur : forall (nb : list nat) idl,
  length idl = n -> (forall c, In c nb -> c < n) ->
  mfoldl (fun c id => row_loop (fptr F) c (ll_mark F stf cur) id) nb (filled idl)
  = Done (filled (mark_neibs A fl cur idl nb)) /\ length (mark_neibs A fl cur idl nb) = n.
Proof.
  unfold mark_neibs. induction nb as [|c nb IH]; intros idl Hl Hc.
  - split; [reflexivity|exact Hl].
  - assert (Hcn : c < n) by (apply Hc; left; reflexivity).
    cbn [mfoldl fold_left].
    rewrite (srow_loop c (h_mark cur) (ll_mark F stf cur)) by
      (try exact Hcn; intros j s c0 b H1 H2; unfold ll_mark, h_mark; rewrite H1, H2; reflexivity).
    destruct (mark_fold cur (srow A fl c) idl Hl (srow_lt c)) as [M1 M2]. rewrite M1. cbn [mbind].
    apply IH; [exact M2|]. intros x Hx. apply Hc. right. exact Hx.
Qed.

Lemma ll_agg_step_ok i idl cnt : i < n -> length idl = n ->
  ll_agg_step F stf i (filled idl, cnt)
  = Done (filled (fst (agg_step A fl (idl, cnt) i)), snd (agg_step A fl (idl, cnt) i)) /\
  length (fst (agg_step A fl (idl, cnt) i)) = n.
Proof.
  intros Hi Hl. unfold ll_agg_step, agg_step. cbn [fst snd].
  rewrite (mrd_filled idl i removed) by lia. cbn [mbind]. fold (zget idl i).
  destruct (Z.eqb (zget idl i) undefined); [|split; [reflexivity|exact Hl]].
  rewrite mwr_filled_un by lia. cbn [mbind].
  rewrite (srow_loop i (h_claim (Z.of_nat cnt)) (ll_claim F stf (Z.of_nat cnt))) by
    (try exact Hi; intros j s c0 b H1 H2; unfold ll_claim, h_claim; rewrite H1, H2; reflexivity).
  destruct (claim_fold (Z.of_nat cnt) (srow A fl i) (Aggregates.upd_nth idl i (Z.of_nat cnt)) []
              ltac:(rewrite upd_nth_length; exact Hl) (srow_lt i)) as (C1 & C2 & C3).
  rewrite C1. cbn [mbind fst snd].
  destruct (neib_fold (Z.of_nat cnt) _ _ C2 ltac:(intros c Hc; destruct (C3 c Hc) as [[]|H]; exact H)) as [N1 N2].
  rewrite N1. cbn [mbind]. split; [reflexivity|exact N2].
Qed.

Lemma ll_agg_loop : forall k i idl cnt, i + k = n -> length idl = n ->
  mfor i k (ll_agg_step F stf) (filled idl, cnt)
  = Done (filled (fst (fold_left (agg_step A fl) (seq i k) (idl, cnt))), snd (fold_left (agg_step A fl) (seq i k) (idl, cnt))).
Proof.
  induction k as [|k IH]; intros i idl cnt Hk Hl; [reflexivity|].
  rewrite mfor_step. destruct (ll_agg_step_ok i idl cnt ltac:(lia) Hl) as [H1 H2].
  rewrite H1. cbn [mbind seq fold_left].
  rewrite (surjective_pairing (agg_step A fl (idl, cnt) i)) at 3 4. apply IH; [lia|exact H2].
Qed.
Lemma ll_agg_pass_ok :
  mfor 0 n (ll_agg_step F stf) (filled (init_id fl), 0) = Done (filled (fst (agg_pass A fl)), snd (agg_pass A fl)).
Proof. unfold agg_pass. apply ll_agg_loop; [reflexivity|rewrite init_id_length; apply fl_length]. Qed.

(* --- 3. renumbering *)
Lemma mark_used_loop count : forall (l : list Z) cnt,
  length cnt = count -> (forall a, In a l -> (a < Z.of_nat count)%Z) ->
  mfoldl (fun a c => if Z.leb 0 a then mwrz c a 1 else Done c) l (filled cnt)
  = Done (filled (fold_left (fun cnt a => if Z.leb 0 a then Aggregates.upd_nth cnt (Z.to_nat a) 1 else cnt) l cnt)).
Proof.
  induction l as [|a l IH]; intros cnt Hl Ha; [reflexivity|].
  cbn [mfoldl fold_left].
  assert (Ha' : forall x, In x l -> (x < Z.of_nat count)%Z) by (intros x Hx; apply Ha; right; exact Hx).
  destruct (Z.leb_spec 0 a) as [Hge|Hlt].
  - unfold mwrz. destruct (Z.ltb_spec a 0); [lia|].
    pose proof (Ha a ltac:(left; reflexivity)) as Hb.
    rewrite mwr_filled_un by lia. cbn [mbind]. apply IH; [rewrite upd_nth_length; exact Hl|exact Ha'].
  - cbn [mbind]. apply IH; assumption.
Qed.
Lemma ll_mark_used_ok idl count : length idl = n -> (forall a, In a idl -> (a < Z.of_nat count)%Z) ->
  ll_mark_used n (filled idl) (filled (repeat 0 count)) = Done (filled (mark_used idl count)).
Proof.
  intros Hl Ha. unfold ll_mark_used, mark_used. rewrite <- Hl.
  rewrite (mfor_list 0%Z (fun a c => if Z.leb 0 a then mwrz c a 1 else Done c)).
  - apply (mark_used_loop count); [apply repeat_length|exact Ha].
  - intros k s Hk. cbn [Nat.add]. rewrite (mrd_filled idl k 0%Z Hk). reflexivity.
Qed.
Lemma renumber_loop (cnt : list nat) count : forall (todo done : list Z),
  length cnt = count -> (forall a, In a todo -> (a < Z.of_nat count)%Z) ->
  mfor (length done) (length todo) (fun i id =>
      a <-- mrd id i ;;
      if Z.leb 0 a then ca <-- mrdz (filled cnt) a ;; mwr id i (Z.of_nat ca - 1)%Z else Done id)
    (filled (done ++ todo))
  = Done (filled (done ++ map (fun a => if Z.leb 0 a then (Z.of_nat (nth (Z.to_nat a) cnt 0%nat) - 1)%Z else a) todo)).
Proof.
  induction todo as [|a todo IH]; intros done Hl Ha; [reflexivity|].
  cbn [length map]. rewrite mfor_step.
  assert (Ha' : forall x, In x todo -> (x < Z.of_nat count)%Z) by (intros x Hx; apply Ha; right; exact Hx).
  rewrite filled_app. cbn [filled map].
  rewrite (mrd_app_len (filled done) a _ (length done) (filled_length done)). cbn [mbind].
  assert (Enext : forall b, mfor (Datatypes.S (length done)) (length todo) (fun i id =>
      a <-- mrd id i ;;
      if Z.leb 0 a then ca <-- mrdz (filled cnt) a ;; mwr id i (Z.of_nat ca - 1)%Z else Done id)
      (filled done ++ Some b :: map Some todo)
      = Done (filled (done ++ b :: map (fun a => if Z.leb 0 a then (Z.of_nat (nth (Z.to_nat a) cnt 0%nat) - 1)%Z else a) todo))).
  { intro b. specialize (IH (done ++ [b]) Hl Ha'). rewrite app_length in IH. cbn [length] in IH. rewrite Nat.add_1_r in IH.
    rewrite <- !app_assoc in IH. cbn [app] in IH. rewrite filled_app in IH. exact IH. }
  destruct (Z.leb_spec 0 a) as [Hge|Hlt].
  - unfold mrdz. destruct (Z.ltb_spec a 0); [lia|].
    pose proof (Ha a ltac:(left; reflexivity)) as Hb.
    rewrite (mrd_filled cnt (Z.to_nat a) 0) by lia. cbn [mbind].
    rewrite (mwr_app_len (filled done) (Some a) _ _ (length done) (filled_length done)). cbn [mbind]. apply Enext.
  - cbn [mbind]. apply Enext.
Qed.
Lemma ll_renumber_ok idl (cnt : list nat) count : length idl = n -> length cnt = count ->
  (forall a, In a idl -> (a < Z.of_nat count)%Z) ->
  ll_renumber n (filled idl) (filled cnt)
  = Done (filled (map (fun a => if Z.leb 0 a then (Z.of_nat (nth (Z.to_nat a) cnt 0%nat) - 1)%Z else a) idl)).
Proof.
  intros Hl Hc Ha. unfold ll_renumber. rewrite <- Hl. exact (renumber_loop cnt count idl [] Hc Ha).
Qed.

Definition agg_out (r : aggregates) : mres ll_aggr :=
  match r with
  | AggOk c id st => Done (LAOk c (filled id) (filled (concat st)))
  | AggEmpty => Done LAEmpty
  | AggPrecond => OutOfFuel          (* plain_aggregates never returns it *)
  end.

Theorem ll_plain_aggregates_ok_aux : ll_plain_aggregates eps2 F = agg_out (plain_aggregates eps2 A junk).
Proof.
  unfold ll_plain_aggregates. change (fn F) with n. rewrite nnz_rd. cbn [mbind].
  rewrite ll_diagonal_ok. cbn [mbind]. rewrite ll_strong_ok. cbn [mbind].
  rewrite ll_lonely_ok. cbn [mbind]. fold stf. rewrite ll_agg_pass_ok. cbn [mbind fst snd].
  unfold plain_aggregates. fold fl.
  destruct (Nat.eqb_spec (snd (agg_pass A fl)) 0) as [H0|Hpos]; [reflexivity|].
  set (idl := fst (agg_pass A fl)). set (count := snd (agg_pass A fl)) in *.
  destruct (agg_pass_spec A fl fl_length) as (Hl & _ & Hb). fold idl count in Hl, Hb.
  assert (Ha : forall a, In a idl -> (a < Z.of_nat count)%Z).
  { intros a Hin. apply In_nth with (d := removed) in Hin as (p & Hp & <-). rewrite Hl in Hp.
    fold (zget idl p). destruct (Hb p Hp) as [H|H]; [rewrite H; unfold removed; lia|lia]. }
  rewrite (ll_mark_used_ok idl count Hl Ha). cbn [mbind].
  pose proof (mark_used_length idl count) as Hml.
  rewrite <- Hml at 1. rewrite ll_psum_ok. cbn [mbind].
  assert (Hps : psum (mark_used idl count) = Aggregates.psum_from 0 (mark_used idl count)) by (symmetry; apply psum_from_same).
  rewrite Hps. set (cnt := Aggregates.psum_from 0 (mark_used idl count)).
  assert (Hcl : length cnt = count) by (unfold cnt; rewrite psum_length; exact Hml).
  rewrite (mrd_filled cnt (count - 1) 0) by lia. cbn [mbind].
  unfold renumber. fold cnt. rewrite (last_nth cnt 0), Hcl.
  destruct (Nat.ltb (nth (count - 1) cnt 0) count); [|reflexivity].
  rewrite (ll_renumber_ok idl cnt count Hl Hcl Ha). reflexivity.
Qed.

End Agg.

(* coarsening::plain_aggregates: for a square matrix with in-range columns that stores its diagonal
   (the "valid input" of the property; without a stored diagonal dia[i] is read unwritten) *)
Theorem ll_plain_aggregates_ok {S : Scalar} (eps2 : S) (A : crs S) (junk : vec S) :
  wf A = true -> ncols A <= nrows A -> has_diag A = true ->
  ll_plain_aggregates eps2 (flat_of A) = agg_out (plain_aggregates eps2 A junk).
Proof. intros HA Hsq HD. exact (ll_plain_aggregates_ok_aux eps2 A junk HA Hsq HD). Qed.

Theorem ll_plain_aggregates_safe {S : Scalar} (eps2 : S) (A : crs S) :
  wf A = true -> ncols A <= nrows A -> has_diag A = true ->
  let r := ll_plain_aggregates eps2 (flat_of A) in
  r <> OutOfBounds /\ r <> UninitRead /\ r <> OutOfFuel.
Proof.
  intros HA Hsq HD. cbv zeta. rewrite (ll_plain_aggregates_ok eps2 A [] HA Hsq HD).
  assert (Hne : plain_aggregates eps2 A [] <> AggPrecond) by
    (unfold plain_aggregates; destruct (Nat.eqb _ 0); discriminate).
  destruct (plain_aggregates eps2 A []) eqn:E; cbn [agg_out]; try (repeat split; discriminate).
  exfalso. exact (Hne eq_refl).
Qed.

(* the aggregate ids are a function of the matrix alone: whatever the unwritten dia cells held *)
Theorem ll_plain_aggregates_junk_free {S : Scalar} (eps2 : S) (A : crs S) (j1 j2 : vec S) :
  wf A = true -> ncols A <= nrows A -> has_diag A = true ->
  agg_out (plain_aggregates eps2 A j1) = agg_out (plain_aggregates eps2 A j2).
Proof.
  intros HA Hsq HD. rewrite <- (ll_plain_aggregates_ok eps2 A j1 HA Hsq HD), <- (ll_plain_aggregates_ok eps2 A j2 HA Hsq HD). reflexivity.
Qed.

Theorem ll_diagonal_spec {S : Scalar} (A : crs S) (junk : vec S) :
  wf A = true -> ncols A <= nrows A -> has_diag A = true ->
  ll_diagonal (flat_of A) = Done (filled (diagonal A false junk)).
Proof. intros HA Hsq HD. exact (ll_diagonal_ok s0 A junk HA Hsq HD). Qed.
