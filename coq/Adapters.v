(* Adapters.v -- matrix adapters as views (amgcl/adapter/*.hpp) and the generic
   row-iterator copy constructor of the builtin CRS (backend/builtin.hpp:120-151).
   Definitions only; proofs: AdaptersProofs.v.

   An adapter is what backend::rows / cols / nonzeros / row_begin expose: the row
   iterator of row i is modelled by the list of (column, value) pairs it yields, in
   iteration order.  Values may be scalars, b x b blocks (static_matrix, as a list of
   b rows of b scalars) or complex numbers (pairs over S). *)
From Amgcl Require Import Scalar Vec Crs Kernels MatOps.
Local Open Scope S_scope.

(* ---------------------------------------------------------------- generic part *)
Section Generic.
Variable X : Type.
Definition grow := list (nat * X).
Record gcrs := mkG { gncols : nat; grows : list grow }.
Record adapter := mkAd {
  a_rows : nat;               (* backend::rows(A)      *)
  a_cols : nat;               (* backend::cols(A)      *)
  a_nnz  : nat;               (* backend::nonzeros(A)  (an estimate for some adapters) *)
  a_row  : nat -> grow        (* backend::row_begin(A, i) ... iteration *)
}.
(* crs(const Matrix &A): count row widths, scan, fill col/val in iteration order *)
Definition to_gcrs (a : adapter) : gcrs := mkG (a_cols a) (map (a_row a) (seq 0 (a_rows a))).
Definition gnnz (G : gcrs) : nat := fold_left (fun acc r => acc + length r)%nat (grows G) 0%nat.
Definition gcrs_view (G : gcrs) : adapter :=
  mkAd (length (grows G)) (gncols G) (gnnz G) (fun i => nth i (grows G) []).

Definition slice {Y} (l : list Y) (b e : nat) : list Y := firstn (e - b) (skipn b l).

(* y[i] = v (no effect out of range) and the scatter loop  for(k) y[idx[k]] = vals[k] *)
Fixpoint lset (l : list X) (i : nat) (v : X) : list X :=
  match l, i with
  | [], _ => []
  | _ :: tl, O => v :: tl
  | a :: tl, Datatypes.S k => a :: lset tl k v
  end.
Definition scatter (idx : list nat) (vals : list X) (y : list X) : list X :=
  fold_left (fun y pv => lset y (fst pv) (snd pv)) (combine idx vals) y.
End Generic.
Arguments mkG {X}. Arguments gncols {X}. Arguments grows {X}.
Arguments mkAd {X}. Arguments a_rows {X}. Arguments a_cols {X}. Arguments a_nnz {X}. Arguments a_row {X}.
Arguments to_gcrs {X}. Arguments gnnz {X}. Arguments gcrs_view {X}.
Arguments lset {X}. Arguments scatter {X}.

(* ---------------------------------------------------------------- index types *)
(* Integer types of user arrays: width in bits and signedness.  [store it z] is the
   value an object of that type holds after assigning the mathematical integer z
   (two's complement wrap-around). *)
Record itype := mkIt { it_bits : Z; it_signed : bool }.
Definition wrap_u (w z : Z) : Z := (z mod 2 ^ w)%Z.
Definition wrap_s (w z : Z) : Z := ((z + 2 ^ (w - 1)) mod 2 ^ w - 2 ^ (w - 1))%Z.
Definition store (it : itype) (z : Z) : Z :=
  if it_signed it then wrap_s (it_bits it) z else wrap_u (it_bits it) z.
(* a value held in a user array of type [src], read through col()/ptr[] and assigned
   to the CRS member of type [dst]; array subscripts are formed from the result *)
Definition idx_conv (src dst : itype) (n : nat) : nat :=
  Z.to_nat (store dst (store src (Z.of_nat n))).
Definition it_int       := mkIt 32 true.
Definition it_unsigned  := mkIt 32 false.
Definition it_long      := mkIt 64 true.
Definition it_size_t    := mkIt 64 false.
Definition it_ptrdiff_t := mkIt 64 true.

Section Adapters.
Context {S : Scalar}.
Local Notation vec := (vec S).
Local Notation row := (row S).
Local Notation crs := (crs S).

(* scalar-valued adapters are copied into the scalar CRS type of Crs.v *)
Definition to_crs (a : adapter S) : crs := mkCrs (a_cols a) (map (a_row a) (seq 0 (a_rows a))).
Definition crs_view (M : crs) : adapter S :=
  mkAd (nrows M) (ncols M) (nnz M) (fun i => nth i (rows M) []).

(* --- user arrays (ptr, col, val) ------------------------------------------- *)
Fixpoint ptr_from (p : nat) (rs : list row) : list nat :=
  match rs with [] => [p] | r :: tl => p :: ptr_from (p + length r) tl end.
Definition flat_ptr (M : crs) : list nat := ptr_from 0 (rows M).
Definition flat_col (M : crs) : list nat := map fst (concat (rows M)).
Definition flat_val (M : crs) : vec := map snd (concat (rows M)).

(* adapter/crs_tuple.hpp: std::tuple<N, PRng, CRng, VRng>; cols() = rows() = get<0>,
   nonzeros() = ptr[n]; row i = [ptr[i], ptr[i+1]) of col/val.  The index type of the
   user arrays enters through idx_conv (identity for in-range values: AdaptersProofs). *)
Definition arr_row (cv : nat -> nat) (ptr col : list nat) (val : vec) (i : nat) : row :=
  let b := cv (nth i ptr 0%nat) in let e := cv (nth (Datatypes.S i) ptr 0%nat) in
  combine (map cv (slice col b e)) (slice val b e).
Definition tuple_adapter (it : itype) (n : nat) (ptr col : list nat) (val : vec) : adapter S :=
  let cv := idx_conv it it_ptrdiff_t in
  mkAd n n (cv (nth n ptr 0%nat)) (arr_row cv ptr col val).
(* adapter/zero_copy.hpp: the CRS object aliases the user arrays (own_data = false);
   nnz = nrows ? ptr[nrows] : 0 *)
Definition zero_copy_adapter (it : itype) (n m : nat) (ptr col : list nat) (val : vec) : adapter S :=
  let cv := idx_conv it it_ptrdiff_t in
  mkAd n m (if Nat.eqb n 0 then 0%nat else cv (nth n ptr 0%nat)) (arr_row cv ptr col val).
(* adapter/crs_builder.hpp: rows are produced on demand by a user functor;
   nonzeros() is the functor's estimate *)
Definition builder_adapter (n est : nat) (f : nat -> row) : adapter S := mkAd n n est f.

(* --- adapter/reorder.hpp ----------------------------------------------------- *)
(* for(i < n) iperm[perm[i]] = i;  iperm starts uninitialised (junk) *)
Definition inv_perm (perm junk : list nat) : list nat :=
  scatter perm (seq 0 (length perm)) junk.
(* reordered_matrix: row i = row perm[i] of A with columns mapped through iperm *)
Definition reorder_adapter (A : adapter S) (perm iperm : list nat) : adapter S :=
  mkAd (a_rows A) (a_cols A) (a_nnz A)
       (fun i => map (fun e => (nth (fst e) iperm 0%nat, snd e)) (a_row A (nth i perm 0%nat))).
(* reorder::forward  y[i] = x[perm[i]];   reorder::inverse  y[perm[i]] = x[i] *)
Definition perm_forward (perm : list nat) (x : vec) : vec := map (fun p => vget x p) perm.
Definition perm_inverse (perm : list nat) (x y : vec) : vec := scatter perm x y.

(* --- adapter/scaled_problem.hpp ------------------------------------------- *)
(* scaled_matrix::row_iterator::value() = s[i] * a * s[col] *)
Definition scaled_adapter (A : adapter S) (s : vec) : adapter S :=
  mkAd (a_rows A) (a_cols A) (a_nnz A)
       (fun i => map (fun e => (fst e, vget s i * snd e * vget s (fst e))) (a_row A i)).
(* scale_diagonal: s[i] = inverse(sqrt(norm(a_ii))) for the first entry with col == i;
   rows without a diagonal entry keep the value-initialised 0 of std::vector *)
Definition scale_diagonal (A : adapter S) : vec :=
  map (fun i => match first_col (a_row A i) i with
                | Some d => sinv (ssqrt (sabs d))
                | None => s0 end) (seq 0 (a_rows A)).
(* scaled_problem::operator()(x): vmul(1, s, x, 0, x) *)
Definition scale_vec (s x : vec) : vec := vmul s1 s x s0 x.

(* --- adapter/block_matrix.hpp ------------------------------------------------ *)
Definition block := list (list S).            (* static_matrix<S,b,b>, row major *)
Definition bzero (b : nat) : block := repeat (repeat s0 b) b.
(* the minimal block column among the current heads of the b base iterators *)
Definition heads_min (b : nat) (rs : list row) : option nat :=
  fold_left (fun acc r => match r with
                          | [] => acc
                          | e :: _ => match acc with
                                      | None => Some (fst e / b)%nat
                                      | Some c => Some (Nat.min c (fst e / b))
                                      end
                          end) rs None.
(* for(; base[i] && base[i].col() < end; ++base[i]) : the consumed prefix and the rest *)
Fixpoint span_lt (e : nat) (r : row) : row * row :=
  match r with
  | [] => ([], [])
  | x :: tl => if Nat.ltb (fst x) e then let '(t, rest) := span_lt e tl in (x :: t, rest)
               else ([], r)
  end.
(* cur_val(i, col % b) = value : assignment, the last entry written wins *)
Definition blk_entry (b : nat) (taken : row) (j : nat) : S :=
  fold_left (fun acc e => if Nat.eqb (fst e mod b) j then snd e else acc) taken s0.
Definition blk_of (b : nat) (takens : list row) : block :=
  map (fun t => map (blk_entry b t) (seq 0 b)) takens.
(* one block row: constructor + repeated operator++ of block_matrix_adapter::row_iterator.
   fuel: every step consumes at least one scalar entry, so (total entries) steps suffice *)
Fixpoint block_row (fuel b : nat) (rs : list row) : grow block :=
  match fuel with
  | O => []
  | Datatypes.S k =>
    match heads_min b rs with
    | None => []
    | Some c =>
      let sp := map (span_lt ((c + 1) * b)) rs in
      (c, blk_of b (map fst sp)) :: block_row k b (map snd sp)
    end
  end.
Definition total_len (rs : list row) : nat := fold_right (fun r a => length r + a)%nat 0%nat rs.
Definition block_adapter (b : nat) (A : adapter S) : adapter block :=
  mkAd (a_rows A / b) (a_cols A / b) (a_nnz A / (b * b))
       (fun i => let rs := map (fun k => a_row A (i * b + k)%nat) (seq 0 b) in
                 block_row (total_len rs) b rs).
(* the constructor's precondition *)
Definition block_ok (b : nat) (A : adapter S) : bool :=
  Nat.eqb (a_rows A mod b) 0 && Nat.eqb (a_cols A mod b) 0.

(* unblock_matrix: scalar row ib*b+i lists, for every block entry (c, v) in storage
   order, the b entries (c*b + j, v(i,j)) *)
Definition bget (v : block) (i j : nat) : S := nth j (nth i v []) s0.
Definition unblock (b : nat) (B : gcrs block) : crs :=
  mkCrs (gncols B * b)
    (flat_map (fun br => map (fun i => flat_map (fun cv => map (fun j => ((fst cv * b + j)%nat, bget (snd cv) i j))
                                                            (seq 0 b)) br)
                             (seq 0 b))
              (grows B)).

(* block spmv (matrix_ops.hpp with block value type):
   sum = zero; sum += a.value() * x[a.col()]   with static_matrix products *)
Definition bvec := list S.                    (* static_matrix<S,b,1> *)
Definition bmv (v : block) (x : bvec) : bvec :=
  map (fun vi => fold_left (fun acc ax => acc + fst ax * snd ax) (combine vi x) s0) v.
Definition bvadd (u v : bvec) : bvec := map2 sadd u v.
Definition bdotrow (b : nat) (br : grow block) (xs : list bvec) : bvec :=
  fold_left (fun acc cv => bvadd acc (bmv (snd cv) (nth (fst cv) xs (repeat s0 b)))) br (repeat s0 b).
Definition bspmv_sums (b : nat) (B : gcrs block) (xs : list bvec) : list bvec :=
  map (fun br => bdotrow b br xs) (grows B).
(* reinterpret a scalar vector as a vector of b-blocks and back (builtin.hpp:1323-1342) *)
Fixpoint chunk (fuel b : nat) (x : vec) : list bvec :=
  match fuel with
  | O => []
  | Datatypes.S k => match x with [] => [] | _ => firstn b x :: chunk k b (skipn b x) end
  end.
Definition to_blocks (b : nat) (x : vec) : list bvec := chunk (length x) b x.
Definition of_blocks (xs : list bvec) : vec := concat xs.

(* wrappers (make_block_solver.hpp, relaxation/as_block.hpp, coarsening/as_scalar.hpp):
   apply the inner object to the re-chunked vectors *)
Definition block_solver_apply (b : nat) (inner : list bvec -> list bvec -> list bvec) (rhs x : vec) : vec :=
  of_blocks (inner (to_blocks b rhs) (to_blocks b x)).
Definition as_block_apply (b : nat) (inner : gcrs block -> list bvec -> list bvec -> list bvec)
           (A : adapter S) (rhs x : vec) : vec :=
  of_blocks (inner (to_gcrs (block_adapter b A)) (to_blocks b rhs) (to_blocks b x)).

(* --- adapter/complex.hpp ----------------------------------------------------- *)
Definition cplx := (S * S)%type.
Definition cadd (a b : cplx) : cplx := (fst a + fst b, snd a + snd b).
Definition cmul (a b : cplx) : cplx := (fst a * fst b - snd a * snd b, fst a * snd b + snd a * fst b).
Definition c0 : cplx := (s0, s0).
(* row 2i   : (2c, re) (2c+1, -im)   row 2i+1 : (2c, im) (2c+1, re) *)
Definition complex_adapter (A : adapter cplx) : adapter S :=
  mkAd (2 * a_rows A) (2 * a_cols A) (4 * a_nnz A)
       (fun i => flat_map (fun e => if Nat.even i
                                    then [((fst e * 2)%nat, fst (snd e)); ((fst e * 2 + 1)%nat, - snd (snd e))]
                                    else [((fst e * 2)%nat, snd (snd e)); ((fst e * 2 + 1)%nat, fst (snd e))])
                          (a_row A (i / 2))).
(* complex_range: a vector of n complex numbers seen as 2n reals *)
Definition interleave (z : list cplx) : vec := flat_map (fun c => [fst c; snd c]) z.
Definition cdotrow (r : grow cplx) (z : list cplx) : cplx :=
  fold_left (fun acc e => cadd acc (cmul (snd e) (nth (fst e) z c0))) r c0.

(* --- preconditioners that sort the rows of a user matrix on entry (amg.hpp:199-205):
   whatever is built afterwards is a function of sort_rows (to_crs A) *)
Definition sorting_entry {Y} (build : crs -> Y) (A : adapter S) : Y := build (sort_rows (to_crs A)).
(* ... and those that do not (relaxation/as_preconditioner.hpp:60-68, cpr.hpp:108-117,
   schur_pressure_correction.hpp:191-200, dummy.hpp:57-65) *)
Definition plain_entry {Y} (build : crs -> Y) (A : adapter S) : Y := build (to_crs A).

(* the row scan of relaxation::ilu0 (ilu0.hpp:145-153): entries are eliminated in
   storage order until the first column >= i, which must be the diagonal *)
Inductive scan_result := ScanThrow | ScanElim (cols : list nat).
Fixpoint ilu0_scan (i : nat) (r : row) : scan_result :=
  match r with
  | [] => ScanElim []          (* no break: the diagonal is never inverted; see ilu0.hpp *)
  | e :: tl => if Nat.leb i (fst e)
               then (if Nat.eqb (fst e) i then ScanElim [] else ScanThrow)
               else match ilu0_scan i tl with
                    | ScanThrow => ScanThrow
                    | ScanElim cs => ScanElim (fst e :: cs)
                    end
  end.

End Adapters.
