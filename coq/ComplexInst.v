(* ComplexInst.v -- std::complex<T> as a value type (amgcl/value_type/complex.hpp): a [Scalar] instance
   over an arbitrary base Scalar S0 (the real type T), and its algebra.

   [ComplexS S0] is the Scalar record whose carrier is the pair (re, im) over S0:
     s0, s1       (0,0), (1,0)
     sadd ssub    component-wise                                    (operator+=, operator-=)
     sopp         component-wise
     smul         (a c - b d, a d + b c)                            (std::complex operator*=, generic template:
                                                                      r = re*z.re - im*z.im; im = re*z.im + im*z.re)
     sadj         conjugation (a, -b)                               (math::adjoint = std::conj)
     sinv z       conj z / |z|^2 = (a/(a^2+b^2), -b/(a^2+b^2))      (math::inverse = identity / z; exact fields only)
     sdiv a c     a * sinv c
     sabs z       (sqrt(a^2+b^2), 0)                                (math::norm = std::abs -- a REAL number, embedded;
                                                                      exact only where the base ssqrt is, cf. QcInst.qc_sqrt)
     ssqrt z      (ssqrt a, 0)                                      (only ever applied to embedded reals: Kernels.norm2)
     seqb         component-wise                                    (operator==)
     sltb a c     |a| < |c|                                         (complex.hpp: operator< compares std::abs)
     seps, sofQ   embedded reals
   The kernels the complex tie runs through (C07 primitives incl. inner_product, C08 transpose / product / sum /
   scale) use only + - * adj ==; sabs/sltb/sinv/ssqrt are defined for completeness and are NOT covered by a tie.

   Algebra (Section ComplexRing): over a commutative ring S0, ComplexS S0 is a commutative ring and conjugation
   is an involutive ring automorphism (additive, multiplicative, conj(conj z) = z, fixes the embedded reals);
   decidable equality is inherited.  z * conj z is the embedded real re^2 + im^2.
   Closed at S0 = QcS (Gaussian rationals) at the end of the file. *)
From Amgcl Require Import Scalar QcInst.
Local Open Scope S_scope.

Section ComplexInst.
Variable S0 : Scalar.

Definition cplx : Type := (S0 * S0)%type.
Definition c_re (z : cplx) : S0 := fst z.
Definition c_im (z : cplx) : S0 := snd z.
Definition c_of_re (a : S0) : cplx := (a, s0).           (* real a as a + 0 i *)

Definition c_zero : cplx := (s0, s0).
Definition c_one : cplx := (s1, s0).
Definition c_add (a b : cplx) : cplx := (c_re a + c_re b, c_im a + c_im b).
Definition c_sub (a b : cplx) : cplx := (c_re a - c_re b, c_im a - c_im b).
Definition c_opp (a : cplx) : cplx := (- c_re a, - c_im a).
Definition c_mul (a b : cplx) : cplx :=
  (c_re a * c_re b - c_im a * c_im b, c_re a * c_im b + c_im a * c_re b).
Definition c_conj (a : cplx) : cplx := (c_re a, - c_im a).
Definition c_norm2 (a : cplx) : S0 := c_re a * c_re a + c_im a * c_im a.     (* |a|^2 *)
Definition c_inv (a : cplx) : cplx := (c_re a / c_norm2 a, (- c_im a) / c_norm2 a).
Definition c_div (a b : cplx) : cplx := c_mul a (c_inv b).
Definition c_abs (a : cplx) : cplx := c_of_re (ssqrt (c_norm2 a)).
Definition c_sqrt (a : cplx) : cplx := c_of_re (ssqrt (c_re a)).
Definition c_eqb (a b : cplx) : bool := seqb (c_re a) (c_re b) && seqb (c_im a) (c_im b).
Definition c_ltb (a b : cplx) : bool := sltb (ssqrt (c_norm2 a)) (ssqrt (c_norm2 b)).

Definition ComplexS : Scalar :=
  mkScalar cplx c_zero c_one c_add c_mul c_sub c_opp c_div c_inv c_conj c_abs c_sqrt c_eqb c_ltb
           (c_of_re seps) (fun q => c_of_re (sofQ q)).

End ComplexInst.

Arguments c_re {S0}. Arguments c_im {S0}.

(* ------------------------------------------------------------------ *)
Section ComplexRing.
Variable S0 : Scalar.
Hypothesis Srt : Sring S0.
Add Ring SRingCx : Srt.
Local Notation C := (ComplexS S0).
Local Notation cre a := (c_of_re S0 a : T (ComplexS S0)).

Lemma cplx_ext (a b : C) : c_re a = c_re b -> c_im a = c_im b -> a = b.
Proof. destruct a, b; simpl; intros -> ->; reflexivity. Qed.

(* std::complex<T> over a commutative ring is a commutative ring *)
Theorem ComplexS_ring : Sring C.
Proof.
  constructor; cbn [T s0 s1 sadd smul ssub sopp ComplexS]; intros;
    apply cplx_ext; cbn [c_re c_im fst snd c_add c_mul c_sub c_opp c_zero c_one]; ring.
Qed.

Theorem ComplexS_eqb : seqb_spec S0 -> seqb_spec C.
Proof.
  intros Seqb x y. cbn [seqb ComplexS]. unfold c_eqb. rewrite andb_true_iff. split.
  - intros [H1 H2]. apply Seqb in H1. apply Seqb in H2. apply cplx_ext; assumption.
  - intros ->. split; apply Seqb; reflexivity.
Qed.

(* conjugation: an involutive ring automorphism *)
Theorem conj_add (a b : C) : sadj (a + b) = sadj a + sadj b.
Proof. apply cplx_ext; cbn; ring. Qed.
Theorem conj_sub (a b : C) : sadj (a - b) = sadj a - sadj b.
Proof. apply cplx_ext; cbn; ring. Qed.
Theorem conj_opp (a : C) : sadj (- a) = - sadj a.
Proof. apply cplx_ext; cbn; ring. Qed.
Theorem conj_mul (a b : C) : sadj (a * b) = sadj a * sadj b.
Proof. apply cplx_ext; cbn; ring. Qed.
Theorem conj_invol (a : C) : sadj (sadj a) = a.
Proof. apply cplx_ext; cbn; ring. Qed.
Theorem conj_0 : sadj (@s0 C) = s0.
Proof. apply cplx_ext; cbn; ring. Qed.
Theorem conj_1 : sadj (@s1 C) = s1.
Proof. apply cplx_ext; cbn; ring. Qed.
Theorem conj_real (a : S0) : sadj (cre a) = cre a.
Proof. apply cplx_ext; cbn; ring. Qed.
(* conjugation is NOT the identity as soon as -1 <> 1 in S0: i = (0,1) is moved *)
Theorem conj_i : sadj ((s0, s1) : T C) = ((s0, - s1) : T C).
Proof. reflexivity. Qed.

(* z * conj z = |z|^2, an embedded real *)
Theorem mul_conj_real (a : C) : a * sadj a = cre (c_norm2 S0 a).
Proof. apply cplx_ext; cbn; unfold c_norm2; cbn; ring. Qed.

(* the embedding of the reals is a ring homomorphism *)
Theorem c_of_re_add (a b : S0) : cre (a + b) = cre a + cre b.
Proof. apply cplx_ext; cbn; ring. Qed.
Theorem c_of_re_mul (a b : S0) : cre (a * b) = cre a * cre b.
Proof. apply cplx_ext; cbn; ring. Qed.

End ComplexRing.

(* ------------------------------------------------------------------ *)
(* closed instance: Gaussian rationals *)
Definition CQcS : Scalar := ComplexS QcS.
Lemma CQcS_ring : Sring CQcS.
Proof. exact (ComplexS_ring QcS QcS_ring). Qed.
Lemma CQcS_eqb : seqb_spec CQcS.
Proof. exact (ComplexS_eqb QcS QcS_eqb). Qed.
