(* MatOps2.v -- further sparse-matrix kernels of the builtin backend, definitions only.
   spgemm_rmerge  (amgcl/detail/spgemm.hpp:129-504): merge_rows (both variants),
                  prod_row_width (symbolic pass), prod_row (numeric pass);
   pointwise_matrix (amgcl/backend/builtin.hpp:500-663): both passes of the block
                  scan exactly as coded (current code, after fix 0e81e11), and the
                  pre-fix scan as [*_old] (the entry that ended the scan of a block
                  column was consumed: [beg++] preceded the [c >= col_end] test);
   spectral_radius (builtin.hpp:779-909): Gershgorin branch (current code: [dia] is
                  reset for every row) and the power method relative to an explicit
                  start vector (its [dia] still survives from row to row);
   crs constructors (builtin.hpp:76-172): from (ptr,col,val) ranges / row-iterator
                  adapters / copy.
   adapter::block_matrix / unblock_matrix (amgcl/adapter/block_matrix.hpp).
   A complex-rational Scalar instance (non-trivial adjoint) for the transpose tie.
   Proofs: MatOps2Proofs.v. *)
From Coq Require Import QArith Qcanon.
From Amgcl Require Import Scalar Vec Crs Kernels MatOps QcInst.
Local Close Scope Q_scope.
Local Close Scope Qc_scope.
Local Open Scope nat_scope.
Local Open Scope S_scope.

Section MatOps2.
Context {S : Scalar}.
Local Notation vec := (vec S).
Local Notation row := (row S).
Local Notation crs := (crs S).

(* ------------------------------------------------------------------ *)
(* spgemm_rmerge                                                       *)

(* merge_rows<true>(col1, col1_end, col2, col2_end, col3): union of two column lists *)
Fixpoint merge_cols (l1 l2 : list nat) {struct l1} : list nat :=
  match l1 with
  | [] => l2
  | c1 :: t1 =>
    (fix aux (l2 : list nat) : list nat :=
       match l2 with
       | [] => l1
       | c2 :: t2 =>
         if Nat.ltb c1 c2 then c1 :: merge_cols t1 l2
         else if Nat.eqb c1 c2 then c1 :: merge_cols t1 t2
         else c2 :: aux t2
       end) l2
  end.

(* merge_rows<false>: only the width, col3 + (col1_end - col1) + (col2_end - col2) *)
Fixpoint merge_count (l1 l2 : list nat) {struct l1} : nat :=
  match l1 with
  | [] => length l2
  | c1 :: t1 =>
    (fix aux (l2 : list nat) : nat :=
       match l2 with
       | [] => length l1
       | c2 :: t2 =>
         if Nat.ltb c1 c2 then Datatypes.S (merge_count t1 l2)
         else if Nat.eqb c1 c2 then Datatypes.S (merge_count t1 t2)
         else Datatypes.S (aux t2)
       end) l2
  end.

(* merge_rows(alpha1, row1, alpha2, row2) with values *)
Definition rscale (a : S) (r : row) : row := map (fun e => (fst e, a * snd e)) r.
Fixpoint merge_rows (a1 : S) (r1 : row) (a2 : S) (r2 : row) {struct r1} : row :=
  match r1 with
  | [] => rscale a2 r2
  | (c1, v1) :: t1 =>
    (fix aux (r2 : row) : row :=
       match r2 with
       | [] => rscale a1 r1
       | (c2, v2) :: t2 =>
         if Nat.ltb c1 c2 then (c1, a1 * v1) :: merge_rows a1 t1 a2 r2
         else if Nat.eqb c1 c2 then (c1, a1 * v1 + a2 * v2) :: merge_rows a1 t1 a2 t2
         else (c2, a2 * v2) :: aux t2
       end) r2
  end.

Definition brow (B : crs) (c : nat) : row := nth c (rows B) [].
Definition bcols (B : crs) (c : nat) : list nat := map fst (brow B c).

(* prod_row_width: nrows = 0 / 1 / 2 / generic (first two, then pairs, then tail) *)
Fixpoint width_pairs (B : crs) (t1 : list nat) (ca : list nat) : nat :=
  match ca with
  | a1 :: a2 :: tl =>
    let t2 := merge_cols (bcols B a1) (bcols B a2) in
    match tl with
    | [] => merge_count t1 t2
    | _ => width_pairs B (merge_cols t1 t2) tl
    end
  | [a2] => merge_count t1 (bcols B a2)
  | [] => length t1      (* not reachable from prod_row_width (generic case has >= 3 rows) *)
  end.
Definition prod_row_width (ca : list nat) (B : crs) : nat :=
  match ca with
  | [] => 0
  | [a] => length (bcols B a)
  | [a1; a2] => merge_count (bcols B a1) (bcols B a2)
  | a1 :: a2 :: tl => width_pairs B (merge_cols (bcols B a1) (bcols B a2)) tl
  end.

(* prod_row: the numeric pass *)
Fixpoint prod_pairs (B : crs) (tm1 : row) (ra : row) : row :=
  match ra with
  | (c1, v1) :: (c2, v2) :: tl =>
    prod_pairs B (merge_rows s1 tm1 s1 (merge_rows v1 (brow B c1) v2 (brow B c2))) tl
  | [(c2, v2)] => merge_rows s1 tm1 v2 (brow B c2)
  | [] => tm1
  end.
Definition prod_row (ra : row) (B : crs) : row :=
  match ra with
  | [] => []
  | [(c, v)] => rscale v (brow B c)
  | [(c1, v1); (c2, v2)] => merge_rows v1 (brow B c1) v2 (brow B c2)
  | (c1, v1) :: (c2, v2) :: tl => prod_pairs B (merge_rows v1 (brow B c1) v2 (brow B c2)) tl
  end.

Definition spgemm_rmerge (A B : crs) : crs :=
  mkCrs (ncols B) (map (fun ra => prod_row ra B) (rows A)).
(* C.ptr comes from the symbolic pass *)
Definition rmerge_widths (A B : crs) : list nat :=
  map (fun ra => prod_row_width (map fst ra) B) (rows A).

(* backend::product: nt > 16 selects rmerge (which ignores [sort]) *)
Definition product (nt : nat) (A B : crs) (sort : bool) : crs :=
  if Nat.ltb 16 nt then spgemm_rmerge A B else spgemm_saad A B sort.

(* ------------------------------------------------------------------ *)
(* pointwise_matrix                                                    *)

(* (done, cur_col) as an option: None = done *)
Definition upd_cur (cur : option nat) (c : nat) : option nat :=
  match cur with None => Some c | Some c0 => Some (Nat.min c0 c) end.

(* initial scan of the block row: first column of every non-empty row *)
Definition pw_init (js : list row) : option nat :=
  fold_left (fun cur r => match r with [] => cur | e :: _ => upd_cur cur (fst e) end) js None.

(* inner while loop over one row of the block: consume the entries with c < col_end; the
   first entry with c >= col_end ends the loop and is NOT consumed (++beg follows the test;
   /repo commit 0e81e11).  acc = (first, cur_val) as option.
   returns (rest of the row, cur, acc) *)
Fixpoint pw_scan_row (col_end : nat) (r : row) (cur : option nat) (acc : option S)
  : row * option nat * option S :=
  match r with
  | [] => ([], cur, acc)
  | (c, v) :: tl =>
    if Nat.leb col_end c then ((c, v) :: tl, upd_cur cur c, acc)
    else pw_scan_row col_end tl cur
           (Some (match acc with None => sabs v | Some m => smax m (sabs v) end))
  end.

(* for(k < block_size) over the rows of the block *)
Fixpoint pw_pass (col_end : nat) (js : list row) (cur : option nat) (acc : option S)
  : list row * option nat * option S :=
  match js with
  | [] => ([], cur, acc)
  | r :: rest =>
    let '(r', cur1, acc1) := pw_scan_row col_end r cur acc in
    let '(rest', cur2, acc2) := pw_pass col_end rest cur1 acc1 in
    (r' :: rest', cur2, acc2)
  end.

(* while(!done): fuel = number of stored entries of the block row + 1 is enough *)
Fixpoint pw_loop (fuel bs : nat) (cur : option nat) (js : list row) : row :=
  match fuel with
  | O => []
  | Datatypes.S f =>
    match cur with
    | None => []
    | Some c0 =>
      let cc := Nat.div c0 bs in
      let '(js', cur', acc) := pw_pass ((cc + 1) * bs) js None None in
      (cc, match acc with None => s0 | Some m => m end) :: pw_loop f bs cur' js'
    end
  end.

(* the counting pass (first omp region): same control flow without values *)
Fixpoint pwc_scan_row (col_end : nat) (r : list nat) (cur : option nat) : list nat * option nat :=
  match r with
  | [] => ([], cur)
  | c :: tl => if Nat.leb col_end c then (c :: tl, upd_cur cur c) else pwc_scan_row col_end tl cur
  end.
Fixpoint pwc_pass (col_end : nat) (js : list (list nat)) (cur : option nat)
  : list (list nat) * option nat :=
  match js with
  | [] => ([], cur)
  | r :: rest =>
    let '(r', cur1) := pwc_scan_row col_end r cur in
    let '(rest', cur2) := pwc_pass col_end rest cur1 in
    (r' :: rest', cur2)
  end.
Fixpoint pwc_loop (fuel bs : nat) (cur : option nat) (js : list (list nat)) : nat :=
  match fuel with
  | O => 0
  | Datatypes.S f =>
    match cur with
    | None => 0
    | Some c0 =>
      let cc := Nat.div c0 bs in
      let '(js', cur') := pwc_pass ((cc + 1) * bs) js None in
      Datatypes.S (pwc_loop f bs cur' js')
    end
  end.

Definition pw_fuel (js : list row) : nat :=
  Datatypes.S (fold_left (fun a r => a + length r)%nat js 0%nat).

Definition pw_block_row (bs : nat) (js : list row) : row :=
  pw_loop (pw_fuel js) bs (pw_init js) js.
Definition pw_block_count (bs : nat) (js : list row) : nat :=
  pwc_loop (pw_fuel js) bs (pw_init js) (map (map fst) js).

(* consecutive groups of bs rows; np = n / bs groups *)
Fixpoint groups {X} (np bs : nat) (l : list X) : list (list X) :=
  match np with
  | O => []
  | Datatypes.S k => firstn bs l :: groups k bs (skipn bs l)
  end.

(* None = precondition "Matrix size should be divisible by block_size" fails.
   bs = 0 divides by zero in the C++: excluded (None as well). *)
Definition pointwise_matrix (A : crs) (bs : nat) : option crs :=
  if Nat.eqb bs 0 then None else
  let np := Nat.div (nrows A) bs in
  if negb (Nat.eqb (np * bs) (nrows A)) then None else
  Some (mkCrs (Nat.div (ncols A) bs) (map (pw_block_row bs) (groups np bs (rows A)))).
Definition pointwise_counts (A : crs) (bs : nat) : list nat :=
  map (pw_block_count bs) (groups (Nat.div (nrows A) bs) bs (rows A)).

(* --- specification of the reduction (used by theorems and by the oracle op):
   entry (I,J) = max of the norms of the stored entries of block (I,J);
   pattern = blocks that contain a stored entry; columns increasing *)
Definition block_vals (bs J : nat) (js : list row) : list S :=
  flat_map (fun r => map (fun e => sabs (snd e))
                         (filter (fun e => Nat.eqb (Nat.div (fst e) bs) J) r)) js.
Definition max_list (l : list S) : option S :=
  match l with [] => None | x :: tl => Some (fold_left smax tl x) end.
Definition pw_spec_row (bs mp : nat) (js : list row) : row :=
  flat_map (fun J => match max_list (block_vals bs J js) with
                     | None => [] | Some m => [(J, m)] end) (seq 0 mp).
Definition pointwise_spec (A : crs) (bs : nat) : crs :=
  let np := Nat.div (nrows A) bs in
  let mp := Nat.div (ncols A) bs in
  mkCrs mp (map (pw_spec_row bs mp) (groups np bs (rows A))).

(* --- the scan as it was BEFORE /repo commit 0e81e11 (kept for the refutation theorems
   C08_pointwise_old_refuted and ..._pattern): an entry with c >= col_end is CONSUMED TOO and ends the loop.  acc = (first, cur_val) as option.
   returns (rest of the row, cur, acc) *)
Fixpoint pw_scan_row_old (col_end : nat) (r : row) (cur : option nat) (acc : option S)
  : row * option nat * option S :=
  match r with
  | [] => ([], cur, acc)
  | (c, v) :: tl =>
    if Nat.leb col_end c then (tl, upd_cur cur c, acc)
    else pw_scan_row_old col_end tl cur
           (Some (match acc with None => sabs v | Some m => smax m (sabs v) end))
  end.

(* for(k < block_size) over the rows of the block *)
Fixpoint pw_pass_old (col_end : nat) (js : list row) (cur : option nat) (acc : option S)
  : list row * option nat * option S :=
  match js with
  | [] => ([], cur, acc)
  | r :: rest =>
    let '(r', cur1, acc1) := pw_scan_row_old col_end r cur acc in
    let '(rest', cur2, acc2) := pw_pass_old col_end rest cur1 acc1 in
    (r' :: rest', cur2, acc2)
  end.

(* while(!done): fuel = number of stored entries of the block row + 1 is enough *)
Fixpoint pw_loop_old (fuel bs : nat) (cur : option nat) (js : list row) : row :=
  match fuel with
  | O => []
  | Datatypes.S f =>
    match cur with
    | None => []
    | Some c0 =>
      let cc := Nat.div c0 bs in
      let '(js', cur', acc) := pw_pass_old ((cc + 1) * bs) js None None in
      (cc, match acc with None => s0 | Some m => m end) :: pw_loop_old f bs cur' js'
    end
  end.

(* the counting pass (first omp region): same control flow without values *)
Fixpoint pwc_scan_row_old (col_end : nat) (r : list nat) (cur : option nat) : list nat * option nat :=
  match r with
  | [] => ([], cur)
  | c :: tl => if Nat.leb col_end c then (tl, upd_cur cur c) else pwc_scan_row_old col_end tl cur
  end.
Fixpoint pwc_pass_old (col_end : nat) (js : list (list nat)) (cur : option nat)
  : list (list nat) * option nat :=
  match js with
  | [] => ([], cur)
  | r :: rest =>
    let '(r', cur1) := pwc_scan_row_old col_end r cur in
    let '(rest', cur2) := pwc_pass_old col_end rest cur1 in
    (r' :: rest', cur2)
  end.
Fixpoint pwc_loop_old (fuel bs : nat) (cur : option nat) (js : list (list nat)) : nat :=
  match fuel with
  | O => 0
  | Datatypes.S f =>
    match cur with
    | None => 0
    | Some c0 =>
      let cc := Nat.div c0 bs in
      let '(js', cur') := pwc_pass_old ((cc + 1) * bs) js None in
      Datatypes.S (pwc_loop_old f bs cur' js')
    end
  end.

Definition pw_block_row_old (bs : nat) (js : list row) : row :=
  pw_loop_old (pw_fuel js) bs (pw_init js) js.
Definition pw_block_count_old (bs : nat) (js : list row) : nat :=
  pwc_loop_old (pw_fuel js) bs (pw_init js) (map (map fst) js).

(* None = precondition "Matrix size should be divisible by block_size" fails.
   bs = 0 divides by zero in the C++: excluded (None as well). *)
Definition pointwise_matrix_old (A : crs) (bs : nat) : option crs :=
  if Nat.eqb bs 0 then None else
  let np := Nat.div (nrows A) bs in
  if negb (Nat.eqb (np * bs) (nrows A)) then None else
  Some (mkCrs (Nat.div (ncols A) bs) (map (pw_block_row_old bs) (groups np bs (rows A)))).
Definition pointwise_counts_old (A : crs) (bs : nat) : list nat :=
  map (pw_block_count_old bs) (groups (Nat.div (nrows A) bs) bs (rows A)).


(* ------------------------------------------------------------------ *)
(* spectral_radius                                                     *)

Definition s2 : S := s1 + s1.      (* static_cast<scalar_type>(2) *)

(* one row of the Gershgorin loop; [dia] is a local of the row, initialised to the identity
   (/repo commit 519d545; before that it was a thread-private variable that survived from row
   to row) and overwritten by every stored entry with column = row index *)
Definition gersh_row (scale : bool) (emax : S) (ir : nat * row) : S :=
  let sd := fold_left (fun (sd : S * S) e =>
                         (fst sd + sabs (snd e),
                          if scale && Nat.eqb (fst e) (fst ir) then snd e else snd sd))
                      (snd ir) (s0, s1) in
  let s := if scale then fst sd * sabs (sinv (snd sd)) else fst sd in
  smax emax s.
(* one thread: emax = 0, then its chunk of rows *)
Definition gersh_chunk (scale : bool) (irs : list (nat * row)) : S :=
  fold_left (gersh_row scale) irs s0.
(* all threads ([lens] = chunk lengths of the static schedule), combined by max *)
Definition spectral_radius_gersh (scale : bool) (lens : list nat) (A : crs) : S :=
  let radius := fold_left (fun r ch => smax r (gersh_chunk scale ch))
                          (chunks lens (indexed (rows A))) s0 in
  if sltb radius s0 then s2 else radius.

(* specification values *)
Definition abs_row_sum (r : row) : S := fold_left (fun a e => a + sabs (snd e)) r s0.
Fixpoint last_col (r : row) (i : nat) : option S :=
  match r with
  | [] => None
  | (c, v) :: tl => match last_col tl i with Some d => Some d | None => if Nat.eqb c i then Some v else None end
  end.
Definition gersh_spec_row (scale : bool) (ir : nat * row) : S :=
  if scale then
    abs_row_sum (snd ir) * sabs (sinv (match last_col (snd ir) (fst ir) with Some d => d | None => s1 end))
  else abs_row_sum (snd ir).
Definition max_from (x : S) (l : list S) : S := fold_left smax l x.
Definition gersh_spec (scale : bool) (A : crs) : S :=
  max_from s0 (map (gersh_spec_row scale) (indexed (rows A))).

(* power method, one thread, explicit start vector b0 (the random values) *)
Definition pm_row (scale : bool) (b0 : vec) (st : S * S * S * vec) (ir : nat * row)
  : S * S * S * vec :=
  let '(nrm, rad, dia, b1) := st in
  let sd := fold_left (fun (sd : S * S) e =>
                         (fst sd + snd e * vget b0 (fst e),
                          if scale && Nat.eqb (fst e) (fst ir) then snd e else snd sd))
                      (snd ir) (s0, dia) in
  let s := if scale then sinv (snd sd) * fst sd else fst sd in
  (nrm + sabs (s * s), rad + sabs (s * vget b0 (fst ir)), snd sd, b1 ++ [s]).
Definition pm_iter (scale : bool) (A : crs) (b0 : vec) : S * S * vec :=
  let '(nrm, rad, _, b1) := fold_left (pm_row scale b0) (indexed (rows A)) (s0, s0, s1, []) in
  (nrm, rad, b1).
Definition pm_normalize (nrm : S) (b : vec) : vec :=
  let f := s1 / ssqrt nrm in map (fun x => f * x) b.
Fixpoint pm_loop (scale : bool) (A : crs) (iters : nat) (b0 : vec) (radius : S) : S :=
  match iters with
  | O => radius
  | Datatypes.S k =>
    let '(nrm, rad, b1) := pm_iter scale A b0 in
    match k with
    | O => rad
    | _ => pm_loop scale A k (pm_normalize nrm b1) rad
    end
  end.
Definition spectral_radius_power (scale : bool) (A : crs) (iters : nat) (start : vec) : S :=
  let nrm0 := fold_left (fun a v => a + sabs (v * v)) start s0 in
  let radius := pm_loop scale A iters (pm_normalize nrm0 start) s0 in
  if sltb radius s0 then s2 else radius.

(* ------------------------------------------------------------------ *)
(* crs constructors                                                    *)

Definition slice {X} (l : list X) (b e : nat) : list X := firstn (e - b) (skipn b l).

(* flat view of a matrix *)
Definition flat_ptr (A : crs) : list nat :=
  fold_left (fun p r => p ++ [last p 0 + length r]%nat) (rows A) [0%nat].
Definition flat_col (A : crs) : list nat := flat_map (map fst) (rows A).
Definition flat_val (A : crs) : vec := flat_map (map snd) (rows A).

(* crs(nrows, ncols, ptr_range, col_range, val_range); None = precondition failure.
   The row-iterator constructor crs(const Matrix&) applied to a (n, ptr, col, val)
   tuple adapter, the copy constructor and operator= build the same rows
   (without the size preconditions). *)
Definition rows_of_ranges (n : nat) (ptr col : list nat) (val : vec) : list row :=
  map (fun i => combine (slice col (nth i ptr 0%nat) (nth (i + 1) ptr 0%nat))
                        (slice val (nth i ptr 0%nat) (nth (i + 1) ptr 0%nat)))
      (seq 0 n).
Definition crs_of_ranges (n m : nat) (ptr col : list nat) (val : vec) : option crs :=
  if negb (Nat.eqb (length ptr) (n + 1)) then None else
  let nnz := nth n ptr 0%nat in
  if negb (Nat.eqb (length col) nnz) then None else
  if negb (Nat.eqb (length val) nnz) then None else
  Some (mkCrs m (rows_of_ranges n ptr col val)).
Definition crs_of_adapter (n m : nat) (ptr col : list nat) (val : vec) : crs :=
  mkCrs m (rows_of_ranges n ptr col val).
Definition crs_copy (A : crs) : crs :=
  crs_of_adapter (nrows A) (ncols A) (flat_ptr A) (flat_col A) (flat_val A).

(* ------------------------------------------------------------------ *)
(* adapter::block_matrix (amgcl/adapter/block_matrix.hpp:43-170): scalar CRS viewed as a
   CRS of bs x bs blocks through block_matrix_adapter::row_iterator, copied into
   crs<static_matrix<V,bs,bs>> by the row-iterator constructor; and unblock_matrix (172-235). *)

Definition blk := list (list S).                   (* bs rows of bs values, row-major *)
Record bcrs := mkBcrs { bncols : nat; brows : list (list (nat * blk)) }.

Fixpoint set_nth {X} (n : nat) (x : X) (l : list X) : list X :=
  match l, n with
  | [], _ => []
  | _ :: tl, O => x :: tl
  | y :: tl, Datatypes.S k => y :: set_nth k x tl
  end.

(* cur_col = min over the non-exhausted rows of (head column / BlockSize) *)
Definition bm_min (bs : nat) (js : list row) : option nat :=
  fold_left (fun cur r => match r with [] => cur | e :: _ => upd_cur cur (Nat.div (fst e) bs) end) js None.

(* for(; base[i] && base[i].col() < end; ++base[i]) cur_val(i, col % BlockSize) = value;
   the block row [vals] starts as zeros (cur_val = math::zero) and entries OVERWRITE *)
Fixpoint bm_gather_row (bs col_end : nat) (r : row) (vals : list S) : row * list S :=
  match r with
  | [] => ([], vals)
  | (c, v) :: tl =>
    if Nat.ltb c col_end then bm_gather_row bs col_end tl (set_nth (Nat.modulo c bs) v vals)
    else ((c, v) :: tl, vals)
  end.
Definition bm_gather (bs col_end : nat) (js : list row) : list row * blk :=
  let g := map (fun r => bm_gather_row bs col_end r (repeat s0 bs)) js in
  (map fst g, map snd g).

(* the iterator: constructor = first step, operator++ = further steps; fuel = stored entries + 1 *)
Fixpoint bm_loop (fuel bs : nat) (js : list row) : list (nat * blk) :=
  match fuel with
  | O => []
  | Datatypes.S f =>
    match bm_min bs js with
    | None => []
    | Some cc =>
      let '(js', b) := bm_gather bs ((cc + 1) * bs) js in
      (cc, b) :: bm_loop f bs js'
    end
  end.
Definition bm_block_row (bs : nat) (js : list row) : list (nat * blk) :=
  bm_loop (pw_fuel js) bs js.

(* crs<Block>(adapter::block_matrix<Block>(A)); None = "Matrix size is not divisible by block
   size!" (bs = 0 is not a static_matrix size: excluded) *)
Definition block_matrix (A : crs) (bs : nat) : option bcrs :=
  if Nat.eqb bs 0 then None else
  let np := Nat.div (nrows A) bs in
  let mp := Nat.div (ncols A) bs in
  if negb (Nat.eqb (np * bs) (nrows A)) || negb (Nat.eqb (mp * bs) (ncols A)) then None else
  Some (mkBcrs mp (map (bm_block_row bs) (groups np bs (rows A)))).

(* unblock_matrix: every stored block contributes all its bs*bs values (zeros included) *)
Definition unblock_row (bs : nat) (i : nat) (br : list (nat * blk)) : row :=
  flat_map (fun cb => map (fun j => ((fst cb * bs + j)%nat, nth j (nth i (snd cb) []) s0)) (seq 0 bs)) br.
Definition unblock_matrix (bs : nat) (B : bcrs) : crs :=
  mkCrs (bncols B * bs) (flat_map (fun br => map (fun i => unblock_row bs i br) (seq 0 bs)) (brows B)).

(* specification: block (I,J) is stored iff some entry of A is stored in it; its value is the
   dense bs x bs sub-matrix; block columns increasing *)
Definition block_has (bs J : nat) (js : list row) : bool :=
  existsb (fun r => existsb (fun e => Nat.eqb (Nat.div (fst e) bs) J) r) js.
Definition block_dense (bs J : nat) (js : list row) : blk :=
  map (fun r => map (fun l => rget r (J * bs + l)) (seq 0 bs)) js.
Definition block_spec_row (bs mp : nat) (js : list row) : list (nat * blk) :=
  flat_map (fun J => if block_has bs J js then [(J, block_dense bs J js)] else []) (seq 0 mp).
Definition block_spec (A : crs) (bs : nat) : bcrs :=
  let np := Nat.div (nrows A) bs in
  let mp := Nat.div (ncols A) bs in
  mkBcrs mp (map (block_spec_row bs mp) (groups np bs (rows A))).
Definition blk_eqb (a b : blk) : bool :=
  Nat.eqb (length a) (length b) &&
  forallb (fun rr => Nat.eqb (length (fst rr)) (length (snd rr)) &&
                     forallb (fun vv => seqb (fst vv) (snd vv)) (combine (fst rr) (snd rr)))
          (combine a b).
Definition bcrs_eqb (A C : bcrs) : bool :=
  Nat.eqb (bncols A) (bncols C) && Nat.eqb (length (brows A)) (length (brows C)) &&
  forallb (fun rr => Nat.eqb (length (fst rr)) (length (snd rr)) &&
                     forallb (fun ee => Nat.eqb (fst (fst ee)) (fst (snd ee)) && blk_eqb (snd (fst ee)) (snd (snd ee)))
                             (combine (fst rr) (snd rr)))
          (combine (brows A) (brows C)).

(* ------------------------------------------------------------------ *)
(* dense comparison helpers for the oracle ops                        *)
Definition dense_prod_entry (A B : crs) (i j : nat) : S :=
  sumn (fun k => mget A i k * mget B k j) (ncols A).
Definition all_entries (n m : nat) (p : nat -> nat -> bool) : bool :=
  forallb (fun i => forallb (fun j => p i j) (seq 0 m)) (seq 0 n).
Definition dense_eq_product (A B C : crs) : bool :=
  Nat.eqb (nrows C) (nrows A) && Nat.eqb (ncols C) (ncols B) && wf C &&
  all_entries (nrows A) (ncols B) (fun i j => seqb (mget C i j) (dense_prod_entry A B i j)).
Definition dense_eq_transpose (A C : crs) : bool :=
  Nat.eqb (nrows C) (ncols A) && Nat.eqb (ncols C) (nrows A) && wf C &&
  all_entries (nrows A) (ncols A) (fun i j => seqb (mget C j i) (sadj (mget A i j))).
Definition dense_eq_sum (alpha : S) (A : crs) (beta : S) (B C : crs) : bool :=
  Nat.eqb (nrows C) (nrows A) && Nat.eqb (ncols C) (ncols A) && wf C &&
  all_entries (nrows A) (ncols A)
    (fun i j => seqb (mget C i j) (alpha * mget A i j + beta * mget B i j)).
Definition dense_eq_scale (A : crs) (s : S) (C : crs) : bool :=
  Nat.eqb (nrows C) (nrows A) && Nat.eqb (ncols C) (ncols A) && wf C &&
  all_entries (nrows A) (ncols A) (fun i j => seqb (mget C i j) (mget A i j * s)).
Definition dense_eq (A C : crs) : bool :=
  Nat.eqb (nrows C) (nrows A) && Nat.eqb (ncols C) (ncols A) && wf C &&
  all_entries (nrows A) (ncols A) (fun i j => seqb (mget C i j) (mget A i j)).
Definition rows_sorted_strict (A : crs) : bool := forallb sorted_strict (rows A).
Definition rows_sorted_weak (A : crs) : bool := forallb sorted_weak (rows A).
Definition rows_nodup (A : crs) : bool :=
  forallb (fun r => Nat.eqb (length (nodup Nat.eq_dec (map fst r))) (length r)) (rows A).
(* diagonal: first stored diagonal entry (inverted; identity for a zero entry) *)
Definition diag_spec_ok (A : crs) (invert : bool) (d : vec) : bool :=
  Nat.eqb (length d) (nrows A) &&
  forallb (fun ir => match first_col (snd ir) (fst ir) with
                     | Some x => seqb (vget d (fst ir)) (diag_val invert x)
                     | None => true end) (indexed (rows A)).
Definition crs_eqb (A C : crs) : bool :=
  Nat.eqb (ncols A) (ncols C) && Nat.eqb (nrows A) (nrows C) &&
  forallb (fun rr => Nat.eqb (length (fst rr)) (length (snd rr)) &&
                     forallb (fun ee => Nat.eqb (fst (fst ee)) (fst (snd ee)) && seqb (snd (fst ee)) (snd (snd ee)))
                             (combine (fst rr) (snd rr)))
          (combine (rows A) (rows C)).

End MatOps2.

(* ------------------------------------------------------------------ *)
(* complex rationals: a Scalar with a non-trivial adjoint (std::complex in the C++).
   Only + - * adj = are meaningful here (abs/sqrt/lt/inv are not used by the
   kernels this instance is run through: transpose, product, sum, scale). *)
Definition cq := (Qc * Qc)%type.
Definition cq_add (a b : cq) : cq := (Qcplus (fst a) (fst b), Qcplus (snd a) (snd b)).
Definition cq_sub (a b : cq) : cq := (Qcminus (fst a) (fst b), Qcminus (snd a) (snd b)).
Definition cq_mul (a b : cq) : cq :=
  (Qcminus (Qcmult (fst a) (fst b)) (Qcmult (snd a) (snd b)),
   Qcplus (Qcmult (fst a) (snd b)) (Qcmult (snd a) (fst b))).
Definition cq_opp (a : cq) : cq := (Qcopp (fst a), Qcopp (snd a)).
Definition cq_conj (a : cq) : cq := (fst a, Qcopp (snd a)).
Definition cq_inv (a : cq) : cq :=
  let d := Qcplus (Qcmult (fst a) (fst a)) (Qcmult (snd a) (snd a)) in
  (Qcdiv (fst a) d, Qcdiv (Qcopp (snd a)) d).
Definition cq_eqb (a b : cq) : bool := qc_eqb (fst a) (fst b) && qc_eqb (snd a) (snd b).
Definition cq0 : cq := (Q2Qc 0, Q2Qc 0).
Definition cq1 : cq := (Q2Qc 1, Q2Qc 0).
Definition CqS : Scalar :=
  mkScalar cq cq0 cq1 cq_add cq_mul cq_sub cq_opp (fun a b => cq_mul a (cq_inv b)) cq_inv
           cq_conj (fun a => a) (fun a => a) cq_eqb (fun _ _ => false) cq0 (fun q => (Q2Qc q, Q2Qc 0)).
