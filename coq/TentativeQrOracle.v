(* TentativeQrOracle.v -- C04: the boolean oracles the harness evaluates on the implementation's (P, B_coarse)
   for the near-null-space variant (TentativeQr.ns_reproduces_ok, ns_orthonormal_ok) are implied by the theorems
   of TentativeQrProofs.v: what is checked on the real code is the statement proved for the model. *)
From Amgcl Require Import Scalar Vec Crs Kernels KernelsProofs MatOps MatOpsProofs Aggregates Tentative
     Coarsen CoarsenProofs DirectUtil Qr QrProofs QrMathRefl QrMathMain TentativeQr TentativeQrProofs.
Local Open Scope S_scope.

Lemma In_indexed_nth {X} (l : list X) k x d : In (k, x) (indexed l) -> k < length l /\ nth k l d = x.
Proof.
  intro H. unfold indexed in H. apply (In_nth _ _ (0%nat, d)) in H as (m & Hm & E).
  rewrite combine_length, seq_length, Nat.min_id in Hm.
  rewrite combine_nth in E by (rewrite seq_length; reflexivity). rewrite seq_nth in E by exact Hm.
  injection E as <- <-. split; [exact Hm|]. apply nth_indep. exact Hm.
Qed.

Section Oracle.
Variable S : Scalar.
Hypothesis Sft : Sfield S.
Hypothesis Seqb : seqb_spec S.
Hypothesis Hadj : forall x : S, sadj x = x.
Hypothesis Habs : forall x : S, (sabs x * sabs x = x * x)%S.
Hypothesis Hsqrt : forall y : S, sos y -> (ssqrt y * ssqrt y = y)%S.
Hypothesis Hreal : forall y x : S, sos y -> (y + x * x = s0)%S -> y = s0.

Theorem tentative_qr_oracles_complete (bs cols naggr : nat) (id : list Z) (B : mat (S:=S)) (q0 : vec S) :
  0 < cols ->
  (forall k, k < length id -> (0 <= zget id k)%Z -> Nat.div (Z.to_nat (zget id k)) bs < Nat.div naggr bs) ->
  (forall i, i < Nat.div naggr bs -> cols <= length (members bs id i)) ->
  let PB := tentative_prolongation_qr bs cols naggr id B q0 in
  ns_reproduces_ok cols id B (fst PB) (snd PB) = true /\ ns_orthonormal_ok (fst PB) = true.
Proof.
  intros Hc Hrange Hbig PB. split.
  - unfold ns_reproduces_ok. apply forallb_forall. intros [k a] Hin. cbn [fst snd].
    destruct (In_indexed_nth id k a removed Hin) as [Hk Ha]. fold (zget id k) in Ha. subst a.
    destruct (Z.ltb_spec (zget id k) 0) as [Hneg|Hpos]; [reflexivity|]. cbn [orb].
    apply forallb_forall. intros c Hcin. apply in_seq in Hcin. apply Seqb.
    assert (Hcc : c < cols) by lia.
    exact (tentative_qr_reproduces S Sft Seqb Hadj Habs Hsqrt Hreal bs cols naggr id B q0 k c Hc Hcc Hk Hpos
             (Hrange k Hk Hpos) (Hbig _ (Hrange k Hk Hpos))).
  - unfold ns_orthonormal_ok. apply forallb_forall. intros j1 H1. apply in_seq in H1.
    apply forallb_forall. intros j2 H2. apply in_seq in H2. apply Seqb.
    unfold PB in *. apply (tentative_qr_orthonormal S Sft Seqb Hadj Habs Hsqrt Hreal bs cols naggr id B q0 Hbig); lia.
Qed.
End Oracle.
