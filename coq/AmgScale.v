(* AmgScale.v -- property C02-B2, the scaling clause: building the hierarchy from c*A with the same
   transfer operators gives the level matrices c*A_l (structurally: the same CRS patterns, every
   stored value multiplied by c), and smoothers / coarse solve / cycle / apply of the scaled
   hierarchy applied to f are those of the original hierarchy applied to f/c.
   Part 1 (this file, commutative ring): the set-up phase commutes with the scaling.
     mscale A c = "A.val[j] *= c" (MatOps.v);  sort_rows, both SpGEMM factors, galerkin,
     scaled_galerkin, build, amg_init, rebuild. *)
From Amgcl Require Import Scalar Vec Crs Kernels KernelsProofs MatOps MatOpsProofs Relax DenseSolve
  Amg AmgExec AmgProofs.
Local Open Scope S_scope.

Section ScaleSetup.
Context {S : Scalar}.
Local Notation vec := (vec S).
Local Notation row := (row S).
Local Notation crs := (crs S).
Local Notation ldesc := (@ldesc S).
Hypothesis Srt : Sring S.
Add Ring SRingSc1 : Srt.

Variable c : S.

(* one stored entry *)
Definition sce (e : nat * S) : nat * S := (fst e, snd e * c).

Lemma mscale_rows (A : crs) : rows (mscale A c) = map (map sce) (rows A).
Proof. reflexivity. Qed.

Lemma mscale_mk m (rs : list row) : mscale (mkCrs m rs) c = mkCrs m (map (map sce) rs).
Proof. reflexivity. Qed.

Lemma mscale_ncols (A : crs) : ncols (mscale A c) = ncols A.
Proof. reflexivity. Qed.

Lemma mscale_nth_row (A : crs) i : nth i (rows (mscale A c)) [] = map sce (nth i (rows A) []).
Proof. rewrite mscale_rows. change (@nil (nat * S)) with (map sce []) at 1. apply map_nth. Qed.

(* --- sorting only looks at the columns --- *)
Lemma ins_right_sce (e : nat * S) (r : row) : ins_right (sce e) (map sce r) = map sce (ins_right e r).
Proof.
  induction r as [|e' r IH]; [reflexivity|]. cbn [map ins_right]. cbn [sce fst].
  destruct (Nat.leb (fst e') (fst e)); [|reflexivity]. cbn [map]. f_equal. exact IH.
Qed.

Lemma sort_fold_sce (r acc : row) :
  fold_left (fun a e => ins_right e a) (map sce r) (map sce acc) =
  map sce (fold_left (fun a e => ins_right e a) r acc).
Proof.
  revert acc; induction r as [|e r IH]; intro acc; [reflexivity|]. cbn [map fold_left].
  rewrite ins_right_sce. apply IH.
Qed.

Lemma sort_row_sce (r : row) : sort_row (map sce r) = map sce (sort_row r).
Proof. unfold sort_row. apply (sort_fold_sce r []). Qed.

Theorem sort_rows_mscale (A : crs) : sort_rows (mscale A c) = mscale (sort_rows A) c.
Proof.
  unfold sort_rows, mscale. cbn [ncols rows]. f_equal. rewrite !map_map.
  apply map_ext. intro r. apply sort_row_sce.
Qed.

(* --- the marker-array accumulation --- *)
Lemma row_add_sce (r : row) col (v : S) : row_add (map sce r) col (v * c) = map sce (row_add r col v).
Proof.
  induction r as [|[c' v'] r IH]; [reflexivity|]. cbn [map row_add sce fst snd].
  destruct (Nat.eqb c' col).
  - cbn [map sce fst snd]. replace (v' * c + v * c) with ((v' + v) * c) by ring. reflexivity.
  - cbn [map sce fst snd]. f_equal. exact IH.
Qed.

(* left factor scaled *)
Lemma spgemm_inner_l (va : S) (rb acc : row) :
  fold_left (fun a eb => row_add a (fst eb) (va * c * snd eb)) rb (map sce acc) =
  map sce (fold_left (fun a eb => row_add a (fst eb) (va * snd eb)) rb acc).
Proof.
  revert acc; induction rb as [|eb rb IH]; intro acc; [reflexivity|]. cbn [fold_left].
  replace (va * c * snd eb) with (va * snd eb * c) by ring. rewrite row_add_sce. apply IH.
Qed.

Lemma spgemm_fold_l (B : crs) (ra acc : row) :
  fold_left (fun a ea => fold_left (fun a eb => row_add a (fst eb) (snd ea * snd eb))
                                   (nth (fst ea) (rows B) []) a) (map sce ra) (map sce acc) =
  map sce (fold_left (fun a ea => fold_left (fun a eb => row_add a (fst eb) (snd ea * snd eb))
                                            (nth (fst ea) (rows B) []) a) ra acc).
Proof.
  revert acc; induction ra as [|ea ra IH]; intro acc; [reflexivity|]. cbn [map fold_left].
  cbn [sce fst snd]. rewrite spgemm_inner_l. apply IH.
Qed.

Lemma spgemm_row_sce_l (ra : row) (B : crs) : spgemm_row (map sce ra) B = map sce (spgemm_row ra B).
Proof. unfold spgemm_row. apply (spgemm_fold_l B ra []). Qed.

(* right factor scaled *)
Lemma spgemm_inner_r (va : S) (rb acc : row) :
  fold_left (fun a eb => row_add a (fst eb) (va * snd eb)) (map sce rb) (map sce acc) =
  map sce (fold_left (fun a eb => row_add a (fst eb) (va * snd eb)) rb acc).
Proof.
  revert acc; induction rb as [|eb rb IH]; intro acc; [reflexivity|]. cbn [map fold_left].
  cbn [sce fst snd]. replace (va * (snd eb * c)) with (va * snd eb * c) by ring.
  rewrite row_add_sce. apply IH.
Qed.

Lemma spgemm_fold_r (B : crs) (ra acc : row) :
  fold_left (fun a ea => fold_left (fun a eb => row_add a (fst eb) (snd ea * snd eb))
                                   (nth (fst ea) (rows (mscale B c)) []) a) ra (map sce acc) =
  map sce (fold_left (fun a ea => fold_left (fun a eb => row_add a (fst eb) (snd ea * snd eb))
                                            (nth (fst ea) (rows B) []) a) ra acc).
Proof.
  revert acc; induction ra as [|ea ra IH]; intro acc; [reflexivity|]. cbn [fold_left].
  rewrite mscale_nth_row, spgemm_inner_r. apply IH.
Qed.

Lemma spgemm_row_sce_r (ra : row) (B : crs) : spgemm_row ra (mscale B c) = map sce (spgemm_row ra B).
Proof. unfold spgemm_row. apply (spgemm_fold_r B ra []). Qed.

Theorem spgemm_saad_mscale_l (A B : crs) srt :
  spgemm_saad (mscale A c) B srt = mscale (spgemm_saad A B srt) c.
Proof.
  unfold spgemm_saad, mscale. cbn [ncols rows]. f_equal. rewrite !map_map. apply map_ext. intro ra.
  cbv zeta. rewrite spgemm_row_sce_l. destruct srt; [apply sort_row_sce|reflexivity].
Qed.

Theorem spgemm_saad_mscale_r (A B : crs) srt :
  spgemm_saad A (mscale B c) srt = mscale (spgemm_saad A B srt) c.
Proof.
  unfold spgemm_saad. rewrite mscale_ncols, mscale_mk. f_equal.
  rewrite map_map. apply map_ext. intro ra.
  cbv zeta. rewrite spgemm_row_sce_r. destruct srt; [apply sort_row_sce|reflexivity].
Qed.

(* Galerkin and re-scaled Galerkin coarse operators of c*A are c times those of A *)
Theorem galerkin_mscale (A P R : crs) : galerkin (mscale A c) P R = mscale (galerkin A P R) c.
Proof. unfold galerkin. rewrite spgemm_saad_mscale_l, spgemm_saad_mscale_r. reflexivity. Qed.

Lemma mscale_comm (A : crs) (s : S) : mscale (mscale A c) s = mscale (mscale A s) c.
Proof.
  unfold mscale. cbn [ncols rows]. f_equal. rewrite !map_map. apply map_ext. intro r.
  rewrite !map_map. apply map_ext. intro e. cbn [fst snd]. f_equal. ring.
Qed.

Theorem scaled_galerkin_mscale s (A P R : crs) :
  scaled_galerkin s (mscale A c) P R = mscale (scaled_galerkin s A P R) c.
Proof. unfold scaled_galerkin. rewrite galerkin_mscale. apply mscale_comm. Qed.

Definition cop_scales (cop : crs -> crs -> crs -> crs) : Prop :=
  forall A P R, cop (mscale A c) P R = mscale (cop A P R) c.

Lemma coarse_op_of_scales (sc : option S) : cop_scales (coarse_op_of sc).
Proof. destruct sc as [s|]; intros A P R; [apply scaled_galerkin_mscale|apply galerkin_mscale]. Qed.

(* --- the hierarchy descriptors --- *)
Definition dsc (l : ldesc) : ldesc :=
  match l with
  | LMid A P R => LMid (mscale A c) P R
  | LLast A => LLast (mscale A c)
  | LSolve A => LSolve (mscale A c)
  end.

Lemma dsc_A (l : ldesc) : ld_A (dsc l) = mscale (ld_A l) c.
Proof. destruct l; reflexivity. Qed.

Theorem build_mscale ce dc ml cop : cop_scales cop -> forall ts (A : crs) nlev,
  build ce dc ml cop ts (mscale A c) nlev = map dsc (build ce dc ml cop ts A nlev).
Proof.
  intros Hcop ts. induction ts as [|t ts' IH]; intros A nlev; rewrite !build_unfold, mscale_nrows.
  - destruct (Nat.leb (nrows A) ce); [destruct dc; reflexivity|].
    destruct (Nat.leb ml (Datatypes.S nlev)); reflexivity.
  - destruct (Nat.leb (nrows A) ce); [destruct dc; reflexivity|].
    destruct (Nat.leb ml (Datatypes.S nlev)); [reflexivity|].
    destruct t as [[P R]|]; [|reflexivity].
    cbn [map dsc]. f_equal. rewrite Hcop, sort_rows_mscale. apply IH.
Qed.

(* the hierarchy of c*M with the transfer operators of M: every level matrix is scaled by c,
   the transfer operators and the level structure are the same *)
Theorem amg_init_mscale ce dc ml cop : cop_scales cop -> forall ts (M : crs),
  amg_init ce dc ml cop ts (mscale M c) = map dsc (amg_init ce dc ml cop ts M).
Proof. intros Hcop ts M. unfold amg_init. rewrite sort_rows_mscale. apply build_mscale, Hcop. Qed.

Theorem rebuild_mscale cop : cop_scales cop -> forall (ls : list ldesc) (A : crs),
  rebuild_levels cop (map dsc ls) (mscale A c) = map dsc (rebuild_levels cop ls A).
Proof.
  intros Hcop ls. induction ls as [|l tl IH]; intro A; [reflexivity|].
  destruct l as [A0 P R|A0|A0]; cbn [map dsc rebuild_levels]; f_equal.
  - rewrite Hcop, sort_rows_mscale. apply IH.
  - apply IH.
  - apply IH.
Qed.

Theorem amg_rebuild_mscale cop : cop_scales cop -> forall (ls : list ldesc) (M : crs),
  amg_rebuild cop (map dsc ls) (mscale M c) = map dsc (amg_rebuild cop ls M).
Proof. intros Hcop ls M. unfold amg_rebuild. rewrite sort_rows_mscale. apply rebuild_mscale, Hcop. Qed.

End ScaleSetup.
