(* CprProofs3.v -- C18-A3 (invert): cpr::invert (LU without pivoting + two triangular solves)
   returns the first column of the inverse when no pivot vanishes (field); proved for the block
   sizes 2, 3 and 4 by symbolic evaluation of the model. *)
From Coq Require Import ZifyBool.
From Amgcl Require Import Scalar Vec Crs Kernels KernelsProofs MatOps MatOpsProofs Adapters AdaptersProofs BlockProofs Composite Cpr CprProofs CprProofs2.
From Amgcl Require Import DirectUtil.
Local Open Scope S_scope.

Section Field.
Context {S : Scalar}.
Local Notation vec := (vec S).
Hypothesis Sft : Sfield S.
Add Field SFieldCpr3 : Sft.

(* no pivot of the factorisation vanishes: the diagonal of U *)
Definition cpr_pivots_ok (B : nat) (V : vec) : Prop := forall k, k < B -> vget (cpr_lu B V) (k * B + k) <> s0.
(* (V y)_j *)
Definition mat_row_dot (B : nat) (V y : vec) (j : nat) : S := sumn (fun k => vget V (j * B + k) * vget y k) B.

Ltac cpr_eval := cbv [cpr_invert cpr_lu cpr_lower cpr_upper for_loop for_down seq fold_left rev app lset vget nth
                      Nat.add Nat.mul Nat.sub Nat.eqb mat_row_dot sumn length] in *.


Lemma mul_nz (x y : S) : x <> s0 -> y <> s0 -> x * y <> s0.
Proof. intros Hx Hy H. apply Hy. transitivity ((x * y) / x); [field; exact Hx|]. rewrite H. field. exact Hx. Qed.
Lemma quot_nz (x y e : S) : y <> s0 -> e = x / y -> e <> s0 -> x <> s0.
Proof. intros Hy E He Hx. apply He. rewrite E, Hx. field. exact Hy. Qed.

Theorem cpr_invert_2 (V y0 : vec) : length V = 4%nat -> length y0 = 2%nat -> cpr_pivots_ok 2 V ->
  let y := cpr_invert 2 V y0 in
  length y = 2%nat /\ mat_row_dot 2 V y 0 = s1 /\ mat_row_dot 2 V y 1 = s0.
Proof.
  intros HV Hy Hp.
  destruct V as [|a [|b [|c [|d [|]]]]]; try discriminate.
  destruct y0 as [|p [|q [|]]]; try discriminate.
  pose proof (Hp 0%nat ltac:(repeat constructor)) as P0. pose proof (Hp 1%nat ltac:(repeat constructor)) as P1.
  cpr_eval.
  assert (E1 : d - c / a * b = (d * a - c * b) / a) by (field; exact P0).
  pose proof (quot_nz _ _ _ P0 E1 P1) as M1.
  split; [reflexivity|]. split; field; auto.
Qed.

Theorem cpr_invert_3 (V y0 : vec) : length V = 9%nat -> length y0 = 3%nat -> cpr_pivots_ok 3 V ->
  let y := cpr_invert 3 V y0 in
  length y = 3%nat /\ mat_row_dot 3 V y 0 = s1 /\ mat_row_dot 3 V y 1 = s0 /\ mat_row_dot 3 V y 2 = s0.
Proof.
  intros HV Hy Hp.
  destruct V as [|a [|b [|c [|d [|e [|f [|g [|h [|i [|]]]]]]]]]]; try discriminate.
  destruct y0 as [|p [|q [|r [|]]]]; try discriminate.
  pose proof (Hp 0%nat ltac:(repeat constructor)) as P0. pose proof (Hp 1%nat ltac:(repeat constructor)) as P1.
  pose proof (Hp 2%nat ltac:(repeat constructor)) as P2.
  cpr_eval.
  assert (E1 : e - d / a * b = (e * a - d * b) / a) by (field; exact P0).
  pose proof (quot_nz _ _ _ P0 E1 P1) as M1.
  assert (E2 : i - g / a * c - (h - g / a * b) / (e - d / a * b) * (f - d / a * c)
               = ((i * a - g * c) * (e * a - d * b) - (h * a - g * b) * (f * a - d * c)) / (a * (e * a - d * b)))
    by (field; auto).
  pose proof (quot_nz _ _ _ (mul_nz _ _ P0 M1) E2 P2) as M2.
  split; [reflexivity|]. split; [|split]; field; auto.
Qed.
Theorem cpr_invert_4 (V y0 : vec) : length V = 16%nat -> length y0 = 4%nat -> cpr_pivots_ok 4 V ->
  let y := cpr_invert 4 V y0 in
  length y = 4%nat /\ mat_row_dot 4 V y 0 = s1 /\ mat_row_dot 4 V y 1 = s0 /\ mat_row_dot 4 V y 2 = s0 /\ mat_row_dot 4 V y 3 = s0.
Proof.
  intros HV Hy Hp.
  destruct V as [|a00 [|a01 [|a02 [|a03 [|a10 [|a11 [|a12 [|a13 [|a20 [|a21 [|a22 [|a23 [|a30 [|a31 [|a32 [|a33 [|]]]]]]]]]]]]]]]]]; try discriminate.
  destruct y0 as [|p [|q [|r [|t [|]]]]]; try discriminate.
  pose proof (Hp 0%nat ltac:(repeat constructor)) as P0. pose proof (Hp 1%nat ltac:(repeat constructor)) as P1.
  pose proof (Hp 2%nat ltac:(repeat constructor)) as P2. pose proof (Hp 3%nat ltac:(repeat constructor)) as P3.
  cpr_eval.
  set (m1 := a11 * a00 - a10 * a01) in *.
  assert (E1 : a11 - a10 / a00 * a01 = m1 / a00) by (unfold m1; field; exact P0).
  pose proof (quot_nz _ _ _ P0 E1 P1) as M1.
  set (m2 := (a22 * a00 - a20 * a02) * m1 - (a21 * a00 - a20 * a01) * (a12 * a00 - a10 * a02)).
  assert (E2 : a22 - a20 / a00 * a02 - (a21 - a20 / a00 * a01) / (a11 - a10 / a00 * a01) * (a12 - a10 / a00 * a02)
               = m2 / (a00 * m1)) by (unfold m2, m1 in *; field; auto).
  pose proof (quot_nz _ _ _ (mul_nz _ _ P0 M1) E2 P2) as M2.
  set (m3 := ((a33 * a00 - a30 * a03) * m1 - (a31 * a00 - a30 * a01) * (a13 * a00 - a10 * a03)) * m2 -
             ((a32 * a00 - a30 * a02) * m1 - (a31 * a00 - a30 * a01) * (a12 * a00 - a10 * a02)) *
             ((a23 * a00 - a20 * a03) * m1 - (a21 * a00 - a20 * a01) * (a13 * a00 - a10 * a03))).
  assert (E3 : a33 - a30 / a00 * a03 - (a31 - a30 / a00 * a01) / (a11 - a10 / a00 * a01) * (a13 - a10 / a00 * a03) -
       (a32 - a30 / a00 * a02 - (a31 - a30 / a00 * a01) / (a11 - a10 / a00 * a01) * (a12 - a10 / a00 * a02)) /
       (a22 - a20 / a00 * a02 - (a21 - a20 / a00 * a01) / (a11 - a10 / a00 * a01) * (a12 - a10 / a00 * a02)) *
       (a23 - a20 / a00 * a03 - (a21 - a20 / a00 * a01) / (a11 - a10 / a00 * a01) * (a13 - a10 / a00 * a03))
       = m3 / (a00 * m1 * m2)) by (unfold m3, m2, m1 in *; field; auto).
  pose proof (quot_nz _ _ _ (mul_nz _ _ (mul_nz _ _ P0 M1) M2) E3 P3) as M3.
  unfold m3, m2, m1 in *.
  split; [reflexivity|]. split; [|split; [|split]]; field; auto.
Qed.

(* invert() is correct for block size B *)
Definition cpr_invert_ok (B : nat) : Prop := forall (V y0 : vec), length V = (B * B)%nat -> length y0 = B -> cpr_pivots_ok B V ->
  forall j, j < B -> mat_row_dot B V (cpr_invert B V y0) j = if Nat.eqb j 0 then s1 else s0.

Lemma cpr_invert_ok_2 : cpr_invert_ok 2.
Proof.
  intros V y0 HV Hy Hp j Hj. destruct (cpr_invert_2 V y0 HV Hy Hp) as (_ & H0 & H1).
  destruct j as [|[|j]]; [exact H0|exact H1|lia].
Qed.
Lemma cpr_invert_ok_3 : cpr_invert_ok 3.
Proof.
  intros V y0 HV Hy Hp j Hj. destruct (cpr_invert_3 V y0 HV Hy Hp) as (_ & H0 & H1 & H2).
  destruct j as [|[|[|j]]]; [exact H0|exact H1|exact H2|lia].
Qed.
Lemma cpr_invert_ok_4 : cpr_invert_ok 4.
Proof.
  intros V y0 HV Hy Hp j Hj. destruct (cpr_invert_4 V y0 HV Hy Hp) as (_ & H0 & H1 & H2 & H3).
  destruct j as [|[|[|[|j]]]]; [exact H0|exact H1|exact H2|exact H3|lia].
Qed.

(* A3: the weights of block row ip are the first row of the inverse of the diagonal block
   D[i][j] = K[ip*B+i][ip*B+j]:  sum_i d[i] * D[i][j] = delta_{0j} *)
Let SrtF : Sring S := F_R Sft.
Theorem cpr_weights_first_row B np (K : crs S) (junk : vec) ip : 0 < B -> ip < np -> cpr_invert_ok B ->
  Forall (fun r => sorted_strict r = true) (rows K) ->
  (exists i, i < B /\ Exists (in_block B ip) (nth (ip * B + i) (rows K) [])) ->
  np * B <= length junk ->
  cpr_pivots_ok B (tabulate (B * B) (fun idx => mget K (ip * B + idx mod B) (ip * B + idx / B))) ->
  forall j, j < B ->
  sumn (fun i => vget (cpr_weights B (np * B) K true junk ip) i * mget K (ip * B + i) (ip * B + j)) B
  = if Nat.eqb j 0 then s1 else s0.
Proof.
  intros HB Hip Hok Hs Hblk Hjunk Hpiv j Hj.
  rewrite (cpr_weights_spec SrtF B np K junk ip HB Hip Hs Hblk).
  set (V := tabulate (B * B) (fun idx => mget K (ip * B + idx mod B) (ip * B + idx / B))) in *.
  set (y0 := firstn B (skipn (ip * B) junk)).
  assert (HV : length V = (B * B)%nat) by (unfold V; apply tabulate_length).
  assert (Hy0 : length y0 = B) by (unfold y0; rewrite firstn_length, skipn_length; nia).
  rewrite <- (Hok V y0 HV Hy0 Hpiv j Hj). unfold mat_row_dot. apply sumn_ext. intros i Hi.
  assert (EV : vget V (j * B + i) = mget K (ip * B + i) (ip * B + j)).
  { unfold V, vget. rewrite tabulate_nth by nia. destruct (idx_split B j i HB Hi) as [-> ->]. reflexivity. }
  rewrite EV. ring.
Qed.

End Field.
