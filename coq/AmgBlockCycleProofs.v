(* AmgBlockCycleProofs.v -- C02 for block value types, part A1: history independence.

   No algebraic law is used in this file.
   1. The five smoothers of AmgBlockCycle.mk_relax5 satisfy the side condition [sweep_ok] of the cycle theorems
      (lengths kept, the x-output independent of the incoming content of the level's work vector t) over EVERY
      Scalar record; the Chebyshev object's own work vectors p, r do not matter either (law-free lemma
      ReuseProofs.cheby_call_state_independent, for a Scalar whose zero is recognised by is_zero).
   2. The block coarse solve [mk_solve_block] keeps lengths (0 < b).
   3. [BlockS S0 b] recognises its zero ([is_zero s0 = true]) as soon as [seqb] of the base scalars is reflexive --
      the one fact the history-independence theorems of AmgProofs3.v need.  Hence every hierarchy that
      [Amg.amg_init] builds over block values, made runnable by [block_levels], is a fixed operator:
      [block_apply_history_indep]. *)
From Amgcl Require Import Scalar Vec Crs Kernels KernelsProofs MatOps MatOpsProofs Relax DenseSolve Amg AmgExec
  AmgProofs AmgProofs2 AmgProofs3 Ilu IluProofs Cheby ReuseProofs
  DirectUtil Inverse StaticMat BlockInst BlockKernels AmgBlockCycle.
Local Open Scope S_scope.

Section Relax5Ok.
Context {S : Scalar}.
Local Notation vec := (vec S).
Local Notation crs := (crs S).

Lemma ilu_sweep_ok (w : S) (L U : crs) (D : vec) (A : crs) :
  sweep_ok (nrows A) (fun rhs x t => ilu_sweep w L U D A rhs x t).
Proof.
  intros rhs x t Lr Lx Lt. unfold ilu_sweep. cbn [fst snd].
  assert (Lres : forall t0, length t0 = nrows A -> length (residual rhs A x t0) = nrows A)
    by (intros; apply residual_length; assumption).
  assert (Lsol : forall t0, length t0 = nrows A -> length (ilu_solve L U D (residual rhs A x t0)) = nrows A)
    by (intros t0 H0; rewrite ilu_solve_length; apply Lres, H0).
  split; [|split].
  - rewrite axpby_length; rewrite ?Lsol; congruence.
  - apply Lsol, Lt.
  - intros t' Lt'. rewrite (residual_ignores_res rhs A x t' t); auto.
Qed.

Lemma ilu0_sweeps_ok (w : S) (A : crs) p : ilu0_sweeps w A = Some p ->
  sweep_ok (nrows A) (fst p) /\ sweep_ok (nrows A) (snd p).
Proof.
  unfold ilu0_sweeps. destruct (ilu0 A (vzero (nrows A))) as [[[L U] D]|e]; [|discriminate].
  intro H; injection H as <-. cbn [fst snd]. split; apply ilu_sweep_ok.
Qed.

Lemma cheby_sweep_length (cdM : S * S * option vec) degree (A : crs) (b x p r : vec) :
  (forall m, snd cdM = Some m -> length m = nrows A) ->
  length b = nrows A -> length x = nrows A -> length p = nrows A -> length r = nrows A ->
  length (cheby_sweep cdM degree A b x p r) = nrows A.
Proof.
  destruct cdM as [[c d] M]. cbn [snd]. intros HM Lb Lx Lp Lr.
  rewrite <- cheby_call_is_sweep.
  apply cheby_call_result_length; try assumption. split; assumption.
Qed.

Lemma cheby_setup_M_ok scale (A : crs) hi0 lower higher (junk : vec) m :
  snd (cheby_setup scale A hi0 lower higher junk) = Some m -> length m = nrows A.
Proof.
  unfold cheby_setup. destruct (cheby_cd c_half hi0 lower higher) as [c d]. cbn [snd].
  destruct scale; [|discriminate]. intro H; injection H as <-. apply diagonal_length.
Qed.

Lemma cheby_sweeps_ok degree (lower higher : S) scale (A : crs) :
  sweep_ok (nrows A) (fst (cheby_sweeps degree lower higher scale A)) /\
  sweep_ok (nrows A) (snd (cheby_sweeps degree lower higher scale A)).
Proof.
  assert (H : sweep_ok (nrows A) (fst (cheby_sweeps degree lower higher scale A))).
  { intros rhs x t Lr Lx Lt. unfold cheby_sweeps. cbn [fst snd]. split; [|split].
    - apply cheby_sweep_length; try assumption; try apply repeat_length.
      intros m Hm. apply (cheby_setup_M_ok _ _ _ _ _ _ _ Hm).
    - exact Lt.
    - reflexivity. }
  split; exact H.
Qed.

Lemma id_sweep_ok5 n : sweep_ok n (@id_sweep S).
Proof. intros rhs x t Lr Lx Lt. unfold id_sweep. cbn [fst snd]. auto. Qed.

(* every smoother the amg drivers instantiate satisfies the side condition of the cycle theorems *)
Theorem mk_relax5_ok (k : @relax5 S) (A : crs) :
  sweep_ok (nrows A) (fst (mk_relax5 k A)) /\ sweep_ok (nrows A) (snd (mk_relax5 k A)).
Proof.
  destruct k as [k0|w|degree lower higher scale]; cbn [mk_relax5].
  - apply mk_relax_std_ok.
  - destruct (ilu0_sweeps w A) as [p|] eqn:E.
    + apply (ilu0_sweeps_ok w A p E).
    + cbn [fst snd]. split; apply id_sweep_ok5.
  - apply cheby_sweeps_ok.
Qed.

(* the Chebyshev object's work vectors p, r: the model hands zero vectors in; any other content of the right length
   gives the same sweep (ReuseProofs.cheby_call_state_independent: r is overwritten by residual(), p by
   axpby(alpha, r, zero, p) in iteration 0) *)
Theorem cheby_sweeps_workspace_free (Z : is_zero (@s0 S) = true) degree (lower higher : S) scale (A : crs)
  (rhs x t p r : vec) :
  length rhs = nrows A -> length x = nrows A -> length p = nrows A -> length r = nrows A ->
  fst (fst (cheby_sweeps degree lower higher scale A) rhs x t) =
  cheby_sweep (cheby_setup scale A (gershgorin scale A) lower higher (vzero (nrows A))) degree A rhs x p r.
Proof.
  intros Lr Lx Lp Lrr. unfold cheby_sweeps. cbn [fst snd].
  remember (cheby_setup scale A (gershgorin scale A) lower higher (vzero (nrows A))) as cdM eqn:EcdM.
  assert (HM : forall m, snd cdM = Some m -> length m = nrows A)
    by (intros m Hm; rewrite EcdM in Hm; apply (cheby_setup_M_ok _ _ _ _ _ _ _ Hm)).
  destruct cdM as [[c d] M]. cbn [snd] in HM.
  rewrite <- !cheby_call_is_sweep.
  apply (cheby_call_state_independent Z c d M degree A); try assumption.
  - split; apply repeat_length.
  - split; assumption.
Qed.

End Relax5Ok.

(* ------------------------------------------------------------------ *)
Section BlockSolveOk.
Variable S0 : Scalar.
Variable b : nat.
Hypothesis Hb : 0 < b.
Local Notation B := (BlockS S0 b).

Lemma flat_map_const_length {X Y} (f : X -> list Y) (l : list X) n :
  (forall x, length (f x) = n) -> length (flat_map f l) = (length l * n)%nat.
Proof.
  intro H. induction l as [|x l IH]; simpl; [reflexivity|]. rewrite app_length, IH, H. reflexivity.
Qed.

Lemma bexpand_nrows (A : crs B) : nrows (bexpand S0 b A) = (nrows A * b)%nat.
Proof.
  unfold nrows, bexpand. cbn [rows]. apply flat_map_const_length.
  intro r. rewrite map_length, seq_length. reflexivity.
Qed.

Lemma bvec_of_flat_len (x : vec S0) : length (bvec_of_flat S0 b x) = (length x / b)%nat.
Proof. unfold bvec_of_flat. rewrite map_length, seq_length. reflexivity. Qed.

Theorem mk_solve_block_ok (A : crs B) : solve_ok (nrows A) (mk_solve_block S0 b A).
Proof.
  intros rhs x Lr Lx. unfold mk_solve_block.
  destruct (dense_solve (bexpand S0 b A) (flat_of_bvec S0 b rhs)) as [y|] eqn:E; [|exact Lx].
  rewrite bvec_of_flat_len, (dense_solve_length _ _ _ E), bexpand_nrows.
  apply Nat.div_mul. lia.
Qed.

(* ---- the block record recognises its zero ---- *)
Hypothesis seqb_refl : forall x : S0, seqb x x = true.

Lemma list_eqb_refl (l : vec S0) : list_eqb S0 l l = true.
Proof. induction l as [|a l IH]; simpl; [reflexivity|]. rewrite seqb_refl, IH. reflexivity. Qed.

Theorem block_zero_is_zero : is_zero (@s0 B) = true.
Proof. unfold is_zero. cbn [seqb BlockS]. unfold blk_eqb. apply list_eqb_refl. Qed.

(* ---- hierarchies over block values ---- *)
Theorem block_levels_wf (k : @relax5 B) cop (ls : list (@ldesc B)) : coarse_shape cop -> chain cop ls ->
  hier_wf (block_levels S0 b k ls) /\ block_levels S0 b k ls <> [] /\
  scratch_wf (block_levels S0 b k ls) (map fresh_scratch ls).
Proof.
  intros Hs Hc. unfold block_levels. split; [|split].
  - apply (chain_hier_wf _ _ (mk_relax5_ok k) mk_solve_block_ok cop Hs ls Hc).
  - apply (chain_nonempty _ _ cop ls Hc).
  - apply fresh_scratch_wf.
Qed.

(* apply() of a block-valued hierarchy built by amg_init (any transfer operators, Galerkin or re-scaled
   Galerkin coarse operators, any of the five smoothers, block coarse solve): neither the per-level
   work vectors left behind by earlier applications nor the incoming content of x matter *)
Theorem block_apply_history_indep ce dc ml (sc : option B) ts (M : crs B) (k : @relax5 B)
  npre npost ncycle pre_cycles :
  let lvls := block_levels S0 b k (amg_init ce dc ml (coarse_op_of sc) ts M) in
  forall scr1 scr2 rhs x1 x2,
  scratch_wf lvls scr1 -> scratch_wf lvls scr2 ->
  length rhs = nrows M -> length x1 = nrows M -> length x2 = nrows M ->
  fst (apply npre npost ncycle pre_cycles lvls scr1 rhs x1) =
  fst (apply npre npost ncycle pre_cycles lvls scr2 rhs x2).
Proof.
  intros lvls scr1 scr2 rhs x1 x2 H1 H2 Lr L1 L2.
  destruct (amg_init_chain ce dc ml (coarse_op_of sc) ts M) as [Hc Hh].
  destruct (block_levels_wf k _ _ (coarse_op_of_shape sc) Hc) as (Hw & Hne & _).
  assert (En : top_n lvls = nrows M).
  { unfold lvls, block_levels. rewrite (top_n_inst _ _ _ _ Hh). apply sort_rows_nrows. }
  apply (apply_history_indep block_zero_is_zero npre npost ncycle pre_cycles lvls Hw Hne); congruence.
Qed.

(* the same after ANY finite history of earlier applications *)
Theorem block_apply_after_any_history ce dc ml (sc : option B) ts (M : crs B) (k : @relax5 B)
  npre npost ncycle pre_cycles :
  let lvls := block_levels S0 b k (amg_init ce dc ml (coarse_op_of sc) ts M) in
  forall hist scr scr0 rhs x x0,
  Forall (fun fx => length (fst fx) = nrows M /\ length (snd fx) = nrows M) hist ->
  scratch_wf lvls scr -> scratch_wf lvls scr0 ->
  length rhs = nrows M -> length x = nrows M -> length x0 = nrows M ->
  fst (apply npre npost ncycle pre_cycles lvls
         (run_history npre npost ncycle pre_cycles lvls scr hist) rhs x) =
  fst (apply npre npost ncycle pre_cycles lvls scr0 rhs x0).
Proof.
  intros lvls hist scr scr0 rhs x x0 Hh Hs Hs0 Lr Lx Lx0.
  destruct (amg_init_chain ce dc ml (coarse_op_of sc) ts M) as [Hc Hhd].
  destruct (block_levels_wf k _ _ (coarse_op_of_shape sc) Hc) as (Hw & Hne & _).
  assert (En : top_n lvls = nrows M).
  { unfold lvls, block_levels. rewrite (top_n_inst _ _ _ _ Hhd). apply sort_rows_nrows. }
  apply (apply_after_any_history block_zero_is_zero npre npost ncycle pre_cycles lvls Hw Hne); try congruence.
  rewrite En. exact Hh.
Qed.

(* the abstract theorem of AmgProofs3.v at the block instance: ANY well-formed block-valued hierarchy
   (arbitrary smoothers with sweep_ok, arbitrary coarse solver with solve_ok) *)
Theorem block_apply_history_indep_any npre npost ncycle pre_cycles (lvls : list (@level B)) :
  hier_wf lvls -> lvls <> [] -> forall scr1 scr2 rhs x1 x2,
  scratch_wf lvls scr1 -> scratch_wf lvls scr2 ->
  length rhs = top_n lvls -> length x1 = top_n lvls -> length x2 = top_n lvls ->
  fst (apply npre npost ncycle pre_cycles lvls scr1 rhs x1) =
  fst (apply npre npost ncycle pre_cycles lvls scr2 rhs x2) /\
  length (fst (apply npre npost ncycle pre_cycles lvls scr1 rhs x1)) = top_n lvls /\
  scratch_wf lvls (snd (apply npre npost ncycle pre_cycles lvls scr1 rhs x1)).
Proof. exact (apply_history_indep block_zero_is_zero npre npost ncycle pre_cycles lvls). Qed.

Theorem block_cycle_history_indep_any npre npost ncycle (lvls : list (@level B)) :
  hier_wf lvls -> forall scr1 scr2 rhs x,
  scratch_wf lvls scr1 -> scratch_wf lvls scr2 ->
  length rhs = top_n lvls -> length x = top_n lvls ->
  fst (cycle npre npost ncycle lvls scr1 rhs x) = fst (cycle npre npost ncycle lvls scr2 rhs x) /\
  length (fst (cycle npre npost ncycle lvls scr1 rhs x)) = top_n lvls /\
  scratch_wf lvls (snd (cycle npre npost ncycle lvls scr1 rhs x)).
Proof. exact (cycle_history_indep block_zero_is_zero npre npost ncycle lvls). Qed.

(* the statement for hierarchies that EXIST in the C++: every smoother constructor succeeded (descs_ready) *)
Theorem block_apply_history_indep_ready ce dc ml (sc : option B) ts (M : crs B) (k : @relax5 B)
  npre npost ncycle pre_cycles :
  descs_ready k (amg_init ce dc ml (coarse_op_of sc) ts M) = true ->
  let lvls := block_levels S0 b k (amg_init ce dc ml (coarse_op_of sc) ts M) in
  forall scr1 scr2 rhs x1 x2,
  scratch_wf lvls scr1 -> scratch_wf lvls scr2 ->
  length rhs = nrows M -> length x1 = nrows M -> length x2 = nrows M ->
  fst (apply npre npost ncycle pre_cycles lvls scr1 rhs x1) =
  fst (apply npre npost ncycle pre_cycles lvls scr2 rhs x2).
Proof. intros _. apply block_apply_history_indep. Qed.

Theorem block_apply_after_any_history_ready ce dc ml (sc : option B) ts (M : crs B) (k : @relax5 B)
  npre npost ncycle pre_cycles :
  descs_ready k (amg_init ce dc ml (coarse_op_of sc) ts M) = true ->
  let lvls := block_levels S0 b k (amg_init ce dc ml (coarse_op_of sc) ts M) in
  forall hist scr scr0 rhs x x0,
  Forall (fun fx => length (fst fx) = nrows M /\ length (snd fx) = nrows M) hist ->
  scratch_wf lvls scr -> scratch_wf lvls scr0 ->
  length rhs = nrows M -> length x = nrows M -> length x0 = nrows M ->
  fst (apply npre npost ncycle pre_cycles lvls
         (run_history npre npost ncycle pre_cycles lvls scr hist) rhs x) =
  fst (apply npre npost ncycle pre_cycles lvls scr0 rhs x0).
Proof. intros _. apply block_apply_after_any_history. Qed.

End BlockSolveOk.
