(* CprProofs6.v -- C18-A3 (invert, every block size): cpr::invert = in-place LU without pivoting
   followed by the two triangular solves returns the first column of the inverse whenever no
   pivot vanishes (field).  Flat row-major arrays are related to index functions M r c by Mat;
   the algebra is done on the functions. *)
From Coq Require Import ZifyBool.
From Amgcl Require Import Scalar Vec Crs Kernels KernelsProofs MatOps Adapters BlockProofs Composite CompositeProofs4 Cpr CprProofs CprProofs2 CprProofs3.
From Amgcl Require Import DirectUtil.
Local Open Scope S_scope.

Section Field.
Context {S : Scalar}.
Local Notation vec := (vec S).
Hypothesis Sft : Sfield S.
Add Field SFieldCpr6 : Sft.
Let SrtG : Sring S := F_R Sft.

Definition Mat (B : nat) (A : vec) (M : nat -> nat -> S) : Prop :=
  length A = (B * B)%nat /\ forall r c, r < B -> c < B -> vget A (r * B + c) = M r c.

Lemma Mat_ext B A M M' : Mat B A M -> (forall r c, r < B -> c < B -> M r c = M' r c) -> Mat B A M'.
Proof. intros [L G] H. split; [exact L|]. intros r c Hr Hc. rewrite G by assumption. apply H; assumption. Qed.

Lemma Mat_lset B A M r c v : Mat B A M -> r < B -> c < B ->
  Mat B (lset A (r * B + c) v) (fun r' c' => if (Nat.eqb r' r && Nat.eqb c' c)%bool then v else M r' c').
Proof.
  intros [L G] Hr Hc. split; [rewrite lset_length; exact L|].
  intros r' c' Hr' Hc'. unfold vget. rewrite lset_nth. rewrite L.
  replace (Nat.ltb (r * B + c) (B * B)) with true by (symmetry; apply Nat.ltb_lt; nia).
  destruct (Nat.eqb_spec (r * B + c) (r' * B + c')) as [E|E].
  - destruct (blk_index_inj B r r' c c' Hc Hc' E) as [-> ->]. rewrite !Nat.eqb_refl. reflexivity.
  - destruct (Nat.eqb_spec r' r) as [->|]; destruct (Nat.eqb_spec c' c) as [->|]; simpl; try (apply G; assumption).
    exfalso. apply E. reflexivity.
Qed.

(* ---- one row of one elimination step ---- *)
Definition elimM (k : nat) (d : S) (M : nat -> nat -> S) (i : nat) : nat -> nat -> S :=
  fun r c => if Nat.eqb r i
             then (if Nat.eqb c k then M i k / d else if Nat.ltb k c then M i c - (M i k / d) * M k c else M i c)
             else M r c.

Lemma row_elim_spec B k i d A M : k < i -> i < B -> Mat B A M ->
  Mat B (for_loop (k + 1) (B - (k + 1))
           (fun j A => lset A (i * B + j) (vget A (i * B + j) - vget A (i * B + k) * vget A (k * B + j)))
           (lset A (i * B + k) (vget A (i * B + k) / d)))
        (elimM k d M i).
Proof.
  intros Hk Hi HM.
  set (P := fun (j : nat) (A' : vec) =>
     Mat B A' (fun r c => if Nat.eqb r i
                          then (if Nat.eqb c k then M i k / d
                                else if (Nat.ltb k c && Nat.ltb c j)%bool then M i c - (M i k / d) * M k c else M i c)
                          else M r c)).
  assert (HP : P (k + 1 + (B - (k + 1)))%nat
                 (for_loop (k + 1) (B - (k + 1))
                    (fun j A => lset A (i * B + j) (vget A (i * B + j) - vget A (i * B + k) * vget A (k * B + j)))
                    (lset A (i * B + k) (vget A (i * B + k) / d)))).
  { apply for_loop_inv.
    - unfold P. eapply Mat_ext; [apply (Mat_lset B A M i k _ HM Hi); lia|].
      intros r c Hr Hc. cbv beta. destruct HM as [_ G]. rewrite (G i k Hi ltac:(lia)).
      destruct (Nat.eqb_spec r i) as [->|]; simpl; [|reflexivity].
      destruct (Nat.eqb_spec c k) as [->|]; simpl; [reflexivity|].
      destruct (Nat.ltb_spec k c); destruct (Nat.ltb_spec c (k + 1)); simpl; try reflexivity; lia.
    - intros j A' Hj HA'. unfold P in *.
      eapply Mat_ext; [apply (Mat_lset B A' _ i j _ HA' Hi); lia|].
      destruct HA' as [_ G'].
      intros r c Hr Hc. cbv beta.
      rewrite (G' i j Hi ltac:(lia)), (G' i k Hi ltac:(lia)), (G' k j ltac:(lia) ltac:(lia)).
      rewrite Nat.eqb_refl.
      replace (Nat.eqb k i) with false by (symmetry; apply Nat.eqb_neq; lia).
      replace (Nat.eqb j k) with false by (symmetry; apply Nat.eqb_neq; lia).
      rewrite Nat.eqb_refl.
      replace (Nat.ltb k j) with true by (symmetry; apply Nat.ltb_lt; lia).
      rewrite Nat.ltb_irrefl. simpl andb. cbv iota.
      destruct (Nat.eqb_spec r i) as [->|]; simpl; [|reflexivity].
      destruct (Nat.eqb_spec c j) as [->|Hcj]; simpl.
      + replace (Nat.eqb j k) with false by (symmetry; apply Nat.eqb_neq; lia).
        replace (Nat.ltb k j) with true by (symmetry; apply Nat.ltb_lt; lia).
        replace (Nat.ltb j (Datatypes.S j)) with true by (symmetry; apply Nat.ltb_lt; lia). reflexivity.
      + destruct (Nat.eqb_spec c k); [reflexivity|].
        destruct (Nat.ltb_spec k c); destruct (Nat.ltb_spec c j); destruct (Nat.ltb_spec c (Datatypes.S j)); simpl; try reflexivity; lia. }
  unfold P in HP. eapply Mat_ext; [exact HP|].
  intros r c Hr Hc. cbv beta. unfold elimM.
  destruct (Nat.eqb_spec r i); [|reflexivity]. destruct (Nat.eqb_spec c k); [reflexivity|].
  destruct (Nat.ltb_spec k c); destruct (Nat.ltb_spec c (k + 1 + (B - (k + 1)))); simpl; try reflexivity; lia.
Qed.


(* ---- one elimination step (column k) ---- *)
Definition stepM (k : nat) (M : nat -> nat -> S) : nat -> nat -> S :=
  fun r c => if Nat.ltb k r
             then (if Nat.eqb c k then M r k / M k k else if Nat.ltb k c then M r c - (M r k / M k k) * M k c else M r c)
             else M r c.

Definition lu_col_code (B k : nat) (A : vec) : vec :=
  let d := vget A (k * B + k) in
  for_loop (k + 1) (B - (k + 1)) (fun i A =>
    let A1 := lset A (i * B + k) (vget A (i * B + k) / d) in
    for_loop (k + 1) (B - (k + 1)) (fun j A =>
      lset A (i * B + j) (vget A (i * B + j) - vget A (i * B + k) * vget A (k * B + j))) A1) A.

Lemma lu_col_spec B k A M : k < B -> Mat B A M -> Mat B (lu_col_code B k A) (stepM k M).
Proof.
  intros Hk HM. unfold lu_col_code.
  assert (Ed : vget A (k * B + k) = M k k) by (destruct HM as [_ G]; apply G; assumption).
  rewrite Ed. set (d := M k k).
  set (P := fun (i : nat) (A' : vec) =>
     Mat B A' (fun r c => if (Nat.ltb k r && Nat.ltb r i)%bool
                          then (if Nat.eqb c k then M r k / d else if Nat.ltb k c then M r c - (M r k / d) * M k c else M r c)
                          else M r c)).
  assert (HP : P (k + 1 + (B - (k + 1)))%nat
     (for_loop (k + 1) (B - (k + 1)) (fun i A =>
        for_loop (k + 1) (B - (k + 1)) (fun j A =>
          lset A (i * B + j) (vget A (i * B + j) - vget A (i * B + k) * vget A (k * B + j)))
          (lset A (i * B + k) (vget A (i * B + k) / d))) A)).
  { apply for_loop_inv.
    - unfold P. eapply Mat_ext; [exact HM|]. intros r c Hr Hc. cbv beta.
      destruct (Nat.ltb_spec k r); destruct (Nat.ltb_spec r (k + 1)); simpl; try reflexivity; lia.
    - intros i A' Hi HA'. unfold P in *.
      eapply Mat_ext; [apply (row_elim_spec B k i d A' _ ltac:(lia) ltac:(lia) HA')|].
      intros r c Hr Hc. unfold elimM. cbv beta.
      (* rows i and k of the current matrix are still the original ones *)
      replace (Nat.ltb i i) with false by (symmetry; apply Nat.ltb_ge; lia).
      replace (Nat.ltb k k) with false by (symmetry; apply Nat.ltb_ge; lia).
      rewrite !andb_false_r. simpl andb. cbv iota.
      destruct (Nat.eqb_spec r i) as [->|Hne].
      + replace (Nat.ltb k i) with true by (symmetry; apply Nat.ltb_lt; lia).
        replace (Nat.ltb i (Datatypes.S i)) with true by (symmetry; apply Nat.ltb_lt; lia). simpl. reflexivity.
      + destruct (Nat.ltb_spec k r); destruct (Nat.ltb_spec r i); destruct (Nat.ltb_spec r (Datatypes.S i)); simpl; try reflexivity; lia. }
  unfold P in HP. eapply Mat_ext; [exact HP|].
  intros r c Hr Hc. cbv beta. unfold stepM. fold d.
  destruct (Nat.ltb_spec k r); destruct (Nat.ltb_spec r (k + 1 + (B - (k + 1)))); simpl; try reflexivity; lia.
Qed.

(* ---- the factorisation ---- *)
Fixpoint luM (k : nat) (M : nat -> nat -> S) : nat -> nat -> S :=
  match k with O => M | Datatypes.S k' => stepM k' (luM k' M) end.

Lemma cpr_lu_spec B A M : Mat B A M -> Mat B (cpr_lu B A) (luM B M).
Proof.
  intro HM. unfold cpr_lu.
  change (Mat B (for_loop 0 B (fun k A => lu_col_code B k A) A) (luM (0 + B) M)).
  apply (for_loop_inv (fun k A' => Mat B A' (luM k M))).
  - exact HM.
  - intros k A' Hk HA'. simpl luM. apply lu_col_spec; [lia|exact HA'].
Qed.

(* rows at or above the current column are final *)
Lemma stepM_row_le k M r c : r <= k -> stepM k M r c = M r c.
Proof. intro H. unfold stepM. replace (Nat.ltb k r) with false by (symmetry; apply Nat.ltb_ge; lia). reflexivity. Qed.
Lemma luM_row_final M r c : forall t, luM (r + t) M r c = luM r M r c.
Proof.
  induction t as [|t IH]; [rewrite Nat.add_0_r; reflexivity|].
  replace (r + Datatypes.S t)%nat with (Datatypes.S (r + t)) by lia. simpl. rewrite stepM_row_le by lia. exact IH.
Qed.
(* columns left of the current one are final *)
Lemma stepM_col_lt k M r c : c < k -> stepM k M r c = M r c.
Proof.
  intro H. unfold stepM. destruct (Nat.ltb k r); [|reflexivity].
  replace (Nat.eqb c k) with false by (symmetry; apply Nat.eqb_neq; lia).
  replace (Nat.ltb k c) with false by (symmetry; apply Nat.ltb_ge; lia). reflexivity.
Qed.

(* ---- A = L U ---- *)
Definition loM (M : nat -> nat -> S) (r m : nat) : S := if Nat.ltb m r then M r m else if Nat.eqb m r then s1 else s0.
Definition upM (M : nat -> nat -> S) (m c : nat) : S := if Nat.leb m c then M m c else s0.
Definition remM (k : nat) (M : nat -> nat -> S) (r c : nat) : S := if (Nat.leb k r && Nat.leb k c)%bool then M r c else s0.

Lemma lu_invariant (M0 : nat -> nat -> S) : forall k,
  (forall m, m < k -> luM m M0 m m <> s0) ->
  forall r c, M0 r c = sumn (fun m => loM (luM k M0) r m * upM (luM k M0) m c) k + remM k (luM k M0) r c.
Proof.
  induction k as [|k IH]; intros Hp r c.
  - simpl. unfold remM. simpl. ring.
  - rewrite (IH (fun m Hm => Hp m ltac:(lia)) r c).
    set (M := luM k M0). simpl luM. fold M. simpl sumn.
    assert (Hd : M k k <> s0) by (apply (Hp k); lia).
    (* the first k terms are unchanged *)
    rewrite (sumn_ext (fun m => loM (stepM k M) r m * upM (stepM k M) m c) (fun m => loM M r m * upM M m c)).
    2:{ intros m Hm. unfold loM, upM. rewrite (stepM_col_lt k M r m Hm). rewrite (stepM_row_le k M m c) by lia. reflexivity. }
    assert (G : remM k M r c = loM (stepM k M) r k * upM (stepM k M) k c + remM (Datatypes.S k) (stepM k M) r c).
    { unfold remM, loM, upM. rewrite (stepM_row_le k M k c) by lia. unfold stepM.
      destruct (Nat.ltb_spec k r) as [Hr|Hr].
      - replace (Nat.leb k r) with true by (symmetry; apply Nat.leb_le; lia).
        replace (Nat.leb (Datatypes.S k) r) with true by (symmetry; apply Nat.leb_le; lia).
        rewrite Nat.eqb_refl. cbn [andb].
        destruct (Nat.eqb_spec c k) as [->|Hck].
        + rewrite Nat.leb_refl. replace (Nat.leb (Datatypes.S k) k) with false by (symmetry; apply Nat.leb_gt; lia).
          field. exact Hd.
        + destruct (Nat.leb_spec k c); destruct (Nat.leb_spec (Datatypes.S k) c); destruct (Nat.ltb_spec k c); try lia; ring.
      - destruct (Nat.eqb_spec k r) as [->|Hkr].
        + rewrite Nat.leb_refl. replace (Nat.leb (Datatypes.S r) r) with false by (symmetry; apply Nat.leb_gt; lia).
          cbn [andb]. destruct (Nat.leb r c); ring.
        + replace (Nat.leb k r) with false by (symmetry; apply Nat.leb_gt; lia).
          replace (Nat.leb (Datatypes.S k) r) with false by (symmetry; apply Nat.leb_gt; lia). cbn [andb]. ring. }
    rewrite G. ring.
Qed.


(* ---- the triangular solves ---- *)
Lemma acc_loop (f : nat -> S) n b0 : for_loop 0 n (fun j b => b - f j) b0 = b0 - sumn f n.
Proof.
  induction n as [|n IH]; [simpl; unfold for_loop; simpl; ring|].
  rewrite for_loop_S, IH. simpl. ring.
Qed.

Lemma vget_lset (y : vec) i j v : vget (lset y i v) j = if Nat.eqb i j then (if Nat.ltb i (length y) then v else s0) else vget y j.
Proof. unfold vget. apply lset_nth. Qed.

(* L z = e_0 *)
Lemma cpr_lower_spec B A M (y0 : vec) : Mat B A M -> length y0 = B ->
  length (cpr_lower B A y0) = B /\
  forall i, i < B -> vget (cpr_lower B A y0) i
                    = (if Nat.eqb i 0 then s1 else s0) - sumn (fun j => M i j * vget (cpr_lower B A y0) j) i.
Proof.
  intros [_ G] Hy. unfold cpr_lower.
  set (body := fun i (y : vec) => lset y i (for_loop 0 i (fun j b => b - vget A (i * B + j) * vget y j) (if Nat.eqb i 0 then s1 else s0))).
  set (P := fun (i : nat) (y : vec) => length y = B /\
        forall r, r < i -> vget y r = (if Nat.eqb r 0 then s1 else s0) - sumn (fun j => M r j * vget y j) r).
  assert (HP : P (0 + B)%nat (for_loop 0 B body y0)).
  { apply for_loop_inv.
    - split; [exact Hy|]. intros r Hr. lia.
    - intros i y Hi [Ly Hprev]. unfold body. split; [rewrite lset_length; exact Ly|].
      intros r Hr. rewrite vget_lset, Ly.
      replace (Nat.ltb i B) with true by (symmetry; apply Nat.ltb_lt; lia).
      destruct (Nat.eqb_spec i r) as [<-|Hne].
      + rewrite (acc_loop (fun j => vget A (i * B + j) * vget y j)). f_equal.
        apply sumn_ext. intros j Hj. rewrite (G i j ltac:(lia) ltac:(lia)).
        rewrite vget_lset. replace (Nat.eqb i j) with false by (symmetry; apply Nat.eqb_neq; lia). reflexivity.
      + rewrite (Hprev r ltac:(lia)). f_equal. apply sumn_ext. intros j Hj.
        rewrite vget_lset. replace (Nat.eqb i j) with false by (symmetry; apply Nat.eqb_neq; lia). reflexivity. }
  destruct HP as [L H]. split; [exact L|]. intros i Hi. apply H. lia.
Qed.

Lemma sumn_zero_ext (f : nat -> S) n : (forall c, c < n -> f c = s0) -> sumn f n = s0.
Proof. intro H. rewrite (sumn_ext f (fun _ => s0) n H). apply (sumn_zero SrtG). Qed.

(* U y = z *)
Lemma cpr_upper_spec B A M (z : vec) : Mat B A M -> length z = B -> (forall i, i < B -> M i i <> s0) ->
  length (cpr_upper B A z) = B /\
  forall i, i < B -> sumn (fun c => upM M i c * vget (cpr_upper B A z) c) B = vget z i.
Proof.
  intros [_ G] Hz Hd. unfold cpr_upper.
  set (body := fun i (y : vec) =>
     let y' := for_loop (i + 1) (B - (i + 1)) (fun j y => lset y i (vget y i - vget A (i * B + j) * vget y j)) y in
     lset y' i (vget y' i / vget A (i * B + i))).
  set (P := fun (i : nat) (y : vec) => length y = B /\
        (forall r, i <= r -> r < B -> sumn (fun c => upM M r c * vget y c) B = vget z r) /\
        (forall r, r < i -> vget y r = vget z r)).
  assert (HP : P 0%nat (for_down 0 B body z)).
  { apply for_down_inv.
    - split; [exact Hz|]. split; [intros; lia|reflexivity].
    - intros i y Hi (Ly & Hdone & Htodo). unfold body. cbv zeta.
      (* the inner loop: y[i] -= sum_{j>i} U[i][j] y[j] *)
      set (Q := fun (j : nat) (y' : vec) => length y' = B /\
            (forall r, r <> i -> vget y' r = vget y r) /\
            vget y' i = vget y i - sumn (fun c => if Nat.ltb i c then M i c * vget y c else s0) j).
      assert (HQ : Q (i + 1 + (B - (i + 1)))%nat
                     (for_loop (i + 1) (B - (i + 1)) (fun j y => lset y i (vget y i - vget A (i * B + j) * vget y j)) y)).
      { apply for_loop_inv.
        - split; [exact Ly|]. split; [reflexivity|].
          rewrite sumn_zero_ext; [ring|]. intros c Hc. replace (Nat.ltb i c) with false by (symmetry; apply Nat.ltb_ge; lia). reflexivity.
        - intros j y' Hj (Ly' & Hoth & Hi'). split; [rewrite lset_length; exact Ly'|]. split.
          + intros r Hr. rewrite vget_lset. replace (Nat.eqb i r) with false by (symmetry; apply Nat.eqb_neq; lia). apply Hoth. exact Hr.
          + rewrite vget_lset, Nat.eqb_refl, Ly'. replace (Nat.ltb i B) with true by (symmetry; apply Nat.ltb_lt; lia).
            rewrite Hi'. simpl sumn. replace (Nat.ltb i j) with true by (symmetry; apply Nat.ltb_lt; lia).
            rewrite (G i j ltac:(lia) ltac:(lia)). rewrite (Hoth j ltac:(lia)). ring. }
      replace (i + 1 + (B - (i + 1)))%nat with B in HQ by lia.
      destruct HQ as (Ly' & Hoth & Hi').
      set (y' := for_loop (i + 1) (B - (i + 1)) (fun j y => lset y i (vget y i - vget A (i * B + j) * vget y j)) y) in *.
      rewrite (G i i ltac:(lia) ltac:(lia)).
      split; [rewrite lset_length; exact Ly'|]. split.
      + intros r Hr HrB. destruct (Nat.eqb_spec r i) as [->|Hne].
        * (* the new row *)
          rewrite (sumn_ext _ (fun c => (if Nat.eqb i c then M i i * (vget y' i / M i i) else s0)
                                        + (if Nat.ltb i c then M i c * vget y c else s0))).
          2:{ intros c Hc. unfold upM. rewrite vget_lset, Ly'. replace (Nat.ltb i B) with true by (symmetry; apply Nat.ltb_lt; lia).
              destruct (Nat.eqb_spec i c) as [<-|Hic].
              - rewrite Nat.leb_refl, Nat.ltb_irrefl. ring.
              - destruct (Nat.leb_spec i c); destruct (Nat.ltb_spec i c); try lia; [|ring].
                rewrite (Hoth c ltac:(lia)). ring. }
          rewrite (sumn_add SrtG), (sumn_delta SrtG). replace (Nat.ltb i B) with true by (symmetry; apply Nat.ltb_lt; lia).
          rewrite Hi'. rewrite (Htodo i ltac:(lia)). field. apply Hd. lia.
        * (* rows below are untouched: they do not read y[i] *)
          rewrite <- (Hdone r ltac:(lia) HrB). apply sumn_ext. intros c Hc. unfold upM.
          rewrite vget_lset, Ly'. replace (Nat.ltb i B) with true by (symmetry; apply Nat.ltb_lt; lia).
          destruct (Nat.eqb_spec i c) as [<-|Hic].
          -- replace (Nat.leb r i) with false by (symmetry; apply Nat.leb_gt; lia). ring.
          -- rewrite (Hoth c ltac:(lia)). reflexivity.
      + intros r Hr. rewrite vget_lset. replace (Nat.eqb i r) with false by (symmetry; apply Nat.eqb_neq; lia).
        rewrite (Hoth r ltac:(lia)). apply Htodo. lia. }
  destruct HP as (L & H & _). split; [exact L|]. intros i Hi. apply H; lia.
Qed.


Lemma sumn_trunc (f : nat -> S) j n : j <= n -> sumn (fun m => if Nat.ltb m j then f m else s0) n = sumn f j.
Proof.
  induction n as [|n IH]; intro H.
  - replace j with 0%nat by lia. reflexivity.
  - destruct (Nat.eq_dec j (Datatypes.S n)) as [->|Hne].
    + simpl. replace (Nat.ltb n (Datatypes.S n)) with true by (symmetry; apply Nat.ltb_lt; lia).
      f_equal. apply sumn_ext. intros m Hm. replace (Nat.ltb m (Datatypes.S n)) with true by (symmetry; apply Nat.ltb_lt; lia). reflexivity.
    + simpl. rewrite IH by lia. replace (Nat.ltb n j) with false by (symmetry; apply Nat.ltb_ge; lia). ring.
Qed.

(* A3-invert for EVERY block size *)
Theorem cpr_invert_ok_all B : @cpr_invert_ok S B.
Proof.
  intros V y0 HV Hy Hp j Hj.
  set (M0 := fun r c => vget V (r * B + c)).
  assert (HM0 : Mat B V M0) by (split; [exact HV|reflexivity]).
  pose proof (cpr_lu_spec B V M0 HM0) as HLU. set (M := luM B M0) in *.
  assert (Hpiv : forall m, m < B -> luM m M0 m m <> s0).
  { intros m Hm. rewrite <- (luM_row_final M0 m m (B - m)). replace (m + (B - m))%nat with B by lia.
    fold M. destruct HLU as [_ G]. rewrite <- (G m m Hm Hm). apply Hp. exact Hm. }
  assert (HMd : forall i, i < B -> M i i <> s0).
  { intros i Hi. unfold M. rewrite <- (Nat.sub_add i B) by lia. rewrite Nat.add_comm. rewrite luM_row_final. apply Hpiv. exact Hi. }
  unfold cpr_invert. fold (cpr_lu B V).
  destruct (cpr_lower_spec B (cpr_lu B V) M y0 HLU Hy) as [Lz Hz].
  set (z := cpr_lower B (cpr_lu B V) y0) in *.
  destruct (cpr_upper_spec B (cpr_lu B V) M z HLU Lz HMd) as [Ly Hyy].
  set (y := cpr_upper B (cpr_lu B V) z) in *.
  unfold mat_row_dot. fold (M0 j).
  (* A = L U *)
  rewrite (sumn_ext _ (fun c => sumn (fun m => loM M j m * (upM M m c * vget y c)) B)).
  2:{ intros c Hc. change (vget V (j * B + c)) with (M0 j c).
      rewrite (lu_invariant M0 B Hpiv j c). fold M. unfold remM.
      replace (Nat.leb B j) with false by (symmetry; apply Nat.leb_gt; lia). cbn [andb].
      transitivity (vget y c * sumn (fun m => loM M j m * upM M m c) B); [ring|].
      rewrite <- (sumn_scal SrtG). apply sumn_ext. intros; ring. }
  rewrite (sumn_swap SrtG).
  rewrite (sumn_ext _ (fun m => loM M j m * vget z m)).
  2:{ intros m Hm. rewrite (sumn_scal SrtG). rewrite (Hyy m Hm). reflexivity. }
  (* L z = e_0 *)
  rewrite (sumn_ext _ (fun m => (if Nat.ltb m j then M j m * vget z m else s0) + (if Nat.eqb j m then vget z j else s0))).
  2:{ intros m Hm. unfold loM. destruct (Nat.ltb_spec m j); [replace (Nat.eqb j m) with false by (symmetry; apply Nat.eqb_neq; lia); ring|].
      destruct (Nat.eqb_spec m j) as [->|Hne]; [rewrite Nat.eqb_refl; ring|].
      replace (Nat.eqb j m) with false by (symmetry; apply Nat.eqb_neq; lia). ring. }
  rewrite (sumn_add SrtG), (sumn_delta SrtG), sumn_trunc by lia.
  replace (Nat.ltb j B) with true by (symmetry; apply Nat.ltb_lt; exact Hj).
  rewrite (Hz j Hj). ring.
Qed.


Theorem cpr_weights_first_row_all B np (K : crs S) (junk : vec) ip : 0 < B -> ip < np ->
  Forall (fun r => sorted_strict r = true) (rows K) ->
  (exists i, i < B /\ Exists (in_block B ip) (nth (ip * B + i) (rows K) [])) ->
  np * B <= length junk ->
  cpr_pivots_ok B (tabulate (B * B) (fun idx => mget K (ip * B + idx mod B) (ip * B + idx / B))) ->
  forall j, j < B ->
  sumn (fun i => vget (cpr_weights B (np * B) K true junk ip) i * mget K (ip * B + i) (ip * B + j)) B
  = if Nat.eqb j 0 then s1 else s0.
Proof. intros H1 H2. exact (cpr_weights_first_row Sft B np K junk ip H1 H2 (cpr_invert_ok_all B)). Qed.

End Field.
