(* Properties_C15.v -- C15 (solver part): solver objects are reusable; calls do not leak state.
   Statements only; proofs in KrylovProofs.v (cg, richardson, bicgstab, gmres, fgmres, lgmres) and
   KrylovProofs2*.v (bicgstabl, idrs, lgmres converged guess; second half of this file).
   Every mutable member of a solver object is a field of the workspace record that the model
   takes as INPUT ([junk]); "a call on a used object = a call on a fresh object" is independence
   of the observable result (iterations, residual, x -- [fst] of the model's output) from that
   input.  No algebraic law is used: the theorems hold for every Scalar record (IEEE floats,
   NaN included), arbitrary functions A and P. *)
From Amgcl Require Import Scalar QcInst Vec Kernels Krylov KrylovRef KrylovProofs.
Local Open Scope S_scope.

(* ---- A1: junk independence ---- *)
Theorem C15_cg_junk_independent (S : Scalar) (A P : vec S -> vec S) prm f x0 (j1 j2 : cg_ws) :
  fst (cg A P prm f x0 j1) = fst (cg A P prm f x0 j2).
Proof. exact (cg_junk_independent A P prm f x0 j1 j2). Qed.
Print Assumptions C15_cg_junk_independent.

(* the form of the property text: the second call on a used object (whatever the first call was:
   other matrix, other preconditioner, other parameters...) gives what a fresh object gives *)
Theorem C15_cg_reuse (S : Scalar) (A1 P1 A2 P2 : vec S -> vec S) prm1 prm2 f1 x1 f2 x2 (fresh1 fresh2 : cg_ws) :
  fst (cg A2 P2 prm2 f2 x2 (snd (cg A1 P1 prm1 f1 x1 fresh1))) = fst (cg A2 P2 prm2 f2 x2 fresh2).
Proof. exact (cg_junk_independent A2 P2 prm2 f2 x2 _ fresh2). Qed.
Print Assumptions C15_cg_reuse.

Theorem C15_richardson_junk_independent (S : Scalar) (A P : vec S -> vec S) prm f x0 (j1 j2 : ri_ws) :
  fst (richardson A P prm f x0 j1) = fst (richardson A P prm f x0 j2).
Proof. exact (richardson_junk_independent A P prm f x0 j1 j2). Qed.
Print Assumptions C15_richardson_junk_independent.

(* BiCGStab overwrites s and r through axpbypcz(.., zero, out): needs is_zero(zero) = true,
   a fact about the scalar type (true for IEEE types and for the exact rationals) *)
Theorem C15_bicgstab_junk_independent (S : Scalar) (A P : vec S -> vec S) prm f x0 (j1 j2 : bs_ws) :
  is_zero (@s0 S) = true ->
  fst (bicgstab A P prm f x0 j1) = fst (bicgstab A P prm f x0 j2).
Proof. intro Hz. exact (bicgstab_junk_independent Hz A P prm f x0 j1 j2). Qed.
Print Assumptions C15_bicgstab_junk_independent.

Theorem C15_bicgstab_junk_independent_Qc (A P : vec QcS -> vec QcS) prm f x0 (j1 j2 : bs_ws) :
  fst (bicgstab A P prm f x0 j1) = fst (bicgstab A P prm f x0 j2).
Proof. apply C15_bicgstab_junk_independent. reflexivity. Qed.
Print Assumptions C15_bicgstab_junk_independent_Qc.

(* GMRES(M) / FGMRES(M): the junk comprises the Hessenberg array H, the rotated right-hand side s,
   the rotations cs, sn, the scratch vector r and the bases v[], z[].  H(k,j), cs[k], sn[k], v[k],
   z[k] are read only at indices written earlier in the same restart cycle and s after std::fill.
   GMRES needs is_zero(zero) = true once: axpby(1/||r||, r, zero, v[0]) must overwrite v[0]. *)
Theorem C15_gmres_junk_independent (S : Scalar) (A P : vec S -> vec S) prm f x0 (j1 j2 : gm_ws) :
  is_zero (@s0 S) = true ->
  fst (gmres A P prm f x0 j1) = fst (gmres A P prm f x0 j2).
Proof. intro Hz. exact (gmres_junk_independent Hz A P prm f x0 j1 j2). Qed.
Print Assumptions C15_gmres_junk_independent.

Theorem C15_fgmres_junk_independent (S : Scalar) (A P : vec S -> vec S) prm f x0 (j1 j2 : gm_ws) :
  fst (fgmres A P prm f x0 j1) = fst (fgmres A P prm f x0 j2).
Proof. exact (fgmres_junk_independent A P prm f x0 j1 j2). Qed.
Print Assumptions C15_fgmres_junk_independent.

Theorem C15_gmres_junk_independent_Qc (A P : vec QcS -> vec QcS) prm f x0 (j1 j2 : gm_ws) :
  fst (gmres A P prm f x0 j1) = fst (gmres A P prm f x0 j2).
Proof. apply C15_gmres_junk_independent. reflexivity. Qed.
Print Assumptions C15_gmres_junk_independent_Qc.

(* reuse across different systems / parameters, as for CG *)
Theorem C15_gmres_reuse (S : Scalar) (A1 P1 A2 P2 : vec S -> vec S) prm1 prm2 f1 x1 f2 x2 (fresh1 fresh2 : gm_ws) :
  is_zero (@s0 S) = true ->
  fst (gmres A2 P2 prm2 f2 x2 (snd (gmres A1 P1 prm1 f1 x1 fresh1))) = fst (gmres A2 P2 prm2 f2 x2 fresh2).
Proof. intro Hz. exact (gmres_junk_independent Hz A2 P2 prm2 f2 x2 _ fresh2). Qed.

(* LGMRES: the ring buffer of augmentation vectors (outer_v: start index + slot list, and the K
   vectors outer_v_data) is object state.  With always_reset = false the result of a call depends
   on it -- the documented exception, shown on the model by two object states: *)
Definition lg_dA : vec QcS -> vec QcS := diag_op [qc 1 1; qc 2 1].
Definition lg_prm (areset : bool) : @kprm QcS :=
  mkPrm 2 (qc 0 1) (qc 0 1) false false 1 false (qc 1 1) 1 areset 2 (qc 0 1) true.
Definition lg_jv : vec QcS := [qc 7 1; qc 7 1].
Definition lg_gm : @gm_ws QcS :=
  mkGmWs (fun _ _ => qc 7 1) (fun _ => qc 7 1) (fun _ => qc 7 1) (fun _ => qc 7 1) lg_jv (fun _ => lg_jv) (fun _ => lg_jv).
Definition lg_used : @lg_ws QcS := mkLgWs lg_gm (fun _ => [qc 1 1; qc 0 1]) (mkCb 0 [0]).   (* one stored vector *)
Definition lg_fresh : @lg_ws QcS := mkLgWs lg_gm (fun _ => lg_jv) cb_clear.
Theorem C15_lgmres_without_reset_depends_on_history :
  match fst (lgmres lg_dA (fun v => v) (lg_prm false) [qc 3 1; qc 4 1] [qc 0 1; qc 0 1] lg_used),
        fst (lgmres lg_dA (fun v => v) (lg_prm false) [qc 3 1; qc 4 1] [qc 0 1; qc 0 1] lg_fresh) with
  | KOk r1, KOk r2 => k_x r1 <> k_x r2
  | _, _ => False
  end.
Proof. vm_compute. intro H. discriminate H. Qed.
Print Assumptions C15_lgmres_without_reset_depends_on_history.
(* ... and with always_reset = true the same two objects give the same answer *)
Example C15_lgmres_with_reset_same_instance :
  fst (lgmres lg_dA (fun v => v) (lg_prm true) [qc 3 1; qc 4 1] [qc 0 1; qc 0 1] lg_used) =
  fst (lgmres lg_dA (fun v => v) (lg_prm true) [qc 3 1; qc 4 1] [qc 0 1; qc 0 1] lg_fresh).
Proof. vm_compute. reflexivity. Qed.

(* with always_reset = true (the default) the result of a call is independent of the incoming object
   state: scratch arrays AND the ring buffer (start index, slot list, stored vectors).  The proof
   uses that clear() empties the ring and resets its phase (cb_clear = {start 0; no slots}) and
   that every slot read later in the call was written earlier in the same call. *)
Theorem C15_lgmres_reset_state_independent (S : Scalar) (A P : vec S -> vec S) prm f x0 (st1 st2 : lg_ws) :
  is_zero (@s0 S) = true -> p_areset prm = true -> 1 <= p_M prm ->
  fst (lgmres A P prm f x0 st1) = fst (lgmres A P prm f x0 st2).
Proof. intros Hz Ha HM. exact (lgmres_reset_state_independent Hz A P prm f x0 st1 st2 Ha HM). Qed.
Print Assumptions C15_lgmres_reset_state_independent.

Theorem C15_lgmres_zero_rhs (S : Scalar) (A P : vec S -> vec S) prm f x0 st :
  sltb (norm_b f) eps1 = true -> p_ns prm = false ->
  fst (lgmres A P prm f x0 st) = KOk (mkRes 0 (norm_b f) (k_clear x0) false).
Proof. exact (lgmres_zero_rhs A P prm f x0 st). Qed.

(* ---- A2: zero right-hand side => zero iterations and x = 0 ---- *)
Theorem C15_cg_zero_rhs (S : Scalar) (A P : vec S -> vec S) prm f x0 junk :
  sltb (norm_a f) eps1 = true -> p_ns prm = false ->
  fst (cg A P prm f x0 junk) = KOk (mkRes 0 (norm_a f) (k_clear x0) false).
Proof. exact (cg_zero_rhs A P prm f x0 junk). Qed.
Theorem C15_richardson_zero_rhs (S : Scalar) (A P : vec S -> vec S) prm f x0 junk :
  sltb (norm_a f) eps1 = true -> p_ns prm = false ->
  fst (richardson A P prm f x0 junk) = KOk (mkRes 0 (norm_a f) (k_clear x0) false).
Proof. exact (richardson_zero_rhs A P prm f x0 junk). Qed.
Theorem C15_bicgstab_zero_rhs (S : Scalar) (A P : vec S -> vec S) prm f x0 junk :
  sltb (norm_a f) eps1 = true -> p_ns prm = false ->
  fst (bicgstab A P prm f x0 junk) = KOk (mkRes 0 (norm_a f) (k_clear x0) false).
Proof. exact (bicgstab_zero_rhs A P prm f x0 junk). Qed.
Theorem C15_gmres_zero_rhs (S : Scalar) (A P : vec S -> vec S) prm f x0 junk :
  sltb (norm_b f) eps1 = true -> p_ns prm = false ->
  fst (gmres A P prm f x0 junk) = KOk (mkRes 0 (norm_b f) (k_clear x0) false).
Proof. exact (gmres_zero_rhs A P prm f x0 junk). Qed.
Theorem C15_fgmres_zero_rhs (S : Scalar) (A P : vec S -> vec S) prm f x0 junk :
  sltb (norm_b f) eps1 = true -> p_ns prm = false ->
  fst (fgmres A P prm f x0 junk) = KOk (mkRes 0 (norm_b f) (k_clear x0) false).
Proof. exact (fgmres_zero_rhs A P prm f x0 junk). Qed.
Print Assumptions C15_fgmres_zero_rhs.

(* the zero vector really is what k_clear produces, and the exact zero right-hand side takes the exit *)
Example C15_zero_rhs_instance :
  fst (cg (fun v => v) (fun v => v) (mkPrm 5 (qc 1 10) (qc 0 1) false false 2 false (qc 1 1) 0 true 2 (qc 0 1) true)
          [qc 0 1; qc 0 1] [qc 3 1; qc (-1) 2] (mkCgWs [] [] [] []))
  = KOk (mkRes 0 (qc 0 1) [qc 0 1; qc 0 1] false).
Proof. vm_compute. reflexivity. Qed.

(* ---- A2: an initial guess that already satisfies the tolerance is returned unchanged, 0 iterations ---- *)
Theorem C15_cg_converged_guess (S : Scalar) (A P : vec S -> vec S) prm f x0 junk nr :
  k_prologue norm_a prm f = Go nr ->
  sltb (smax (p_tol prm * nr) (p_abstol prm)) (sabs (norm_a (k_residual f (A x0)))) = false ->
  exists res, fst (cg A P prm f x0 junk) = KOk (mkRes 0 res x0 false).
Proof. exact (cg_converged_guess A P prm f x0 junk nr). Qed.
Theorem C15_richardson_converged_guess (S : Scalar) (A P : vec S -> vec S) prm f x0 junk nr :
  k_prologue norm_a prm f = Go nr ->
  sltb (smax (p_tol prm * nr) (p_abstol prm)) (sabs (norm_a (k_residual f (A x0)))) = false ->
  exists res, fst (richardson A P prm f x0 junk) = KOk (mkRes 0 res x0 false).
Proof. exact (richardson_converged_guess A P prm f x0 junk nr). Qed.
Theorem C15_bicgstab_converged_guess (S : Scalar) (A P : vec S -> vec S) prm f x0 junk nr :
  k_prologue norm_a prm f = Go nr -> p_ca prm = false ->
  sltb (smax (nr * p_tol prm) (p_abstol prm))
       (norm_a (if p_left prm then P (k_residual f (A x0)) else k_residual f (A x0))) = false ->
  exists res, fst (bicgstab A P prm f x0 junk) = KOk (mkRes 0 res x0 false).
Proof. exact (bicgstab_converged_guess A P prm f x0 junk nr). Qed.
Theorem C15_gmres_converged_guess (S : Scalar) (A P : vec S -> vec S) prm f x0 junk nr :
  k_prologue norm_b prm f = Go nr ->
  sltb (true_res norm_b A P (p_left prm) f x0) (smax (p_tol prm * nr) (p_abstol prm)) = true ->
  exists res, fst (gmres A P prm f x0 junk) = KOk (mkRes 0 res x0 false).
Proof. exact (gmres_converged_guess A P prm f x0 junk nr). Qed.
Theorem C15_fgmres_converged_guess (S : Scalar) (A P : vec S -> vec S) prm f x0 junk nr :
  k_prologue norm_b prm f = Go nr ->
  sltb (true_res norm_b A P false f x0) (smax (p_tol prm * nr) (p_abstol prm)) = true ->
  exists res, fst (fgmres A P prm f x0 junk) = KOk (mkRes 0 res x0 false).
Proof. exact (fgmres_converged_guess A P prm f x0 junk nr). Qed.
Print Assumptions C15_fgmres_converged_guess.

(* =====================================================================================
   BiCGStab(L), IDR(s), LGMRES (proofs: KrylovProofs2*.v) *)
From Amgcl Require Import KrylovIdrs KrylovProofs2 KrylovProofs2Bl KrylovProofs2Idrs.

(* ---- A1: junk independence ----
   BiCGStab(L): Rt, B, R[0] are assigned; R[i], U[i] (i >= 1) are written in BiCG step i-1 before they
   are read; the polynomial part reads R[0..L] and U[0..L] only (the reads of the Householder QR are
   proved to stay inside the leading block); T is scratch.  X and U[0] are CLEARED, not assigned, so
   their allocated length is the one thing the two objects must share ([bl_sized n]). *)
Theorem C15_bicgstabl_junk_independent (S : Scalar) (A P : vec S -> vec S) prm f x0 n (j1 j2 : bl_ws) :
  1 <= p_L prm -> bl_sized n j1 -> bl_sized n j2 ->
  fst (bicgstabl A P prm f x0 j1) = fst (bicgstabl A P prm f x0 j2).
Proof. exact (bicgstabl_junk_independent A P prm f x0 n j1 j2). Qed.
Print Assumptions C15_bicgstabl_junk_independent.

(* IDR(s): M is reset to the identity on [0,s)^2, f is recomputed at the start of every pass, c[k..s)
   at the start of every k step, v and t are overwritten (t through axpbypcz(.., zero, t): needs
   is_zero(zero) = true), x_s and r_s are copied when smoothing is on; G[i], U[i] are CLEARED:
   [id_sized n s] = both objects allocated them with length n.  The shadow space Sh is constant
   object state built by the constructor, the same for both objects. *)
Theorem C15_idrs_junk_independent (S : Scalar) (A P : vec S -> vec S) Sh prm f x0 n (j1 j2 : id_ws) :
  is_zero (@s0 S) = true -> id_sized n (ip_s prm) j1 -> id_sized n (ip_s prm) j2 ->
  fst (idrs A P Sh prm f x0 j1) = fst (idrs A P Sh prm f x0 j2).
Proof. intro Hz. exact (idrs_junk_independent Hz A P Sh prm f x0 n j1 j2). Qed.
Print Assumptions C15_idrs_junk_independent.

Theorem C15_idrs_junk_independent_Qc (A P : vec QcS -> vec QcS) Sh prm f x0 n (j1 j2 : id_ws) :
  id_sized n (ip_s prm) j1 -> id_sized n (ip_s prm) j2 ->
  fst (idrs A P Sh prm f x0 j1) = fst (idrs A P Sh prm f x0 j2).
Proof. apply C15_idrs_junk_independent. reflexivity. Qed.
Print Assumptions C15_idrs_junk_independent_Qc.

(* ---- A2: zero right-hand side ---- *)
Theorem C15_bicgstabl_zero_rhs (S : Scalar) (A P : vec S -> vec S) prm f x0 junk :
  sltb (norm_a f) eps1 = true -> p_ns prm = false ->
  fst (bicgstabl A P prm f x0 junk) = KOk (mkRes 0 (norm_a f) (k_clear x0) false).
Proof. exact (bicgstabl_zero_rhs A P prm f x0 junk). Qed.
Theorem C15_idrs_zero_rhs (S : Scalar) (A P : vec S -> vec S) Sh prm f x0 junk :
  sltb (norm_b f) eps1 = true -> p_ns (ip_k prm) = false ->
  fst (idrs A P Sh prm f x0 junk) = KOk (mkRes 0 (norm_b f) (k_clear x0) false).
Proof. exact (idrs_zero_rhs A P Sh prm f x0 junk). Qed.
Print Assumptions C15_idrs_zero_rhs.

(* ---- A2: converged initial guess ---- *)
Theorem C15_lgmres_converged_guess (S : Scalar) (A P : vec S -> vec S) prm f x0 st nr :
  k_prologue norm_b prm f = Go nr ->
  sltb (true_res norm_b A P (p_left prm) f x0) (smax (p_tol prm * nr) (p_abstol prm)) = true ->
  exists res, fst (lgmres A P prm f x0 st) = KOk (mkRes 0 res x0 false).
Proof. exact (lgmres_converged_guess A P prm f x0 st nr). Qed.
(* IDR(s) has the explicit exit res_norm <= eps (any S) *)
Theorem C15_idrs_converged_guess (S : Scalar) (A P : vec S -> vec S) Sh prm f x0 junk nr :
  k_prologue norm_b (ip_k prm) f = Go nr ->
  sleb (true_res norm_b A P false f x0) (smax (p_tol (ip_k prm) * nr) (p_abstol (ip_k prm))) = true ->
  fst (idrs A P Sh prm f x0 junk) = KOk (mkRes 0 (true_res norm_b A P false f x0 / nr) x0 false).
Proof. exact (idrs_converged_guess A P Sh prm f x0 junk nr). Qed.
(* BiCGStab(L) leaves by the loop guard and then executes x += X (resp. x += P X) with the cleared X:
   "x unchanged" needs the ring laws (0 + x = x) and, for right preconditioning, P 0 = 0 *)
Theorem C15_bicgstabl_converged_guess (S : Scalar) (Srt : Sring S) (Seqb : seqb_spec S) n (A P : vec S -> vec S)
  (P_len : forall v, length v = n -> length (P v) = n) (P_lin : linear_on n P) left prm f x0 junk nr :
  p_left prm = left -> length f = n -> length x0 = n -> bl_sized n junk ->
  k_prologue norm_a prm f = Go nr ->
  sltb (true_res norm_a A P left f x0) (smax (p_tol prm * nr) (p_abstol prm)) = true ->
  fst (bicgstabl A P prm f x0 junk) = KOk (mkRes 0 (true_res norm_a A P left f x0 / nr) x0 false).
Proof. exact (bicgstabl_converged_guess Srt Seqb n A P P_len P_lin left prm f x0 junk nr). Qed.
Print Assumptions C15_bicgstabl_converged_guess.

(* ---- A1 in the form of the property text: a call on a used object = a call on a fresh object ----
   What junk independence needs from the workspace -- the allocated length of the vectors that are
   cleared instead of assigned -- is what a call leaves behind, for ANY Scalar record (floats, NaN
   included) and any length preserving operators, whatever exit the earlier call took: *)
From Amgcl Require Import KrylovProofs2Reuse.
Theorem C15_bicgstabl_workspace_stays_allocated (S : Scalar) n (A P : vec S -> vec S) prm f x0 junk :
  (forall v, length v = n -> length (A v) = n) -> (forall v, length v = n -> length (P v) = n) ->
  length f = n -> length x0 = n -> bl_sized n junk -> bl_sized n (snd (bicgstabl A P prm f x0 junk)).
Proof. intros HA HP. exact (bicgstabl_sized_preserved_any n A P HA HP prm f x0 junk). Qed.
Print Assumptions C15_bicgstabl_workspace_stays_allocated.

Theorem C15_idrs_workspace_stays_allocated (S : Scalar) n (A P : vec S -> vec S) Sh prm f x0 junk :
  (forall v, length v = n -> length (A v) = n) -> (forall v, length v = n -> length (P v) = n) ->
  length f = n -> length x0 = n -> id_sized n (ip_s prm) junk -> id_sized n (ip_s prm) (snd (idrs A P Sh prm f x0 junk)).
Proof. intros HA HP. exact (idrs_sized_preserved_any n A P HA HP Sh prm f x0 junk). Qed.
Print Assumptions C15_idrs_workspace_stays_allocated.

(* ... hence, as for CG and GMRES: the second call (other matrix, preconditioner, parameters, right-hand
   side, initial guess) on a used object gives what a fresh object gives *)
Theorem C15_bicgstabl_reuse (S : Scalar) n (A1 P1 A2 P2 : vec S -> vec S) prm1 prm2 f1 x1 f2 x2 (fresh1 fresh2 : bl_ws) :
  (forall v, length v = n -> length (A1 v) = n) -> (forall v, length v = n -> length (P1 v) = n) ->
  1 <= p_L prm2 -> length f1 = n -> length x1 = n -> bl_sized n fresh1 -> bl_sized n fresh2 ->
  fst (bicgstabl A2 P2 prm2 f2 x2 (snd (bicgstabl A1 P1 prm1 f1 x1 fresh1))) = fst (bicgstabl A2 P2 prm2 f2 x2 fresh2).
Proof. intros HA HP. exact (bicgstabl_reuse n A1 P1 HA HP A2 P2 prm1 prm2 f1 x1 f2 x2 fresh1 fresh2). Qed.
Print Assumptions C15_bicgstabl_reuse.

(* IDR(s): s is fixed by the constructor (it sizes M, f, c, G, U, P), so both calls have the same s *)
Theorem C15_idrs_reuse (S : Scalar) n (A1 P1 A2 P2 : vec S -> vec S) Sh prm1 prm2 f1 x1 f2 x2 (fresh1 fresh2 : id_ws) :
  (forall v, length v = n -> length (A1 v) = n) -> (forall v, length v = n -> length (P1 v) = n) ->
  is_zero (@s0 S) = true -> ip_s prm1 = ip_s prm2 -> length f1 = n -> length x1 = n ->
  id_sized n (ip_s prm1) fresh1 -> id_sized n (ip_s prm2) fresh2 ->
  fst (idrs A2 P2 Sh prm2 f2 x2 (snd (idrs A1 P1 Sh prm1 f1 x1 fresh1))) = fst (idrs A2 P2 Sh prm2 f2 x2 fresh2).
Proof. intros HA HP Hz. exact (idrs_reuse n A1 P1 HA HP Hz A2 P2 Sh prm1 prm2 f1 x1 f2 x2 fresh1 fresh2). Qed.
Print Assumptions C15_idrs_reuse.

(* the allocation hypotheses are satisfiable, and the theorems apply to a run that iterates *)
Example C15_sized_satisfiable :
  let jv := repeat (qc 9 2) 2 in
  let w : @id_ws QcS := mkIdWs (fun _ _ => qc 9 2) (fun _ => qc 9 2) (fun _ => qc 9 2) jv jv jv jv jv (fun _ => jv) (fun _ => jv) in
  let b : @bl_ws QcS := mkBlWs jv jv jv jv (fun _ => jv) (fun _ => jv) in
  id_sized 2 3 w /\ bl_sized 2 b.
Proof. split; [intros i Hi; split; reflexivity | split; reflexivity]. Qed.
