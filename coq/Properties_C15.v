(* Properties_C15.v -- C15 (solver part): solver objects are reusable; calls do not leak state.
   Statements only; proofs in KrylovProofs.v (cg, richardson, bicgstab, gmres, fgmres, lgmres) and
   KrylovProofs2*.v (bicgstabl, idrs, lgmres converged guess; second half of this file).
   Every mutable member of a solver object is a field of the workspace record that the model
   takes as INPUT ([junk]); "a call on a used object = a call on a fresh object" is independence
   of the observable result (iterations, residual, x -- [fst] of the model's output) from that
   input.  No algebraic law is used: the theorems hold for every Scalar record (IEEE floats,
   NaN included), arbitrary functions A and P. *)
From Amgcl Require Import Scalar QcInst Vec Kernels Krylov KrylovRef KrylovProofs.
Local Open Scope S_scope.

(* ---- A1: junk independence ---- *)
Theorem C15_cg_junk_independent (S : Scalar) (A P : vec S -> vec S) prm f x0 (j1 j2 : cg_ws) :
  fst (cg A P prm f x0 j1) = fst (cg A P prm f x0 j2).
Proof. exact (cg_junk_independent A P prm f x0 j1 j2). Qed.
Print Assumptions C15_cg_junk_independent.

(* the form of the property text: the second call on a used object (whatever the first call was:
   other matrix, other preconditioner, other parameters...) gives what a fresh object gives *)
Theorem C15_cg_reuse (S : Scalar) (A1 P1 A2 P2 : vec S -> vec S) prm1 prm2 f1 x1 f2 x2 (fresh1 fresh2 : cg_ws) :
  fst (cg A2 P2 prm2 f2 x2 (snd (cg A1 P1 prm1 f1 x1 fresh1))) = fst (cg A2 P2 prm2 f2 x2 fresh2).
Proof. exact (cg_junk_independent A2 P2 prm2 f2 x2 _ fresh2). Qed.
Print Assumptions C15_cg_reuse.

Theorem C15_richardson_junk_independent (S : Scalar) (A P : vec S -> vec S) prm f x0 (j1 j2 : ri_ws) :
  fst (richardson A P prm f x0 j1) = fst (richardson A P prm f x0 j2).
Proof. exact (richardson_junk_independent A P prm f x0 j1 j2). Qed.
Print Assumptions C15_richardson_junk_independent.

(* BiCGStab overwrites s and r through axpbypcz(.., zero, out): needs is_zero(zero) = true,
   a fact about the scalar type (true for IEEE types and for the exact rationals) *)
Theorem C15_bicgstab_junk_independent (S : Scalar) (A P : vec S -> vec S) prm f x0 (j1 j2 : bs_ws) :
  is_zero (@s0 S) = true ->
  fst (bicgstab A P prm f x0 j1) = fst (bicgstab A P prm f x0 j2).
Proof. intro Hz. exact (bicgstab_junk_independent Hz A P prm f x0 j1 j2). Qed.
Print Assumptions C15_bicgstab_junk_independent.

Theorem C15_bicgstab_junk_independent_Qc (A P : vec QcS -> vec QcS) prm f x0 (j1 j2 : bs_ws) :
  fst (bicgstab A P prm f x0 j1) = fst (bicgstab A P prm f x0 j2).
Proof. apply C15_bicgstab_junk_independent. reflexivity. Qed.
Print Assumptions C15_bicgstab_junk_independent_Qc.

(* GMRES(M) / FGMRES(M): the junk comprises the Hessenberg array H, the rotated right-hand side s,
   the rotations cs, sn, the scratch vector r and the bases v[], z[].  H(k,j), cs[k], sn[k], v[k],
   z[k] are read only at indices written earlier in the same restart cycle and s after std::fill.
   GMRES needs is_zero(zero) = true once: axpby(1/||r||, r, zero, v[0]) must overwrite v[0]. *)
Theorem C15_gmres_junk_independent (S : Scalar) (A P : vec S -> vec S) prm f x0 (j1 j2 : gm_ws) :
  is_zero (@s0 S) = true ->
  fst (gmres A P prm f x0 j1) = fst (gmres A P prm f x0 j2).
Proof. intro Hz. exact (gmres_junk_independent Hz A P prm f x0 j1 j2). Qed.
Print Assumptions C15_gmres_junk_independent.

Theorem C15_fgmres_junk_independent (S : Scalar) (A P : vec S -> vec S) prm f x0 (j1 j2 : gm_ws) :
  fst (fgmres A P prm f x0 j1) = fst (fgmres A P prm f x0 j2).
Proof. exact (fgmres_junk_independent A P prm f x0 j1 j2). Qed.
Print Assumptions C15_fgmres_junk_independent.

Theorem C15_gmres_junk_independent_Qc (A P : vec QcS -> vec QcS) prm f x0 (j1 j2 : gm_ws) :
  fst (gmres A P prm f x0 j1) = fst (gmres A P prm f x0 j2).
Proof. apply C15_gmres_junk_independent. reflexivity. Qed.
Print Assumptions C15_gmres_junk_independent_Qc.

(* reuse across different systems / parameters, as for CG *)
Theorem C15_gmres_reuse (S : Scalar) (A1 P1 A2 P2 : vec S -> vec S) prm1 prm2 f1 x1 f2 x2 (fresh1 fresh2 : gm_ws) :
  is_zero (@s0 S) = true ->
  fst (gmres A2 P2 prm2 f2 x2 (snd (gmres A1 P1 prm1 f1 x1 fresh1))) = fst (gmres A2 P2 prm2 f2 x2 fresh2).
Proof. intro Hz. exact (gmres_junk_independent Hz A2 P2 prm2 f2 x2 _ fresh2). Qed.

(* LGMRES: the ring buffer of augmentation vectors (outer_v: start index + slot list, and the K
   vectors outer_v_data) is object state.  With always_reset = false the result of a call depends
   on it -- the documented exception, shown on the model by two object states: *)
Definition lg_dA : vec QcS -> vec QcS := diag_op [qc 1 1; qc 2 1].
Definition lg_prm (areset : bool) : @kprm QcS :=
  mkPrm 2 (qc 0 1) (qc 0 1) false false 1 false (qc 1 1) 1 areset 2 (qc 0 1) true.
Definition lg_jv : vec QcS := [qc 7 1; qc 7 1].
Definition lg_gm : @gm_ws QcS :=
  mkGmWs (fun _ _ => qc 7 1) (fun _ => qc 7 1) (fun _ => qc 7 1) (fun _ => qc 7 1) lg_jv (fun _ => lg_jv) (fun _ => lg_jv).
Definition lg_used : @lg_ws QcS := mkLgWs lg_gm (fun _ => [qc 1 1; qc 0 1]) (mkCb 0 [0]).   (* one stored vector *)
Definition lg_fresh : @lg_ws QcS := mkLgWs lg_gm (fun _ => lg_jv) cb_clear.
Theorem C15_lgmres_without_reset_depends_on_history :
  match fst (lgmres lg_dA (fun v => v) (lg_prm false) [qc 3 1; qc 4 1] [qc 0 1; qc 0 1] lg_used),
        fst (lgmres lg_dA (fun v => v) (lg_prm false) [qc 3 1; qc 4 1] [qc 0 1; qc 0 1] lg_fresh) with
  | KOk r1, KOk r2 => k_x r1 <> k_x r2
  | _, _ => False
  end.
Proof. vm_compute. intro H. discriminate H. Qed.
Print Assumptions C15_lgmres_without_reset_depends_on_history.
(* ... and with always_reset = true the same two objects give the same answer *)
Example C15_lgmres_with_reset_same_instance :
  fst (lgmres lg_dA (fun v => v) (lg_prm true) [qc 3 1; qc 4 1] [qc 0 1; qc 0 1] lg_used) =
  fst (lgmres lg_dA (fun v => v) (lg_prm true) [qc 3 1; qc 4 1] [qc 0 1; qc 0 1] lg_fresh).
Proof. vm_compute. reflexivity. Qed.

(* with always_reset = true (the default) the result of a call is independent of the incoming object
   state: scratch arrays AND the ring buffer (start index, slot list, stored vectors).  The proof
   uses that clear() empties the ring and resets its phase (cb_clear = {start 0; no slots}) and
   that every slot read later in the call was written earlier in the same call. *)
Theorem C15_lgmres_reset_state_independent (S : Scalar) (A P : vec S -> vec S) prm f x0 (st1 st2 : lg_ws) :
  is_zero (@s0 S) = true -> p_areset prm = true -> 1 <= p_M prm ->
  fst (lgmres A P prm f x0 st1) = fst (lgmres A P prm f x0 st2).
Proof. intros Hz Ha HM. exact (lgmres_reset_state_independent Hz A P prm f x0 st1 st2 Ha HM). Qed.
Print Assumptions C15_lgmres_reset_state_independent.

Theorem C15_lgmres_zero_rhs (S : Scalar) (A P : vec S -> vec S) prm f x0 st :
  sltb (norm_b f) eps1 = true -> p_ns prm = false ->
  fst (lgmres A P prm f x0 st) = KOk (mkRes 0 (norm_b f) (k_clear x0) false).
Proof. exact (lgmres_zero_rhs A P prm f x0 st). Qed.

(* ---- A2: zero right-hand side => zero iterations and x = 0 ---- *)
Theorem C15_cg_zero_rhs (S : Scalar) (A P : vec S -> vec S) prm f x0 junk :
  sltb (norm_a f) eps1 = true -> p_ns prm = false ->
  fst (cg A P prm f x0 junk) = KOk (mkRes 0 (norm_a f) (k_clear x0) false).
Proof. exact (cg_zero_rhs A P prm f x0 junk). Qed.
Theorem C15_richardson_zero_rhs (S : Scalar) (A P : vec S -> vec S) prm f x0 junk :
  sltb (norm_a f) eps1 = true -> p_ns prm = false ->
  fst (richardson A P prm f x0 junk) = KOk (mkRes 0 (norm_a f) (k_clear x0) false).
Proof. exact (richardson_zero_rhs A P prm f x0 junk). Qed.
Theorem C15_bicgstab_zero_rhs (S : Scalar) (A P : vec S -> vec S) prm f x0 junk :
  sltb (norm_a f) eps1 = true -> p_ns prm = false ->
  fst (bicgstab A P prm f x0 junk) = KOk (mkRes 0 (norm_a f) (k_clear x0) false).
Proof. exact (bicgstab_zero_rhs A P prm f x0 junk). Qed.
Theorem C15_gmres_zero_rhs (S : Scalar) (A P : vec S -> vec S) prm f x0 junk :
  sltb (norm_b f) eps1 = true -> p_ns prm = false ->
  fst (gmres A P prm f x0 junk) = KOk (mkRes 0 (norm_b f) (k_clear x0) false).
Proof. exact (gmres_zero_rhs A P prm f x0 junk). Qed.
Theorem C15_fgmres_zero_rhs (S : Scalar) (A P : vec S -> vec S) prm f x0 junk :
  sltb (norm_b f) eps1 = true -> p_ns prm = false ->
  fst (fgmres A P prm f x0 junk) = KOk (mkRes 0 (norm_b f) (k_clear x0) false).
Proof. exact (fgmres_zero_rhs A P prm f x0 junk). Qed.
Print Assumptions C15_fgmres_zero_rhs.

(* the zero vector really is what k_clear produces, and the exact zero right-hand side takes the exit *)
Example C15_zero_rhs_instance :
  fst (cg (fun v => v) (fun v => v) (mkPrm 5 (qc 1 10) (qc 0 1) false false 2 false (qc 1 1) 0 true 2 (qc 0 1) true)
          [qc 0 1; qc 0 1] [qc 3 1; qc (-1) 2] (mkCgWs [] [] [] []))
  = KOk (mkRes 0 (qc 0 1) [qc 0 1; qc 0 1] false).
Proof. vm_compute. reflexivity. Qed.

(* ---- A2: an initial guess that already satisfies the tolerance is returned unchanged, 0 iterations ---- *)
Theorem C15_cg_converged_guess (S : Scalar) (A P : vec S -> vec S) prm f x0 junk nr :
  k_prologue norm_a prm f = Go nr ->
  sltb (smax (p_tol prm * nr) (p_abstol prm)) (sabs (norm_a (k_residual f (A x0)))) = false ->
  exists res, fst (cg A P prm f x0 junk) = KOk (mkRes 0 res x0 false).
Proof. exact (cg_converged_guess A P prm f x0 junk nr). Qed.
Theorem C15_richardson_converged_guess (S : Scalar) (A P : vec S -> vec S) prm f x0 junk nr :
  k_prologue norm_a prm f = Go nr ->
  sltb (smax (p_tol prm * nr) (p_abstol prm)) (sabs (norm_a (k_residual f (A x0)))) = false ->
  exists res, fst (richardson A P prm f x0 junk) = KOk (mkRes 0 res x0 false).
Proof. exact (richardson_converged_guess A P prm f x0 junk nr). Qed.
Theorem C15_bicgstab_converged_guess (S : Scalar) (A P : vec S -> vec S) prm f x0 junk nr :
  k_prologue norm_a prm f = Go nr -> p_ca prm = false ->
  sltb (smax (nr * p_tol prm) (p_abstol prm))
       (norm_a (if p_left prm then P (k_residual f (A x0)) else k_residual f (A x0))) = false ->
  exists res, fst (bicgstab A P prm f x0 junk) = KOk (mkRes 0 res x0 false).
Proof. exact (bicgstab_converged_guess A P prm f x0 junk nr). Qed.
Theorem C15_gmres_converged_guess (S : Scalar) (A P : vec S -> vec S) prm f x0 junk nr :
  k_prologue norm_b prm f = Go nr ->
  sltb (true_res norm_b A P (p_left prm) f x0) (smax (p_tol prm * nr) (p_abstol prm)) = true ->
  exists res, fst (gmres A P prm f x0 junk) = KOk (mkRes 0 res x0 false).
Proof. exact (gmres_converged_guess A P prm f x0 junk nr). Qed.
Theorem C15_fgmres_converged_guess (S : Scalar) (A P : vec S -> vec S) prm f x0 junk nr :
  k_prologue norm_b prm f = Go nr ->
  sltb (true_res norm_b A P false f x0) (smax (p_tol prm * nr) (p_abstol prm)) = true ->
  exists res, fst (fgmres A P prm f x0 junk) = KOk (mkRes 0 res x0 false).
Proof. exact (fgmres_converged_guess A P prm f x0 junk nr). Qed.
Print Assumptions C15_fgmres_converged_guess.

(* =====================================================================================
   BiCGStab(L), IDR(s), LGMRES (proofs: KrylovProofs2*.v) *)
From Amgcl Require Import KrylovIdrs KrylovProofs2 KrylovProofs2Bl KrylovProofs2Idrs.

(* ---- A1: junk independence ----
   BiCGStab(L): Rt, B, R[0] are assigned; R[i], U[i] (i >= 1) are written in BiCG step i-1 before they
   are read; the polynomial part reads R[0..L] and U[0..L] only (the reads of the Householder QR are
   proved to stay inside the leading block); T is scratch.  X and U[0] are CLEARED, not assigned, so
   their allocated length is the one thing the two objects must share ([bl_sized n]). *)
Theorem C15_bicgstabl_junk_independent (S : Scalar) (A P : vec S -> vec S) prm f x0 n (j1 j2 : bl_ws) :
  1 <= p_L prm -> bl_sized n j1 -> bl_sized n j2 ->
  fst (bicgstabl A P prm f x0 j1) = fst (bicgstabl A P prm f x0 j2).
Proof. exact (bicgstabl_junk_independent A P prm f x0 n j1 j2). Qed.
Print Assumptions C15_bicgstabl_junk_independent.

(* IDR(s): M is reset to the identity on [0,s)^2, f is recomputed at the start of every pass, c[k..s)
   at the start of every k step, v and t are overwritten (t through axpbypcz(.., zero, t): needs
   is_zero(zero) = true), x_s and r_s are copied when smoothing is on; G[i], U[i] are CLEARED:
   [id_sized n s] = both objects allocated them with length n.  The shadow space Sh is constant
   object state built by the constructor, the same for both objects. *)
Theorem C15_idrs_junk_independent (S : Scalar) (A P : vec S -> vec S) Sh prm f x0 n (j1 j2 : id_ws) :
  is_zero (@s0 S) = true -> id_sized n (ip_s prm) j1 -> id_sized n (ip_s prm) j2 ->
  fst (idrs A P Sh prm f x0 j1) = fst (idrs A P Sh prm f x0 j2).
Proof. intro Hz. exact (idrs_junk_independent Hz A P Sh prm f x0 n j1 j2). Qed.
Print Assumptions C15_idrs_junk_independent.

Theorem C15_idrs_junk_independent_Qc (A P : vec QcS -> vec QcS) Sh prm f x0 n (j1 j2 : id_ws) :
  id_sized n (ip_s prm) j1 -> id_sized n (ip_s prm) j2 ->
  fst (idrs A P Sh prm f x0 j1) = fst (idrs A P Sh prm f x0 j2).
Proof. apply C15_idrs_junk_independent. reflexivity. Qed.
Print Assumptions C15_idrs_junk_independent_Qc.

(* ---- A2: zero right-hand side ---- *)
Theorem C15_bicgstabl_zero_rhs (S : Scalar) (A P : vec S -> vec S) prm f x0 junk :
  sltb (norm_a f) eps1 = true -> p_ns prm = false ->
  fst (bicgstabl A P prm f x0 junk) = KOk (mkRes 0 (norm_a f) (k_clear x0) false).
Proof. exact (bicgstabl_zero_rhs A P prm f x0 junk). Qed.
Theorem C15_idrs_zero_rhs (S : Scalar) (A P : vec S -> vec S) Sh prm f x0 junk :
  sltb (norm_b f) eps1 = true -> p_ns (ip_k prm) = false ->
  fst (idrs A P Sh prm f x0 junk) = KOk (mkRes 0 (norm_b f) (k_clear x0) false).
Proof. exact (idrs_zero_rhs A P Sh prm f x0 junk). Qed.
Print Assumptions C15_idrs_zero_rhs.

(* ---- A2: converged initial guess ---- *)
Theorem C15_lgmres_converged_guess (S : Scalar) (A P : vec S -> vec S) prm f x0 st nr :
  k_prologue norm_b prm f = Go nr ->
  sltb (true_res norm_b A P (p_left prm) f x0) (smax (p_tol prm * nr) (p_abstol prm)) = true ->
  exists res, fst (lgmres A P prm f x0 st) = KOk (mkRes 0 res x0 false).
Proof. exact (lgmres_converged_guess A P prm f x0 st nr). Qed.
(* IDR(s) has the explicit exit res_norm <= eps (any S) *)
Theorem C15_idrs_converged_guess (S : Scalar) (A P : vec S -> vec S) Sh prm f x0 junk nr :
  k_prologue norm_b (ip_k prm) f = Go nr ->
  sleb (true_res norm_b A P false f x0) (smax (p_tol (ip_k prm) * nr) (p_abstol (ip_k prm))) = true ->
  fst (idrs A P Sh prm f x0 junk) = KOk (mkRes 0 (true_res norm_b A P false f x0 / nr) x0 false).
Proof. exact (idrs_converged_guess A P Sh prm f x0 junk nr). Qed.
(* BiCGStab(L) leaves by the loop guard and then executes x += X (resp. x += P X) with the cleared X:
   "x unchanged" needs the ring laws (0 + x = x) and, for right preconditioning, P 0 = 0 *)
Theorem C15_bicgstabl_converged_guess (S : Scalar) (Srt : Sring S) (Seqb : seqb_spec S) n (A P : vec S -> vec S)
  (P_len : forall v, length v = n -> length (P v) = n) (P_lin : linear_on n P) left prm f x0 junk nr :
  p_left prm = left -> length f = n -> length x0 = n -> bl_sized n junk ->
  k_prologue norm_a prm f = Go nr ->
  sltb (true_res norm_a A P left f x0) (smax (p_tol prm * nr) (p_abstol prm)) = true ->
  fst (bicgstabl A P prm f x0 junk) = KOk (mkRes 0 (true_res norm_a A P left f x0 / nr) x0 false).
Proof. exact (bicgstabl_converged_guess Srt Seqb n A P P_len P_lin left prm f x0 junk nr). Qed.
Print Assumptions C15_bicgstabl_converged_guess.

(* ---- A1 in the form of the property text: a call on a used object = a call on a fresh object ----
   What junk independence needs from the workspace -- the allocated length of the vectors that are
   cleared instead of assigned -- is what a call leaves behind, for ANY Scalar record (floats, NaN
   included) and any length preserving operators, whatever exit the earlier call took: *)
From Amgcl Require Import KrylovProofs2Reuse.
Theorem C15_bicgstabl_workspace_stays_allocated (S : Scalar) n (A P : vec S -> vec S) prm f x0 junk :
  (forall v, length v = n -> length (A v) = n) -> (forall v, length v = n -> length (P v) = n) ->
  length f = n -> length x0 = n -> bl_sized n junk -> bl_sized n (snd (bicgstabl A P prm f x0 junk)).
Proof. intros HA HP. exact (bicgstabl_sized_preserved_any n A P HA HP prm f x0 junk). Qed.
Print Assumptions C15_bicgstabl_workspace_stays_allocated.

Theorem C15_idrs_workspace_stays_allocated (S : Scalar) n (A P : vec S -> vec S) Sh prm f x0 junk :
  (forall v, length v = n -> length (A v) = n) -> (forall v, length v = n -> length (P v) = n) ->
  length f = n -> length x0 = n -> id_sized n (ip_s prm) junk -> id_sized n (ip_s prm) (snd (idrs A P Sh prm f x0 junk)).
Proof. intros HA HP. exact (idrs_sized_preserved_any n A P HA HP Sh prm f x0 junk). Qed.
Print Assumptions C15_idrs_workspace_stays_allocated.

(* ... hence, as for CG and GMRES: the second call (other matrix, preconditioner, parameters, right-hand
   side, initial guess) on a used object gives what a fresh object gives *)
Theorem C15_bicgstabl_reuse (S : Scalar) n (A1 P1 A2 P2 : vec S -> vec S) prm1 prm2 f1 x1 f2 x2 (fresh1 fresh2 : bl_ws) :
  (forall v, length v = n -> length (A1 v) = n) -> (forall v, length v = n -> length (P1 v) = n) ->
  1 <= p_L prm2 -> length f1 = n -> length x1 = n -> bl_sized n fresh1 -> bl_sized n fresh2 ->
  fst (bicgstabl A2 P2 prm2 f2 x2 (snd (bicgstabl A1 P1 prm1 f1 x1 fresh1))) = fst (bicgstabl A2 P2 prm2 f2 x2 fresh2).
Proof. intros HA HP. exact (bicgstabl_reuse n A1 P1 HA HP A2 P2 prm1 prm2 f1 x1 f2 x2 fresh1 fresh2). Qed.
Print Assumptions C15_bicgstabl_reuse.

(* IDR(s): s is fixed by the constructor (it sizes M, f, c, G, U, P), so both calls have the same s *)
Theorem C15_idrs_reuse (S : Scalar) n (A1 P1 A2 P2 : vec S -> vec S) Sh prm1 prm2 f1 x1 f2 x2 (fresh1 fresh2 : id_ws) :
  (forall v, length v = n -> length (A1 v) = n) -> (forall v, length v = n -> length (P1 v) = n) ->
  is_zero (@s0 S) = true -> ip_s prm1 = ip_s prm2 -> length f1 = n -> length x1 = n ->
  id_sized n (ip_s prm1) fresh1 -> id_sized n (ip_s prm2) fresh2 ->
  fst (idrs A2 P2 Sh prm2 f2 x2 (snd (idrs A1 P1 Sh prm1 f1 x1 fresh1))) = fst (idrs A2 P2 Sh prm2 f2 x2 fresh2).
Proof. intros HA HP Hz. exact (idrs_reuse n A1 P1 HA HP Hz A2 P2 Sh prm1 prm2 f1 x1 f2 x2 fresh1 fresh2). Qed.
Print Assumptions C15_idrs_reuse.

(* the allocation hypotheses are satisfiable, and the theorems apply to a run that iterates *)
Example C15_sized_satisfiable :
  let jv := repeat (qc 9 2) 2 in
  let w : @id_ws QcS := mkIdWs (fun _ _ => qc 9 2) (fun _ => qc 9 2) (fun _ => qc 9 2) jv jv jv jv jv (fun _ => jv) (fun _ => jv) in
  let b : @bl_ws QcS := mkBlWs jv jv jv jv (fun _ => jv) (fun _ => jv) in
  id_sized 2 3 w /\ bl_sized 2 b.
Proof. split; [intros i Hi; split; reflexivity | split; reflexivity]. Qed.

(* =====================================================================================
   OBJECTS other than a bare Krylov solver (proofs: ReuseProofs.v, ReuseProofs2.v, ReuseProofs3.v).
   Every mutable member of the C++ object is explicit state of the model; a call HISTORY is a fold
   that threads this state; "reusable" = the observable result of a call on the state reached after
   ANY history equals the result of the same call on a fresh state.  No algebraic law is used
   (the statements hold for IEEE floats including NaN); is_zero(zero) = true is needed where a
   backend primitive overwrites its output through the beta = 0 branch. *)
From Amgcl Require Import Crs Direct DirectProofs Cheby Amg AmgExec AmgProofs AmgProofs2 AmgProofs3
  ReuseProofs ReuseProofs2 ReuseProofs3 ReuseProofs4.

(* ---- solver::skyline_lu (skyline_lu.hpp:178-199; the member y, line 218, is scratch) ----
   [sky_history f y hist] = content of y after the solves hist = [(rhs_1, x_1); ...] *)
Theorem C15_skyline_reuse (S : Scalar) (f : skyline S) (rhs x y0 yfresh : vec S) (hist : list (vec S * vec S)) :
  profile_wf (sk_n f) (sk_ptr f) -> length y0 = sk_n f -> length yfresh = sk_n f ->
  fst (sky_solve f rhs x (sky_history f y0 hist)) = fst (sky_solve f rhs x yfresh).
Proof. exact (skyline_reuse f rhs x y0 yfresh hist). Qed.
Print Assumptions C15_skyline_reuse.

(* ---- relaxation::chebyshev (chebyshev.hpp:143-204; members p, r, line 173, are scratch) ----
   object state = (p, r); [cheby_call] = solve() returning x and the new state.  Law-free (the
   ring-law version C06_cheby_workspace_independent is pointwise only): step k = 0 overwrites r by
   residual() and p by axpby(alpha, r, zero, p). *)
Theorem C15_chebyshev_state_independent (S : Scalar) (Z : is_zero (@s0 S) = true) (c d : S) (M : option (vec S))
  (degree : nat) (A : crs S) (st1 st2 : vec S * vec S) (b x : vec S) :
  (forall m, M = Some m -> length m = nrows A) -> length b = nrows A -> length x = nrows A ->
  cheby_state_ok A st1 -> cheby_state_ok A st2 ->
  fst (cheby_call (c, d, M) degree A st1 b x) = fst (cheby_call (c, d, M) degree A st2 b x) /\
  cheby_state_ok A (snd (cheby_call (c, d, M) degree A st1 b x)).
Proof. exact (cheby_call_state_independent_and_ok Z c d M degree A st1 st2 b x). Qed.
Print Assumptions C15_chebyshev_state_independent.

(* apply_pre / apply_post (x is used as it comes) after any history of sweeps *)
Theorem C15_chebyshev_reuse (S : Scalar) (Z : is_zero (@s0 S) = true) (c d : S) (M : option (vec S)) (degree : nat)
  (A : crs S) (st0 stfresh : vec S * vec S) (hist : list (vec S * vec S)) (b x : vec S) :
  (forall m, M = Some m -> length m = nrows A) ->
  Forall (fun bx => length (fst bx) = nrows A /\ length (snd bx) = nrows A) hist ->
  cheby_state_ok A st0 -> cheby_state_ok A stfresh -> length b = nrows A -> length x = nrows A ->
  fst (cheby_call (c, d, M) degree A (cheby_history (c, d, M) degree A st0 hist) b x) =
  fst (cheby_call (c, d, M) degree A stfresh b x).
Proof. exact (cheby_reuse Z c d M degree A st0 stfresh hist b x). Qed.
Print Assumptions C15_chebyshev_reuse.

(* apply() = as_preconditioner<chebyshev>::apply: x is cleared first, its old content is irrelevant too *)
Theorem C15_chebyshev_apply_reuse (S : Scalar) (Z : is_zero (@s0 S) = true) (c d : S) (M : option (vec S)) (degree : nat)
  (A : crs S) (st0 stfresh : vec S * vec S) (hist : list (vec S * vec S)) (b x1 x2 : vec S) :
  (forall m, M = Some m -> length m = nrows A) ->
  Forall (fun bx => length (fst bx) = nrows A /\ length (snd bx) = nrows A) hist ->
  cheby_state_ok A st0 -> cheby_state_ok A stfresh -> length b = nrows A -> length x1 = nrows A -> length x2 = nrows A ->
  fst (cheby_call (c, d, M) degree A (cheby_history (c, d, M) degree A st0 hist) b (vclear x1)) =
  fst (cheby_call (c, d, M) degree A stfresh b (vclear x2)).
Proof. exact (cheby_apply_reuse_history Z c d M degree A st0 stfresh hist b x1 x2). Qed.
Print Assumptions C15_chebyshev_apply_reuse.

(* the object call is the sweep of Cheby.v (C06) *)
Theorem C15_chebyshev_call_is_sweep (S : Scalar) (cdM : S * S * option (vec S)) degree (A : crs S) (p r b x : vec S) :
  fst (cheby_call cdM degree A (p, r) b x) = cheby_sweep cdM degree A b x p r.
Proof. exact (cheby_call_is_sweep cdM degree A p r b x). Qed.

(* ---- amg (amg.hpp): per-level vectors f, u, t survive apply() AND rebuild() (level::rebuild, amg.hpp:426-458,
   replaces matrices, smoothers and the coarse solver only).  After any rebuilds the object, with the scratch it
   had, applies like a hierarchy built afresh from the last matrix with the same transfer operators. *)
Theorem C15_amg_reuse_after_rebuild (S : Scalar) (Z : is_zero (@s0 S) = true) ce dc ml sc ts (M : crs S)
  (Ms : list (crs S)) (M' : crs S) k npre npost ncycle pre_cycles :
  Forall (fun X => nrows X = nrows M) Ms -> nrows M' = nrows M ->
  let ls0 := amg_init ce dc ml (coarse_op_of sc) ts M in
  let ls' := amg_rebuild (coarse_op_of sc) (fold_left (amg_rebuild (coarse_op_of sc)) Ms ls0) M' in
  let lfresh := amg_init ce dc ml (coarse_op_of sc) ts M' in
  forall scr scrf rhs x1 x2,
  scratch_wf (std_levels k ls0) scr -> scratch_wf (std_levels k lfresh) scrf ->
  length rhs = nrows M -> length x1 = nrows M -> length x2 = nrows M ->
  fst (apply npre npost ncycle pre_cycles (std_levels k ls') scr rhs x1) =
  fst (apply npre npost ncycle pre_cycles (std_levels k lfresh) scrf rhs x2).
Proof. exact (amg_reuse_after_rebuild Z ce dc ml sc ts M Ms M' k npre npost ncycle pre_cycles). Qed.
Print Assumptions C15_amg_reuse_after_rebuild.

(* any interleaving of rebuilds and applies: [amg_life] threads (hierarchy, scratch) through the events,
   [last_matrix] is the matrix of the last rebuild (M if none) *)
Theorem C15_amg_reuse_any_life (S : Scalar) (Z : is_zero (@s0 S) = true) ce dc ml sc ts (M : crs S) k
  npre npost ncycle pre_cycles (evs : list (@amg_event S)) scr0 scrf rhs x1 x2 :
  Forall (event_ok (nrows M)) evs ->
  scratch_wf (std_levels k (amg_init ce dc ml (coarse_op_of sc) ts M)) scr0 ->
  let obj := amg_life sc k npre npost ncycle pre_cycles (amg_init ce dc ml (coarse_op_of sc) ts M) scr0 evs in
  let lfresh := amg_init ce dc ml (coarse_op_of sc) ts (last_matrix M evs) in
  scratch_wf (std_levels k lfresh) scrf ->
  length rhs = nrows M -> length x1 = nrows M -> length x2 = nrows M ->
  fst (apply npre npost ncycle pre_cycles (std_levels k (fst obj)) (snd obj) rhs x1) =
  fst (apply npre npost ncycle pre_cycles (std_levels k lfresh) scrf rhs x2).
Proof. exact (amg_reuse_any_life Z ce dc ml sc ts M k npre npost ncycle pre_cycles evs scr0 scrf rhs x1 x2). Qed.
Print Assumptions C15_amg_reuse_any_life.

(* ---- make_solver<Precond, Solver> (make_solver.hpp:118-145) = (preconditioner object, solver object) ----
   The Krylov models take the preconditioner as a PURE function.  Here it is a STATEFUL operator
   [sprecond] = state -> rhs -> old content of the output vector -> (new output, new state), threaded through
   the solve in program order by the state-passing models cg_sp, richardson_sp, bicgstab_sp, gmres_sp,
   fgmres_sp (same text as Krylov.v, every [P v] replaced by a call of the operator on the member vector
   that receives the result).  [simulates n Inv sp pf]: on vectors of the allocated length n, in every state
   satisfying Inv, sp returns pf r and re-establishes Inv. *)
Theorem C15_stateful_preconditioner_cg (S : Scalar) (PS : Type) n (Inv : PS -> Prop) (sp : sprecond) (pf A : vec S -> vec S)
  prm (f x0 : vec S) (ws : cg_ws) (ps : PS) :
  simulates n Inv sp pf -> (forall v, length v = n -> length (A v) = n) -> length f = n -> length x0 = n ->
  cg_sized n ws -> Inv ps ->
  fst (fst (cg_sp A sp prm f x0 ws ps)) = fst (cg A pf prm f x0 ws) /\
  snd (fst (cg_sp A sp prm f x0 ws ps)) = snd (cg A pf prm f x0 ws) /\
  Inv (snd (cg_sp A sp prm f x0 ws ps)) /\ cg_sized n (snd (fst (cg_sp A sp prm f x0 ws ps))).
Proof. exact (cg_sp_simulated n Inv sp pf A prm f x0 ws ps). Qed.
Print Assumptions C15_stateful_preconditioner_cg.

(* with a stateless preconditioner the state-passing text IS the pure model (link between the two texts) *)
Theorem C15_state_passing_models_are_the_pure_models (S : Scalar) (A P : vec S -> vec S) prm (f x0 : vec S) :
  (forall ws u, cg_sp A (fun (_ : unit) r _ => (P r, tt)) prm f x0 ws u = (cg A P prm f x0 ws, tt)) /\
  (forall ws u, richardson_sp A (fun (_ : unit) r _ => (P r, tt)) prm f x0 ws u = (richardson A P prm f x0 ws, tt)) /\
  (forall ws u, bicgstab_sp A (fun (_ : unit) r _ => (P r, tt)) prm f x0 ws u = (bicgstab A P prm f x0 ws, tt)) /\
  (forall ws u, gmres_sp A (fun (_ : unit) r _ => (P r, tt)) prm f x0 ws u = (gmres A P prm f x0 ws, tt)) /\
  (forall ws u, fgmres_sp A (fun (_ : unit) r _ => (P r, tt)) prm f x0 ws u = (fgmres A P prm f x0 ws, tt)).
Proof. exact (all_sp_stateless A P prm f x0). Qed.
Print Assumptions C15_state_passing_models_are_the_pure_models.

(* reuse of the composite object, ANY simulated stateful preconditioner: object state = (solver workspace,
   preconditioner state); a call [kcall] = (A, prm, rhs, x0) (both operator() overloads of make_solver);
   [call_ok n c]: A keeps length n, rhs and x0 have length n *)
Theorem C15_make_solver_reuse_any_preconditioner_cg (S : Scalar) (PS : Type) n (Inv : PS -> Prop) (sp : sprecond)
  (pf : vec S -> vec S) (hist : list (@kcall S)) (c : @kcall S) (ws0 wsf : cg_ws) (ps0 psf : PS) :
  simulates n Inv sp pf -> Forall (call_ok n) hist -> call_ok n c ->
  cg_sized n ws0 -> Inv ps0 -> cg_sized n wsf -> Inv psf ->
  fst (cg_obj_call sp c (cg_obj_history sp hist (ws0, ps0))) = fst (cg_obj_call sp c (wsf, psf)).
Proof. exact (cg_object_reuse n Inv sp pf hist c ws0 wsf ps0 psf). Qed.
Theorem C15_make_solver_reuse_any_preconditioner_richardson (S : Scalar) (PS : Type) n (Inv : PS -> Prop) (sp : sprecond)
  (pf : vec S -> vec S) (hist : list (@kcall S)) (c : @kcall S) (ws0 wsf : ri_ws) (ps0 psf : PS) :
  simulates n Inv sp pf -> Forall (call_ok n) hist -> call_ok n c ->
  ri_sized n ws0 -> Inv ps0 -> ri_sized n wsf -> Inv psf ->
  fst (ri_obj_call sp c (ri_obj_history sp hist (ws0, ps0))) = fst (ri_obj_call sp c (wsf, psf)).
Proof. exact (richardson_object_reuse n Inv sp pf hist c ws0 wsf ps0 psf). Qed.
Theorem C15_make_solver_reuse_any_preconditioner_bicgstab (S : Scalar) (PS : Type) n (Inv : PS -> Prop) (sp : sprecond)
  (pf : vec S -> vec S) (hist : list (@kcall S)) (c : @kcall S) (ws0 wsf : bs_ws) (ps0 psf : PS) :
  is_zero (@s0 S) = true -> simulates n Inv sp pf -> Forall (call_ok n) hist -> call_ok n c ->
  bs_sized n ws0 -> Inv ps0 -> bs_sized n wsf -> Inv psf ->
  fst (bs_obj_call sp c (bs_obj_history sp hist (ws0, ps0))) = fst (bs_obj_call sp c (wsf, psf)).
Proof. exact (bicgstab_object_reuse n Inv sp pf hist c ws0 wsf ps0 psf). Qed.
(* GMRES(M), FGMRES(M): M = the restart length the object was allocated for; every call has 1 <= prm.M <= M *)
Theorem C15_make_solver_reuse_any_preconditioner_gmres (S : Scalar) (PS : Type) n M (Inv : PS -> Prop) (sp : sprecond)
  (pf : vec S -> vec S) (hist : list (@kcall S)) (c : @kcall S) (ws0 wsf : gm_ws) (ps0 psf : PS) :
  is_zero (@s0 S) = true -> simulates n Inv sp pf -> Forall (gm_call_ok n M) hist -> gm_call_ok n M c ->
  gm_sized n M ws0 -> Inv ps0 -> gm_sized n M wsf -> Inv psf ->
  fst (gm_obj_call sp c (gm_obj_history sp hist (ws0, ps0))) = fst (gm_obj_call sp c (wsf, psf)).
Proof. exact (gmres_object_reuse n M Inv sp pf hist c ws0 wsf ps0 psf). Qed.
Theorem C15_make_solver_reuse_any_preconditioner_fgmres (S : Scalar) (PS : Type) n M (Inv : PS -> Prop) (sp : sprecond)
  (pf : vec S -> vec S) (hist : list (@kcall S)) (c : @kcall S) (ws0 wsf : gm_ws) (ps0 psf : PS) :
  simulates n Inv sp pf -> Forall (gm_call_ok n M) hist -> gm_call_ok n M c ->
  fg_sized n M ws0 -> Inv ps0 -> fg_sized n M wsf -> Inv psf ->
  fst (fg_obj_call sp c (fg_obj_history sp hist (ws0, ps0))) = fst (fg_obj_call sp c (wsf, psf)).
Proof. exact (fgmres_object_reuse n M Inv sp pf hist c ws0 wsf ps0 psf). Qed.
Print Assumptions C15_make_solver_reuse_any_preconditioner_fgmres.

(* amg::apply with its scratch IS such an operator (C02 history independence): invariant = scratch_wf *)
Theorem C15_amg_is_a_simulated_stateful_preconditioner (S : Scalar) npre npost ncycle pre_cycles (lvls : list (@level S))
  (scr0 : list (@scratch S)) :
  is_zero (@s0 S) = true -> hier_wf lvls -> lvls <> [] -> scratch_wf lvls scr0 ->
  simulates (top_n lvls) (scratch_wf lvls) (amg_sp npre npost ncycle pre_cycles lvls)
            (fun r => fst (apply npre npost ncycle pre_cycles lvls scr0 r (vzero (top_n lvls)))).
Proof. exact (amg_simulates npre npost ncycle pre_cycles lvls scr0). Qed.
Print Assumptions C15_amg_is_a_simulated_stateful_preconditioner.

(* make_solver<amg, cg>: a call after ANY history of calls (other right-hand sides, guesses, parameters, system
   matrices) = the call on a fresh object (any sized workspace, any allocated scratch) *)
Theorem C15_make_solver_reuse (S : Scalar) npre npost ncycle pre_cycles (lvls : list (@level S)) (hist : list (@kcall S)) (c : @kcall S)
  (ws0 wsf : cg_ws) (scr0 scrf : list (@scratch S)) :
  is_zero (@s0 S) = true -> hier_wf lvls -> lvls <> [] ->
  Forall (call_ok (top_n lvls)) hist -> call_ok (top_n lvls) c ->
  cg_sized (top_n lvls) ws0 -> scratch_wf lvls scr0 -> cg_sized (top_n lvls) wsf -> scratch_wf lvls scrf ->
  fst (cg_obj_call (amg_sp npre npost ncycle pre_cycles lvls) c
         (cg_obj_history (amg_sp npre npost ncycle pre_cycles lvls) hist (ws0, scr0))) =
  fst (cg_obj_call (amg_sp npre npost ncycle pre_cycles lvls) c (wsf, scrf)).
Proof. exact (make_solver_amg_cg_reuse npre npost ncycle pre_cycles lvls hist c ws0 wsf scr0 scrf). Qed.
Print Assumptions C15_make_solver_reuse.

(* ... and it computes what the pure model computes with the preconditioner function of ANY allocated scratch *)
Theorem C15_make_solver_is_the_pure_model (S : Scalar) npre npost ncycle pre_cycles (lvls : list (@level S)) (hist : list (@kcall S))
  (c : @kcall S) (ws0 junk : cg_ws) (scr0 scrp : list (@scratch S)) :
  is_zero (@s0 S) = true -> hier_wf lvls -> lvls <> [] ->
  Forall (call_ok (top_n lvls)) hist -> call_ok (top_n lvls) c ->
  cg_sized (top_n lvls) ws0 -> scratch_wf lvls scr0 -> scratch_wf lvls scrp ->
  fst (cg_obj_call (amg_sp npre npost ncycle pre_cycles lvls) c
         (cg_obj_history (amg_sp npre npost ncycle pre_cycles lvls) hist (ws0, scr0))) =
  fst (cg (kc_A c) (fun r => fst (apply npre npost ncycle pre_cycles lvls scrp r (vzero (top_n lvls))))
          (kc_prm c) (kc_f c) (kc_x0 c) junk).
Proof. exact (make_solver_amg_cg_is_pure npre npost ncycle pre_cycles lvls hist c ws0 junk scr0 scrp). Qed.
Print Assumptions C15_make_solver_is_the_pure_model.

Theorem C15_make_solver_reuse_richardson (S : Scalar) npre npost ncycle pre_cycles (lvls : list (@level S)) (hist : list (@kcall S))
  (c : @kcall S) (ws0 wsf : ri_ws) (scr0 scrf : list (@scratch S)) :
  is_zero (@s0 S) = true -> hier_wf lvls -> lvls <> [] ->
  Forall (call_ok (top_n lvls)) hist -> call_ok (top_n lvls) c ->
  ri_sized (top_n lvls) ws0 -> scratch_wf lvls scr0 -> ri_sized (top_n lvls) wsf -> scratch_wf lvls scrf ->
  fst (ri_obj_call (amg_sp npre npost ncycle pre_cycles lvls) c
         (ri_obj_history (amg_sp npre npost ncycle pre_cycles lvls) hist (ws0, scr0))) =
  fst (ri_obj_call (amg_sp npre npost ncycle pre_cycles lvls) c (wsf, scrf)).
Proof. exact (make_solver_amg_richardson_reuse npre npost ncycle pre_cycles lvls hist c ws0 wsf scr0 scrf). Qed.
Theorem C15_make_solver_reuse_bicgstab (S : Scalar) npre npost ncycle pre_cycles (lvls : list (@level S)) (hist : list (@kcall S))
  (c : @kcall S) (ws0 wsf : bs_ws) (scr0 scrf : list (@scratch S)) :
  is_zero (@s0 S) = true -> hier_wf lvls -> lvls <> [] ->
  Forall (call_ok (top_n lvls)) hist -> call_ok (top_n lvls) c ->
  bs_sized (top_n lvls) ws0 -> scratch_wf lvls scr0 -> bs_sized (top_n lvls) wsf -> scratch_wf lvls scrf ->
  fst (bs_obj_call (amg_sp npre npost ncycle pre_cycles lvls) c
         (bs_obj_history (amg_sp npre npost ncycle pre_cycles lvls) hist (ws0, scr0))) =
  fst (bs_obj_call (amg_sp npre npost ncycle pre_cycles lvls) c (wsf, scrf)).
Proof. exact (make_solver_amg_bicgstab_reuse npre npost ncycle pre_cycles lvls hist c ws0 wsf scr0 scrf). Qed.
Theorem C15_make_solver_reuse_gmres (S : Scalar) npre npost ncycle pre_cycles (lvls : list (@level S)) M (hist : list (@kcall S))
  (c : @kcall S) (ws0 wsf : gm_ws) (scr0 scrf : list (@scratch S)) :
  is_zero (@s0 S) = true -> hier_wf lvls -> lvls <> [] ->
  Forall (gm_call_ok (top_n lvls) M) hist -> gm_call_ok (top_n lvls) M c ->
  gm_sized (top_n lvls) M ws0 -> scratch_wf lvls scr0 -> gm_sized (top_n lvls) M wsf -> scratch_wf lvls scrf ->
  fst (gm_obj_call (amg_sp npre npost ncycle pre_cycles lvls) c
         (gm_obj_history (amg_sp npre npost ncycle pre_cycles lvls) hist (ws0, scr0))) =
  fst (gm_obj_call (amg_sp npre npost ncycle pre_cycles lvls) c (wsf, scrf)).
Proof. exact (make_solver_amg_gmres_reuse npre npost ncycle pre_cycles lvls M hist c ws0 wsf scr0 scrf). Qed.
Theorem C15_make_solver_reuse_fgmres (S : Scalar) npre npost ncycle pre_cycles (lvls : list (@level S)) M (hist : list (@kcall S))
  (c : @kcall S) (ws0 wsf : gm_ws) (scr0 scrf : list (@scratch S)) :
  is_zero (@s0 S) = true -> hier_wf lvls -> lvls <> [] ->
  Forall (gm_call_ok (top_n lvls) M) hist -> gm_call_ok (top_n lvls) M c ->
  fg_sized (top_n lvls) M ws0 -> scratch_wf lvls scr0 -> fg_sized (top_n lvls) M wsf -> scratch_wf lvls scrf ->
  fst (fg_obj_call (amg_sp npre npost ncycle pre_cycles lvls) c
         (fg_obj_history (amg_sp npre npost ncycle pre_cycles lvls) hist (ws0, scr0))) =
  fst (fg_obj_call (amg_sp npre npost ncycle pre_cycles lvls) c (wsf, scrf)).
Proof. exact (make_solver_amg_fgmres_reuse npre npost ncycle pre_cycles lvls M hist c ws0 wsf scr0 scrf). Qed.
Print Assumptions C15_make_solver_reuse_fgmres.

(* for the hierarchy built by amg_init from a matrix (modelled smoothers, exact coarse solve) the structural
   hypotheses hold by construction; closed at Qc *)
Theorem C15_make_solver_reuse_built (S : Scalar) (Z : is_zero (@s0 S) = true) ce dc ml sc ts (M : crs S) k
  npre npost ncycle pre_cycles :
  let lvls := std_levels k (amg_init ce dc ml (coarse_op_of sc) ts M) in
  forall (hist : list (@kcall S)) (c : @kcall S) (ws0 wsf : cg_ws) (scr0 scrf : list (@scratch S)),
  Forall (call_ok (nrows M)) hist -> call_ok (nrows M) c ->
  cg_sized (nrows M) ws0 -> scratch_wf lvls scr0 -> cg_sized (nrows M) wsf -> scratch_wf lvls scrf ->
  fst (cg_obj_call (amg_sp npre npost ncycle pre_cycles lvls) c
         (cg_obj_history (amg_sp npre npost ncycle pre_cycles lvls) hist (ws0, scr0))) =
  fst (cg_obj_call (amg_sp npre npost ncycle pre_cycles lvls) c (wsf, scrf)).
Proof. exact (make_solver_built_amg_cg_reuse Z ce dc ml sc ts M k npre npost ncycle pre_cycles). Qed.
Print Assumptions C15_make_solver_reuse_built.

Theorem C15_make_solver_reuse_built_Qc ce dc ml sc ts (M : crs QcS) k npre npost ncycle pre_cycles :
  let lvls := std_levels k (amg_init ce dc ml (coarse_op_of sc) ts M) in
  forall (hist : list (@kcall QcS)) (c : @kcall QcS) (ws0 wsf : cg_ws) (scr0 scrf : list (@scratch QcS)),
  Forall (call_ok (nrows M)) hist -> call_ok (nrows M) c ->
  cg_sized (nrows M) ws0 -> scratch_wf lvls scr0 -> cg_sized (nrows M) wsf -> scratch_wf lvls scrf ->
  fst (cg_obj_call (amg_sp npre npost ncycle pre_cycles lvls) c
         (cg_obj_history (amg_sp npre npost ncycle pre_cycles lvls) hist (ws0, scr0))) =
  fst (cg_obj_call (amg_sp npre npost ncycle pre_cycles lvls) c (wsf, scrf)).
Proof. exact (make_solver_built_amg_cg_reuse (S := QcS) eq_refl ce dc ml sc ts M k npre npost ncycle pre_cycles). Qed.
Print Assumptions C15_make_solver_reuse_built_Qc.

(* non-vacuity (ReuseProofs4.v, data of AmgExampleData.v): make_solver<amg, cg> over Qc, 3-level hierarchy of the 1D
   Laplacian n = 4 (damped Jacobi, direct coarse solve); the hypotheses of C15_make_solver_reuse hold, and the call
   after two earlier solves on a junk-filled object performs 2 CG iterations and returns the fresh object's iterate *)
From Amgcl Require Import AmgExampleData AmgExamples.
Example C15_make_solver_reuse_hypotheses_satisfiable :
  hier_wf exLvls /\ exLvls <> [] /\ top_n exLvls = 4 /\
  Forall (call_ok 4) [exCall15 exG exF; exCall15 exF exG] /\ call_ok 4 (exCall15 exF exZ15) /\
  cg_sized 4 exJunkWs15 /\ scratch_wf exLvls exDirty /\ cg_sized 4 exFreshWs15 /\ scratch_wf exLvls exScr0.
Proof. exact ex15_hypotheses. Qed.
Example C15_make_solver_reuse_concrete :
  match fst (cg_obj_call exSp15 (exCall15 exF exZ15)
               (cg_obj_history exSp15 [exCall15 exG exF; exCall15 exF exG] (exJunkWs15, exDirty))),
        fst (cg_obj_call exSp15 (exCall15 exF exZ15) (exFreshWs15, exScr0)) with
  | KOk r1, KOk r2 => k_it r1 = 2 /\ k_it r2 = 2 /\ vec_eqb (k_x r1) (k_x r2) = true /\ vec_eqb (k_x r1) exZ15 = false
  | _, _ => False
  end.
Proof. exact ex15_concrete. Qed.

(* ---- make_solver<relaxation::as_preconditioner<chebyshev>, S>: the Chebyshev object (state p, r) is a simulated
   stateful preconditioner as well (law-free), hence the composite object is reusable ---- *)
Theorem C15_chebyshev_is_a_simulated_stateful_preconditioner (S : Scalar) (Z : is_zero (@s0 S) = true) (c d : S)
  (M : option (vec S)) (degree : nat) (A : crs S) (st0 : vec S * vec S) :
  (forall m, M = Some m -> length m = nrows A) -> cheby_state_ok A st0 ->
  simulates (nrows A) (cheby_state_ok A) (cheby_sp c d M degree A)
            (fun r => fst (cheby_call (c, d, M) degree A st0 r (vclear (vzero (nrows A))))).
Proof. intro HM. exact (cheby_simulates Z c d M degree A HM st0). Qed.
Theorem C15_make_solver_chebyshev_cg_reuse (S : Scalar) (Z : is_zero (@s0 S) = true) (c d : S) (M : option (vec S))
  (degree : nat) (A : crs S) (hist : list (@kcall S)) (c0 : @kcall S) (ws0 wsf : cg_ws) (st0 stf : vec S * vec S) :
  (forall m, M = Some m -> length m = nrows A) ->
  Forall (call_ok (nrows A)) hist -> call_ok (nrows A) c0 ->
  cg_sized (nrows A) ws0 -> cheby_state_ok A st0 -> cg_sized (nrows A) wsf -> cheby_state_ok A stf ->
  fst (cg_obj_call (cheby_sp c d M degree A) c0 (cg_obj_history (cheby_sp c d M degree A) hist (ws0, st0))) =
  fst (cg_obj_call (cheby_sp c d M degree A) c0 (wsf, stf)).
Proof. intro HM. exact (make_solver_cheby_cg_reuse Z c d M degree A HM hist c0 ws0 wsf st0 stf). Qed.
Theorem C15_make_solver_chebyshev_bicgstab_reuse (S : Scalar) (Z : is_zero (@s0 S) = true) (c d : S) (M : option (vec S))
  (degree : nat) (A : crs S) (hist : list (@kcall S)) (c0 : @kcall S) (ws0 wsf : bs_ws) (st0 stf : vec S * vec S) :
  (forall m, M = Some m -> length m = nrows A) ->
  Forall (call_ok (nrows A)) hist -> call_ok (nrows A) c0 ->
  bs_sized (nrows A) ws0 -> cheby_state_ok A st0 -> bs_sized (nrows A) wsf -> cheby_state_ok A stf ->
  fst (bs_obj_call (cheby_sp c d M degree A) c0 (bs_obj_history (cheby_sp c d M degree A) hist (ws0, st0))) =
  fst (bs_obj_call (cheby_sp c d M degree A) c0 (wsf, stf)).
Proof. intro HM. exact (make_solver_cheby_bicgstab_reuse Z c d M degree A HM hist c0 ws0 wsf st0 stf). Qed.
Print Assumptions C15_make_solver_chebyshev_bicgstab_reuse.
