(* Properties_C06.v -- C06: every relaxation sweep equals its mathematical definition.
   Statements only; proofs live in RelaxProofs.v, ChebyProofs.v, IluProofs.v, Ilu0Exact.v.
   "field": for every field with decidable equality (Section hypotheses), closed at Qc.
   Dense semantics: mget A i j (duplicate entries add), Ax A x i = sum_j A_ij x_j. *)
From Amgcl Require Import Scalar QcInst Vec Crs Kernels KernelsProofs MatOps Relax RelaxProofs.
Local Open Scope S_scope.

Section Field.
Variable S : Scalar.
Hypothesis Sft : Sfield S.
Hypothesis Seqb : seqb_spec S.

(* --- 1. damped Jacobi / SPAI-0: x' = x + M (f - A x) ------------------------------ *)
Theorem C06_jacobi_sweep (w : S) (A : crs S) (junk rhs x tmp : vec S) i :
  wf A = true ->
  length rhs = nrows A -> length x = nrows A -> length tmp = nrows A -> i < nrows A ->
  diag_unique A i -> mget A i i <> s0 ->
  vget (fst (jacobi_sweep w (jacobi_setup A junk) A rhs x tmp)) i =
  vget x i + w * sinv (mget A i i) * (vget rhs i - Ax A x i).
Proof. exact (jacobi_sweep_spec Sft Seqb w A junk rhs x tmp i). Qed.

Theorem C06_spai0_sweep (A : crs S) (rhs x tmp : vec S) i :
  wf A = true ->
  length rhs = nrows A -> length x = nrows A -> length tmp = nrows A -> i < nrows A ->
  vget (fst (spai0_sweep (spai0_setup A) A rhs x tmp)) i =
  vget x i + sinv (row_norm2 (nth i (rows A) [])) * mget A i i * (vget rhs i - Ax A x i).
Proof. exact (spai0_sweep_spec Sft Seqb A rhs x tmp i). Qed.

(* --- 2. Gauss-Seidel, serial sweeps: the sweep equations --------------------------- *)
Theorem C06_gs_forward (A : crs S) (rhs x : vec S) :
  wf A = true -> ncols A = nrows A -> length rhs = nrows A -> length x = nrows A ->
  (forall k, k < nrows A -> diag_unique A k) ->
  forall i, i < nrows A -> mget A i i <> s0 ->
  let x' := gs_sweep A rhs x true in
  mget A i i * vget x' i =
  vget rhs i
  - sumn (fun j => if Nat.ltb j i then mget A i j * vget x' j else s0) (nrows A)
  - sumn (fun j => if Nat.ltb i j then mget A i j * vget x j else s0) (nrows A).
Proof. exact (gs_forward_spec Sft A rhs x). Qed.

Theorem C06_gs_backward (A : crs S) (rhs x : vec S) :
  wf A = true -> ncols A = nrows A -> length rhs = nrows A -> length x = nrows A ->
  (forall k, k < nrows A -> diag_unique A k) ->
  forall i, i < nrows A -> mget A i i <> s0 ->
  let x'' := gs_sweep A rhs x false in
  mget A i i * vget x'' i =
  vget rhs i
  - sumn (fun j => if Nat.ltb i j then mget A i j * vget x'' j else s0) (nrows A)
  - sumn (fun j => if Nat.ltb j i then mget A i j * vget x j else s0) (nrows A).
Proof. exact (gs_backward_spec Sft A rhs x). Qed.

(* --- 3. fixed points --------------------------------------------------------------- *)
Theorem C06_jacobi_fixed_point (w : S) (A : crs S) (junk rhs x tmp : vec S) :
  wf A = true ->
  length rhs = nrows A -> length x = nrows A -> length tmp = nrows A ->
  (forall i, i < nrows A -> Ax A x i = vget rhs i) ->
  forall i, i < nrows A ->
  vget (fst (jacobi_sweep w (jacobi_setup A junk) A rhs x tmp)) i = vget x i.
Proof. exact (jacobi_sweep_fixed Sft Seqb w A junk rhs x tmp). Qed.

Theorem C06_spai0_fixed_point (A : crs S) (rhs x tmp : vec S) :
  wf A = true ->
  length rhs = nrows A -> length x = nrows A -> length tmp = nrows A ->
  (forall i, i < nrows A -> Ax A x i = vget rhs i) ->
  forall i, i < nrows A ->
  vget (fst (spai0_sweep (spai0_setup A) A rhs x tmp)) i = vget x i.
Proof. exact (spai0_sweep_fixed Sft Seqb A rhs x tmp). Qed.

Theorem C06_gs_fixed_point (A : crs S) (rhs x : vec S) (b : bool) :
  wf A = true -> length x = nrows A ->
  (forall i, i < nrows A -> Ax A x i = vget rhs i) ->
  (forall k, k < nrows A -> diag_unique A k) ->
  (forall k, k < nrows A -> mget A k k <> s0) ->
  gs_sweep A rhs x b = x.
Proof. exact (gs_fixed_point Sft A rhs x b). Qed.

End Field.

Print Assumptions C06_jacobi_sweep.
Print Assumptions C06_spai0_sweep.
Print Assumptions C06_gs_forward.
Print Assumptions C06_gs_backward.
Print Assumptions C06_gs_fixed_point.
