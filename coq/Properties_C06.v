(* Properties_C06.v -- C06: every relaxation sweep equals its mathematical definition.
   Statements only; proofs live in RelaxProofs.v, ChebyProofs.v, IluProofs.v, Ilu0Exact.v,
   IluExactSolve.v, IluRefute.v.
   "field": for every field with decidable equality (Section hypotheses), closed at Qc.
   Dense semantics: mget A i j (duplicate entries add), Ax A x i = sum_j A_ij x_j. *)
From Coq Require Import QArith_base.
From Amgcl Require Import Scalar QcInst Vec Crs Kernels KernelsProofs MatOps Relax RelaxProofs
  Ilu IluProofs Ilu0Exact IluExactSolve IluRefute Cheby ChebyProofs.
Local Close Scope Q_scope.
Local Open Scope S_scope.

Section Field.
Variable S : Scalar.
Hypothesis Sft : Sfield S.
Hypothesis Seqb : seqb_spec S.

(* --- 1. damped Jacobi / SPAI-0: x' = x + M (f - A x) ------------------------------ *)
Theorem C06_jacobi_sweep (w : S) (A : crs S) (junk rhs x tmp : vec S) i :
  wf A = true ->
  length rhs = nrows A -> length x = nrows A -> length tmp = nrows A -> i < nrows A ->
  diag_unique A i -> mget A i i <> s0 ->
  vget (fst (jacobi_sweep w (jacobi_setup A junk) A rhs x tmp)) i =
  vget x i + w * sinv (mget A i i) * (vget rhs i - Ax A x i).
Proof. exact (jacobi_sweep_spec Sft Seqb w A junk rhs x tmp i). Qed.

(* spai0.hpp after the repair of finding C06-spai0-no-conj: M_i = inverse(sum_j |a_ij|^2) * adjoint(a_ii).
   [mget_adj A i i] (RelaxProofs.v) = the sum of math::adjoint(v) over the stored entries (i,i), as coded -- no law of
   sadj is needed; if sadj is additive and fixes 0 it is sadj (mget A i i) (second theorem); for real value types
   (sadj = id) the statement is the one from before the repair (C06_spai0_sweep_real). *)
Theorem C06_spai0_sweep (A : crs S) (rhs x tmp : vec S) i :
  wf A = true ->
  length rhs = nrows A -> length x = nrows A -> length tmp = nrows A -> i < nrows A ->
  vget (fst (spai0_sweep (spai0_setup A) A rhs x tmp)) i =
  vget x i + sinv (row_norm2 (nth i (rows A) [])) * mget_adj A i i * (vget rhs i - Ax A x i).
Proof. exact (spai0_sweep_spec Sft Seqb A rhs x tmp i). Qed.

Theorem C06_spai0_sweep_adjoint (A : crs S) (rhs x tmp : vec S) i :
  (forall a b : S, sadj (a + b) = sadj a + sadj b) -> sadj (@s0 S) = s0 ->
  wf A = true ->
  length rhs = nrows A -> length x = nrows A -> length tmp = nrows A -> i < nrows A ->
  vget (fst (spai0_sweep (spai0_setup A) A rhs x tmp)) i =
  vget x i + sinv (row_norm2 (nth i (rows A) [])) * sadj (mget A i i) * (vget rhs i - Ax A x i).
Proof. exact (spai0_sweep_spec_sadj Sft Seqb A rhs x tmp i). Qed.

Theorem C06_spai0_sweep_real (A : crs S) (rhs x tmp : vec S) i :
  (forall a : S, sadj a = a) ->
  wf A = true ->
  length rhs = nrows A -> length x = nrows A -> length tmp = nrows A -> i < nrows A ->
  vget (fst (spai0_sweep (spai0_setup A) A rhs x tmp)) i =
  vget x i + sinv (row_norm2 (nth i (rows A) [])) * mget A i i * (vget rhs i - Ax A x i).
Proof. exact (spai0_sweep_spec_id Sft Seqb A rhs x tmp i). Qed.

(* --- 2. Gauss-Seidel, serial sweeps: the sweep equations --------------------------- *)
Theorem C06_gs_forward (A : crs S) (rhs x : vec S) :
  wf A = true -> ncols A = nrows A -> length rhs = nrows A -> length x = nrows A ->
  (forall k, k < nrows A -> diag_unique A k) ->
  forall i, i < nrows A -> mget A i i <> s0 ->
  let x' := gs_sweep A rhs x true in
  mget A i i * vget x' i =
  vget rhs i
  - sumn (fun j => if Nat.ltb j i then mget A i j * vget x' j else s0) (nrows A)
  - sumn (fun j => if Nat.ltb i j then mget A i j * vget x j else s0) (nrows A).
Proof. exact (gs_forward_spec Sft A rhs x). Qed.

Theorem C06_gs_backward (A : crs S) (rhs x : vec S) :
  wf A = true -> ncols A = nrows A -> length rhs = nrows A -> length x = nrows A ->
  (forall k, k < nrows A -> diag_unique A k) ->
  forall i, i < nrows A -> mget A i i <> s0 ->
  let x'' := gs_sweep A rhs x false in
  mget A i i * vget x'' i =
  vget rhs i
  - sumn (fun j => if Nat.ltb i j then mget A i j * vget x'' j else s0) (nrows A)
  - sumn (fun j => if Nat.ltb j i then mget A i j * vget x j else s0) (nrows A).
Proof. exact (gs_backward_spec Sft A rhs x). Qed.

(* --- 3. fixed points --------------------------------------------------------------- *)
Theorem C06_jacobi_fixed_point (w : S) (A : crs S) (junk rhs x tmp : vec S) :
  wf A = true ->
  length rhs = nrows A -> length x = nrows A -> length tmp = nrows A ->
  (forall i, i < nrows A -> Ax A x i = vget rhs i) ->
  forall i, i < nrows A ->
  vget (fst (jacobi_sweep w (jacobi_setup A junk) A rhs x tmp)) i = vget x i.
Proof. exact (jacobi_sweep_fixed Sft Seqb w A junk rhs x tmp). Qed.

Theorem C06_spai0_fixed_point (A : crs S) (rhs x tmp : vec S) :
  wf A = true ->
  length rhs = nrows A -> length x = nrows A -> length tmp = nrows A ->
  (forall i, i < nrows A -> Ax A x i = vget rhs i) ->
  forall i, i < nrows A ->
  vget (fst (spai0_sweep (spai0_setup A) A rhs x tmp)) i = vget x i.
Proof. exact (spai0_sweep_fixed Sft Seqb A rhs x tmp). Qed.

Theorem C06_gs_fixed_point (A : crs S) (rhs x : vec S) (b : bool) :
  wf A = true -> length x = nrows A ->
  (forall i, i < nrows A -> Ax A x i = vget rhs i) ->
  (forall k, k < nrows A -> diag_unique A k) ->
  (forall k, k < nrows A -> mget A k k <> s0) ->
  gs_sweep A rhs x b = x.
Proof. exact (gs_fixed_point Sft A rhs x b). Qed.

(* --- 4. triangular solve (detail::ilu_solve, serial): (I+L)(D^-1+U) x = b in substitution
       form, for strictly lower L, strictly upper U, D holding the inverted pivots ------ *)
Theorem C06_lsolve_forward_substitution (L : crs S) (b : vec S) :
  strict_lower L -> length b = nrows L ->
  length (lsolve L b) = length b /\
  (forall i, i < nrows L ->
     vget (lsolve L b) i + sumn (fun j => mget L i j * vget (lsolve L b) j) (nrows L) = vget b i).
Proof. exact (lsolve_spec (F_R Sft) L b). Qed.

Theorem C06_usolve_backward_substitution (n : nat) (U : crs S) (D y : vec S) :
  strict_upper n U -> length y = n ->
  length (usolve n U D y) = n /\
  (forall i, i < n ->
     vget (usolve n U D y) i =
     vget D i * (vget y i - sumn (fun j => mget U i j * vget (usolve n U D y) j) n)).
Proof. exact (usolve_spec (F_R Sft) n U D y). Qed.

Theorem C06_ilu_solve (L U : crs S) (D b : vec S) :
  strict_lower L -> strict_upper (nrows L) U -> length b = nrows L ->
  forall i, i < nrows L -> vget D i <> s0 ->
  let y := lsolve L b in let x := ilu_solve L U D b in
  vget y i + sumn (fun j => mget L i j * vget y j) (nrows L) = vget b i /\
  sinv (vget D i) * vget x i + sumn (fun j => mget U i j * vget x j) (nrows L) = vget y i.
Proof. exact (ilu_solve_spec_field Sft L U D b). Qed.

(* the solve is a linear map (no structural hypothesis at all) *)
Theorem C06_ilu_solve_linear (a b : S) (L U : crs S) (D w u v : vec S) :
  length u = length w -> length v = length w ->
  (forall i, i < length w -> vget w i = a * vget u i + b * vget v i) ->
  forall i, vget (ilu_solve L U D w) i =
            a * vget (ilu_solve L U D u) i + b * vget (ilu_solve L U D v) i.
Proof. exact (ilu_solve_linear (F_R Sft) a b L U D w u v). Qed.

(* --- 3 (cont.). fixed point of every ILU-type sweep (ilu0, iluk, ilup, ilut share ilu_sweep),
       for ANY factors: residual 0, the solve of the zero vector is zero ------------------ *)
Theorem C06_ilu_sweep_fixed_point (w : S) (L U : crs S) (D : vec S) (A : crs S) (rhs x tmp : vec S) :
  wf A = true -> length rhs = nrows A -> length x = nrows A -> length tmp = nrows A ->
  (forall i, i < nrows A -> Ax A x i = vget rhs i) ->
  forall i, i < nrows A -> vget (fst (ilu_sweep w L U D A rhs x tmp)) i = vget x i.
Proof. exact (ilu_sweep_fixed_point (F_R Sft) Seqb w L U D A rhs x tmp). Qed.

(* --- 5. ILU(0): exact on the pattern of A, provided no zero pivot (= the run returns Ok) --- *)
Theorem C06_ilu0_exact_on_pattern (A : crs S) (junk : vec S) (L U : crs S) (D : vec S) :
  wf A = true -> ncols A = nrows A ->
  (forall i, i < nrows A -> sorted_strict (nth i (rows A) []) = true) ->
  has_diag A = true ->
  ilu0 A junk = Ok (L, U, D) ->
  forall i j, i < nrows A -> has_col j (nth i (rows A) []) = true ->
    lu_entry L U D i j = mget A i j.
Proof. exact (ilu0_exact_on_pattern Sft Seqb A junk L U D). Qed.

(* the factors ilu0 hands to ilu_solve satisfy the substitution equations *)
Theorem C06_ilu0_solve (A : crs S) (junk : vec S) (L U : crs S) (D b : vec S) :
  ilu0 A junk = Ok (L, U, D) -> wf A = true -> ncols A = nrows A -> length b = nrows A ->
  length (ilu_solve L U D b) = nrows A /\
  (forall i, i < nrows A ->
     vget (lsolve L b) i + sumn (fun j => mget L i j * vget (lsolve L b) j) (nrows A) = vget b i /\
     vget (ilu_solve L U D b) i =
     vget D i * (vget (lsolve L b) i - sumn (fun j => mget U i j * vget (ilu_solve L U D b) j) (nrows A))).
Proof. exact (ilu0_solve_spec (F_R Sft) A junk L U D b). Qed.

(* "exact inverse whenever the exact factors fit": if (I+L)(U+D^-1) = A entry-wise (pattern closed
   under elimination: tridiagonal, arrow, ...), the triangular solve solves A x = b *)
Theorem C06_ilu_exact_solve (A L U : crs S) (D b : vec S) :
  strict_lower L -> strict_upper (nrows L) U -> length b = nrows L -> ncols A = nrows L ->
  (forall i, i < nrows L -> vget D i <> s0) ->
  (forall i j, i < nrows L -> j < nrows L -> lu_entry L U D i j = mget A i j) ->
  forall i, i < nrows L -> Ax A (ilu_solve L U D b) i = vget b i.
Proof. exact (ilu_exact_solve Sft A L U D b). Qed.

Theorem C06_ilu0_exact_solve (A : crs S) (junk : vec S) (L U : crs S) (D b x0 : vec S) :
  ilu0 A junk = Ok (L, U, D) -> wf A = true -> ncols A = nrows A ->
  length b = nrows A -> length x0 = nrows A ->
  (forall i, i < nrows A -> vget D i <> s0) ->
  (forall i j, i < nrows A -> j < nrows A -> lu_entry L U D i j = mget A i j) ->
  forall i, i < nrows A -> Ax A (ilu_apply L U D b x0) i = vget b i.
Proof. exact (ilu0_exact_solve Sft A junk L U D b x0). Qed.

(* ILUP = ILU(0) on P = ilup_matrix k A (pattern of A^(k+1) filled with the values of A).
   FULL STATEMENT (unproved) of the symbolic-product part: see IluRefute.v. *)
Theorem C06_ilup_exact_on_pattern (k : nat) (A : crs S) (junk : vec S) (L U : crs S) (D : vec S) :
  let P := ilup_matrix k A in
  wf P = true -> ncols P = nrows P ->
  (forall i, i < nrows P -> sorted_strict (nth i (rows P) []) = true) ->
  has_diag P = true ->
  ilup k A junk = Ok (L, U, D) ->
  forall i j, i < nrows P -> has_col j (nth i (rows P) []) = true ->
    lu_entry L U D i j = mget P i j.
Proof. exact (ilup_exact_on_pattern Sft Seqb k A junk L U D). Qed.

(* --- 7. Chebyshev: fixed point; the sweep is linear in (b, x) (affine in x for fixed b) and
       does not depend on the content of its workspaces p, r ---------------------------- *)
Theorem C06_cheby_fixed_point (c d : S) (M : option (vec S)) (degree : nat) (A : crs S) (b x p r : vec S) :
  wf A = true -> length b = nrows A -> length x = nrows A -> length p = nrows A -> length r = nrows A ->
  (forall m, M = Some m -> length m = nrows A) ->
  (forall i, i < nrows A -> Ax A x i = vget b i) ->
  forall i, i < nrows A -> vget (cheby_sweep (c, d, M) degree A b x p r) i = vget x i.
Proof. exact (cheby_sweep_fixed_point (F_R Sft) Seqb c d M degree A b x p r). Qed.

Theorem C06_cheby_linear (c d : S) (M : option (vec S)) (degree : nat) (A : crs S) (a1 a2 : S)
        (b x p r b1 x1 p1 r1 b2 x2 p2 r2 : vec S) :
  wf A = true ->
  length b = nrows A -> length x = nrows A -> length p = nrows A -> length r = nrows A ->
  length b1 = nrows A -> length x1 = nrows A -> length p1 = nrows A -> length r1 = nrows A ->
  length b2 = nrows A -> length x2 = nrows A -> length p2 = nrows A -> length r2 = nrows A ->
  (forall m, M = Some m -> length m = nrows A) ->
  (forall i, i < nrows A -> vget b i = a1 * vget b1 i + a2 * vget b2 i) ->
  (forall i, i < nrows A -> vget x i = a1 * vget x1 i + a2 * vget x2 i) ->
  forall i, i < nrows A ->
  vget (cheby_sweep (c, d, M) degree A b x p r) i =
  a1 * vget (cheby_sweep (c, d, M) degree A b1 x1 p1 r1) i +
  a2 * vget (cheby_sweep (c, d, M) degree A b2 x2 p2 r2) i.
Proof. exact (cheby_sweep_linear (F_R Sft) Seqb c d M degree A a1 a2 b x p r b1 x1 p1 r1 b2 x2 p2 r2). Qed.

Theorem C06_cheby_workspace_independent (c d : S) (M : option (vec S)) (degree : nat) (A : crs S)
        (b x p r p' r' : vec S) :
  wf A = true -> length b = nrows A -> length x = nrows A ->
  length p = nrows A -> length r = nrows A -> length p' = nrows A -> length r' = nrows A ->
  (forall m, M = Some m -> length m = nrows A) ->
  forall i, i < nrows A ->
  vget (cheby_sweep (c, d, M) degree A b x p r) i = vget (cheby_sweep (c, d, M) degree A b x p' r') i.
Proof. exact (cheby_sweep_junk_independent (F_R Sft) Seqb c d M degree A b x p r p' r'). Qed.

End Field.
Print Assumptions C06_jacobi_sweep.
Print Assumptions C06_spai0_sweep.
Print Assumptions C06_spai0_sweep_adjoint.
Print Assumptions C06_spai0_sweep_real.
Print Assumptions C06_gs_forward.
Print Assumptions C06_gs_backward.
Print Assumptions C06_jacobi_fixed_point.
Print Assumptions C06_spai0_fixed_point.
Print Assumptions C06_gs_fixed_point.
Print Assumptions C06_lsolve_forward_substitution.
Print Assumptions C06_usolve_backward_substitution.
Print Assumptions C06_ilu_solve.
Print Assumptions C06_ilu_solve_linear.
Print Assumptions C06_ilu_sweep_fixed_point.
Print Assumptions C06_ilu0_exact_on_pattern.
Print Assumptions C06_ilu0_solve.
Print Assumptions C06_ilu_exact_solve.
Print Assumptions C06_ilu0_exact_solve.
Print Assumptions C06_ilup_exact_on_pattern.
Print Assumptions C06_cheby_fixed_point.
Print Assumptions C06_cheby_linear.
Print Assumptions C06_cheby_workspace_independent.

(* --- structure of the factors: no algebra, every Scalar record ----------------------- *)
Theorem C06_ilu0_structure (S : Scalar) (A : crs S) (junk : vec S) (L U : crs S) (D : vec S) :
  ilu0 A junk = Ok (L, U, D) ->
  nrows L = nrows A /\ nrows U = nrows A /\ length D = nrows A /\ ncols L = nrows A /\ ncols U = nrows A /\
  (forall i c v, In (c, v) (nth i (rows L) []) -> c < i /\ In c (map fst (nth i (rows A) []))) /\
  (forall i c v, In (c, v) (nth i (rows U) []) -> i < c /\ In c (map fst (nth i (rows A) []))).
Proof. exact (ilu0_structure A junk L U D). Qed.
Print Assumptions C06_ilu0_structure.

Theorem C06_iluk_structure (S : Scalar) (lfil : nat) (A : crs S) (junk : vec S) (L U : crs S) (D : vec S) :
  iluk lfil A junk = (L, U, D) ->
  nrows L = nrows A /\ nrows U = nrows A /\ length D = nrows A /\ ncols L = nrows A /\ ncols U = nrows A /\
  (forall i c v, In (c, v) (nth i (rows L) []) -> c < i) /\
  (forall i c v, In (c, v) (nth i (rows U) []) -> i < c).
Proof. exact (iluk_structure lfil A junk L U D). Qed.
Print Assumptions C06_iluk_structure.

(* --- 6. ILU(k): exactness on the admitted pattern is REFUTED for the model of iluk.hpp
       (known finding C06-iluk-readmit; witness replayed on the implementation).
       FULL STATEMENT (unproved) of the provable variant: see IluRefute.v. ---------------- *)
Theorem C06_iluk_exact_on_pattern_refuted :
  exists (k : nat) (A : crs QcS) (junk : vec QcS) (L U : crs QcS) (D : vec QcS) (i j : nat),
    wf A = true /\ ncols A = nrows A /\ rows_sorted A = true /\ has_diag A = true /\
    iluk k A junk = (L, U, D) /\ no_zero_pivot D = true /\
    i < nrows A /\ admitted L U i j = true /\
    lu_entry L U D i j <> mget A i j.
Proof. exact iluk_exact_on_pattern_refuted. Qed.
Print Assumptions C06_iluk_exact_on_pattern_refuted.

(* ILUT(p = 1, tau = 0) is not exact on a 2x2 tridiagonal matrix (known finding
   C06-ilut-diag-budget): the diagonal is counted in the int(lenU*p) places of the U part *)
Theorem C06_ilut_p1_not_exact_on_tridiagonal :
  let r := ilut (1 # 1)%Q (qz 0) ilut_witness [] in
  let L := fst (fst (fst r)) in let U := snd (fst (fst r)) in let D := snd (fst r) in
  snd r = false /\ no_zero_pivot D = true /\ nth 0 (rows U) [] = [] /\
  lu_entry L U D 0 1 <> mget ilut_witness 0 1.
Proof. exact ilut_p1_not_exact_on_tridiagonal. Qed.
Print Assumptions C06_ilut_p1_not_exact_on_tridiagonal.

(* --- closed instances at the exact rationals ------------------------------------------ *)
Theorem C06_ilu0_exact_on_pattern_Qc (A : crs QcS) (junk : vec QcS) (L U : crs QcS) (D : vec QcS) :
  wf A = true -> ncols A = nrows A ->
  (forall i, i < nrows A -> sorted_strict (nth i (rows A) []) = true) ->
  has_diag A = true ->
  ilu0 A junk = Ok (L, U, D) ->
  forall i j, i < nrows A -> has_col j (nth i (rows A) []) = true ->
    lu_entry L U D i j = mget A i j.
Proof. exact (C06_ilu0_exact_on_pattern QcS QcS_field QcS_eqb A junk L U D). Qed.
Print Assumptions C06_ilu0_exact_on_pattern_Qc.

Theorem C06_gs_fixed_point_Qc (A : crs QcS) (rhs x : vec QcS) (b : bool) :
  wf A = true -> length x = nrows A ->
  (forall i, i < nrows A -> Ax A x i = vget rhs i) ->
  (forall k, k < nrows A -> diag_unique A k) ->
  (forall k, k < nrows A -> mget A k k <> s0) ->
  gs_sweep A rhs x b = x.
Proof. exact (C06_gs_fixed_point QcS QcS_field A rhs x b). Qed.
Print Assumptions C06_gs_fixed_point_Qc.

Theorem C06_ilu_solve_Qc (L U : crs QcS) (D b : vec QcS) :
  strict_lower L -> strict_upper (nrows L) U -> length b = nrows L ->
  forall i, i < nrows L -> vget D i <> s0 ->
  let y := lsolve L b in let x := ilu_solve L U D b in
  vget y i + sumn (fun j => mget L i j * vget y j) (nrows L) = vget b i /\
  sinv (vget D i) * vget x i + sumn (fun j => mget U i j * vget x j) (nrows L) = vget y i.
Proof. exact (C06_ilu_solve QcS QcS_field L U D b). Qed.
Print Assumptions C06_ilu_solve_Qc.

Theorem C06_cheby_fixed_point_Qc (c d : QcS) (M : option (vec QcS)) (degree : nat) (A : crs QcS) (b x p r : vec QcS) :
  wf A = true -> length b = nrows A -> length x = nrows A -> length p = nrows A -> length r = nrows A ->
  (forall m, M = Some m -> length m = nrows A) ->
  (forall i, i < nrows A -> Ax A x i = vget b i) ->
  forall i, i < nrows A -> vget (cheby_sweep (c, d, M) degree A b x p r) i = vget x i.
Proof. exact (C06_cheby_fixed_point QcS QcS_field QcS_eqb c d M degree A b x p r). Qed.
Print Assumptions C06_cheby_fixed_point_Qc.

(* non-vacuity: a concrete tridiagonal matrix meets every hypothesis of the ILU(0) theorem,
   the factorisation succeeds, and a fill position outside the pattern is NOT reproduced *)
Example C06_ilu0_nonvacuous : x0_A4_check = true.
Proof. exact x0_A4_nonvacuous. Qed.
Example C06_sweeps_nonvacuous : c06_sweeps_check = true.
Proof. exact c06_sweeps_check_ok. Qed.

(* ====================================================================================== *)
(* SPAI-0 after the repair of finding C06-spai0-no-conj (spai0.hpp: num += math::adjoint(v)).
   (a) the two laws of math::adjoint used by C06_spai0_sweep_adjoint / C06_nc_spai0_sweep_adjoint hold at the value
       types of the tie: exact rationals (sadj = id: the statement from before the repair), std::complex over any
       commutative ring (conjugation), static_matrix blocks (transpose) -- Spai0Inst.v;
   (b) NEW: SPAI-0 is the row-wise least-squares minimiser -- for real value types (C06_spai0_minimiser_real), and,
       the clause of C06 that was refuted until the repair, for COMPLEX values (ComplexS S0, S0 an ordered field)
       M_i = spai0_row i r minimises the squared Euclidean norm of row i of I - M A,
           spai0_res2 n i r m = sum_{j<n} | delta_ij - m * a_ij |^2      (|z|^2 = re^2 + im^2, an element of S0),
       over ALL complex m; guards: the stored row has no duplicate columns, columns < n, and math::norm (a square
       root) is exact on the stored entries (sqrt_exact_on; no hypothesis that the row is non-zero) -- Spai0Min.v;
   (c) HISTORICAL: the formula before the repair (Relax.spai0_row_old = a_ii / sum|a_ij|^2) is NOT the minimiser
       (row (3+4i, 5+12i): residual 233/194 instead of 169/194); for rows of real numbers both formulas agree. *)
From Amgcl Require Import ComplexInst AmgOrder Spai0Min Spai0MinQc Spai0Inst.

Theorem C06_spai0_sweep_Qc (A : crs QcS) (rhs x tmp : vec QcS) i :
  wf A = true ->
  length rhs = nrows A -> length x = nrows A -> length tmp = nrows A -> i < nrows A ->
  vget (fst (spai0_sweep (spai0_setup A) A rhs x tmp)) i =
  vget x i + sinv (row_norm2 (nth i (rows A) [])) * mget A i i * (vget rhs i - Ax A x i).
Proof. exact (spai0_sweep_Qc A rhs x tmp i). Qed.
Print Assumptions C06_spai0_sweep_Qc.

Theorem C06_spai0_sweep_complex (S0 : Scalar) (Srt : Sring S0) (Seqb0 : seqb_spec S0)
        (A : crs (ComplexS S0)) (rhs x tmp : vec (ComplexS S0)) i :
  wf A = true ->
  length rhs = nrows A -> length x = nrows A -> length tmp = nrows A -> i < nrows A ->
  vget (fst (spai0_sweep (spai0_setup A) A rhs x tmp)) i =
  vget x i + sinv (row_norm2 (nth i (rows A) [])) * sadj (mget A i i) * (vget rhs i - Ax A x i).
Proof. exact (spai0_sweep_complex S0 Srt Seqb0 A rhs x tmp i). Qed.
Print Assumptions C06_spai0_sweep_complex.

Theorem C06_spai0_sweep_blocks_Qc (b : nat) (A : crs (BlockInst.BlockS QcS b)) (rhs x tmp : vec (BlockInst.BlockS QcS b)) i :
  wf A = true ->
  length rhs = nrows A -> length x = nrows A -> length tmp = nrows A -> i < nrows A ->
  vget (fst (spai0_sweep (spai0_setup A) A rhs x tmp)) i =
  vget x i + sinv (row_norm2 (nth i (rows A) [])) * sadj (mget A i i) * (vget rhs i - Ax A x i).
Proof. exact (spai0_sweep_blocks_Qc b A rhs x tmp i). Qed.
Print Assumptions C06_spai0_sweep_blocks_Qc.

(* the base clause, real value types (ordered field, math::norm^2 = v^2, math::adjoint = id):
   sum_{j<n} (delta_ij - m a_ij)^2 is minimal at m = spai0_row i r = a_ii / sum_j a_ij^2 *)
Theorem C06_spai0_minimiser_real (S : Scalar) (Sft : Sfield S) (Ord : ordered S)
        (Habs2 : forall v : S, sabs v * sabs v = v * v) (Hadj : forall v : S, sadj v = v)
        n i (r : row S) (m : S) :
  i < n -> NoDup (map fst r) -> row_wf n r = true ->
  ole (spai0_rres2 n i r (spai0_row i r)) (spai0_rres2 n i r m).
Proof. exact (spai0_row_minimises_real Sft Ord Habs2 Hadj n i r m). Qed.
Print Assumptions C06_spai0_minimiser_real.

Theorem C06_spai0_minimiser_real_Qc n i (r : row QcS) (m : QcS) :
  i < n -> NoDup (map fst r) -> row_wf n r = true ->
  ole (spai0_rres2 n i r (spai0_row i r)) (spai0_rres2 n i r m).
Proof. exact (spai0_row_minimises_real_Qc n i r m). Qed.
Print Assumptions C06_spai0_minimiser_real_Qc.

Theorem C06_spai0_minimiser_complex (S0 : Scalar) (Sft0 : Sfield S0) (Ord : ordered S0)
        n i (r : row (ComplexS S0)) (m : ComplexS S0) :
  i < n -> NoDup (map fst r) -> row_wf n r = true -> sqrt_exact_on S0 r ->
  ole (spai0_res2 S0 n i r (spai0_row i r)) (spai0_res2 S0 n i r m).
Proof. exact (spai0_row_minimises S0 Sft0 Ord n i r m). Qed.
Print Assumptions C06_spai0_minimiser_complex.

Theorem C06_spai0_minimiser_complex_Qc n i (r : row (ComplexS QcS)) (m : ComplexS QcS) :
  i < n -> NoDup (map fst r) -> row_wf n r = true -> sqrt_exact_on QcS r ->
  ole (spai0_res2 QcS n i r (spai0_row i r)) (spai0_res2 QcS n i r m).
Proof. exact (spai0_row_minimises_Qc n i r m). Qed.
Print Assumptions C06_spai0_minimiser_complex_Qc.

(* non-vacuity: the row (3+4i, 5+12i) meets the guards; SPAI-0 returns (3-4i)/194, residual 169/194, minimal *)
Example C06_spai0_minimiser_complex_nonvacuous :
  (0 < 2 /\ NoDup (map fst sp_r0) /\ row_wf 2 sp_r0 = true /\ sqrt_exact_on QcS sp_r0) /\
  spai0_row 0 sp_r0 = ((qc 3 194, qc (-4) 194) : T CQcS) /\
  forall m : CQcS, ole (qc 169 194) (spai0_res2 QcS 2 0 sp_r0 m).
Proof. exact (conj sp_r0_guards (conj sp_r0_spai0 sp_r0_minimal)). Qed.

(* HISTORICAL (finding C06-spai0-no-conj, fixed): the formula before the repair is not the minimiser *)
Theorem C06_spai0_old_formula_not_minimiser_refuted :
  exists (n i : nat) (r : row CQcS) (m : CQcS),
    i < n /\ NoDup (map fst r) /\ row_wf n r = true /\ sqrt_exact_on QcS r /\
    olt (spai0_res2 QcS n i r m) (spai0_res2 QcS n i r (spai0_row_old i r)).
Proof. exact spai0_row_old_not_minimiser. Qed.
Print Assumptions C06_spai0_old_formula_not_minimiser_refuted.

Theorem C06_spai0_repair_leaves_real_rows_unchanged (i : nat) (r : row CQcS) :
  (forall e, In e r -> c_im (snd e) = s0) -> spai0_row i r = spai0_row_old i r.
Proof. exact (spai0_row_old_real_rows_agree i r). Qed.
Print Assumptions C06_spai0_repair_leaves_real_rows_unchanged.

(* ====================================================================================== *)
(* NON-COMMUTATIVE value types (amgcl::static_matrix<T,b,b> blocks): the operand ORDER of every
   product is part of the statement.  [ncring_theory S] (NcRing.v) = ring laws without
   commutativity of [*]; every commutative ring and every [BlockS S0 b] (BlockInst.v: the Scalar
   instance of b x b blocks, carrier = std::array<T,b*b> as a length-indexed row-major list) is an
   instance.  Vector entries (static_matrix<T,b,1>) are the column-0 blocks, base scalars are c*I.
   Inverses: a field law "x <> 0 -> x^-1 x = 1" is not available; the hypotheses name the one-sided
   law that is used.  Proofs: NcKernels.v, BlockRelaxProofs*.v, BlockIlu0Exact.v, NcRingBlock*.v. *)
From Amgcl Require Import StaticMat BlockInst NcRing NcRingBlock NcRingBlockInv NcKernels
  BlockRelaxProofs BlockRelaxProofsIlu BlockRelaxProofsCheby BlockIlu0Exact BlockRelaxExamples.

Theorem C06_nc_commutative_rings_are_instances (S : Scalar) : Sring S -> ncring_theory S.
Proof. exact (ncring_of_ring S). Qed.
Print Assumptions C06_nc_commutative_rings_are_instances.

Section NonCommutative.
Variable S : Scalar.
Hypothesis Hnc : ncring_theory S.
Hypothesis Seqb : seqb_spec S.

(* --- 1'. damped Jacobi / SPAI-0: x' = x + (M_i) * (f - A x)_i, M_i on the LEFT ------------- *)
Theorem C06_nc_jacobi_sweep (w : S) (A : crs S) (junk rhs x tmp : vec S) i :
  wf A = true ->
  length rhs = nrows A -> length x = nrows A -> length tmp = nrows A -> i < nrows A ->
  diag_unique A i -> mget A i i <> s0 ->
  vget (fst (jacobi_sweep w (jacobi_setup A junk) A rhs x tmp)) i =
  vget x i + w * sinv (mget A i i) * (vget rhs i - Ax A x i).
Proof. exact (nc_jacobi_sweep_spec Hnc Seqb w A junk rhs x tmp i). Qed.

Theorem C06_nc_spai0_sweep (A : crs S) (rhs x tmp : vec S) i :
  wf A = true ->
  length rhs = nrows A -> length x = nrows A -> length tmp = nrows A -> i < nrows A ->
  vget (fst (spai0_sweep (spai0_setup A) A rhs x tmp)) i =
  vget x i + sinv (row_norm2 (nth i (rows A) [])) * mget_adj A i i * (vget rhs i - Ax A x i).
Proof. exact (nc_spai0_sweep_spec Hnc Seqb A rhs x tmp i). Qed.

(* math::adjoint additive with adjoint(0) = 0 (blocks: transpose, complex numbers: conjugate): adjoint of the dense diagonal block *)
Theorem C06_nc_spai0_sweep_adjoint (A : crs S) (rhs x tmp : vec S) i :
  (forall a b : S, sadj (a + b) = sadj a + sadj b) -> sadj (@s0 S) = s0 ->
  wf A = true ->
  length rhs = nrows A -> length x = nrows A -> length tmp = nrows A -> i < nrows A ->
  vget (fst (spai0_sweep (spai0_setup A) A rhs x tmp)) i =
  vget x i + sinv (row_norm2 (nth i (rows A) [])) * sadj (mget A i i) * (vget rhs i - Ax A x i).
Proof. exact (nc_spai0_sweep_spec_sadj Hnc Seqb A rhs x tmp i). Qed.

(* --- 2'. Gauss-Seidel: a_ii * x'_i = f_i - sum a_ij * x_j ; needs a_ii * a_ii^-1 = 1 (RIGHT inverse) --- *)
Theorem C06_nc_gs_forward (A : crs S) (rhs x : vec S) :
  wf A = true -> ncols A = nrows A -> length rhs = nrows A -> length x = nrows A ->
  (forall k, k < nrows A -> diag_unique A k) ->
  forall i, i < nrows A -> mget A i i * sinv (mget A i i) = s1 ->
  let x' := gs_sweep A rhs x true in
  mget A i i * vget x' i =
  vget rhs i
  - sumn (fun j => if Nat.ltb j i then mget A i j * vget x' j else s0) (nrows A)
  - sumn (fun j => if Nat.ltb i j then mget A i j * vget x j else s0) (nrows A).
Proof. exact (nc_gs_forward_spec Hnc A rhs x). Qed.

Theorem C06_nc_gs_backward (A : crs S) (rhs x : vec S) :
  wf A = true -> ncols A = nrows A -> length rhs = nrows A -> length x = nrows A ->
  (forall k, k < nrows A -> diag_unique A k) ->
  forall i, i < nrows A -> mget A i i * sinv (mget A i i) = s1 ->
  let x'' := gs_sweep A rhs x false in
  mget A i i * vget x'' i =
  vget rhs i
  - sumn (fun j => if Nat.ltb i j then mget A i j * vget x'' j else s0) (nrows A)
  - sumn (fun j => if Nat.ltb j i then mget A i j * vget x j else s0) (nrows A).
Proof. exact (nc_gs_backward_spec Hnc A rhs x). Qed.

(* --- 3'. fixed points ------------------------------------------------------------------------ *)
Theorem C06_nc_jacobi_fixed_point (w : S) (A : crs S) (junk rhs x tmp : vec S) :
  wf A = true ->
  length rhs = nrows A -> length x = nrows A -> length tmp = nrows A ->
  (forall i, i < nrows A -> Ax A x i = vget rhs i) ->
  forall i, i < nrows A ->
  vget (fst (jacobi_sweep w (jacobi_setup A junk) A rhs x tmp)) i = vget x i.
Proof. exact (nc_jacobi_sweep_fixed Hnc Seqb w A junk rhs x tmp). Qed.

Theorem C06_nc_spai0_fixed_point (A : crs S) (rhs x tmp : vec S) :
  wf A = true ->
  length rhs = nrows A -> length x = nrows A -> length tmp = nrows A ->
  (forall i, i < nrows A -> Ax A x i = vget rhs i) ->
  forall i, i < nrows A ->
  vget (fst (spai0_sweep (spai0_setup A) A rhs x tmp)) i = vget x i.
Proof. exact (nc_spai0_sweep_fixed Hnc Seqb A rhs x tmp). Qed.

(* needs a_kk^-1 * a_kk = 1 (LEFT inverse) *)
Theorem C06_nc_gs_fixed_point (A : crs S) (rhs x : vec S) (b : bool) :
  wf A = true -> length x = nrows A ->
  (forall i, i < nrows A -> Ax A x i = vget rhs i) ->
  (forall k, k < nrows A -> diag_unique A k) ->
  (forall k, k < nrows A -> sinv (mget A k k) * mget A k k = s1) ->
  gs_sweep A rhs x b = x.
Proof. exact (nc_gs_fixed_point Hnc A rhs x b). Qed.

Theorem C06_nc_ilu_sweep_fixed_point (w : S) (L U : crs S) (D : vec S) (A : crs S) (rhs x tmp : vec S) :
  wf A = true -> length rhs = nrows A -> length x = nrows A -> length tmp = nrows A ->
  (forall i, i < nrows A -> Ax A x i = vget rhs i) ->
  forall i, i < nrows A -> vget (fst (ilu_sweep w L U D A rhs x tmp)) i = vget x i.
Proof. exact (nc_ilu_sweep_fixed_point Hnc Seqb w L U D A rhs x tmp). Qed.

Theorem C06_nc_cheby_fixed_point (c d : S) (M : option (vec S)) (degree : nat) (A : crs S) (b x p r : vec S) :
  wf A = true -> length b = nrows A -> length x = nrows A -> length p = nrows A -> length r = nrows A ->
  (forall m, M = Some m -> length m = nrows A) ->
  (forall i, i < nrows A -> Ax A x i = vget b i) ->
  forall i, i < nrows A -> vget (cheby_sweep (c, d, M) degree A b x p r) i = vget x i.
Proof. exact (nc_cheby_sweep_fixed_point Hnc Seqb c d M degree A b x p r). Qed.

(* --- 4'. triangular solve (detail::ilu_solve, serial), LEFT products, stored inverted pivots D_i --- *)
Theorem C06_nc_lsolve_forward_substitution (L : crs S) (b : vec S) :
  strict_lower L -> length b = nrows L ->
  length (lsolve L b) = length b /\
  (forall i, i < nrows L ->
     vget (lsolve L b) i + sumn (fun j => mget L i j * vget (lsolve L b) j) (nrows L) = vget b i).
Proof. exact (nc_lsolve_spec Hnc L b). Qed.

Theorem C06_nc_usolve_backward_substitution (n : nat) (U : crs S) (D y : vec S) :
  strict_upper n U -> length y = n ->
  length (usolve n U D y) = n /\
  (forall i, i < n ->
     vget (usolve n U D y) i =
     vget D i * (vget y i - sumn (fun j => mget U i j * vget (usolve n U D y) j) n)).
Proof. exact (nc_usolve_spec Hnc n U D y). Qed.

(* (I+L)(P+U) x = b with P_i any LEFT inverse of the stored D_i (P_i = the pivot block) *)
Theorem C06_nc_ilu_solve (L U : crs S) (D b : vec S) (P : nat -> S) :
  strict_lower L -> strict_upper (nrows L) U -> length b = nrows L ->
  forall i, i < nrows L -> P i * vget D i = s1 ->
  let y := lsolve L b in let x := ilu_solve L U D b in
  vget y i + sumn (fun j => mget L i j * vget y j) (nrows L) = vget b i /\
  P i * vget x i + sumn (fun j => mget U i j * vget x j) (nrows L) = vget y i.
Proof. exact (nc_ilu_solve_spec_inv Hnc L U D b P). Qed.

(* the solve is RIGHT-linear (left factors do not pass through L_ij * x_j) *)
Theorem C06_nc_ilu_solve_right_linear (a b : S) (L U : crs S) (D w u v : vec S) :
  length u = length w -> length v = length w ->
  (forall i, i < length w -> vget w i = vget u i * a + vget v i * b) ->
  forall i, vget (ilu_solve L U D w) i =
            vget (ilu_solve L U D u) i * a + vget (ilu_solve L U D v) i * b.
Proof. exact (nc_ilu_solve_right_linear Hnc a b L U D w u v). Qed.

(* --- 5'. exact solve when the factors fit: (I+L)(U+D^-1) = A entry-wise (block products) --------- *)
Theorem C06_nc_ilu_exact_solve (A L U : crs S) (D b : vec S) :
  strict_lower L -> strict_upper (nrows L) U -> length b = nrows L -> ncols A = nrows L ->
  (forall i, i < nrows L -> sinv (vget D i) * vget D i = s1) ->
  (forall i j, i < nrows L -> j < nrows L -> lu_entry L U D i j = mget A i j) ->
  forall i, i < nrows L -> Ax A (ilu_solve L U D b) i = vget b i.
Proof. exact (nc_ilu_exact_solve_lu Hnc A L U D b). Qed.

Theorem C06_nc_ilu0_exact_solve (A : crs S) (junk : vec S) (L U : crs S) (D b x0 : vec S) :
  ilu0 A junk = Ok (L, U, D) -> wf A = true -> ncols A = nrows A ->
  length b = nrows A -> length x0 = nrows A ->
  (forall i, i < nrows A -> sinv (vget D i) * vget D i = s1) ->
  (forall i j, i < nrows A -> j < nrows A -> lu_entry L U D i j = mget A i j) ->
  forall i, i < nrows A -> Ax A (ilu_apply L U D b x0) i = vget b i.
Proof. exact (nc_ilu0_exact_solve Hnc A junk L U D b x0). Qed.

(* --- 6'. ILU(0) as coded (multiplier l_ic = w_c * D_c, inverted pivot on the RIGHT) reproduces A on
       its pattern with block products.  [Hinv]: sinv returns a right inverse or the zero default; the
       run-time conditions D_k <> 0, sinv D_k <> 0 say that both inversions succeeded ------------- *)
Hypothesis Hinv : forall x : S, sinv x <> s0 -> x * sinv x = s1.

Theorem C06_nc_ilu0_exact_on_pattern (A : crs S) (junk : vec S) (L U : crs S) (D : vec S) :
  wf A = true -> ncols A = nrows A ->
  (forall i, i < nrows A -> sorted_strict (nth i (rows A) []) = true) ->
  has_diag A = true ->
  ilu0 A junk = Ok (L, U, D) ->
  (forall k, k < nrows A -> vget D k <> s0 /\ sinv (vget D k) <> s0) ->
  forall i j, i < nrows A -> has_col j (nth i (rows A) []) = true ->
    lu_entry L U D i j = mget A i j.
Proof. exact (nc_ilu0_exact_on_pattern Hnc Seqb Hinv A junk L U D). Qed.

Theorem C06_nc_ilup_exact_on_pattern (k : nat) (A : crs S) (junk : vec S) (L U : crs S) (D : vec S) :
  let P := ilup_matrix k A in
  wf P = true -> ncols P = nrows P ->
  (forall i, i < nrows P -> sorted_strict (nth i (rows P) []) = true) ->
  has_diag P = true ->
  ilup k A junk = Ok (L, U, D) ->
  (forall i, i < nrows P -> vget D i <> s0 /\ sinv (vget D i) <> s0) ->
  forall i j, i < nrows P -> has_col j (nth i (rows P) []) = true ->
    lu_entry L U D i j = mget P i j.
Proof. exact (nc_ilup_exact_on_pattern Hnc Seqb Hinv k A junk L U D). Qed.

End NonCommutative.
Print Assumptions C06_nc_jacobi_sweep.
Print Assumptions C06_nc_spai0_sweep.
Print Assumptions C06_nc_spai0_sweep_adjoint.
Print Assumptions C06_nc_gs_forward.
Print Assumptions C06_nc_gs_backward.
Print Assumptions C06_nc_jacobi_fixed_point.
Print Assumptions C06_nc_spai0_fixed_point.
Print Assumptions C06_nc_gs_fixed_point.
Print Assumptions C06_nc_ilu_sweep_fixed_point.
Print Assumptions C06_nc_cheby_fixed_point.
Print Assumptions C06_nc_lsolve_forward_substitution.
Print Assumptions C06_nc_usolve_backward_substitution.
Print Assumptions C06_nc_ilu_solve.
Print Assumptions C06_nc_ilu_solve_right_linear.
Print Assumptions C06_nc_ilu_exact_solve.
Print Assumptions C06_nc_ilu0_exact_solve.
Print Assumptions C06_nc_ilu0_exact_on_pattern.
Print Assumptions C06_nc_ilup_exact_on_pattern.

(* --- the block instance satisfies the hypotheses ------------------------------------------------ *)
Theorem C06_nc_blocks_form_a_ring (S0 : Scalar) (b : nat) : Sring S0 -> ncring_theory (BlockS S0 b).
Proof. exact (BlockS_ncring S0 b). Qed.
Print Assumptions C06_nc_blocks_form_a_ring.

Theorem C06_nc_blocks_decidable_equality (S0 : Scalar) (b : nat) : seqb_spec S0 -> seqb_spec (BlockS S0 b).
Proof. exact (BlockS_eqb S0 b). Qed.
Print Assumptions C06_nc_blocks_decidable_equality.

(* math::inverse(static_matrix) = detail::inverse: a result other than the out-of-domain default is a right inverse *)
Theorem C06_nc_block_inverse_is_right_inverse (S0 : Scalar) (b : nat) :
  Sfield S0 -> seqb_spec S0 -> sinv (@s0 S0) = s0 ->
  forall x : BlockS S0 b, sinv x <> s0 -> x * sinv x = s1.
Proof. exact (BlockS_inv_right S0 b). Qed.
Print Assumptions C06_nc_block_inverse_is_right_inverse.

Theorem C06_nc_block_inverse_two_sided (S0 : Scalar) (b : nat) :
  Sfield S0 -> seqb_spec S0 -> sinv (@s0 S0) = s0 ->
  forall x : BlockS S0 b, sinv x <> s0 -> sinv (sinv x) <> s0 ->
  x * sinv x = s1 /\ sinv x * x = s1 /\ sinv (sinv x) = x.
Proof. exact (BlockS_inv_two_sided S0 b). Qed.
Print Assumptions C06_nc_block_inverse_two_sided.

(* base scalars embed as c*I: central, (c I) * M = c * M cell by cell (the C++ `c * M`) *)
Theorem C06_nc_embedded_scalars_central (S0 : Scalar) (b : nat) : Sring S0 ->
  forall (c : S0) (x : BlockS S0 b),
  blk_mul S0 b (blk_embed S0 b c) x = blk_mul S0 b x (blk_embed S0 b c) /\
  forall i j, i < b -> j < b -> blk_get (blk_mul S0 b (blk_embed S0 b c) x) i j = c * blk_get x i j.
Proof. exact (blk_embed_central_cells S0 b). Qed.
Print Assumptions C06_nc_embedded_scalars_central.

(* vector entries (static_matrix<T,b,1>) = column-0 blocks: closed under +, -, unary -, LEFT products, and the
   LEFT product acts on column 0 as the matrix-vector product *)
Theorem C06_nc_vector_entries_closed (S0 : Scalar) (b : nat) : Sring S0 ->
  forall (a x y : BlockS S0 b), is_col S0 b x -> is_col S0 b y ->
  is_col S0 b (blk_add S0 b x y) /\ is_col S0 b (blk_sub S0 b x y) /\ is_col S0 b (blk_neg S0 b x) /\
  is_col S0 b (blk_mul S0 b a x) /\
  (forall (v : vec S0) i, i < b ->
     blk_get (blk_mul S0 b a (blk_col S0 b v)) i 0 = sumn (fun k => blk_get a i k * vget v k) b).
Proof. exact (is_col_closed S0 b). Qed.
Print Assumptions C06_nc_vector_entries_closed.

(* --- closed instances: b x b blocks of exact rationals ------------------------------------------- *)
Theorem C06_nc_ilu0_exact_on_pattern_blocks (b : nat) (A : crs (BlockS QcS b)) (junk : vec (BlockS QcS b))
        (L U : crs (BlockS QcS b)) (D : vec (BlockS QcS b)) :
  wf A = true -> ncols A = nrows A ->
  (forall i, i < nrows A -> sorted_strict (nth i (rows A) []) = true) ->
  has_diag A = true ->
  ilu0 A junk = Ok (L, U, D) ->
  (forall k, k < nrows A -> vget D k <> s0 /\ sinv (vget D k) <> s0) ->
  forall i j, i < nrows A -> has_col j (nth i (rows A) []) = true ->
    lu_entry L U D i j = mget A i j.
Proof. exact (nc_ilu0_exact_on_pattern_blocks b A junk L U D). Qed.
Print Assumptions C06_nc_ilu0_exact_on_pattern_blocks.

Theorem C06_nc_gs_forward_blocks (b : nat) (A : crs (BlockS QcS b)) (rhs x : vec (BlockS QcS b)) :
  wf A = true -> ncols A = nrows A -> length rhs = nrows A -> length x = nrows A ->
  (forall k, k < nrows A -> diag_unique A k) ->
  forall i, i < nrows A -> sinv (mget A i i) <> s0 ->
  let x' := gs_sweep A rhs x true in
  mget A i i * vget x' i =
  vget rhs i
  - sumn (fun j => if Nat.ltb j i then mget A i j * vget x' j else s0) (nrows A)
  - sumn (fun j => if Nat.ltb i j then mget A i j * vget x j else s0) (nrows A).
Proof. exact (nc_gs_forward_blocks b A rhs x). Qed.
Print Assumptions C06_nc_gs_forward_blocks.

Theorem C06_nc_ilu_sweep_fixed_point_blocks (b : nat) (w : BlockS QcS b) (L U : crs (BlockS QcS b)) (D : vec (BlockS QcS b))
        (A : crs (BlockS QcS b)) (rhs x tmp : vec (BlockS QcS b)) :
  wf A = true -> length rhs = nrows A -> length x = nrows A -> length tmp = nrows A ->
  (forall i, i < nrows A -> Ax A x i = vget rhs i) ->
  forall i, i < nrows A -> vget (fst (ilu_sweep w L U D A rhs x tmp)) i = vget x i.
Proof. exact (nc_ilu_sweep_fixed_point_blocks b w L U D A rhs x tmp). Qed.
Print Assumptions C06_nc_ilu_sweep_fixed_point_blocks.

(* --- 7'. ILU(0) IS AN EXACT SOLVE when the pattern is closed under elimination (no fill-in), FULLY PROVED:
       on the pattern by 6', off the pattern both sides vanish (structure theorem).  Block tridiagonal, arrow
       (last row/column), triangular patterns are closed.  Holds for every non-commutative ring with [Hinv],
       in particular for blocks and (closed instance below) for scalar rationals -- this also discharges the
       hypothesis "lu_entry = mget everywhere" of C06_ilu0_exact_solve for these patterns. ------------- *)
From Amgcl Require Import BlockIluClosed.
Section NonCommutativeClosed.
Variable S : Scalar.
Hypothesis Hnc : ncring_theory S.
Hypothesis Seqb : seqb_spec S.
Hypothesis Hinv : forall x : S, sinv x <> s0 -> x * sinv x = s1.

Theorem C06_nc_ilu0_closed_pattern_product (A : crs S) (junk : vec S) (L U : crs S) (D : vec S) :
  wf A = true -> ncols A = nrows A ->
  (forall i, i < nrows A -> sorted_strict (nth i (rows A) []) = true) ->
  has_diag A = true -> pat_closed A ->
  ilu0 A junk = Ok (L, U, D) ->
  (forall k, k < nrows A -> vget D k <> s0 /\ sinv (vget D k) <> s0) ->
  forall i j, i < nrows A -> lu_entry L U D i j = mget A i j.
Proof. exact (nc_ilu0_closed_lu_eq_A Hnc Seqb Hinv A junk L U D). Qed.

Theorem C06_nc_ilu0_closed_pattern_exact_solve (A : crs S) (junk : vec S) (L U : crs S) (D b x0 : vec S) :
  wf A = true -> ncols A = nrows A ->
  (forall i, i < nrows A -> sorted_strict (nth i (rows A) []) = true) ->
  has_diag A = true -> pat_closed A ->
  ilu0 A junk = Ok (L, U, D) ->
  (forall k, k < nrows A -> vget D k <> s0 /\ sinv (vget D k) <> s0) ->
  length b = nrows A -> length x0 = nrows A ->
  forall i, i < nrows A -> Ax A (ilu_apply L U D b x0) i = vget b i.
Proof. exact (nc_ilu0_closed_exact_solve Hnc Seqb Hinv A junk L U D b x0). Qed.

Theorem C06_nc_ilu0_tridiagonal_exact_solve (A : crs S) (junk : vec S) (L U : crs S) (D b x0 : vec S) :
  wf A = true -> ncols A = nrows A ->
  (forall i, i < nrows A -> sorted_strict (nth i (rows A) []) = true) ->
  has_diag A = true -> tridiagonal A ->
  ilu0 A junk = Ok (L, U, D) ->
  (forall k, k < nrows A -> vget D k <> s0 /\ sinv (vget D k) <> s0) ->
  length b = nrows A -> length x0 = nrows A ->
  forall i, i < nrows A -> Ax A (ilu_apply L U D b x0) i = vget b i.
Proof. exact (nc_ilu0_tridiagonal_exact_solve Hnc Seqb Hinv A junk L U D b x0). Qed.

(* the stored pivots D_k are two-sided inverses of sinv D_k = the pivot blocks *)
Theorem C06_nc_ilu0_pivots_two_sided (A : crs S) (junk : vec S) (L U : crs S) (D : vec S) :
  (forall i, i < nrows A -> sorted_strict (nth i (rows A) []) = true) ->
  has_diag A = true ->
  ilu0 A junk = Ok (L, U, D) ->
  (forall k, k < nrows A -> vget D k <> s0 /\ sinv (vget D k) <> s0) ->
  forall k, k < nrows A -> vget D k * sinv (vget D k) = s1 /\ sinv (vget D k) * vget D k = s1.
Proof. exact (nc_ilu0_pivots_two_sided Hnc Seqb Hinv A junk L U D). Qed.

End NonCommutativeClosed.
Print Assumptions C06_nc_ilu0_closed_pattern_product.
Print Assumptions C06_nc_ilu0_closed_pattern_exact_solve.
Print Assumptions C06_nc_ilu0_tridiagonal_exact_solve.
Print Assumptions C06_nc_ilu0_pivots_two_sided.

Theorem C06_closed_patterns (S : Scalar) (A : crs S) :
  (has_diag A = true -> tridiagonal A -> pat_closed A) /\
  (has_diag A = true -> arrow_last A -> pat_closed A) /\
  (upper_pattern A -> pat_closed A) /\ (lower_pattern A -> pat_closed A).
Proof. exact (closed_patterns A). Qed.
Print Assumptions C06_closed_patterns.

Theorem C06_nc_ilu0_tridiagonal_exact_solve_blocks (b : nat) (A : crs (BlockS QcS b)) (junk : vec (BlockS QcS b))
        (L U : crs (BlockS QcS b)) (D b0 x0 : vec (BlockS QcS b)) :
  wf A = true -> ncols A = nrows A ->
  (forall i, i < nrows A -> sorted_strict (nth i (rows A) []) = true) ->
  has_diag A = true -> tridiagonal A ->
  ilu0 A junk = Ok (L, U, D) ->
  (forall k, k < nrows A -> vget D k <> s0 /\ sinv (vget D k) <> s0) ->
  length b0 = nrows A -> length x0 = nrows A ->
  forall i, i < nrows A -> Ax A (ilu_apply L U D b0 x0) i = vget b0 i.
Proof. exact (nc_ilu0_tridiagonal_exact_solve_blocks b A junk L U D b0 x0). Qed.
Print Assumptions C06_nc_ilu0_tridiagonal_exact_solve_blocks.

(* scalar rationals: the exact-solve claim of A4 for closed patterns, without the "LU = A" hypothesis *)
Theorem C06_ilu0_closed_pattern_exact_solve_Qc (A : crs QcS) (junk : vec QcS) (L U : crs QcS) (D b0 x0 : vec QcS) :
  wf A = true -> ncols A = nrows A ->
  (forall i, i < nrows A -> sorted_strict (nth i (rows A) []) = true) ->
  has_diag A = true -> pat_closed A ->
  ilu0 A junk = Ok (L, U, D) ->
  (forall k, k < nrows A -> vget D k <> s0 /\ sinv (vget D k) <> s0) ->
  length b0 = nrows A -> length x0 = nrows A ->
  forall i, i < nrows A -> Ax A (ilu_apply L U D b0 x0) i = vget b0 i.
Proof. exact (ilu0_closed_exact_solve_Qc A junk L U D b0 x0). Qed.
Print Assumptions C06_ilu0_closed_pattern_exact_solve_Qc.

(* non-vacuity with concrete NON-COMMUTING 2x2 blocks (BlockRelaxExamples.v): the hypotheses of the theorems
   above hold, the multiplier of ILU(0) is B * A^-1 and not A^-1 * B, right products leave the vector shape *)
Example C06_nc_nonvacuous_noncommuting_blocks : nb_check = true.
Proof. exact nb_check_ok. Qed.

(* =====================================================================================
   8. CHEBYSHEV: THE ERROR PROPAGATION POLYNOMIAL (ChebyPoly.v; hypotheses satisfiable: ChebyPolyQc.v).
   B = A, or diag(A)^-1 A when scale (ChebyPoly.Bop); Z = (d I - B)/c (Zop); T_k the Chebyshev polynomials given by
   their recurrence (cheb: T_0 = 1, T_1 = z, T_{k+2} = 2 z T_{k+1} - T_k); T_k(Z) v = Tz k v (the recurrence applied to
   the vector v); tau_k = T_k(d/c).  The three-term recurrence of chebyshev.hpp IS the Chebyshev recurrence
   (alpha_k = 2 tau_k/(c tau_{k+1}), beta_k = alpha_k d - 1 = tau_{k-1}/tau_{k+1}), so that for every exact solution
   x* of A x = b and every degree k
         tau_k (x* - sweep_k(b, x0)) = T_k(Z) (x* - x0),      i.e.   E_k(B) = T_k((d I - B)/c) / T_k(d/c).
   Field laws as hypotheses; c, 1+1, d and tau_1..tau_k non-zero -- which cannot fail in an ordered field for the (c, d)
   the constructor computes from hi0 > 0, 0 <= lower < higher (last theorem of the section).
   ===================================================================================== *)
From Amgcl Require Import AmgOrder ChebyPoly ChebyPolyQc.

Section ChebyshevPolynomial.
Variable S : Scalar.
Hypothesis Sft : Sfield S.
Hypothesis Seqb : seqb_spec S.
Variables (c d : S) (M : option (vec S)) (A : crs S).
Hypothesis Nc : c <> s0.
Hypothesis N2 : @c_two S <> s0.

(* the coefficients computed by the code are the Chebyshev coefficients (k = 1 from the closed formula, k >= 2 from
   alpha_{k-1}); beta = alpha d - 1 in both *)
Theorem C06_cheby_coefficients_are_chebyshev :
  (forall alpha, tau c d 2 <> s0 ->
     cheby_coef c_two c_quarter c d 1 alpha =
     (c_two * tau c d 1 / (c * tau c d 2), c_two * tau c d 1 / (c * tau c d 2) * d - s1)) /\
  (forall K k alpha, tau c d (Datatypes.S k) <> s0 -> tau c d (Datatypes.S (Datatypes.S k)) <> s0 ->
     alpha = c_two * tau c d k / (c * tau c d (Datatypes.S k)) ->
     cheby_coef c_two c_quarter c d (Datatypes.S (Datatypes.S K)) alpha =
     (c_two * tau c d (Datatypes.S k) / (c * tau c d (Datatypes.S (Datatypes.S k))),
      c_two * tau c d (Datatypes.S k) / (c * tau c d (Datatypes.S (Datatypes.S k))) * d - s1)).
Proof. exact (conj (coef_1 Sft c d Nc) (coef_k Sft c d Nc N2)). Qed.

(* T_k(Z) on an eigenvector of B *)
Theorem C06_cheby_polynomial_on_eigenvector (lam : S) (v : vec S) : length v = nrows A ->
  (forall i, i < nrows A -> vget (Bop M A v) i = lam * vget v i) ->
  forall k i, i < nrows A -> vget (Tz c d M A k v) i = cheb ((d - lam) / c) k * vget v i.
Proof. exact (Tz_eigenvector Sft c d M A lam v). Qed.

Hypothesis Nd : d <> s0.
Hypothesis Hwf : wf A = true.
Hypothesis HM : forall m, M = Some m -> length m = nrows A.

(* THE THEOREM (p, r: the uninitialised workspaces of the object) *)
Theorem C06_cheby_error_polynomial (b xs x0 : vec S) degree (p r : vec S) :
  length b = nrows A -> length xs = nrows A -> length x0 = nrows A -> length p = nrows A -> length r = nrows A ->
  (forall i, i < nrows A -> Ax A xs i = vget b i) ->
  (forall m, 1 <= m -> m <= degree -> tau c d m <> s0) ->
  forall i, i < nrows A ->
    tau c d degree * (vget xs i - vget (cheby_sweep (c, d, M) degree A b x0 p r) i)
    = vget (Tz c d M A degree (errv A xs x0)) i.
Proof.
  exact (fun Lb Lxs Lx0 Lp Lr Hsol =>
    cheby_sweep_error_polynomial Sft Seqb c d M A Nc N2 b xs x0 Hwf Lb Lxs Lx0 HM Hsol Nd degree p r Lp Lr).
Qed.

(* corollary: an error that is an eigenvector of B for lambda is multiplied by T_k((d - lambda)/c) / T_k(d/c) *)
Theorem C06_cheby_error_polynomial_eigenvector (b xs x0 : vec S) degree (lam : S) (p r : vec S) :
  length b = nrows A -> length xs = nrows A -> length x0 = nrows A -> length p = nrows A -> length r = nrows A ->
  (forall i, i < nrows A -> Ax A xs i = vget b i) ->
  (forall m, 1 <= m -> m <= degree -> tau c d m <> s0) ->
  (forall i, i < nrows A -> vget (Bop M A (errv A xs x0)) i = lam * (vget xs i - vget x0 i)) ->
  forall i, i < nrows A ->
    vget xs i - vget (cheby_sweep (c, d, M) degree A b x0 p r) i
    = cheb ((d - lam) / c) degree / tau c d degree * (vget xs i - vget x0 i).
Proof.
  exact (fun Lb Lxs Lx0 Lp Lr Hsol =>
    cheby_sweep_eigenvector Sft Seqb c d M A Nc N2 b xs x0 Hwf Lb Lxs Lx0 HM Hsol Nd degree lam p r Lp Lr).
Qed.

(* without an exact solution: the sweep is affine in x with linear part E_k(B) -- two sweeps with the same right-hand
   side differ by E_k(B) applied to the difference of the initial vectors; the homogeneous sweep is E_k(B) itself *)
Theorem C06_cheby_sweep_affine_with_polynomial_linear_part degree (b x y p r p1 r1 : vec S) :
  length b = nrows A -> length x = nrows A -> length y = nrows A ->
  length p = nrows A -> length r = nrows A -> length p1 = nrows A -> length r1 = nrows A ->
  (forall m, 1 <= m -> m <= degree -> tau c d m <> s0) ->
  forall i, i < nrows A ->
    tau c d degree * (vget (cheby_sweep (c, d, M) degree A b x p r) i - vget (cheby_sweep (c, d, M) degree A b y p1 r1) i)
    = vget (Tz c d M A degree (mkvec (nrows A) (fun j => vget x j - vget y j))) i.
Proof. exact (cheby_sweep_affine_polynomial Sft Seqb c d M A Nc N2 Nd Hwf HM degree b x y p r p1 r1). Qed.

Theorem C06_cheby_homogeneous_sweep_is_polynomial degree (z e p r : vec S) :
  length z = nrows A -> length e = nrows A -> length p = nrows A -> length r = nrows A ->
  (forall i, i < nrows A -> vget z i = s0) ->
  (forall m, 1 <= m -> m <= degree -> tau c d m <> s0) ->
  forall i, i < nrows A ->
    tau c d degree * vget (cheby_sweep (c, d, M) degree A z e p r) i = vget (Tz c d M A degree e) i.
Proof. exact (cheby_sweep_homogeneous Sft Seqb c d M A Nc N2 Nd Hwf HM degree z e p r). Qed.
End ChebyshevPolynomial.
Print Assumptions C06_cheby_coefficients_are_chebyshev.
Print Assumptions C06_cheby_polynomial_on_eigenvector.
Print Assumptions C06_cheby_error_polynomial.
Print Assumptions C06_cheby_error_polynomial_eigenvector.
Print Assumptions C06_cheby_sweep_affine_with_polynomial_linear_part.
Print Assumptions C06_cheby_homogeneous_sweep_is_polynomial.

(* ordered field: the (c, d) of the constructor satisfy 0 < c <= d, then tau_k >= 1 for every k and 1 + 1 <> 0:
   every non-vanishing hypothesis above holds *)
Theorem C06_cheby_polynomial_hypotheses_hold_in_ordered_field (S : Scalar) (Sft : Sfield S) (Ord : ordered S)
        (hi0 lower higher : S) :
  olt s0 hi0 -> ole s0 lower -> olt lower higher ->
  let '(c, d) := cheby_cd c_half hi0 lower higher in
  c <> s0 /\ d <> s0 /\ @c_two S <> s0 /\ forall k, ole s1 (tau c d k) /\ tau c d k <> s0.
Proof. exact (cheby_hypotheses_ordered Sft Ord hi0 lower higher). Qed.
Print Assumptions C06_cheby_polynomial_hypotheses_hold_in_ordered_field.

(* closed instance at the exact rationals *)
Theorem C06_cheby_error_polynomial_Qc (c d : QcS) (M : option (vec QcS)) (A : crs QcS) (b xs x0 : vec QcS) degree (p r : vec QcS) :
  c <> s0 -> d <> s0 -> wf A = true -> (forall m, M = Some m -> length m = nrows A) ->
  length b = nrows A -> length xs = nrows A -> length x0 = nrows A -> length p = nrows A -> length r = nrows A ->
  (forall i, i < nrows A -> Ax A xs i = vget b i) ->
  (forall m, 1 <= m -> m <= degree -> tau c d m <> s0) ->
  forall i, i < nrows A ->
    tau c d degree * (vget xs i - vget (cheby_sweep (c, d, M) degree A b x0 p r) i)
    = vget (Tz c d M A degree (errv A xs x0)) i.
Proof.
  exact (fun Nc Nd Hwf HM =>
    C06_cheby_error_polynomial QcS QcS_field QcS_eqb c d M A Nc (two_neq0 QcS_field QcS_ordered_cp) Nd Hwf HM b xs x0 degree p r).
Qed.
Print Assumptions C06_cheby_error_polynomial_Qc.

(* hypotheses satisfiable + the conclusions at Qc: A = tridiag(-1, 2, -1), (c, d, M) from the constructor model with the
   Gershgorin radius, lower = 1/30, higher = 1, scale off and on, degree 2 and 3; eigenvector (1, 0, -1) *)
Example C06_cheby_error_polynomial_hypotheses_satisfiable scale :
  Sfield QcS /\ seqb_spec QcS /\ cP scale <> s0 /\ @c_two QcS <> s0 /\ dP scale <> s0 /\
  wf AP = true /\ length bP = nrows AP /\ length xsP = nrows AP /\ length x0P = nrows AP /\ length junkP = nrows AP /\
  (forall m, MP scale = Some m -> length m = nrows AP) /\
  (forall i, i < nrows AP -> Ax AP xsP i = vget bP i) /\
  (forall m, 1 <= m -> m <= 3 -> tau (cP scale) (dP scale) m <> s0).
Proof. exact (cheby_error_polynomial_hypotheses_satisfiable scale). Qed.
Example C06_cheby_error_polynomial_example scale degree : degree = 2 \/ degree = 3 ->
  forall i, i < 3 ->
    tau (cP scale) (dP scale) degree *
      (vget xsP i - vget (cheby_sweep (cheby_setup scale AP (hiP scale) lowerP higherP junkP) degree AP bP x0P junkP junkP) i)
    = vget (Tz (cP scale) (dP scale) (MP scale) AP degree (errv AP xsP x0P)) i.
Proof. exact (cheby_error_polynomial_example scale degree). Qed.
Example C06_cheby_eigenvector_example scale degree : degree = 2 \/ degree = 3 ->
  (forall i, i < 3 -> vget (Bop (MP scale) AP (errv AP xsE x0E)) i = lamE scale * (vget xsE i - vget x0E i)) /\
  (forall i, i < 3 ->
     vget xsE i - vget (cheby_sweep (cheby_setup scale AP (hiP scale) lowerP higherP junkP) degree AP bE x0E junkP junkP) i
     = cheb ((dP scale - lamE scale) / cP scale) degree / tau (cP scale) (dP scale) degree * (vget xsE i - vget x0E i)) /\
  cheb ((dP false - lamE false) / cP false) 2 / tau (cP false) (dP false) 2 = qc (-839) 1081.
Proof. exact (cheby_eigenvector_example scale degree). Qed.

(* =====================================================================================
   9. BLOCK VALUE TYPES: ONE RUN-TIME CONDITION ON math::inverse (InverseTwoSided.v, InverseTwoSidedUses.v).
   C16_inverse_two_sided: over a field a right inverse of a b x b block is a left inverse, and at the exact rationals
   math::inverse also succeeds on its own result.  So the hypothesis "math::inverse succeeded a SECOND time, on its own
   result" (sinv (sinv x) <> 0) of the closed block theorems above is redundant: what remains is the only run-time condition
   of the C++ -- math::inverse passed its assertion on every pivot block, i.e. the stored D_k = inverse(pivot_k) is not the
   out-of-domain default 0.  The older theorems are kept; each theorem below SUPERSEDES the one named in its comment.
   ===================================================================================== *)
From Amgcl Require Import InversePivotQc InverseTwoSided InverseTwoSidedUses OneInverseExamples.

(* supersedes C06_nc_block_inverse_two_sided (hypothesis  sinv (sinv x) <> 0  dropped -- it is now a conclusion) *)
Theorem C06_nc_block_inverse_two_sided_one_hypothesis (b : nat) (x : BlockS QcS b) :
  sinv x <> s0 -> x * sinv x = s1 /\ sinv x * x = s1 /\ sinv (sinv x) <> s0 /\ sinv (sinv x) = x.
Proof.
  exact (BlockS_inv_two_sided_ord QcS b QcS_field QcS_eqb eq_refl QcS_lt_irrefl QcS_lt_trans QcS_abs_0 QcS_abs_pos x).
Qed.
Print Assumptions C06_nc_block_inverse_two_sided_one_hypothesis.

(* supersedes C06_nc_ilu0_exact_on_pattern_blocks (hypothesis  D_k <> 0 /\ sinv D_k <> 0  weakened to  D_k <> 0) *)
Theorem C06_nc_ilu0_exact_on_pattern_blocks_one_inverse (b : nat) (A : crs (BlockS QcS b)) (junk : vec (BlockS QcS b))
        (L U : crs (BlockS QcS b)) (D : vec (BlockS QcS b)) :
  wf A = true -> ncols A = nrows A ->
  (forall i, i < nrows A -> sorted_strict (nth i (rows A) []) = true) ->
  has_diag A = true ->
  ilu0 A junk = Ok (L, U, D) ->
  (forall k, k < nrows A -> vget D k <> s0) ->
  forall i j, i < nrows A -> has_col j (nth i (rows A) []) = true ->
    lu_entry L U D i j = mget A i j.
Proof. exact (nc_ilu0_exact_on_pattern_blocks_one_inverse b A junk L U D). Qed.
Print Assumptions C06_nc_ilu0_exact_on_pattern_blocks_one_inverse.

(* supersedes C06_nc_ilu0_closed_pattern_exact_solve at BlockS QcS b (its Section hypothesis Hinv and  sinv D_k <> 0  are
   discharged; there was no closed block instance of the closed-pattern solve before) *)
Theorem C06_nc_ilu0_closed_exact_solve_blocks_one_inverse (b : nat) (A : crs (BlockS QcS b)) (junk : vec (BlockS QcS b))
        (L U : crs (BlockS QcS b)) (D b0 x0 : vec (BlockS QcS b)) :
  wf A = true -> ncols A = nrows A ->
  (forall i, i < nrows A -> sorted_strict (nth i (rows A) []) = true) ->
  has_diag A = true -> pat_closed A ->
  ilu0 A junk = Ok (L, U, D) ->
  (forall k, k < nrows A -> vget D k <> s0) ->
  length b0 = nrows A -> length x0 = nrows A ->
  forall i, i < nrows A -> Ax A (ilu_apply L U D b0 x0) i = vget b0 i.
Proof. exact (nc_ilu0_closed_exact_solve_blocks_one_inverse b A junk L U D b0 x0). Qed.
Print Assumptions C06_nc_ilu0_closed_exact_solve_blocks_one_inverse.

(* supersedes C06_nc_ilu0_tridiagonal_exact_solve_blocks (hypothesis  D_k <> 0 /\ sinv D_k <> 0  weakened to  D_k <> 0) *)
Theorem C06_nc_ilu0_tridiagonal_exact_solve_blocks_one_inverse (b : nat) (A : crs (BlockS QcS b)) (junk : vec (BlockS QcS b))
        (L U : crs (BlockS QcS b)) (D b0 x0 : vec (BlockS QcS b)) :
  wf A = true -> ncols A = nrows A ->
  (forall i, i < nrows A -> sorted_strict (nth i (rows A) []) = true) ->
  has_diag A = true -> tridiagonal A ->
  ilu0 A junk = Ok (L, U, D) ->
  (forall k, k < nrows A -> vget D k <> s0) ->
  length b0 = nrows A -> length x0 = nrows A ->
  forall i, i < nrows A -> Ax A (ilu_apply L U D b0 x0) i = vget b0 i.
Proof. exact (nc_ilu0_tridiagonal_exact_solve_blocks_one_inverse b A junk L U D b0 x0). Qed.
Print Assumptions C06_nc_ilu0_tridiagonal_exact_solve_blocks_one_inverse.

(* non-vacuity (OneInverseExamples.v): block tridiagonal W = [X a .; c X I; . c X] of 3 x 3 blocks whose diagonal block is the
   NON-SYMMETRIC X = [[0,2,1],[1,1,0],[3,0,1]] of C16_inverse_two_sided_nonvacuous -- X_00 = 0 and the pivot search of column 0
   selects row 2, so math::inverse exchanges rows; a = [0 0 0; 1 1 0; 0 0 0] does not commute with X.  Every hypothesis of the
   three ILU(0) theorems above holds with the single condition D_k <> 0; D_0 = inverse(X), the multiplier is c * X^-1 and not
   X^-1 * c; the conclusions computed independently: (I+L)(U+D^-1) = W on the pattern and apply() returns xs for rhs = W xs *)
Example C06_nc_ilu0_one_inverse_nonvacuous :
  (Inverse.find_pivot 3 (blk_list oi_X) (seq 0 3) 0 = 2 /\ seqb (sadj oi_X) oi_X = false /\ sinv oi_X <> s0) /\
  wf oi_W = true /\ ncols oi_W = nrows oi_W /\
  (forall i, i < nrows oi_W -> sorted_strict (nth i (rows oi_W) []) = true) /\
  has_diag oi_W = true /\ tridiagonal oi_W /\ pat_closed oi_W /\
  length oi_rhs = nrows oi_W /\
  oi_X * oi_a <> oi_a * oi_X /\
  ilu0 oi_W [] = Ok (oi_L, oi_U, oi_D) /\
  (forall k, k < nrows oi_W -> vget oi_D k <> s0) /\
  vget oi_D 0 = sinv oi_X /\ mget oi_L 1 0 = oi_c * sinv oi_X /\ mget oi_L 1 0 <> sinv oi_X * oi_c /\
  (forall i j, i < nrows oi_W -> has_col j (nth i (rows oi_W) []) = true ->
     seqb (lu_entry oi_L oi_U oi_D i j) (mget oi_W i j) = true) /\
  oi_veq (ilu_apply oi_L oi_U oi_D oi_rhs [s0; s0; s0]) oi_xs = true.
Proof. exact (conj oi_X_row_swap_nonsymmetric oi_ilu0_one_inverse_nonvacuous). Qed.
