(* KrylovMath2Qc.v -- the hypotheses of the final GMRES theorems (KrylovMath2Gmres.v) are satisfiable:
   one restart cycle of the gmres.hpp model on the example system of KrylovMathQc.v
   of this file (A = [3 0 0; 4 5 0; 0 4 1] -- upper Hessenberg, so that from r0 = e1 the Arnoldi basis is
   e1, e2, e3 and H = A; right preconditioning with the identity, f = e1, x0 = 0).  All the square roots
   met in two inner iterations are exact (norms 1, 4, 4; both rotations are (3/5, 4/5)) and there is no
   breakdown; maxiter = 1 and maxiter = 2.  (The system AH of KrylovMathQc.v breaks down luckily in the
   second step, which the theorems exclude.) *)
From Coq Require Import QArith Qcanon.
From Amgcl Require Import Scalar QcInst Vec Kernels KernelsProofs Krylov KrylovRef KrylovProofs
                          KrylovMathVec KrylovMathGmres KrylovMathLsq KrylovMathMinres KrylovMathQc
                          KrylovMathCG KrylovMath2Gmres KrylovMath2CG AmgOrder.
Local Close Scope Q_scope.
Local Close Scope Qc_scope.
Local Open Scope S_scope.
Local Notation SS := Datatypes.S.

Definition c5 : QcS := c4 + s1.
Definition AH (v : vec QcS) : vec QcS :=
  match v with
  | [a; b; c] => [c3 * a; c4 * a + c5 * b; c4 * b + c]
  | _ => v
  end.
Lemma AH_len v : length v = 3 -> length (AH v) = 3.
Proof. intro L. destruct v as [|a [|b [|c [|d v]]]]; try discriminate. reflexivity. Qed.
Lemma AH_lin : linear_on 3 AH.
Proof.
  intros a x y Lx Ly.
  destruct x as [|x1 [|x2 [|x3 [|x4 x]]]]; try discriminate.
  destruct y as [|y1 [|y2 [|y3 [|y4 y]]]]; try discriminate.
  unfold c5, c4, c3, c2. simpl. f_equal; [ring|]. f_equal; [ring|]. f_equal. ring.
Qed.

Definition prmG (k : nat) : @kprm QcS :=
  mkPrm k (qc 1 100) s0 false false 3 false s1 0 false 2 s0 false.
Definition fG : vec QcS := [s1; s0; s0].
Definition xG : vec QcS := [s0; s0; s0].
Definition junkG : @gm_ws QcS :=
  mkGmWs (fun _ _ => junkq) (fun _ => junkq) (fun _ => junkq) (fun _ => junkq)
         [junkq; junkq; junkq] (fun _ => [junkq; junkq; junkq]) (fun _ => [junkq; junkq; junkq]).
Definition epsG : QcS := qc 1 100.
(* the workspace with which the outer loop enters the first cycle, and its residual norm *)
Definition w0G : @gm_ws QcS := gm_w0 AH Pid (prmG 2) fG xG junkG.
Definition nrG : QcS := norm_b (g_r w0G).

Lemma Pid_len v : length v = 3 -> length (Pid v) = 3.
Proof. intro L. exact L. Qed.
Lemma Pid_lin : linear_on 3 Pid.
Proof. intros a x y _ _. reflexivity. Qed.

Example gmres_cycle_hypotheses_satisfiable :
  length fG = 3 /\ length xG = 3 /\
  g_r w0G = pres AH Pid (p_left (prmG 2)) fG xG /\
  nrG * nrG = rdot (g_r w0G) (g_r w0G) /\ nrG <> s0 /\
  n_j (gm_run AH Pid (prmG 2) epsG nrG w0G 0) = 2 /\ n_j (gm_run AH Pid (prmG 1) epsG nrG w0G 0) = 1 /\
  (forall i, i < 2 -> arn_h (W AH Pid false (gm_w1 nrG w0G) i) i (Kv AH Pid false (gm_w1 nrG w0G) i) <> s0) /\
  (forall i, i < 2 ->
     arn_h (W AH Pid false (gm_w1 nrG w0G) i) i (Kv AH Pid false (gm_w1 nrG w0G) i) *
     arn_h (W AH Pid false (gm_w1 nrG w0G) i) i (Kv AH Pid false (gm_w1 nrG w0G) i) =
     rdot (arn_w (W AH Pid false (gm_w1 nrG w0G) i) i (Kv AH Pid false (gm_w1 nrG w0G) i))
          (arn_w (W AH Pid false (gm_w1 nrG w0G) i) i (Kv AH Pid false (gm_w1 nrG w0G) i))) /\
  (forall i, i < 2 -> unit_rot (g_cs (W AH Pid false (gm_w1 nrG w0G) (SS i)) i) (g_sn (W AH Pid false (gm_w1 nrG w0G) (SS i)) i)) /\
  (forall i, i < 2 ->
     let dx := tail_H3 (Wb AH Pid false (gm_w1 nrG w0G) i) i (Kv AH Pid false (gm_w1 nrG w0G) i) i i in
     let dy := tail_H3 (Wb AH Pid false (gm_w1 nrG w0G) i) i (Kv AH Pid false (gm_w1 nrG w0G) i) (SS i) i in
     is_zero dy = false -> sltb (sabs dx) (sabs dy) = false -> dx <> s0).
Proof.
  split; [reflexivity|]. split; [reflexivity|]. split; [reflexivity|].
  split; [qc_eq|]. split; [qc_neq|].
  split; [vm_compute; reflexivity|]. split; [vm_compute; reflexivity|].
  split; [intros [|[|i]] Hi; try lia; qc_neq|].
  split; [intros [|[|i]] Hi; try lia; qc_eq|].
  split; [intros [|[|i]] Hi; try lia; unfold unit_rot; qc_eq|].
  intros [|[|i]] Hi; try lia; intros dx dy H1 H2; qc_neq.
Qed.

(* the conclusions on it: after one step the squared residual is 16/25, after two 256/625; no element of
   x0 + span(v_0, v_1) does better; gmres with maxiter = 2 returns exactly this iterate *)
Example gmres_cycle_example :
  let x2 := fst (gm_cycle AH Pid (prmG 2) epsG nrG xG w0G 0) in
  let x1 := fst (gm_cycle AH Pid (prmG 1) epsG nrG xG w0G 0) in
  rdot (pres AH Pid false fG x2) (pres AH Pid false fG x2) = qc 256 625 /\
  rdot (pres AH Pid false fG x1) (pres AH Pid false fG x1) = qc 16 25 /\
  (forall y : nat -> QcS,
     let z := vadd xG (Pr Pid false (comb 3 (V AH Pid false (gm_w1 nrG w0G) 2) y 2)) in
     ole (qc 256 625) (rdot (pres AH Pid false fG z) (pres AH Pid false fG z))) /\
  (exists r w, gmres AH Pid (prmG 2) fG xG junkG = (KOk r, w) /\ k_x r = x2 /\ k_it r = 2).
Proof.
  destruct gmres_cycle_hypotheses_satisfiable as (Lf & Lx & Hr & Nx & Nn & J2 & J1 & Hh & Hx & Hu & Hd).
  cbv zeta.
  assert (R2 : rdot (pres AH Pid false fG (fst (gm_cycle AH Pid (prmG 2) epsG nrG xG w0G 0)))
                    (pres AH Pid false fG (fst (gm_cycle AH Pid (prmG 2) epsG nrG xG w0G 0))) = qc 256 625) by qc_eq.
  split; [exact R2|]. split; [qc_eq|]. split.
  - intro y.
    pose proof (gm_cycle_returns_minimiser QcS_field QcS_eqb QcS_real QcS_ofQ0 QcS_ofQ1 QcS_ordered' 3 AH Pid
                  AH_len Pid_len AH_lin Pid_lin (prmG 2) fG xG w0G epsG nrG 0 Lf Lx Hr Nx Nn) as T.
    rewrite J2 in T. specialize (T Hh Hx Hu Hd). cbv zeta in T.
    destruct T as (Ej & _ & _ & _ & Min). specialize (Min y). rewrite Ej in Min.
    change (p_left (prmG 2)) with false in Min. rewrite R2 in Min. exact Min.
  - assert (Hp : k_prologue norm_b (prmG 2) fG = Go (norm_b fG)).
    { unfold k_prologue. assert (X : sltb (norm_b fG) (@eps1 QcS) = false) by (vm_compute; reflexivity).
      rewrite X. reflexivity. }
    destruct (gmres_first_cycle AH Pid (prmG 2) fG xG junkG (norm_b fG) Hp) as (r & w & E & Ex & Ei).
    + vm_compute. reflexivity.
    + vm_compute. lia.
    + vm_compute. lia.
    + exists r, w. split; [exact E|]. split.
      * rewrite Ex. apply (f_equal fst). reflexivity.
      * rewrite Ei. vm_compute. reflexivity.
Qed.

Example gmres_maxiter_monotone_example :
  let x2 := fst (gm_cycle AH Pid (with_maxiter (prmG 1) 2) epsG nrG xG w0G 0) in
  let x1 := fst (gm_cycle AH Pid (prmG 1) epsG nrG xG w0G 0) in
  ole (rdot (pres AH Pid false fG x2) (pres AH Pid false fG x2)) (rdot (pres AH Pid false fG x1) (pres AH Pid false fG x1)).
Proof.
  destruct gmres_cycle_hypotheses_satisfiable as (Lf & Lx & Hr & Nx & Nn & J2 & J1 & Hh & Hx & Hu & Hd).
  pose proof (gm_cycle_residual_nonincreasing_in_maxiter QcS_field QcS_eqb QcS_real QcS_ofQ0 QcS_ofQ1 QcS_ordered' 3 AH Pid
                AH_len Pid_len AH_lin Pid_lin (prmG 1) fG xG w0G epsG nrG 0 Lf Lx Hr Nx Nn) as T.
  change (with_maxiter (prmG 1) (SS (p_maxiter (prmG 1)))) with (prmG 2) in T.
  rewrite J2 in T. exact (T Hh Hx Hu Hd).
Qed.

(* ---------------- CG finite termination on the CG example system of KrylovMathQc.v ---------------- *)
Example cg_termination_example :
  exists k, k <= 3 /\ rk A3 P3 f3 x03 k = zeron 3 /\ A3 (xk A3 P3 f3 x03 k) = f3.
Proof.
  destruct cg_hypotheses_satisfiable as (_ & _ & _ & LA & LP & SA & SP & LinA & _ & Lf & Lx & _ & _ & _ & _).
  destruct cg_nobreak_hypotheses_satisfiable as (Apd & Ppd & _).
  exact (cg_terminates_within_n_steps QcS_field QcS_eqb QcS_real QcS_ordered' 3 A3 P3 LA LP SA SP LinA Apd Ppd f3 x03 Lf Lx).
Qed.
