(* TentativeQrGuard.v -- C04: the guard of the near-null-space theorems ("every aggregate has at least
   nullspace.cols rows") is what the code enforces: transfer_operators() passes min_aggregate = nullspace.cols to
   the aggregation, pointwise_aggregates::remove_small_aggregates (Aggregates.remove_small) deletes every
   aggregate with fewer than min_aggregate unknowns and renumbers the rest.  Proved here for block_size = 1
   (any Scalar): every aggregate that pointwise_aggregates returns has at least max(1, min_aggregate) members. *)
From Amgcl Require Import Scalar Vec Crs Kernels MatOps Aggregates Tentative Coarsen CoarsenProofs Qr QrMathRefl TentativeQr TentativeQrProofs.
Local Open Scope nat_scope.

Definition occ (id : list Z) (a : Z) : nat := length (filter (Z.eqb a) id).

Definition valid_ids (count : nat) (id : list Z) : Prop :=
  forall a, In a id -> a = removed \/ (0 <= a < Z.of_nat count)%Z.

(* ---------------------------------------------------------------- count_members *)
Lemma count_members_fold (id : list Z) (count : nat) (acc : list nat) m :
  valid_ids count id -> length acc = count -> m < count ->
  nth m (fold_left (fun cnt a => if Z.eqb a removed then cnt
                                 else upd_nth cnt (Z.to_nat a) (Datatypes.S (nth (Z.to_nat a) cnt 0))) id acc) 0
  = nth m acc 0 + occ id (Z.of_nat m).
Proof.
  revert acc. induction id as [|a l IH]; intros acc Hv HL Hm; simpl; [unfold occ; simpl; lia|].
  assert (Hv' : valid_ids count l) by (intros x Hx; apply Hv; right; exact Hx).
  unfold occ. simpl filter.
  destruct (Hv a (or_introl eq_refl)) as [Ha|Ha].
  - subst a. rewrite Z.eqb_refl. rewrite IH by assumption.
    replace (Z.eqb (Z.of_nat m) removed) with false by (symmetry; apply Z.eqb_neq; unfold removed; lia).
    reflexivity.
  - replace (Z.eqb a removed) with false by (symmetry; apply Z.eqb_neq; unfold removed; lia).
    rewrite IH by (try rewrite upd_nth_length; assumption).
    rewrite nth_upd_nth. fold (occ l (Z.of_nat m)).
    destruct (Z.eqb_spec (Z.of_nat m) a) as [E|E].
    + subst a. rewrite Nat2Z.id, Nat.eqb_refl.
      replace (Nat.ltb m (length acc)) with true by (symmetry; apply Nat.ltb_lt; lia). unfold occ. simpl. lia.
    + replace (Nat.eqb m (Z.to_nat a)) with false by (symmetry; apply Nat.eqb_neq; lia). unfold occ. simpl. lia.
Qed.

Lemma count_members_spec (id : list Z) (count : nat) m : valid_ids count id -> m < count ->
  nth m (count_members id count) 0 = occ id (Z.of_nat m).
Proof.
  intros Hv Hm. unfold count_members. rewrite (count_members_fold id count) by (try apply repeat_length; assumption).
  rewrite nth_repeat. reflexivity.
Qed.

Lemma count_members_length (id : list Z) (count : nat) : length (count_members id count) = count.
Proof.
  unfold count_members.
  assert (G : forall acc, length (fold_left (fun cnt a => if Z.eqb a removed then cnt
                 else upd_nth cnt (Z.to_nat a) (Datatypes.S (nth (Z.to_nat a) cnt 0))) id acc) = length acc).
  { induction id as [|a l IH]; intro acc; simpl; [reflexivity|]. rewrite IH.
    destruct (Z.eqb a removed); [reflexivity|apply upd_nth_length]. }
  rewrite G. apply repeat_length.
Qed.

(* ---------------------------------------------------------------- small_map *)
Section SmallMap.
Variables (bs mina : nat).
Definition kept (c : nat) : bool := negb (Nat.ltb (bs * c) mina).

Fixpoint smap_ref (cnt : list nat) (next : nat) : list Z * nat :=
  match cnt with
  | [] => ([], next)
  | c :: tl => if kept c then let r := smap_ref tl (Datatypes.S next) in (Z.of_nat next :: fst r, snd r)
               else let r := smap_ref tl next in (removed :: fst r, snd r)
  end.

Lemma small_map_ref (cnt : list nat) : small_map bs mina cnt = smap_ref cnt 0.
Proof.
  unfold small_map.
  assert (G : forall pre next,
    fold_left (fun (am : list Z * nat) c =>
                 if Nat.ltb (bs * c) mina then (fst am ++ [removed], snd am)
                 else (fst am ++ [Z.of_nat (snd am)], Datatypes.S (snd am))) cnt (pre, next)
    = (pre ++ fst (smap_ref cnt next), snd (smap_ref cnt next))).
  { induction cnt as [|c tl IH]; intros pre next; simpl; [rewrite app_nil_r; reflexivity|].
    unfold kept. destruct (Nat.ltb (bs * c) mina); simpl; rewrite IH; simpl; rewrite <- app_assoc; reflexivity. }
  rewrite G. destruct (smap_ref cnt 0); reflexivity.
Qed.

Lemma smap_ref_spec (cnt : list nat) : forall next,
  let r := smap_ref cnt next in
  length (fst r) = length cnt /\ next <= snd r /\
  (forall m, m < length cnt -> kept (nth m cnt 0) = false -> nth m (fst r) removed = removed) /\
  (forall m, m < length cnt -> kept (nth m cnt 0) = true ->
     exists v, nth m (fst r) removed = Z.of_nat v /\ next <= v < snd r) /\
  (forall m1 m2, m1 < length cnt -> m2 < length cnt -> kept (nth m1 cnt 0) = true -> kept (nth m2 cnt 0) = true ->
     nth m1 (fst r) removed = nth m2 (fst r) removed -> m1 = m2) /\
  (forall v, next <= v < snd r -> exists m, m < length cnt /\ kept (nth m cnt 0) = true /\ nth m (fst r) removed = Z.of_nat v).
Proof.
  induction cnt as [|c tl IH]; intro next; cbv zeta.
  - simpl. repeat split; try (intros; lia).
  - simpl smap_ref. destruct (kept c) eqn:Ek.
    + destruct (IH (Datatypes.S next)) as (I1 & I2 & I3 & I4 & I5 & I6). cbn [fst snd].
      split; [simpl; lia|]. split; [lia|].
      split. { intros [|m] Hm Hk; simpl in *; [congruence|apply I3; [lia|exact Hk]]. }
      split. { intros [|m] Hm Hk; simpl in *.
               - exists next. split; [reflexivity|lia].
               - destruct (I4 m ltac:(lia) Hk) as (v & Hv1 & Hv2). exists v. split; [exact Hv1|lia]. }
      split. { intros [|m1] [|m2] H1 H2 K1 K2 E; simpl in *; try reflexivity.
               - destruct (I4 m2 ltac:(lia) K2) as (v & Hv1 & Hv2). rewrite Hv1 in E. lia.
               - destruct (I4 m1 ltac:(lia) K1) as (v & Hv1 & Hv2). rewrite Hv1 in E. lia.
               - f_equal. apply I5; try assumption; lia. }
      intros v Hv. destruct (Nat.eq_dec v next) as [->|Hne].
      * exists 0. simpl. split; [lia|]. split; [exact Ek|reflexivity].
      * destruct (I6 v ltac:(lia)) as (m & Hm & Hk & Hn). exists (Datatypes.S m). simpl. split; [lia|]. split; assumption.
    + destruct (IH next) as (I1 & I2 & I3 & I4 & I5 & I6). cbn [fst snd].
      split; [simpl; lia|]. split; [lia|].
      split. { intros [|m] Hm Hk; simpl in *; [reflexivity|apply I3; [lia|exact Hk]]. }
      split. { intros [|m] Hm Hk; simpl in *; [congruence|]. apply I4; [lia|exact Hk]. }
      split. { intros [|m1] [|m2] H1 H2 K1 K2 E; simpl in *; try congruence. f_equal. apply I5; try assumption; lia. }
      intros v Hv. destruct (I6 v Hv) as (m & Hm & Hk & Hn). exists (Datatypes.S m). simpl. split; [lia|]. split; assumption.
Qed.
End SmallMap.

(* ---------------------------------------------------------------- remove_small *)
Lemma length_filter_map {X Y} (p : Y -> bool) (f : X -> Y) (l : list X) :
  length (filter p (map f l)) = length (filter (fun x => p (f x)) l).
Proof. induction l as [|x l IH]; simpl; [reflexivity|]. destruct (p (f x)); simpl; rewrite IH; reflexivity. Qed.

Theorem remove_small_big (bs mina count : nat) (id : list Z) :
  valid_ids count id -> 1 < mina ->
  let r := remove_small bs mina count id in
  valid_ids (fst r) (snd r) /\ length (snd r) = length id /\
  forall m', m' < fst r -> mina <= bs * occ (snd r) (Z.of_nat m').
Proof.
  intros Hv Hm. cbv zeta. unfold remove_small.
  replace (Nat.leb mina 1) with false by (symmetry; apply Nat.leb_gt; exact Hm).
  rewrite small_map_ref. set (cnt := count_members id count).
  destruct (smap_ref_spec bs mina cnt 0) as (I1 & I2 & I3 & I4 & I5 & I6). cbv zeta in *.
  set (mp := fst (smap_ref bs mina cnt 0)) in *. set (c' := snd (smap_ref bs mina cnt 0)) in *. cbn [fst snd].
  assert (HLc : length cnt = count) by apply count_members_length.
  set (f := fun a : Z => if Z.eqb a removed then a else nth (Z.to_nat a) mp removed).
  split; [|split].
  - intros x Hx. apply in_map_iff in Hx as (a & <- & Ha).
    destruct (Hv a Ha) as [->|Hr]; [left; reflexivity|]. unfold f.
    replace (Z.eqb a removed) with false by (symmetry; apply Z.eqb_neq; unfold removed; lia).
    destruct (kept bs mina (nth (Z.to_nat a) cnt 0)) eqn:Ek.
    + destruct (I4 (Z.to_nat a) ltac:(lia) Ek) as (v & Hv1 & Hv2). right. rewrite Hv1. lia.
    + left. apply I3; [lia|exact Ek].
  - apply map_length.
  - intros m' Hm'. destruct (I6 m' ltac:(lia)) as (m & Hmc & Hk & Hn).
    assert (E : occ (map f id) (Z.of_nat m') = occ id (Z.of_nat m)).
    { unfold occ. rewrite length_filter_map. f_equal. apply filter_ext_in. intros a Ha. unfold f.
      destruct (Hv a Ha) as [->|Hr].
      - rewrite Z.eqb_refl. unfold removed. destruct (Z.eqb_spec (Z.of_nat m') (-2)); destruct (Z.eqb_spec (Z.of_nat m) (-2)); lia.
      - replace (Z.eqb a removed) with false by (symmetry; apply Z.eqb_neq; unfold removed; lia).
        destruct (Z.eqb_spec (Z.of_nat m) a) as [Ea|Ea].
        + subst a. rewrite Nat2Z.id. fold mp in Hn. rewrite Hn. apply Z.eqb_refl.
        + apply Z.eqb_neq. intro Eq.
          destruct (kept bs mina (nth (Z.to_nat a) cnt 0)) eqn:Ek.
          * assert (m = Z.to_nat a); [|lia].
            apply I5; try assumption; try lia.
          * rewrite (I3 (Z.to_nat a) ltac:(lia) Ek) in Eq. unfold removed in Eq. lia. }
    fold f. rewrite E. rewrite <- (count_members_spec id count m Hv ltac:(lia)). fold cnt.
    unfold kept in Hk. apply Bool.negb_true_iff in Hk. apply Nat.ltb_ge in Hk. exact Hk.
Qed.

(* ---------------------------------------------------------------- members of an aggregate, block_size 1 *)
Lemma length_filter_seq {X} (p : X -> bool) (l : list X) (d : X) s :
  length (filter (fun k => p (nth (k - s) l d)) (seq s (length l))) = length (filter p l).
Proof.
  revert s. induction l as [|a l IH]; intro s; simpl; [reflexivity|].
  rewrite Nat.sub_diag.
  rewrite (filter_ext_in (fun k => p (nth (k - s) (a :: l) d)) (fun k => p (nth (k - Datatypes.S s) l d))).
  - destruct (p a); simpl; rewrite IH; reflexivity.
  - intros k Hk. apply in_seq in Hk. replace (k - s) with (Datatypes.S (k - Datatypes.S s)) by lia. reflexivity.
Qed.

Lemma members1_length (id : list Z) (m : nat) : length (members 1 id m) = occ id (Z.of_nat m).
Proof.
  unfold members, occ.
  rewrite (filter_ext (fun k => Z.leb 0 (zget id k) && Nat.eqb (Nat.div (Z.to_nat (zget id k)) 1) m)
                      (fun k => Z.eqb (Z.of_nat m) (nth (k - 0) id removed))).
  - apply (length_filter_seq (Z.eqb (Z.of_nat m)) id removed 0).
  - intro k. rewrite Nat.sub_0_r, Nat.div_1_r. unfold zget.
    destruct (Z.leb_spec 0 (nth k id removed)); cbn [andb].
    + destruct (Nat.eqb_spec (Z.to_nat (nth k id removed)) m); destruct (Z.eqb_spec (Z.of_nat m) (nth k id removed)); lia.
    + symmetry. apply Z.eqb_neq. lia.
Qed.

(* ---------------------------------------------------------------- the guard, block_size = 1 *)
Theorem min_aggregate_guard {S : Scalar} (eps2 : S) (mina : nat) (A : crs S) (junk : vec S) count id st :
  pointwise_aggregates eps2 1 mina A junk = AggOk count id st ->
  length id = nrows A /\
  (forall k, k < length id -> (0 <= zget id k)%Z -> Z.to_nat (zget id k) / 1 < count / 1) /\
  forall i, i < count / 1 -> 1 <= length (members 1 id i) /\ mina <= length (members 1 id i).
Proof.
  unfold pointwise_aggregates. cbn [Nat.eqb].
  destruct (plain_aggregates eps2 A junk) as [| |c0 id0 st0] eqn:EP; try discriminate.
  destruct (plain_aggregates_partition eps2 A junk c0 id0 st0 EP) as (Hc0 & _ & (HL & HB & HO & _)).
  assert (Hv0 : valid_ids c0 id0).
  { intros a Ha. apply (In_nth _ _ removed) in Ha as (k & Hk & <-). apply (HB k). lia. }
  intro H. injection H as <- <- <-. rewrite !Nat.div_1_r.
  destruct (Nat.leb_spec mina 1) as [Hle|Hgt].
  - unfold remove_small. replace (Nat.leb mina 1) with true by (symmetry; apply Nat.leb_le; exact Hle). cbn [fst snd].
    split; [exact HL|]. split.
    + intros k Hk H0. rewrite Nat.div_1_r. destruct (HB k ltac:(lia)) as [E|E]; [unfold removed in E; lia|lia].
    + intros i Hi. rewrite members1_length.
      assert (1 <= occ id0 (Z.of_nat i)); [|lia].
      destruct (HO i Hi) as (k & Hk & Ek). unfold occ.
      assert (Hin : In (zget id0 k) (filter (Z.eqb (Z.of_nat i)) id0)).
      { apply filter_In. split; [apply nth_In; lia|]. rewrite Ek. apply Z.eqb_refl. }
      destruct (filter (Z.eqb (Z.of_nat i)) id0); [destruct Hin|simpl; lia].
  - destruct (remove_small_big 1 mina c0 id0 Hv0 Hgt) as (Hv1 & HL1 & Hbig). cbv zeta in *.
    split; [lia|]. split.
    + intros k Hk H0. rewrite Nat.div_1_r.
      destruct (Hv1 (zget (snd (remove_small 1 mina c0 id0)) k)) as [E|E]; [apply nth_In; exact Hk|unfold removed in E; lia|lia].
    + intros i Hi. rewrite members1_length. specialize (Hbig i Hi). lia.
Qed.

(* ---------------------------------------------------------------- the pipeline of transfer_operators(), block_size = 1:
   aggregates computed with min_aggregate = nullspace.cols, then the tentative prolongation with the modelled QR.
   No hypothesis about the sizes of the aggregates is left. *)
Section Pipeline.
Variable S : Scalar.
Hypothesis Sft : Sfield S.
Hypothesis Seqb : seqb_spec S.
Hypothesis Hadj : forall x : S, sadj x = x.
Hypothesis Habs : forall x : S, (sabs x * sabs x = x * x)%S.
Hypothesis Hsqrt : forall y : S, sos y -> (ssqrt y * ssqrt y = y)%S.
Hypothesis Hreal : forall y x : S, sos y -> (y + x * x = s0)%S -> y = s0.

Theorem nullspace_pipeline_exact (eps2 : S) (cols : nat) (A : crs S) (junk : vec S) count id st (B : mat (S:=S)) (q0 : vec S) :
  0 < cols ->
  pointwise_aggregates eps2 1 cols A junk = AggOk count id st ->
  let PB := tentative_prolongation_qr 1 cols count id B q0 in
  let P := fst PB in
  nrows P = nrows A /\ ncols P = cols * count /\
  (forall k c, k < nrows A -> (0 <= zget id k)%Z -> c < cols ->
     ns_apply S cols (snd PB) (nth k (rows P) []) c = mentry B k c) /\
  (forall j1 j2, j1 < ncols P -> j2 < ncols P ->
     sumn (fun k => (mget P k j1 * mget P k j2)%S) (nrows P) = if Nat.eqb j1 j2 then s1 else s0).
Proof.
  intros Hc Hagg PB P.
  destruct (min_aggregate_guard eps2 cols A junk count id st Hagg) as (HL & Hrange & Hbig).
  assert (Hbig' : forall i, i < count / 1 -> cols <= length (members 1 id i)) by (intros i Hi; apply Hbig; exact Hi).
  split; [unfold P, PB; rewrite (nrows_P S); exact HL|].
  split; [unfold P, PB; rewrite (ncols_P S), Nat.div_1_r; reflexivity|].
  split.
  - intros k c Hk H0 Hcc. unfold P, PB.
    apply (tentative_qr_reproduces S Sft Seqb Hadj Habs Hsqrt Hreal 1 cols count id B q0 k c Hc Hcc ltac:(lia) H0).
    + apply Hrange; [lia|exact H0].
    + apply Hbig'. apply Hrange; [lia|exact H0].
  - exact (tentative_qr_orthonormal S Sft Seqb Hadj Habs Hsqrt Hreal 1 cols count id B q0 Hbig').
Qed.
End Pipeline.
